/-
  C17 helper lemmas (model: GIVerif/Model/Repo.lean, specs: GIVerif/Spec/Repo.lean).
-/
import GIVerif.Spec.Repo
import Mathlib.Data.List.TakeWhile

namespace GIVerif.Repo
open GIVerif.Py

/-! ### strtol / parse_version on digit strings -/

def AllDigits (ds : Str) : Prop := ∀ c ∈ ds, c.isDigit = true

theorem digit_not_space {c : Char} (h : c.isDigit = true) : isCSpace c = false := by
  simp only [isCSpace, Bool.or_eq_false_iff, decide_eq_false_iff_not]
  refine ⟨⟨⟨⟨⟨?_, ?_⟩, ?_⟩, ?_⟩, ?_⟩, ?_⟩ <;> (rintro rfl; exact absurd h (by decide))

theorem digit_not_sign {c : Char} (h : c.isDigit = true) : c ≠ '-' ∧ c ≠ '+' ∧ c ≠ '.' := by
  refine ⟨?_, ?_, ?_⟩ <;> (rintro rfl; exact absurd h (by decide))

theorem takeWhile_digits (ds rest : Str) (hd : AllDigits ds)
    (hr : ∀ c r, rest = c :: r → c.isDigit = false) :
    (ds ++ rest).takeWhile isDigit = ds ∧ (ds ++ rest).dropWhile isDigit = rest := by
  induction ds with
  | nil =>
    cases rest with
    | nil => simp
    | cons c r => simp [isDigit, hr c r rfl]
  | cons d ds ih =>
    have hd' : AllDigits ds := fun c hc => hd c (List.mem_cons_of_mem _ hc)
    have := ih hd'
    simp [isDigit, hd d (List.mem_cons_self), this]

/-- strtol on a non-empty run of digits followed by a non-digit (or nothing) -/
theorem strtol_digits (ds rest : Str) (hne : ds ≠ []) (hd : AllDigits ds)
    (hr : ∀ c r, rest = c :: r → c.isDigit = false) :
    strtol (ds ++ rest) = (clampLong (digitsVal ds), rest) := by
  obtain ⟨d, ds', rfl⟩ := List.exists_cons_of_ne_nil hne
  have hdd : d.isDigit = true := hd d (List.mem_cons_self)
  obtain ⟨h1, h2, _⟩ := digit_not_sign hdd
  have htw := takeWhile_digits (d :: ds') rest hd hr
  have hsp : (d :: (ds' ++ rest)).dropWhile isCSpace = d :: (ds' ++ rest) := by
    simp [List.dropWhile, digit_not_space hdd]
  have hneg : isNeg (d :: (ds' ++ rest)) = false := by
    unfold isNeg; split
    · rename_i heq; cases heq; exact absurd rfl h1
    · rfl
  have hs2 : stripSign (d :: (ds' ++ rest)) = d :: (ds' ++ rest) := by
    unfold stripSign; split
    · rename_i heq; cases heq; exact absurd rfl h1
    · rename_i heq; cases heq; exact absurd rfl h2
    · rfl
  simp only [strtol, hsp, List.cons_append, hneg, hs2]
  simp only [List.cons_append] at htw
  rw [htw.1, htw.2]
  simp

theorem digitsVal_eq (ds : Str) : digitsVal ds = Nat.ofDigitChars 10 ds 0 := rfl

theorem clampLong_small {n : Nat} (h : n < 2147483648) : toInt32 (clampLong (n : Int)) = n := by
  unfold clampLong toInt32
  split
  · omega
  · split <;> omega

/-- `parse_version` on `<digits>.<digits>` (leading zeros allowed) -/
theorem parseVersion_digits (d1 d2 : Str) (h1 : d1 ≠ []) (h2 : d2 ≠ []) (a1 : AllDigits d1) (a2 : AllDigits d2)
    (b1 : digitsVal d1 < 2147483648) (b2 : digitsVal d2 < 2147483648) :
    parseVersion (d1 ++ '.' :: d2) = some ((digitsVal d1 : Int), (digitsVal d2 : Int)) := by
  have s1 : strtol (d1 ++ '.' :: d2) = (clampLong (digitsVal d1), '.' :: d2) :=
    strtol_digits d1 ('.' :: d2) h1 a1 (by intro c r h; cases h; decide)
  have s2 : strtol d2 = (clampLong (digitsVal d2), []) := by
    have := strtol_digits d2 [] h2 a2 (by intro c r h; cases h)
    simpa using this
  have hc : (d1 ++ '.' :: d2).contains '.' = true := by simp
  unfold parseVersion
  simp only [hc, s1, s2, Bool.not_true, Bool.false_eq_true, if_false, List.isEmpty_nil, if_true,
    clampLong_small b1, clampLong_small b2]

theorem allDigits_toDigits (n : Nat) : AllDigits (Nat.toDigits 10 n) :=
  fun _ hc => Nat.isDigit_of_mem_toDigits (by decide) (by decide) hc

theorem digitsVal_toDigits (n : Nat) : digitsVal (Nat.toDigits 10 n) = n := by
  rw [digitsVal_eq]; exact Nat.ofDigitChars_ten_toDigits

/-- the decimal rendering `a.b` of two naturals -/
def dotted (a b : Nat) : Str := (toString a).toList ++ '.' :: (toString b).toList

theorem parseVersion_dotted (a b : Nat) (ha : a < 2147483648) (hb : b < 2147483648) :
    parseVersion (dotted a b) = some ((a : Int), (b : Int)) := by
  unfold dotted
  simp only [Nat.toString_eq_repr, Nat.toList_repr]
  have := parseVersion_digits (Nat.toDigits 10 a) (Nat.toDigits 10 b) Nat.toDigits_ne_nil Nat.toDigits_ne_nil
    (allDigits_toDigits a) (allDigits_toDigits b) (by rw [digitsVal_toDigits]; exact ha)
    (by rw [digitsVal_toDigits]; exact hb)
  rw [digitsVal_toDigits, digitsVal_toDigits] at this
  exact this

/-! ### compare_version is a total preorder on parseable strings -/

theorem cmpPair_antisymm (a b : Int × Int) : cmpPair b a = - cmpPair a b := by
  unfold cmpPair
  split_ifs <;> omega

theorem cmpPair_trans (a b c : Int × Int) (h1 : cmpPair a b ≤ 0) (h2 : cmpPair b c ≤ 0) : cmpPair a c ≤ 0 := by
  unfold cmpPair at *
  split_ifs at * <;> omega

theorem cmpPair_eq_zero (a b : Int × Int) : cmpPair a b = 0 ↔ a = b := by
  obtain ⟨a1, a2⟩ := a
  obtain ⟨b1, b2⟩ := b
  unfold cmpPair
  simp only [Prod.mk.injEq]
  split_ifs <;> (constructor <;> intro h <;> first | contradiction | omega)

theorem cmpPair_range (a b : Int × Int) : cmpPair a b = 1 ∨ cmpPair a b = 0 ∨ cmpPair a b = -1 := by
  unfold cmpPair
  split_ifs <;> simp

/-! ### exact search -/

theorem findInDirs_none (fs : FS) (fname : Str) : ∀ path, findInDirs fs fname path = none →
    ∀ d ∈ path, ¬ DirHas fs d fname := by
  intro path
  induction path with
  | nil => intro _ d hd; cases hd
  | cons d0 ds ih =>
    intro h d hd
    unfold findInDirs at h
    cases hl : lookupDir fs d0 with
    | none =>
      simp only [hl] at h
      rcases List.mem_cons.mp hd with rfl | hd
      · rintro ⟨es, e, hes, _, _⟩; rw [hl] at hes; cases hes
      · exact ih h d hd
    | some es =>
      simp only [hl] at h
      cases hf : es.find? (fun e => e.name == fname) with
      | some e => simp [hf] at h
      | none =>
        simp only [hf] at h
        rcases List.mem_cons.mp hd with rfl | hd
        · rintro ⟨es', e, hes, he, hn⟩
          rw [hl] at hes; cases hes
          have := List.find?_eq_none.mp hf e he
          simp [hn] at this
        · exact ih h d hd

theorem findInDirs_some (fs : FS) (fname : Str) : ∀ path f, findInDirs fs fname path = some f →
    FirstWith fs fname path f := by
  intro path
  induction path with
  | nil => intro f h; cases h
  | cons d0 ds ih =>
    intro f h
    unfold findInDirs at h
    cases hl : lookupDir fs d0 with
    | none =>
      simp only [hl] at h
      obtain ⟨pre, d, post, es, e, hp, hpre, hd, he, hf⟩ := ih f h
      refine ⟨d0 :: pre, d, post, es, e, by simp [hp], ?_, hd, he, hf⟩
      intro d' hd'
      rcases List.mem_cons.mp hd' with rfl | hd'
      · rintro ⟨es', e', hes, _, _⟩; rw [hl] at hes; cases hes
      · exact hpre d' hd'
    | some es =>
      simp only [hl] at h
      cases hf : es.find? (fun e => e.name == fname) with
      | some e =>
        simp only [hf] at h; cases h
        exact ⟨[], d0, ds, es, e, rfl, (by intro _ h; cases h), hl, hf, rfl⟩
      | none =>
        simp only [hf] at h
        obtain ⟨pre, d, post, es', e, hp, hpre, hd, he, hf'⟩ := ih f h
        refine ⟨d0 :: pre, d, post, es', e, by simp [hp], ?_, hd, he, hf'⟩
        intro d' hd'
        rcases List.mem_cons.mp hd' with rfl | hd'
        · rintro ⟨es'', e', hes, he', hn⟩
          rw [hl] at hes; cases hes
          have := List.find?_eq_none.mp hf e' he'
          simp [hn] at this
        · exact hpre d' hd'

theorem FirstWith.fileAt {fs : FS} {fname : Str} {path : List Str} {f : Found}
    (h : FirstWith fs fname path f) : FileAt fs f.path f.hdr := by
  obtain ⟨pre, d, post, es, e, _, _, hd, he, rfl⟩ := h
  have hm : e ∈ es := List.mem_of_find?_eq_some he
  have hn : e.name = fname := by simpa using List.find?_some he
  exact ⟨d, es, e, hd, hm, by simp [hn], rfl⟩

theorem lookupDir_mem {fs : FS} {d : Str} {es : List Entry} (h : lookupDir fs d = some es) : (d, es) ∈ fs := by
  unfold lookupDir at h
  cases hf : fs.find? (fun p => p.1 == d) with
  | none => simp [hf] at h
  | some q =>
    simp only [hf, Option.some.injEq] at h
    have h1 := List.mem_of_find?_eq_some hf
    have h2 : q.1 = d := by simpa using List.find?_some hf
    cases q; simp_all

/-! ### enumeration of candidates -/

/-- every version string seen so far has a candidate in a directory not later than `i` -/
def Cov (found : List Str) (cands : List Cand) (i : Nat) : Prop :=
  ∀ v ∈ found, ∃ c ∈ cands, c.version = v ∧ c.pathIndex ≤ i

theorem scanDir_spec (ns d : Str) (i : Nat) : ∀ es found cands, Cov found cands i →
    Cov (scanDir ns d i es found cands).1 (scanDir ns d i es found cands).2 i ∧
    (∀ c ∈ cands, c ∈ (scanDir ns d i es found cands).2) ∧
    (∀ c ∈ (scanDir ns d i es found cands).2, c ∈ cands ∨ c ∈ es.filterMap (candOf ns d i)) ∧
    (∀ e ∈ es, ∀ v, entryVersion ns e.name = some v → v ∈ (scanDir ns d i es found cands).1) ∧
    (∀ v ∈ found, v ∈ (scanDir ns d i es found cands).1) := by
  intro es
  induction es with
  | nil =>
    intro found cands hc
    simp only [scanDir]
    exact ⟨hc, fun _ h => h, fun _ h => Or.inl h, (by intro e he; cases he), fun _ h => h⟩
  | cons e es ih =>
    intro found cands hc
    cases hv : entryVersion ns e.name with
    | none =>
      simp only [scanDir, hv]
      obtain ⟨h1, h2, h3, h4, h5⟩ := ih found cands hc
      refine ⟨h1, h2, ?_, ?_, h5⟩
      · intro c hcm
        rcases h3 c hcm with h | h
        · exact Or.inl h
        · right; rw [List.mem_filterMap] at h ⊢
          obtain ⟨a, ha, hca⟩ := h
          exact ⟨a, List.mem_cons_of_mem _ ha, hca⟩
      · intro e' he' v hv'
        rcases List.mem_cons.mp he' with rfl | he'
        · rw [hv] at hv'; cases hv'
        · exact h4 e' he' v hv'
    | some v =>
      by_cases hcon : found.contains v = true
      · simp only [scanDir, hv, hcon, if_true]
        obtain ⟨h1, h2, h3, h4, h5⟩ := ih found cands hc
        refine ⟨h1, h2, ?_, ?_, h5⟩
        · intro c hcm
          rcases h3 c hcm with h | h
          · exact Or.inl h
          · right; rw [List.mem_filterMap] at h ⊢
            obtain ⟨a, ha, hca⟩ := h
            exact ⟨a, List.mem_cons_of_mem _ ha, hca⟩
        · intro e' he' v' hv'
          rcases List.mem_cons.mp he' with rfl | he'
          · rw [hv] at hv'; cases hv'
            exact h5 v (by simpa using hcon)
          · exact h4 e' he' v' hv'
      · simp only [scanDir, hv, hcon, if_false, Bool.false_eq_true]
        have hc' : Cov (v :: found) (⟨i, buildFilename d e.name, v, e.hdr⟩ :: cands) i := by
          intro w hw
          rcases List.mem_cons.mp hw with rfl | hw
          · exact ⟨_, List.mem_cons_self, rfl, Nat.le_refl _⟩
          · obtain ⟨c, hcm, h1, h2⟩ := hc w hw
            exact ⟨c, List.mem_cons_of_mem _ hcm, h1, h2⟩
        obtain ⟨h1, h2, h3, h4, h5⟩ := ih (v :: found) (⟨i, buildFilename d e.name, v, e.hdr⟩ :: cands) hc'
        refine ⟨h1, fun c hcm => h2 c (List.mem_cons_of_mem _ hcm), ?_, ?_, fun w hw => h5 w (List.mem_cons_of_mem _ hw)⟩
        · intro c hcm
          rcases h3 c hcm with h | h
          · rcases List.mem_cons.mp h with rfl | h
            · right; rw [List.mem_filterMap]
              exact ⟨e, List.mem_cons_self, by simp [candOf, hv]⟩
            · exact Or.inl h
          · right; rw [List.mem_filterMap] at h ⊢
            obtain ⟨a, ha, hca⟩ := h
            exact ⟨a, List.mem_cons_of_mem _ ha, hca⟩
        · intro e' he' v' hv'
          rcases List.mem_cons.mp he' with rfl | he'
          · rw [hv] at hv'; cases hv'
            exact h5 v List.mem_cons_self
          · exact h4 e' he' v' hv'

theorem Cov.mono {found : List Str} {cands : List Cand} {i j : Nat} (h : Cov found cands i) (hij : i ≤ j) :
    Cov found cands j := by
  intro v hv
  obtain ⟨c, hc, h1, h2⟩ := h v hv
  exact ⟨c, hc, h1, Nat.le_trans h2 hij⟩

theorem enumLoop_spec (fs : FS) (ns : Str) : ∀ ds i found cands, Cov found cands i →
    (∀ c ∈ cands, c ∈ enumLoop fs ns ds i found cands) ∧
    (∀ c ∈ enumLoop fs ns ds i found cands, c ∈ cands ∨ c ∈ matchesFrom fs ns ds i) ∧
    (∀ m ∈ matchesFrom fs ns ds i, ∃ c ∈ enumLoop fs ns ds i found cands,
        c.version = m.version ∧ c.pathIndex ≤ m.pathIndex) := by
  intro ds
  induction ds with
  | nil =>
    intro i found cands _
    simp only [enumLoop, matchesFrom]
    exact ⟨fun _ h => h, fun _ h => Or.inl h, (by intro m hm; cases hm)⟩
  | cons d ds ih =>
    intro i found cands hc
    cases hl : lookupDir fs d with
    | none =>
      simp only [enumLoop, matchesFrom, hl]
      exact ih i found cands hc
    | some es =>
      simp only [enumLoop, matchesFrom, hl]
      obtain ⟨s1, s2, s3, s4, _⟩ := scanDir_spec ns d i es found cands hc
      obtain ⟨e1, e2, e3⟩ := ih (i + 1) _ _ (s1.mono (Nat.le_succ i))
      refine ⟨fun c hcm => e1 c (s2 c hcm), ?_, ?_⟩
      · intro c hcm
        rcases e2 c hcm with h | h
        · rcases s3 c h with h | h
          · exact Or.inl h
          · exact Or.inr (List.mem_append_left _ h)
        · exact Or.inr (List.mem_append_right _ h)
      · intro m hm
        rcases List.mem_append.mp hm with h | h
        · rw [List.mem_filterMap] at h
          obtain ⟨e, he, hce⟩ := h
          cases hv : entryVersion ns e.name with
          | none => simp [candOf, hv] at hce
          | some v =>
            simp only [candOf, hv, Option.map_some, Option.some.injEq] at hce
            subst hce
            obtain ⟨c, hcm, h1, h2⟩ := s1 v (s4 e he v hv)
            exact ⟨c, e1 c hcm, h1, h2⟩
        · exact e3 m h

theorem enumerate_sound (fs : FS) (ns : Str) (path : List Str) :
    ∀ c ∈ enumerateVersions fs ns path, c ∈ allMatches fs ns path := by
  intro c hc
  have := (enumLoop_spec fs ns path 0 [] [] (by intro v hv; cases hv)).2.1 c hc
  rcases this with h | h
  · cases h
  · exact h

theorem enumerate_complete (fs : FS) (ns : Str) (path : List Str) :
    ∀ m ∈ allMatches fs ns path, ∃ c ∈ enumerateVersions fs ns path,
      c.version = m.version ∧ c.pathIndex ≤ m.pathIndex :=
  (enumLoop_spec fs ns path 0 [] [] (by intro v hv; cases hv)).2.2

def CandOk (c : Cand) : Prop := (parseVersion c.version).isSome = true

theorem entryVersion_ok {ns name v : Str} (h : entryVersion ns name = some v) :
    (parseVersion v).isSome = true := by
  simp only [entryVersion] at h
  split_ifs at h with h1 h2 h3 h4
  cases h
  exact h4

theorem matches_ok (fs : FS) (ns : Str) : ∀ ds i, ∀ c ∈ matchesFrom fs ns ds i, CandOk c := by
  intro ds
  induction ds with
  | nil => intro i c hc; cases hc
  | cons d ds ih =>
    intro i c hc
    unfold matchesFrom at hc
    cases hl : lookupDir fs d with
    | none => rw [hl] at hc; exact ih i c hc
    | some es =>
      rw [hl] at hc
      rcases List.mem_append.mp hc with h | h
      · rw [List.mem_filterMap] at h
        obtain ⟨e, _, hce⟩ := h
        cases hv : entryVersion ns e.name with
        | none => simp [candOf, hv] at hce
        | some v =>
          simp only [candOf, hv, Option.map_some, Option.some.injEq] at hce
          subst hce
          exact entryVersion_ok hv
      · exact ih (i + 1) c h

theorem matches_fileAt (fs : FS) (ns : Str) : ∀ ds i, ∀ c ∈ matchesFrom fs ns ds i, FileAt fs c.path c.hdr := by
  intro ds
  induction ds with
  | nil => intro i c hc; cases hc
  | cons d ds ih =>
    intro i c hc
    unfold matchesFrom at hc
    cases hl : lookupDir fs d with
    | none => rw [hl] at hc; exact ih i c hc
    | some es =>
      rw [hl] at hc
      rcases List.mem_append.mp hc with h | h
      · rw [List.mem_filterMap] at h
        obtain ⟨e, he, hce⟩ := h
        cases hv : entryVersion ns e.name with
        | none => simp [candOf, hv] at hce
        | some v =>
          simp only [candOf, hv, Option.map_some, Option.some.injEq] at hce
          subst hce
          exact ⟨d, es, e, hl, he, rfl, rfl⟩
      · exact ih (i + 1) c h

/-! ### the candidate order and the sort -/

theorem cmpCand_le_iff (c1 c2 : Cand) (h1 : CandOk c1) (h2 : CandOk c2) :
    cmpCand c1 c2 ≤ 0 ↔ Beats c1 c2 := by
  unfold CandOk at h1 h2
  obtain ⟨a, ha⟩ := Option.isSome_iff_exists.mp h1
  obtain ⟨b, hb⟩ := Option.isSome_iff_exists.mp h2
  obtain ⟨a1, a2⟩ := a
  obtain ⟨b1, b2⟩ := b
  unfold cmpCand compareVersion Beats verKey
  simp only [ha, hb, Option.getD_some, Prod.mk.injEq]
  unfold cmpPair
  simp only
  split_ifs <;> (constructor <;> intro h <;> first | contradiction | omega)

theorem beats_refl (c : Cand) : Beats c c := Or.inr (Or.inr ⟨rfl, Nat.le_refl _⟩)

theorem beats_total (c1 c2 : Cand) : Beats c1 c2 ∨ Beats c2 c1 := by
  unfold Beats
  obtain ⟨a1, a2⟩ := verKey c1
  obtain ⟨b1, b2⟩ := verKey c2
  simp only [Prod.mk.injEq]
  omega

theorem beats_trans (c1 c2 c3 : Cand) (h1 : Beats c1 c2) (h2 : Beats c2 c3) : Beats c1 c3 := by
  unfold Beats at *
  generalize verKey c1 = k1 at *
  generalize verKey c2 = k2 at *
  generalize verKey c3 = k3 at *
  obtain ⟨a1, a2⟩ := k1
  obtain ⟨b1, b2⟩ := k2
  obtain ⟨d1, d2⟩ := k3
  simp only [Prod.mk.injEq] at *
  omega

/-- `Beats` only looks at the version value and the directory number -/
theorem beats_congr (c m m' : Cand) (hv : m'.version = m.version) (hi : m.pathIndex ≤ m'.pathIndex)
    (h : Beats c m) : Beats c m' := by
  unfold Beats verKey at *
  rw [hv]
  generalize (parseVersion c.version).getD (0, 0) = k1 at *
  generalize (parseVersion m.version).getD (0, 0) = k2 at *
  obtain ⟨a1, a2⟩ := k1
  obtain ⟨b1, b2⟩ := k2
  simp only [Prod.mk.injEq] at *
  omega

theorem mem_insertCand (c x : Cand) : ∀ l, x ∈ insertCand c l ↔ x = c ∨ x ∈ l := by
  intro l
  induction l with
  | nil => simp [insertCand]
  | cons y ys ih =>
    unfold insertCand
    split
    · simp
    · simp only [List.mem_cons, ih]
      constructor
      · rintro (h | h | h) <;> simp [h]
      · rintro (h | h | h) <;> simp [h]

theorem mem_sortCands (x : Cand) : ∀ l, x ∈ sortCands l ↔ x ∈ l := by
  intro l
  induction l with
  | nil => simp [sortCands]
  | cons c cs ih => simp [sortCands, mem_insertCand, ih]

theorem sortCands_head (l : List Cand) (hok : ∀ c ∈ l, CandOk c) :
    ∀ h, (sortCands l).head? = some h → h ∈ l ∧ ∀ x ∈ l, Beats h x := by
  induction l with
  | nil => intro h hh; simp [sortCands] at hh
  | cons c cs ih =>
    intro h hh
    have hokc : CandOk c := hok c List.mem_cons_self
    have hokcs : ∀ x ∈ cs, CandOk x := fun x hx => hok x (List.mem_cons_of_mem _ hx)
    simp only [sortCands] at hh
    cases hs : sortCands cs with
    | nil =>
      have hcs : cs = [] := by
        cases cs with
        | nil => rfl
        | cons y ys =>
          have : y ∈ sortCands (y :: ys) := (mem_sortCands y _).mpr List.mem_cons_self
          rw [hs] at this; cases this
      subst hcs
      rw [hs] at hh
      have e : h = c := by simpa [insertCand] using hh.symm
      subst e
      exact ⟨List.mem_cons_self, (by intro x hx; simp at hx; subst hx; exact beats_refl _)⟩
    | cons h' t =>
      rw [hs] at hh
      obtain ⟨ih1, ih2⟩ := ih hokcs h' (by rw [hs]; rfl)
      unfold insertCand at hh
      split at hh
      · rename_i hle
        have e : h = c := by simpa using hh.symm
        subst e
        have hb : Beats h h' := (cmpCand_le_iff h h' hokc (hokcs h' ih1)).mp hle
        refine ⟨List.mem_cons_self, ?_⟩
        intro x hx
        rcases List.mem_cons.mp hx with rfl | hx
        · exact beats_refl _
        · exact beats_trans _ _ _ hb (ih2 x hx)
      · rename_i hnle
        have e : h = h' := by simpa using hh.symm
        subst e
        have hb : Beats h c := by
          rcases beats_total h c with hb | hb
          · exact hb
          · exact absurd ((cmpCand_le_iff c h hokc (hokcs h ih1)).mpr hb) hnle
        refine ⟨List.mem_cons_of_mem _ ih1, ?_⟩
        intro x hx
        rcases List.mem_cons.mp hx with rfl | hx
        · exact hb
        · exact ih2 x hx

theorem sortCands_nil_iff (l : List Cand) : sortCands l = [] ↔ l = [] := by
  constructor
  · intro h
    cases l with
    | nil => rfl
    | cons y ys =>
      have : y ∈ sortCands (y :: ys) := (mem_sortCands y _).mpr List.mem_cons_self
      rw [h] at this; cases this
  · rintro rfl; rfl

/-- the election: what `find_namespace_latest` returns beats every file that counts -/
theorem findLatest_elected (fs : FS) (ns : Str) (path : List Str) (c : Cand)
    (h : findLatest fs ns path = some c) : Elected fs ns path c := by
  unfold findLatest at h
  have hok : ∀ x ∈ enumerateVersions fs ns path, CandOk x :=
    fun x hx => matches_ok fs ns path 0 x (enumerate_sound fs ns path x hx)
  obtain ⟨hm, hb⟩ := sortCands_head _ hok c h
  refine ⟨enumerate_sound fs ns path c hm, ?_⟩
  intro m hmm
  obtain ⟨c', hc', hv, hi⟩ := enumerate_complete fs ns path m hmm
  exact beats_congr c c' m hv.symm hi (hb c' hc')

theorem findLatest_none_iff (fs : FS) (ns : Str) (path : List Str) :
    findLatest fs ns path = none ↔ allMatches fs ns path = [] := by
  unfold findLatest
  rw [List.head?_eq_none_iff, sortCands_nil_iff]
  constructor
  · intro h
    cases hm : allMatches fs ns path with
    | nil => rfl
    | cons m ms =>
      obtain ⟨c, hc, _⟩ := enumerate_complete fs ns path m (by rw [hm]; exact List.mem_cons_self)
      rw [h] at hc; cases hc
  · intro h
    cases he : enumerateVersions fs ns path with
    | nil => rfl
    | cons c cs =>
      have := enumerate_sound fs ns path c (by rw [he]; exact List.mem_cons_self)
      rw [h] at this; cases this

/-! ### tables -/

theorem lookupTbl_none {tbl : List Loaded} {ns : Str} :
    lookupTbl tbl ns = none ↔ ∀ l ∈ tbl, l.ns ≠ ns := by
  simp [lookupTbl, List.find?_eq_none]

theorem lookupTbl_some {tbl : List Loaded} {ns : Str} {l : Loaded} (h : lookupTbl tbl ns = some l) :
    l ∈ tbl ∧ l.ns = ns :=
  ⟨List.mem_of_find?_eq_some h, by simpa using List.find?_some h⟩

theorem insertTbl_fresh : ∀ (tbl : List Loaded) (src : Str) (tl : Typelib),
    (∀ l ∈ tbl, l.ns ≠ tl.hdr.ns) → insertTbl tbl src tl = tbl ++ [⟨src, tl⟩] := by
  intro tbl
  induction tbl with
  | nil => intro src tl _; rfl
  | cons x xs ih =>
    intro src tl h
    have hx : x.ns ≠ tl.hdr.ns := h x List.mem_cons_self
    simp only [insertTbl, List.cons_append]
    rw [if_neg (by simpa using hx), ih src tl (fun l hl => h l (List.mem_cons_of_mem _ hl))]

theorem DepLoaded.mono {s s' : Repo} {d : Str} (h : ∀ l ∈ s.typelibs, l ∈ s'.typelibs)
    (hd : DepLoaded s d) : DepLoaded s' d := by
  obtain ⟨dn, dv, h1, l, hl, h2, h3⟩ := hd
  exact ⟨dn, dv, h1, l, h l hl, h2, h3⟩

theorem Inv.addEager {fs : FS} {s : Repo} (hinv : Inv fs s) (n : Loaded)
    (hE : ∀ l ∈ s.typelibs, l.ns ≠ n.ns) (hL : ∀ l ∈ s.lazy, l.ns ≠ n.ns)
    (hdeps : ∀ d ∈ n.tl.hdr.deps, DepLoaded s d)
    (hsrc : n.source = builtinSource ∨ FileAt fs n.source n.tl.hdr) :
    Inv fs { s with typelibs := s.typelibs ++ [n] } := by
  have hsub : ∀ l ∈ s.typelibs, l ∈ ({ s with typelibs := s.typelibs ++ [n] } : Repo).typelibs :=
    fun l hl => List.mem_append_left _ hl
  refine ⟨?_, hinv.nodupL, ?_, ?_, ?_⟩
  · simp only [List.map_append, List.map_cons, List.map_nil]
    rw [List.nodup_append]
    refine ⟨hinv.nodupE, by simp, ?_⟩
    intro a ha b hb
    simp only [List.mem_singleton] at hb
    subst hb
    obtain ⟨l, hl, rfl⟩ := List.mem_map.mp ha
    exact hE l hl
  · intro l hl l' hl'
    rcases List.mem_append.mp hl with h | h
    · exact hinv.disj l h l' hl'
    · simp only [List.mem_singleton] at h
      subst h
      exact (hL l' hl').symm
  · intro l hl d hd
    rcases List.mem_append.mp hl with h | h
    · exact (hinv.deps l h d hd).mono hsub
    · simp only [List.mem_singleton] at h
      subst h
      exact (hdeps d hd).mono hsub
  · intro l hl
    simp only [List.mem_append, List.mem_singleton] at hl
    rcases hl with (h | h) | h
    · exact hinv.paths l (List.mem_append_left _ h)
    · subst h; exact hsrc
    · exact hinv.paths l (List.mem_append_right _ h)

theorem Inv.addLazy {fs : FS} {s : Repo} (hinv : Inv fs s) (n : Loaded)
    (hE : ∀ l ∈ s.typelibs, l.ns ≠ n.ns) (hL : ∀ l ∈ s.lazy, l.ns ≠ n.ns)
    (hsrc : n.source = builtinSource ∨ FileAt fs n.source n.tl.hdr) :
    Inv fs { s with lazy := s.lazy ++ [n] } := by
  refine ⟨hinv.nodupE, ?_, ?_, ?_, ?_⟩
  · simp only [List.map_append, List.map_cons, List.map_nil]
    rw [List.nodup_append]
    refine ⟨hinv.nodupL, by simp, ?_⟩
    intro a ha b hb
    simp only [List.mem_singleton] at hb
    subst hb
    obtain ⟨l, hl, rfl⟩ := List.mem_map.mp ha
    exact hL l hl
  · intro l hl l' hl'
    rcases List.mem_append.mp hl' with h | h
    · exact hinv.disj l hl l' h
    · simp only [List.mem_singleton] at h
      subst h
      exact hE l hl
  · intro l hl d hd
    exact (hinv.deps l hl d hd).mono (fun _ h => h)
  · intro l hl
    simp only [List.mem_append, List.mem_singleton] at hl
    rcases hl with h | h | h
    · exact hinv.paths l (List.mem_append_left _ h)
    · exact hinv.paths l (List.mem_append_right _ h)
    · subst h; exact hsrc

theorem mem_eraseTbl {tbl : List Loaded} {ns : Str} {l : Loaded} :
    l ∈ eraseTbl tbl ns ↔ l ∈ tbl ∧ l.ns ≠ ns := by
  simp [eraseTbl]

/-- the lazy → eager transition: the entry of `n.ns` leaves the lazy table, `n` joins the eager one -/
theorem Inv.promote {fs : FS} {s : Repo} (hinv : Inv fs s) (n : Loaded)
    (hE : ∀ l ∈ s.typelibs, l.ns ≠ n.ns)
    (hdeps : ∀ d ∈ n.tl.hdr.deps, DepLoaded s d)
    (hsrc : n.source = builtinSource ∨ FileAt fs n.source n.tl.hdr) :
    Inv fs { s with lazy := eraseTbl s.lazy n.ns, typelibs := s.typelibs ++ [n] } := by
  have hsub : ∀ l ∈ s.typelibs, l ∈ s.typelibs ++ [n] := fun l hl => List.mem_append_left _ hl
  refine ⟨?_, ?_, ?_, ?_, ?_⟩
  · simp only [List.map_append, List.map_cons, List.map_nil]
    rw [List.nodup_append]
    refine ⟨hinv.nodupE, by simp, ?_⟩
    intro a ha b hb
    simp only [List.mem_singleton] at hb
    subst hb
    obtain ⟨l, hl, rfl⟩ := List.mem_map.mp ha
    exact hE l hl
  · exact (List.filter_sublist.map Loaded.ns).nodup hinv.nodupL
  · intro l hl l' hl'
    obtain ⟨hm', hne'⟩ := mem_eraseTbl.mp hl'
    rcases List.mem_append.mp hl with h | h
    · exact hinv.disj l h l' hm'
    · simp only [List.mem_singleton] at h
      subst h
      exact hne'.symm
  · intro l hl d hd
    rcases List.mem_append.mp hl with h | h
    · exact (hinv.deps l h d hd).mono hsub
    · simp only [List.mem_singleton] at h
      subst h
      exact (hdeps d hd).mono hsub
  · intro l hl
    simp only [List.mem_append, List.mem_singleton] at hl
    rcases hl with (h | h) | h
    · exact hinv.paths l (List.mem_append_left _ h)
    · subst h; exact hsrc
    · exact hinv.paths l (List.mem_append_right _ (mem_eraseTbl.mp h).1)

/-- the invariant only looks at the two tables -/
theorem Inv.congr {fs : FS} {s s' : Repo} (hinv : Inv fs s) (h1 : s'.typelibs = s.typelibs)
    (h2 : s'.lazy = s.lazy) : Inv fs s' := by
  refine ⟨by rw [h1]; exact hinv.nodupE, by rw [h2]; exact hinv.nodupL, ?_, ?_, ?_⟩
  · rw [h1, h2]; exact hinv.disj
  · rw [h1]; intro l hl d hd
    exact (hinv.deps l hl d hd).mono (by rw [h1]; exact fun _ h => h)
  · rw [h1, h2]; exact hinv.paths

/-! ### the status of a namespace -/

theorem check_cases (t : Typelib) (ver : Option Str) :
    (checkVersionConflict t ver = .found t ∧ ∀ v, ver = some v → t.hdr.ver = v) ∨
    ∃ v, checkVersionConflict t ver = .conflict v := by
  unfold checkVersionConflict
  cases ver with
  | none => exact Or.inl ⟨rfl, by intro v hv; cases hv⟩
  | some v =>
    by_cases hv : v = t.hdr.ver
    · left
      simp only [hv, if_true]
      exact ⟨trivial, by intro v' hv'; cases hv'; rfl⟩
    · right
      exact ⟨t.hdr.ver, by simp [hv]⟩

theorem check_found {t tl : Typelib} {ver : Option Str} (h : checkVersionConflict t ver = .found tl) :
    t = tl ∧ ∀ v, ver = some v → tl.hdr.ver = v := by
  rcases check_cases t ver with ⟨hc, hv⟩ | ⟨v, hc⟩
  · rw [hc] at h
    cases h
    exact ⟨rfl, hv⟩
  · rw [hc] at h; cases h

theorem check_not_absent (t : Typelib) (ver : Option Str) (o : Option Loaded) :
    checkVersionConflict t ver ≠ .absent o := by
  rcases check_cases t ver with ⟨hc, _⟩ | ⟨v, hc⟩ <;> rw [hc] <;> simp

theorem status_found {s : Repo} {ns : Str} {ver : Option Str} {lazy : Bool} {tl : Typelib}
    (h : getRegisteredStatus s ns ver lazy = .found tl) :
    tl.hdr.ns = ns ∧ (∀ v, ver = some v → tl.hdr.ver = v) ∧
      ((∃ l ∈ s.typelibs, l.tl = tl) ∨ (lazy = true ∧ ∃ l ∈ s.lazy, l.tl = tl)) := by
  unfold getRegisteredStatus at h
  cases hE : lookupTbl s.typelibs ns with
  | some l =>
    simp only [hE] at h
    obtain ⟨h1, h2⟩ := check_found h
    obtain ⟨hm, hn⟩ := lookupTbl_some hE
    exact ⟨by rw [← h1]; exact hn, h2, Or.inl ⟨l, hm, h1⟩⟩
  | none =>
    simp only [hE] at h
    cases hL : lookupTbl s.lazy ns with
    | none => simp [hL] at h
    | some l =>
      simp only [hL] at h
      cases lazy with
      | false =>
        simp only [Bool.not_false, if_true] at h
        rcases check_cases l.tl ver with ⟨hc, _⟩ | ⟨v, hc⟩ <;> rw [hc] at h <;> simp at h
      | true =>
        simp only [Bool.not_true, Bool.false_eq_true, if_false] at h
        obtain ⟨h1, h2⟩ := check_found h
        obtain ⟨hm, hn⟩ := lookupTbl_some hL
        exact ⟨by rw [← h1]; exact hn, h2, Or.inr ⟨rfl, l, hm, h1⟩⟩

/-- NULL, no conflict, `*lazy_status` FALSE: the namespace is in neither table -/
theorem status_absent_none {s : Repo} {ns : Str} {ver : Option Str} {lazy : Bool}
    (h : getRegisteredStatus s ns ver lazy = .absent none) :
    lookupTbl s.typelibs ns = none ∧ lookupTbl s.lazy ns = none := by
  unfold getRegisteredStatus at h
  cases hE : lookupTbl s.typelibs ns with
  | some l => simp only [hE] at h; exact absurd h (check_not_absent l.tl ver none)
  | none =>
    refine ⟨rfl, ?_⟩
    simp only [hE] at h
    cases hL : lookupTbl s.lazy ns with
    | none => rfl
    | some l =>
      simp only [hL] at h
      cases lazy with
      | false =>
        simp only [Bool.not_false, if_true] at h
        rcases check_cases l.tl ver with ⟨hc, _⟩ | ⟨v, hc⟩ <;> rw [hc] at h <;> simp at h
      | true =>
        simp only [Bool.not_true, Bool.false_eq_true, if_false] at h
        exact absurd h (check_not_absent l.tl ver none)

/-- NULL, no conflict, `*lazy_status` TRUE: lazily loaded at an agreeing version, LAZY flag absent -/
theorem status_absent_some {s : Repo} {ns : Str} {ver : Option Str} {lazy : Bool} {l : Loaded}
    (h : getRegisteredStatus s ns ver lazy = .absent (some l)) :
    lookupTbl s.typelibs ns = none ∧ lookupTbl s.lazy ns = some l ∧ lazy = false ∧
      ∀ v, ver = some v → l.tl.hdr.ver = v := by
  unfold getRegisteredStatus at h
  cases hE : lookupTbl s.typelibs ns with
  | some l' => simp only [hE] at h; exact absurd h (check_not_absent l'.tl ver _)
  | none =>
    simp only [hE] at h
    cases hL : lookupTbl s.lazy ns with
    | none => simp [hL] at h
    | some l' =>
      simp only [hL] at h
      cases lazy with
      | false =>
        simp only [Bool.not_false, if_true] at h
        rcases check_cases l'.tl ver with ⟨hc, hv⟩ | ⟨v, hc⟩
        · rw [hc] at h
          simp only [Status.absent.injEq, Option.some.injEq] at h
          subst h
          exact ⟨rfl, rfl, rfl, hv⟩
        · rw [hc] at h; simp at h
      | true =>
        simp only [Bool.not_true, Bool.false_eq_true, if_false] at h
        exact absurd h (check_not_absent l'.tl ver _)

theorem lookupTbl_of_mem : ∀ (tbl : List Loaded) (l : Loaded), l ∈ tbl → (tbl.map Loaded.ns).Nodup →
    lookupTbl tbl l.ns = some l := by
  intro tbl
  induction tbl with
  | nil => intro l hl; cases hl
  | cons x xs ih =>
    intro l hl hnd
    simp only [List.map_cons, List.nodup_cons] at hnd
    rcases List.mem_cons.mp hl with rfl | hl
    · simp [lookupTbl]
    · have hne : x.ns ≠ l.ns := by
        intro heq
        exact hnd.1 (heq ▸ List.mem_map_of_mem hl)
      have := ih l hl hnd.2
      simp only [lookupTbl] at this ⊢
      rw [List.find?_cons_of_neg (by simpa using hne)]
      exact this

/-! ### what one require / load does to the state -/

/-- eagerly loaded entries stay (a lazily loaded one may move to the eager table) -/
def Ext (s s' : Repo) : Prop := ∀ l ∈ s.typelibs, l ∈ s'.typelibs

/-- new entries have a rank below `bound` -/
def New (rank : Str → Nat) (s s' : Repo) (bound : Nat) : Prop :=
  (∀ l ∈ s'.typelibs, l ∈ s.typelibs ∨ rank l.ns < bound) ∧
  (∀ l ∈ s'.lazy, l ∈ s.lazy ∨ rank l.ns < bound)

/-- the lazily loaded typelibs record acyclic dependencies (those loaded from files do by `Ranked`;
    this also covers the ones loaded from memory) -/
def LazyRanked (rank : Str → Nat) (s : Repo) : Prop := ∀ l ∈ s.lazy, HdrRanked rank l.tl.hdr

structure Post (fs : FS) (rank : Str → Nat) (s s' : Repo) (bound : Nat) : Prop where
  inv : Inv fs s'
  lzr : LazyRanked rank s'
  ext : Ext s s'
  new : New rank s s' bound
  path : s'.searchPath = s.searchPath

theorem Post.refl {fs : FS} {rank : Str → Nat} {s : Repo} (h : Inv fs s) (hl : LazyRanked rank s) (b : Nat) :
    Post fs rank s s b :=
  ⟨h, hl, fun _ h => h, ⟨fun _ h => Or.inl h, fun _ h => Or.inl h⟩, rfl⟩

theorem Post.weaken {fs : FS} {rank : Str → Nat} {s s' : Repo} {b b' : Nat} (h : Post fs rank s s' b)
    (hb : b ≤ b') : Post fs rank s s' b' :=
  ⟨h.inv, h.lzr, h.ext, ⟨fun l hl => (h.new.1 l hl).imp id (fun x => Nat.lt_of_lt_of_le x hb),
    fun l hl => (h.new.2 l hl).imp id (fun x => Nat.lt_of_lt_of_le x hb)⟩, h.path⟩

theorem Post.trans {fs : FS} {rank : Str → Nat} {s s1 s2 : Repo} {b : Nat} (h1 : Post fs rank s s1 b)
    (h2 : Post fs rank s1 s2 b) : Post fs rank s s2 b :=
  ⟨h2.inv, h2.lzr, fun l hl => h2.ext l (h1.ext l hl),
   ⟨fun l hl => (h2.new.1 l hl).elim (fun x => h1.new.1 l x) Or.inr,
    fun l hl => (h2.new.2 l hl).elim (fun x => h1.new.2 l x) Or.inr⟩,
   h2.path.trans h1.path⟩

/-- contract of the recursive require used for dependencies -/
def ReqOK (fs : FS) (rank : Str → Nat) (req : Req) : Prop :=
  ∀ s dn dv, Inv fs s → LazyRanked rank s →
    Post fs rank s (req s dn dv).1 (rank dn + 1) ∧
    (∀ tl, (req s dn dv).2 = .ok tl → ∃ l ∈ (req s dn dv).1.typelibs, l.ns = dn ∧ l.tl.hdr.ver = dv)

theorem loadDeps_post {fs : FS} {rank : Str → Nat} {req : Req} (hreq : ReqOK fs rank req) :
    ∀ deps s bound, Inv fs s → LazyRanked rank s →
    (∀ d ∈ deps, ∀ dn dv, splitDep d = some (dn, dv) → rank dn < bound) →
    Post fs rank s (loadDepsWith req s deps).1 bound ∧
    (∀ u, (loadDepsWith req s deps).2 = .ok u → ∀ d ∈ deps, DepLoaded (loadDepsWith req s deps).1 d) := by
  intro deps
  induction deps with
  | nil =>
    intro s bound hinv hlzr _
    simp only [loadDepsWith]
    exact ⟨Post.refl hinv hlzr bound, by intro _ _ d hd; cases hd⟩
  | cons d ds ih =>
    intro s bound hinv hlzr hrank
    unfold loadDepsWith
    cases hsd : splitDep d with
    | none =>
      simp only
      exact ⟨Post.refl hinv hlzr bound, by intro _ h; cases h⟩
    | some p =>
      obtain ⟨dn, dv⟩ := p
      simp only
      have hdn : rank dn < bound := hrank d List.mem_cons_self dn dv hsd
      have hreq' := hreq s dn dv hinv hlzr
      cases hq : req s dn dv with
      | mk s' r =>
        rw [hq] at hreq'
        obtain ⟨hp, hok⟩ := hreq'
        cases r with
        | error e =>
          simp only
          exact ⟨hp.weaken hdn, by intro _ h; cases h⟩
        | ok t =>
          simp only
          obtain ⟨ip, iok⟩ := ih s' bound hp.inv hp.lzr
            (fun d' hd' => hrank d' (List.mem_cons_of_mem _ hd'))
          refine ⟨(hp.weaken hdn).trans ip, ?_⟩
          intro u hu d' hd'
          rcases List.mem_cons.mp hd' with rfl | hd'
          · obtain ⟨l, hl, h1, h2⟩ := hok t rfl
            exact ⟨dn, dv, hsd, l, ip.ext l hl, h1, h2⟩
          · exact iok u hu d' hd'

theorem Post.congr_left {fs : FS} {rank : Str → Nat} {s0 s s' : Repo} {b : Nat}
    (h1 : s0.typelibs = s.typelibs) (h2 : s0.lazy = s.lazy) (h3 : s0.searchPath = s.searchPath)
    (h : Post fs rank s0 s' b) : Post fs rank s s' b := by
  obtain ⟨hi, hz, he, hn, hp⟩ := h
  unfold Ext at he
  unfold New at hn
  rw [h1] at he
  rw [h1, h2] at hn
  exact ⟨hi, hz, he, hn, hp.trans h3⟩

/-- `register_internal` under the invariant.  `hlz`: a lazy entry of this namespace, if there is one,
    holds this very typelib (the promotion of `require_internal` / `load_typelib`). -/
theorem register_post {fs : FS} {rank : Str → Nat} {req : Req} (hreq : ReqOK fs rank req)
    (s : Repo) (src : Str) (lazy : Bool) (tl : Typelib) (hinv : Inv fs s) (hlzr : LazyRanked rank s)
    (hsrc : src = builtinSource ∨ FileAt fs src tl.hdr) (hrank : HdrRanked rank tl.hdr)
    (habsE : lookupTbl s.typelibs tl.hdr.ns = none)
    (habsL : lazy = true → lookupTbl s.lazy tl.hdr.ns = none)
    (hlz : ∀ l ∈ s.lazy, l.ns = tl.hdr.ns → l.tl = tl) :
    Post fs rank s (registerInternalWith req s src lazy tl).1 (rank tl.hdr.ns + 1) ∧
    (∀ t, (registerInternalWith req s src lazy tl).2 = .ok t → t = tl ∧
       (lazy = false → ∃ l ∈ (registerInternalWith req s src lazy tl).1.typelibs, l.tl = tl ∧
          (lookupTbl s.lazy tl.hdr.ns = none → l.source = src))) := by
  unfold registerInternalWith
  have hfE0 := lookupTbl_none.mp habsE
  cases lazy with
  | true =>
    have hL := habsL rfl
    have hfL := lookupTbl_none.mp hL
    simp only [if_true, hL, Option.isSome_none, Bool.false_eq_true, if_false]
    rw [insertTbl_fresh s.lazy src tl hfL]
    refine ⟨⟨hinv.addLazy ⟨src, tl⟩ hfE0 hfL hsrc, ?_, fun _ h => h,
      ⟨fun _ h => Or.inl h, ?_⟩, rfl⟩, ?_⟩
    · intro l hl
      rcases List.mem_append.mp hl with h | h
      · exact hlzr l h
      · simp only [List.mem_singleton] at h
        subst h
        exact hrank
    · intro l hl
      rcases List.mem_append.mp hl with h | h
      · exact Or.inl h
      · right
        simp only [List.mem_singleton] at h
        subst h
        exact Nat.lt_succ_self _
    · intro t ht
      simp only [Except.ok.injEq] at ht
      exact ⟨ht.symm, by intro h; cases h⟩
  | false =>
    simp only [Bool.false_eq_true, if_false]
    have hld := loadDeps_post hreq tl.hdr.deps s (rank tl.hdr.ns) hinv hlzr hrank
    cases hq : loadDepsWith req s tl.hdr.deps with
    | mk s1 r =>
      rw [hq] at hld
      obtain ⟨hp, hdeps⟩ := hld
      cases r with
      | error e =>
        simp only
        exact ⟨hp.weaken (Nat.le_succ _), by intro t h; cases h⟩
      | ok u =>
        simp only
        have hfE : ∀ l ∈ s1.typelibs, l.ns ≠ tl.hdr.ns := by
          intro l hl heq
          rcases hp.new.1 l hl with h | h
          · exact hfE0 l h heq
          · rw [heq] at h; exact Nat.lt_irrefl _ h
        cases hL : lookupTbl s1.lazy tl.hdr.ns with
        | some l =>
          -- the lazy → eager transition: the entry is one of `s` (nothing of this rank is new),
          -- so it holds `tl` itself and its source is the right one
          simp only
          obtain ⟨hlm, hln⟩ := lookupTbl_some hL
          have hold : l ∈ s.lazy := by
            rcases hp.new.2 l hlm with h | h
            · exact h
            · rw [hln] at h; exact absurd h (Nat.lt_irrefl _)
          have htl : l.tl = tl := hlz l hold hln
          rw [insertTbl_fresh s1.typelibs l.source tl hfE]
          have hsrc' : l.source = builtinSource ∨ FileAt fs l.source tl.hdr := by
            rw [← htl]; exact hp.inv.paths l (List.mem_append_right _ hlm)
          have hinv' := hp.inv.promote ⟨l.source, tl⟩ hfE (hdeps u rfl) hsrc'
          refine ⟨⟨hinv', ?_, fun x hx => List.mem_append_left _ (hp.ext x hx), ⟨?_, ?_⟩, hp.path⟩, ?_⟩
          · intro x hx
            exact hp.lzr x (mem_eraseTbl.mp hx).1
          · intro x hx
            rcases List.mem_append.mp hx with h | h
            · exact (hp.new.1 x h).imp id (fun y => Nat.lt_succ_of_lt y)
            · right
              simp only [List.mem_singleton] at h
              subst h
              exact Nat.lt_succ_self _
          · intro x hx
            exact (hp.new.2 x (mem_eraseTbl.mp hx).1).imp id (fun y => Nat.lt_succ_of_lt y)
          · intro t ht
            simp only [Except.ok.injEq] at ht
            refine ⟨ht.symm, fun _ => ⟨⟨l.source, tl⟩, by simp, rfl, ?_⟩⟩
            intro hnone
            exact absurd hln (lookupTbl_none.mp hnone l hold)
        | none =>
          simp only
          have hfL := lookupTbl_none.mp hL
          rw [insertTbl_fresh s1.typelibs src tl hfE]
          have hinv' := hp.inv.addEager ⟨src, tl⟩ hfE hfL (hdeps u rfl) hsrc
          refine ⟨⟨hinv', hp.lzr, fun l hl => List.mem_append_left _ (hp.ext l hl), ⟨?_, ?_⟩, hp.path⟩, ?_⟩
          · intro l hl
            rcases List.mem_append.mp hl with h | h
            · exact (hp.new.1 l h).imp id (fun x => Nat.lt_succ_of_lt x)
            · right
              simp only [List.mem_singleton] at h
              subst h
              exact Nat.lt_succ_self _
          · intro l hl
            exact (hp.new.2 l hl).imp id (fun x => Nat.lt_succ_of_lt x)
          · intro t ht
            simp only [Except.ok.injEq] at ht
            exact ⟨ht.symm, fun _ => ⟨⟨src, tl⟩, by simp, rfl, fun _ => rfl⟩⟩

theorem findVersion_first {fs : FS} {ns v : Str} {path : List Str} {f : Found}
    (h : findVersion fs ns v path = some f) : FirstWith fs (exactFileName ns v) path f := by
  unfold findVersion at h
  split_ifs at h
  exact findInDirs_some fs _ path f h

theorem findFile_fileAt {fs : FS} {ns : Str} {ver : Option Str} {path : List Str} {f : Mapped}
    (h : findFile fs ns ver path = some f) : FileAt fs f.path f.hdr := by
  unfold findFile at h
  cases ver with
  | some v =>
    simp only [Option.map_eq_some_iff] at h
    obtain ⟨g, hg, rfl⟩ := h
    exact (findVersion_first hg).fileAt
  | none =>
    simp only [Option.map_eq_some_iff] at h
    obtain ⟨c, hc, rfl⟩ := h
    exact matches_fileAt fs ns path 0 c (findLatest_elected fs ns path c hc).1

theorem findFile_version {fs : FS} {ns v : Str} {path : List Str} {f : Mapped}
    (h : findFile fs ns (some v) path = some f) : f.version = v := by
  simp only [findFile, Option.map_eq_some_iff] at h
  obtain ⟨g, _, rfl⟩ := h
  rfl

/-- the hypotheses of `register_post` for the promotion of the lazy entry `l` -/
theorem promote_hyps {fs : FS} {rank : Str → Nat} {s : Repo} {ns : Str} {l : Loaded} (hinv : Inv fs s)
    (hlzr : LazyRanked rank s) (hE : lookupTbl s.typelibs ns = none) (hL : lookupTbl s.lazy ns = some l) :
    l.ns = ns ∧ l ∈ s.lazy ∧ (l.source = builtinSource ∨ FileAt fs l.source l.tl.hdr) ∧
    HdrRanked rank l.tl.hdr ∧ lookupTbl s.typelibs l.tl.hdr.ns = none ∧
    (∀ l' ∈ s.lazy, l'.ns = l.tl.hdr.ns → l'.tl = l.tl) := by
  obtain ⟨hm, hn⟩ := lookupTbl_some hL
  refine ⟨hn, hm, hinv.paths l (List.mem_append_right _ hm), hlzr l hm, ?_, ?_⟩
  · have : l.tl.hdr.ns = ns := hn
    rw [this]; exact hE
  · intro l' hl' hn'
    have h1 := lookupTbl_of_mem s.lazy l' hl' hinv.nodupL
    have : l'.ns = ns := hn'.trans hn
    rw [this, hL] at h1
    cases h1; rfl

/-- one `require_internal` under the invariant, for acyclic dependencies -/
theorem require_post {fs : FS} {rank : Str → Nat} (hr : Ranked fs rank) :
    ∀ fuel s ns ver lazy path, Inv fs s → LazyRanked rank s →
    Post fs rank s (requireInternal fs fuel s ns ver lazy path).1 (rank ns + 1) ∧
    (∀ tl, (requireInternal fs fuel s ns ver lazy path).2 = .ok tl →
      tl.hdr.ns = ns ∧ (∀ v, ver = some v → tl.hdr.ver = v) ∧
      (lazy = false → ∃ l ∈ (requireInternal fs fuel s ns ver lazy path).1.typelibs, l.tl = tl)) := by
  intro fuel
  induction fuel with
  | zero =>
    intro s ns ver lazy path hinv hlzr
    simp only [requireInternal]
    exact ⟨Post.refl hinv hlzr _, by intro tl h; cases h⟩
  | succ fuel ih =>
    intro s ns ver lazy path hinv hlzr
    have hreqOK : ReqOK fs rank (fun s' dn dv => requireInternal fs fuel s' dn (some dv) false s'.searchPath) := by
      intro s' dn dv hinv' hlzr'
      obtain ⟨hp, hok⟩ := ih s' dn (some dv) false s'.searchPath hinv' hlzr'
      refine ⟨hp, ?_⟩
      intro tl htl
      obtain ⟨h1, h2, h3⟩ := hok tl htl
      obtain ⟨l, hl, hlt⟩ := h3 rfl
      exact ⟨l, hl, by unfold Loaded.ns; rw [hlt]; exact h1, by rw [hlt]; exact h2 dv rfl⟩
    unfold requireInternal
    cases hst : getRegisteredStatus s ns ver lazy with
    | found tl =>
      simp only
      refine ⟨Post.refl hinv hlzr _, ?_⟩
      intro t ht
      simp only [Except.ok.injEq] at ht
      subst ht
      obtain ⟨h1, h2, h3⟩ := status_found hst
      refine ⟨h1, h2, ?_⟩
      intro hl
      rcases h3 with h | ⟨h, _⟩
      · exact h
      · rw [hl] at h; cases h
    | conflict v =>
      simp only
      exact ⟨Post.refl hinv hlzr _, by intro t h; cases h⟩
    | absent o =>
      cases o with
      | some l =>
        simp only
        obtain ⟨hE, hL, _, hv⟩ := status_absent_some hst
        obtain ⟨hn, _, hsrc, hrank, habsE, hlz⟩ := promote_hyps hinv hlzr hE hL
        obtain ⟨hp, hok⟩ := register_post hreqOK s l.source false l.tl hinv hlzr hsrc hrank habsE
          (by intro h; cases h) hlz
        have hn' : l.tl.hdr.ns = ns := hn
        refine ⟨hn' ▸ hp, ?_⟩
        intro t ht
        obtain ⟨h1, h2⟩ := hok t ht
        subst h1
        exact ⟨hn', hv, fun hl => (h2 rfl).imp (fun l' h => ⟨h.1, h.2.1⟩)⟩
      | none =>
        simp only
        obtain ⟨habsE, habsL⟩ := status_absent_none hst
        cases hfile : findFile fs ns ver path with
        | none =>
          simp only
          exact ⟨Post.refl hinv hlzr _, by intro t h; cases h⟩
        | some f =>
          simp only
          have hinv0 : Inv fs { s with nextId := s.nextId + 1 } := hinv.congr rfl rfl
          have hp0 : Post fs rank s { s with nextId := s.nextId + 1 } (rank ns + 1) :=
            ⟨hinv0, hlzr, fun _ h => h, ⟨fun _ h => Or.inl h, fun _ h => Or.inl h⟩, rfl⟩
          split_ifs with hns hver
          · exact ⟨hp0, by intro t h; cases h⟩
          · exact ⟨hp0, by intro t h; cases h⟩
          · have hns' : f.hdr.ns = ns := by
              by_contra hne; exact hns hne
            have hfa := findFile_fileAt hfile
            have hrank : HdrRanked rank f.hdr := fun d hd dn dv hsd => hr f.path f.hdr hfa d hd dn dv hsd
            obtain ⟨hp, hok⟩ := register_post hreqOK { s with nextId := s.nextId + 1 } f.path lazy
              ⟨s.nextId, f.hdr⟩ hinv0 hlzr (Or.inr hfa) hrank (by rw [hns']; exact habsE)
              (by intro _; rw [hns']; exact habsL)
              (by
                intro l' hl' hn'
                exact absurd (hn'.trans hns') (lookupTbl_none.mp habsL l' hl'))
            refine ⟨Post.congr_left (s0 := { s with nextId := s.nextId + 1 }) rfl rfl rfl (hns' ▸ hp), ?_⟩
            intro t ht
            obtain ⟨h1, h2⟩ := hok t ht
            subst h1
            refine ⟨hns', ?_, fun hl => (h2 hl).imp (fun l h => ⟨h.1, h.2.1⟩)⟩
            intro v hv
            subst hv
            have hfv := findFile_version hfile
            rw [hfv] at hver
            simpa using hver

theorem reqOK_require {fs : FS} {rank : Str → Nat} (hr : Ranked fs rank) (fuel : Nat) :
    ReqOK fs rank (fun s' dn dv => requireInternal fs fuel s' dn (some dv) false s'.searchPath) := by
  intro s' dn dv hinv' hlzr'
  obtain ⟨hp, hok⟩ := require_post hr fuel s' dn (some dv) false s'.searchPath hinv' hlzr'
  refine ⟨hp, ?_⟩
  intro tl htl
  obtain ⟨h1, h2, h3⟩ := hok tl htl
  obtain ⟨l, hl, hlt⟩ := h3 rfl
  exact ⟨l, hl, by unfold Loaded.ns; rw [hlt]; exact h1, by rw [hlt]; exact h2 dv rfl⟩

/-- one `g_irepository_load_typelib` under the invariant: the state afterwards, and on success an
    eagerly loaded entry (unless the LAZY flag was given) of that namespace and version; registered
    from `hdr` itself under "<builtin>" when the namespace was in neither table -/
theorem load_post {fs : FS} {rank : Str → Nat} (hr : Ranked fs rank) (fuel : Nat) (s : Repo) (hdr : Hdr)
    (lazy : Bool) (hinv : Inv fs s) (hlzr : LazyRanked rank s) (hrank : HdrRanked rank hdr) :
    Post fs rank s (loadTypelib fs fuel s hdr lazy).1 (rank hdr.ns + 1) ∧
    (∀ tl, (loadTypelib fs fuel s hdr lazy).2 = .ok tl →
      tl.hdr.ns = hdr.ns ∧ tl.hdr.ver = hdr.ver ∧
      (lazy = false → ∃ l ∈ (loadTypelib fs fuel s hdr lazy).1.typelibs, l.tl = tl ∧
        (getRegisteredStatus s hdr.ns (some hdr.ver) lazy = .absent none →
          tl.hdr = hdr ∧ l.source = builtinSource))) := by
  have hreqOK := reqOK_require hr fuel
  have hinv0 : Inv fs { s with nextId := s.nextId + 1 } := hinv.congr rfl rfl
  have hlzr0 : LazyRanked rank { s with nextId := s.nextId + 1 } := hlzr
  have hp0 : Post fs rank s { s with nextId := s.nextId + 1 } (rank hdr.ns + 1) :=
    ⟨hinv0, hlzr, fun _ h => h, ⟨fun _ h => Or.inl h, fun _ h => Or.inl h⟩, rfl⟩
  have hsame : getRegisteredStatus { s with nextId := s.nextId + 1 } hdr.ns (some hdr.ver) lazy
      = getRegisteredStatus s hdr.ns (some hdr.ver) lazy := rfl
  unfold loadTypelib
  simp only [hsame]
  cases hst : getRegisteredStatus s hdr.ns (some hdr.ver) lazy with
  | found t =>
    simp only
    refine ⟨hp0, ?_⟩
    intro tl htl
    simp only [Except.ok.injEq] at htl
    subst htl
    obtain ⟨h1, h2, h3⟩ := status_found hst
    refine ⟨h1, h2 _ rfl, ?_⟩
    intro hl
    rcases h3 with ⟨l, hm, hlt⟩ | ⟨h, _⟩
    · exact ⟨l, hm, hlt, by intro h; cases h⟩
    · rw [hl] at h; cases h
  | conflict v =>
    simp only
    exact ⟨hp0, by intro tl h; cases h⟩
  | absent o =>
    cases o with
    | some l =>
      simp only
      obtain ⟨hE, hL, hlf, hv⟩ := status_absent_some hst
      subst hlf
      obtain ⟨hn, _, hsrc, hrk, habsE, hlz⟩ := promote_hyps (s := { s with nextId := s.nextId + 1 }) hinv0 hlzr0 hE hL
      obtain ⟨hp, hok⟩ := register_post hreqOK { s with nextId := s.nextId + 1 } builtinSource false l.tl
        hinv0 hlzr0 (Or.inl rfl) hrk habsE (by intro h; cases h) hlz
      have hn' : l.tl.hdr.ns = hdr.ns := hn
      refine ⟨Post.congr_left (s0 := { s with nextId := s.nextId + 1 }) rfl rfl rfl (hn' ▸ hp), ?_⟩
      intro t ht
      obtain ⟨h1, h2⟩ := hok t ht
      subst h1
      refine ⟨hn', hv _ rfl, fun _ => ?_⟩
      obtain ⟨l', hl', hlt, _⟩ := h2 rfl
      exact ⟨l', hl', hlt, by intro h; cases h⟩
    | none =>
      simp only
      obtain ⟨habsE, habsL⟩ := status_absent_none hst
      obtain ⟨hp, hok⟩ := register_post hreqOK { s with nextId := s.nextId + 1 } builtinSource lazy
        ⟨s.nextId, hdr⟩ hinv0 hlzr0 (Or.inl rfl) hrank habsE (fun _ => habsL)
        (by intro l' hl' hn'; exact absurd hn' (lookupTbl_none.mp habsL l' hl'))
      refine ⟨Post.congr_left (s0 := { s with nextId := s.nextId + 1 }) rfl rfl rfl hp, ?_⟩
      intro t ht
      obtain ⟨h1, h2⟩ := hok t ht
      subst h1
      refine ⟨rfl, rfl, fun hl => ?_⟩
      obtain ⟨l', hl', hlt, hsrc⟩ := h2 hl
      exact ⟨l', hl', hlt, fun _ => ⟨rfl, hsrc habsL⟩⟩

/-- the directories prepended by a history, in call order -/
def prepends : List Op → List Str
  | [] => []
  | .prepend d :: ops => d :: prepends ops
  | _ :: ops => prepends ops

theorem step_inv {fs : FS} {rank : Str → Nat} (hr : Ranked fs rank) (fuel : Nat) (s : Repo) (op : Op)
    (hinv : Inv fs s) (hlzr : LazyRanked rank s) (hok : OpOk rank s op) :
    Inv fs (step fs fuel s op) ∧ LazyRanked rank (step fs fuel s op) ∧
      (step fs fuel s op).searchPath = (prepends [op]).reverse ++ s.searchPath := by
  cases op with
  | prepend d => exact ⟨hinv.congr rfl rfl, hlzr, by simp [step, prepends, prependSearchPath]⟩
  | require ns ver lazy =>
    obtain ⟨hp, _⟩ := require_post hr fuel s ns ver lazy s.searchPath hinv hlzr
    exact ⟨hp.inv, hp.lzr, by simpa [prepends, step, require, requirePrivate] using hp.path⟩
  | requirePrivate d ns ver lazy =>
    obtain ⟨hp, _⟩ := require_post hr fuel s ns ver lazy [d] hinv hlzr
    exact ⟨hp.inv, hp.lzr, by simpa [prepends, step, require, requirePrivate] using hp.path⟩
  | load hdr lazy =>
    obtain ⟨hp, _⟩ := load_post hr fuel s hdr lazy hinv hlzr hok
    exact ⟨hp.inv, hp.lzr, by simpa [prepends, step, require, requirePrivate] using hp.path⟩
  | query => exact ⟨hinv, hlzr, by simp [step, prepends]⟩

theorem prepends_cons (op : Op) (ops : List Op) : prepends (op :: ops) = prepends [op] ++ prepends ops := by
  cases op <;> simp [prepends]

theorem run_inv {fs : FS} {rank : Str → Nat} (hr : Ranked fs rank) (fuel : Nat) : ∀ ops s, Inv fs s →
    LazyRanked rank s → Guarded fs fuel rank s ops →
    Inv fs (run fs fuel s ops) ∧ (run fs fuel s ops).searchPath = (prepends ops).reverse ++ s.searchPath := by
  intro ops
  induction ops with
  | nil => intro s hinv _ _; exact ⟨hinv, by simp [run, prepends]⟩
  | cons op ops ih =>
    intro s hinv hlzr hg
    simp only [run, List.foldl_cons]
    obtain ⟨hi1, hz1, hp1⟩ := step_inv hr fuel s op hinv hlzr hg.1
    obtain ⟨hi2, hp2⟩ := ih (step fs fuel s op) hi1 hz1 hg.2
    refine ⟨hi2, ?_⟩
    simp only [run] at hp2
    rw [hp2, hp1, prepends_cons op ops]
    simp

/-! ### frame: the search path is only changed by prepend -/

def PathFrame (req : Req) : Prop := ∀ s dn dv, (req s dn dv).1.searchPath = s.searchPath

theorem loadDeps_path {req : Req} (h : PathFrame req) : ∀ deps s,
    (loadDepsWith req s deps).1.searchPath = s.searchPath := by
  intro deps
  induction deps with
  | nil => intro s; rfl
  | cons d ds ih =>
    intro s
    unfold loadDepsWith
    cases hsd : splitDep d with
    | none => rfl
    | some p =>
      obtain ⟨dn, dv⟩ := p
      simp only
      have hr := h s dn dv
      cases hq : req s dn dv with
      | mk s' r =>
        rw [hq] at hr
        cases r with
        | ok t => simp only; rw [ih s']; exact hr
        | error e => exact hr

theorem register_path {req : Req} (h : PathFrame req) (s : Repo) (src : Str) (lazy : Bool) (tl : Typelib) :
    (registerInternalWith req s src lazy tl).1.searchPath = s.searchPath := by
  unfold registerInternalWith
  cases lazy with
  | true =>
    simp only [if_true]
    split_ifs <;> rfl
  | false =>
    simp only [Bool.false_eq_true, if_false]
    have hd := loadDeps_path h tl.hdr.deps s
    cases hq : loadDepsWith req s tl.hdr.deps with
    | mk s1 r =>
      rw [hq] at hd
      cases r with
      | error e => exact hd
      | ok u =>
        simp only
        cases lookupTbl s1.lazy tl.hdr.ns with
        | some l => exact hd
        | none => exact hd

theorem register_ok_eq {req : Req} (s : Repo) (src : Str) (lazy : Bool) (tl t : Typelib)
    (h : (registerInternalWith req s src lazy tl).2 = .ok t) : t = tl := by
  unfold registerInternalWith at h
  cases lazy with
  | true =>
    simp only [if_true] at h
    split_ifs at h
    simpa using h.symm
  | false =>
    simp only [Bool.false_eq_true, if_false] at h
    cases hq : loadDepsWith req s tl.hdr.deps with
    | mk s1 r =>
      rw [hq] at h
      cases r with
      | error e => cases h
      | ok u =>
        simp only at h
        cases hl : lookupTbl s1.lazy tl.hdr.ns with
        | some l => rw [hl] at h; simpa using h.symm
        | none => rw [hl] at h; simpa using h.symm

theorem require_path (fs : FS) : ∀ fuel s ns ver lazy path,
    (requireInternal fs fuel s ns ver lazy path).1.searchPath = s.searchPath := by
  intro fuel
  induction fuel with
  | zero => intro s ns ver lazy path; rfl
  | succ fuel ih =>
    intro s ns ver lazy path
    unfold requireInternal
    cases getRegisteredStatus s ns ver lazy with
    | found tl => rfl
    | conflict v => rfl
    | absent o =>
      have hpf : PathFrame (fun s' dn dv => requireInternal fs fuel s' dn (some dv) false s'.searchPath) :=
        fun s' dn dv => ih s' dn (some dv) false s'.searchPath
      cases o with
      | some l =>
        simp only
        exact register_path hpf _ _ _ _
      | none =>
        simp only
        split
        · rfl
        · split_ifs
          · rfl
          · rfl
          · rw [register_path hpf]

theorem load_path (fs : FS) (fuel : Nat) (s : Repo) (hdr : Hdr) (lazy : Bool) :
    (loadTypelib fs fuel s hdr lazy).1.searchPath = s.searchPath := by
  have hpf : PathFrame (fun s' dn dv => requireInternal fs fuel s' dn (some dv) false s'.searchPath) :=
    fun s' dn dv => require_path fs fuel s' dn (some dv) false s'.searchPath
  unfold loadTypelib
  simp only
  split
  · rfl
  · rfl
  · rw [register_path hpf]
  · rw [register_path hpf]

theorem step_path (fs : FS) (fuel : Nat) (s : Repo) (op : Op) :
    (step fs fuel s op).searchPath = (prepends [op]).reverse ++ s.searchPath := by
  cases op with
  | prepend d => simp [step, prepends, prependSearchPath]
  | require ns ver lazy => simpa [prepends, step, require] using require_path fs fuel s ns ver lazy s.searchPath
  | requirePrivate d ns ver lazy => simpa [prepends, step, requirePrivate] using require_path fs fuel s ns ver lazy [d]
  | load hdr lazy => simpa [prepends, step] using load_path fs fuel s hdr lazy
  | query => simp [step, prepends]

theorem run_path (fs : FS) (fuel : Nat) : ∀ ops s,
    (run fs fuel s ops).searchPath = (prepends ops).reverse ++ s.searchPath := by
  intro ops
  induction ops with
  | nil => intro s; simp [run, prepends]
  | cons op ops ih =>
    intro s
    have h := ih (step fs fuel s op)
    simp only [run, List.foldl_cons] at h ⊢
    rw [h, step_path, prepends_cons op ops]
    simp

/-! ### what the queries report -/

/-! ### the transitive dependency query only reports reachable dependencies -/

theorem mem_addSet {d x : Str} {acc : List Str} : x ∈ addSet d acc ↔ x = d ∨ x ∈ acc := by
  unfold addSet
  split
  · rename_i h
    constructor
    · exact Or.inr
    · rintro (rfl | h')
      · simpa using h
      · exact h'
  · simp [or_comm]

theorem depsLoop_sound (s : Repo) (recur : Hdr → List Str → List Str) (h0 : Hdr)
    (hrec : ∀ h acc d, d ∈ recur h acc → d ∈ acc ∨ ReachHdr s h d) :
    ∀ ds acc d, (∀ x ∈ ds, x ∈ h0.deps) → d ∈ depsLoop s recur ds acc → d ∈ acc ∨ ReachHdr s h0 d := by
  intro ds
  induction ds with
  | nil => intro acc d _ h; exact Or.inl (by simpa [depsLoop] using h)
  | cons x xs ih =>
    intro acc d hsub h
    have hx : x ∈ h0.deps := hsub x List.mem_cons_self
    unfold depsLoop at h
    simp only at h
    cases hsd : splitDep x with
    | none =>
      simp only [hsd] at h
      rcases mem_addSet.mp h with rfl | h
      · exact Or.inr (.imm hx)
      · exact Or.inl h
    | some p =>
      obtain ⟨dn, dv⟩ := p
      simp only [hsd] at h
      cases hg : getRegistered s dn with
      | none =>
        simp only [hg] at h
        rcases mem_addSet.mp h with rfl | h
        · exact Or.inr (.imm hx)
        · exact Or.inl h
      | some tl =>
        simp only [hg] at h
        rcases ih _ d (fun y hy => hsub y (List.mem_cons_of_mem _ hy)) h with h | h
        · rcases hrec tl.hdr _ d h with h | h
          · rcases mem_addSet.mp h with rfl | h
            · exact Or.inr (.imm hx)
            · exact Or.inl h
          · exact Or.inr (.step hx hsd hg h)
        · exact Or.inr h

theorem depsTransitive_sound (s : Repo) : ∀ fuel h acc d, d ∈ depsTransitive s fuel h acc →
    d ∈ acc ∨ ReachHdr s h d := by
  intro fuel
  induction fuel with
  | zero => intro h acc d hd; exact Or.inl (by simpa [depsTransitive] using hd)
  | succ fuel ih =>
    intro h acc d hd
    unfold depsTransitive at hd
    exact depsLoop_sound s _ h ih h.deps acc d (fun _ hx => hx) hd

/-! ### completeness of the transitive dependency query -/

theorem subset_addSet (d : Str) (acc : List Str) : ∀ x ∈ acc, x ∈ addSet d acc :=
  fun _ hx => mem_addSet.mpr (Or.inr hx)

theorem depsLoop_mono (s : Repo) (recur : Hdr → List Str → List Str)
    (hrec : ∀ h acc, ∀ x ∈ acc, x ∈ recur h acc) :
    ∀ ds acc, ∀ x ∈ acc, x ∈ depsLoop s recur ds acc := by
  intro ds
  induction ds with
  | nil => intro acc x hx; simpa [depsLoop] using hx
  | cons y ys ih =>
    intro acc x hx
    unfold depsLoop
    simp only
    have h1 := subset_addSet y acc x hx
    cases hsd : splitDep y with
    | none => simpa using h1
    | some p =>
      obtain ⟨dn, dv⟩ := p
      simp only
      cases hg : getRegistered s dn with
      | none => simpa using h1
      | some tl =>
        simp only
        exact ih _ x (hrec tl.hdr _ x h1)

theorem depsTransitive_mono (s : Repo) : ∀ fuel h acc, ∀ x ∈ acc, x ∈ depsTransitive s fuel h acc := by
  intro fuel
  induction fuel with
  | zero => intro h acc x hx; simpa [depsTransitive] using hx
  | succ fuel ih =>
    intro h acc x hx
    unfold depsTransitive
    exact depsLoop_mono s _ ih h.deps acc x hx

/-- a recorded dependency that splits at a '-' and whose namespace is registered -/
def DepKnown (s : Repo) (d : Str) : Prop :=
  ∃ dn dv tl, splitDep d = some (dn, dv) ∧ getRegistered s dn = some tl

theorem depsLoop_complete (s : Repo) (recur : Hdr → List Str → List Str)
    (hrec : ∀ h acc, ∀ x ∈ acc, x ∈ recur h acc) :
    ∀ ds acc, (∀ y ∈ ds, DepKnown s y) →
      (∀ y ∈ ds, y ∈ depsLoop s recur ds acc) ∧
      (∀ y ∈ ds, ∀ dn dv tl, splitDep y = some (dn, dv) → getRegistered s dn = some tl →
        ∀ d, (∀ acc', d ∈ recur tl.hdr acc') → d ∈ depsLoop s recur ds acc) := by
  intro ds
  induction ds with
  | nil =>
    intro acc _
    refine ⟨?_, ?_⟩
    · intro y hy; cases hy
    · intro y hy; cases hy
  | cons y ys ih =>
    intro acc hk
    obtain ⟨dn, dv, tl, hsd, hg⟩ := hk y List.mem_cons_self
    have hk' : ∀ z ∈ ys, DepKnown s z := fun z hz => hk z (List.mem_cons_of_mem _ hz)
    have heq : depsLoop s recur (y :: ys) acc = depsLoop s recur ys (recur tl.hdr (addSet y acc)) := by
      rw [depsLoop]; simp only [hsd, hg]
    rw [heq]
    obtain ⟨i1, i2⟩ := ih (recur tl.hdr (addSet y acc)) hk'
    have hmono := depsLoop_mono s recur hrec ys (recur tl.hdr (addSet y acc))
    refine ⟨?_, ?_⟩
    · intro z hz
      rcases List.mem_cons.mp hz with rfl | hz
      · exact hmono _ (hrec _ _ _ (mem_addSet.mpr (Or.inl rfl)))
      · exact i1 z hz
    · intro z hz dn' dv' tl' hsd' hg' d hd
      rcases List.mem_cons.mp hz with rfl | hz
      · rw [hsd] at hsd'
        cases hsd'
        rw [hg] at hg'
        cases hg'
        exact hmono _ (hd _)
      · exact i2 z hz dn' dv' tl' hsd' hg' d hd

theorem getRegistered_ns {s : Repo} {ns : Str} {tl : Typelib} (h : getRegistered s ns = some tl) :
    tl.hdr.ns = ns := by
  unfold getRegistered at h
  cases hst : getRegisteredStatus s ns none true with
  | found t =>
    simp only [hst, Option.some.injEq] at h
    subst h
    exact (status_found hst).1
  | conflict v => simp [hst] at h
  | absent b => simp [hst] at h

/-- with enough fuel for the rank, everything reachable is reported -/
theorem depsTransitive_complete (s : Repo) (rank : Str → Nat)
    (hrk : ∀ dn tl, getRegistered s dn = some tl → HdrRanked rank tl.hdr)
    (hkn : ∀ dn tl, getRegistered s dn = some tl → ∀ d ∈ tl.hdr.deps, DepKnown s d)
    (h : Hdr) (d : Str) (hreach : ReachHdr s h d) :
    HdrRanked rank h → (∀ x ∈ h.deps, DepKnown s x) →
    ∀ fuel acc, rank h.ns < fuel → d ∈ depsTransitive s fuel h acc := by
  induction hreach with
  | @imm h d hd =>
    intro _ hk fuel acc hf
    cases fuel with
    | zero => cases hf
    | succ fuel =>
      unfold depsTransitive
      exact (depsLoop_complete s _ (depsTransitive_mono s fuel) h.deps acc hk).1 d hd
  | @step h d d' dn dv tl hd' hsd hg _ ih =>
    intro hr hk fuel acc hf
    cases fuel with
    | zero => cases hf
    | succ fuel =>
      unfold depsTransitive
      have hns := getRegistered_ns hg
      have hlt : rank tl.hdr.ns < fuel := by
        have := hr d' hd' dn dv hsd
        rw [hns]; omega
      refine (depsLoop_complete s _ (depsTransitive_mono s fuel) h.deps acc hk).2 d' hd' dn dv tl hsd hg d ?_
      intro acc'
      exact ih (hrk dn tl hg) (hkn dn tl hg) fuel acc' hlt

end GIVerif.Repo
