/-
  Helper lemmas for C01 (GIVerif/Props/C01.lean): decomposition of the monadic steps of the
  model into their pure parts, facts about each part, and what the writer makes of a node.
-/
import GIVerif.Model.ParamAnn

namespace GIVerif.ParamAnn
open GIVerif.Py

/-! ### decomposition of `commonStep` -/

theorem commonStep_ok {env : Env} {f : Bool} {all : List Node} {part : Str} {n : Node} {tag : Option Anns}
    {out : StepOut} (h : commonStep env f all part n tag = .ok out) :
    ∃ t1 tr cs nl,
      typeStep env (if f then .part part else .parent) n (tag.getD Anns.empty) = .ok t1 ∧
      transferStep n.isRet (dirStep n (tag.getD Anns.empty) t1.1).dir t1.1 (dirStep n (tag.getD Anns.empty) t1.1).tr
        (tag.getD Anns.empty).transfer (tag.getD Anns.empty).array.isSome = .ok tr ∧
      containerStep env (if f then .part part else .parent) part all (dirStep n (tag.getD Anns.empty) t1.1).dir t1.1
        (tag.getD Anns.empty) = .ok cs ∧
      nullStep part n (tag.getD Anns.empty) (dirStep n (tag.getD Anns.empty) t1.1).dir cs.1 = .ok nl ∧
      out.node = assemble n (tag.getD Anns.empty) (dirStep n (tag.getD Anns.empty) t1.1) tr.1 cs.1 nl ∧
      out.eff = cs.2.2 ∧
      out.warnings = t1.2 ++ (if tr.2 then [Warning.mk (G "transfer") (.ann part)] else []) ++ cs.2.1 ++ nl.warnings := by
  unfold commonStep at h
  simp only [bind, Except.bind, pure, Except.pure] at h
  split at h
  · contradiction
  · rename_i t1 h1
    split at h
    · contradiction
    · rename_i tr h2
      split at h
      · contradiction
      · rename_i cs h3
        split at h
        · contradiction
        · rename_i nl h4
          injection h with h
          subst h
          exact ⟨t1, tr, cs, nl, h1, h2, h3, h4, rfl, rfl, rfl⟩

theorem nullStep_ok {part : Str} {n : Node} {a : Anns} {dir : Dir} {ty : Ty} {nl : NullOut}
    (h : nullStep part n a dir ty = .ok nl) :
    ∃ p, nl = nullPure part n a dir ty p ∧
      (needsPointerTest n a dir = true → isPointerType n.isRet dir ty = .ok p) := by
  unfold nullStep at h
  by_cases hn : needsPointerTest n a dir = true
  · simp only [hn, if_true, bind, Except.bind, pure, Except.pure] at h
    split at h
    · contradiction
    · rename_i p hp
      injection h with h
      exact ⟨p, h.symm, fun _ => hp⟩
  · simp only [hn, bind, Except.bind, pure, Except.pure] at h
    injection h with h
    exact ⟨true, h.symm, fun h' => absurd h' hn⟩

/-! ### the assembled node -/

@[simp] theorem assemble_skip (n a d tr ty nl) : (assemble n a d tr ty nl).skip = skipOf n a := rfl
@[simp] theorem assemble_attrs (n a d tr ty nl) : (assemble n a d tr ty nl).attrs = attrsOf n a := rfl
@[simp] theorem assemble_dir (n a d tr ty nl) : (assemble n a d tr ty nl).dir = d.dir := rfl
@[simp] theorem assemble_ca (n a d tr ty nl) : (assemble n a d tr ty nl).callerAllocates = d.ca := rfl
@[simp] theorem assemble_transfer (n a d tr ty nl) : (assemble n a d tr ty nl).transfer = tr := rfl
@[simp] theorem assemble_nullable (n a d tr ty nl) : (assemble n a d tr ty nl).nullable = nl.nullable := rfl
@[simp] theorem assemble_notNullable (n a d tr ty nl) : (assemble n a d tr ty nl).notNullable = nl.notNullable := rfl
@[simp] theorem assemble_optional (n a d tr ty nl) : (assemble n a d tr ty nl).optional = nl.optional := rfl
@[simp] theorem assemble_name (n a d tr ty nl) : (assemble n a d tr ty nl).name = n.name := rfl
@[simp] theorem assemble_isRet (n a d tr ty nl) : (assemble n a d tr ty nl).isRet = n.isRet := rfl
@[simp] theorem assemble_scope (n a d tr ty nl) : (assemble n a d tr ty nl).scope = n.scope := rfl
@[simp] theorem assemble_closure (n a d tr ty nl) : (assemble n a d tr ty nl).closure = n.closure := rfl
@[simp] theorem assemble_destroy (n a d tr ty nl) : (assemble n a d tr ty nl).destroy = n.destroy := rfl
@[simp] theorem assemble_ty (n a d tr ty nl) : (assemble n a d tr ty nl).ty = ty := rfl

/-! ### direction -/

/-- inout beats out beats in -/
theorem annotatedDir_inout (a : Anns) (h : a.inout.isSome = true) : annotatedDir a = some .inout := by
  simp [annotatedDir, h]

theorem annotatedDir_out (a : Anns) (h0 : a.inout = none) (h : a.out.isSome = true) : annotatedDir a = some .out := by
  simp [annotatedDir, h0, h]

theorem annotatedDir_in (a : Anns) (h0 : a.inout = none) (h1 : a.out = none) (h : a.in_.isSome = true) :
    annotatedDir a = some .in_ := by
  simp [annotatedDir, h0, h1, h]

theorem annotatedDir_none (a : Anns) (h0 : a.inout = none) (h1 : a.out = none) (h2 : a.in_ = none) :
    annotatedDir a = none := by
  simp [annotatedDir, h0, h1, h2]

/-- after the step a PARAMETER has the annotated direction, whatever it was before -/
theorem dirStep_dir (n : Node) (a : Anns) (t : Ty) (d : Dir) (hr : n.isRet = false) (h : annotatedDir a = some d) :
    (dirStep n a t).dir = d := by
  unfold dirStep
  rw [h]
  by_cases hd : d = n.dir
  · simp [hd, hr]
  · simp [hd, hr]

theorem dirStep_none (n : Node) (a : Anns) (t : Ty) (h : annotatedDir a = none) :
    dirStep n a t = ⟨n.dir, n.callerAllocates, n.transfer⟩ := by
  unfold dirStep
  rw [h]
  simp

/-- direction annotations never touch a return value -/
theorem dirStep_ret (n : Node) (a : Anns) (t : Ty) (hr : n.isRet = true) :
    dirStep n a t = ⟨n.dir, n.callerAllocates, n.transfer⟩ := by
  unfold dirStep
  simp [hr]

/-- when the direction really changes, caller-allocates is what the (out) option says -/
theorem dirStep_ca (n : Node) (a : Anns) (t : Ty) (d : Dir) (hr : n.isRet = false) (h : annotatedDir a = some d)
    (hne : d ≠ n.dir) :
    (dirStep n a t).ca = outCallerAllocates a t := by
  unfold dirStep
  rw [h]
  simp [hne, hr]

theorem outCallerAllocates_caller (a : Anns) (t : Ty) (rest : List Str) (h0 : a.inout = none)
    (h : a.out = some (G Gen.ParamAnn.optOutCallerAllocates :: rest)) : outCallerAllocates a t = true := by
  simp [outCallerAllocates, h0, h]

theorem outCallerAllocates_callee (a : Anns) (t : Ty) (rest : List Str) (h0 : a.inout = none)
    (h : a.out = some (G Gen.ParamAnn.optOutCalleeAllocates :: rest)) : outCallerAllocates a t = false := by
  simp [outCallerAllocates, h0, h]
  decide

/-- bare `(out)`: caller-allocates exactly for a record/union behind a single indirection -/
theorem outCallerAllocates_bare (a : Anns) (t : Ty) (g c : Str) (h0 : a.inout = none) (h : a.out = some [])
    (hg : t.giname = some g) (hc : t.info.ctype = some c) (hne : c ≠ []) :
    outCallerAllocates a t = (!containsSub c ['*', '*'] && (t.cls == .record || t.cls == .union)) := by
  simp [outCallerAllocates, h0, h, hg, hc, hne]

/-! ### transfer -/

theorem transferStep_none (isRet : Bool) (d : Dir) (t : Ty) (cur : Option Str) (arr : Bool) :
    transferStep isRet d t cur none arr = .ok (cur, false) := rfl

/-- `transfer in TRANSFER_OPTIONS` -/
def knownTransfer (m : Str) : Bool := Gen.ParamAnn.transferOptions.any (fun o => G o == m)

/-- a mode outside `TRANSFER_OPTIONS` (the parser has reported it): nothing is applied -/
theorem transferStep_unknown (isRet : Bool) (d : Dir) (t : Ty) (cur : Option Str) (arr : Bool) (m : Str)
    (h : knownTransfer m = false) :
    transferStep isRet d t cur (some [m]) arr = .ok (cur, false) := by
  unfold transferStep
  unfold knownTransfer at h
  simp [h]

/-- floating ↦ none on objects, GVariant, GClosure; otherwise a warning and no change -/
theorem transferStep_floating (isRet : Bool) (d : Dir) (t : Ty) (cur : Option Str) (arr : Bool) :
    transferStep isRet d t cur (some [G Gen.ParamAnn.optTransferFloating]) arr =
      if isClassLike t.cls || nodeTypeGiname t == some (G "GLib.Variant") || nodeTypeGiname t == some (G "GObject.Closure")
      then .ok (some (G Gen.ParamAnn.optTransferNone), false) else .ok (cur, true) := by
  unfold transferStep
  have hk : (Gen.ParamAnn.transferOptions.any (fun o => G o == G Gen.ParamAnn.optTransferFloating)) = true := by decide
  simp only [hk, Bool.not_true, Bool.false_eq_true, if_false, beq_self_eq_true, if_true]
  cases isClassLike t.cls <;> cases h1 : (nodeTypeGiname t == some (G "GLib.Variant")) <;>
    cases h2 : (nodeTypeGiname t == some (G "GObject.Closure")) <;> simp_all [bne]

theorem transferStep_container (isRet : Bool) (d : Dir) (t : Ty) (cur : Option Str) (arr : Bool) :
    transferStep isRet d t cur (some [G Gen.ParamAnn.optTransferContainer]) arr =
      if arr || t.isContainer then .ok (some (G Gen.ParamAnn.optTransferContainer), false) else .ok (cur, true) := by
  unfold transferStep
  have hk : (Gen.ParamAnn.transferOptions.any (fun o => G o == G Gen.ParamAnn.optTransferContainer)) = true := by decide
  have : (G Gen.ParamAnn.optTransferContainer == G Gen.ParamAnn.optTransferFloating) = false := by decide
  simp only [hk, Bool.not_true, Bool.false_eq_true, if_false, this, beq_self_eq_true, if_true]
  cases arr <;> cases t.isContainer <;> simp

/-- the other known modes (none, full): written iff the site passes the pointer test -/
theorem transferStep_other (isRet : Bool) (d : Dir) (t : Ty) (cur : Option Str) (arr : Bool) (m : Str) (p : Bool)
    (hk : knownTransfer m = true)
    (h1 : m ≠ G Gen.ParamAnn.optTransferFloating) (h2 : m ≠ G Gen.ParamAnn.optTransferContainer)
    (hp : isPointerType isRet d t = .ok p) :
    transferStep isRet d t cur (some [m]) arr =
      if !p && !nodeTypeIsString t && !t.isContainer && !isCompoundLike t.cls then .ok (cur, true)
      else .ok (some m, false) := by
  unfold transferStep
  unfold knownTransfer at hk
  have e1 : (m == G Gen.ParamAnn.optTransferFloating) = false := by simpa using h1
  have e2 : (m == G Gen.ParamAnn.optTransferContainer) = false := by simpa using h2
  simp only [hk, Bool.not_true, Bool.false_eq_true, if_false, e1, e2, hp, bind, Except.bind, pure, Except.pure]

theorem knownTransfer_cases (m : Str) (h : knownTransfer m = true) :
    m = G "floating" ∨ m = G "container" ∨ m = G "none" ∨ m = G "full" := by
  unfold knownTransfer at h
  simp only [Gen.ParamAnn.transferOptions, List.any_cons, List.any_nil, Bool.or_false, Bool.or_eq_true,
    beq_iff_eq] at h
  rcases h with h | h | h | h
  · exact Or.inr (Or.inl h.symm)
  · exact Or.inl h.symm
  · exact Or.inr (Or.inr (Or.inr h.symm))
  · exact Or.inr (Or.inr (Or.inl h.symm))

/-- the parser reports every single-option `(transfer m)` whose mode is not a known one -/
theorem validate_transfer_unknown (m : Str) (h : knownTransfer m = false) :
    validateList Gen.ParamAnn.paramValidate (G "transfer") [m] = 1 := by
  unfold knownTransfer at h
  have hr : findRow Gen.ParamAnn.paramValidate (G "transfer") =
      some ("transfer", "generic", some 1, none, none, some Gen.ParamAnn.transferOptions) := by rfl
  simp [validateList, hr, validateGeneric, h]

/-! ### nullability -/

/-- `(not nullable)` (any `(not ...)` that is not `(not optional)`) is the final override of nullable -/
theorem nullPure_not (part : Str) (n : Node) (a : Anns) (dir : Dir) (ty : Ty) (p : Bool) (h : notNullableAnn a = true) :
    (nullPure part n a dir ty p).nullable = false ∧ (nullPure part n a dir ty p).notNullable = true := by
  simp [nullPure, h]

/-- `(not optional)` is the final override of optional -/
theorem nullPure_notOptional (part : Str) (n : Node) (a : Anns) (dir : Dir) (ty : Ty) (p : Bool)
    (h : notOptionalAnn a = true) : (nullPure part n a dir ty p).optional = false := by
  simp [nullPure, h]

theorem nullPure_nullable_valid (part : Str) (n : Node) (a : Anns) (dir : Dir) (ty : Ty)
    (h : a.nullable.isSome = true) (hn : notNullableAnn a = false) :
    (nullPure part n a dir ty true).nullable = true ∧ (nullPure part n a dir ty true).notNullable = false := by
  obtain ⟨o, ho⟩ := Option.isSome_iff_exists.mp h
  cases ha : a.allowNone <;> simp [nullPure, ho, hn, ha] <;> (try split) <;> simp_all

/-- `(nullable)` on a site that fails the pointer test: a warning about it, and the fields are those
    obtained without the annotation -/
theorem nullPure_nullable_invalid (part : Str) (n : Node) (a : Anns) (dir : Dir) (ty : Ty)
    (h : a.nullable.isSome = true) :
    Warning.mk (G "nullable") (.ann part) ∈ (nullPure part n a dir ty false).warnings ∧
    (nullPure part n a dir ty false).nullable = (nullPure part n { a with nullable := none } dir ty false).nullable ∧
    (nullPure part n a dir ty false).notNullable = (nullPure part n { a with nullable := none } dir ty false).notNullable ∧
    (nullPure part n a dir ty false).optional = (nullPure part n { a with nullable := none } dir ty false).optional := by
  obtain ⟨o, ho⟩ := Option.isSome_iff_exists.mp h
  simp [nullPure, ho, notNullableAnn, notOptionalAnn]

theorem nullPure_optional_valid (part : Str) (n : Node) (a : Anns) (dir : Dir) (ty : Ty) (p : Bool)
    (h : a.optional.isSome = true) (hr : n.isRet = false) (hd : isOutish dir = true) (hno : notOptionalAnn a = false) :
    (nullPure part n a dir ty p).optional = true := by
  obtain ⟨o, ho⟩ := Option.isSome_iff_exists.mp h
  cases ha : a.allowNone <;> simp [nullPure, ho, hr, hd, ha, hno]
  (repeat' split) <;> simp

theorem nullPure_optional_invalid (part : Str) (n : Node) (a : Anns) (dir : Dir) (ty : Ty) (p : Bool)
    (h : a.optional.isSome = true) (hbad : (!n.isRet && isOutish dir) = false) :
    Warning.mk (G "optional") (.ann part) ∈ (nullPure part n a dir ty p).warnings ∧
    (nullPure part n a dir ty p).optional = (nullPure part n { a with optional := none } dir ty p).optional ∧
    (nullPure part n a dir ty p).nullable = (nullPure part n { a with optional := none } dir ty p).nullable := by
  obtain ⟨o, ho⟩ := Option.isSome_iff_exists.mp h
  simp [nullPure, ho, hbad, notNullableAnn, notOptionalAnn]

/-- `(allow-none)` on an out parameter means optional -/
theorem nullPure_allowNone_out (part : Str) (n : Node) (a : Anns) (ty : Ty) (p : Bool)
    (h : a.allowNone.isSome = true) (hr : n.isRet = false) (hno : notOptionalAnn a = false) :
    (nullPure part n a .out ty p).optional = true := by
  obtain ⟨o, ho⟩ := Option.isSome_iff_exists.mp h
  simp [nullPure, ho, hr, hno]

theorem nullPure_allowNone_pointer (part : Str) (n : Node) (a : Anns) (dir : Dir) (ty : Ty)
    (h : a.allowNone.isSome = true) (hd : (dir == .out && !n.isRet) = false) (hn : notNullableAnn a = false) :
    (nullPure part n a dir ty true).nullable = true := by
  obtain ⟨o, ho⟩ := Option.isSome_iff_exists.mp h
  simp [nullPure, ho, hd, hn]

theorem nullPure_allowNone_invalid (part : Str) (n : Node) (a : Anns) (dir : Dir) (ty : Ty)
    (h : a.allowNone.isSome = true) (hd : (dir == .out && !n.isRet) = false) :
    Warning.mk (G "allow-none") (.ann part) ∈ (nullPure part n a dir ty false).warnings ∧
    (nullPure part n a dir ty false).nullable = (nullPure part n { a with allowNone := none } dir ty false).nullable ∧
    (nullPure part n a dir ty false).optional = (nullPure part n { a with allowNone := none } dir ty false).optional := by
  obtain ⟨o, ho⟩ := Option.isSome_iff_exists.mp h
  simp [nullPure, ho, hd, notNullableAnn, notOptionalAnn]

/-- with a positive pointer test and no `(not nullable)`, a written `nullable` is not vetoed by a stale
    `not_nullable`: `(nullable)` clears it; otherwise it is the node's own flag -/
theorem nullPure_true_notNullable (part : Str) (n : Node) (a : Anns) (dir : Dir) (ty : Ty) (hn : notNullableAnn a = false)
    (h : a.nullable.isSome = true ∨ (a.allowNone.isSome = true ∧ (dir == .out && !n.isRet) = false)) :
    (nullPure part n a dir ty true).notNullable = (if a.nullable.isSome then false else n.notNullable) := by
  cases hnu : a.nullable <;> simp [nullPure, hn, hnu]

/-! ### writer -/

theorem refAttr_ok {c : Callable} {key : String} {ref : Option Str} {l : List (Str × Str)}
    (h : refAttr c key ref = .ok l) :
    (ref = none ∧ l = []) ∨ ∃ n k, ref = some n ∧ paramIndex? c n = some k ∧ l = [(G key, natStr k)] := by
  unfold refAttr at h
  cases ref with
  | none => left; simp at h; exact ⟨rfl, h⟩
  | some n =>
    right
    simp only at h
    cases hk : paramIndex? c n with
    | none => rw [hk] at h; cases h
    | some k => rw [hk] at h; injection h with h; exact ⟨n, k, rfl, hk, h.symm⟩

theorem refAttr_error {c : Callable} {key : String} {ref : Option Str} {e : Fail}
    (h : refAttr c key ref = .error e) : ∃ n, ref = some n ∧ paramIndex? c n = none := by
  unfold refAttr at h
  cases ref with
  | none => cases h
  | some n =>
    simp only at h
    cases hk : paramIndex? c n with
    | none => exact ⟨n, rfl, hk⟩
    | some k => rw [hk] at h; cases h

theorem paramAttrs_ok {c : Callable} {p : Node} {l : List (Str × Str)} (h : paramAttrs c p = .ok l) :
    ∃ cl de, refAttr c "closure" p.closure = .ok cl ∧ refAttr c "destroy" p.destroy = .ok de ∧
      l = [(G "name", p.name)] ++ dirAttrs p ++ transferAttrs p ++ nullAttrs p ++ optAttrs p ++ scopeAttrs p
          ++ cl ++ de ++ b2l p.skip (G "skip", G "1") := by
  unfold paramAttrs at h
  simp only [bind, Except.bind, pure, Except.pure] at h
  split at h
  · contradiction
  · rename_i cl hcl
    split at h
    · contradiction
    · rename_i de hde
      injection h with h
      exact ⟨cl, de, hcl, hde, h.symm⟩

section written
variable {c : Callable} {p : Node} {l : List (Str × Str)}

theorem written_has_skip (hl : paramAttrs c p = .ok l) (h : p.skip = true) : (G "skip", G "1") ∈ l := by
  obtain ⟨cl, de, _, _, rfl⟩ := paramAttrs_ok hl
  simp [b2l, h]

theorem written_has_optional (hl : paramAttrs c p = .ok l) (h : p.optional = true) :
    (G "optional", G "1") ∈ l := by
  obtain ⟨cl, de, _, _, rfl⟩ := paramAttrs_ok hl
  simp [optAttrs, h]

theorem written_has_nullable (hl : paramAttrs c p = .ok l) (h : p.nullable = true) (h' : p.notNullable = false) :
    (G "nullable", G "1") ∈ l := by
  obtain ⟨cl, de, _, _, rfl⟩ := paramAttrs_ok hl
  simp [nullAttrs, h, h']

theorem written_has_transfer (hl : paramAttrs c p = .ok l) (t : Str) (h : p.transfer = some t) (ht : t ≠ []) :
    (G "transfer-ownership", t) ∈ l := by
  obtain ⟨cl, de, _, _, rfl⟩ := paramAttrs_ok hl
  have : truthy p.transfer = some t := by
    rw [h]; cases t with
    | nil => exact absurd rfl ht
    | cons a b => rfl
  simp [transferAttrs, this]

theorem written_has_direction_out (hl : paramAttrs c p = .ok l) (h : p.dir = .out) :
    (G "direction", G "out") ∈ l ∧ (G "caller-allocates", if p.callerAllocates then G "1" else G "0") ∈ l := by
  obtain ⟨cl, de, _, _, rfl⟩ := paramAttrs_ok hl
  have hd : dirAttrs p = [(G "direction", G "out"), (G "caller-allocates", if p.callerAllocates then G "1" else G "0")] := by
    simp only [dirAttrs, h, Dir.str, Option.getD]
    rfl
  simp [hd]

theorem written_has_direction_inout (hl : paramAttrs c p = .ok l) (h : p.dir = .inout) :
    (G "direction", G "inout") ∈ l ∧ (G "caller-allocates", if p.callerAllocates then G "1" else G "0") ∈ l := by
  obtain ⟨cl, de, _, _, rfl⟩ := paramAttrs_ok hl
  have hd : dirAttrs p = [(G "direction", G "inout"), (G "caller-allocates", if p.callerAllocates then G "1" else G "0")] := by
    simp only [dirAttrs, h, Dir.str, Option.getD]
    rfl
  simp [hd]

theorem refAttr_keys {key : String} {ref : Option Str} {r : List (Str × Str)} (h : refAttr c key ref = .ok r) :
    ∀ kv ∈ r, kv.1 = G key := by
  rcases refAttr_ok h with ⟨_, rfl⟩ | ⟨n, k, _, _, rfl⟩
  · simp
  · simp

theorem written_lacks_optional (hl : paramAttrs c p = .ok l) (h : p.optional = false) :
    ∀ v, (G "optional", v) ∉ l := by
  obtain ⟨cl, de, hcl, hde, rfl⟩ := paramAttrs_ok hl
  intro v hm
  have k1 := refAttr_keys hcl
  have k2 := refAttr_keys hde
  simp only [List.mem_append, List.mem_cons, List.not_mem_nil, or_false] at hm
  rcases hm with ((((((((hm | hm) | hm) | hm) | hm) | hm) | hm) | hm) | hm)
  · exact absurd (show G "optional" = G "name" from congrArg Prod.fst hm) (by decide)
  · simp only [dirAttrs] at hm
    split at hm <;> simp at hm
    rcases hm with hm | hm
    · exact absurd hm.1 (by decide)
    · exact absurd hm.1 (by decide)
  · simp only [transferAttrs] at hm; split at hm <;> simp at hm; exact absurd hm.1 (by decide)
  · simp only [nullAttrs, b2l] at hm
    split at hm
    · simp at hm
      rcases hm with hm | hm
      · exact absurd hm.1 (by decide)
      · exact absurd hm.2.1 (by decide)
    · simp at hm
  · simp [optAttrs, h] at hm
  · simp only [scopeAttrs] at hm; split at hm <;> simp at hm; exact absurd hm.1 (by decide)
  · exact absurd (show G "optional" = G "closure" from k1 _ hm) (by decide)
  · exact absurd (show G "optional" = G "destroy" from k2 _ hm) (by decide)
  · simp only [b2l] at hm; split at hm <;> simp at hm; exact absurd hm.1 (by decide)

theorem written_lacks_direction (hl : paramAttrs c p = .ok l) (h : p.dir = .in_ ∨ p.dir = .unset) :
    ∀ v, (G "direction", v) ∉ l := by
  obtain ⟨cl, de, hcl, hde, rfl⟩ := paramAttrs_ok hl
  intro v hm
  have k1 := refAttr_keys hcl
  have k2 := refAttr_keys hde
  simp only [List.mem_append, List.mem_cons, List.not_mem_nil, or_false] at hm
  rcases hm with ((((((((hm | hm) | hm) | hm) | hm) | hm) | hm) | hm) | hm)
  · exact absurd (show G "direction" = G "name" from congrArg Prod.fst hm) (by decide)
  · rcases h with h | h <;> simp [dirAttrs, h] at hm
  · simp only [transferAttrs] at hm; split at hm <;> simp at hm; exact absurd hm.1 (by decide)
  · simp only [nullAttrs, b2l] at hm
    split at hm
    · simp at hm
      rcases hm with hm | hm
      · exact absurd hm.1 (by decide)
      · exact absurd hm.2.1 (by decide)
    · simp at hm
  · simp only [optAttrs, b2l] at hm
    split at hm
    · simp at hm
      rcases hm with hm | hm
      · exact absurd hm.1 (by decide)
      · exact absurd hm.2.1 (by decide)
    · simp at hm
  · simp only [scopeAttrs] at hm; split at hm <;> simp at hm; exact absurd hm.1 (by decide)
  · exact absurd (show G "direction" = G "closure" from k1 _ hm) (by decide)
  · exact absurd (show G "direction" = G "destroy" from k2 _ hm) (by decide)
  · simp only [b2l] at hm; split at hm <;> simp at hm; exact absurd hm.1 (by decide)

theorem written_lacks_nullable (hl : paramAttrs c p = .ok l) (h : p.nullable = false ∨ p.notNullable = true) :
    ∀ v, (G "nullable", v) ∉ l := by
  obtain ⟨cl, de, hcl, hde, rfl⟩ := paramAttrs_ok hl
  intro v hm
  have k1 := refAttr_keys hcl
  have k2 := refAttr_keys hde
  simp only [List.mem_append, List.mem_cons, List.not_mem_nil, or_false] at hm
  rcases hm with ((((((((hm | hm) | hm) | hm) | hm) | hm) | hm) | hm) | hm)
  · exact absurd (show G "nullable" = G "name" from congrArg Prod.fst hm) (by decide)
  · simp only [dirAttrs] at hm
    split at hm <;> simp at hm
    rcases hm with hm | hm
    · exact absurd hm.1 (by decide)
    · exact absurd hm.1 (by decide)
  · simp only [transferAttrs] at hm; split at hm <;> simp at hm; exact absurd hm.1 (by decide)
  · rcases h with h | h <;> simp [nullAttrs, h] at hm
  · simp only [optAttrs, b2l] at hm
    split at hm
    · simp at hm
      rcases hm with hm | hm
      · exact absurd hm.1 (by decide)
      · exact absurd hm.2.1 (by decide)
    · simp at hm
  · simp only [scopeAttrs] at hm; split at hm <;> simp at hm; exact absurd hm.1 (by decide)
  · exact absurd (show G "nullable" = G "closure" from k1 _ hm) (by decide)
  · exact absurd (show G "nullable" = G "destroy" from k2 _ hm) (by decide)
  · simp only [b2l] at hm; split at hm <;> simp at hm; exact absurd hm.1 (by decide)

end written

/-- `paramIndex?` finds the FIRST parameter of that name among `parameters` (instance excluded) -/
theorem paramIndex?_some {c : Callable} {n : Str} {k : Nat} (h : paramIndex? c n = some k) :
    ∃ q, c.params[k]? = some q ∧ q.name = n ∧ ∀ j, j < k → ∀ r, c.params[j]? = some r → r.name ≠ n := by
  unfold paramIndex? at h
  rw [List.findIdx?_eq_some_iff_getElem] at h
  obtain ⟨hk, hq, hlt⟩ := h
  refine ⟨c.params[k], by simp [hk], by simpa using hq, ?_⟩
  intro j hj r hr
  have hjl : j < c.params.length := Nat.lt_trans hj hk
  have := hlt j hj
  simp only [List.getElem?_eq_getElem hjl, Option.some.injEq] at hr
  subst hr
  simpa using this

theorem paramIndex?_none {c : Callable} {n : Str} (h : paramIndex? c n = none) : ∀ q ∈ c.params, q.name ≠ n := by
  unfold paramIndex? at h
  rw [List.findIdx?_eq_none_iff] at h
  intro q hq
  simpa using h q hq

/-! ### callback annotations on something that is no callback -/

theorem callbackStep_noncallback {c : Callable} {i : Nat} {part : Str} {a : Anns} {p : Node}
    (hp : c.getAll? i = some p) (hcb : isCallbackCls p.ty.cls = false) :
    callbackStep c i part (some a) = .ok (c,
      (if a.scope.isSome then [⟨G "scope", .ann part⟩] else []) ++
      (if a.destroy.isSome then [⟨G "destroy", .ann part⟩] else []) ++
      (if a.closure.isSome then [⟨G "closure", .ann part⟩] else [])) := by
  unfold callbackStep
  simp [hp, hcb, pure, Except.pure]

/-! ### `setAll` frame -/

theorem modify_getElem?_ne {α : Type} (l : List α) (f : α → α) (i j : Nat) (h : j ≠ i) :
    (l.modify i f)[j]? = l[j]? := by
  rw [List.getElem?_modify]
  simp [Ne.symm h]

theorem modify_getElem?_eq {α : Type} (l : List α) (f : α → α) (i : Nat) :
    (l.modify i f)[i]? = (l[i]?).map f := by
  rw [List.getElem?_modify]
  simp

theorem setAll_getAll?_ne (c : Callable) (f : Node → Node) (i j : Nat) (h : j ≠ i) :
    (c.setAll i f).getAll? j = c.getAll? j := by
  unfold Callable.setAll Callable.getAll? Callable.all
  cases hi : c.inst with
  | none => simp [modify_getElem?_ne _ _ _ _ h]
  | some inst =>
    cases i with
    | zero =>
      cases j with
      | zero => exact absurd rfl h
      | succ j' => simp
    | succ i' =>
      cases j with
      | zero => simp
      | succ j' =>
        have : j' ≠ i' := fun e => h (by rw [e])
        simp [modify_getElem?_ne _ _ _ _ this]

theorem setAll_getAll?_eq (c : Callable) (f : Node → Node) (i : Nat) :
    (c.setAll i f).getAll? i = (c.getAll? i).map f := by
  unfold Callable.setAll Callable.getAll? Callable.all
  cases hi : c.inst with
  | none => simp
  | some inst =>
    cases i with
    | zero => simp
    | succ i' => simp

/-- an update that keeps names keeps every name lookup -/
theorem setAll_all_names (c : Callable) (f : Node → Node) (i : Nat) (hf : ∀ p, (f p).name = p.name) :
    (c.setAll i f).all.map (·.name) = c.all.map (·.name) := by
  apply List.ext_getElem?
  intro j
  have e1 : ((c.setAll i f).all.map (·.name))[j]? = ((c.setAll i f).getAll? j).map (·.name) := by
    simp [Callable.getAll?]
  have e2 : (c.all.map (·.name))[j]? = (c.getAll? j).map (·.name) := by simp [Callable.getAll?]
  rw [e1, e2]
  by_cases h : j = i
  · subst h
    rw [setAll_getAll?_eq]
    cases c.getAll? j <;> simp [hf]
  · rw [setAll_getAll?_ne _ _ _ _ h]

/-! ### the length parameter -/

theorem applyLenEffect_target (c : Callable) (e : LenEffect) (j : Nat) (p : Node)
    (hj : allIndex? c e.target = some j) (hp : c.getAll? j = some p) :
    (applyLenEffect c e).getAll? j =
      some { p with dir := e.dir,
                    transfer := if e.dir == .out then some (G Gen.ParamAnn.transferFull) else p.transfer } := by
  unfold applyLenEffect
  rw [hj]
  simp only
  rw [setAll_getAll?_eq, hp]
  rfl

theorem applyLenEffect_frame (c : Callable) (e : LenEffect) (k : Nat)
    (hk : allIndex? c e.target ≠ some k) : (applyLenEffect c e).getAll? k = c.getAll? k := by
  unfold applyLenEffect
  cases hj : allIndex? c e.target with
  | none => rfl
  | some j =>
    simp only
    apply setAll_getAll?_ne
    intro h
    apply hk
    rw [hj, h]

theorem applyLenEffect_ret (c : Callable) (e : LenEffect) : (applyLenEffect c e).ret = c.ret := by
  unfold applyLenEffect
  cases allIndex? c e.target with
  | none => rfl
  | some j =>
    simp only
    unfold Callable.setAll
    cases c.inst with
    | none => rfl
    | some i => cases j <;> rfl

/-! ### where a length effect comes from, and the frame of one parameter's step -/

theorem arrayStep_eff {env : Env} {pos : Pos} {all : List Node} {d : Dir} {t : Ty} {a : Anns}
    {opts : List (Str × Option Str)} {r : Ty × List Warning × Option LenEffect}
    (h : arrayStep env pos all d t a opts = .ok r) (e : LenEffect) (he : r.2.2 = some e) :
    e.dir = d ∧ ∃ l p, dictGetTruthy opts Gen.ParamAnn.optArrayLength = some l ∧ findParam all l = some p ∧ e.target = p.name := by
  unfold arrayStep at h
  simp only [bind, Except.bind, pure, Except.pure] at h
  repeat' split at h
  all_goals first
    | contradiction
    | (injection h with h; subst h; simp at he)
    | (injection h with h; subst h; simp at he; subst he; simp_all)
    | skip
  all_goals (subst he; exact ⟨rfl, _, _, by assumption, by assumption, rfl⟩)

theorem findParam_name {all : List Node} {l : Str} {p : Node} (h : findParam all l = some p) : p.name = l := by
  unfold findParam at h
  have := List.find?_some h
  simpa using this

theorem containerStep_eff {env : Env} {pos : Pos} {part : Str} {all : List Node} {d : Dir} {t : Ty} {a : Anns}
    {r : Ty × List Warning × Option LenEffect}
    (h : containerStep env pos part all d t a = .ok r) (e : LenEffect) (he : r.2.2 = some e) :
    e.dir = d ∧ (a.array.bind (fun o => dictGetTruthy o Gen.ParamAnn.optArrayLength)) = some e.target := by
  unfold containerStep at h
  simp only [bind, Except.bind, pure, Except.pure] at h
  cases harr : a.array with
  | none =>
    rw [harr] at h
    simp only at h
    repeat' split at h
    all_goals first
      | contradiction
      | (injection h with h; subst h; simp at he)
  | some opts =>
    rw [harr] at h
    simp only at h
    split at h
    · contradiction
    · rename_i v hv
      injection h with h
      subst h
      simp only at he
      obtain ⟨hd, l, p, hl, hp, ht⟩ := arrayStep_eff hv e he
      refine ⟨hd, ?_⟩
      simp [hl, ht, findParam_name hp]

theorem allIndex?_name {c : Callable} {nm : Str} {j : Nat} (h : allIndex? c nm = some j) :
    ∃ q, c.getAll? j = some q ∧ q.name = nm := by
  unfold allIndex? at h
  rw [List.findIdx?_eq_some_iff_getElem] at h
  obtain ⟨hk, hq, _⟩ := h
  exact ⟨c.all[j], by simp [Callable.getAll?, hk], by simpa using hq⟩

/-- frame of the callback step when no `(destroy)` is written: only `i` can change -/
theorem callbackStep_frame {c c' : Callable} {i : Nat} {part : Str} {tag : Option Anns} {ws : List Warning}
    (h : callbackStep c i part tag = .ok (c', ws)) (j : Nat) (hj : j ≠ i)
    (hnd : (tag.getD Anns.empty).destroy = none) :
    c'.getAll? j = c.getAll? j := by
  unfold callbackStep at h
  simp only [hnd, bind, Except.bind, pure, Except.pure] at h
  repeat' split at h
  all_goals first
    | contradiction
    | (injection h with h; injection h with h1 h2; subst h1; simp [setAll_getAll?_ne _ _ _ _ hj])

theorem closureStep_frame (c : Callable) (i : Nat) (part : Str) (tag : Option Anns) (j : Nat) (hj : j ≠ i) :
    (closureStep c i part tag).1.getAll? j = c.getAll? j := by
  unfold closureStep
  simp only
  cases h1 : (tag.getD Anns.empty).closure with
  | none => simp
  | some opts =>
    cases h2 : c.getAll? i with
    | none => simp
    | some p =>
      simp only
      split
      · rfl
      · exact setAll_getAll?_ne _ _ _ _ hj

end GIVerif.ParamAnn
