/-
  Helper lemmas for C09 (Props/C09.lean): the field loop against the sequential layout,
  the attribute walk-back / iteration, glibc-style bsearch, closed forms of section sizes.
-/
import GIVerif.Model.InfoAccess
import Mathlib.Data.List.Sort
import Mathlib.Data.List.Range
import Mathlib.Tactic.Ring
import Mathlib.Tactic.NormNum

namespace GIVerif.InfoAccess

/-! ### fields -/

theorem fieldsSize_append (S : Sizes) (a b : List Bool) :
    fieldsSize S (a ++ b) = fieldsSize S a + fieldsSize S b := by
  induction a with
  | nil => simp [fieldsSize]
  | cons x xs ih => simp [fieldsSize, ih]; omega

theorem fieldsSize_closed (S : Sizes) (fs : List Bool) :
    fieldsSize S fs = fs.length * S.field + fs.count true * S.callback := by
  induction fs with
  | nil => simp [fieldsSize]
  | cons b bs ih =>
    cases b <;> simp [fieldsSize, ih, Nat.add_mul] <;> omega

theorem FieldsAt.tail {hasEmb : Nat → Bool} {S : Sizes} {start : Nat} {b : Bool} {bs : List Bool}
    (h : FieldsAt hasEmb S start (b :: bs)) :
    FieldsAt hasEmb S (start + S.field + (if b then S.callback else 0)) bs := by
  intro i hi
  have := h (i + 1) (by simpa using hi)
  simp only [List.take_succ_cons, fieldsSize, List.getElem_cons_succ] at this
  rw [← this]
  congr 1
  omega

theorem FieldsAt.head {hasEmb : Nat → Bool} {S : Sizes} {start : Nat} {b : Bool} {bs : List Bool}
    (h : FieldsAt hasEmb S start (b :: bs)) : hasEmb start = b := by
  have := h 0 (by simp)
  simpa [fieldsSize] using this

/-- the loop of `g_object_info_get_field_offset` / `g_struct_get_field_offset` lands on the start of
    the i-th field of the run (i = length: the end of the run) -/
theorem fieldLoop_eq (hasEmb : Nat → Bool) (S : Sizes) (fs : List Bool) :
    ∀ (start : Nat), FieldsAt hasEmb S start fs → ∀ i, i ≤ fs.length →
      fieldLoop hasEmb S.field S.callback start i = start + fieldsSize S (fs.take i) := by
  induction fs with
  | nil =>
    intro start _ i hi
    have : i = 0 := by simpa using hi
    subst this
    simp [fieldLoop, fieldsSize]
  | cons b bs ih =>
    intro start h i hi
    cases i with
    | zero => simp [fieldLoop, fieldsSize]
    | succ i =>
      have hb := h.head
      simp only [fieldLoop, hb, List.take_succ_cons, fieldsSize]
      rw [ih _ h.tail i (by simpa using hi)]
      omega

theorem ifacePad_eq (n : Nat) : ifacePad n = 2 * n + (if n % 2 = 1 then 2 else 0) := by
  unfold ifacePad
  split <;> omega

/-! ### attribute table -/

theorem walkBack_le (offs : Nat → Nat) (key r : Nat) : walkBack offs key r ≤ r := by
  induction r with
  | zero => simp [walkBack]
  | succ r ih =>
    simp only [walkBack]
    split
    · omega
    · omega

/-- everything between the result of the walk-back and its start carries the key -/
theorem walkBack_block (offs : Nat → Nat) (key r : Nat) (hr : offs r = key) :
    ∀ j, walkBack offs key r ≤ j → j ≤ r → offs j = key := by
  induction r with
  | zero =>
    intro j _ h2
    have : j = 0 := by omega
    subst this; exact hr
  | succ r ih =>
    intro j h1 h2
    simp only [walkBack] at h1
    split at h1
    · rename_i hk
      rcases Nat.lt_or_ge j (r + 1) with hlt | hge
      · exact ih hk j h1 (by omega)
      · have : j = r + 1 := by omega
        subst this; exact hr
    · have : j = r + 1 := by omega
      subst this; exact hr

/-- the walk-back stops at index 0 or right after an entry with a different key -/
theorem walkBack_stop (offs : Nat → Nat) (key r : Nat) :
    walkBack offs key r = 0 ∨ offs (walkBack offs key r - 1) ≠ key := by
  induction r with
  | zero => left; simp [walkBack]
  | succ r ih =>
    simp only [walkBack]
    split
    · exact ih
    · rename_i hk
      right
      simpa using hk

/-- in a sorted table the walk-back ends on the FIRST entry with the key -/
theorem walkBack_first (offs : Nat → Nat) (n key r : Nat) (hs : SortedTable offs n)
    (hrn : r < n) (hr : offs r = key) :
    offs (walkBack offs key r) = key ∧ ∀ j, j < walkBack offs key r → offs j ≠ key := by
  refine ⟨walkBack_block offs key r hr _ (Nat.le_refl _) (walkBack_le offs key r), ?_⟩
  intro j hj hjk
  have hle := walkBack_le offs key r
  rcases walkBack_stop offs key r with h0 | hne
  · omega
  · apply hne
    -- offs j = key ≤ offs (f-1) ≤ offs f = key
    have h1 : offs j ≤ offs (walkBack offs key r - 1) := hs _ _ (by omega) (by omega)
    have h2 : offs (walkBack offs key r - 1) ≤ offs (walkBack offs key r) := hs _ _ (by omega) (by omega)
    have h3 := walkBack_block offs key r hr _ (Nat.le_refl _) hle
    omega

/-- the iteration yields a run of consecutive indices, all with the key, and stops only at the
    end of the table, at a different key, or when the fuel is exhausted -/
theorem iterFrom_spec (offs : Nat → Nat) (n key : Nat) :
    ∀ fuel s, ∃ k, iterFrom offs n key fuel s = List.range' s k ∧ k ≤ fuel ∧
      (∀ i, s ≤ i → i < s + k → i < n ∧ offs i = key) ∧
      (k < fuel → ¬(s + k < n ∧ offs (s + k) = key)) := by
  intro fuel
  induction fuel with
  | zero => intro s; exact ⟨0, by simp [iterFrom], by omega, by intro i h1 h2; omega, by omega⟩
  | succ fuel ih =>
    intro s
    simp only [iterFrom]
    split
    · rename_i hc
      obtain ⟨k, hk, hkf, hall, hstop⟩ := ih (s + 1)
      refine ⟨k + 1, ?_, by omega, ?_, ?_⟩
      · rw [hk]; simp [List.range'_succ]
      · intro i h1 h2
        rcases Nat.eq_or_lt_of_le h1 with rfl | hlt
        · exact hc
        · exact hall i (by omega) (by omega)
      · intro hlt
        have := hstop (by omega)
        have e : s + (k + 1) = s + 1 + k := by omega
        rw [e]; exact this
    · rename_i hc
      exact ⟨0, by simp, by omega, by intro i h1 h2; omega, by intro _; simpa using hc⟩

/-! ### bsearch -/

theorem bsearch_spec (offs : Nat → Nat) (n key : Nat) (hs : SortedTable offs n) :
    ∀ l u, u ≤ n → (∀ i, i < n → offs i = key → l ≤ i ∧ i < u) →
      BsearchOk offs n key (bsearch offs key l u) := by
  intro l u
  induction h : u - l using Nat.strong_induction_on generalizing l u with
  | _ d ih =>
    intro hu hinv
    unfold bsearch
    split
    · rename_i hlu
      simp only
      split
      · rename_i hlt
        apply ih ((l + u) / 2 - l) (by omega) l ((l + u) / 2) rfl (by omega)
        intro i hi hik
        have := hinv i hi hik
        refine ⟨this.1, ?_⟩
        by_contra hge
        have : offs ((l + u) / 2) ≤ offs i := hs _ _ (by omega) hi
        omega
      · split
        · rename_i hgt
          apply ih (u - ((l + u) / 2 + 1)) (by omega) ((l + u) / 2 + 1) u rfl hu
          intro i hi hik
          have := hinv i hi hik
          refine ⟨?_, this.2⟩
          by_contra hge
          have : offs i ≤ offs ((l + u) / 2) := hs _ _ (by omega) (by omega)
          omega
        · exact ⟨by omega, by omega⟩
    · rename_i hlu
      intro i hi hik
      have := hinv i hi hik
      omega

end GIVerif.InfoAccess
