/- Helper lemmas for the block level (C10): line-ending normalisation
   `re.sub(LINE_BREAK_RE, '\n', comment).split('\n')` gives the same lines for LF, CR and CRLF. -/
import GIVerif.Model.AnnParse

namespace GIVerif.AnnParse
open GIVerif.Py

/-- a source line: contains neither `\r` nor `\n` -/
def NoBreak (l : Str) : Prop := ∀ c ∈ l, c ≠ '\r' ∧ c ≠ '\n'

/-- the three line-ending conventions -/
def IsEol (e : Str) : Prop := e = ['\n'] ∨ e = ['\r'] ∨ e = ['\r', '\n']

theorem commentLinesAux_text (l rest acc : Str) (h : NoBreak l) :
    commentLinesAux (l ++ rest) acc false = commentLinesAux rest (l.reverse ++ acc) false := by
  induction l generalizing acc with
  | nil => simp
  | cons c cs ih =>
    obtain ⟨h1, h2⟩ := h c (by simp)
    rw [List.cons_append, commentLinesAux]
    simp only [h1, h2, if_false]
    rw [ih (c :: acc) (fun x hx => h x (by simp [hx]))]
    simp

theorem commentLinesAux_afterCR (R acc : Str) (h : R.head? ≠ some '\n') :
    commentLinesAux R acc true = commentLinesAux R acc false := by
  cases R with
  | nil => simp [commentLinesAux]
  | cons c cs =>
    have hc : c ≠ '\n' := by intro he; apply h; simp [he]
    rw [commentLinesAux, commentLinesAux]
    simp only [hc, if_false]

theorem join_head_noLF (e : Str) (he : e = ['\r']) : ∀ (ls : List Str), (∀ l ∈ ls, NoBreak l) →
    (join e ls).head? ≠ some '\n'
  | [], _ => by simp [join]
  | [x], h => by
    simp only [join]
    cases x with
    | nil => simp
    | cons c cs => simp only [List.head?_cons, ne_eq, Option.some.injEq]; exact (h (c :: cs) (by simp) c (by simp)).2
  | x :: y :: ys, h => by
    simp only [join]
    cases x with
    | nil => subst he; simp
    | cons c cs => simp only [List.cons_append, List.head?_cons, ne_eq, Option.some.injEq]; exact (h (c :: cs) (by simp) c (by simp)).2

/-- the lines of a text are independent of the line-ending convention it is written in -/
theorem commentLines_join (e : Str) (he : IsEol e) : ∀ (ls : List Str), ls ≠ [] → (∀ l ∈ ls, NoBreak l) →
    commentLines (join e ls) = ls
  | [], h, _ => absurd rfl h
  | [x], _, h => by
    unfold commentLines
    have := commentLinesAux_text x [] [] (h x (by simp))
    simp only [List.append_nil] at this
    simp [join, this, commentLinesAux]
  | x :: y :: ys, _, h => by
    have ih := commentLines_join e he (y :: ys) (by simp) (fun l hl => h l (by simp [hl]))
    unfold commentLines at ih ⊢
    have hx := h x (by simp)
    simp only [join]
    rw [List.append_assoc, commentLinesAux_text x _ [] hx]
    simp only [List.append_nil]
    rcases he with rfl | rfl | rfl
    · rw [List.singleton_append, commentLinesAux]
      simp [ih]
    · rw [List.singleton_append, commentLinesAux]
      simp only [show ('\r' : Char) ≠ '\n' by decide, if_false, if_true, List.reverse_reverse]
      rw [commentLinesAux_afterCR _ _ (join_head_noLF ['\r'] rfl (y :: ys) (fun l hl => h l (by simp [hl]))), ih]
    · rw [show ['\r', '\n'] ++ join ['\r', '\n'] (y :: ys) = '\r' :: '\n' :: join ['\r', '\n'] (y :: ys) by rfl,
        commentLinesAux]
      simp only [show ('\r' : Char) ≠ '\n' by decide, if_false, if_true, List.reverse_reverse]
      rw [commentLinesAux]
      simp [ih]

end GIVerif.AnnParse
