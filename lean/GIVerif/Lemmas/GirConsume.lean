/-
  Helper lemmas for C15: the PASSTHROUGH depth counter over well-nested event streams.
-/
import GIVerif.Model.GirConsume

namespace GIVerif.GirConsume

/-- well-nested event sequences: what an XML parser delivers for a forest of elements -/
inductive WN : List Ev → Prop where
  | nil : WN []
  | node (n : String) (h : Bool) (body rest : List Ev) :
      WN body → WN rest → WN (Ev.start n h :: (body ++ Ev.stop n :: rest))

theorem run_append (c : Ctx) (xs ys : List Ev) :
    run c (xs ++ ys) = match run c xs with
      | .ok c' => run c' ys
      | .error m => .error m := by
  induction xs generalizing c with
  | nil => simp [run]
  | cons e es ih =>
    simp only [List.cons_append, run]
    cases step c e with
    | ok c' => simpa using ih c'
    | error m => rfl

theorem run_append_ok {c c' : Ctx} {xs : List Ev} (h : run c xs = .ok c') (ys : List Ev) :
    run c (xs ++ ys) = run c' ys := by
  rw [run_append, h]

/-- inside PASSTHROUGH a start tag only increments the counter -/
theorem startEv_passthrough (c : Ctx) (n : String) (h : Bool) (hs : c.state = "PASSTHROUGH") :
    startEv c n h = .ok { c with depth := c.depth + 1 } := by
  simp [startEv, hs]

/-- inside PASSTHROUGH at depth ≥ 2 an end tag only decrements the counter -/
theorem endEv_passthrough_deep (c : Ctx) (n : String) (d : Nat) (hs : c.state = "PASSTHROUGH")
    (hd : c.depth = d + 2) : endEv c n = .ok { c with depth := d + 1 } := by
  simp [endEv, hs, hd]

/-- inside PASSTHROUGH at depth 1 an end tag leaves PASSTHROUGH for `prev_state` -/
theorem endEv_passthrough_last (c : Ctx) (n : String) (hs : c.state = "PASSTHROUGH") (hd : c.depth = 1) :
    endEv c n = stateSwitch { c with depth := 0 } c.prev := by
  simp [endEv, hs, hd]

/-- THE counter lemma: a well-nested sequence met inside PASSTHROUGH (depth ≥ 1) changes nothing at all -/
theorem run_passthrough_wn (evs : List Ev) (hw : WN evs) :
    ∀ (c : Ctx), c.state = "PASSTHROUGH" → 1 ≤ c.depth → run c evs = .ok c := by
  induction hw with
  | nil => intro c _ _; rfl
  | node n h body rest _ _ ihb ihr =>
    intro c hs hd
    -- start: depth + 1
    have h1 : run c (Ev.start n h :: (body ++ Ev.stop n :: rest))
        = run { c with depth := c.depth + 1 } (body ++ Ev.stop n :: rest) := by
      simp [run, step, startEv_passthrough c n h hs]
    rw [h1]
    -- body: unchanged
    have hb := ihb { c with depth := c.depth + 1 } hs (by simp)
    rw [run_append_ok hb]
    -- stop: depth back
    obtain ⟨d, hd'⟩ : ∃ d, c.depth = d + 1 := ⟨c.depth - 1, by omega⟩
    have h2 : endEv { c with depth := c.depth + 1 } n = .ok c := by
      have h3 := endEv_passthrough_deep { c with depth := c.depth + 1 } n d hs (by simp [hd'])
      rw [h3]
      cases c
      simp only at hd'
      simp [hd']
    simp only [run, step, h2]
    exact ihr c hs hd

theorem wn_append {xs ys : List Ev} (hx : WN xs) (hy : WN ys) : WN (xs ++ ys) := by
  induction hx with
  | nil => simpa using hy
  | node n h body rest hb _ _ ihr =>
    have : Ev.start n h :: (body ++ Ev.stop n :: rest) ++ ys = Ev.start n h :: (body ++ Ev.stop n :: (rest ++ ys)) := by
      simp
    rw [this]
    exact WN.node n h body (rest ++ ys) hb ihr

end GIVerif.GirConsume
