/-
  Helper lemmas for C15: the PASSTHROUGH depth counter over well-nested event streams.
-/
import GIVerif.Model.GirConsume

namespace GIVerif.GirConsume

instance instDecEqExcept {ε α : Type} [DecidableEq ε] [DecidableEq α] : DecidableEq (Except ε α) := fun a b =>
  match a, b with
  | .ok x, .ok y => if h : x = y then isTrue (by rw [h]) else isFalse (fun e => h (by cases e; rfl))
  | .error x, .error y => if h : x = y then isTrue (by rw [h]) else isFalse (fun e => h (by cases e; rfl))
  | .ok _, .error _ => isFalse (fun e => by cases e)
  | .error _, .ok _ => isFalse (fun e => by cases e)

/-- well-nested event sequences: what an XML parser delivers for a forest of elements -/
inductive WN : List Ev → Prop where
  | nil : WN []
  | node (n : String) (h i : Bool) (body rest : List Ev) :
      WN body → WN rest → WN (Ev.start n h i :: (body ++ Ev.stop n :: rest))

theorem run_append (c : Ctx) (xs ys : List Ev) :
    run c (xs ++ ys) = match run c xs with
      | .ok c' => run c' ys
      | .error m => .error m := by
  induction xs generalizing c with
  | nil => simp [run]
  | cons e es ih =>
    simp only [List.cons_append, run]
    cases step c e with
    | ok c' => simpa using ih c'
    | error m => rfl

theorem run_append_ok {c c' : Ctx} {xs : List Ev} (h : run c xs = .ok c') (ys : List Ev) :
    run c (xs ++ ys) = run c' ys := by
  rw [run_append, h]

/-- inside PASSTHROUGH a start tag only increments the counter -/
theorem startEv_passthrough (c : Ctx) (n : String) (h i : Bool) (hs : c.state = "PASSTHROUGH") :
    startEv c n h i = .ok { c with depth := c.depth + 1 } := by
  simp [startEv, hs]

/-- inside PASSTHROUGH at depth ≥ 2 an end tag only decrements the counter -/
theorem endEv_passthrough_deep (c : Ctx) (n : String) (d : Nat) (hs : c.state = "PASSTHROUGH")
    (hd : c.depth = d + 2) : endEv c n = .ok { c with depth := d + 1 } := by
  simp [endEv, hs, hd]

/-- inside PASSTHROUGH at depth 1 an end tag leaves PASSTHROUGH for `prev_state` -/
theorem endEv_passthrough_last (c : Ctx) (n : String) (hs : c.state = "PASSTHROUGH") (hd : c.depth = 1) :
    endEv c n = stateSwitch { c with depth := 0 } c.prev := by
  simp [endEv, hs, hd]

/-- THE counter lemma: a well-nested sequence met inside PASSTHROUGH (depth ≥ 1) changes nothing at all -/
theorem run_passthrough_wn (evs : List Ev) (hw : WN evs) :
    ∀ (c : Ctx), c.state = "PASSTHROUGH" → 1 ≤ c.depth → run c evs = .ok c := by
  induction hw with
  | nil => intro c _ _; rfl
  | node n h i body rest _ _ ihb ihr =>
    intro c hs hd
    -- start: depth + 1
    have h1 : run c (Ev.start n h i :: (body ++ Ev.stop n :: rest))
        = run { c with depth := c.depth + 1 } (body ++ Ev.stop n :: rest) := by
      simp [run, step, startEv_passthrough c n h i hs]
    rw [h1]
    -- body: unchanged
    have hb := ihb { c with depth := c.depth + 1 } hs (by simp)
    rw [run_append_ok hb]
    -- stop: depth back
    obtain ⟨d, hd'⟩ : ∃ d, c.depth = d + 1 := ⟨c.depth - 1, by omega⟩
    have h2 : endEv { c with depth := c.depth + 1 } n = .ok c := by
      have h3 := endEv_passthrough_deep { c with depth := c.depth + 1 } n d hs (by simp [hd'])
      rw [h3]
      cases c
      simp only at hd'
      simp [hd']
    simp only [run, step, h2]
    exact ihr c hs hd

theorem stateSwitch_ok {c' : Ctx} {s : String} {r : Ctx} (h : stateSwitch c' s = .ok r) :
    r = { c' with prev := c'.state, state := s, depth := if s = "PASSTHROUGH" then 1 else c'.depth } := by
  unfold stateSwitch at h
  split at h
  · cases h
  · cases h; rfl

/-- what entering PASSTHROUGH from outside looks like: only state, prev_state, the counter and the log change -/
theorem startEv_enters_passthrough (c c1 : Ctx) (n : String) (hidden intro0 : Bool)
    (hs : c.state ≠ "PASSTHROUGH")
    (hrow : ∀ r, lookup c.state n (!c.stack.isEmpty) = some r → r.prelude = true → r.target ≠ "PASSTHROUGH")
    (h1 : startEv c n hidden intro0 = .ok c1) (hp : c1.state = "PASSTHROUGH") :
    ∃ entry, c1 = { c with prev := c.state, state := "PASSTHROUGH", depth := 1, log := c.log ++ [entry] } := by
  unfold startEv at h1
  rw [if_neg hs] at h1
  cases hl : lookup c.state n (!c.stack.isEmpty) with
  | none =>
    rw [hl] at h1
    have := stateSwitch_ok h1
    exact ⟨_, by simpa using this⟩
  | some r =>
    rw [hl] at h1
    simp only at h1
    by_cases hpre : r.prelude = true
    · rw [if_pos hpre] at h1
      by_cases hh : hidden = true
      · rw [if_pos hh] at h1
        have := stateSwitch_ok h1
        exact ⟨"~" ++ n, by simpa using this⟩
      · rw [if_neg hh] at h1
        exfalso
        have ht := hrow r hl hpre
        cases hsw : stateSwitch { c with log := c.log ++ ["+" ++ n] } r.target with
        | error m => simp [hsw, bind, Except.bind] at h1
        | ok c' =>
          have e := stateSwitch_ok hsw
          simp only [hsw, bind, Except.bind, pure, Except.pure] at h1
          cases h1
          subst e
          split at hp <;> split at hp <;> simp_all
    · rw [if_neg hpre] at h1
      by_cases hown : (Gen.c15COwnIntroTest.contains r.handler && intro0) = true
      · rw [if_pos hown] at h1
        have := stateSwitch_ok h1
        exact ⟨"~" ++ n, by simpa using this⟩
      rw [if_neg hown] at h1
      by_cases hsw' : r.switch = true
      · rw [if_pos hsw'] at h1
        cases hsw : stateSwitch { c with log := c.log ++ ["+" ++ n] } r.target with
        | error m => simp [hsw, bind, Except.bind] at h1
        | ok c' =>
          have e := stateSwitch_ok hsw
          simp only [hsw, bind, Except.bind, pure, Except.pure] at h1
          cases h1
          subst e
          refine ⟨"+" ++ n, ?_⟩
          split at hp <;> simp_all
      · rw [if_neg hsw'] at h1
        exfalso
        simp only [pure, Except.pure] at h1
        split at h1 <;> (cases h1; simp_all)
theorem wn_append {xs ys : List Ev} (hx : WN xs) (hy : WN ys) : WN (xs ++ ys) := by
  induction hx with
  | nil => simpa using hy
  | node n h i body rest hb _ _ ihr =>
    have : Ev.start n h i :: (body ++ Ev.stop n :: rest) ++ ys = Ev.start n h i :: (body ++ Ev.stop n :: (rest ++ ys)) := by
      simp
    rw [this]
    exact WN.node n h i body (rest ++ ys) hb ihr

end GIVerif.GirConsume
