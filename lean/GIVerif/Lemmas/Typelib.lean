/-
  Lemmas for C06: the generic bit-field codec of Model/Typelib.lean.
  Everything is by induction over bits; no layout is mentioned here.
-/
import GIVerif.Model.Typelib

namespace GIVerif.Typelib

/-! ### one bit of one byte -/

theorem testBit_putBit (x j i : Nat) (b : Bool) :
    (putBit x j b).testBit i = if i = j then b else x.testBit i := by
  unfold putBit
  by_cases h : x.testBit j = b
  · simp only [h, beq_self_eq_true, if_true]
    split
    · rename_i hij; rw [hij]; exact h
    · rfl
  · have hne : (x.testBit j == b) = false := by simpa using h
    simp only [hne, Bool.false_eq_true, if_false, Nat.testBit_xor, Nat.testBit_two_pow]
    by_cases hij : i = j
    · subst hij
      simp only [decide_true, if_true]
      cases hx : x.testBit i <;> cases b <;> simp_all
    · have : (j = i) = False := by simp; omega
      simp [this, hij]

theorem putBit_lt (x j : Nat) (b : Bool) (hx : x < 256) (hj : j < 8) : putBit x j b < 256 := by
  unfold putBit
  split
  · exact hx
  · have h2 : 2 ^ j < 2 ^ 8 := Nat.pow_lt_pow_right (by omega) hj
    exact Nat.xor_lt_two_pow (n := 8) hx h2

/-! ### bits of a byte list -/

/-- the total byte function of a list (0 beyond the end; only used below the length) -/
def byteFn (l : List Nat) : Nat → Nat := fun i => l.getD i 0

/-- absolute bit `k` of a byte function -/
def bit (B : Nat → Nat) (k : Nat) : Bool := (B (k / 8)).testBit (k % 8)

theorem length_setBit (l : List Nat) (k : Nat) (b : Bool) : (setBit l k b).length = l.length := by
  unfold setBit
  split <;> simp

theorem byteFn_setBit_other (l : List Nat) (k i : Nat) (b : Bool) (h : i ≠ k / 8) :
    byteFn (setBit l k b) i = byteFn l i := by
  unfold setBit byteFn
  split
  · simp only [List.getD_eq_getElem?_getD]
    rw [List.getElem?_set_ne (by omega)]
  · rfl

theorem byteFn_setBit_same (l : List Nat) (k : Nat) (b : Bool) (h : k / 8 < l.length) :
    byteFn (setBit l k b) (k / 8) = putBit (byteFn l (k / 8)) (k % 8) b := by
  unfold setBit byteFn
  have hx : l[k / 8]? = some l[k / 8] := List.getElem?_eq_getElem h
  simp only [hx, List.getD_eq_getElem?_getD]
  rw [List.getElem?_set_self (by simpa using h)]
  simp

theorem bit_setBit (l : List Nat) (k k' : Nat) (b : Bool) (h : k / 8 < l.length) :
    bit (byteFn (setBit l k b)) k' = if k' = k then b else bit (byteFn l) k' := by
  unfold bit
  by_cases hb : k' / 8 = k / 8
  · rw [hb, byteFn_setBit_same l k b h, testBit_putBit]
    by_cases hk : k' = k
    · subst hk; simp
    · have : k' % 8 ≠ k % 8 := by omega
      simp [this, hk]
  · rw [byteFn_setBit_other l k (k' / 8) b hb]
    have : k' ≠ k := by intro e; subst e; exact hb rfl
    simp [this]

theorem length_encodeBits (l : List Nat) (first w v : Nat) : (encodeBits l first w v).length = l.length := by
  induction w generalizing l first v with
  | zero => rfl
  | succ w ih => simp only [encodeBits]; rw [ih, length_setBit]

/-- every bit after writing `v` into `[first, first + w)`: the bits of `v` inside, the old bits outside -/
theorem bit_encodeBits (l : List Nat) (first w v k : Nat) (h : first + w ≤ 8 * l.length) :
    bit (byteFn (encodeBits l first w v)) k =
      if first ≤ k ∧ k < first + w then v.testBit (k - first) else bit (byteFn l) k := by
  induction w generalizing l first v with
  | zero =>
    have : ¬ (first ≤ k ∧ k < first + 0) := by omega
    rw [if_neg this]; rfl
  | succ w ih =>
    simp only [encodeBits]
    have hlen : first / 8 < l.length := by omega
    rw [ih (setBit l first (v % 2 == 1)) (first + 1) (v / 2) (by rw [length_setBit]; omega)]
    rw [bit_setBit l first k _ hlen]
    by_cases hk : k = first
    · subst hk
      have h1 : ¬ (k + 1 ≤ k ∧ k < k + 1 + w) := by omega
      have h2 : k ≤ k ∧ k < k + (w + 1) := by omega
      simp only [h1, h2, if_false, if_true, and_self, Nat.sub_self]
      rw [Nat.testBit_zero]
      cases Nat.mod_two_eq_zero_or_one v with
      | inl h0 => simp [h0]
      | inr h1' => simp [h1']
    · by_cases hin : first + 1 ≤ k ∧ k < first + 1 + w
      · have h2 : first ≤ k ∧ k < first + (w + 1) := by omega
        simp only [hin, h2, and_self, if_true]
        have : k - first = (k - (first + 1)) + 1 := by omega
        rw [this, Nat.testBit_succ]
      · have h2 : ¬ (first ≤ k ∧ k < first + (w + 1)) := by omega
        simp [hin, h2, hk]

/-- bytes that no bit of the written range lies in are untouched -/
theorem byteFn_encodeBits_other (l : List Nat) (first w v i : Nat)
    (h : ∀ k, first ≤ k → k < first + w → k / 8 ≠ i) :
    byteFn (encodeBits l first w v) i = byteFn l i := by
  induction w generalizing l first v with
  | zero => rfl
  | succ w ih =>
    simp only [encodeBits]
    rw [ih _ (first + 1) (v / 2) (fun k h1 h2 => h k (by omega) (by omega))]
    exact byteFn_setBit_other l first i _ (fun e => h first (Nat.le_refl _) (by omega) e.symm)

/-! ### reading -/

/-- the value of a bit range is determined by its bits -/
theorem decodeBits_of_bits (B : Nat → Nat) (first w v : Nat)
    (h : ∀ j, j < w → bit B (first + j) = v.testBit j) : decodeBits B first w = v % 2 ^ w := by
  induction w generalizing first v with
  | zero => simp [decodeBits, Nat.mod_one]
  | succ w ih =>
    simp only [decodeBits]
    have h0 := h 0 (by omega)
    simp only [Nat.add_zero, bit] at h0
    rw [h0]
    rw [ih (first + 1) (v / 2) (fun j hj => by
      have := h (j + 1) (by omega)
      rw [Nat.testBit_succ] at this
      rw [← this]; congr 1; omega)]
    rw [Nat.pow_succ', Nat.mod_mul, Nat.testBit_zero]
    cases Nat.mod_two_eq_zero_or_one v with
    | inl h0 => simp [h0]
    | inr h1 => simp [h1]

/-- reading depends only on the bits of the range -/
theorem decodeBits_congr (B B' : Nat → Nat) (first w : Nat)
    (h : ∀ k, first ≤ k → k < first + w → bit B k = bit B' k) : decodeBits B first w = decodeBits B' first w := by
  induction w generalizing first with
  | zero => rfl
  | succ w ih =>
    simp only [decodeBits]
    have h0 := h first (Nat.le_refl _) (by omega)
    simp only [bit] at h0
    rw [h0, ih (first + 1) (fun k h1 h2 => h k (by omega) (by omega))]

theorem decodeBits_lt (B : Nat → Nat) (first w : Nat) : decodeBits B first w < 2 ^ w := by
  induction w generalizing first with
  | zero => simp [decodeBits]
  | succ w ih =>
    simp only [decodeBits]
    have := ih (first + 1)
    have hb : ((B (first / 8)).testBit (first % 8)).toNat ≤ 1 := Bool.toNat_le _
    rw [Nat.pow_succ']
    omega

/-- the checked read succeeds exactly with the specification value when every byte of the range is readable -/
theorem decodeBits?_eq_some (rd : Reader) (B : Nat → Nat) (first w : Nat)
    (h : ∀ k, first ≤ k → k < first + w → rd (k / 8) = some (B (k / 8))) :
    decodeBits? rd first w = some (decodeBits B first w) := by
  induction w generalizing first with
  | zero => rfl
  | succ w ih =>
    simp only [decodeBits?, decodeBits]
    rw [h first (Nat.le_refl _) (by omega), ih (first + 1) (fun k h1 h2 => h k (by omega) (by omega))]

/-- the checked read fails as soon as one byte of the range is outside -/
theorem decodeBits?_eq_none (rd : Reader) (first w : Nat)
    (h : ∃ k, first ≤ k ∧ k < first + w ∧ rd (k / 8) = none) : decodeBits? rd first w = none := by
  induction w generalizing first with
  | zero => obtain ⟨k, h1, h2, _⟩ := h; omega
  | succ w ih =>
    obtain ⟨k, h1, h2, h3⟩ := h
    simp only [decodeBits?]
    cases hr : rd (first / 8) with
    | none => rfl
    | some b =>
      by_cases hk : k = first
      · subst hk; rw [hr] at h3; cases h3
      · rw [ih (first + 1) ⟨k, by omega, by omega, h3⟩]

theorem listReader_eq (l : List Nat) (i : Nat) (h : i < l.length) : listReader l i = some (byteFn l i) := by
  unfold listReader byteFn
  rw [List.getElem?_eq_getElem h]
  simp [List.getD_eq_getElem?_getD, List.getElem?_eq_getElem h]

theorem listReader_none (l : List Nat) (i : Nat) (h : l.length ≤ i) : listReader l i = none := by
  unfold listReader
  exact List.getElem?_eq_none h

/-- reading a range of a byte list that lies inside the list -/
theorem decodeBits?_list (l : List Nat) (first w : Nat) (h : first + w ≤ 8 * l.length) :
    decodeBits? (listReader l) first w = some (decodeBits (byteFn l) first w) :=
  decodeBits?_eq_some _ _ _ _ (fun k _ h2 => listReader_eq l (k / 8) (by omega))

/-! ### the codec on one member -/

/-- write then read the same member: the value comes back -/
theorem decode_encode_same (l : List Nat) (first w v : Nat) (h : first + w ≤ 8 * l.length) (hv : v < 2 ^ w) :
    decodeBits? (listReader (encodeBits l first w v)) first w = some v := by
  rw [decodeBits?_list _ _ _ (by rw [length_encodeBits]; exact h)]
  rw [decodeBits_of_bits _ first w v (fun j hj => by
    rw [bit_encodeBits l first w v (first + j) h]
    have : first ≤ first + j ∧ first + j < first + w := by omega
    simp [this])]
  rw [Nat.mod_eq_of_lt hv]

/-- write one member, read a disjoint one: unchanged -/
theorem decode_encode_other (l : List Nat) (f1 w1 v f2 w2 : Nat) (h1 : f1 + w1 ≤ 8 * l.length)
    (hd : disjointBits f1 w1 f2 w2 = true) :
    decodeBits? (listReader (encodeBits l f1 w1 v)) f2 w2 = decodeBits? (listReader l) f2 w2 := by
  have hd' : f1 + w1 ≤ f2 ∨ f2 + w2 ≤ f1 := by simpa [disjointBits] using hd
  by_cases h2 : f2 + w2 ≤ 8 * l.length
  · rw [decodeBits?_list _ _ _ (by rw [length_encodeBits]; exact h2), decodeBits?_list _ _ _ h2]
    congr 1
    apply decodeBits_congr
    intro k hk1 hk2
    rw [bit_encodeBits l f1 w1 v k h1]
    have : ¬ (f1 ≤ k ∧ k < f1 + w1) := by omega
    simp [this]
  · -- the second range leaves the list: both reads fail
    by_cases hw : w2 = 0
    · subst hw; rfl
    · have hk : ∃ k, f2 ≤ k ∧ k < f2 + w2 ∧ l.length ≤ k / 8 := ⟨f2 + w2 - 1, by omega, by omega, by omega⟩
      obtain ⟨k, a, b, c⟩ := hk
      rw [decodeBits?_eq_none _ f2 w2 ⟨k, a, b, listReader_none _ _ (by rw [length_encodeBits]; exact c)⟩,
          decodeBits?_eq_none _ f2 w2 ⟨k, a, b, listReader_none _ _ c⟩]

/-- encoding keeps byte values below 256 -/
theorem encodeBits_bytes (l : List Nat) (first w v : Nat) (hl : ∀ x ∈ l, x < 256) :
    ∀ x ∈ encodeBits l first w v, x < 256 := by
  induction w generalizing l first v with
  | zero => exact hl
  | succ w ih =>
    simp only [encodeBits]
    apply ih
    intro x hx
    unfold setBit at hx
    split at hx
    · rename_i y hy
      rcases List.mem_or_eq_of_mem_set hx with hm | rfl
      · exact hl x hm
      · exact putBit_lt y _ _ (hl y (List.mem_of_getElem? hy)) (Nat.mod_lt _ (by omega))
    · exact hl x hx

end GIVerif.Typelib
