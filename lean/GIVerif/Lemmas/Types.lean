import GIVerif.Model.Types

namespace GIVerif.Types
open GIVerif.Py

/-! ### stars -/

theorem stars_succ (k : Nat) : stars (k + 1) = stars k ++ ['*'] := by
  simp [stars, List.replicate_succ']

theorem stars_zero : stars 0 = [] := rfl

theorem reverse_append_star (s : Str) : (s ++ ['*']).reverse = '*' :: s.reverse := by simp

/-! ### `_canonicalize_ctype`, for an arbitrary table -/

theorem canonRevIn_hit {tbl : List (Str × Str)} {r f : Str} (h : lookupIn tbl r.reverse = some f) :
    canonRevIn tbl r = f := by
  cases r with
  | nil => simp only [List.reverse_nil] at h; simp [canonRevIn, h]
  | cons c r => simp only [canonRevIn, h]

theorem canonRevIn_star {tbl : List (Str × Str)} {r : Str} (h : lookupIn tbl ('*' :: r).reverse = none) :
    canonRevIn tbl ('*' :: r) = canonRevIn tbl r ++ ['*'] := by
  simp only [canonRevIn, h, if_true]

theorem canonRevIn_other {tbl : List (Str × Str)} {c : Char} {r : Str}
    (h : lookupIn tbl (c :: r).reverse = none) (hc : c ≠ '*') :
    canonRevIn tbl (c :: r) = (c :: r).reverse := by
  simp only [canonRevIn, h, hc, if_false]

theorem canonicalizeIn_hit {tbl : List (Str × Str)} {s f : Str} (h : lookupIn tbl s = some f) :
    canonicalizeIn tbl s = f := by
  unfold canonicalizeIn
  exact canonRevIn_hit (by simpa using h)

/-- one trailing `*` that has no alias of its own is peeled off and re-appended -/
theorem canonicalizeIn_star {tbl : List (Str × Str)} {s : Str} (h : lookupIn tbl (s ++ ['*']) = none) :
    canonicalizeIn tbl (s ++ ['*']) = canonicalizeIn tbl s ++ ['*'] := by
  unfold canonicalizeIn
  rw [reverse_append_star]
  exact canonRevIn_star (by simpa using h)

/-- a spelling that is no key and does not end in `*` is its own canonical form -/
theorem canonicalizeIn_plain {tbl : List (Str × Str)} {s : Str} (h : lookupIn tbl s = none)
    (hs : ∀ t, s ≠ t ++ ['*']) : canonicalizeIn tbl s = s := by
  unfold canonicalizeIn
  cases hr : s.reverse with
  | nil =>
    have : s = [] := by simpa using hr
    subst this
    simp [canonRevIn, h]
  | cons c r =>
    have hs' : s = (c :: r).reverse := by rw [← hr]; simp
    have hc : c ≠ '*' := by
      rintro rfl
      exact hs r.reverse (by rw [hs']; simp)
    rw [canonRevIn_other (by rw [← hs']; exact h) hc, ← hs']

/-- pointer stars beyond the longest aliased prefix are preserved -/
theorem canonicalizeIn_stars (tbl : List (Str × Str)) (s : Str) (k : Nat)
    (h : ∀ j, 1 ≤ j → j ≤ k → lookupIn tbl (s ++ stars j) = none) :
    canonicalizeIn tbl (s ++ stars k) = canonicalizeIn tbl s ++ stars k := by
  induction k with
  | zero => simp [stars]
  | succ k ih =>
    rw [stars_succ, ← List.append_assoc, canonicalizeIn_star, ih, List.append_assoc]
    · intro j h1 h2; exact h j h1 (by omega)
    · have := h (k + 1) (by omega) (by omega)
      rwa [stars_succ, ← List.append_assoc] at this

/-- the value part of the canonical form: either the spelling is left alone, or it is
    `f ++ '*'^m` for the longest aliased prefix `t ↦ f` -/
theorem canonRevIn_shape (tbl : List (Str × Str)) (r : Str) :
    canonRevIn tbl r = r.reverse ∨
    ∃ t f m, r.reverse = t ++ stars m ∧ lookupIn tbl t = some f ∧ canonRevIn tbl r = f ++ stars m ∧
      ∀ j, 1 ≤ j → j ≤ m → lookupIn tbl (t ++ stars j) = none := by
  induction r with
  | nil =>
    cases h : lookupIn tbl [] with
    | none => left; simp [canonRevIn, h]
    | some f =>
      right
      exact ⟨[], f, 0, by simp [stars], h, by simp [canonRevIn, h, stars], by intro j h1 h2; omega⟩
  | cons c r ih =>
    cases h : lookupIn tbl (c :: r).reverse with
    | some f =>
      right
      exact ⟨(c :: r).reverse, f, 0, by simp [stars], h, by rw [canonRevIn_hit h]; simp [stars],
        by intro j h1 h2; omega⟩
    | none =>
      by_cases hc : c = '*'
      · subst hc
        rw [canonRevIn_star h]
        rcases ih with ih | ⟨t, f, m, h1, h2, h3, h4⟩
        · left; rw [ih]; simp
        · right
          refine ⟨t, f, m + 1, ?_, h2, ?_, ?_⟩
          · rw [List.reverse_cons, h1, stars_succ, List.append_assoc]
          · rw [h3, stars_succ, List.append_assoc]
          · intro j hj1 hj2
            by_cases hj : j ≤ m
            · exact h4 j hj1 hj
            · have : j = m + 1 := by omega
              subst this
              rw [stars_succ, ← List.append_assoc, ← h1, ← List.reverse_cons]
              exact h
      · left; exact canonRevIn_other h hc

/-- table well-formedness used for idempotence: values are keys mapping to themselves -/
def ValuesFixed (tbl : List (Str × Str)) : Prop :=
  ∀ t f, lookupIn tbl t = some f → lookupIn tbl f = some f

/-- ... and whenever `value ++ '*'^j` has an alias of its own, so has `key ++ '*'^j` -/
def StarAliasesCovered (tbl : List (Str × Str)) : Prop :=
  ∀ t f j, lookupIn tbl t = some f → 1 ≤ j → lookupIn tbl (f ++ stars j) ≠ none →
    lookupIn tbl (t ++ stars j) ≠ none

theorem canonicalizeIn_idem (tbl : List (Str × Str)) (hv : ValuesFixed tbl) (hp : StarAliasesCovered tbl)
    (s : Str) : canonicalizeIn tbl (canonicalizeIn tbl s) = canonicalizeIn tbl s := by
  rcases canonRevIn_shape tbl s.reverse with h | ⟨t, f, m, h1, h2, h3, h4⟩
  · have hs : canonicalizeIn tbl s = s := by unfold canonicalizeIn; rw [h]; simp
    rw [hs, hs]
  · have hs : canonicalizeIn tbl s = f ++ stars m := by unfold canonicalizeIn; exact h3
    rw [hs, canonicalizeIn_stars tbl f m, canonicalizeIn_hit (hv t f h2)]
    intro j hj1 hj2
    cases hl : lookupIn tbl (f ++ stars j) with
    | none => rfl
    | some g => exact absurd (h4 j hj1 hj2) (hp t f j h2 hj1 (by rw [hl]; simp))

/-! ### facts about lookups -/

theorem lookupIn_some_mem {tbl : List (Str × Str)} {s f : Str} (h : lookupIn tbl s = some f) :
    (s, f) ∈ tbl := by
  unfold lookupIn at h
  cases hf : tbl.find? (fun r => r.1 == s) with
  | none => rw [hf] at h; cases h
  | some r =>
    rw [hf] at h
    simp only [Option.map_some, Option.some.injEq] at h
    have hm := List.mem_of_find?_eq_some hf
    have hk := List.find?_some hf
    simp only [beq_iff_eq] at hk
    rw [← hk, ← h]
    exact hm

/-- number of trailing `*` -/
def trailingStars (s : Str) : Nat := (s.reverse.takeWhile (· = '*')).length

theorem takeWhile_stars_append (j : Nat) (l : Str) : j ≤ ((stars j ++ l).takeWhile (· = '*')).length := by
  induction j with
  | zero => simp
  | succ j ih =>
    have : stars (j + 1) = '*' :: stars j := by simp [stars, List.replicate_succ]
    rw [this]
    simp only [List.cons_append, List.takeWhile_cons, decide_true, ite_true, List.length_cons]
    omega

theorem trailingStars_append_stars (s : Str) (j : Nat) : j ≤ trailingStars (s ++ stars j) := by
  unfold trailingStars
  rw [List.reverse_append]
  have hrev : (stars j).reverse = stars j := by simp [stars]
  rw [hrev]
  exact takeWhile_stars_append j _

/-- if no key of the table has `k` or more trailing stars, a spelling with that many has no alias -/
theorem lookupIn_none_of_many_stars {tbl : List (Str × Str)} {k : Nat}
    (hk : ∀ r ∈ tbl, trailingStars r.1 < k) (s : Str) (j : Nat) (hj : k ≤ j) :
    lookupIn tbl (s ++ stars j) = none := by
  cases h : lookupIn tbl (s ++ stars j) with
  | none => rfl
  | some f =>
    have := hk _ (lookupIn_some_mem h)
    have h2 := trailingStars_append_stars s j
    simp only at this
    omega

/-! ### type creation keeps ctype / const / complete ctype -/

theorem typeOfCanonical_fields (canonical base ctype : Str) (isConst isReturn : Bool) (complete : Str) :
    (typeOfCanonical canonical base ctype isConst isReturn complete).ctype = ctype ∧
    (typeOfCanonical canonical base ctype isConst isReturn complete).isConst = isConst ∧
    (typeOfCanonical canonical base ctype isConst isReturn complete).complete = complete := by
  unfold typeOfCanonical
  split
  · exact ⟨rfl, rfl, rfl⟩
  · split
    · exact ⟨rfl, rfl, rfl⟩
    · split <;> exact ⟨rfl, rfl, rfl⟩

theorem createTypeFromCtypeString_fields (ctype : Str) (isConst isReturn : Bool) (complete : Str) :
    (createTypeFromCtypeString ctype isConst isReturn complete).ctype = ctype ∧
    (createTypeFromCtypeString ctype isConst isReturn complete).isConst = isConst ∧
    (createTypeFromCtypeString ctype isConst isReturn complete).complete = complete := by
  unfold createTypeFromCtypeString
  simp only
  split <;> exact typeOfCanonical_fields _ _ _ _ _ _

/-! ### c:type reconstruction over the type tree -/

/-- the documented spelling: qualified base, then one `*` (+ qualifiers) per pointer level -/
def spelled (t : CType) (isParameter : Bool) : Str :=
  baseSpelling (baseOf t) ++ ((levels t isParameter).map levelSpelling).flatten

theorem baseOf_not_ptr_array (t : CType) : (∀ q u, baseOf t ≠ .ptr q u) ∧ (∀ q u n, baseOf t ≠ .array q u n) := by
  induction t with
  | ptr q t ih => simpa [baseOf] using ih
  | array q t n ih => simpa [baseOf] using ih
  | _ => simp [baseOf]

/-- appending one pointer level (associativity bookkeeping, literals kept opaque) -/
theorem level_step (b : Str) (ls : List Str) (sc sv : Str) (c v : Bool) :
    (if v then (if c then (b ++ ls.flatten) ++ ['*'] ++ sc else (b ++ ls.flatten) ++ ['*']) ++ sv
     else (if c then (b ++ ls.flatten) ++ ['*'] ++ sc else (b ++ ls.flatten) ++ ['*'])) =
    b ++ (ls ++ [['*'] ++ (if c then sc else []) ++ (if v then sv else [])]).flatten := by
  cases c <;> cases v <;> simp only [List.flatten_append, List.flatten_cons, List.flatten_nil, List.append_nil,
    List.append_assoc, if_true, if_false, Bool.false_eq_true]

theorem base_step (n sc sv : Str) (c v : Bool) :
    (if v then sv ++ (if c then sc ++ n else n) else (if c then sc ++ n else n)) =
    (if v then sv else []) ++ (if c then sc else []) ++ n := by
  cases c <;> cases v <;> simp only [List.nil_append, List.append_assoc, if_true, if_false, Bool.false_eq_true]

/-- for EVERY type tree, `_create_complete_source_type` writes the documented spelling (since /repo
    1f72dc6 a qualified `void` keeps its qualifiers like every other named base type) -/
theorem complete_eq_spelled (t : CType) (p : Bool) :
    createCompleteSourceType t p = spelled t p := by
  induction t generalizing p with
  | void q =>
    simp only [createCompleteSourceType, spelled, baseOf, baseSpelling, levels, List.map_nil, List.flatten_nil,
      List.append_nil]
    exact base_step sVoid _ _ q.const q.volatile
  | basic q n =>
    simp only [createCompleteSourceType, spelled, baseOf, baseSpelling, levels, List.map_nil, List.flatten_nil,
      List.append_nil]
    exact base_step n _ _ q.const q.volatile
  | typedef q n =>
    simp only [createCompleteSourceType, spelled, baseOf, baseSpelling, levels, List.map_nil, List.flatten_nil,
      List.append_nil]
    exact base_step n _ _ q.const q.volatile
  | tagged q n =>
    simp only [createCompleteSourceType, spelled, baseOf, baseSpelling, levels, List.map_nil, List.flatten_nil,
      List.append_nil]
    exact base_step n _ _ q.const q.volatile
  | func q =>
    simp only [createCompleteSourceType, spelled, baseOf, baseSpelling, levels, List.map_nil, List.flatten_nil,
      List.append_nil]
    cases q.const <;> cases q.volatile <;>
      simp only [List.nil_append, if_true, if_false, Bool.false_eq_true]
  | ptr q t ih =>
    have ih' := ih false
    simp only [createCompleteSourceType, spelled, baseOf, levels, List.map_append, List.map_cons, List.map_nil]
    rw [ih']
    unfold spelled levelSpelling
    exact level_step _ _ _ _ q.const q.volatile
  | array q t n ih =>
    have ih' := ih false
    cases p with
    | false =>
      simp only [createCompleteSourceType, spelled, baseOf, levels]
      rw [ih']; rfl
    | true =>
      simp only [createCompleteSourceType, spelled, baseOf, levels, List.map_append, List.map_cons, List.map_nil]
      rw [ih']
      unfold spelled levelSpelling
      exact level_step _ _ _ _ q.const q.volatile

theorem source_eq (t : CType) (p : Bool) :
    createSourceType t p = baseName (baseOf t) ++ stars (ptrDepth t p) := by
  induction t generalizing p with
  | ptr q t ih =>
    simp only [createSourceType, baseOf, ptrDepth, levels, List.length_append, List.length_cons, List.length_nil]
    rw [ih false, stars_succ, List.append_assoc, ptrDepth]
  | array q t n ih =>
    cases p with
    | false => simp only [createSourceType, baseOf, ptrDepth, levels]; exact ih false
    | true =>
      simp only [createSourceType, baseOf, ptrDepth, levels, List.length_append, List.length_cons, List.length_nil]
      rw [ih false, stars_succ, List.append_assoc, ptrDepth]
  | void q => exact (List.append_nil _).symm
  | basic q n => exact (List.append_nil _).symm
  | typedef q n => exact (List.append_nil _).symm
  | tagged q n => exact (List.append_nil _).symm
  | func q => exact (List.append_nil _).symm

theorem count_star_levelSpelling (q : Qual) : (levelSpelling q).count '*' = 1 := by
  unfold levelSpelling
  cases q.const <;> cases q.volatile <;> decide

theorem count_star_levels (l : List Qual) : ((l.map levelSpelling).flatten).count '*' = l.length := by
  induction l with
  | nil => simp
  | cons q l ih => simp [List.count_append, count_star_levelSpelling, ih]; omega

/-! ### the generated table (re-checked whenever giscanner/ast.py changes) -/

theorem table_values_fixed_check : table.all (fun r => lookup r.2 == some r.2) = true := by decide +kernel
theorem table_max_stars_check : table.all (fun r => decide (trailingStars r.1 < 2)) = true := by decide +kernel
theorem table_star_alias_check :
    table.all (fun r => (lookup (r.2 ++ ['*'])).isNone || (lookup (r.1 ++ ['*'])).isSome) = true := by
  decide +kernel

theorem table_valuesFixed : ValuesFixed table := by
  intro t f h
  have := List.all_eq_true.mp table_values_fixed_check _ (lookupIn_some_mem h)
  simpa [lookup] using this

theorem table_maxStars : ∀ r ∈ table, trailingStars r.1 < 2 := by
  intro r hr
  simpa using List.all_eq_true.mp table_max_stars_check r hr

/-- no key of `ast.type_names` ends in two stars: deeper pointers never have an alias of their own -/
theorem lookup_many_stars (s : Str) (j : Nat) (hj : 2 ≤ j) : lookup (s ++ stars j) = none :=
  lookupIn_none_of_many_stars table_maxStars s j hj

theorem table_starAliasesCovered : StarAliasesCovered table := by
  intro t f j h hj hne
  by_cases h1 : j = 1
  · subst h1
    have := List.all_eq_true.mp table_star_alias_check _ (lookupIn_some_mem h)
    simp only [Bool.or_eq_true, Option.isNone_iff_eq_none, Option.isSome_iff_ne_none] at this
    rcases this with h0 | h0
    · exact absurd h0 hne
    · exact h0
  · exact absurd (lookup_many_stars f j (by omega)) hne

end GIVerif.Types
