/-
  Helper lemmas for C07 (GIVerif/Props/C07.lean) about the model in GIVerif/Model/GirCodec.lean.
-/
import GIVerif.Model.GirCodec

namespace GIVerif.GirCodec
open GIVerif.Py

/-! ### attribute lists -/

theorem attrGet_compact (k : String) (l : List (String × Option Str)) :
    attrGet k (compact l) = lookupSome k l := by
  induction l with
  | nil => rfl
  | cons p rest ih =>
    obtain ⟨k', o⟩ := p
    cases o with
    | none =>
      simp only [compact, lookupSome, ih, Option.none_or]
      split <;> rfl
    | some v =>
      simp only [compact, attrGet, lookupSome, ih, Option.some_or]

theorem truthy_some_cons (c : Char) (cs : Str) : truthy (some (c :: cs)) = true := rfl
theorem truthy_none : truthy none = false := rfl
theorem truthy_some_nil : truthy (some []) = false := rfl

theorem keepTruthy_eq (o : Option Str) : keepTruthy o = if truthy o then o else none := rfl

theorem truthy_keepTruthy (o : Option Str) : truthy (keepTruthy o) = truthy o := by
  unfold keepTruthy
  split
  · rfl
  · rename_i h; simp only [truthy_none]; exact (Bool.not_eq_true _ ▸ h).symm

theorem keepTruthy_idem (o : Option Str) : keepTruthy (keepTruthy o) = keepTruthy o := by
  match o with
  | none => rfl
  | some [] => rfl
  | some (_ :: _) => rfl

theorem keepTruthy_of_truthy {o : Option Str} (h : truthy o = true) : keepTruthy o = o := by
  simp [keepTruthy, h]

theorem keepTruthy_of_not {o : Option Str} (h : truthy o = false) : keepTruthy o = none := by
  simp [keepTruthy, h]

/-! ### integers as text -/

theorem digitVal_digitChar (d : Nat) (h : d < 10) : digitVal (digitChar d) = some d := by
  have : d = 0 ∨ d = 1 ∨ d = 2 ∨ d = 3 ∨ d = 4 ∨ d = 5 ∨ d = 6 ∨ d = 7 ∨ d = 8 ∨ d = 9 := by omega
  rcases this with rfl | rfl | rfl | rfl | rfl | rfl | rfl | rfl | rfl | rfl <;> decide

theorem digitChar_ne_sign (d : Nat) (h : d < 10) : digitChar d ≠ '-' ∧ digitChar d ≠ '+' := by
  have : d = 0 ∨ d = 1 ∨ d = 2 ∨ d = 3 ∨ d = 4 ∨ d = 5 ∨ d = 6 ∨ d = 7 ∨ d = 8 ∨ d = 9 := by omega
  rcases this with rfl | rfl | rfl | rfl | rfl | rfl | rfl | rfl | rfl | rfl <;> decide

theorem showNatAux_acc (fuel n : Nat) (acc : Str) :
    showNatAux fuel n acc = showNatAux fuel n [] ++ acc := by
  induction fuel generalizing n acc with
  | zero => simp [showNatAux]
  | succ f ih =>
    simp only [showNatAux]
    split
    · simp
    · rw [ih (n / 10) (digitChar (n % 10) :: acc), ih (n / 10) [digitChar (n % 10)]]
      simp

theorem parseDigits_snoc (l : Str) (d a : Nat) (h : d < 10) :
    parseDigits (l ++ [digitChar d]) a = (parseDigits l a).map (fun v => v * 10 + d) := by
  induction l generalizing a with
  | nil => simp [parseDigits, digitVal_digitChar d h]
  | cons c cs ih =>
    simp only [List.cons_append, parseDigits]
    cases digitVal c with
    | none => rfl
    | some v => exact ih _

theorem parseDigits_showNatAux (fuel n : Nat) (h : n < fuel) :
    parseDigits (showNatAux fuel n []) 0 = some n := by
  induction fuel generalizing n with
  | zero => omega
  | succ f ih =>
    simp only [showNatAux]
    split
    · rename_i h10
      simp [parseDigits, digitVal_digitChar n h10]
    · rename_i h10
      rw [showNatAux_acc, parseDigits_snoc _ _ _ (Nat.mod_lt _ (by omega)), ih (n / 10) (by omega)]
      simp only [Option.map_some, Option.some.injEq]
      omega

theorem showNatAux_head (fuel n : Nat) (acc : Str) (h : n < fuel) :
    ∃ d cs, d < 10 ∧ showNatAux fuel n acc = digitChar d :: cs := by
  induction fuel generalizing n acc with
  | zero => omega
  | succ f ih =>
    simp only [showNatAux]
    split
    · rename_i h10; exact ⟨n, acc, h10, rfl⟩
    · exact ih (n / 10) _ (by omega)

theorem parseDigits_showNat (n : Nat) : parseDigits (showNat n) 0 = some n :=
  parseDigits_showNatAux (n + 1) n (by omega)

theorem showNat_head (n : Nat) : ∃ d cs, d < 10 ∧ showNat n = digitChar d :: cs :=
  showNatAux_head (n + 1) n [] (by omega)

theorem parseInt_showNat (n : Nat) : parseInt (showNat n) = .ok (n : Int) := by
  obtain ⟨d, cs, hd, hs⟩ := showNat_head n
  have hp := parseDigits_showNat n
  rw [hs] at hp ⊢
  obtain ⟨h1, h2⟩ := digitChar_ne_sign d hd
  unfold parseInt
  split
  · rename_i heq; simp only [List.cons.injEq] at heq; exact absurd heq.1 h1
  · rename_i heq; simp only [List.cons.injEq] at heq; exact absurd heq.1 h2
  · rename_i c' cs' _ _ heq
    simp only [List.cons.injEq] at heq
    obtain ⟨rfl, rfl⟩ := heq
    rw [hp]
  · rename_i heq; cases heq

theorem parseInt_showInt (i : Int) : parseInt (showInt i) = .ok i := by
  cases i with
  | ofNat n => exact parseInt_showNat n
  | negSucc n =>
    obtain ⟨d, cs, hd, hs⟩ := showNat_head (n + 1)
    have hp := parseDigits_showNat (n + 1)
    simp only [showInt]
    rw [hs] at hp ⊢
    simp only [parseInt, hp]
    rfl

theorem truthy_showNat (n : Nat) : truthy (some (showNat n)) = true := by
  obtain ⟨d, cs, _, hs⟩ := showNat_head n
  rw [hs]; rfl

theorem truthy_showInt (i : Int) : truthy (some (showInt i)) = true := by
  cases i with
  | ofNat n => exact truthy_showNat n
  | negSucc n => rfl

/-! ### index <-> name -/

theorem getIndexAux_spec (n : Str) (l : List (Option Str)) (k i : Nat) (h : getIndexAux n l k = some i) :
    ∃ j, i = k + j ∧ l[j]? = some (some n) := by
  induction l generalizing k with
  | nil => simp [getIndexAux] at h
  | cons a as ih =>
    simp only [getIndexAux] at h
    split at h
    · rename_i ha
      cases h
      exact ⟨0, rfl, by simp [ha]⟩
    · obtain ⟨j, hj, hl⟩ := ih (k + 1) h
      exact ⟨j + 1, by omega, by simpa using hl⟩

theorem getIndex_spec (names : List (Option Str)) (n : Str) (i : Nat) (h : getIndex names n = .ok i) :
    names[i]? = some (some n) := by
  unfold getIndex at h
  split at h
  · rename_i j hj
    cases h
    obtain ⟨k, hk, hl⟩ := getIndexAux_spec n names 0 _ hj
    simpa [hk] using hl
  · cases h

theorem resolveIndex_showNat (names : List (Option Str)) (n : Str) (i : Nat) (h : getIndex names n = .ok i) :
    resolveIndex names (showNat i) = .ok (some n) := by
  have hs := getIndex_spec names n i h
  have hlt : i < names.length := by
    rcases Nat.lt_or_ge i names.length with h | h
    · exact h
    · rw [List.getElem?_eq_none h] at hs; cases hs
  unfold resolveIndex
  rw [parseInt_showNat]
  simp only [Int.ofNat_lt, hlt, if_true, pyIndex, Int.natCast_nonneg, Int.toNat_natCast, hs]

/-! ### types -/

def tyTag : Ty → String
  | .array .. => "array"
  | .varargs => "varargs"
  | _ => "type"

theorem writeType_tag (ns : Str) (parent : Option (List (Option Str))) (t : Ty) (x : Xml)
    (h : writeType ns parent t = .ok x) : x.tag = tyTag t := by
  cases t <;> simp only [writeType] at h
  case unknown => cases h; rfl
  case varargs => cases h; rfl
  case plain => cases h; rfl
  case array c cc a z s l e =>
    split at h
    · cases h
    · split at h
      · cases h
      · cases h; rfl
  case list c cc n e =>
    split at h
    · cases h
    · cases h; rfl
  case map c cc k v =>
    split at h
    · cases h
    · split at h
      · cases h
      · cases h; rfl

theorem writeType_none_length (ns : Str) (t : Ty) (x : Xml) (h : writeType ns none t = .ok x) :
    tyLength t = none := by
  cases t <;> try rfl
  case array c cc a z s l e =>
    cases l with
    | none => rfl
    | some l => simp [writeType, lengthAttr] at h

theorem dropLen_of_length_none (t : Ty) (h : tyLength t = none) : dropLen t = t := by
  cases t <;> try rfl
  case array c cc a z s l e => simp only [tyLength] at h; subst h; rfl

theorem tyLength_canonTy (t : Ty) : tyLength (canonTy t) = tyLength t := by
  cases t <;> try rfl
  case plain c cc t =>
    simp only [canonTy]
    split <;> rfl

theorem selectType_single (tg : String) (r : Except Err Ty)
    (h : tg = "array" ∨ tg = "varargs" ∨ tg = "type") : selectType [(tg, r)] = r := by
  rcases h with rfl | rfl | rfl <;> simp [selectType, List.find?]

theorem tyTag_typeChild (t : Ty) : typeChildTags.contains (tyTag t) = true := by
  cases t <;> simp [tyTag, typeChildTags]

theorem tyTag_cases (t : Ty) : tyTag t = "array" ∨ tyTag t = "varargs" ∨ tyTag t = "type" := by
  cases t <;> simp [tyTag]



theorem sOne_ne_sZero : sOne ≠ sZero := by decide
theorem sList_ne_sSList : sList ≠ sSList := by decide
theorem sHash_ne_sList : sHash ≠ sList := by decide
theorem sHash_ne_sSList : sHash ≠ sSList := by decide

theorem inTypeNames_nil : inTypeNames [] = false := by decide
theorem inTypeNames_sList : inTypeNames sList = false := by decide
theorem inTypeNames_sSList : inTypeNames sSList = false := by decide
theorem inTypeNames_sHash : inTypeNames sHash = false := by decide

theorem parseTypeSimple_elem (ns : Str) (tag : String) (attrs : Attrs) (kids : List Xml) (tx : Option Str) :
    parseTypeSimple ns (.elem tag attrs kids tx) = parseTypeNode ns tag attrs (parseKids ns kids) := by
  rw [parseTypeSimple]

theorem parseKids_nil (ns : Str) : parseKids ns [] = [] := by rw [parseKids]
theorem parseKids_cons (ns : Str) (x : Xml) (xs : List Xml) :
    parseKids ns (x :: xs) = (x.tag, parseTypeSimple ns x) :: parseKids ns xs := by rw [parseKids]

theorem typeFromName_not_in (ns n : Str) (c : Option Str) (h : inTypeNames n = false) :
    typeFromName ns n c = .plain c none (.giname (qualify ns n)) := by
  unfold typeFromName qualify
  simp only [h, Bool.false_eq_true, if_false]
  split <;> rfl

theorem parse_write_type (ns : Str) : ∀ (t : Ty) (parent : Option (List (Option Str))) (x : Xml),
    wfTy ns t = true → writeType ns parent t = .ok x → parseTypeSimple ns x = .ok (dropLen (canonTy t)) := by
  intro t
  induction t with
  | unknown =>
    intro parent x _ h
    simp only [writeType] at h; cases h
    simp [parseTypeSimple_elem, parseTypeNode, attrGet, canonTy, dropLen]
  | varargs =>
    intro parent x _ h
    simp only [writeType] at h; cases h
    simp [parseTypeSimple_elem, parseTypeNode, canonTy, dropLen]
  | plain c cc target =>
    intro parent x hwf h
    simp only [writeType] at h; cases h
    cases target with
    | none =>
      simp only [parseTypeSimple_elem, parseTypeNode, String.reduceEq, ↓reduceIte, attrGet_compact, plainFirst, lookupSome, Option.or_none]
      simp only [canonTy]
      cases he : effCtype c cc <;> simp [dropLen]
    | giname g =>
      simp only [wfTy, Bool.and_eq_true, Bool.not_eq_true', bne_iff_ne, ne_eq, beq_iff_eq] at hwf
      obtain ⟨⟨⟨⟨⟨hg, hin⟩, h1⟩, h2⟩, h3⟩, hq⟩ := hwf
      simp only [parseTypeSimple_elem, parseTypeNode, String.reduceEq, ↓reduceIte, attrGet_compact, plainFirst, hg, lookupSome, Option.or_none]
      simp [h1, h2, h3, typeFromName_not_in _ _ _ hin, hq, canonTy, dropLen]
    | fundamental f =>
      simp only [wfTy] at hwf
      have hne : truthy (some f) = true := by
        cases f with
        | nil => rw [inTypeNames_nil] at hwf; cases hwf
        | cons a as => rfl
      have h1 : f ≠ sList := by rintro rfl; rw [inTypeNames_sList] at hwf; cases hwf
      have h2 : f ≠ sSList := by rintro rfl; rw [inTypeNames_sSList] at hwf; cases hwf
      have h3 : f ≠ sHash := by rintro rfl; rw [inTypeNames_sHash] at hwf; cases hwf
      simp only [parseTypeSimple_elem, parseTypeNode, String.reduceEq, ↓reduceIte, attrGet_compact, plainFirst, keepTruthy_of_truthy hne, lookupSome, Option.or_none]
      simp [h1, h2, h3, typeFromName, hwf, canonTy, dropLen]
    | foreign f => simp [wfTy] at hwf
  | array c cc a z s l e ih =>
    intro parent x hwf h
    simp only [wfTy, Bool.and_eq_true, Bool.or_eq_true] at hwf
    obtain ⟨ha, hwe⟩ := hwf
    simp only [writeType] at h
    split at h
    · cases h
    · rename_i len hlen
      split at h
      · cases h
      · rename_i ex hex
        cases h
        have hie := ih none ex hwe hex
        rw [dropLen_of_length_none _ (by rw [tyLength_canonTy]; exact writeType_none_length ns e ex hex)] at hie
        have htag := writeType_tag ns none e ex hex
        have hsel : selectType (parseKids ns [ex]) = .ok (canonTy e) := by
          simp only [parseKids_cons, parseKids_nil]
          rw [selectType_single _ _ (htag ▸ tyTag_cases e), hie]
        simp only [parseTypeSimple_elem, parseTypeNode, String.reduceEq, ↓reduceIte, hsel, attrGet_compact, lookupSome, Option.or_none]
        have hat : (if a = none ∨ a = some "<c>".toList then (Except.ok none : Except Err (Option Str))
            else if validArrayTypes.contains (a.getD []) = true then .ok a else .error .assertion) = .ok a := by
          cases a with
          | none => simp
          | some v =>
            simp only [Option.isNone_some, Bool.false_eq_true, false_or, Option.getD_some] at ha
            have : v ≠ "<c>".toList := by
              rintro rfl
              revert ha; decide
            have hn : ¬ (some v = none ∨ some v = some "<c>".toList) := by
              rintro (h | h)
              · cases h
              · exact this (Option.some.inj h)
            rw [if_neg hn]
            exact if_pos ha
        have hzt : (!(ztAttr z s l == some sZero)) = z := by
          cases z <;> simp [ztAttr, sOne_ne_sZero]
        have hsz : (if truthy (Option.map showInt s) = true then
            Except.map some (parseInt ((Option.map showInt s).getD [])) else (.ok none : Except Err (Option Int))) = .ok s := by
          cases s with
          | none => simp [truthy]
          | some i => simp [truthy_showInt, parseInt_showInt, Except.map]
        simp only [hat, hzt, hsz, canonTy, dropLen]
  | list c cc n e ih =>
    intro parent x hwf h
    simp only [wfTy, Bool.and_eq_true, Bool.or_eq_true, beq_iff_eq, bne_iff_ne, ne_eq] at hwf
    obtain ⟨⟨hn, hv⟩, hwe⟩ := hwf
    simp only [writeType] at h
    split at h
    · cases h
    · rename_i ex hex
      cases h
      have hie := ih none ex hwe hex
      rw [dropLen_of_length_none _ (by rw [tyLength_canonTy]; exact writeType_none_length ns e ex hex)] at hie
      have htag := writeType_tag ns none e ex hex
      have hsel : selectType (parseKids ns [ex]) = .ok (canonTy e) := by
        simp only [parseKids_cons, parseKids_nil]
        rw [selectType_single _ _ (htag ▸ tyTag_cases e), hie]
      have hany : ([ex].any fun k => listChildTags.contains k.tag) = true := by
        simp only [List.any_cons, List.any_nil, Bool.or_false, htag]
        cases e <;> first | (exfalso; exact hv rfl) | (simp only [tyTag]; decide)
      have hnt : truthy n = true := by rcases hn with rfl | rfl <;> rfl
      simp only [parseKids_cons, parseKids_nil] at hsel
      have hany' : ([(ex.tag, parseTypeSimple ns ex)].any fun k => listChildTags.contains k.1) = true := by
        simpa using hany
      simp only [parseTypeSimple_elem, parseTypeNode, String.reduceEq, ↓reduceIte, attrGet_compact, lookupSome,
        Option.or_none, keepTruthy_of_truthy hnt, parseKids_cons, parseKids_nil, hsel, hany']
      rcases hn with rfl | rfl
      · simp only [true_or, ↓reduceIte, canonTy, dropLen]
      · simp only [or_true, ↓reduceIte, canonTy, dropLen]
  | map c cc k v ihk ihv =>
    intro parent x hwf h
    simp only [wfTy, Bool.and_eq_true] at hwf
    obtain ⟨hwk, hwv⟩ := hwf
    simp only [writeType] at h
    split at h
    · cases h
    · rename_i kx hkx
      split at h
      · cases h
      · rename_i vx hvx
        cases h
        have hik := ihk none kx hwk hkx
        rw [dropLen_of_length_none _ (by rw [tyLength_canonTy]; exact writeType_none_length ns k kx hkx)] at hik
        have hiv := ihv none vx hwv hvx
        rw [dropLen_of_length_none _ (by rw [tyLength_canonTy]; exact writeType_none_length ns v vx hvx)] at hiv
        have hkt : typeChildTags.contains kx.tag = true := by
          rw [writeType_tag ns none k kx hkx]; exact tyTag_typeChild k
        have hvt : typeChildTags.contains vx.tag = true := by
          rw [writeType_tag ns none v vx hvx]; exact tyTag_typeChild v
        simp only [parseTypeSimple_elem, parseTypeNode, String.reduceEq, ↓reduceIte, attrGet_compact, lookupSome,
          Option.or_none, parseKids_cons, parseKids_nil, List.filter_cons, List.filter_nil, hkt, hvt, hik, hiv]
        simp [sHash_ne_sList, sHash_ne_sSList, seqExcept, canonTy, dropLen]


/-! ### children lists -/

theorem findTag_skip (t : String) (l r : List Xml) (h : ∀ x ∈ l, x.tag ≠ t) :
    findTag t (l ++ r) = findTag t r := by
  induction l with
  | nil => rfl
  | cons a as ih =>
    simp only [List.cons_append, findTag]
    rw [if_neg (h a (by simp)), ih (fun x hx => h x (by simp [hx]))]

theorem findTag_none (t : String) (l : List Xml) (h : ∀ x ∈ l, x.tag ≠ t) : findTag t l = none := by
  have := findTag_skip t l [] h
  simpa [findTag] using this

theorem findAllTag_skip (t : String) (l r : List Xml) (h : ∀ x ∈ l, x.tag ≠ t) :
    findAllTag t (l ++ r) = findAllTag t r := by
  unfold findAllTag
  rw [List.filter_append]
  have : l.filter (fun x => decide (x.tag = t)) = [] := by
    rw [List.filter_eq_nil_iff]
    intro x hx
    simpa using h x hx
  rw [this, List.nil_append]

theorem findAllTag_nil_of (t : String) (l : List Xml) (h : ∀ x ∈ l, x.tag ≠ t) : findAllTag t l = [] := by
  have := findAllTag_skip t l [] h
  simpa [findAllTag] using this

theorem findAllTag_all (t : String) (l r : List Xml) (h : ∀ x ∈ l, x.tag = t) :
    findAllTag t (l ++ r) = l ++ findAllTag t r := by
  unfold findAllTag
  rw [List.filter_append]
  congr 1
  rw [List.filter_eq_self]
  intro x hx
  simpa using h x hx

theorem parseKids_append (ns : Str) (l r : List Xml) :
    parseKids ns (l ++ r) = parseKids ns l ++ parseKids ns r := by
  induction l with
  | nil => simp [parseKids_nil]
  | cons a as ih => simp [parseKids_cons, ih]

theorem parseKids_fst (ns : Str) (l : List Xml) : ∀ p ∈ parseKids ns l, ∃ x ∈ l, p.1 = x.tag := by
  induction l with
  | nil => simp [parseKids_nil]
  | cons a as ih =>
    intro p hp
    simp only [parseKids_cons, List.mem_cons] at hp
    rcases hp with rfl | hp
    · exact ⟨a, by simp, rfl⟩
    · obtain ⟨x, hx, h⟩ := ih p hp
      exact ⟨x, by simp [hx], h⟩

def NoTypeTags (l : List Xml) : Prop :=
  ∀ x ∈ l, x.tag ≠ "callback" ∧ x.tag ≠ "array" ∧ x.tag ≠ "varargs" ∧ x.tag ≠ "type"

theorem find?_append_skip {α : Type} (p : α → Bool) (l r : List α) (h : ∀ x ∈ l, p x = false) :
    (l ++ r).find? p = r.find? p := by
  induction l with
  | nil => rfl
  | cons a as ih =>
    simp only [List.cons_append, List.find?_cons, h a (by simp)]
    exact ih (fun x hx => h x (by simp [hx]))

theorem selectType_skip (ns : Str) (l r : List Xml) (h : NoTypeTags l) :
    selectType (parseKids ns (l ++ r)) = selectType (parseKids ns r) := by
  rw [parseKids_append]
  have hk : ∀ (tg : String), (tg = "callback" ∨ tg = "array" ∨ tg = "varargs" ∨ tg = "type") →
      (parseKids ns l ++ parseKids ns r).find? (fun p => decide (p.1 = tg)) =
      (parseKids ns r).find? (fun p => decide (p.1 = tg)) := by
    intro tg htg
    apply find?_append_skip
    intro p hp
    obtain ⟨x, hx, hpx⟩ := parseKids_fst ns l p hp
    obtain ⟨h1, h2, h3, h4⟩ := h x hx
    rw [hpx]
    rcases htg with rfl | rfl | rfl | rfl <;> simp [*]
  unfold selectType
  rw [hk "callback" (by simp), hk "array" (by simp), hk "varargs" (by simp), hk "type" (by simp)]

theorem parseType_single (ns : Str) (l : List Xml) (x : Xml) (h : NoTypeTags l)
    (hx : x.tag = "array" ∨ x.tag = "varargs" ∨ x.tag = "type") :
    parseType ns (l ++ [x]) = parseTypeSimple ns x := by
  unfold parseType
  rw [selectType_skip ns l [x] h, parseKids_cons, parseKids_nil, selectType_single _ _ hx]

/-- parameters, return values: the type child, then the array-length pass -/
theorem parse_top_type (ns : Str) (names : List (Option Str)) (t : Ty) (x : Xml) (dk : List Xml)
    (hwf : wfTy ns t = true) (hw : writeType ns (some names) t = .ok x) (hdk : NoTypeTags dk)
    (hna : ∀ k ∈ dk, k.tag ≠ "array") :
    parseType ns (dk ++ [x]) = .ok (dropLen (canonTy t)) ∧
    parseTypeArrayLength names (dk ++ [x]) (dropLen (canonTy t)) = .ok (canonTy t) := by
  have htag := writeType_tag ns _ t x hw
  refine ⟨?_, ?_⟩
  · rw [parseType_single ns dk x hdk (htag ▸ tyTag_cases t)]
    exact parse_write_type ns t _ x hwf hw
  · unfold parseTypeArrayLength
    rw [findTag_skip "array" dk [x] hna]
    cases t with
    | array c cc a z s l e =>
      simp only [writeType] at hw
      split at hw
      · cases hw
      · rename_i len hlen
        split at hw
        · cases hw
        · cases hw
          simp only [findTag, Xml.tag, ↓reduceIte, Xml.attrs, attrGet_compact, lookupSome, String.reduceEq, Option.or_none]
          cases l with
          | none =>
            simp only [lengthAttr] at hlen
            cases hlen
            simp [canonTy, dropLen]
          | some n =>
            simp only [lengthAttr] at hlen
            split at hlen
            · rename_i i hi
              cases hlen
              simp only [Option.some_or, resolveIndex_showNat names n i hi, canonTy, dropLen]
            · cases hlen
    | unknown => simp only [writeType] at hw; cases hw; simp [findTag, Xml.tag, canonTy, dropLen]
    | varargs => simp only [writeType] at hw; cases hw; simp [findTag, Xml.tag, canonTy, dropLen]
    | plain c cc tg =>
      have : findTag "array" [x] = none := by simp [findTag, htag, tyTag]
      rw [this]
      rw [dropLen_of_length_none]
      rw [tyLength_canonTy]; rfl
    | list c cc n e =>
      have : findTag "array" [x] = none := by simp [findTag, htag, tyTag]
      rw [this]; rfl
    | map c cc k v =>
      have : findTag "array" [x] = none := by simp [findTag, htag, tyTag]
      rw [this]; rfl


/-! ### `_write_generic` / `_parse_generic_attribs` -/


def docTagList : List String :=
  ["attribute", "doc", "doc-version", "doc-deprecated", "doc-stability", "source-position"]

def DocKids (l : List Xml) : Prop := ∀ x ∈ l, x.tag ∈ docTagList

theorem mem_attrKids (l : List (Option Str × Option Str)) : ∀ x ∈ l.map writeAttribute, x.tag = "attribute" := by
  intro x hx
  obtain ⟨a, _, rfl⟩ := List.mem_map.mp hx
  rfl

theorem mem_docKid (d : Docs) (dk : List Xml) (h : docKid d = .ok dk) : ∀ x ∈ dk, x.tag = "doc" := by
  unfold docKid at h
  split at h
  · split at h
    · cases h
    · cases h; intro x hx; simp only [List.mem_singleton] at hx; subst hx; rfl
  · cases h; intro x hx; cases hx

theorem mem_docTextKid (tag : String) (o : Option Str) : ∀ x ∈ docTextKid tag o, x.tag = tag := by
  intro x hx
  unfold docTextKid at hx
  split at hx
  · simp only [List.mem_singleton] at hx; subst hx; rfl
  · cases hx

theorem mem_posKid (d : Docs) : ∀ x ∈ posKid d, x.tag = "source-position" := by
  intro x hx
  unfold posKid at hx
  split at hx
  · cases hx
  · simp only [List.mem_singleton] at hx; subst hx; rfl

theorem writeDocs_docKids (d : Docs) (ks : List Xml) (h : writeDocs d = .ok ks) : DocKids ks := by
  unfold writeDocs at h
  split at h
  · cases h
  · rename_i dk hdk
    cases h
    intro x hx
    simp only [List.mem_append] at hx
    rcases hx with hx | hx | hx | hx | hx | hx
    · rw [mem_attrKids _ x hx]; decide
    · rw [mem_docKid d dk hdk x hx]; decide
    · rw [mem_docTextKid _ _ x hx]; decide
    · rw [mem_docTextKid _ _ x hx]; decide
    · rw [mem_docTextKid _ _ x hx]; decide
    · rw [mem_posKid d x hx]; decide

theorem DocKids.ne {l : List Xml} (h : DocKids l) (t : String) (ht : t ∉ docTagList) : ∀ x ∈ l, x.tag ≠ t := by
  intro x hx heq
  exact ht (heq ▸ h x hx)

theorem DocKids.noTypeTags {l : List Xml} (h : DocKids l) : NoTypeTags l := by
  intro x hx
  exact ⟨h.ne _ (by decide) x hx, h.ne _ (by decide) x hx, h.ne _ (by decide) x hx, h.ne _ (by decide) x hx⟩

/-- children that `_parse_generic_attribs` does not look at -/
def NoDocTags (l : List Xml) : Prop := ∀ x ∈ l, x.tag ∉ docTagList

theorem NoDocTags.ne {l : List Xml} (h : NoDocTags l) (t : String) (ht : t ∈ docTagList) : ∀ x ∈ l, x.tag ≠ t := by
  intro x hx heq
  exact h x hx (heq ▸ ht)

/-! attributes: an OrderedDict rebuilt from its own items -/

theorem dictSet_fresh (k v : Option Str) (acc : List (Option Str × Option Str))
    (h : acc.any (fun p => p.1 == k) = false) : dictSet k v acc = acc ++ [(k, v)] := by
  induction acc with
  | nil => rfl
  | cons a as ih =>
    simp only [List.any_cons, Bool.or_eq_false_iff, beq_eq_false_iff_ne, ne_eq] at h
    obtain ⟨ha, has⟩ := h
    simp only [dictSet, if_neg ha, List.cons_append, ih has]

theorem attr_roundtrip (kv : Option Str × Option Str) :
    attrGet "name" (writeAttribute kv).attrs = kv.1 ∧ attrGet "value" (writeAttribute kv).attrs = kv.2 := by
  obtain ⟨k, v⟩ := kv
  simp only [writeAttribute, Xml.attrs, attrGet_compact, lookupSome, String.reduceEq, ↓reduceIte, Option.or_none,
    and_self]

theorem foldl_dictSet (l acc : List (Option Str × Option Str))
    (h1 : nodupKeys l = true) (h2 : ∀ p ∈ l, acc.any (fun q => q.1 == p.1) = false) :
    (l.map writeAttribute).foldl (fun acc a => dictSet (attrGet "name" a.attrs) (attrGet "value" a.attrs) acc) acc
      = acc ++ l := by
  induction l generalizing acc with
  | nil => simp
  | cons p ps ih =>
    obtain ⟨k, v⟩ := p
    simp only [nodupKeys, Bool.and_eq_true, Bool.not_eq_true'] at h1
    obtain ⟨hk, hps⟩ := h1
    simp only [List.map_cons, List.foldl_cons, (attr_roundtrip (k, v)).1, (attr_roundtrip (k, v)).2]
    rw [dictSet_fresh k v acc (h2 (k, v) (by simp))]
    rw [ih (acc ++ [(k, v)]) hps]
    · simp
    · intro q hq
      simp only [List.any_append, List.any_cons, List.any_nil, Bool.or_false, Bool.or_eq_false_iff]
      refine ⟨h2 q (by simp [hq]), ?_⟩
      rw [List.any_eq_false] at hk
      have := hk q hq
      simp only [beq_iff_eq] at this
      simp only [beq_eq_false_iff_ne, ne_eq]
      exact fun h => this h.symm

theorem parse_write_docs (isNode : Bool) (d : Docs) (ks rest : List Xml)
    (hw : writeDocs d = .ok ks) (hwf : wfDocs isNode d = true) (hrest : NoDocTags rest) :
    parseDocs isNode (ks ++ rest) = .ok (canonDocs d) := by
  unfold writeDocs at hw
  split at hw
  · cases hw
  rename_i dk hdk
  cases hw
  simp only [wfDocs, Bool.and_eq_true, Bool.or_eq_true] at hwf
  obtain ⟨hnd, hnode⟩ := hwf
  simp only [List.append_assoc]
  have hA := mem_attrKids d.attributes
  have hD := mem_docKid d dk hdk
  have hV := mem_docTextKid "doc-version" d.versionDoc
  have hP := mem_docTextKid "doc-deprecated" d.deprecatedDoc
  have hS := mem_docTextKid "doc-stability" d.stabilityDoc
  have hM := mem_posKid d
  -- generic: skipping a segment whose tags are all `tg` when looking for `t ≠ tg`
  have skip : ∀ (t tg : String) (seg r : List Xml), (∀ x ∈ seg, x.tag = tg) → tg ≠ t →
      findTag t (seg ++ r) = findTag t r :=
    fun t tg seg r hs hne => findTag_skip t seg r (fun x hx => by rw [hs x hx]; exact hne)
  have skipAll : ∀ (t tg : String) (seg r : List Xml), (∀ x ∈ seg, x.tag = tg) → tg ≠ t →
      findAllTag t (seg ++ r) = findAllTag t r :=
    fun t tg seg r hs hne => findAllTag_skip t seg r (fun x hx => by rw [hs x hx]; exact hne)
  -- the <doc> element
  have hdoc : findTag "doc" (d.attributes.map writeAttribute ++ (dk ++ (docTextKid "doc-version" d.versionDoc ++
      (docTextKid "doc-deprecated" d.deprecatedDoc ++ (docTextKid "doc-stability" d.stabilityDoc ++ (posKid d ++ rest))))))
      = dk.head? := by
    rw [skip _ _ _ _ hA (by decide)]
    unfold docKid at hdk
    split at hdk
    · split at hdk
      · cases hdk
      · cases hdk; simp [findTag, Xml.tag]
    · cases hdk
      simp only [List.nil_append, List.head?_nil]
      rw [skip _ _ _ _ hV (by decide), skip _ _ _ _ hP (by decide), skip _ _ _ _ hS (by decide),
        skip _ _ _ _ hM (by decide)]
      exact findTag_none _ _ (hrest.ne _ (by decide))
  have htext : ∀ (tag : String) (o : Option Str) (r : List Xml), (∀ x ∈ r, x.tag ≠ tag) →
      textOf tag (docTextKid tag o ++ r) = keepTruthy o := by
    intro tag o r hr
    unfold textOf docTextKid
    by_cases ht : truthy o = true
    · simp only [ht, ↓reduceIte, List.cons_append, List.nil_append, findTag, Xml.tag, Xml.text]
    · simp only [ht, Bool.false_eq_true, ↓reduceIte, List.nil_append, findTag_none tag r hr]
      rw [keepTruthy_of_not (by simpa using ht)]
  have hver : textOf "doc-version" (d.attributes.map writeAttribute ++ (dk ++ (docTextKid "doc-version" d.versionDoc ++
      (docTextKid "doc-deprecated" d.deprecatedDoc ++ (docTextKid "doc-stability" d.stabilityDoc ++ (posKid d ++ rest))))))
      = keepTruthy d.versionDoc := by
    have : ∀ l, textOf "doc-version" l = (match findTag "doc-version" l with
      | some x => keepTruthy x.text | none => none) := fun l => rfl
    rw [this, skip _ _ _ _ hA (by decide), skip _ _ _ _ hD (by decide), ← this]
    apply htext
    intro x hx
    simp only [List.mem_append] at hx
    rcases hx with hx | hx | hx | hx
    · rw [hP x hx]; decide
    · rw [hS x hx]; decide
    · rw [hM x hx]; decide
    · exact hrest.ne _ (by decide) x hx
  have hdep : textOf "doc-deprecated" (d.attributes.map writeAttribute ++ (dk ++ (docTextKid "doc-version" d.versionDoc ++
      (docTextKid "doc-deprecated" d.deprecatedDoc ++ (docTextKid "doc-stability" d.stabilityDoc ++ (posKid d ++ rest))))))
      = keepTruthy d.deprecatedDoc := by
    have : ∀ l, textOf "doc-deprecated" l = (match findTag "doc-deprecated" l with
      | some x => keepTruthy x.text | none => none) := fun l => rfl
    rw [this, skip _ _ _ _ hA (by decide), skip _ _ _ _ hD (by decide), skip _ _ _ _ hV (by decide), ← this]
    apply htext
    intro x hx
    simp only [List.mem_append] at hx
    rcases hx with hx | hx | hx
    · rw [hS x hx]; decide
    · rw [hM x hx]; decide
    · exact hrest.ne _ (by decide) x hx
  have hsta : textOf "doc-stability" (d.attributes.map writeAttribute ++ (dk ++ (docTextKid "doc-version" d.versionDoc ++
      (docTextKid "doc-deprecated" d.deprecatedDoc ++ (docTextKid "doc-stability" d.stabilityDoc ++ (posKid d ++ rest))))))
      = keepTruthy d.stabilityDoc := by
    have : ∀ l, textOf "doc-stability" l = (match findTag "doc-stability" l with
      | some x => keepTruthy x.text | none => none) := fun l => rfl
    rw [this, skip _ _ _ _ hA (by decide), skip _ _ _ _ hD (by decide), skip _ _ _ _ hV (by decide),
      skip _ _ _ _ hP (by decide), ← this]
    apply htext
    intro x hx
    simp only [List.mem_append] at hx
    rcases hx with hx | hx
    · rw [hM x hx]; decide
    · exact hrest.ne _ (by decide) x hx
  have hattrs : findAllTag "attribute" (d.attributes.map writeAttribute ++ (dk ++ (docTextKid "doc-version" d.versionDoc ++
      (docTextKid "doc-deprecated" d.deprecatedDoc ++ (docTextKid "doc-stability" d.stabilityDoc ++ (posKid d ++ rest))))))
      = d.attributes.map writeAttribute := by
    rw [findAllTag_all _ _ _ hA, skipAll _ _ _ _ hD (by decide), skipAll _ _ _ _ hV (by decide),
      skipAll _ _ _ _ hP (by decide), skipAll _ _ _ _ hS (by decide), skipAll _ _ _ _ hM (by decide),
      findAllTag_nil_of _ _ (hrest.ne _ (by decide)), List.append_nil]
  have hpos : findAllTag "source-position" (d.attributes.map writeAttribute ++ (dk ++ (docTextKid "doc-version" d.versionDoc ++
      (docTextKid "doc-deprecated" d.deprecatedDoc ++ (docTextKid "doc-stability" d.stabilityDoc ++ (posKid d ++ rest))))))
      = posKid d := by
    rw [skipAll _ _ _ _ hA (by decide), skipAll _ _ _ _ hD (by decide), skipAll _ _ _ _ hV (by decide),
      skipAll _ _ _ _ hP (by decide), skipAll _ _ _ _ hS (by decide), findAllTag_all _ _ _ hM,
      findAllTag_nil_of _ _ (hrest.ne _ (by decide)), List.append_nil]
  have hseq : (if isNode = true then seqPos (posKid d) else .ok []) =
      .ok (match (canonDocs d).mainPos with | some p => [p] | none => []) := by
    cases hmp : d.mainPos with
    | none => simp [posKid, hmp, seqPos, canonDocs]
    | some p =>
      have hn : isNode = true := by
        rcases hnode with h | h
        · exact h
        · rw [hmp] at h; cases h
      obtain ⟨f, li, col⟩ := p
      simp only [hn, ↓reduceIte, posKid, hmp, seqPos, parseSrcPos, Xml.attrs, attrGet_compact, lookupSome,
        String.reduceEq, Option.or_none, parseInt_showInt, canonDocs, Option.map_some]
      cases col with
      | none => simp [posColumn]
      | some c =>
        by_cases hc : c = 0
        · subst hc; simp [posColumn]
        · simp [posColumn, hc, parseInt_showInt]
  unfold parseDocs
  simp only [hdoc, hver, hdep, hsta, hattrs, hpos, hseq, foldl_dictSet d.attributes [] hnd (by simp), List.nil_append]
  -- what remains: the doc / doc position and the main position
  have hmin : minPos (match (canonDocs d).mainPos with | some p => [p] | none => []) = (canonDocs d).mainPos := by
    cases (canonDocs d).mainPos <;> rfl
  rw [hmin]
  unfold docKid at hdk
  split at hdk
  · rename_i ht
    split at hdk
    · cases hdk
    · rename_i p hp
      cases hdk
      simp only [List.head?_cons, Xml.text, Xml.attrs, ht, ↓reduceIte, attrGet_compact, lookupSome, String.reduceEq,
        Option.or_none, Option.getD_some, canonDocs, hp, Option.map_some, keepTruthy_of_truthy ht]
  · rename_i ht
    cases hdk
    simp only [List.head?_nil, canonDocs, keepTruthy_of_not (by simpa using ht), ht]
    simp


/-! ### parameters -/

theorem bind_eq_ok {α β : Type} (x : Except Err α) (f : α → Except Err β) (y : β) :
    (x >>= f) = .ok y ↔ ∃ a, x = .ok a ∧ f a = .ok y := by
  cases x <;> simp [bind, Except.bind]

theorem optIndex_spec (names : List (Option Str)) (o : Option Str) (r : Option Str) (h : optIndex names o = .ok r) :
    (if truthy r then resolveIndex names (r.getD []) else .ok none) = .ok o := by
  cases o with
  | none => simp only [optIndex] at h; cases h; rfl
  | some n =>
    simp only [optIndex] at h
    split at h
    · rename_i i hi
      cases h
      simp only [truthy_showNat, ↓reduceIte, Option.getD_some, resolveIndex_showNat names n i hi]
    · cases h

theorem typeKid_noDocTags (ns : Str) (parent : Option (List (Option Str))) (t : Ty) (x : Xml)
    (h : writeType ns parent t = .ok x) : NoDocTags [x] := by
  intro y hy
  simp only [List.mem_singleton] at hy
  subst hy
  rw [writeType_tag ns parent t y h]
  cases t <;> simp only [tyTag] <;> decide

theorem sIn_ne_sOut : sIn ≠ sOut := by decide

theorem dir_parse (dir : Option Str) (h : dir ≠ some []) :
    (if truthy (if (dir.isSome && dir != some sIn) = true then dir else none) = true then
      (if (dir.isSome && dir != some sIn) = true then dir else none).getD [] else sIn) = dir.getD sIn := by
  cases dir with
  | none => rfl
  | some d =>
    by_cases hd : d = sIn
    · subst hd; simp [truthy]
    · have : (some d != some sIn) = true := by simpa using hd
      simp only [Option.isSome_some, this, Bool.and_self, ↓reduceIte, Option.getD_some]
      cases d with
      | nil => exact absurd rfl h
      | cons c cs => rfl

theorem dir_isOut (dir : Option Str) : (dir.getD sIn == sOut) = (dir == some sOut) := by
  cases dir with
  | none => decide
  | some d => simp

theorem optIf_or_eq (a b : Bool) : ((optIf a sOne).or (optIf b sOne) == some sOne) = (a || b) := by
  cases a <;> cases b <;> rfl

theorem optIf_eq (a : Bool) : (optIf a sOne == some sOne) = a := by cases a <;> rfl

theorem optIf_ca (a b : Bool) : (optIf a (if b = true then sOne else sZero) == some sOne) = (a && b) := by
  cases a <;> cases b <;> rfl

theorem parseFlag_skip (a : Bool) : parseFlag false (optIf a sOne) = a := by cases a <;> rfl

theorem nullable_fold (nul opt isOut : Bool) :
    (if ((nul && !isOut || opt && isOut) && !isOut) = true then true else nul) = nul := by
  cases nul <;> cases opt <;> cases isOut <;> rfl

theorem optional_fold (nul opt isOut : Bool) :
    (if ((nul && !isOut || opt && isOut) && isOut) = true then true else opt) = opt := by
  cases nul <;> cases opt <;> cases isOut <;> rfl

/-- what `_parse_parameter` alone yields: closure / destroy / array length not yet resolved -/
def canonParam0 (p : Param) : Param :=
  { canonParam p with ty := dropLen (canonTy p.ty), closureName := none, destroyName := none }

theorem parse_write_param (ns : Str) (names : List (Option Str)) (nodename : String) (p : Param) (x : Xml)
    (hw : writeParam ns names nodename p = .ok x) (hwf : wfParam ns p = true) :
    x.tag = nodename ∧ parseParam ns x = .ok (canonParam0 p) ∧
    resolveParam names (x, canonParam0 p) = .ok (canonParam p) := by
  simp only [writeParam, bind_eq_ok, pure, Except.pure, Except.ok.injEq] at hw
  obtain ⟨cl, hcl, de, hde, dk, hdk, t, ht, rfl⟩ := hw
  simp only [wfParam, Bool.and_eq_true, bne_iff_ne, ne_eq] at hwf
  obtain ⟨⟨hty, hdir⟩, hdocs⟩ := hwf
  have hDK := writeDocs_docKids _ _ hdk
  obtain ⟨hpt, hlen⟩ := parse_top_type ns names p.ty t dk hty ht hDK.noTypeTags (hDK.ne _ (by decide))
  have hpd := parse_write_docs false p.docs dk [t] hdk hdocs (typeKid_noDocTags ns _ _ _ ht)
  refine ⟨rfl, ?_, ?_⟩
  · simp only [parseParam, Xml.kids, Xml.attrs, hpt, hpd, attrGet_compact, lookupSome, String.reduceEq, ↓reduceIte,
      Option.or_none]
    rw [dir_parse _ hdir, dir_isOut, optIf_or_eq, optIf_eq, optIf_eq, optIf_ca, parseFlag_skip,
      nullable_fold, optional_fold]
    rfl
  · simp only [resolveParam, Xml.kids, Xml.attrs, canonParam0, hlen, attrGet_compact, lookupSome, String.reduceEq,
      ↓reduceIte, Option.or_none, optIndex_spec names _ _ hcl, optIndex_spec names _ _ hde]
    rfl


/-! ### return values -/

/-- what the return-value part of `_parse_function_common` yields before the array-length pass -/
def canonReturn0 (r : Return) : Return := { canonReturn r with ty := dropLen (canonTy r.ty) }

theorem parse_write_return (ns : Str) (names : List (Option Str)) (r : Return) (x : Xml)
    (hw : writeReturn ns names r = .ok x) (hwf : wfReturn ns r = true) :
    x.tag = "return-value" ∧ x.kids.isEmpty = false ∧ parseReturn ns x = .ok (canonReturn0 r) ∧
    parseTypeArrayLength names x.kids (dropLen (canonTy r.ty)) = .ok (canonTy r.ty) := by
  simp only [writeReturn, bind_eq_ok, pure, Except.pure, Except.ok.injEq] at hw
  obtain ⟨dk, hdk, t, ht, rfl⟩ := hw
  simp only [wfReturn, Bool.and_eq_true] at hwf
  obtain ⟨hty, hdocs⟩ := hwf
  have hDK := writeDocs_docKids _ _ hdk
  obtain ⟨hpt, hlen⟩ := parse_top_type ns names r.ty t dk hty ht hDK.noTypeTags (hDK.ne _ (by decide))
  have hpd := parse_write_docs false r.docs dk [t] hdk hdocs (typeKid_noDocTags ns _ _ _ ht)
  refine ⟨rfl, by simp [Xml.kids], ?_, hlen⟩
  simp only [parseReturn, Xml.kids, Xml.attrs, hpt, hpd, attrGet_compact, lookupSome, String.reduceEq, ↓reduceIte,
    Option.or_none, optIf_eq, parseFlag_skip]
  rfl

/-! ### lists of parameters -/

inductive Forall2 {α β : Type} (R : α → β → Prop) : List α → List β → Prop where
  | nil : Forall2 R [] []
  | cons {a : α} {b : β} {as : List α} {bs : List β} : R a b → Forall2 R as bs → Forall2 R (a :: as) (b :: bs)

theorem mapMExcept_forall2 {α β : Type} (f : α → Except Err β) (l : List α) (xs : List β)
    (h : mapMExcept f l = .ok xs) : Forall2 (fun a x => f a = .ok x) l xs := by
  induction l generalizing xs with
  | nil => simp only [mapMExcept] at h; cases h; exact .nil
  | cons a as ih =>
    simp only [mapMExcept] at h
    split at h
    · cases h
    · rename_i b hb
      split at h
      · cases h
      · rename_i bs hbs
        cases h
        exact .cons hb (ih bs hbs)

theorem mapMExcept_of_forall2 {α β γ : Type} (R : α → β → Prop) (g : β → Except Err γ) (h : α → γ)
    (l : List α) (xs : List β) (hf : Forall2 R l xs) (hg : ∀ a x, a ∈ l → R a x → g x = .ok (h a)) :
    mapMExcept g xs = .ok (l.map h) := by
  induction hf with
  | nil => rfl
  | @cons a x as xs' hr _ ih =>
    simp only [mapMExcept, hg a x (by simp) hr, List.map_cons]
    rw [ih (fun a' x' ha' => hg a' x' (by simp [ha']))]

theorem mapMExcept_zip_of_forall2 {α β γ δ : Type} (R : α → β → Prop) (k : β × γ → Except Err δ) (h1 : α → γ)
    (h2 : α → δ) (l : List α) (xs : List β) (hf : Forall2 R l xs)
    (hk : ∀ a x, a ∈ l → R a x → k (x, h1 a) = .ok (h2 a)) :
    mapMExcept k (xs.zip (l.map h1)) = .ok (l.map h2) := by
  induction hf with
  | nil => rfl
  | @cons a x as xs' hr _ ih =>
    simp only [List.map_cons, List.zip_cons_cons, mapMExcept, hk a x (by simp) hr]
    rw [ih (fun a' x' ha' => hk a' x' (by simp [ha']))]

theorem forall2_right {α β : Type} (R : α → β → Prop) (P : β → Prop) (l : List α) (xs : List β)
    (hf : Forall2 R l xs) (h : ∀ a x, a ∈ l → R a x → P x) : ∀ x ∈ xs, P x := by
  induction hf with
  | nil => intro x hx; cases hx
  | @cons a x as xs' hr _ ih =>
    intro y hy
    simp only [List.mem_cons] at hy
    rcases hy with rfl | hy
    · exact h a y (by simp) hr
    · exact ih (fun a' x' ha' => h a' x' (by simp [ha'])) y hy

theorem paramNames_canon0 (ps : List Param) : paramNames (ps.map canonParam0) = paramNames ps := by
  simp [paramNames, canonParam0, canonParam, Function.comp_def]


/-! ### callables -/

theorem kids_elem (t : String) (a : Attrs) (k : List Xml) (x : Option Str) : (Xml.elem t a k x).kids = k := rfl
theorem attrs_elem (t : String) (a : Attrs) (k : List Xml) (x : Option Str) : (Xml.elem t a k x).attrs = a := rfl
theorem tag_elem (t : String) (a : Attrs) (k : List Xml) (x : Option Str) : (Xml.elem t a k x).tag = t := rfl

theorem parseFlag_intro (a : Bool) : parseFlag true (optIf a sZero) = !a := by cases a <;> rfl

theorem optIf_getD_eq (a : Bool) : ((optIf a sOne).getD sZero == sOne) = a := by cases a <;> rfl

theorem parse_write_callable (ns : Str) (c : Callable) (x : Xml)
    (hw : writeCallable ns c = .ok x) (hwf : wfCallable ns c = true) :
    parseCallable ns c.klass x = .ok (canonCallable c) := by
  simp only [writeCallable, bind_eq_ok, pure, Except.pure, Except.ok.injEq] at hw
  obtain ⟨dk, hdk, ret, hret, inst, hinst, ps, hps, rfl⟩ := hw
  simp only [wfCallable, Bool.and_eq_true] at hwf
  obtain ⟨⟨⟨⟨hwr, hwp⟩, hwd⟩, hkf⟩, hwi⟩ := hwf
  have hDK := writeDocs_docKids _ _ hdk
  obtain ⟨hrt, hrk, hrp, hrl⟩ := parse_write_return ns _ c.retval ret hret hwr
  -- the parameter elements
  have hF := mapMExcept_forall2 _ _ _ hps
  have hall : ∀ p ∈ c.params, wfParam ns p = true := by
    rw [List.all_eq_true] at hwp; exact hwp
  have hpsTag : ∀ y ∈ ps, y.tag = "parameter" :=
    forall2_right _ _ _ _ hF (fun a y ha hr => (parse_write_param ns _ _ a y hr (hall a ha)).1)
  have hps0 : mapMExcept (parseParam ns) ps = .ok (c.params.map canonParam0) :=
    mapMExcept_of_forall2 _ _ _ _ _ hF (fun a y ha hr => (parse_write_param ns _ _ a y hr (hall a ha)).2.1)
  have hps1 : mapMExcept (resolveParam (paramNames c.params)) (ps.zip (c.params.map canonParam0))
      = .ok (c.params.map canonParam) :=
    mapMExcept_zip_of_forall2 _ _ _ _ _ _ hF (fun a y ha hr => (parse_write_param ns _ _ a y hr (hall a ha)).2.2)
  -- the instance parameter
  have hinstSpec : (∀ y ∈ inst, y.tag = "instance-parameter") ∧
      parseInst ns (inst ++ ps) = .ok (c.instanceParam.map canonParam) := by
    unfold parseInst
    cases hip : c.instanceParam with
    | none =>
      simp only [hip, writeInst] at hinst
      cases hinst
      refine ⟨(by intro y hy; cases hy), ?_⟩
      rw [List.nil_append, findTag_none _ _ (fun y hy => by rw [hpsTag y hy]; decide)]
      rfl
    | some p =>
      simp only [hip, writeInst] at hinst hwi
      simp only [Bool.and_eq_true, Option.isNone_iff_eq_none] at hwi
      obtain ⟨⟨⟨hwp', hc⟩, hd⟩, hl⟩ := hwi
      cases hwx : writeParam ns (paramNames c.params) "instance-parameter" p with
      | error e => rw [hwx] at hinst; cases hinst
      | ok ix =>
        rw [hwx] at hinst
        simp only [Except.map, Except.ok.injEq] at hinst
        subst hinst
        obtain ⟨htg, hpp, _⟩ := parse_write_param ns _ _ p ix hwx hwp'
        refine ⟨(by intro y hy; simp only [List.mem_singleton] at hy; subst hy; exact htg), ?_⟩
        have hk : ix.kids.isEmpty = false := by
          simp only [writeParam, bind_eq_ok, pure, Except.pure, Except.ok.injEq] at hwx
          obtain ⟨_, _, _, _, dk', _, t', _, rfl⟩ := hwx
          simp [Xml.kids]
        simp only [List.cons_append, List.nil_append, findTag, htg, ↓reduceIte, hk, Bool.false_eq_true, hpp,
          Except.map, Option.map_some]
        -- closure / destroy / length of the instance parameter are not resolved by the reader: unset by `wf`
        have : canonParam0 p = canonParam p := by
          simp only [canonParam0, canonParam, hc, hd]
          rw [dropLen_of_length_none _ (by rw [tyLength_canonTy]; exact hl)]
        rw [this]
  obtain ⟨hinstTag, hinstParse⟩ := hinstSpec
  -- the children of the callable's element
  have hpk : paramKids (dk ++ [ret] ++
        (if (c.params.isEmpty && c.instanceParam.isNone) = true then [] else [Xml.elem "parameters" [] (inst ++ ps) none]))
      = inst ++ ps := by
    unfold paramKids
    rw [List.append_assoc, findTag_skip _ _ _ (hDK.ne _ (by decide))]
    simp only [List.cons_append, List.nil_append, findTag, hrt, String.reduceEq, ↓reduceIte]
    by_cases hemp : (c.params.isEmpty && c.instanceParam.isNone) = true
    · simp only [hemp, ↓reduceIte, findTag]
      simp only [Bool.and_eq_true, List.isEmpty_iff, Option.isNone_iff_eq_none] at hemp
      obtain ⟨h1, h2⟩ := hemp
      rw [h1] at hps; simp only [mapMExcept] at hps; cases hps
      simp only [h2, writeInst] at hinst; cases hinst
      rfl
    · simp only [hemp, Bool.false_eq_true, ↓reduceIte, findTag, tag_elem, kids_elem]
  have hrn : findTag "return-value" (dk ++ [ret] ++
        (if (c.params.isEmpty && c.instanceParam.isNone) = true then [] else [Xml.elem "parameters" [] (inst ++ ps) none]))
      = some ret := by
    rw [List.append_assoc, findTag_skip _ _ _ (hDK.ne _ (by decide))]
    simp only [List.cons_append, List.nil_append, findTag, hrt, ↓reduceIte]
  have hdocs : parseDocs true (dk ++ [ret] ++
        (if (c.params.isEmpty && c.instanceParam.isNone) = true then [] else [Xml.elem "parameters" [] (inst ++ ps) none]))
      = .ok (canonDocs c.docs) := by
    rw [List.append_assoc]
    apply parse_write_docs true c.docs dk _ hdk hwd
    intro y hy
    simp only [List.cons_append, List.nil_append, List.mem_cons] at hy
    rcases hy with rfl | hy
    · rw [hrt]; decide
    · split at hy
      · cases hy
      · simp only [List.mem_singleton] at hy; subst hy; simp only [Xml.tag]; decide
  have hpn : findAllTag "parameter" (inst ++ ps) = ps := by
    rw [findAllTag_skip _ _ _ (fun y hy => by rw [hinstTag y hy]; decide)]
    have := findAllTag_all "parameter" ps [] hpsTag
    simpa [findAllTag] using this
  simp only [parseCallable, attrs_elem, kids_elem, tag_elem, hrn, hrk, Bool.false_eq_true, ↓reduceIte, hrp, hpk,
    hinstParse, hpn, hps0, paramNames_canon0, hps1, canonReturn0, hrl, hdocs, attrGet_compact]
  -- attributes
  simp only [klassFields, Bool.and_eq_true, Bool.or_eq_true, beq_iff_eq, Option.isNone_iff_eq_none] at hkf
  obtain ⟨⟨⟨hfn, hvf⟩, hcb⟩, hsig⟩ := hkf
  have hb : (!(c.skip || !c.introspectable)) = (c.introspectable && !c.skip) := by
    cases c.skip <;> cases c.introspectable <;> rfl
  have hpf : parseFlag false none = false := rfl
  have hkn : keepTruthy none = none := rfl
  cases hk : c.klass with
  | function =>
    rw [hk] at hvf hcb hsig
    simp only [reduceCtorEq, false_or, Bool.and_eq_true, Bool.not_eq_true', Option.isNone_iff_eq_none] at hvf hcb
    obtain ⟨hcb, hanon⟩ := hcb
    simp only [reduceCtorEq, ↓reduceIte, Bool.and_eq_true, Bool.not_eq_true', Option.isNone_iff_eq_none] at hsig
    obtain ⟨⟨⟨⟨⟨s1, s2⟩, s3⟩, s4⟩, s5⟩, s6⟩ := hsig
    simp only [extraAttrs, callableTail, hk, List.cons_append, List.nil_append, List.append_nil, lookupSome, String.reduceEq,
      ↓reduceIte, Option.or_none, optIf_eq, parseFlag_intro, keepTruthy_idem, canonCallable, canonReturn, hvf, hcb, hb,
      hpf, hkn, ite_self, reduceCtorEq, s1, s2, s3, s4, s5, s6]
  | callback =>
    rw [hk] at hvf hfn hsig
    simp only [reduceCtorEq, false_or] at hvf hfn
    simp only [reduceCtorEq, ↓reduceIte, Bool.and_eq_true, Bool.not_eq_true', Option.isNone_iff_eq_none] at hsig
    obtain ⟨⟨⟨⟨⟨s1, s2⟩, s3⟩, s4⟩, s5⟩, s6⟩ := hsig
    obtain ⟨⟨⟨⟨⟨h1, h2⟩, h3⟩, h4⟩, h5⟩, h6⟩ := hfn
    simp only [extraAttrs, callableTail, hk, List.cons_append, List.nil_append, List.append_nil, lookupSome, String.reduceEq,
      ↓reduceIte, Option.or_none, optIf_eq, parseFlag_intro, keepTruthy_idem, canonCallable, canonReturn, hvf, hb, hpf, hkn,
      h1, h2, h3, h4, h5, h6, ite_self, reduceCtorEq, truthy_none, Bool.false_eq_true, s1, s2, s3, s4, s5, s6]
  | vfunction =>
    rw [hk] at hcb hfn hsig
    simp only [reduceCtorEq, false_or, Bool.and_eq_true, Bool.not_eq_true', Option.isNone_iff_eq_none] at hcb hfn
    obtain ⟨hcb, hanon⟩ := hcb
    simp only [reduceCtorEq, ↓reduceIte, Bool.and_eq_true, Bool.not_eq_true', Option.isNone_iff_eq_none] at hsig
    obtain ⟨⟨⟨⟨⟨s1, s2⟩, s3⟩, s4⟩, s5⟩, s6⟩ := hsig
    obtain ⟨⟨⟨⟨⟨h1, h2⟩, h3⟩, h4⟩, h5⟩, h6⟩ := hfn
    simp only [extraAttrs, callableTail, hk, List.cons_append, List.nil_append, List.append_nil, lookupSome, String.reduceEq,
      ↓reduceIte, Option.or_none, optIf_eq, parseFlag_intro, keepTruthy_idem, canonCallable, canonReturn, hcb, hb, hpf, hkn,
      h1, h2, h3, h4, h5, h6, ite_self, reduceCtorEq, truthy_none, Bool.false_eq_true, s1, s2, s3, s4, s5, s6]
  | signal =>
    rw [hk] at hvf hcb hfn hsig
    simp only [reduceCtorEq, false_or, Bool.and_eq_true, Bool.not_eq_true', Option.isNone_iff_eq_none] at hvf hcb hfn
    obtain ⟨hcb, hanon⟩ := hcb
    simp only [↓reduceIte, Bool.and_eq_true, Bool.not_eq_true', Option.isNone_iff_eq_none] at hsig
    obtain ⟨⟨⟨s1, s2⟩, s3⟩, s4⟩ := hsig
    obtain ⟨⟨⟨⟨⟨h1, h2⟩, h3⟩, h4⟩, h5⟩, h6⟩ := hfn
    simp only [extraAttrs, callableTail, hk, List.cons_append, List.nil_append, List.append_nil, lookupSome, String.reduceEq,
      ↓reduceIte, Option.or_none, optIf_eq, optIf_getD_eq, parseFlag_intro, keepTruthy_idem, canonCallable, canonReturn,
      hvf, hcb, hb, hpf, hkn, h1, h2, h3, h4, h5, h6, ite_self, reduceCtorEq, truthy_none, Bool.false_eq_true,
      s1, s2, s3, s4, Option.getD_none, Option.getD_some]


/-! ### writing the canonical form gives the same tree -/

theorem effCtype_eff (c cc : Option Str) : effCtype (effCtype c cc) none = effCtype c cc := by
  match c, cc with
  | none, none => rfl
  | none, some [] => rfl
  | none, some (_ :: _) => rfl
  | some [], none => rfl
  | some [], some [] => rfl
  | some [], some (_ :: _) => rfl
  | some (_ :: _), none => rfl
  | some (_ :: _), some [] => rfl
  | some (_ :: _), some (_ :: _) => rfl

theorem effCtype_none_none : effCtype none none = none := rfl

theorem write_canonTy (ns : Str) (t : Ty) : ∀ parent, writeType ns parent (canonTy t) = writeType ns parent t := by
  induction t with
  | unknown => intro _; rfl
  | varargs => intro _; rfl
  | plain c cc tg =>
    intro parent
    cases tg with
    | none =>
      simp only [canonTy]
      cases he : effCtype c cc with
      | none => simp [writeType, plainFirst, he, compact]
      | some v => simp only [writeType, ← he, effCtype_eff]
    | giname g => simp only [canonTy, writeType, effCtype_eff]
    | fundamental f => simp only [canonTy, writeType, effCtype_eff]
    | foreign f => simp only [canonTy, writeType, effCtype_eff]
  | array c cc a z s l e ih =>
    intro parent
    simp only [canonTy, writeType, effCtype_eff, ih]
  | list c cc n e ih =>
    intro parent
    simp only [canonTy, writeType, effCtype_eff, ih]
  | map c cc k v ihk ihv =>
    intro parent
    simp only [canonTy, writeType, effCtype_eff, ihk, ihv]

theorem docTextKid_keepTruthy (tag : String) (o : Option Str) : docTextKid tag (keepTruthy o) = docTextKid tag o := by
  unfold docTextKid
  rw [truthy_keepTruthy]
  by_cases h : truthy o = true
  · simp [h, keepTruthy_of_truthy h]
  · simp [h]

theorem write_canonDocs (d : Docs) : writeDocs (canonDocs d) = writeDocs d := by
  have hdk : docKid (canonDocs d) = docKid d := by
    unfold docKid
    simp only [canonDocs, truthy_keepTruthy]
    by_cases h : truthy d.doc = true
    · simp only [h, ↓reduceIte, keepTruthy_of_truthy h]
      cases d.docPos with
      | none => rfl
      | some p => simp only [Option.map_some, Option.getD_some, keepTruthy_idem]
    · simp [h]
  have hpk : posKid (canonDocs d) = posKid d := by
    unfold posKid
    simp only [canonDocs]
    cases d.mainPos with
    | none => rfl
    | some p =>
      simp only [Option.map_some]
      congr 3
      cases hc : p.column with
      | none => simp [posColumn]
      | some c =>
        by_cases h0 : c = 0
        · subst h0; simp [posColumn]
        · simp [posColumn, h0]
  unfold writeDocs
  rw [hdk, hpk]
  simp only [canonDocs, docTextKid_keepTruthy]

theorem dir_nonIn (dir : Option Str) :
    ((some (dir.getD sIn)).isSome && (some (dir.getD sIn) != some sIn)) = (dir.isSome && dir != some sIn) := by
  cases dir with
  | none => decide
  | some d => simp

theorem write_canonParam (ns : Str) (names : List (Option Str)) (nodename : String) (p : Param) :
    writeParam ns names nodename (canonParam p) = writeParam ns names nodename p := by
  obtain ⟨an, ty, dir, tr, nu, nn, op, sc, ca, cl, de, sk, docs⟩ := p
  unfold writeParam
  simp only [canonParam, write_canonTy, write_canonDocs, dir_nonIn, keepTruthy_idem, Bool.not_false, Bool.and_true]
  have h1 : (sIn == sOut) = false := by decide
  cases dir with
  | none => simp [h1, optIf]
  | some d =>
    by_cases hin : d = sIn
    · subst hin; simp [h1, optIf]
    · have : (some d != some sIn) = true := by simpa using hin
      simp [this]

theorem paramNames_canon (ps : List Param) : paramNames (ps.map canonParam) = paramNames ps := by
  simp [paramNames, canonParam, Function.comp_def]

theorem returnTransfer_canon (r : Return) : returnTransfer (canonReturn r) = returnTransfer r := by
  show (if truthy (returnTransfer r) then returnTransfer r else optIf r.skip sTransferNone) = returnTransfer r
  unfold returnTransfer
  rcases r.transfer with _ | ⟨_ | ⟨c, cs⟩⟩ <;> cases r.skip <;> rfl

theorem write_canonReturn (ns : Str) (names : List (Option Str)) (r : Return) :
    writeReturn ns names (canonReturn r) = writeReturn ns names r := by
  unfold writeReturn
  rw [returnTransfer_canon]
  simp only [canonReturn, write_canonTy, write_canonDocs, Bool.not_false, Bool.and_true]

theorem mapMExcept_map {α β γ : Type} (f : β → Except Err γ) (g : α → β) (l : List α) :
    mapMExcept f (l.map g) = mapMExcept (fun a => f (g a)) l := by
  induction l with
  | nil => rfl
  | cons a as ih => simp only [List.map_cons, mapMExcept, ih]

theorem write_canonCallable (ns : Str) (c : Callable) :
    writeCallable ns (canonCallable c) = writeCallable ns c := by
  unfold writeCallable
  have hps : mapMExcept (writeParam ns (paramNames c.params) "parameter") (c.params.map canonParam)
      = mapMExcept (writeParam ns (paramNames c.params) "parameter") c.params := by
    rw [mapMExcept_map]
    simp only [write_canonParam]
  have hext : extraAttrs (canonCallable c) = extraAttrs c := by
    unfold extraAttrs
    cases hk : c.klass <;> simp only [canonCallable, hk, keepTruthy_idem, truthy_keepTruthy]
    · by_cases h : truthy c.shadowedBy = true <;> simp [h, keepTruthy_idem]
    · by_cases h : c.ctype = some c.name <;> cases c.anonymous <;> simp [h]
  have htail : callableTail (canonCallable c) = callableTail c := by
    unfold callableTail
    cases hk : c.klass <;> simp only [canonCallable, hk]
  have hinst : writeInst ns (paramNames c.params) (canonCallable c).instanceParam
      = writeInst ns (paramNames c.params) c.instanceParam := by
    simp only [canonCallable]
    cases c.instanceParam with
    | none => rfl
    | some p => simp only [Option.map_some, writeInst, write_canonParam]
  have hempty : ((canonCallable c).params.isEmpty && (canonCallable c).instanceParam.isNone)
      = (c.params.isEmpty && c.instanceParam.isNone) := by
    simp only [canonCallable]
    cases c.params <;> cases c.instanceParam <;> rfl
  rw [hext, hempty, htail]
  simp only [show (canonCallable c).params = c.params.map canonParam from rfl, paramNames_canon, hps]
  simp only [show (canonCallable c).docs = canonDocs c.docs from rfl, write_canonDocs,
    show (canonCallable c).retval = canonReturn c.retval from rfl, write_canonReturn]
  rw [hinst]
  simp only [canonCallable, keepTruthy_idem, truthy_keepTruthy, canonDocs, Bool.false_or]
  have hb : (!(c.introspectable && !c.skip)) = (c.skip || !c.introspectable) := by
    cases c.skip <;> cases c.introspectable <;> rfl
  rw [hb]


end GIVerif.GirCodec
