import GIVerif.Model.XmlWriter
import GIVerif.Spec.Xml
import Mathlib.Data.List.TakeWhile
import Mathlib.Tactic.SplitIfs

namespace GIVerif.XmlWriter
open GIVerif.Py
open GIVerif.Xml hiding Str

/-! ### saxutils: the sequential `str.replace` chains are per-character maps -/

/-- what `escape` does to one character -/
def escChar (c : Char) : Str :=
  if c = '&' then "&amp;".toList else if c = '>' then "&gt;".toList
  else if c = '<' then "&lt;".toList else [c]

/-- what `escape(data, {'\n':…, '\r':…, '\t':…})` does to one character -/
def entChar (c : Char) : Str :=
  if c = '&' then "&amp;".toList else if c = '>' then "&gt;".toList
  else if c = '<' then "&lt;".toList else if c = '\n' then "&#10;".toList
  else if c = '\r' then "&#13;".toList else if c = '\t' then "&#9;".toList else [c]

/-- … followed by `replace('"', "&quot;")` -/
def entCharQ (c : Char) : Str := if c = '"' then "&quot;".toList else entChar c

theorem flatMap_congr' {α β : Type} {f g : α → List β} :
    ∀ (l : List α), (∀ x ∈ l, f x = g x) → l.flatMap f = l.flatMap g
  | [], _ => rfl
  | a :: l, h => by
    simp only [List.flatMap_cons]
    rw [h a (by simp), flatMap_congr' l (fun x hx => h x (by simp [hx]))]

theorem replaceChar_flatMap (k : Char) (v : Str) (f : Char → Str) (s : Str) :
    replaceChar k v (s.flatMap f) = s.flatMap (fun c => replaceChar k v (f c)) := by
  simp [replaceChar, List.flatMap_assoc]

theorem replaceChar_single (k : Char) (v : Str) (c : Char) :
    replaceChar k v [c] = if c = k then v else [c] := by
  simp [replaceChar]

theorem escape_eq (s : Str) : escape s = s.flatMap escChar := by
  have h : Gen.escapeTable = [('&', "&amp;".toList), ('>', "&gt;".toList), ('<', "&lt;".toList)] := by decide
  unfold escape dictReplace
  rw [h]
  simp only [List.foldl_cons, List.foldl_nil]
  conv => lhs; rw [← List.flatMap_singleton' s]
  rw [replaceChar_flatMap, replaceChar_flatMap, replaceChar_flatMap]
  apply flatMap_congr'
  intro c _
  simp only [replaceChar_single, escChar]
  by_cases h1 : c = '&'
  · subst h1; decide
  · by_cases h2 : c = '>'
    · subst h2; decide
    · by_cases h3 : c = '<'
      · subst h3; decide
      · simp [h1, h2, h3, replaceChar_single]

theorem escapeEnt_eq (s : Str) : escapeEnt s = s.flatMap entChar := by
  have h : Gen.quoteattrEntities = [('\n', "&#10;".toList), ('\r', "&#13;".toList), ('\t', "&#9;".toList)] := by decide
  unfold escapeEnt dictReplace
  rw [h, escape_eq]
  simp only [List.foldl_cons, List.foldl_nil]
  rw [replaceChar_flatMap, replaceChar_flatMap, replaceChar_flatMap]
  apply flatMap_congr'
  intro c _
  simp only [escChar, entChar]
  by_cases h1 : c = '&'
  · subst h1; decide
  · by_cases h2 : c = '>'
    · subst h2; decide
    · by_cases h3 : c = '<'
      · subst h3; decide
      · by_cases h4 : c = '\n'
        · subst h4; decide
        · by_cases h5 : c = '\r'
          · subst h5; decide
          · by_cases h6 : c = '\t'
            · subst h6; decide
            · simp [h1, h2, h3, h4, h5, h6, replaceChar_single]

theorem mem_entChar_dq (c : Char) : '"' ∈ entChar c ↔ c = '"' := by
  unfold entChar
  split_ifs <;> first | (subst_vars; decide) | simp [eq_comm]

theorem mem_entChar_sq (c : Char) : '\'' ∈ entChar c ↔ c = '\'' := by
  unfold entChar
  split_ifs <;> first | (subst_vars; decide) | simp [eq_comm]

theorem contains_ent_dq (s : Str) : (s.flatMap entChar).contains '"' = s.contains '"' := by
  rw [Bool.eq_iff_iff]
  simp [List.mem_flatMap, mem_entChar_dq]

theorem contains_ent_sq (s : Str) : (s.flatMap entChar).contains '\'' = s.contains '\'' := by
  rw [Bool.eq_iff_iff]
  simp [List.mem_flatMap, mem_entChar_sq]

theorem quot_eq (s : Str) : dictReplace Gen.quotReplacement (s.flatMap entChar) = s.flatMap entCharQ := by
  have h : Gen.quotReplacement = [('"', "&quot;".toList)] := by decide
  unfold dictReplace
  rw [h]
  simp only [List.foldl_cons, List.foldl_nil]
  rw [replaceChar_flatMap]
  apply flatMap_congr'
  intro c _
  unfold entCharQ entChar
  split_ifs <;> first | (subst_vars; decide) | simp_all [replaceChar_single]

/-- `quoteattr` in closed form: the quote is chosen from the ORIGINAL string -/
theorem quoteattr_eq (s : Str) : quoteattr s =
    if s.contains '"' then
      (if s.contains '\'' then '"' :: s.flatMap entCharQ ++ ['"'] else '\'' :: s.flatMap entChar ++ ['\''])
    else '"' :: s.flatMap entChar ++ ['"'] := by
  unfold quoteattr
  simp only [escapeEnt_eq, contains_ent_dq, contains_ent_sq, quot_eq]

/-! ### the reader on the writer's references -/

theorem readRef_amp (r : Str) : readRef ('a' :: 'm' :: 'p' :: ';' :: r) = some ('&', r) := rfl
theorem readRef_lt (r : Str) : readRef ('l' :: 't' :: ';' :: r) = some ('<', r) := rfl
theorem readRef_gt (r : Str) : readRef ('g' :: 't' :: ';' :: r) = some ('>', r) := rfl
theorem readRef_quot (r : Str) : readRef ('q' :: 'u' :: 'o' :: 't' :: ';' :: r) = some ('"', r) := rfl
theorem readRef_10 (r : Str) : readRef ('#' :: '1' :: '0' :: ';' :: r) = some ('\n', r) := rfl
theorem readRef_13 (r : Str) : readRef ('#' :: '1' :: '3' :: ';' :: r) = some ('\r', r) := rfl
theorem readRef_9 (r : Str) : readRef ('#' :: '9' :: ';' :: r) = some ('\t', r) := rfl

/-! ### attribute values -/

theorem attr_step_ent (q c : Char) (m : Nat) (r : Str) (hx : isXmlChar c = true) (hq : c ≠ q)
    (hq' : q = '"' ∨ q = '\'') :
    readAttrValF (m + 1) q (entChar c ++ r) = (readAttrValF m q r).map (fun p => (c :: p.1, p.2)) := by
  unfold entChar
  split_ifs with h1 h2 h3 h4 h5 h6
  · subst h1; rcases hq' with rfl | rfl <;> simp [readAttrValF, readRef_amp]
  · subst h2; rcases hq' with rfl | rfl <;> simp [readAttrValF, readRef_gt]
  · subst h3; rcases hq' with rfl | rfl <;> simp [readAttrValF, readRef_lt]
  · subst h4; rcases hq' with rfl | rfl <;> simp [readAttrValF, readRef_10]
  · subst h5; rcases hq' with rfl | rfl <;> simp [readAttrValF, readRef_13]
  · subst h6; rcases hq' with rfl | rfl <;> simp [readAttrValF, readRef_9]
  · simp [readAttrValF, hq, h1, h3, h4, h5, h6, hx]

theorem attr_step_entQ (c : Char) (m : Nat) (r : Str) (hx : isXmlChar c = true) :
    readAttrValF (m + 1) '"' (entCharQ c ++ r) = (readAttrValF m '"' r).map (fun p => (c :: p.1, p.2)) := by
  unfold entCharQ
  split_ifs with h
  · subst h; simp [readAttrValF, readRef_quot]
  · exact attr_step_ent '"' c m r hx h (Or.inl rfl)

/-- reading an encoded value up to the closing quote, for any per-character encoding whose
    one-step behaviour is known -/
theorem readAttrValF_flatMap (enc : Char → Str) (q : Char) (rest : Str) :
    ∀ (s : Str), (∀ c ∈ s, ∀ m r, readAttrValF (m + 1) q (enc c ++ r)
        = (readAttrValF m q r).map (fun p => (c :: p.1, p.2))) →
      ∀ n, s.length < n → readAttrValF n q (s.flatMap enc ++ q :: rest) = some (s, rest)
  | [], _, n, hn => by
    obtain ⟨m, rfl⟩ : ∃ m, n = m + 1 := ⟨n - 1, by simp at hn; omega⟩
    simp [readAttrValF]
  | c :: s, H, n, hn => by
    obtain ⟨m, rfl⟩ : ∃ m, n = m + 1 := ⟨n - 1, by simp at hn; omega⟩
    simp only [List.flatMap_cons, List.append_assoc]
    rw [H c (by simp), readAttrValF_flatMap enc q rest s (fun d hd => H d (by simp [hd])) m
      (by simp at hn; omega)]
    rfl

theorem length_flatMap_ge (enc : Char → Str) (h : ∀ c, 1 ≤ (enc c).length) :
    ∀ s : Str, s.length ≤ (s.flatMap enc).length
  | [] => by simp
  | c :: s => by
    have := length_flatMap_ge enc h s
    have := h c
    simp only [List.flatMap_cons, List.length_append, List.length_cons]
    omega

theorem entChar_len (c : Char) : 1 ≤ (entChar c).length := by
  unfold entChar; split_ifs <;> simp
theorem entCharQ_len (c : Char) : 1 ≤ (entCharQ c).length := by
  unfold entCharQ; split_ifs
  · simp
  · exact entChar_len c
theorem escChar_len (c : Char) : 1 ≤ (escChar c).length := by
  unfold escChar; split_ifs <;> simp

def XmlChars (s : Str) : Prop := ∀ c ∈ s, isXmlChar c = true

theorem readAttrValue_quoted (q : Char) (hq : q = '"' ∨ q = '\'') (body rest : Str) :
    readAttrValue (q :: body ++ [q] ++ rest)
      = readAttrValF ((body ++ q :: rest).length + 1) q (body ++ q :: rest) := by
  rcases hq with rfl | rfl <;> simp [readAttrValue]

/-- C20_attr, the working form -/
theorem readAttrValue_quoteattr (s rest : Str) (hx : XmlChars s) :
    readAttrValue (quoteattr s ++ rest) = some (s, rest) := by
  rw [quoteattr_eq]
  by_cases hd : s.contains '"' = true
  · by_cases hs : s.contains '\'' = true
    · rw [if_pos hd, if_pos hs, readAttrValue_quoted _ (Or.inl rfl)]
      apply readAttrValF_flatMap entCharQ '"' rest s (fun c hc m r => attr_step_entQ c m r (hx c hc))
      have := length_flatMap_ge entCharQ entCharQ_len s
      simp only [List.length_append, List.length_cons]
      omega
    · rw [if_pos hd, if_neg hs, readAttrValue_quoted _ (Or.inr rfl)]
      have hns : ∀ c ∈ s, c ≠ '\'' := by
        intro c hc h; subst h; exact hs (by simpa using hc)
      apply readAttrValF_flatMap entChar '\'' rest s
        (fun c hc m r => attr_step_ent '\'' c m r (hx c hc) (hns c hc) (Or.inr rfl))
      have := length_flatMap_ge entChar entChar_len s
      simp only [List.length_append, List.length_cons]
      omega
  · rw [if_neg hd, readAttrValue_quoted _ (Or.inl rfl)]
    have hns : ∀ c ∈ s, c ≠ '"' := by
      intro c hc h; subst h; exact hd (by simpa using hc)
    apply readAttrValF_flatMap entChar '"' rest s
      (fun c hc m r => attr_step_ent '"' c m r (hx c hc) (hns c hc) (Or.inl rfl))
    have := length_flatMap_ge entChar entChar_len s
    simp only [List.length_append, List.length_cons]
    omega

/-! ### character data -/

theorem readUnit_esc (c : Char) (r : Str) (hx : isXmlChar c = true) (hcr : c ≠ '\r') :
    readUnit (escChar c ++ r) = some (c, r) := by
  unfold escChar
  split_ifs with h1 h2 h3
  · subst h1; simp [readUnit, readRef_amp]
  · subst h2; simp [readUnit, readRef_gt]
  · subst h3; simp [readUnit, readRef_lt]
  · simp [readUnit, h1, h3, hcr, hx]

theorem escChar_head (c : Char) : ∃ d ds, escChar c = d :: ds ∧ d ≠ '<' := by
  unfold escChar
  split_ifs with h1 h2 h3
  · exact ⟨'&', _, rfl, by decide⟩
  · exact ⟨'&', _, rfl, by decide⟩
  · exact ⟨'&', _, rfl, by decide⟩
  · exact ⟨c, [], rfl, h3⟩

theorem readTextF_step (c : Char) (m : Nat) (r : Str) (hx : isXmlChar c = true) (hcr : c ≠ '\r') :
    readTextF (m + 1) (escChar c ++ r) = (readTextF m r).map (fun p => (c :: p.1, p.2)) := by
  have hu := readUnit_esc c r hx hcr
  obtain ⟨d, ds, hd, hne⟩ := escChar_head c
  rw [hd] at hu ⊢
  simp only [List.cons_append] at hu ⊢
  simp only [readTextF, hne, if_false, hu]

def NoCR (s : Str) : Prop := '\r' ∉ s

theorem readTextF_escape (tail : Str) (ht : tail = [] ∨ ∃ r, tail = '<' :: r) :
    ∀ (s : Str), XmlChars s → NoCR s → ∀ n, s.length < n →
      readTextF n (s.flatMap escChar ++ tail) = some (s, tail)
  | [], _, _, n, hn => by
    obtain ⟨m, rfl⟩ : ∃ m, n = m + 1 := ⟨n - 1, by simp at hn; omega⟩
    rcases ht with rfl | ⟨r, rfl⟩ <;> simp [readTextF]
  | c :: s, hx, hcr, n, hn => by
    obtain ⟨m, rfl⟩ : ∃ m, n = m + 1 := ⟨n - 1, by simp at hn; omega⟩
    simp only [List.flatMap_cons, List.append_assoc]
    rw [readTextF_step c m _ (hx c (by simp)) (by intro h; exact hcr (by simp [h])),
      readTextF_escape tail ht s (fun d hd => hx d (by simp [hd])) (by intro h; exact hcr (by simp [h])) m
        (by simp at hn; omega)]
    rfl

theorem readText_escape (s tail : Str) (ht : tail = [] ∨ ∃ r, tail = '<' :: r) (hx : XmlChars s)
    (hcr : NoCR s) : readText (escape s ++ tail) = some (s, tail) := by
  unfold readText
  rw [escape_eq]
  apply readTextF_escape tail ht s hx hcr
  have := length_flatMap_ge escChar escChar_len s
  simp only [List.length_append]
  omega

/-! ### names -/

theorem name_decomp {n : Str} (h : isXmlName n = true) :
    ∃ d ds, n = d :: ds ∧ isNameStart d = true ∧ ∀ c ∈ ds, isNameChar c = true := by
  cases n with
  | nil => simp [isXmlName] at h
  | cons d ds =>
    simp only [isXmlName, Bool.and_eq_true, List.all_eq_true] at h
    exact ⟨d, ds, rfl, h.1, h.2⟩

theorem readName_app (n : Str) (c : Char) (r : Str) (hn : isXmlName n = true)
    (hc : isNameChar c = false) : readName (n ++ c :: r) = some (n, c :: r) := by
  obtain ⟨d, ds, rfl, hd, hds⟩ := name_decomp hn
  simp only [List.cons_append, readName, hd, if_true]
  rw [List.takeWhile_append_of_pos hds, List.dropWhile_append_of_pos hds,
    List.takeWhile_cons_of_neg (by simp [hc]), List.dropWhile_cons_of_neg (by simp [hc])]
  simp

theorem isWs_not_nameStart {c : Char} (h : isNameStart c = true) : isWs c = false := by
  cases hw : isWs c with
  | false => rfl
  | true =>
    simp only [isWs, Bool.or_eq_true, decide_eq_true_eq] at hw
    rcases hw with ((rfl | rfl) | rfl) | rfl <;> exact absurd h (by decide)

theorem skipWs_pre (w : Str) (d : Char) (r : Str) (hw : ∀ c ∈ w, isWs c = true) (hd : isWs d = false) :
    skipWs (w ++ d :: r) = d :: r := by
  unfold skipWs
  rw [List.dropWhile_append_of_pos hw, List.dropWhile_cons_of_neg (by simp [hd])]

theorem skipWs_nonws (d : Char) (r : Str) (hd : isWs d = false) : skipWs (d :: r) = d :: r :=
  skipWs_pre [] d r (by simp) hd

/-! ### attribute lists -/

/-- the attributes that have a value, in order -/
def present (attrs : List Attr) : List (Str × Str) :=
  attrs.filterMap (fun a => a.2.map (fun v => (a.1, v)))

@[simp] theorem present_nil : present [] = [] := rfl
@[simp] theorem present_none (a : Str) (rest : List Attr) : present ((a, none) :: rest) = present rest := by
  simp [present]
@[simp] theorem present_some (a v : Str) (rest : List Attr) :
    present ((a, some v) :: rest) = (a, v) :: present rest := by
  simp [present]

/-- every valued attribute has an XML Name and a value made of XML Chars -/
def AttrsOk (attrs : List Attr) : Prop :=
  ∀ a ∈ attrs, ∀ v, a.2 = some v → isXmlName a.1 = true ∧ XmlChars v

/-- indentation / newline strings: blanks, newlines, tabs only -/
def SoftWs (s : Str) : Prop := ∀ c ∈ s, c = ' ' ∨ c = '\n' ∨ c = '\t'

theorem SoftWs.isWs {s : Str} (h : SoftWs s) : ∀ c ∈ s, isWs c = true := by
  intro c hc
  rcases h c hc with rfl | rfl | rfl <;> decide

/-- the separator written in front of an attribute -/
def sep (L : Int) (ic : Str) (first : Bool) : Str :=
  if L ≠ 0 && !first then '\n' :: rep ic L else []

theorem mem_rep {c : Char} {ic : Str} {L : Int} (h : c ∈ rep ic L) : c ∈ ic := by
  simp only [rep, List.mem_flatten, List.mem_replicate] at h
  obtain ⟨l, ⟨_, rfl⟩, hc⟩ := h
  exact hc

theorem sep_ws (L : Int) (ic : Str) (first : Bool) (hic : SoftWs ic) : ∀ c ∈ sep L ic first, isWs c = true := by
  intro c hc
  unfold sep at hc
  split_ifs at hc
  · simp only [List.mem_cons] at hc
    rcases hc with rfl | hc
    · decide
    · exact hic.isWs c (mem_rep hc)
  · simp at hc

/-- what the loop of `collect_attributes` appends -/
def chunks (L : Int) (ic : Str) : List Attr → Bool → Str
  | [], _ => []
  | (_, none) :: rest, first => chunks L ic rest first
  | (a, some v) :: rest, first =>
    sep L ic first ++ (' ' :: a ++ '=' :: quoteattr v) ++ chunks L ic rest false

theorem collectLoop_eq (L : Int) (ic : Str) :
    ∀ (attrs : List Attr) (first : Bool) (acc : Str),
      collectLoop L ic attrs first acc = acc ++ chunks L ic attrs first
  | [], _, acc => by simp [collectLoop, chunks]
  | (_, none) :: rest, first, acc => by
    simp only [collectLoop, chunks]; exact collectLoop_eq L ic rest first acc
  | (a, some v) :: rest, first, acc => by
    simp only [collectLoop, chunks, sep]
    rw [collectLoop_eq L ic rest false]
    split_ifs <;> simp

theorem collectAttributes_eq (t : Str) (attrs : List Attr) (si : Int) (ic : Str) (ind : Int) :
    ∃ L, collectAttributes t attrs si ic ind = chunks L ic attrs true := by
  unfold collectAttributes
  cases attrs with
  | nil => exact ⟨0, rfl⟩
  | cons a rest =>
    refine ⟨if wraps (calcAttrsLength (a :: rest) ind si) = true then si + (t.length : Int) + 1 else 0, ?_⟩
    simp [collectLoop_eq]

theorem quoteattr_head (v : Str) : ∃ q b, quoteattr v = q :: b ∧ isWs q = false := by
  rw [quoteattr_eq]
  split_ifs
  · exact ⟨'"', _, rfl, by decide⟩
  · exact ⟨'\'', _, rfl, by decide⟩
  · exact ⟨'"', _, rfl, by decide⟩

/-- one attribute: white space, name, `=`, quoted value -/
theorem readAttrsF_chunk (m : Nat) (pre a v tail : Str) (hpre : ∀ c ∈ pre, isWs c = true)
    (ha : isXmlName a = true) (hv : XmlChars v) :
    readAttrsF (m + 1) (pre ++ (' ' :: a ++ '=' :: quoteattr v) ++ tail)
      = (readAttrsF m tail).map (fun p => ((a, v) :: p.1, p.2)) := by
  obtain ⟨d, ds, hads, hd, hds⟩ := name_decomp ha
  have hdw : isWs d = false := isWs_not_nameStart hd
  -- the input is one white-space character followed by more white space and the name
  obtain ⟨c0, w, hc0, hw, hsplit⟩ : ∃ c0 w, isWs c0 = true ∧ (∀ c ∈ w, isWs c = true) ∧
      pre ++ (' ' :: a ++ '=' :: quoteattr v) ++ tail = c0 :: (w ++ d :: (ds ++ '=' :: (quoteattr v ++ tail))) := by
    cases pre with
    | nil => exact ⟨' ', [], by decide, by simp, by simp [hads]⟩
    | cons c pre' =>
      refine ⟨c, pre' ++ [' '], hpre c (by simp), ?_, by simp [hads]⟩
      intro x hx
      simp only [List.mem_append, List.mem_singleton] at hx
      rcases hx with hx | rfl
      · exact hpre x (by simp [hx])
      · decide
  have hname : readName (d :: (ds ++ '=' :: (quoteattr v ++ tail))) = some (a, '=' :: (quoteattr v ++ tail)) := by
    have := readName_app a '=' (quoteattr v ++ tail) ha (by decide)
    rw [hads] at this
    rw [hads]
    simpa using this
  obtain ⟨q, b, hq, hqw⟩ := quoteattr_head v
  have hskipv : skipWs (quoteattr v ++ tail) = quoteattr v ++ tail := by
    rw [hq]; exact skipWs_nonws q _ hqw
  rw [hsplit]
  simp only [readAttrsF, hc0, if_true, skipWs_pre w d _ hw hdw, hd, hname,
    skipWs_nonws '=' _ (by decide), hskipv, readAttrValue_quoteattr v tail hv]

theorem readAttrsF_chunks (L : Int) (ic : Str) (hic : SoftWs ic) (tail : Str)
    (ht : ∃ c r, tail = c :: r ∧ isWs c = false) :
    ∀ (attrs : List Attr) (first : Bool), AttrsOk attrs → ∀ n, (present attrs).length < n →
      readAttrsF n (chunks L ic attrs first ++ tail) = some (present attrs, tail)
  | [], _, _, n, hn => by
    obtain ⟨m, rfl⟩ : ∃ m, n = m + 1 := ⟨n - 1, by simp at hn; omega⟩
    obtain ⟨c, r, rfl, hc⟩ := ht
    simp [chunks, readAttrsF, hc]
  | (a, none) :: rest, first, hok, n, hn => by
    simp only [chunks, present_none] at hn ⊢
    exact readAttrsF_chunks L ic hic tail ht rest first (fun x hx => hok x (by simp [hx])) n hn
  | (a, some v) :: rest, first, hok, n, hn => by
    obtain ⟨m, rfl⟩ : ∃ m, n = m + 1 := ⟨n - 1, by simp at hn; omega⟩
    have h1 := hok (a, some v) (by simp) v rfl
    simp only [chunks, present_some, List.append_assoc]
    have := readAttrsF_chunk m (sep L ic first) a v (chunks L ic rest false ++ tail)
      (sep_ws L ic first hic) h1.1 h1.2
    simp only [List.append_assoc] at this
    rw [this, readAttrsF_chunks L ic hic tail ht rest false (fun x hx => hok x (by simp [hx])) m
      (by simp at hn; omega)]
    rfl

theorem present_length_le (L : Int) (ic : Str) :
    ∀ (attrs : List Attr) (first : Bool), (present attrs).length ≤ (chunks L ic attrs first).length
  | [], _ => by simp
  | (_, none) :: rest, first => by simp only [present_none, chunks]; exact present_length_le L ic rest first
  | (a, some v) :: rest, first => by
    have := present_length_le L ic rest false
    simp only [present_some, chunks, List.length_append, List.length_cons]
    omega

/-! ### tags -/

theorem chunks_head (L : Int) (ic : Str) (tail : Str) (ht : ∃ c r, tail = c :: r ∧ isNameChar c = false) :
    ∀ (attrs : List Attr) (first : Bool),
      ∃ c r, chunks L ic attrs first ++ tail = c :: r ∧ isNameChar c = false
  | [], _ => by simpa [chunks] using ht
  | (_, none) :: rest, first => by simp only [chunks]; exact chunks_head L ic tail ht rest first
  | (a, some v) :: rest, first => by
    simp only [chunks, sep]
    split_ifs
    · simp only [List.cons_append, List.append_assoc]
      exact ⟨_, _, rfl, by decide⟩
    · simp only [List.cons_append, List.append_assoc, List.nil_append]
      exact ⟨_, _, rfl, by decide⟩

/-- the tail of a start tag: `>` or `/>` -/
def tagEnd (e : Bool) (rest : Str) : Str := if e then '/' :: '>' :: rest else '>' :: rest

theorem readStartTag_chunks (n : Str) (L : Int) (ic : Str) (attrs : List Attr) (e : Bool) (rest : Str)
    (hn : isXmlName n = true) (hic : SoftWs ic) (hok : AttrsOk attrs)
    (hdist : namesDistinct (present attrs) = true) :
    readStartTag (n ++ (chunks L ic attrs true ++ tagEnd e rest)) = some (n, present attrs, e, rest) := by
  have ht1 : ∃ c r, tagEnd e rest = c :: r ∧ isNameChar c = false := by
    cases e
    · exact ⟨'>', rest, rfl, by decide⟩
    · exact ⟨'/', '>' :: rest, rfl, by decide⟩
  have ht2 : ∃ c r, tagEnd e rest = c :: r ∧ isWs c = false := by
    cases e
    · exact ⟨'>', rest, rfl, by decide⟩
    · exact ⟨'/', '>' :: rest, rfl, by decide⟩
  obtain ⟨c, r, hcr, hc⟩ := chunks_head L ic (tagEnd e rest) ht1 attrs true
  have hname : readName (n ++ (chunks L ic attrs true ++ tagEnd e rest))
      = some (n, chunks L ic attrs true ++ tagEnd e rest) := by
    rw [hcr]; exact readName_app n c r hn hc
  have hattrs : readAttrsF ((chunks L ic attrs true ++ tagEnd e rest).length + 1)
      (chunks L ic attrs true ++ tagEnd e rest) = some (present attrs, tagEnd e rest) := by
    apply readAttrsF_chunks L ic hic (tagEnd e rest) ht2 attrs true hok
    have := present_length_le L ic attrs true
    simp only [List.length_append]
    omega
  unfold readStartTag
  simp only [hname, hattrs, hdist, if_true]
  cases e <;> simp [tagEnd]

theorem readEndTag_name (n rest : Str) (hn : isXmlName n = true) :
    readEndTag (n ++ '>' :: rest) = some (n, rest) := by
  unfold readEndTag
  rw [readName_app n '>' rest hn (by decide), ]
  simp [skipWs_nonws '>' rest (by decide)]

/-- the valued attributes have distinct names -/
def NamesDistinct (attrs : List Attr) : Prop := namesDistinct (present attrs) = true

/-- C20_tag, the working form: `build_xml_tag` output read as one element -/
theorem readTag_build (n : Str) (attrs : List Attr) (data : Option Str) (si : Int) (ic rest : Str)
    (hn : isXmlName n = true) (hic : SoftWs ic) (hok : AttrsOk attrs) (hdist : NamesDistinct attrs)
    (hdata : ∀ d, data = some d → XmlChars d ∧ NoCR d) :
    readTag (buildXmlTag n attrs data si ic ++ rest) = some (n, present attrs, data, rest) := by
  unfold buildXmlTag
  obtain ⟨L, hL⟩ := collectAttributes_eq n attrs si ic ((('<' :: n).length + (tagSuffix n data).length : Nat) : Int)
  simp only [hL]
  cases data with
  | none =>
    have := readStartTag_chunks n L ic attrs true rest hn hic hok hdist
    simp only [tagEnd, if_true] at this
    simp only [tagSuffix, List.cons_append, List.append_assoc, List.nil_append, readTag, this]
  | some d =>
    obtain ⟨hx, hcr⟩ := hdata d rfl
    have := readStartTag_chunks n L ic attrs false (escape d ++ '<' :: '/' :: (n ++ '>' :: rest)) hn hic hok hdist
    simp only [tagEnd] at this
    have ht := readText_escape d ('<' :: '/' :: (n ++ '>' :: rest)) (Or.inr ⟨_, rfl⟩) hx hcr
    simp only [tagSuffix, List.cons_append, List.append_assoc, List.nil_append, readTag]
    simp only [Bool.false_eq_true, if_false] at this
    rw [this]
    simp only [ht, readEndTag_name n rest hn, if_true]

/-! ### comments -/

/-- no two consecutive `-` -/
def noDashDash : Str → Bool
  | [] => true
  | c :: r => !(c == '-' && r.head? == some '-') && noDashDash r

def NoDashDash (s : Str) : Prop := noDashDash s = true

theorem NoDashDash.cons {c : Char} {r : Str} (h : NoDashDash (c :: r)) :
    ¬(c = '-' ∧ r.head? = some '-') ∧ NoDashDash r := by
  simp only [NoDashDash, noDashDash, Bool.and_eq_true, Bool.not_eq_true', Bool.and_eq_false_iff,
    beq_eq_false_iff_ne, ne_eq] at h
  refine ⟨?_, h.2⟩
  rintro ⟨h1, h2⟩
  rcases h.1 with h3 | h3
  · exact h3 h1
  · exact h3 (by simp [h2])

theorem readComment_body (tail : Str) :
    ∀ (t : Str), NoDashDash t → XmlChars t → NoCR t →
      readComment (t ++ ' ' :: '-' :: '-' :: '>' :: tail) = some (t ++ [' '], tail)
  | [], _, _, _ => by
    simp [readComment, show isXmlChar ' ' = true by decide]
  | c :: t, hd, hx, hcr => by
    have hd := hd.cons
    have ih := readComment_body tail t hd.2 (fun d hd' => hx d (by simp [hd'])) (by intro h; exact hcr (by simp [h]))
    have hc : c ≠ '\r' := by intro h; exact hcr (by simp [h])
    simp only [List.cons_append, readComment]
    by_cases h1 : c = '-'
    · have hh : (t ++ ' ' :: '-' :: '-' :: '>' :: tail).head? ≠ some '-' := by
        cases t with
        | nil => simp
        | cons d t' =>
          have := hd.1
          simp only [List.head?_cons, not_and] at this
          simpa using this h1
      simp only [h1, if_true, hh, if_false, ih]
      simp
    · simp only [h1, hc, if_false, hx c (by simp), if_true, ih]
      simp

/-! ### the document reader on the writer's output, piece by piece -/

def chars (s : Str) : List Item := s.map Item.ch

/-- `x` reads as exactly `items`, whatever follows -/
def Reads (x : Str) (items : List Item) : Prop :=
  items.length ≤ x.length ∧
    ∀ n tail, readItemsF (n + items.length) (x ++ tail) = (readItemsF n tail).map (items ++ ·)

theorem Reads.nil : Reads [] [] := by
  refine ⟨by simp, fun n tail => ?_⟩
  cases h : readItemsF n tail <;> simp [h]

theorem Reads.append {x y : Str} {i j : List Item} (hx : Reads x i) (hy : Reads y j) :
    Reads (x ++ y) (i ++ j) := by
  refine ⟨by have := hx.1; have := hy.1; simp only [List.length_append]; omega, fun n tail => ?_⟩
  have e : n + (i ++ j).length = (n + j.length) + i.length := by simp only [List.length_append]; omega
  rw [e, List.append_assoc, hx.2, hy.2]
  cases h : readItemsF n tail <;> simp

theorem Reads.of_step {x : Str} {it : Item} (hx : 1 ≤ x.length)
    (h : ∀ n tail, readItemsF (n + 1) (x ++ tail) = (readItemsF n tail).map (it :: ·)) :
    Reads x [it] := by
  refine ⟨by simpa using hx, fun n tail => ?_⟩
  rw [show n + [it].length = n + 1 from rfl, h]
  cases h' : readItemsF n tail <;> simp

theorem Reads.esc (c : Char) (hx : isXmlChar c = true) (hcr : c ≠ '\r') : Reads (escChar c) [.ch c] := by
  apply Reads.of_step (escChar_len c)
  intro n tail
  have hu := readUnit_esc c tail hx hcr
  obtain ⟨d, ds, hd, hne⟩ := escChar_head c
  rw [hd] at hu ⊢
  simp only [List.cons_append] at hu ⊢
  simp only [readItemsF, hne, if_false, hu]

theorem Reads.escape : ∀ (s : Str), XmlChars s → NoCR s → Reads (s.flatMap escChar) (chars s)
  | [], _, _ => Reads.nil
  | c :: s, hx, hcr => by
    have h1 := Reads.esc c (hx c (by simp)) (by intro h; exact hcr (by simp [h]))
    have h2 := Reads.escape s (fun d hd => hx d (by simp [hd])) (by intro h; exact hcr (by simp [h]))
    simpa [chars] using Reads.append h1 h2

theorem escChar_soft {c : Char} (h : c = ' ' ∨ c = '\n' ∨ c = '\t') :
    escChar c = [c] ∧ isXmlChar c = true ∧ c ≠ '\r' := by
  rcases h with rfl | rfl | rfl <;> decide

theorem Reads.soft : ∀ (s : Str), SoftWs s → Reads s (chars s)
  | [], _ => Reads.nil
  | c :: s, h => by
    obtain ⟨e, hx, hcr⟩ := escChar_soft (h c (by simp))
    have h1 := Reads.esc c hx hcr
    rw [e] at h1
    have h2 := Reads.soft s (fun d hd => h d (by simp [hd]))
    simpa [chars] using Reads.append h1 h2

theorem SoftWs.rep {ic : Str} (h : SoftWs ic) (n : Int) : SoftWs (rep ic n) :=
  fun c hc => h c (mem_rep hc)

theorem nameStart_ne {d : Char} (h : isNameStart d = true) : d ≠ '!' ∧ d ≠ '/' := by
  constructor <;> (intro e; subst e; exact absurd h (by decide))

theorem Reads.startTag (nm : Str) (L : Int) (ic : Str) (attrs : List Attr) (e : Bool)
    (hn : isXmlName nm = true) (hic : SoftWs ic) (hok : AttrsOk attrs)
    (hdist : namesDistinct (present attrs) = true) :
    Reads ('<' :: nm ++ chunks L ic attrs true ++ tagEnd e [])
      [if e then Item.empty nm (present attrs) else Item.start nm (present attrs)] := by
  apply Reads.of_step (by simp)
  intro n tail
  obtain ⟨d, ds, rfl, hd, hds⟩ := name_decomp hn
  obtain ⟨hd1, hd2⟩ := nameStart_ne hd
  have hst := readStartTag_chunks (d :: ds) L ic attrs e tail hn hic hok hdist
  have happ : '<' :: (d :: ds) ++ chunks L ic attrs true ++ tagEnd e [] ++ tail
      = '<' :: d :: (ds ++ (chunks L ic attrs true ++ tagEnd e tail)) := by
    cases e <;> simp [tagEnd]
  simp only [List.cons_append] at hst
  rw [happ]
  simp only [readItemsF, if_true, hd1, hd2, if_false, hst]

theorem Reads.endTag (nm : Str) (hn : isXmlName nm = true) :
    Reads ('<' :: '/' :: nm ++ ['>']) [.close nm] := by
  apply Reads.of_step (by simp)
  intro n tail
  have := readEndTag_name nm tail hn
  simp only [List.cons_append, List.append_assoc, readItemsF, if_true]
  simp [this]

theorem Reads.comment (t : Str) (hd : NoDashDash t) (hx : XmlChars t) (hcr : NoCR t) :
    Reads ('<' :: '!' :: '-' :: '-' :: ' ' :: t ++ [' ', '-', '-', '>']) [.comment (' ' :: t ++ [' '])] := by
  apply Reads.of_step (by simp)
  intro n tail
  have hb := readComment_body tail t hd hx hcr
  have hc : readComment (' ' :: (t ++ ' ' :: '-' :: '-' :: '>' :: tail)) = some (' ' :: (t ++ [' ']), tail) := by
    simp [readComment, show isXmlChar ' ' = true by decide, hb]
  simp only [List.cons_append, List.append_assoc, List.nil_append, readItemsF, if_true]
  simp [hc]

/-! ### the writer, operation by operation -/

/-- what one `write_line` call appends -/
def lineText (s : State) (line : Str) : Str := rep s.indentChar s.indent ++ line ++ s.newlineChar

/-- the state in which `pop_tag` writes the end tag -/
def popped (s : State) : State := { s with indent := s.indent - Gen.indentUnit }

/-- the text one operation appends to the buffer -/
def emitOp (s : State) : Op → Str
  | .push n a =>
    lineText s ('<' :: n ++ collectAttributes n a s.indent s.indentChar ((n.length + 2 : Nat) : Int) ++ ['>'])
  | .pop =>
    match s.tagStack with
    | [] => []
    | n :: _ => lineText (popped s) ('<' :: '/' :: n ++ ['>'])
  | .tag n a d => lineText s (buildXmlTag n a d s.indent s.indentChar)
  | .comment t => lineText s ('<' :: '!' :: '-' :: '-' :: ' ' :: t ++ [' ', '-', '-', '>'])
  | .line t ind esc =>
    (if ind then rep s.indentChar s.indent else []) ++ (if esc then escape t else t) ++ s.newlineChar
  | .enableWs => []
  | .disableWs => []

theorem step_data (s : State) (op : Op) : (step s op).data = s.data ++ emitOp s op := by
  cases op with
  | push n a => simp [step, openTag, writeLine, emitOp, lineText]
  | pop =>
    cases h : s.tagStack with
    | nil => simp [step, emitOp, h]
    | cons n r => simp [step, closeTag, writeLine, emitOp, lineText, popped, h]
  | tag n a d => simp [step, writeLine, emitOp, lineText]
  | comment t => simp [step, writeLine, emitOp, lineText]
  | line t ind esc => cases ind <;> cases esc <;> simp [step, writeLine, emitOp]
  | enableWs => simp [step, emitOp]
  | disableWs => simp [step, emitOp]

theorem run_cons (s : State) (op : Op) (ops : List Op) : run s (op :: ops) = run (step s op) ops := rfl

/-- what one `write_line` call contributes to the document: indentation, content, newline -/
def lineItems (s : State) (content : List Item) : List Item :=
  chars (rep s.indentChar s.indent) ++ content ++ chars s.newlineChar

/-- what the document must contain for one operation -/
def opItems (s : State) : Op → List Item
  | .push n a => lineItems s [.start n (present a)]
  | .pop =>
    match s.tagStack with
    | [] => []
    | n :: _ => lineItems (popped s) [.close n]
  | .tag n a none => lineItems s [.empty n (present a)]
  | .tag n a (some d) => lineItems s (.start n (present a) :: chars d ++ [.close n])
  | .comment t => lineItems s [.comment (' ' :: t ++ [' '])]
  | .line t ind _ => (if ind then chars (rep s.indentChar s.indent) else []) ++ chars t ++ chars s.newlineChar
  | .enableWs => []
  | .disableWs => []

/-- … and for a sequence of operations -/
def runItems : State → List Op → List Item
  | _, [] => []
  | s, op :: ops => opItems s op ++ runItems (step s op) ops

/-- the hypotheses on one operation (see the header of Props/C20.lean) -/
def OpOk : Op → Prop
  | .push n a => isXmlName n = true ∧ AttrsOk a ∧ NamesDistinct a
  | .pop => True
  | .tag n a d => isXmlName n = true ∧ AttrsOk a ∧ NamesDistinct a ∧ ∀ t, d = some t → XmlChars t ∧ NoCR t
  | .comment t => NoDashDash t ∧ XmlChars t ∧ NoCR t
  | .line t _ esc => esc = true ∧ XmlChars t ∧ NoCR t
  | .enableWs => True
  | .disableWs => True

/-- invariant of the writer: soft white space settings, XML Names on the stack -/
def Inv (s : State) : Prop :=
  SoftWs s.indentChar ∧ SoftWs s.newlineChar ∧ ∀ n ∈ s.tagStack, isXmlName n = true

theorem Inv.init : Inv init := by
  refine ⟨?_, ?_, ?_⟩
  · intro c hc; revert c; decide
  · intro c hc; revert c; decide
  · intro n hn; cases hn

theorem wsOn_soft : SoftWs Gen.wsOn.1 ∧ SoftWs Gen.wsOn.2 := by
  constructor <;> (intro c hc; revert c; decide)
theorem wsOff_soft : SoftWs Gen.wsOff.1 ∧ SoftWs Gen.wsOff.2 := by
  constructor <;> (intro c hc; revert c; decide)

theorem Inv.next {s : State} (h : Inv s) (op : Op) (hok : OpOk op) : Inv (step s op) := by
  obtain ⟨h1, h2, h3⟩ := h
  cases op with
  | push n a =>
    refine ⟨by simpa [step, openTag, writeLine] using h1, by simpa [step, openTag, writeLine] using h2, ?_⟩
    intro m hm
    simp only [step, openTag, writeLine, List.mem_cons] at hm
    rcases hm with rfl | hm
    · exact hok.1
    · exact h3 m hm
  | pop =>
    cases hst : s.tagStack with
    | nil => exact ⟨by simpa [step, hst] using h1, by simpa [step, hst] using h2, by simp [step, hst]⟩
    | cons n r =>
      refine ⟨by simpa [step, hst, closeTag, writeLine] using h1, by simpa [step, hst, closeTag, writeLine] using h2, ?_⟩
      intro m hm
      simp [step, hst, closeTag, writeLine] at hm
      exact h3 m (by rw [hst]; simp [hm])
  | tag n a d => exact ⟨by simpa [step, writeLine] using h1, by simpa [step, writeLine] using h2, by simpa [step, writeLine] using h3⟩
  | comment t => exact ⟨by simpa [step, writeLine] using h1, by simpa [step, writeLine] using h2, by simpa [step, writeLine] using h3⟩
  | line t ind esc =>
    cases ind <;> exact ⟨by simpa [step, writeLine] using h1, by simpa [step, writeLine] using h2, by simpa [step, writeLine] using h3⟩
  | enableWs => exact ⟨wsOn_soft.1, wsOn_soft.2, h3⟩
  | disableWs => exact ⟨wsOff_soft.1, wsOff_soft.2, h3⟩

theorem Reads.line (s : State) (hi : SoftWs s.indentChar) (hn : SoftWs s.newlineChar) {x : Str} {items : List Item}
    (h : Reads x items) : Reads (lineText s x) (lineItems s items) :=
  Reads.append (Reads.append (Reads.soft _ (hi.rep _)) h) (Reads.soft _ hn)

theorem reads_op (s : State) (op : Op) (hinv : Inv s) (hok : OpOk op) : Reads (emitOp s op) (opItems s op) := by
  obtain ⟨h1, h2, h3⟩ := hinv
  cases op with
  | push n a =>
    obtain ⟨hn, ha, hd⟩ := hok
    obtain ⟨L, hL⟩ := collectAttributes_eq n a s.indent s.indentChar ((n.length + 2 : Nat) : Int)
    simp only [emitOp, opItems, hL]
    apply Reads.line s h1 h2
    have := Reads.startTag n L s.indentChar a false hn h1 ha hd
    simpa [tagEnd] using this
  | pop =>
    cases hst : s.tagStack with
    | nil => simpa [emitOp, opItems, hst] using Reads.nil
    | cons n r =>
      simp only [emitOp, opItems, hst]
      exact Reads.line (popped s) h1 h2 (Reads.endTag n (h3 n (by simp [hst])))
  | tag n a d =>
    obtain ⟨hn, ha, hd, hdata⟩ := hok
    obtain ⟨L, hL⟩ := collectAttributes_eq n a s.indent s.indentChar
      ((('<' :: n).length + (tagSuffix n d).length : Nat) : Int)
    cases d with
    | none =>
      simp only [emitOp, opItems, buildXmlTag, hL]
      apply Reads.line s h1 h2
      have := Reads.startTag n L s.indentChar a true hn h1 ha hd
      simpa [tagEnd, tagSuffix] using this
    | some t =>
      obtain ⟨hx, hcr⟩ := hdata t rfl
      simp only [emitOp, opItems, buildXmlTag, hL]
      apply Reads.line s h1 h2
      have r1 := Reads.startTag n L s.indentChar a false hn h1 ha hd
      have r2 := Reads.escape t hx hcr
      have r3 := Reads.endTag n hn
      have := Reads.append (Reads.append r1 r2) r3
      simpa [tagEnd, tagSuffix, escape_eq] using this
  | comment t =>
    obtain ⟨hd, hx, hcr⟩ := hok
    simp only [emitOp, opItems]
    exact Reads.line s h1 h2 (Reads.comment t hd hx hcr)
  | line t ind esc =>
    obtain ⟨he, hx, hcr⟩ := hok
    subst he
    simp only [emitOp, opItems, if_true, escape_eq]
    cases ind
    · simpa using Reads.append (Reads.escape t hx hcr) (Reads.soft _ h2)
    · simpa using Reads.append (Reads.append (Reads.soft _ (h1.rep _)) (Reads.escape t hx hcr)) (Reads.soft _ h2)
  | enableWs => simpa [emitOp, opItems] using Reads.nil
  | disableWs => simpa [emitOp, opItems] using Reads.nil

theorem reads_run : ∀ (ops : List Op) (s : State), Inv s → (∀ op ∈ ops, OpOk op) →
    ∃ x, (run s ops).data = s.data ++ x ∧ Reads x (runItems s ops)
  | [], s, _, _ => ⟨[], by simp [run], Reads.nil⟩
  | op :: ops, s, hinv, hok => by
    obtain ⟨x, hx, hr⟩ := reads_run ops (step s op) (hinv.next op (hok op (by simp)))
      (fun o ho => hok o (by simp [ho]))
    refine ⟨emitOp s op ++ x, ?_, ?_⟩
    · rw [run_cons, hx, step_data]; simp
    · exact Reads.append (reads_op s op hinv (hok op (by simp))) hr

theorem readProlog_gen (x : Str) : readProlog (Gen.prolog ++ x) = some ('\n' :: x) := by
  rfl

theorem Reads.toReadItems {x : Str} {items : List Item} (h : Reads x items) :
    Xml.readItems x = some items := by
  unfold Xml.readItems
  have e : x.length + 1 = (x.length + 1 - items.length) + items.length := by have := h.1; omega
  have := h.2 (x.length + 1 - items.length) []
  rw [List.append_nil] at this
  rw [e, this]
  obtain ⟨m, hm⟩ : ∃ m, x.length + 1 - items.length = m + 1 := ⟨x.length - items.length, by have := h.1; omega⟩
  rw [hm]
  simp [readItemsF]

/-! ### element nesting -/

theorem balance_append : ∀ (xs : List Item) (st : List Str) (ys : List Item),
    balance st (xs ++ ys) = (balance st xs).bind (fun st' => balance st' ys)
  | [], st, ys => by simp [balance]
  | .ch c :: xs, st, ys => by simp only [List.cons_append, balance]; exact balance_append xs st ys
  | .start n a :: xs, st, ys => by simp only [List.cons_append, balance]; exact balance_append xs (n :: st) ys
  | .empty n a :: xs, st, ys => by simp only [List.cons_append, balance]; exact balance_append xs st ys
  | .comment t :: xs, st, ys => by simp only [List.cons_append, balance]; exact balance_append xs st ys
  | .close n :: xs, [], ys => by simp [balance]
  | .close n :: xs, top :: st, ys => by
    simp only [List.cons_append, balance]
    split_ifs
    · exact balance_append xs st ys
    · simp

theorem balance_chars : ∀ (s : Str) (st : List Str), balance st (chars s) = some st
  | [], st => by simp [chars, balance]
  | c :: s, st => by
    have := balance_chars s st
    simp only [chars, List.map_cons, balance] at this ⊢
    exact this

theorem balance_line (s : State) (st : List Str) (content : List Item) :
    balance st (lineItems s content) = balance st content := by
  unfold lineItems
  rw [balance_append, balance_append, balance_chars]
  simp only [Option.bind_some]
  cases h : balance st content with
  | none => simp
  | some st' => simp [balance_chars]

/-- every operation keeps the document properly nested: the end tag `pop_tag` writes names the
    innermost open element -/
theorem balance_op (s : State) (op : Op) :
    balance s.tagStack (opItems s op) = some (step s op).tagStack := by
  cases op with
  | push n a => simp [opItems, balance_line, balance, step, openTag, writeLine]
  | pop =>
    cases h : s.tagStack with
    | nil => simp [opItems, h, balance, step]
    | cons n r => simp [opItems, h, balance_line, balance, step, closeTag, writeLine]
  | tag n a d =>
    cases d with
    | none => simp [opItems, balance_line, balance, step, writeLine]
    | some t =>
      simp only [opItems, balance_line, List.cons_append, balance]
      rw [balance_append, balance_chars]
      simp [balance, step, writeLine]
  | comment t => simp [opItems, balance_line, balance, step, writeLine]
  | line t ind esc =>
    cases ind <;> simp [opItems, balance_append, balance_chars, step, writeLine]
  | enableWs => simp [opItems, balance, step]
  | disableWs => simp [opItems, balance, step]

theorem balance_run : ∀ (ops : List Op) (s : State),
    balance s.tagStack (runItems s ops) = some (run s ops).tagStack
  | [], s => by simp [runItems, balance, run]
  | op :: ops, s => by
    simp only [runItems, run_cons]
    rw [balance_append, balance_op]
    exact balance_run ops (step s op)

/-! ### writing code with `tagcontext` blocks and exceptions -/

mutual
/-- elements are opened with `tagcontext` only (no bare `push_tag` / `pop_tag`) -/
def structuredProg : Prog → Bool
  | .prim (.push _ _) => false
  | .prim .pop => false
  | .prim _ => true
  | .raise => true
  | .ctx _ _ body => structuredList body
def structuredList : List Prog → Bool
  | [] => true
  | p :: ps => structuredProg p && structuredList ps
end

mutual
/-- the calls a piece of structured writing code makes, and whether it ends by raising -/
def opsProg : Prog → List Op × Bool
  | .prim op => ([op], false)
  | .raise => ([], true)
  | .ctx n a body => (.push n a :: (opsList body).1 ++ [.pop], (opsList body).2)
def opsList : List Prog → List Op × Bool
  | [] => ([], false)
  | p :: ps => if (opsProg p).2 then opsProg p else ((opsProg p).1 ++ (opsList ps).1, (opsList ps).2)
end

mutual
def ProgOk : Prog → Prop
  | .prim op => OpOk op
  | .raise => True
  | .ctx n a body => OpOk (.push n a) ∧ ProgsOk body
def ProgsOk : List Prog → Prop
  | [] => True
  | p :: ps => ProgOk p ∧ ProgsOk ps
end

theorem run_append (s : State) (a b : List Op) : run s (a ++ b) = run (run s a) b := by
  simp [run, List.foldl_append]

/-- stack, indent and error count after a call that is neither `push_tag` nor `pop_tag` -/
theorem step_frame (s : State) (op : Op) (h : structuredProg (.prim op) = true) :
    (step s op).tagStack = s.tagStack ∧ (step s op).indent = s.indent ∧ (step s op).errors = s.errors := by
  cases op with
  | push n a => simp [structuredProg] at h
  | pop => simp [structuredProg] at h
  | tag n a d => simp [step, writeLine]
  | comment t => simp [step, writeLine]
  | line t ind esc => cases ind <;> simp [step, writeLine]
  | enableWs => simp [step]
  | disableWs => simp [step]

theorem push_pop_frame (s s' : State) (n : Str) (a : List Attr)
    (h1 : s'.tagStack = (step s (.push n a)).tagStack) (h2 : s'.indent = (step s (.push n a)).indent)
    (h3 : s'.errors = (step s (.push n a)).errors) :
    (step s' .pop).tagStack = s.tagStack ∧ (step s' .pop).indent = s.indent ∧ (step s' .pop).errors = s.errors := by
  have e1 : s'.tagStack = n :: s.tagStack := by simpa [step, openTag, writeLine] using h1
  have e2 : s'.indent = s.indent + Gen.indentUnit := by simpa [step, openTag, writeLine] using h2
  have e3 : s'.errors = s.errors := by simpa [step, openTag, writeLine] using h3
  simp only [step, e1, closeTag, writeLine, e2, e3]
  simp

mutual
theorem execProg_structured (s : State) : (p : Prog) → structuredProg p = true →
    execProg s p = (run s (opsProg p).1, (opsProg p).2) ∧
      (run s (opsProg p).1).tagStack = s.tagStack ∧ (run s (opsProg p).1).indent = s.indent ∧
      (run s (opsProg p).1).errors = s.errors
  | .prim op, h => by
    obtain ⟨f1, f2, f3⟩ := step_frame s op h
    simp [execProg, opsProg, run, f1, f2, f3]
  | .raise, _ => by simp [execProg, opsProg, run]
  | .ctx n a body, h => by
    have hb : structuredList body = true := by simpa [structuredProg] using h
    obtain ⟨e, f1, f2, f3⟩ := execList_structured (step s (.push n a)) body hb
    obtain ⟨g1, g2, g3⟩ := push_pop_frame s (run (step s (.push n a)) (opsList body).1) n a f1 f2 f3
    have hrun : run s (opsProg (.ctx n a body)).1 = step (run (step s (.push n a)) (opsList body).1) .pop := by
      simp only [opsProg]
      rw [show Op.push n a :: (opsList body).1 ++ [Op.pop] = [Op.push n a] ++ ((opsList body).1 ++ [Op.pop]) by simp,
        run_append, run_append]
      rfl
    refine ⟨?_, by rw [hrun]; exact g1, by rw [hrun]; exact g2, by rw [hrun]; exact g3⟩
    simp only [execProg, e, hrun, g3, f3]
    simp [opsProg, step, openTag, writeLine]
theorem execList_structured (s : State) : (ps : List Prog) → structuredList ps = true →
    execList s ps = (run s (opsList ps).1, (opsList ps).2) ∧
      (run s (opsList ps).1).tagStack = s.tagStack ∧ (run s (opsList ps).1).indent = s.indent ∧
      (run s (opsList ps).1).errors = s.errors
  | [], _ => by simp [execList, opsList, run]
  | p :: ps, h => by
    have hp : structuredProg p = true ∧ structuredList ps = true := by simpa [structuredList] using h
    obtain ⟨e, f1, f2, f3⟩ := execProg_structured s p hp.1
    simp only [execList, opsList, e]
    by_cases hr : (opsProg p).2 = true
    · simp only [hr, if_true]
      exact ⟨trivial, f1, f2, f3⟩
    · obtain ⟨e', g1, g2, g3⟩ := execList_structured (run s (opsProg p).1) ps hp.2
      simp only [hr, if_false, Bool.false_eq_true, e', run_append]
      exact ⟨trivial, g1.trans f1, g2.trans f2, g3.trans f3⟩
end

mutual
theorem opsProg_ok : (p : Prog) → ProgOk p → ∀ op ∈ (opsProg p).1, OpOk op
  | .prim op, h => by simpa [opsProg, ProgOk] using h
  | .raise, _ => by simp [opsProg]
  | .ctx n a body, h => by
    simp only [ProgOk] at h
    intro op hop
    simp only [opsProg, List.cons_append, List.mem_cons, List.mem_append, List.not_mem_nil, or_false] at hop
    rcases hop with rfl | hop | rfl
    · exact h.1
    · exact opsList_ok body h.2 op hop
    · trivial
theorem opsList_ok : (ps : List Prog) → ProgsOk ps → ∀ op ∈ (opsList ps).1, OpOk op
  | [], _ => by simp [opsList]
  | p :: ps, h => by
    simp only [ProgsOk] at h
    intro op hop
    simp only [opsList] at hop
    split_ifs at hop
    · exact opsProg_ok p h.1 op hop
    · simp only [List.mem_append] at hop
      rcases hop with hop | hop
      · exact opsProg_ok p h.1 op hop
      · exact opsList_ok ps h.2 op hop
end

end GIVerif.XmlWriter
