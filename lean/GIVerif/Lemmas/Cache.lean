/-
  C18 helper lemmas: the inductive invariants of the step relation of Model/Cache.lean.
  `Inv`   — structural invariant, holds on every history (no hypothesis);
  `InvF`  — freshness invariant, preserved by the events allowed by `evOK`;
  `InvP`  — scanner-version invariant, preserved while only stores of version V step.
-/
import GIVerif.Model.Cache

namespace GIVerif.Cache
open GIVerif.Gen.Cache

@[simp] theorem upd_same {α : Type} (f : Nat → α) (k : Nat) (v : α) : upd f k v k = v := by
  simp [upd]

theorem upd_other {α : Type} (f : Nat → α) (k : Nat) (v : α) (x : Nat) (h : x ≠ k) : upd f k v x = f x := by
  simp [upd, h]

theorem upd_apply {α : Type} (f : Nat → α) (k : Nat) (v : α) (x : Nat) :
    upd f k v x = if x = k then v else f x := rfl

/-- the temp inode `i` is private to the storing process `p` and carries its data -/
def Owned (s : State) (p i : Nat) : Prop :=
  i < s.nIno ∧ (s.inodes i).pub = false ∧ (s.inodes i).owner = p ∧
    (s.inodes i).data = (s.procs p).data ∧ (s.inodes i).sver = (s.procs p).sver

/-- the inode `i` held open by a loader was reached through the entry name -/
def Held (s : State) (i v0 : Nat) : Prop :=
  i < s.nIno ∧ (s.inodes i).pub = true ∧ v0 ≤ s.ver

/-- what is known about process `p` at each program point -/
def pcInv (s : State) (p : Nat) : PC → Prop
  | .sWrite i k => Owned s p i ∧ k < full ∧ (s.inodes i).len = k
  | .sClose i => Owned s p i ∧ (s.inodes i).len = full
  | .sRename i => Owned s p i ∧ (s.inodes i).len = full
  | .lFstat i v0 => Held s i v0
  | .lStatSrc i v0 m => Held s i v0 ∧ m = (s.inodes i).mtime
  | .lRead i v0 m sm => Held s i v0 ∧ m = (s.inodes i).mtime ∧ sm ≤ m ∧
      ∃ vs, v0 ≤ vs ∧ vs ≤ s.ver ∧ sm = s.srcM vs
  | .done (some r) => r.len = full ∧ r.srcSeen ≤ r.entryM ∧ r.vStart ≤ r.vEnd ∧ r.data ≤ r.vEnd
  | .raised => False
  -- the cross-device publish is unreachable when TMPDIR and the cache are on one file system
  | .xOpen _ | .xWrite _ _ _ | .xClose _ _ | .xCopystat _ | .xUnlink _ => False
  | _ => True

structure Inv (s : State) : Prop where
  sameDevice : s.xdev = false
  entry : ∀ i, s.entry = some i → i < s.nIno ∧ (s.inodes i).pub = true
  dataLe : ∀ i, i < s.nIno → (s.inodes i).data ≤ s.ver
  procData : ∀ p, (s.procs p).pc ≠ .idle → (s.procs p).data ≤ s.ver
  pcs : ∀ p, pcInv s p (s.procs p).pc

/-- initial states: nobody is running; the entry name, if present, points to an existing inode -/
structure InitAny (s : State) : Prop where
  idle : ∀ p, (s.procs p).pc = .idle
  entry : ∀ i, s.entry = some i → i < s.nIno ∧ (s.inodes i).pub = true
  dataLe : ∀ i, i < s.nIno → (s.inodes i).data ≤ s.ver

/-- initial states of the theorems: additionally TMPDIR (where `mkstemp` puts the temp files)
    and the cache directory are on the same file system, so that `shutil.move` is a rename -/
structure Init (s : State) : Prop extends InitAny s where
  sameDevice : s.xdev = false

theorem Init.inv {s : State} (h : Init s) : Inv s where
  sameDevice := h.sameDevice
  entry := h.entry
  dataLe := h.dataLe
  procData := fun p hp => absurd (h.idle p) hp
  pcs := fun p => by rw [h.idle p]; trivial

/-- what a system call of `p` can change, as seen by everybody else -/
structure Frame (p : Nat) (s s' : State) : Prop where
  nIno : s.nIno ≤ s'.nIno
  ver : s'.ver = s.ver
  srcM : s'.srcM = s.srcM
  clock : s'.clock = s.clock
  others : ∀ q, q ≠ p → s'.procs q = s.procs q
  self : (s'.procs p).data = (s.procs p).data ∧ (s'.procs p).sver = (s.procs p).sver
  /-- only a private temp inode of `p` changes, and then only its length, mtime and pub flag -/
  inodes : ∀ i, i < s.nIno →
    (s'.inodes i).data = (s.inodes i).data ∧ (s'.inodes i).sver = (s.inodes i).sver ∧
    (s'.inodes i).owner = (s.inodes i).owner ∧
    (((s.inodes i).owner = p ∧ (s.inodes i).pub = false) ∨ s'.inodes i = s.inodes i)

theorem Frame.pcInv_other {p q : Nat} {s s' : State} (hf : Frame p s s') (hq : q ≠ p) (pc : PC)
    (h : pcInv s q pc) : pcInv s' q pc := by
  have ho := hf.others q hq
  have key : ∀ i, Owned s q i → Owned s' q i ∧ s'.inodes i = s.inodes i := by
    intro i ⟨h1, h2, h3, h4, h5⟩
    obtain ⟨a, b, c, d⟩ := hf.inodes i h1
    have e : s'.inodes i = s.inodes i := by
      rcases d with ⟨d1, _⟩ | d
      · exact absurd (h3 ▸ d1) hq
      · exact d
    refine ⟨⟨Nat.lt_of_lt_of_le h1 hf.nIno, ?_, ?_, ?_, ?_⟩, e⟩ <;> simp [e, ho, h2, h3, h4, h5]
  have keyH : ∀ i v0, Held s i v0 → Held s' i v0 ∧ s'.inodes i = s.inodes i := by
    intro i v0 ⟨h1, h2, h3⟩
    obtain ⟨a, b, c, d⟩ := hf.inodes i h1
    have e : s'.inodes i = s.inodes i := by
      rcases d with ⟨_, d2⟩ | d
      · rw [h2] at d2; cases d2
      · exact d
    exact ⟨⟨Nat.lt_of_lt_of_le h1 hf.nIno, by rw [e]; exact h2, by rw [hf.ver]; exact h3⟩, e⟩
  cases pc with
  | sWrite i k =>
    obtain ⟨h1, h2, h3⟩ := h
    obtain ⟨a, e⟩ := key i h1
    exact ⟨a, h2, by rw [e]; exact h3⟩
  | sClose i =>
    obtain ⟨h1, h3⟩ := h
    obtain ⟨a, e⟩ := key i h1
    exact ⟨a, by rw [e]; exact h3⟩
  | sRename i =>
    obtain ⟨h1, h3⟩ := h
    obtain ⟨a, e⟩ := key i h1
    exact ⟨a, by rw [e]; exact h3⟩
  | lFstat i v0 => exact (keyH i v0 h).1
  | lStatSrc i v0 m =>
    obtain ⟨h1, h2⟩ := h
    obtain ⟨a, e⟩ := keyH i v0 h1
    exact ⟨a, by rw [e]; exact h2⟩
  | lRead i v0 m sm =>
    obtain ⟨h1, h2, h3, vs, h4, h5, h6⟩ := h
    obtain ⟨a, e⟩ := keyH i v0 h1
    exact ⟨a, by rw [e]; exact h2, h3, vs, h4, by rw [hf.ver]; exact h5, by rw [hf.srcM]; exact h6⟩
  | xOpen i => exact h
  | xWrite i j k => exact h
  | xClose i j => exact h
  | xCopystat i => exact h
  | xUnlink i => exact h
  | done r => cases r <;> exact h
  | raised => exact h
  | _ => trivial


theorem frame_simple (p : Nat) (s s' : State) (pc : PC) (h1 : s'.nIno = s.nIno) (h2 : s'.ver = s.ver)
    (h3 : s'.srcM = s.srcM) (h4 : s'.clock = s.clock) (h5 : s'.inodes = s.inodes)
    (h6 : s'.procs = upd s.procs p { s.procs p with pc := pc }) : Frame p s s' where
  nIno := by rw [h1]; exact Nat.le_refl _
  ver := h2
  srcM := h3
  clock := h4
  others := fun q hq => by rw [h6, upd_other _ _ _ _ hq]
  self := by rw [h6]; simp
  inodes := fun i _ => by rw [h5]; exact ⟨rfl, rfl, rfl, Or.inr rfl⟩

theorem frame_setPc (s : State) (p : Nat) (pc : PC) : Frame p s (s.setPc p pc) :=
  frame_simple p s _ pc rfl rfl rfl rfl rfl rfl

theorem frame_refl (s : State) (p : Nat) : Frame p s s where
  nIno := Nat.le_refl _
  ver := rfl
  srcM := rfl
  clock := rfl
  others := fun _ _ => rfl
  self := ⟨rfl, rfl⟩
  inodes := fun _ _ => ⟨rfl, rfl, rfl, Or.inr rfl⟩

theorem stepProc_frame (s : State) (p : Nat) (h : Inv s) : Frame p s (stepProc s p) := by
  have hp := h.pcs p
  cases hpc : (s.procs p).pc <;> simp only [stepProc, hpc, h.sameDevice, Bool.false_eq_true, if_false] <;> rw [hpc] at hp
  all_goals (try (exact False.elim hp))
  all_goals (try (split <;> (try split) <;> exact frame_setPc _ _ _))
  all_goals (try exact frame_setPc _ _ _)
  all_goals (try exact frame_refl _ _)
  all_goals (try (split <;> (try split) <;> first | exact frame_setPc _ _ _ | exact frame_simple p s _ _ rfl rfl rfl rfl rfl rfl))
  all_goals (try exact frame_simple p s _ _ rfl rfl rfl rfl rfl rfl)
  case sMkstemp =>
    refine ⟨Nat.le_succ _, rfl, rfl, rfl, fun q hq => by simp [upd_other _ _ _ _ hq], by simp, ?_⟩
    intro i hi
    have : i ≠ s.nIno := Nat.ne_of_lt hi
    simp [upd_other _ _ _ _ this]
  case sWrite i k =>
    obtain ⟨⟨h1, h2, h3, h4, h5⟩, _, _⟩ := hp
    refine ⟨Nat.le_refl _, rfl, rfl, rfl, fun q hq => by simp [upd_other _ _ _ _ hq], by simp, ?_⟩
    intro j hj
    by_cases e : j = i
    · subst e; simp [h2, h3]
    · simp [upd_other _ _ _ _ e]
  case sRename i =>
    obtain ⟨⟨h1, h2, h3, h4, h5⟩, _⟩ := hp
    refine ⟨Nat.le_refl _, rfl, rfl, rfl, fun q hq => by simp [upd_other _ _ _ _ hq], by simp, ?_⟩
    intro j hj
    by_cases e : j = i
    · subst e; simp [h2, h3]
    · simp [upd_other _ _ _ _ e]
theorem stepProc_self (s : State) (p : Nat) (h : Inv s) :
    pcInv (stepProc s p) p ((stepProc s p).procs p).pc := by
  have hp := h.pcs p
  have he := h.entry
  have hd := h.dataLe
  cases hpc : (s.procs p).pc <;> rw [hpc] at hp <;>
    simp only [stepProc, hpc, statEntryCatchesENOENT, openCatchesENOENT, unpickleCatchesAll, brokenIsUnlinked,
      unlinkCatchesENOENT, stampCatchesENOENT, loadByFd, if_true, h.sameDevice, Bool.false_eq_true, if_false]
  all_goals (try (exact False.elim hp))
  all_goals (try (split <;> (try split)))
  all_goals (try simp [State.setPc, pcInv])
  case sMkstemp => simp [Owned, full]
  case sWrite.isTrue i k hk =>
    simp only [pcInv, Owned] at hp
    simp [Owned, hp, hk]
  case sWrite.isFalse i k hk =>
    simp only [pcInv, Owned] at hp
    simp [Owned, hp]; omega
  case sClose i =>
    simp only [pcInv, Owned] at hp
    simp [Owned, hp]
  case h_2 i hi =>
    have := he i hi
    simp [Held, this]
  case lFstat i v0 =>
    simpa [pcInv, Held] using hp
  case lStatSrc.isFalse i v0 m hs =>
    simp only [pcInv, Held] at hp
    simp [loadStale] at hs
    simp [Held, hp]
    exact ⟨by omega, s.ver, hp.1.2.2, Nat.le_refl _, rfl⟩
  case lRead.isTrue i v0 m sm hc =>
    simp only [pcInv, Held] at hp
    obtain ⟨⟨h1, h2, h3⟩, h4, h5, _⟩ := hp
    exact ⟨by simpa [Inode.complete] using hc, by omega, h3, hd i h1⟩
  case done r => cases r <;> simp [pcInv] at hp ⊢ <;> exact hp


theorem stepProc_entry (s : State) (p : Nat) (h : Inv s) (i : Nat) (hi : (stepProc s p).entry = some i) :
    i < (stepProc s p).nIno ∧ ((stepProc s p).inodes i).pub = true := by
  have hp := h.pcs p
  have he := h.entry
  revert hi
  cases hpc : (s.procs p).pc <;> rw [hpc] at hp <;> simp only [stepProc, hpc, h.sameDevice, Bool.false_eq_true, if_false]
  all_goals (try (exact False.elim hp))
  all_goals (try (split <;> (try split) <;> (try split)))
  all_goals (try (simp only [State.setPc]; exact he i))
  all_goals (try exact he i)
  all_goals (try (intro hi; cases hi))
  case sMkstemp =>
    intro hi
    obtain ⟨a, b⟩ := he i hi
    have : i ≠ s.nIno := Nat.ne_of_lt a
    simp [upd_other _ _ _ _ this, b]; omega
  case sWrite =>
    rename_i j k
    intro hi
    obtain ⟨a, b⟩ := he i hi
    simp only [pcInv, Owned] at hp
    have : i ≠ j := by
      intro e; subst e; rw [hp.1.2.1] at b; cases b
    simp [upd_other _ _ _ _ this, a, b]
  case sRename =>
    simp only [pcInv, Owned] at hp
    simp [hp.1.1]

theorem stepProc_dataLe (s : State) (p : Nat) (h : Inv s) (i : Nat) (hi : i < (stepProc s p).nIno) :
    ((stepProc s p).inodes i).data ≤ (stepProc s p).ver := by
  have hf := stepProc_frame s p h
  by_cases hlt : i < s.nIno
  · rw [(hf.inodes i hlt).1, hf.ver]; exact h.dataLe i hlt
  · revert hi
    have hpd := h.procData p
    have hp := h.pcs p
    cases hpc : (s.procs p).pc <;> rw [hpc] at hp <;> simp only [stepProc, hpc, h.sameDevice, Bool.false_eq_true, if_false]
    all_goals (try (exact False.elim hp))
    all_goals (try (split <;> (try split) <;> (try split)))
    all_goals (try (simp only [State.setPc]; intro hi; exact absurd hi hlt))
    all_goals (try (intro hi; exact absurd hi hlt))
    case sMkstemp =>
      intro hi
      have : i = s.nIno := by omega
      subst this
      simp
      exact hpd (by rw [hpc]; simp)

theorem stepProc_procData (s : State) (p : Nat) (h : Inv s) (q : Nat)
    (hq : ((stepProc s p).procs q).pc ≠ .idle) : ((stepProc s p).procs q).data ≤ (stepProc s p).ver := by
  have hf := stepProc_frame s p h
  rw [hf.ver]
  by_cases e : q = p
  · subst e
    rw [hf.self.1]
    apply h.procData
    intro hi
    apply hq
    simp [stepProc, hi]
  · rw [hf.others q e] at hq ⊢
    exact h.procData q hq

theorem stepProc_xdev (s : State) (p : Nat) : (stepProc s p).xdev = s.xdev := by
  cases hpc : (s.procs p).pc <;> simp only [stepProc, hpc]
  all_goals (try (split <;> (try split) <;> (try split)))
  all_goals rfl

theorem stepProc_inv (s : State) (p : Nat) (h : Inv s) : Inv (stepProc s p) where
  sameDevice := by rw [stepProc_xdev]; exact h.sameDevice
  entry := stepProc_entry s p h
  dataLe := stepProc_dataLe s p h
  procData := stepProc_procData s p h
  pcs := fun q => by
    by_cases e : q = p
    · subst e; exact stepProc_self s q h
    · have hf := stepProc_frame s p h
      rw [hf.others q e]
      exact hf.pcInv_other e _ (h.pcs q)

/-- monotonicity of `pcInv` under environment changes that keep the file system -/
theorem pcInv_env (s s' : State) (q : Nat) (pc : PC)
    (h1 : s'.nIno = s.nIno) (h2 : s'.inodes = s.inodes) (h3 : s.ver ≤ s'.ver)
    (h4 : ∀ v, v ≤ s.ver → s'.srcM v = s.srcM v)
    (h5 : (s'.procs q).data = (s.procs q).data ∧ (s'.procs q).sver = (s.procs q).sver)
    (h : pcInv s q pc) : pcInv s' q pc := by
  have ko : ∀ i, Owned s q i → Owned s' q i := by
    intro i ⟨a, b, c, d, e⟩
    exact ⟨by rw [h1]; exact a, by rw [h2]; exact b, by rw [h2]; exact c, by rw [h2, h5.1]; exact d,
      by rw [h2, h5.2]; exact e⟩
  have kh : ∀ i v0, Held s i v0 → Held s' i v0 := by
    intro i v0 ⟨a, b, c⟩
    exact ⟨by rw [h1]; exact a, by rw [h2]; exact b, Nat.le_trans c h3⟩
  cases pc with
  | sWrite i k => exact ⟨ko i h.1, h.2.1, by rw [h2]; exact h.2.2⟩
  | sClose i => exact ⟨ko i h.1, by rw [h2]; exact h.2⟩
  | sRename i => exact ⟨ko i h.1, by rw [h2]; exact h.2⟩
  | lFstat i v0 => exact kh i v0 h
  | lStatSrc i v0 m => exact ⟨kh i v0 h.1, by rw [h2]; exact h.2⟩
  | lRead i v0 m sm =>
    obtain ⟨a, b, c, vs, d, e, f⟩ := h
    exact ⟨kh i v0 a, by rw [h2]; exact b, c, vs, d, Nat.le_trans e h3, by rw [h4 vs e]; exact f⟩
  | xOpen i => exact h
  | xWrite i j k => exact h
  | xClose i j => exact h
  | xCopystat i => exact h
  | xUnlink i => exact h
  | done r => cases r <;> exact h
  | raised => exact h
  | _ => trivial

theorem step_inv (s : State) (e : Ev) (h : Inv s) : Inv (step s e) := by
  cases e with
  | step p => exact stepProc_inv s p h
  | spawn p op sv =>
    simp only [step]
    split
    · rename_i hidle
      refine ⟨h.sameDevice, h.entry, h.dataLe, ?_, ?_⟩
      · intro q hq
        by_cases e : q = p
        · subst e; simp
        · simp only [upd_other _ _ _ _ e] at hq ⊢; exact h.procData q hq
      · intro q
        by_cases e : q = p
        · subst e; cases op <;> simp [firstPc, pcInv]
        · simp only [upd_other _ _ _ _ e]
          exact pcInv_env s _ q _ rfl rfl (Nat.le_refl _) (fun _ _ => rfl)
            (by simp [upd_other _ _ _ _ e]) (h.pcs q)
    · exact h
  | crash p =>
    simp only [step]
    split
    · refine ⟨h.sameDevice, h.entry, h.dataLe, ?_, ?_⟩
      · intro q hq
        by_cases e : q = p
        · subst e
          simp only [State.setPc, upd_same]
          apply h.procData
          intro hi; rename_i hr; rw [hi] at hr; cases hr
        · simp only [State.setPc, upd_other _ _ _ _ e] at hq ⊢; exact h.procData q hq
      · intro q
        by_cases e : q = p
        · subst e; simp [State.setPc, pcInv]
        · simp only [State.setPc, upd_other _ _ _ _ e]
          exact pcInv_env s _ q _ rfl rfl (Nat.le_refl _) (fun _ _ => rfl)
            (by simp [upd_other _ _ _ _ e]) (h.pcs q)
    · exact h
  | modify t =>
    simp only [step]
    refine ⟨h.sameDevice, h.entry, fun i hi => Nat.le_succ_of_le (h.dataLe i hi),
      fun q hq => Nat.le_succ_of_le (h.procData q hq), ?_⟩
    intro q
    exact pcInv_env s _ q _ rfl rfl (Nat.le_succ _)
      (fun v hv => upd_other _ _ _ _ (by omega)) ⟨rfl, rfl⟩ (h.pcs q)
  | replace m =>
    simp only [step]
    refine ⟨h.sameDevice, h.entry, fun i hi => Nat.le_succ_of_le (h.dataLe i hi),
      fun q hq => Nat.le_succ_of_le (h.procData q hq), ?_⟩
    intro q
    exact pcInv_env s _ q _ rfl rfl (Nat.le_succ _)
      (fun v hv => upd_other _ _ _ _ (by omega)) ⟨rfl, rfl⟩ (h.pcs q)
  | tick =>
    simp only [step]
    refine ⟨h.sameDevice, h.entry, h.dataLe, h.procData, ?_⟩
    intro q
    exact pcInv_env s _ q _ rfl rfl (Nat.le_refl _) (fun _ _ => rfl) ⟨rfl, rfl⟩ (h.pcs q)

theorem run_inv (s : State) (evs : List Ev) (h : Inv s) : Inv (run s evs) := by
  induction evs generalizing s with
  | nil => exact h
  | cons e es ih => exact ih (step s e) (step_inv s e h)

theorem run_append (s : State) (a b : List Ev) : run s (a ++ b) = run (run s a) b := by
  simp [run, List.foldl_append]

theorem run_cons (s : State) (e : Ev) (es : List Ev) : run s (e :: es) = run (step s e) es := rfl

/-- the freshness invariant: every complete pickle is the parse of a version that was
    still current when it was stamped -/
structure InvF (s : State) : Prop where
  inoClock : ∀ i, i < s.nIno → (s.inodes i).mtime ≤ s.clock
  mono : ∀ a b, a ≤ b → b ≤ s.ver → s.srcM a ≤ s.srcM b
  srcClock : s.srcM s.ver ≤ s.clock
  fresh : ∀ i, i < s.nIno → (s.inodes i).len = full → (s.inodes i).data < s.ver →
    (s.inodes i).mtime < s.srcM ((s.inodes i).data + 1)
  rets : ∀ p r, (s.procs p).pc = .done (some r) → r.vStart ≤ r.data

theorem invF_same (s s' : State) (hf : InvF s) (h1 : s'.nIno = s.nIno) (h2 : s'.inodes = s.inodes)
    (h3 : s'.ver = s.ver) (h4 : s'.srcM = s.srcM) (h5 : s'.clock = s.clock)
    (h6 : ∀ q r, (s'.procs q).pc = .done (some r) → (s.procs q).pc = .done (some r) ∨ r.vStart ≤ r.data) :
    InvF s' where
  inoClock := by rw [h1, h2, h5]; exact hf.inoClock
  mono := by rw [h3, h4]; exact hf.mono
  srcClock := by rw [h3, h4, h5]; exact hf.srcClock
  fresh := by rw [h1, h2, h3, h4]; exact hf.fresh
  rets := fun q r hq => by
    rcases h6 q r hq with a | a
    · exact hf.rets q r a
    · exact a

theorem setPc_done (s : State) (p q : Nat) (pc : PC) (r : Ret) (hne : pc ≠ .done (some r))
    (h : ((s.setPc p pc).procs q).pc = .done (some r)) : (s.procs q).pc = .done (some r) := by
  by_cases e : q = p
  · subst e; simp [State.setPc] at h; exact absurd h hne
  · simpa [State.setPc, upd_other _ _ _ _ e] using h

theorem upd_done (s : State) (p q : Nat) (pr : Proc) (r : Ret) (hne : pr.pc ≠ .done (some r))
    (h : ((upd s.procs p pr) q).pc = .done (some r)) : (s.procs q).pc = .done (some r) := by
  by_cases e : q = p
  · subst e; simp at h; exact absurd h hne
  · simpa [upd_other _ _ _ _ e] using h

theorem stepProc_invF (s : State) (p : Nat) (h : Inv s) (hf : InvF s) (ok : evOK s (.step p) = true) :
    InvF (stepProc s p) := by
  have hp := h.pcs p
  cases hpc : (s.procs p).pc <;> rw [hpc] at hp <;>
    simp only [stepProc, hpc, statEntryCatchesENOENT, openCatchesENOENT, unpickleCatchesAll, brokenIsUnlinked,
      unlinkCatchesENOENT, stampCatchesENOENT, loadByFd, if_true, h.sameDevice, Bool.false_eq_true, if_false]
  all_goals (try (exact False.elim hp))
  all_goals (try (split <;> (try split)))
  case lRead.isTrue i v0 m sm hc =>
    refine invF_same s _ hf rfl rfl rfl rfl rfl ?_
    intro q r hq
    by_cases e : q = p
    · subst e
      right
      simp [State.setPc] at hq
      subst hq
      simp only [pcInv, Held] at hp
      obtain ⟨⟨h1, h2, h3⟩, h4, h5, vs, h6, h7, h8⟩ := hp
      have hc' : (s.inodes i).len = full := by simpa [Inode.complete] using hc
      have hfr := hf.fresh i h1 hc'
      have hd := h.dataLe i h1
      show v0 ≤ (s.inodes i).data
      by_cases hlt : (s.inodes i).data < v0
      · have a := hfr (by omega)
        have b := hf.mono ((s.inodes i).data + 1) vs (by omega) h7
        omega
      · omega
    · left; simpa [State.setPc, upd_other _ _ _ _ e] using hq
  all_goals (try exact hf)
  all_goals (try (refine invF_same s _ hf rfl rfl rfl rfl rfl ?_; intro q r hq; left;
                  first | exact setPc_done s p q _ r (by simp) hq | exact upd_done s p q _ r (by simp) hq))
  case sMkstemp =>
    refine ⟨?_, hf.mono, hf.srcClock, ?_, ?_⟩
    · intro i hi
      by_cases e : i = s.nIno
      · subst e; simp
      · simp only [upd_other _ _ _ _ e]; exact hf.inoClock i (by simp at hi; omega)
    · intro i hi
      by_cases e : i = s.nIno
      · subst e; simp [full]
      · simp only [upd_other _ _ _ _ e]; exact hf.fresh i (by simp at hi; omega)
    · intro q r hq; exact hf.rets q r (upd_done s p q _ r (by simp) hq)
  case sWrite.isTrue i k hk =>
    simp only [pcInv, Owned] at hp
    have hdat : (s.procs p).data = s.ver := by simpa [evOK, hpc] using ok
    refine ⟨?_, hf.mono, hf.srcClock, ?_, ?_⟩
    · intro j hj
      by_cases e : j = i
      · subst e; simp
      · simp only [upd_other _ _ _ _ e]; exact hf.inoClock j hj
    · intro j hj
      by_cases e : j = i
      · subst e; simp [hp.1.2.2.2.1, hdat]
      · simp only [upd_other _ _ _ _ e]; exact hf.fresh j hj
    · intro q r hq; exact hf.rets q r (upd_done s p q _ r (by simp) hq)
  case sWrite.isFalse i k hk =>
    simp only [pcInv, Owned] at hp
    refine ⟨?_, hf.mono, hf.srcClock, ?_, ?_⟩
    · intro j hj
      by_cases e : j = i
      · subst e; simp
      · simp only [upd_other _ _ _ _ e]; exact hf.inoClock j hj
    · intro j hj
      by_cases e : j = i
      · subst e; simp; intro h1; exact absurd h1 hk
      · simp only [upd_other _ _ _ _ e]; exact hf.fresh j hj
    · intro q r hq; exact hf.rets q r (upd_done s p q _ r (by simp) hq)
  case sRename i =>
    refine ⟨?_, hf.mono, hf.srcClock, ?_, ?_⟩
    · intro j hj
      by_cases e : j = i
      · subst e; simpa using hf.inoClock j hj
      · simp only [upd_other _ _ _ _ e]; exact hf.inoClock j hj
    · intro j hj
      by_cases e : j = i
      · subst e; simpa using hf.fresh j hj
      · simp only [upd_other _ _ _ _ e]; exact hf.fresh j hj
    · intro q r hq; exact hf.rets q r (upd_done s p q _ r (by simp) hq)

theorem step_invF (s : State) (e : Ev) (h : Inv s) (hf : InvF s) (ok : evOK s e = true) :
    InvF (step s e) := by
  cases e with
  | step p => exact stepProc_invF s p h hf ok
  | spawn p op sv =>
    simp only [step]
    split
    · refine invF_same s _ hf rfl rfl rfl rfl rfl ?_
      intro q r hq; left
      exact upd_done s p q _ r (by cases op <;> simp [firstPc]) hq
    · exact hf
  | crash p =>
    simp only [step]
    split
    · refine invF_same s _ hf rfl rfl rfl rfl rfl ?_
      intro q r hq; left
      exact setPc_done s p q _ r (by simp) hq
    · exact hf
  | modify t =>
    have ht : t = true := by simpa [evOK] using ok
    subst ht
    simp only [step, if_true]
    refine ⟨?_, ?_, ?_, ?_, hf.rets⟩
    · intro i hi; exact Nat.le_succ_of_le (hf.inoClock i hi)
    · intro a b hab hb
      have hb : b ≤ s.ver + 1 := hb
      by_cases eb : b = s.ver + 1
      · subst eb
        simp only [upd_same]
        by_cases ea : a = s.ver + 1
        · subst ea; simp
        · simp only [upd_other _ _ _ _ ea]
          have := hf.mono a s.ver (by omega) (Nat.le_refl _)
          have := hf.srcClock
          omega
      · have ea : a ≠ s.ver + 1 := by omega
        simp only [upd_other _ _ _ _ ea, upd_other _ _ _ _ eb]
        exact hf.mono a b hab (by omega)
    · simp
    · intro i hi hl hlt
      have hd := h.dataLe i hi
      by_cases e1 : (s.inodes i).data = s.ver
      · rw [e1]; simp only [upd_same]
        have := hf.inoClock i hi
        omega
      · have e2 : (s.inodes i).data + 1 ≠ s.ver + 1 := by omega
        simp only [upd_other _ _ _ _ e2]
        exact hf.fresh i hi hl (by omega)
  | replace m => simp [evOK] at ok
  | tick =>
    simp only [step]
    exact ⟨fun i hi => Nat.le_succ_of_le (hf.inoClock i hi), hf.mono, Nat.le_succ_of_le hf.srcClock,
      hf.fresh, hf.rets⟩

theorem run_invF (s : State) (evs : List Ev) (h : Inv s) (hf : InvF s) (ok : histOK s evs = true) :
    InvF (run s evs) := by
  induction evs generalizing s with
  | nil => exact hf
  | cons e es ih =>
    simp only [histOK, Bool.and_eq_true] at ok
    exact ih (step s e) (step_inv s e h) (step_invF s e h hf ok.1) ok.2

/-- the two halves of the hypothesis, stated separately, give `histOK` -/
theorem histOK_of (s : State) (evs : List Ev) (h1 : histNoModDuringStore s evs = true)
    (h2 : histFineClock evs = true) : histOK s evs = true := by
  induction evs generalizing s with
  | nil => rfl
  | cons e es ih =>
    simp only [histNoModDuringStore, Bool.and_eq_true] at h1
    cases e with
    | modify t =>
      simp only [histFineClock, Bool.and_eq_true] at h2
      obtain ⟨rfl, h2'⟩ := h2
      simp [histOK, evOK, ih _ h1.2 h2']
    | step p =>
      simp only [histFineClock] at h2
      simp only [histOK, Bool.and_eq_true]
      exact ⟨by simpa [evOK, evNoModDuringStore] using h1.1, ih _ h1.2 h2⟩
    | spawn p op sv => simp only [histFineClock] at h2; simp [histOK, evOK, ih _ h1.2 h2]
    | crash p => simp only [histFineClock] at h2; simp [histOK, evOK, ih _ h1.2 h2]
    | tick => simp only [histFineClock] at h2; simp [histOK, evOK, ih _ h1.2 h2]
    | replace m => simp [histFineClock] at h2

/-- initial states for the freshness theorem: additionally timestamps are not from the
    future and a complete initial entry is not a stale parse that looks fresh -/
structure InitF (s : State) : Prop extends Init s where
  inoClock : ∀ i, i < s.nIno → (s.inodes i).mtime ≤ s.clock
  mono : ∀ a b, a ≤ b → b ≤ s.ver → s.srcM a ≤ s.srcM b
  srcClock : s.srcM s.ver ≤ s.clock
  fresh : ∀ i, i < s.nIno → (s.inodes i).len = full → (s.inodes i).data < s.ver →
    (s.inodes i).mtime < s.srcM ((s.inodes i).data + 1)

theorem InitF.invF {s : State} (h : InitF s) : InvF s where
  inoClock := h.inoClock
  mono := h.mono
  srcClock := h.srcClock
  fresh := h.fresh
  rets := fun p r hp => by rw [h.idle p] at hp; cases hp

/-- how a system call can change what the entry name points to -/
theorem stepProc_entry_cases (s : State) (p : Nat) (h : Inv s) :
    (stepProc s p).entry = s.entry ∨ (stepProc s p).entry = none ∨
      ∃ i, (s.procs p).pc = .sRename i ∧ (stepProc s p).entry = some i := by
  have hp := h.pcs p
  cases hpc : (s.procs p).pc <;> rw [hpc] at hp <;> simp only [stepProc, hpc, h.sameDevice, Bool.false_eq_true, if_false]
  all_goals (try (exact False.elim hp))
  all_goals (try (split <;> (try split) <;> (try split)))
  all_goals (try (left; first | rfl | trivial))
  all_goals (try (right; left; rfl))
  case sRename i => right; right; exact ⟨i, rfl, rfl⟩

theorem step_entry_env (s : State) (e : Ev) (h : ∀ p, e ≠ .step p) : (step s e).entry = s.entry := by
  cases e with
  | step p => exact absurd rfl (h p)
  | spawn p op sv => simp only [step]; split <;> rfl
  | crash p => simp only [step]; split <;> rfl
  | modify t => rfl
  | replace m => rfl
  | tick => rfl

/-- the cache directory never holds a torn entry (unless it started with one) -/
def InvC (s : State) : Prop := ∀ i, s.entry = some i → (s.inodes i).len = full

theorem step_invC (s : State) (e : Ev) (h : Inv s) (hc : InvC s) : InvC (step s e) := by
  cases e with
  | step p =>
    intro i hi
    have hf := stepProc_frame s p h
    rcases stepProc_entry_cases s p h with a | a | ⟨j, a, b⟩
    · have hi' : s.entry = some i := by rw [← a]; exact hi
      obtain ⟨h1, h2⟩ := h.entry i hi'
      rcases (hf.inodes i h1).2.2.2 with ⟨_, c⟩ | c
      · rw [h2] at c; cases c
      · show ((stepProc s p).inodes i).len = full
        rw [c]; exact hc i hi'
    · have hi' : (stepProc s p).entry = some i := hi
      rw [a] at hi'; cases hi'
    · have hi' : (stepProc s p).entry = some i := hi
      rw [b] at hi'; cases hi'
      have hp := h.pcs p
      rw [a] at hp
      show ((stepProc s p).inodes i).len = full
      simp only [stepProc, a, upd_same, h.sameDevice, Bool.false_eq_true, if_false]
      exact hp.2
  | spawn p op sv => simp only [step]; split <;> exact hc
  | crash p => simp only [step]; split <;> exact hc
  | modify t => exact hc
  | replace m => exact hc
  | tick => exact hc

theorem run_invC (s : State) (evs : List Ev) (h : Inv s) (hc : InvC s) : InvC (run s evs) := by
  induction evs generalizing s with
  | nil => exact hc
  | cons e es ih => exact ih (step s e) (step_inv s e h) (step_invC s e h hc)

/-! ### scanner versions -/

def heldV (s : State) (V : Nat) : PC → Prop
  | .lFstat i _ => (s.inodes i).sver = V
  | .lStatSrc i _ _ => (s.inodes i).sver = V
  | .lRead i _ _ _ => (s.inodes i).sver = V
  | .done (some r) => r.sver = V
  | _ => True

/-- relative to a scanner version `V` and a set `Q` of (late) processes: the entry, and
    whatever a process of `Q` holds or has returned, was written by version `V` -/
structure InvP (V : Nat) (Q : Nat → Prop) (s : State) : Prop where
  entryV : ∀ i, s.entry = some i → (s.inodes i).sver = V
  held : ∀ q, Q q → heldV s V (s.procs q).pc

def storeOK (V : Nat) (s : State) : Ev → Bool
  | .step p => !(s.procs p).pc.isStore || (s.procs p).sver == V
  | _ => true

theorem heldV_env (s s' : State) (V : Nat) (pc : PC) (h2 : s'.inodes = s.inodes) (h : heldV s V pc) :
    heldV s' V pc := by
  cases pc <;> simp only [heldV, h2] at h ⊢ <;> exact h

theorem step_invP (V : Nat) (Q : Nat → Prop) (s : State) (e : Ev) (h : Inv s) (hP : InvP V Q s)
    (ok : storeOK V s e = true) : InvP V Q (step s e) := by
  cases e with
  | step p =>
    have hf := stepProc_frame s p h
    have hsv : ∀ i, i < s.nIno → ((stepProc s p).inodes i).sver = (s.inodes i).sver :=
      fun i hi => (hf.inodes i hi).2.1
    have hp := h.pcs p
    refine ⟨?_, ?_⟩
    · intro i hi
      have hi' : (stepProc s p).entry = some i := hi
      show ((stepProc s p).inodes i).sver = V
      rcases stepProc_entry_cases s p h with a | a | ⟨j, a, b⟩
      · rw [a] at hi'
        rw [hsv i (h.entry i hi').1]; exact hP.entryV i hi'
      · rw [a] at hi'; cases hi'
      · rw [b] at hi'; cases hi'
        rw [a] at hp
        rw [hsv i hp.1.1, hp.1.2.2.2.2]
        simpa [storeOK, a, PC.isStore] using ok
    · intro q hq
      by_cases e : q = p
      · subst e
        have hq' := hP.held q hq
        show heldV (stepProc s q) V ((stepProc s q).procs q).pc
        cases hpc : (s.procs q).pc <;> rw [hpc] at hp hq' <;>
          simp only [stepProc, hpc, statEntryCatchesENOENT, openCatchesENOENT, unpickleCatchesAll,
            brokenIsUnlinked, unlinkCatchesENOENT, stampCatchesENOENT, loadByFd, if_true, h.sameDevice, Bool.false_eq_true, if_false]
        all_goals (try (exact False.elim hp))
        all_goals (try (split <;> (try split)))
        all_goals (try simp [State.setPc, heldV])
        case h_2 i hi => exact hP.entryV i hi
        case lFstat i v0 => exact hq'
        case lStatSrc.isFalse i v0 m hs => exact hq'
        case lRead.isTrue i v0 m sm hc => exact hq'
        case done r => cases r <;> simp [heldV] at hq' ⊢ <;> exact hq'
      · show heldV (stepProc s p) V ((stepProc s p).procs q).pc
        rw [hf.others q e]
        have hq' := hP.held q hq
        have hpq := h.pcs q
        cases hpc : (s.procs q).pc <;> rw [hpc] at hq' hpq <;> simp only [heldV] at hq' ⊢
        case lFstat i v0 => rw [hsv i hpq.1]; exact hq'
        case lStatSrc i v0 m => rw [hsv i hpq.1.1]; exact hq'
        case lRead i v0 m sm => rw [hsv i hpq.1.1]; exact hq'
        case done r => cases r <;> exact hq'
  | spawn p op sv =>
    simp only [step]
    split
    · refine ⟨hP.entryV, ?_⟩
      intro q hq
      by_cases e : q = p
      · subst e; cases op <;> simp [firstPc, heldV]
      · simp only [upd_other _ _ _ _ e]; exact heldV_env s _ V _ rfl (hP.held q hq)
    · exact hP
  | crash p =>
    simp only [step]
    split
    · refine ⟨hP.entryV, ?_⟩
      intro q hq
      by_cases e : q = p
      · subst e; simp [State.setPc, heldV]
      · simp only [State.setPc, upd_other _ _ _ _ e]; exact heldV_env s _ V _ rfl (hP.held q hq)
    · exact hP
  | modify t => exact ⟨hP.entryV, fun q hq => heldV_env s _ V _ rfl (hP.held q hq)⟩
  | replace m => exact ⟨hP.entryV, fun q hq => heldV_env s _ V _ rfl (hP.held q hq)⟩
  | tick => exact ⟨hP.entryV, fun q hq => heldV_env s _ V _ rfl (hP.held q hq)⟩

theorem run_invP (V : Nat) (Q : Nat → Prop) (s : State) (evs : List Ev) (h : Inv s) (hP : InvP V Q s)
    (ok : onlyStoresOf V s evs = true) : InvP V Q (run s evs) := by
  induction evs generalizing s with
  | nil => exact hP
  | cons e es ih =>
    simp only [onlyStoresOf, Bool.and_eq_true] at ok
    refine ih (step s e) (step_inv s e h) (step_invP V Q s e h hP ?_) ok.2
    cases e <;> first | rfl | exact ok.1

/-! ### concrete initial states -/

theorem mkInit_initAny (clock ver sm : Nat) (entry : Option (Nat × Nat × Nat × Nat)) (stamp : Option Nat)
    (xdev : Bool) (hd : ∀ d sv l m, entry = some (d, sv, l, m) → d ≤ ver) :
    InitAny (mkInit clock ver sm entry stamp xdev) where
  idle := fun _ => rfl
  entry := by
    intro i hi
    cases entry with
    | none => simp [mkInit] at hi
    | some e => simp [mkInit] at hi ⊢; omega
  dataLe := by
    intro i hi
    cases entry with
    | none => simp [mkInit] at hi
    | some e =>
      obtain ⟨d, sv, l, m⟩ := e
      simp [mkInit]
      exact hd d sv l m rfl

theorem mkInit_init (clock ver sm : Nat) (entry : Option (Nat × Nat × Nat × Nat)) (stamp : Option Nat)
    (hd : ∀ d sv l m, entry = some (d, sv, l, m) → d ≤ ver) : Init (mkInit clock ver sm entry stamp) where
  toInitAny := mkInit_initAny clock ver sm entry stamp false hd
  sameDevice := rfl

/-- the freshness conditions on an initial state, on any device layout -/
structure FreshStart (s : State) : Prop where
  inoClock : ∀ i, i < s.nIno → (s.inodes i).mtime ≤ s.clock
  mono : ∀ a b, a ≤ b → b ≤ s.ver → s.srcM a ≤ s.srcM b
  srcClock : s.srcM s.ver ≤ s.clock
  fresh : ∀ i, i < s.nIno → (s.inodes i).len = full → (s.inodes i).data < s.ver →
    (s.inodes i).mtime < s.srcM ((s.inodes i).data + 1)

theorem InitF.freshStart {s : State} (h : InitF s) : FreshStart s :=
  ⟨h.inoClock, h.mono, h.srcClock, h.fresh⟩

theorem mkInit_freshStart_empty (clock ver sm : Nat) (stamp : Option Nat) (xdev : Bool) (hsm : sm ≤ clock) :
    FreshStart (mkInit clock ver sm none stamp xdev) where
  inoClock := by intro i hi; simp [mkInit] at hi
  mono := fun _ _ _ _ => Nat.le_refl _
  srcClock := hsm
  fresh := by intro i hi; simp [mkInit] at hi

theorem mkInit_initF (clock ver sm : Nat) (entry : Option (Nat × Nat × Nat × Nat)) (stamp : Option Nat)
    (hd : ∀ d sv l m, entry = some (d, sv, l, m) → d ≤ ver) (hsm : sm ≤ clock)
    (hm : ∀ d sv l m, entry = some (d, sv, l, m) → m ≤ clock ∧ (l = full → d < ver → m < sm)) :
    InitF (mkInit clock ver sm entry stamp) where
  toInit := mkInit_init clock ver sm entry stamp hd
  inoClock := by
    intro i hi
    cases entry with
    | none => simp [mkInit] at hi
    | some e =>
      obtain ⟨d, sv, l, m⟩ := e
      simp [mkInit]
      exact (hm d sv l m rfl).1
  mono := fun _ _ _ _ => Nat.le_refl _
  srcClock := hsm
  fresh := by
    intro i hi
    cases entry with
    | none => simp [mkInit] at hi
    | some e =>
      obtain ⟨d, sv, l, m⟩ := e
      simp [mkInit]
      exact (hm d sv l m rfl).2

end GIVerif.Cache
