/-
  C18 helper lemmas: the inductive invariants of the step relation of Model/Cache.lean.
  `Inv`   — structural invariant, holds on every history (no hypothesis);
  `InvF`  — freshness invariant, preserved by the events allowed by `evDistinct`;
  `InvC`  — the entry name never points to a torn pickle;
  `InvP`  — scanner-version invariant, preserved while only stores of version V step.
-/
import GIVerif.Model.Cache

namespace GIVerif.Cache
open GIVerif.Gen.Cache

@[simp] theorem upd_same {α : Type} (f : Nat → α) (k : Nat) (v : α) : upd f k v k = v := by
  simp [upd]

theorem upd_other {α : Type} (f : Nat → α) (k : Nat) (v : α) (x : Nat) (h : x ≠ k) : upd f k v x = f x := by
  simp [upd, h]

theorem upd_apply {α : Type} (f : Nat → α) (k : Nat) (v : α) (x : Nat) :
    upd f k v x = if x = k then v else f x := rfl

/-- the temp inode `i` is private to the storing process `p` and carries its data -/
def Owned (s : State) (p i : Nat) : Prop :=
  i < s.nIno ∧ (s.inodes i).pub = false ∧ (s.inodes i).owner = p ∧
    (s.inodes i).data = (s.procs p).data ∧ (s.inodes i).sver = (s.procs p).sver

/-- the inode `i` held open by a loader was reached through the entry name -/
def Held (s : State) (i v0 : Nat) : Prop :=
  i < s.nIno ∧ (s.inodes i).pub = true ∧ v0 ≤ s.ver

/-- what is known about process `p` at each program point -/
def pcInv (s : State) (p : Nat) : PC → Prop
  | .sWrite i k => Owned s p i ∧ k < full ∧ (s.inodes i).len = k
  | .sClose i => Owned s p i ∧ (s.inodes i).len = full
  | .sUtime i => Owned s p i ∧ (s.inodes i).len = full
  | .sRename i => Owned s p i ∧ (s.inodes i).len = full ∧ (s.inodes i).mtime = (s.procs p).m0
  | .lFstat i v0 => Held s i v0
  | .lStatSrc i v0 m => Held s i v0 ∧ m = (s.inodes i).mtime
  | .lRead i v0 m sm => Held s i v0 ∧ m = (s.inodes i).mtime ∧ sm = m ∧
      ∃ vs, v0 ≤ vs ∧ vs ≤ s.ver ∧ sm = s.srcM vs
  | .done (some r) => r.len = full ∧ r.srcSeen = r.entryM ∧ r.vStart ≤ r.vEnd ∧ r.data ≤ r.vEnd
  | .raised => False
  | _ => True

structure Inv (s : State) : Prop where
  entry : ∀ i, s.entry = some i → i < s.nIno ∧ (s.inodes i).pub = true
  /-- the temporary names in the cache directory point to inodes that were never published -/
  tmps : ∀ i, i ∈ s.tmps → i < s.nIno ∧ (s.inodes i).pub = false
  dataLe : ∀ i, i < s.nIno → (s.inodes i).data ≤ s.ver
  procData : ∀ p, (s.procs p).pc ≠ .idle → (s.procs p).data ≤ s.ver
  pcs : ∀ p, pcInv s p (s.procs p).pc

/-- initial states: nobody is running; the entry name, if present, points to an existing inode;
    no temporary file is lying in the cache directory -/
structure Init (s : State) : Prop where
  idle : ∀ p, (s.procs p).pc = .idle
  entry : ∀ i, s.entry = some i → i < s.nIno ∧ (s.inodes i).pub = true
  tmps : s.tmps = []
  dataLe : ∀ i, i < s.nIno → (s.inodes i).data ≤ s.ver

theorem Init.inv {s : State} (h : Init s) : Inv s where
  entry := h.entry
  tmps := by intro i hi; rw [h.tmps] at hi; cases hi
  dataLe := h.dataLe
  procData := fun p hp => absurd (h.idle p) hp
  pcs := fun p => by rw [h.idle p]; trivial

/-- what a system call of `p` can change, as seen by everybody else -/
structure Frame (p : Nat) (s s' : State) : Prop where
  nIno : s.nIno ≤ s'.nIno
  ver : s'.ver = s.ver
  srcM : s'.srcM = s.srcM
  clock : s'.clock = s.clock
  others : ∀ q, q ≠ p → s'.procs q = s.procs q
  self : (s'.procs p).sver = (s.procs p).sver ∧ (s'.procs p).m0 = (s.procs p).m0
  /-- only a private temp inode of `p` changes, and then only its length, mtime and pub flag -/
  inodes : ∀ i, i < s.nIno →
    (s'.inodes i).data = (s.inodes i).data ∧ (s'.inodes i).sver = (s.inodes i).sver ∧
    (s'.inodes i).owner = (s.inodes i).owner ∧
    (((s.inodes i).owner = p ∧ (s.inodes i).pub = false) ∨ s'.inodes i = s.inodes i)

theorem Frame.pcInv_other {p q : Nat} {s s' : State} (hf : Frame p s s') (hq : q ≠ p) (pc : PC)
    (h : pcInv s q pc) : pcInv s' q pc := by
  have ho := hf.others q hq
  have key : ∀ i, Owned s q i → Owned s' q i ∧ s'.inodes i = s.inodes i := by
    intro i ⟨h1, h2, h3, h4, h5⟩
    obtain ⟨a, b, c, d⟩ := hf.inodes i h1
    have e : s'.inodes i = s.inodes i := by
      rcases d with ⟨d1, _⟩ | d
      · exact absurd (h3 ▸ d1) hq
      · exact d
    refine ⟨⟨Nat.lt_of_lt_of_le h1 hf.nIno, ?_, ?_, ?_, ?_⟩, e⟩ <;> simp [e, ho, h2, h3, h4, h5]
  have keyH : ∀ i v0, Held s i v0 → Held s' i v0 ∧ s'.inodes i = s.inodes i := by
    intro i v0 ⟨h1, h2, h3⟩
    obtain ⟨a, b, c, d⟩ := hf.inodes i h1
    have e : s'.inodes i = s.inodes i := by
      rcases d with ⟨_, d2⟩ | d
      · rw [h2] at d2; cases d2
      · exact d
    exact ⟨⟨Nat.lt_of_lt_of_le h1 hf.nIno, by rw [e]; exact h2, by rw [hf.ver]; exact h3⟩, e⟩
  cases pc with
  | sWrite i k =>
    obtain ⟨h1, h2, h3⟩ := h
    obtain ⟨a, e⟩ := key i h1
    exact ⟨a, h2, by rw [e]; exact h3⟩
  | sClose i =>
    obtain ⟨h1, h3⟩ := h
    obtain ⟨a, e⟩ := key i h1
    exact ⟨a, by rw [e]; exact h3⟩
  | sUtime i =>
    obtain ⟨h1, h3⟩ := h
    obtain ⟨a, e⟩ := key i h1
    exact ⟨a, by rw [e]; exact h3⟩
  | sRename i =>
    obtain ⟨h1, h3, h4⟩ := h
    obtain ⟨a, e⟩ := key i h1
    exact ⟨a, by rw [e]; exact h3, by rw [e, ho]; exact h4⟩
  | lFstat i v0 => exact (keyH i v0 h).1
  | lStatSrc i v0 m =>
    obtain ⟨h1, h2⟩ := h
    obtain ⟨a, e⟩ := keyH i v0 h1
    exact ⟨a, by rw [e]; exact h2⟩
  | lRead i v0 m sm =>
    obtain ⟨h1, h2, h3, vs, h4, h5, h6⟩ := h
    obtain ⟨a, e⟩ := keyH i v0 h1
    exact ⟨a, by rw [e]; exact h2, h3, vs, h4, by rw [hf.ver]; exact h5, by rw [hf.srcM]; exact h6⟩
  | done r => cases r <;> exact h
  | raised => exact h
  | _ => trivial

theorem frame_simple (p : Nat) (s s' : State) (pr' : Proc) (h1 : s'.nIno = s.nIno) (h2 : s'.ver = s.ver)
    (h3 : s'.srcM = s.srcM) (h4 : s'.clock = s.clock) (h5 : s'.inodes = s.inodes)
    (h6 : s'.procs = upd s.procs p pr') (h7 : pr'.sver = (s.procs p).sver) (h8 : pr'.m0 = (s.procs p).m0) :
    Frame p s s' where
  nIno := by rw [h1]; exact Nat.le_refl _
  ver := h2
  srcM := h3
  clock := h4
  others := fun q hq => by rw [h6, upd_other _ _ _ _ hq]
  self := by rw [h6]; simp [h7, h8]
  inodes := fun i _ => by rw [h5]; exact ⟨rfl, rfl, rfl, Or.inr rfl⟩

theorem frame_setPc (s : State) (p : Nat) (pc : PC) : Frame p s (s.setPc p pc) :=
  frame_simple p s _ _ rfl rfl rfl rfl rfl rfl rfl rfl

theorem frame_refl (s : State) (p : Nat) : Frame p s s where
  nIno := Nat.le_refl _
  ver := rfl
  srcM := rfl
  clock := rfl
  others := fun _ _ => rfl
  self := ⟨rfl, rfl⟩
  inodes := fun _ _ => ⟨rfl, rfl, rfl, Or.inr rfl⟩

theorem frame_unlinkName (s : State) (p : Nat) (n : Name) (pc : PC) : Frame p s ((unlinkName s n).setPc p pc) := by
  cases n <;> exact frame_simple p s _ _ rfl rfl rfl rfl rfl rfl rfl rfl

/-- a private inode of `p` is modified (length / mtime / pub flag) -/
theorem frame_inode (p : Nat) (s s' : State) (pr' : Proc) (i : Nat) (n : Inode)
    (ho : (s.inodes i).owner = p) (hpub : (s.inodes i).pub = false)
    (h1 : s'.nIno = s.nIno) (h2 : s'.ver = s.ver)
    (h3 : s'.srcM = s.srcM) (h4 : s'.clock = s.clock) (h5 : s'.inodes = upd s.inodes i n)
    (h6 : s'.procs = upd s.procs p pr') (h7 : pr'.sver = (s.procs p).sver) (h8 : pr'.m0 = (s.procs p).m0)
    (hn : n.data = (s.inodes i).data ∧ n.sver = (s.inodes i).sver ∧ n.owner = (s.inodes i).owner) :
    Frame p s s' where
  nIno := by rw [h1]; exact Nat.le_refl _
  ver := h2
  srcM := h3
  clock := h4
  others := fun q hq => by rw [h6, upd_other _ _ _ _ hq]
  self := by rw [h6]; simp [h7, h8]
  inodes := fun j _ => by
    rw [h5]
    by_cases e : j = i
    · subst e; simp [hn, ho, hpub]
    · simp [upd_other _ _ _ _ e]

theorem stepProc_frame (s : State) (p : Nat) (h : Inv s) : Frame p s (stepProc s p) := by
  have hp := h.pcs p
  cases hpc : (s.procs p).pc <;> simp only [stepProc, hpc] <;> rw [hpc] at hp
  all_goals (try (exact False.elim hp))
  case sParse => exact frame_simple p s _ _ rfl rfl rfl rfl rfl rfl rfl rfl
  case sMkstemp =>
    refine ⟨Nat.le_succ _, rfl, rfl, rfl, fun q hq => by simp [upd_other _ _ _ _ hq], by simp, ?_⟩
    intro i hi
    have : i ≠ s.nIno := Nat.ne_of_lt hi
    simp [upd_other _ _ _ _ this]
  case sWrite i k =>
    obtain ⟨⟨h1, h2, h3, h4, h5⟩, _, _⟩ := hp
    exact frame_inode p s _ _ i _ h3 h2 rfl rfl rfl rfl rfl rfl rfl rfl ⟨rfl, rfl, rfl⟩
  case sUtime i =>
    obtain ⟨⟨h1, h2, h3, h4, h5⟩, _⟩ := hp
    split
    · exact frame_inode p s _ _ i _ h3 h2 rfl rfl rfl rfl rfl rfl rfl rfl ⟨rfl, rfl, rfl⟩
    · split <;> exact frame_setPc _ _ _
  case sRename i =>
    obtain ⟨⟨h1, h2, h3, h4, h5⟩, _⟩ := hp
    split
    · exact frame_inode p s _ _ i _ h3 h2 rfl rfl rfl rfl rfl rfl rfl rfl ⟨rfl, rfl, rfl⟩
    · split <;> exact frame_setPc _ _ _
  case sUnlinkTmp i =>
    split
    · exact frame_simple p s _ _ rfl rfl rfl rfl rfl rfl rfl rfl
    · split <;> exact frame_setPc _ _ _
  case cUnlink todo =>
    cases todo with
    | nil => exact frame_setPc _ _ _
    | cons n rest =>
      simp only
      split
      · exact frame_unlinkName _ _ _ _
      · split <;> exact frame_setPc _ _ _
  all_goals (try (split <;> (try split) <;> (try split) <;> first | exact frame_setPc _ _ _ | exact frame_simple p s _ _ rfl rfl rfl rfl rfl rfl rfl rfl))
  all_goals (try exact frame_setPc _ _ _)
  all_goals (try exact frame_refl _ _)
  all_goals (try exact frame_simple p s _ _ rfl rfl rfl rfl rfl rfl rfl rfl)

theorem stepProc_self (s : State) (p : Nat) (h : Inv s) :
    pcInv (stepProc s p) p ((stepProc s p).procs p).pc := by
  have hp := h.pcs p
  have he := h.entry
  have hd := h.dataLe
  cases hpc : (s.procs p).pc <;> rw [hpc] at hp <;>
    simp only [stepProc, hpc, statEntryCatchesENOENT, openCatchesENOENT, unpickleCatchesAll, brokenIsUnlinked,
      unlinkCatchesENOENT, stampCatchesENOENT, loadByFd, utimeCatchesENOENT, moveCatchesENOENT, if_true]
  all_goals (try (exact False.elim hp))
  case cUnlink todo =>
    cases todo with
    | nil => simp [State.setPc, pcInv]
    | cons n rest =>
      simp only
      split <;> (split <;> simp [State.setPc, pcInv, unlinkName]) <;> (cases n <;> simp [State.setPc, pcInv, unlinkName])
  all_goals (try (split <;> (try split)))
  all_goals (try simp [State.setPc, pcInv])
  case sMkstemp => simp [Owned, full]
  case sWrite.isTrue i k hk =>
    simp only [pcInv, Owned] at hp
    simp [Owned, hp, hk]
  case sWrite.isFalse i k hk =>
    simp only [pcInv, Owned] at hp
    simp [Owned, hp]; omega
  case sClose i =>
    simp only [pcInv, Owned] at hp
    simp [Owned, hp]
  case sUtime.isTrue i hc =>
    simp only [pcInv, Owned] at hp
    simp [Owned, hp]
  case h_2 i hi =>
    have := he i hi
    simp [Held, this]
  case lFstat i v0 =>
    simpa [pcInv, Held] using hp
  case lStatSrc.isFalse i v0 m hs =>
    simp only [pcInv, Held] at hp
    simp [loadStale] at hs
    simp [Held, hp]
    exact ⟨by rw [← hp.2]; exact hs.symm, s.ver, hp.1.2.2, Nat.le_refl _, rfl⟩
  case lRead.isTrue i v0 m sm hc =>
    simp only [pcInv, Held] at hp
    obtain ⟨⟨h1, h2, h3⟩, h4, h5, _⟩ := hp
    exact ⟨by simpa [Inode.complete] using hc, by omega, h3, hd i h1⟩
  case done r => cases r <;> simp [pcInv] at hp ⊢ <;> exact hp

theorem mem_filter_ne {l : List Nat} {i j : Nat} (h : j ∈ l.filter (· != i)) : j ∈ l ∧ j ≠ i := by
  simpa using h

/-- how a system call can change what the entry name points to -/
theorem stepProc_entry_cases (s : State) (p : Nat) (h : Inv s) :
    (stepProc s p).entry = s.entry ∨ (stepProc s p).entry = none ∨
      ∃ i, (s.procs p).pc = .sRename i ∧ i ∈ s.tmps ∧ (stepProc s p).entry = some i := by
  have hp := h.pcs p
  cases hpc : (s.procs p).pc <;> rw [hpc] at hp <;> simp only [stepProc, hpc]
  all_goals (try (exact False.elim hp))
  case cUnlink todo =>
    cases todo with
    | nil => left; rfl
    | cons n rest =>
      simp only
      split
      · cases n
        · right; left; rfl
        · left; rfl
      · split <;> (left; rfl)
  case sRename i =>
    split
    · rename_i hc
      right; right; exact ⟨i, rfl, by simpa using hc, rfl⟩
    · split <;> (left; rfl)
  all_goals (try (split <;> (try split) <;> (try split)))
  all_goals (try (left; first | rfl | trivial))
  all_goals (try (right; left; rfl))

theorem stepProc_entry (s : State) (p : Nat) (h : Inv s) (i : Nat) (hi : (stepProc s p).entry = some i) :
    i < (stepProc s p).nIno ∧ ((stepProc s p).inodes i).pub = true := by
  have hf := stepProc_frame s p h
  rcases stepProc_entry_cases s p h with a | a | ⟨j, a, b, c⟩
  · rw [a] at hi
    obtain ⟨h1, h2⟩ := h.entry i hi
    refine ⟨Nat.lt_of_lt_of_le h1 hf.nIno, ?_⟩
    rcases (hf.inodes i h1).2.2.2 with ⟨_, d⟩ | d
    · rw [h2] at d; cases d
    · rw [d]; exact h2
  · rw [a] at hi; cases hi
  · have e : j = i := by rw [c] at hi; exact Option.some.inj hi
    subst e
    have hc : s.tmps.contains j = true := by simpa using b
    have hj := (h.tmps j b).1
    simp only [stepProc, a, hc, if_true, upd_same]
    exact ⟨hj, trivial⟩

theorem stepProc_tmps (s : State) (p : Nat) (h : Inv s) (j : Nat) (hj : j ∈ (stepProc s p).tmps) :
    j < (stepProc s p).nIno ∧ ((stepProc s p).inodes j).pub = false := by
  have hp := h.pcs p
  have ht := h.tmps
  revert hj
  cases hpc : (s.procs p).pc <;> rw [hpc] at hp <;> simp only [stepProc, hpc]
  all_goals (try (exact False.elim hp))
  case sMkstemp =>
    intro hj
    simp only [List.mem_append, List.mem_singleton] at hj
    rcases hj with hj | hj
    · obtain ⟨a, b⟩ := ht j hj
      have : j ≠ s.nIno := Nat.ne_of_lt a
      simp [upd_other _ _ _ _ this, b]; omega
    · subst hj; simp
  case sWrite i k =>
    intro hj
    obtain ⟨a, b⟩ := ht j hj
    by_cases e : j = i
    · subst e; simp [a, b]
    · simp [upd_other _ _ _ _ e, a, b]
  case sUtime i =>
    split
    · intro hj
      obtain ⟨a, b⟩ := ht j hj
      by_cases e : j = i
      · subst e; simp [a, b]
      · simp [upd_other _ _ _ _ e, a, b]
    · split <;> exact ht j
  case sRename i =>
    split
    · intro hj
      obtain ⟨hj1, e⟩ := mem_filter_ne hj
      obtain ⟨a, b⟩ := ht j hj1
      simp [upd_other _ _ _ _ e, a, b]
    · split <;> exact ht j
  case sUnlinkTmp i =>
    split
    · intro hj
      exact ht j (mem_filter_ne hj).1
    · split <;> exact ht j
  case cUnlink todo =>
    cases todo with
    | nil => exact ht j
    | cons n rest =>
      simp only
      split
      · cases n
        · exact ht j
        · intro hj; exact ht j (mem_filter_ne hj).1
      · split <;> exact ht j
  all_goals (try (split <;> (try split) <;> (try split)))
  all_goals (try exact ht j)

theorem stepProc_selfData (s : State) (p : Nat) :
    ((stepProc s p).procs p).data = (s.procs p).data ∨ ((stepProc s p).procs p).data = s.ver := by
  cases hpc : (s.procs p).pc <;> simp only [stepProc, hpc]
  case sParse => right; simp
  case cUnlink todo =>
    cases todo with
    | nil => left; simp [State.setPc]
    | cons n rest =>
      simp only
      split
      · cases n <;> (left; simp [State.setPc, unlinkName])
      · split <;> (left; simp [State.setPc])
  all_goals (try (split <;> (try split) <;> (try split)))
  all_goals (left; simp [State.setPc])

theorem stepProc_dataLe (s : State) (p : Nat) (h : Inv s) (i : Nat) (hi : i < (stepProc s p).nIno) :
    ((stepProc s p).inodes i).data ≤ (stepProc s p).ver := by
  have hf := stepProc_frame s p h
  by_cases hlt : i < s.nIno
  · rw [(hf.inodes i hlt).1, hf.ver]; exact h.dataLe i hlt
  · revert hi
    have hpd := h.procData p
    have hp := h.pcs p
    cases hpc : (s.procs p).pc <;> rw [hpc] at hp <;> simp only [stepProc, hpc]
    all_goals (try (exact False.elim hp))
    case sMkstemp =>
      intro hi
      have : i = s.nIno := by omega
      subst this
      simp
      exact hpd (by rw [hpc]; simp)
    case cUnlink todo =>
      cases todo with
      | nil => intro hi; exact absurd hi hlt
      | cons n rest =>
        simp only
        split
        · cases n <;> (intro hi; exact absurd hi hlt)
        · split <;> (intro hi; exact absurd hi hlt)
    all_goals (try (split <;> (try split) <;> (try split)))
    all_goals (try (simp only [State.setPc]; intro hi; exact absurd hi hlt))
    all_goals (try (intro hi; exact absurd hi hlt))

theorem stepProc_procData (s : State) (p : Nat) (h : Inv s) (q : Nat)
    (hq : ((stepProc s p).procs q).pc ≠ .idle) : ((stepProc s p).procs q).data ≤ (stepProc s p).ver := by
  have hf := stepProc_frame s p h
  rw [hf.ver]
  by_cases e : q = p
  · subst e
    rcases stepProc_selfData s q with a | a
    · rw [a]
      apply h.procData
      intro hi
      apply hq
      simp [stepProc, hi]
    · rw [a]; exact Nat.le_refl _
  · rw [hf.others q e] at hq ⊢
    exact h.procData q hq

theorem stepProc_inv (s : State) (p : Nat) (h : Inv s) : Inv (stepProc s p) where
  entry := stepProc_entry s p h
  tmps := stepProc_tmps s p h
  dataLe := stepProc_dataLe s p h
  procData := stepProc_procData s p h
  pcs := fun q => by
    by_cases e : q = p
    · subst e; exact stepProc_self s q h
    · have hf := stepProc_frame s p h
      rw [hf.others q e]
      exact hf.pcInv_other e _ (h.pcs q)

/-- monotonicity of `pcInv` under environment changes that keep the file system -/
theorem pcInv_env (s s' : State) (q : Nat) (pc : PC)
    (h1 : s'.nIno = s.nIno) (h2 : s'.inodes = s.inodes) (h3 : s.ver ≤ s'.ver)
    (h4 : ∀ v, v ≤ s.ver → s'.srcM v = s.srcM v)
    (h5 : (s'.procs q).data = (s.procs q).data ∧ (s'.procs q).sver = (s.procs q).sver ∧
      (s'.procs q).m0 = (s.procs q).m0)
    (h : pcInv s q pc) : pcInv s' q pc := by
  have ko : ∀ i, Owned s q i → Owned s' q i := by
    intro i ⟨a, b, c, d, e⟩
    exact ⟨by rw [h1]; exact a, by rw [h2]; exact b, by rw [h2]; exact c, by rw [h2, h5.1]; exact d,
      by rw [h2, h5.2.1]; exact e⟩
  have kh : ∀ i v0, Held s i v0 → Held s' i v0 := by
    intro i v0 ⟨a, b, c⟩
    exact ⟨by rw [h1]; exact a, by rw [h2]; exact b, Nat.le_trans c h3⟩
  cases pc with
  | sWrite i k => exact ⟨ko i h.1, h.2.1, by rw [h2]; exact h.2.2⟩
  | sClose i => exact ⟨ko i h.1, by rw [h2]; exact h.2⟩
  | sUtime i => exact ⟨ko i h.1, by rw [h2]; exact h.2⟩
  | sRename i => exact ⟨ko i h.1, by rw [h2]; exact h.2.1, by rw [h2, h5.2.2]; exact h.2.2⟩
  | lFstat i v0 => exact kh i v0 h
  | lStatSrc i v0 m => exact ⟨kh i v0 h.1, by rw [h2]; exact h.2⟩
  | lRead i v0 m sm =>
    obtain ⟨a, b, c, vs, d, e, f⟩ := h
    exact ⟨kh i v0 a, by rw [h2]; exact b, c, vs, d, Nat.le_trans e h3, by rw [h4 vs e]; exact f⟩
  | done r => cases r <;> exact h
  | raised => exact h
  | _ => trivial

theorem step_inv (s : State) (e : Ev) (h : Inv s) : Inv (step s e) := by
  cases e with
  | step p => exact stepProc_inv s p h
  | spawn p op sv =>
    simp only [step]
    split
    · rename_i hidle
      refine ⟨h.entry, h.tmps, h.dataLe, ?_, ?_⟩
      · intro q hq
        by_cases e : q = p
        · subst e; simp
        · simp only [upd_other _ _ _ _ e] at hq ⊢; exact h.procData q hq
      · intro q
        by_cases e : q = p
        · subst e; cases op <;> simp [firstPc, pcInv]
        · simp only [upd_other _ _ _ _ e]
          exact pcInv_env s _ q _ rfl rfl (Nat.le_refl _) (fun _ _ => rfl)
            (by simp [upd_other _ _ _ _ e]) (h.pcs q)
    · exact h
  | crash p =>
    simp only [step]
    split
    · refine ⟨h.entry, h.tmps, h.dataLe, ?_, ?_⟩
      · intro q hq
        by_cases e : q = p
        · subst e
          simp only [State.setPc, upd_same]
          apply h.procData
          intro hi; rename_i hr; rw [hi] at hr; cases hr
        · simp only [State.setPc, upd_other _ _ _ _ e] at hq ⊢; exact h.procData q hq
      · intro q
        by_cases e : q = p
        · subst e; simp [State.setPc, pcInv]
        · simp only [State.setPc, upd_other _ _ _ _ e]
          exact pcInv_env s _ q _ rfl rfl (Nat.le_refl _) (fun _ _ => rfl)
            (by simp [upd_other _ _ _ _ e]) (h.pcs q)
    · exact h
  | modify t =>
    simp only [step]
    refine ⟨h.entry, h.tmps, fun i hi => Nat.le_succ_of_le (h.dataLe i hi),
      fun q hq => Nat.le_succ_of_le (h.procData q hq), ?_⟩
    intro q
    exact pcInv_env s _ q _ rfl rfl (Nat.le_succ _)
      (fun v hv => upd_other _ _ _ _ (by omega)) ⟨rfl, rfl, rfl⟩ (h.pcs q)
  | replace m =>
    simp only [step]
    refine ⟨h.entry, h.tmps, fun i hi => Nat.le_succ_of_le (h.dataLe i hi),
      fun q hq => Nat.le_succ_of_le (h.procData q hq), ?_⟩
    intro q
    exact pcInv_env s _ q _ rfl rfl (Nat.le_succ _)
      (fun v hv => upd_other _ _ _ _ (by omega)) ⟨rfl, rfl, rfl⟩ (h.pcs q)
  | tick =>
    simp only [step]
    refine ⟨h.entry, h.tmps, h.dataLe, h.procData, ?_⟩
    intro q
    exact pcInv_env s _ q _ rfl rfl (Nat.le_refl _) (fun _ _ => rfl) ⟨rfl, rfl, rfl⟩ (h.pcs q)

theorem run_inv (s : State) (evs : List Ev) (h : Inv s) : Inv (run s evs) := by
  induction evs generalizing s with
  | nil => exact h
  | cons e es ih => exact ih (step s e) (step_inv s e h)

theorem run_append (s : State) (a b : List Ev) : run s (a ++ b) = run (run s a) b := by
  simp [run, List.foldl_append]

theorem run_cons (s : State) (e : Ev) (es : List Ev) : run s (e :: es) = run (step s e) es := rfl

/-! ### freshness -/

/-- the program points of a store after the source has been read -/
def PC.parsed : PC → Bool
  | .sStatEntry | .sStatSrc _ | .sMkstemp | .sWrite _ _ | .sClose _ | .sUtime _ | .sRename _ => true
  | _ => false

/-- the freshness invariant: a published complete pickle that carries the mtime the source has
    NOW is the parse of the current version (and the same for what a store is about to publish) -/
structure InvF (s : State) : Prop where
  pubStamp : ∀ i, i < s.nIno → (s.inodes i).pub = true → ∃ v, v ≤ s.ver ∧ (s.inodes i).mtime = s.srcM v
  procStamp : ∀ p, (s.procs p).pc ≠ .idle → ∃ v, v ≤ s.ver ∧ (s.procs p).m0 = s.srcM v
  cur : ∀ i, i < s.nIno → (s.inodes i).pub = true → (s.inodes i).len = full →
    (s.inodes i).mtime = s.srcM s.ver → (s.inodes i).data = s.ver
  proc : ∀ p, (s.procs p).pc.parsed = true → (s.procs p).m0 = s.srcM s.ver → (s.procs p).data = s.ver
  reads : ∀ p i v0 m sm, (s.procs p).pc = .lRead i v0 m sm → (s.inodes i).len = full → v0 ≤ (s.inodes i).data
  rets : ∀ p r, (s.procs p).pc = .done (some r) → r.vStart ≤ r.data

theorem newMtimeOK_spec (s : State) (c : Nat) (h : newMtimeOK s c = true) : ∀ v, v ≤ s.ver → s.srcM v ≠ c := by
  intro v hv
  simp only [newMtimeOK, List.all_eq_true, List.mem_range] at h
  have := h v (by omega)
  simpa using this

/-- a new source version with a fresh mtime `c` -/
theorem invF_newVersion (s : State) (c : Nat) (clock' : Nat) (hf : InvF s) (hc : ∀ v, v ≤ s.ver → s.srcM v ≠ c) :
    InvF { s with clock := clock', ver := s.ver + 1, srcM := upd s.srcM (s.ver + 1) c } where
  pubStamp := by
    intro i hi hp
    obtain ⟨v, hv, e⟩ := hf.pubStamp i hi hp
    exact ⟨v, Nat.le_succ_of_le hv, by simp only [upd_other _ _ _ _ (show v ≠ s.ver + 1 by omega)]; exact e⟩
  procStamp := by
    intro p hp
    obtain ⟨v, hv, e⟩ := hf.procStamp p hp
    exact ⟨v, Nat.le_succ_of_le hv, by simp only [upd_other _ _ _ _ (show v ≠ s.ver + 1 by omega)]; exact e⟩
  cur := by
    intro i hi hp _ hm
    obtain ⟨v, hv, e⟩ := hf.pubStamp i hi hp
    simp only [upd_same] at hm
    exact absurd (e.symm.trans hm) (hc v hv)
  proc := by
    intro p hp hm
    have hne : (s.procs p).pc ≠ .idle := by intro hi; rw [hi] at hp; cases hp
    obtain ⟨v, hv, e⟩ := hf.procStamp p hne
    simp only [upd_same] at hm
    exact absurd (e.symm.trans hm) (hc v hv)
  reads := hf.reads
  rets := hf.rets

theorem setPc_done (s : State) (p q : Nat) (pc : PC) (r : Ret) (hne : pc ≠ .done (some r))
    (h : ((s.setPc p pc).procs q).pc = .done (some r)) : (s.procs q).pc = .done (some r) := by
  by_cases e : q = p
  · subst e; simp [State.setPc] at h; exact absurd h hne
  · simpa [State.setPc, upd_other _ _ _ _ e] using h

theorem upd_done (s : State) (p q : Nat) (pr : Proc) (r : Ret) (hne : pr.pc ≠ .done (some r))
    (h : ((upd s.procs p pr) q).pc = .done (some r)) : (s.procs q).pc = .done (some r) := by
  by_cases e : q = p
  · subst e; simp at h; exact absurd h hne
  · simpa [upd_other _ _ _ _ e] using h

/-- which inodes a system call publishes -/
theorem stepProc_pub (s : State) (p : Nat) (h : Inv s) (i : Nat) (hi : i < (stepProc s p).nIno)
    (hpub : ((stepProc s p).inodes i).pub = true) :
    (i < s.nIno ∧ (s.inodes i).pub = true ∧ (stepProc s p).inodes i = s.inodes i) ∨
    (i < s.nIno ∧ (s.procs p).pc = .sRename i ∧ (stepProc s p).inodes i = { s.inodes i with pub := true }) := by
  have hf := stepProc_frame s p h
  by_cases hlt : i < s.nIno
  · by_cases hb : (s.inodes i).pub = true
    · left
      refine ⟨hlt, hb, ?_⟩
      rcases (hf.inodes i hlt).2.2.2 with ⟨_, d⟩ | d
      · rw [hb] at d; cases d
      · exact d
    · right
      revert hpub
      have hp := h.pcs p
      cases hpc : (s.procs p).pc <;> rw [hpc] at hp <;> simp only [stepProc, hpc]
      all_goals (try (exact False.elim hp))
      case sMkstemp =>
        have : i ≠ s.nIno := Nat.ne_of_lt hlt
        simp only [upd_other _ _ _ _ this]; intro hpub; exact absurd hpub hb
      case sWrite j k =>
        by_cases e : i = j
        · subst e; simp only [upd_same]; intro hpub; exact absurd hpub hb
        · simp only [upd_other _ _ _ _ e]; intro hpub; exact absurd hpub hb
      case sUtime j =>
        split
        · by_cases e : i = j
          · subst e; simp only [upd_same]; intro hpub; exact absurd hpub hb
          · simp only [upd_other _ _ _ _ e]; intro hpub; exact absurd hpub hb
        · split <;> (intro hpub; exact absurd hpub hb)
      case sRename j =>
        split
        · by_cases e : i = j
          · subst e; simp only [upd_same]; intro _; exact ⟨hlt, trivial, trivial⟩
          · simp only [upd_other _ _ _ _ e]; intro hpub; exact absurd hpub hb
        · split <;> (intro hpub; exact absurd hpub hb)
      case cUnlink todo =>
        cases todo with
        | nil => intro hpub; exact absurd hpub hb
        | cons n rest =>
          simp only
          split
          · cases n <;> (intro hpub; exact absurd hpub hb)
          · split <;> (intro hpub; exact absurd hpub hb)
      all_goals (try (split <;> (try split) <;> (try split)))
      all_goals (try (intro hpub; exact absurd hpub hb))
  · exfalso
    revert hi hpub
    have hp := h.pcs p
    cases hpc : (s.procs p).pc <;> rw [hpc] at hp <;> simp only [stepProc, hpc]
    all_goals (try (exact False.elim hp))
    case sMkstemp =>
      intro hi
      have : i = s.nIno := by omega
      subst this
      simp
    case cUnlink todo =>
      cases todo with
      | nil => intro hi; exact absurd hi hlt
      | cons n rest =>
        simp only
        split
        · cases n <;> (intro hi; exact absurd hi hlt)
        · split <;> (intro hi; exact absurd hi hlt)
    all_goals (try (split <;> (try split) <;> (try split)))
    all_goals (try (intro hi; exact absurd hi hlt))

/-- a step that changes only the record of process `p` (and possibly names in the directory) -/
theorem invF_procOnly (s s' : State) (p : Nat) (pr' : Proc) (hf : InvF s)
    (h1 : s'.nIno = s.nIno) (h2 : s'.inodes = s.inodes) (h3 : s'.ver = s.ver) (h4 : s'.srcM = s.srcM)
    (h6 : s'.procs = upd s.procs p pr') (hm0 : pr'.m0 = (s.procs p).m0)
    (hidle : pr'.pc ≠ .idle → (s.procs p).pc ≠ .idle)
    (hproc : pr'.pc.parsed = true → pr'.m0 = s.srcM s.ver → pr'.data = s.ver)
    (hreads : ∀ i v0 m sm, pr'.pc = .lRead i v0 m sm → (s.inodes i).len = full → v0 ≤ (s.inodes i).data)
    (hrets : ∀ r, pr'.pc = .done (some r) → r.vStart ≤ r.data) : InvF s' where
  pubStamp := by rw [h1, h2, h3, h4]; exact hf.pubStamp
  procStamp := by
    intro q hq
    rw [h3, h4]
    by_cases e : q = p
    · subst e
      rw [h6] at hq ⊢
      simp only [upd_same] at hq ⊢
      rw [hm0]; exact hf.procStamp q (hidle hq)
    · rw [h6, upd_other _ _ _ _ e] at hq ⊢; exact hf.procStamp q hq
  cur := by rw [h1, h2, h3, h4]; exact hf.cur
  proc := by
    intro q hq
    rw [h3, h4]
    by_cases e : q = p
    · subst e
      rw [h6] at hq ⊢
      simp only [upd_same] at hq ⊢
      exact hproc hq
    · rw [h6, upd_other _ _ _ _ e] at hq ⊢; exact hf.proc q hq
  reads := by
    intro q i v0 m sm hq
    rw [h2]
    by_cases e : q = p
    · subst e
      rw [h6] at hq
      simp only [upd_same] at hq
      exact hreads i v0 m sm hq
    · rw [h6, upd_other _ _ _ _ e] at hq; exact hf.reads q i v0 m sm hq
  rets := by
    intro q r hq
    by_cases e : q = p
    · subst e
      rw [h6] at hq
      simp only [upd_same] at hq
      exact hrets r hq
    · rw [h6, upd_other _ _ _ _ e] at hq; exact hf.rets q r hq

/-- a store step that creates or modifies an inode that is not published -/
theorem invF_private (s s' : State) (p i : Nat) (n : Inode) (pr' : Proc) (h : Inv s) (hf : InvF s)
    (hn : ∀ j, j < s'.nIno → j < s.nIno ∨ j = i)
    (hi : s'.inodes = upd s.inodes i n) (hnp : n.pub = false) (hip : i < s.nIno → (s.inodes i).pub = false)
    (h3 : s'.ver = s.ver) (h4 : s'.srcM = s.srcM)
    (h6 : s'.procs = upd s.procs p pr') (hm0 : pr'.m0 = (s.procs p).m0)
    (hidle : pr'.pc ≠ .idle → (s.procs p).pc ≠ .idle)
    (hproc : pr'.pc.parsed = true → pr'.m0 = s.srcM s.ver → pr'.data = s.ver)
    (hnoread : ∀ j v0 m sm, pr'.pc ≠ .lRead j v0 m sm)
    (hnodone : ∀ r, pr'.pc ≠ .done (some r)) : InvF s' where
  pubStamp := by
    intro j hj hp
    rw [h3, h4]
    rw [hi] at hp ⊢
    by_cases e : j = i
    · subst e; simp only [upd_same] at hp; rw [hnp] at hp; cases hp
    · simp only [upd_other _ _ _ _ e] at hp ⊢
      rcases hn j hj with a | a
      · exact hf.pubStamp j a hp
      · exact absurd a e
  procStamp := by
    intro q hq
    rw [h3, h4]
    by_cases e : q = p
    · subst e
      rw [h6] at hq ⊢
      simp only [upd_same] at hq ⊢
      rw [hm0]; exact hf.procStamp q (hidle hq)
    · rw [h6, upd_other _ _ _ _ e] at hq ⊢; exact hf.procStamp q hq
  cur := by
    intro j hj hp
    rw [h3, h4]
    rw [hi] at hp ⊢
    by_cases e : j = i
    · subst e; simp only [upd_same] at hp; rw [hnp] at hp; cases hp
    · simp only [upd_other _ _ _ _ e] at hp ⊢
      rcases hn j hj with a | a
      · exact hf.cur j a hp
      · exact absurd a e
  proc := by
    intro q hq
    rw [h3, h4]
    by_cases e : q = p
    · subst e
      rw [h6] at hq ⊢
      simp only [upd_same] at hq ⊢
      exact hproc hq
    · rw [h6, upd_other _ _ _ _ e] at hq ⊢; exact hf.proc q hq
  reads := by
    intro q j v0 m sm hq
    by_cases e : q = p
    · subst e
      rw [h6] at hq
      simp only [upd_same] at hq
      exact absurd hq (hnoread j v0 m sm)
    · rw [h6, upd_other _ _ _ _ e] at hq
      have hh := h.pcs q
      rw [hq] at hh
      obtain ⟨⟨a, b, _⟩, _⟩ := hh
      have e2 : j ≠ i := by
        intro e2; subst e2; rw [hip a] at b; cases b
      rw [hi, upd_other _ _ _ _ e2]
      exact hf.reads q j v0 m sm hq
  rets := by
    intro q r hq
    by_cases e : q = p
    · subst e
      rw [h6] at hq
      simp only [upd_same] at hq
      exact absurd hq (hnodone r)
    · rw [h6, upd_other _ _ _ _ e] at hq; exact hf.rets q r hq

/-- the publishing rename -/
theorem invF_publish (s : State) (p i : Nat) (h : Inv s) (hf : InvF s) (hpc : (s.procs p).pc = .sRename i)
    (s' : State) (h1 : s'.nIno = s.nIno) (h2 : s'.inodes = upd s.inodes i { s.inodes i with pub := true })
    (h3 : s'.ver = s.ver) (h4 : s'.srcM = s.srcM)
    (h6 : s'.procs = upd s.procs p { s.procs p with pc := .done none }) : InvF s' := by
  have hp := h.pcs p
  rw [hpc] at hp
  obtain ⟨⟨o1, o2, o3, o4, o5⟩, hlen, hmt⟩ := hp
  have hne : (s.procs p).pc ≠ .idle := by rw [hpc]; simp
  have hpar : (s.procs p).pc.parsed = true := by rw [hpc]; rfl
  refine ⟨?_, ?_, ?_, ?_, ?_, ?_⟩
  · intro j hj hpub
    rw [h3, h4, h2]
    by_cases e : j = i
    · subst e; simp only [upd_same]; rw [hmt]; exact hf.procStamp p hne
    · rw [h2, upd_other _ _ _ _ e] at hpub
      rw [upd_other _ _ _ _ e]; exact hf.pubStamp j (by rw [← h1]; exact hj) hpub
  · intro q hq
    rw [h3, h4]
    by_cases e : q = p
    · subst e; rw [h6]; simp only [upd_same]; exact hf.procStamp q hne
    · rw [h6, upd_other _ _ _ _ e] at hq ⊢; exact hf.procStamp q hq
  · intro j hj hpub hl hm
    rw [h3, h4] at hm
    rw [h3]
    by_cases e : j = i
    · subst e
      rw [h2] at hm ⊢
      simp only [upd_same] at hm ⊢
      rw [o4]; exact hf.proc p hpar (hmt ▸ hm)
    · rw [h2, upd_other _ _ _ _ e] at hpub hl hm ⊢
      exact hf.cur j (by rw [← h1]; exact hj) hpub hl hm
  · intro q hq
    rw [h3, h4]
    by_cases e : q = p
    · subst e; rw [h6] at hq; simp [PC.parsed] at hq
    · rw [h6, upd_other _ _ _ _ e] at hq ⊢; exact hf.proc q hq
  · intro q j v0 m sm hq
    by_cases e : q = p
    · subst e; rw [h6] at hq; simp at hq
    · rw [h6, upd_other _ _ _ _ e] at hq
      have hh := h.pcs q
      rw [hq] at hh
      obtain ⟨⟨a, b, _⟩, _⟩ := hh
      have e2 : j ≠ i := by
        intro e2; subst e2; rw [o2] at b; cases b
      rw [h2, upd_other _ _ _ _ e2]
      exact hf.reads q j v0 m sm hq
  · intro q r hq
    by_cases e : q = p
    · subst e; rw [h6] at hq; simp at hq
    · rw [h6, upd_other _ _ _ _ e] at hq; exact hf.rets q r hq

theorem stepProc_invF (s : State) (p : Nat) (h : Inv s) (hf : InvF s) : InvF (stepProc s p) := by
  have hp := h.pcs p
  have hproc : (s.procs p).pc.parsed = true → (s.procs p).m0 = s.srcM s.ver → (s.procs p).data = s.ver :=
    hf.proc p
  cases hpc : (s.procs p).pc <;> rw [hpc] at hp hproc <;>
    simp only [stepProc, hpc, statEntryCatchesENOENT, openCatchesENOENT, unpickleCatchesAll, brokenIsUnlinked,
      unlinkCatchesENOENT, stampCatchesENOENT, loadByFd, utimeCatchesENOENT, moveCatchesENOENT, if_true]
  all_goals (try (exact False.elim hp))
  case idle => exact hf
  case done r => exact hf
  case crashed => exact hf
  case sParse =>
    exact invF_procOnly s _ p _ hf rfl rfl rfl rfl rfl rfl (by intro _; rw [hpc]; simp) (fun _ _ => rfl)
      (by simp) (by simp)
  case sMkstemp =>
    refine invF_private s _ p s.nIno _ _ h hf ?_ rfl rfl ?_ rfl rfl rfl rfl (by intro _; rw [hpc]; simp)
      (fun _ hm => hproc rfl hm) (by simp) (by simp)
    · intro j hj; simp at hj; omega
    · intro hlt; exact absurd hlt (Nat.lt_irrefl _)
  case sWrite i k =>
    obtain ⟨⟨o1, o2, o3, o4, o5⟩, _, _⟩ := hp
    refine invF_private s _ p i _ _ h hf (fun j hj => Or.inl hj) rfl o2 (fun _ => o2) rfl rfl rfl rfl
      (by intro _; rw [hpc]; simp) ?_ ?_ ?_
    · intro _ hm; exact hproc rfl hm
    · intro j v0 m sm; split <;> simp
    · intro r; split <;> simp
  case sUtime i =>
    obtain ⟨⟨o1, o2, o3, o4, o5⟩, _⟩ := hp
    split
    · exact invF_private s _ p i _ _ h hf (fun j hj => Or.inl hj) rfl o2 (fun _ => o2) rfl rfl rfl rfl
        (by intro _; rw [hpc]; simp) (fun _ hm => hproc rfl hm) (by simp) (by simp)
    · exact invF_procOnly s _ p _ hf rfl rfl rfl rfl rfl rfl (by intro _; rw [hpc]; simp) (by simp [PC.parsed])
        (by simp) (by simp)
  case sRename i =>
    split
    · exact invF_publish s p i h hf hpc _ rfl rfl rfl rfl rfl
    · exact invF_procOnly s _ p _ hf rfl rfl rfl rfl rfl rfl (by intro _; rw [hpc]; simp) (by simp [PC.parsed])
        (by simp) (by simp)
  case lStatSrc i v0 m =>
    obtain ⟨⟨a1, a2, a3⟩, a4⟩ := hp
    split
    · exact invF_procOnly s _ p _ hf rfl rfl rfl rfl rfl rfl (by intro _; rw [hpc]; simp) (by simp [PC.parsed])
        (by simp) (by simp)
    · rename_i hs
      refine invF_procOnly s _ p _ hf rfl rfl rfl rfl rfl rfl (by intro _; rw [hpc]; simp) (by simp [PC.parsed])
        ?_ (by simp)
      intro i' v0' m' sm' heq hl
      simp only [PC.lRead.injEq] at heq
      obtain ⟨e1, e2, _, _⟩ := heq
      rw [← e1] at hl ⊢
      rw [← e2]
      simp [loadStale] at hs
      have := hf.cur i a1 a2 hl (by rw [← a4]; exact hs)
      omega
  case lRead i v0 m sm =>
    split
    · rename_i hc
      refine invF_procOnly s _ p _ hf rfl rfl rfl rfl rfl rfl (by intro _; rw [hpc]; simp) (by simp [PC.parsed])
        (by simp) ?_
      intro r heq
      simp only [PC.done.injEq, Option.some.injEq] at heq
      subst heq
      exact hf.reads p i v0 m sm hpc (by simpa [Inode.complete] using hc)
    · exact invF_procOnly s _ p _ hf rfl rfl rfl rfl rfl rfl (by intro _; rw [hpc]; simp) (by simp [PC.parsed])
        (by simp) (by simp)
  case cUnlink todo =>
    cases todo with
    | nil =>
      exact invF_procOnly s _ p _ hf rfl rfl rfl rfl rfl rfl (by intro _; rw [hpc]; simp) (by simp [PC.parsed])
        (by simp) (by simp)
    | cons n rest =>
      simp only
      split
      · cases n <;>
          exact invF_procOnly s _ p _ hf rfl rfl rfl rfl rfl rfl (by intro _; rw [hpc]; simp)
            (by split <;> simp [PC.parsed]) (by intro i v0 m sm; split <;> simp) (by intro r; split <;> simp)
      · exact invF_procOnly s _ p _ hf rfl rfl rfl rfl rfl rfl (by intro _; rw [hpc]; simp)
          (by split <;> simp [PC.parsed]) (by intro i v0 m sm; split <;> simp) (by intro r; split <;> simp)
  all_goals (try (split <;> (try split)))
  all_goals
    first
    | exact invF_procOnly s _ p _ hf rfl rfl rfl rfl rfl rfl (by intro _; rw [hpc]; simp)
        (fun _ hm => hproc rfl hm) (by simp) (by simp)
    | exact invF_procOnly s _ p _ hf rfl rfl rfl rfl rfl rfl (by intro _; rw [hpc]; simp) (by simp [PC.parsed])
        (by simp) (by simp)

theorem step_invF (s : State) (e : Ev) (h : Inv s) (hf : InvF s) (ok : evDistinct s e = true) :
    InvF (step s e) := by
  cases e with
  | step p => exact stepProc_invF s p h hf
  | spawn p op sv =>
    simp only [step]
    split
    · refine ⟨hf.pubStamp, ?_, hf.cur, ?_, ?_, ?_⟩
      · intro q hq
        by_cases e : q = p
        · subst e; simp only [upd_same]; exact ⟨s.ver, Nat.le_refl _, rfl⟩
        · simp only [upd_other _ _ _ _ e] at hq ⊢; exact hf.procStamp q hq
      · intro q hq
        by_cases e : q = p
        · subst e; simp only [upd_same] at hq; cases op <;> simp [firstPc, PC.parsed] at hq
        · simp only [upd_other _ _ _ _ e] at hq ⊢; exact hf.proc q hq
      · intro q i v0 m sm hq
        by_cases e : q = p
        · subst e; simp only [upd_same] at hq; cases op <;> simp [firstPc] at hq
        · simp only [upd_other _ _ _ _ e] at hq; exact hf.reads q i v0 m sm hq
      · intro q r hq
        by_cases e : q = p
        · subst e; simp only [upd_same] at hq; cases op <;> simp [firstPc] at hq
        · simp only [upd_other _ _ _ _ e] at hq; exact hf.rets q r hq
    · exact hf
  | crash p =>
    simp only [step]
    split
    · rename_i hr
      exact invF_procOnly s _ p _ hf rfl rfl rfl rfl rfl rfl
        (by intro _ hi; rw [hi] at hr; cases hr) (by simp [PC.parsed]) (by simp) (by simp)
    · exact hf
  | modify t =>
    simp only [step]
    exact invF_newVersion s _ _ hf (newMtimeOK_spec s _ (by simpa [evDistinct] using ok))
  | replace m =>
    simp only [step]
    exact invF_newVersion s m s.clock hf (newMtimeOK_spec s _ (by simpa [evDistinct] using ok))
  | tick =>
    simp only [step]
    exact ⟨hf.pubStamp, hf.procStamp, hf.cur, hf.proc, hf.reads, hf.rets⟩

theorem run_invF (s : State) (evs : List Ev) (h : Inv s) (hf : InvF s) (ok : histDistinctMtimes s evs = true) :
    InvF (run s evs) := by
  induction evs generalizing s with
  | nil => exact hf
  | cons e es ih =>
    simp only [histDistinctMtimes, Bool.and_eq_true] at ok
    exact ih (step s e) (step_inv s e h) (step_invF s e h hf ok.1) ok.2

/-- initial states for the freshness theorem: additionally the initial entry carries the mtime of
    some version of the source (the one it was made from), and if that is the mtime of the CURRENT
    version and the entry is a complete pickle, it is the parse of the current version -/
structure InitF (s : State) : Prop extends Init s where
  pubStamp : ∀ i, i < s.nIno → (s.inodes i).pub = true → ∃ v, v ≤ s.ver ∧ (s.inodes i).mtime = s.srcM v
  cur : ∀ i, i < s.nIno → (s.inodes i).pub = true → (s.inodes i).len = full →
    (s.inodes i).mtime = s.srcM s.ver → (s.inodes i).data = s.ver

theorem InitF.invF {s : State} (h : InitF s) : InvF s where
  pubStamp := h.pubStamp
  procStamp := fun p hp => absurd (h.idle p) hp
  cur := h.cur
  proc := fun p hp => by rw [h.idle p] at hp; cases hp
  reads := fun p i v0 m sm hp => by rw [h.idle p] at hp; cases hp
  rets := fun p r hp => by rw [h.idle p] at hp; cases hp

theorem step_entry_env (s : State) (e : Ev) (h : ∀ p, e ≠ .step p) : (step s e).entry = s.entry := by
  cases e with
  | step p => exact absurd rfl (h p)
  | spawn p op sv => simp only [step]; split <;> rfl
  | crash p => simp only [step]; split <;> rfl
  | modify t => rfl
  | replace m => rfl
  | tick => rfl

/-- the entry name never points to a torn pickle (unless it started with one) -/
def InvC (s : State) : Prop := ∀ i, s.entry = some i → (s.inodes i).len = full

theorem step_invC (s : State) (e : Ev) (h : Inv s) (hc : InvC s) : InvC (step s e) := by
  cases e with
  | step p =>
    intro i hi
    have hf := stepProc_frame s p h
    rcases stepProc_entry_cases s p h with a | a | ⟨j, a, b, c⟩
    · have hi' : s.entry = some i := by rw [← a]; exact hi
      obtain ⟨h1, h2⟩ := h.entry i hi'
      rcases (hf.inodes i h1).2.2.2 with ⟨_, c⟩ | c
      · rw [h2] at c; cases c
      · show ((stepProc s p).inodes i).len = full
        rw [c]; exact hc i hi'
    · have hi' : (stepProc s p).entry = some i := hi
      rw [a] at hi'; cases hi'
    · have hi' : (stepProc s p).entry = some i := hi
      have e : j = i := by rw [c] at hi'; exact Option.some.inj hi'
      subst e
      have hp := h.pcs p
      rw [a] at hp
      have hcont : s.tmps.contains j = true := by simpa using b
      show ((stepProc s p).inodes j).len = full
      simp only [stepProc, a, hcont, if_true, upd_same]
      exact hp.2.1
  | spawn p op sv => simp only [step]; split <;> exact hc
  | crash p => simp only [step]; split <;> exact hc
  | modify t => exact hc
  | replace m => exact hc
  | tick => exact hc

theorem run_invC (s : State) (evs : List Ev) (h : Inv s) (hc : InvC s) : InvC (run s evs) := by
  induction evs generalizing s with
  | nil => exact hc
  | cons e es ih => exact ih (step s e) (step_inv s e h) (step_invC s e h hc)

/-! ### scanner versions -/

def heldV (s : State) (V : Nat) : PC → Prop
  | .lFstat i _ => (s.inodes i).sver = V
  | .lStatSrc i _ _ => (s.inodes i).sver = V
  | .lRead i _ _ _ => (s.inodes i).sver = V
  | .done (some r) => r.sver = V
  | _ => True

/-- relative to a scanner version `V` and a set `Q` of (late) processes: the entry, and
    whatever a process of `Q` holds or has returned, was written by version `V` -/
structure InvP (V : Nat) (Q : Nat → Prop) (s : State) : Prop where
  entryV : ∀ i, s.entry = some i → (s.inodes i).sver = V
  held : ∀ q, Q q → heldV s V (s.procs q).pc

def storeOK (V : Nat) (s : State) : Ev → Bool
  | .step p => !(s.procs p).pc.isStore || (s.procs p).sver == V
  | _ => true

theorem heldV_env (s s' : State) (V : Nat) (pc : PC) (h2 : s'.inodes = s.inodes) (h : heldV s V pc) :
    heldV s' V pc := by
  cases pc <;> simp only [heldV, h2] at h ⊢ <;> exact h

theorem step_invP (V : Nat) (Q : Nat → Prop) (s : State) (e : Ev) (h : Inv s) (hP : InvP V Q s)
    (ok : storeOK V s e = true) : InvP V Q (step s e) := by
  cases e with
  | step p =>
    have hf := stepProc_frame s p h
    have hsv : ∀ i, i < s.nIno → ((stepProc s p).inodes i).sver = (s.inodes i).sver :=
      fun i hi => (hf.inodes i hi).2.1
    have hp := h.pcs p
    refine ⟨?_, ?_⟩
    · intro i hi
      have hi' : (stepProc s p).entry = some i := hi
      show ((stepProc s p).inodes i).sver = V
      rcases stepProc_entry_cases s p h with a | a | ⟨j, a, b, c⟩
      · rw [a] at hi'
        rw [hsv i (h.entry i hi').1]; exact hP.entryV i hi'
      · rw [a] at hi'; cases hi'
      · have e : j = i := by rw [c] at hi'; exact Option.some.inj hi'
        subst e
        rw [a] at hp
        rw [hsv j hp.1.1, hp.1.2.2.2.2]
        simpa [storeOK, a, PC.isStore] using ok
    · intro q hq
      by_cases e : q = p
      · subst e
        have hq' := hP.held q hq
        show heldV (stepProc s q) V ((stepProc s q).procs q).pc
        cases hpc : (s.procs q).pc <;> rw [hpc] at hp hq' <;>
          simp only [stepProc, hpc, statEntryCatchesENOENT, openCatchesENOENT, unpickleCatchesAll,
            brokenIsUnlinked, unlinkCatchesENOENT, stampCatchesENOENT, loadByFd, utimeCatchesENOENT,
            moveCatchesENOENT, if_true]
        all_goals (try (exact False.elim hp))
        case cUnlink todo =>
          cases todo with
          | nil => simp [State.setPc, heldV]
          | cons n rest =>
            simp only
            split <;> (split <;> simp [State.setPc, heldV, unlinkName]) <;> (cases n <;> simp [State.setPc, heldV, unlinkName])
        all_goals (try (split <;> (try split)))
        all_goals (try simp [State.setPc, heldV])
        case h_2 i hi => exact hP.entryV i hi
        case lFstat i v0 => exact hq'
        case lStatSrc.isFalse i v0 m hs => exact hq'
        case lRead.isTrue i v0 m sm hc => exact hq'
        case done r => cases r <;> simp [heldV] at hq' ⊢ <;> exact hq'
      · show heldV (stepProc s p) V ((stepProc s p).procs q).pc
        rw [hf.others q e]
        have hq' := hP.held q hq
        have hpq := h.pcs q
        cases hpc : (s.procs q).pc <;> rw [hpc] at hq' hpq <;> simp only [heldV] at hq' ⊢
        case lFstat i v0 => rw [hsv i hpq.1]; exact hq'
        case lStatSrc i v0 m => rw [hsv i hpq.1.1]; exact hq'
        case lRead i v0 m sm => rw [hsv i hpq.1.1]; exact hq'
        case done r => cases r <;> exact hq'
  | spawn p op sv =>
    simp only [step]
    split
    · refine ⟨hP.entryV, ?_⟩
      intro q hq
      by_cases e : q = p
      · subst e; cases op <;> simp [firstPc, heldV]
      · simp only [upd_other _ _ _ _ e]; exact heldV_env s _ V _ rfl (hP.held q hq)
    · exact hP
  | crash p =>
    simp only [step]
    split
    · refine ⟨hP.entryV, ?_⟩
      intro q hq
      by_cases e : q = p
      · subst e; simp [State.setPc, heldV]
      · simp only [State.setPc, upd_other _ _ _ _ e]; exact heldV_env s _ V _ rfl (hP.held q hq)
    · exact hP
  | modify t => exact ⟨hP.entryV, fun q hq => heldV_env s _ V _ rfl (hP.held q hq)⟩
  | replace m => exact ⟨hP.entryV, fun q hq => heldV_env s _ V _ rfl (hP.held q hq)⟩
  | tick => exact ⟨hP.entryV, fun q hq => heldV_env s _ V _ rfl (hP.held q hq)⟩

theorem run_invP (V : Nat) (Q : Nat → Prop) (s : State) (evs : List Ev) (h : Inv s) (hP : InvP V Q s)
    (ok : onlyStoresOf V s evs = true) : InvP V Q (run s evs) := by
  induction evs generalizing s with
  | nil => exact hP
  | cons e es ih =>
    simp only [onlyStoresOf, Bool.and_eq_true] at ok
    refine ih (step s e) (step_inv s e h) (step_invP V Q s e h hP ?_) ok.2
    cases e <;> first | rfl | exact ok.1

/-! ### concrete initial states -/

theorem mkInit_init (clock ver sm : Nat) (entry : Option (Nat × Nat × Nat × Nat)) (stamp : Option Nat)
    (hd : ∀ d sv l m, entry = some (d, sv, l, m) → d ≤ ver) : Init (mkInit clock ver sm entry stamp) where
  idle := fun _ => rfl
  entry := by
    intro i hi
    cases entry with
    | none => simp [mkInit] at hi
    | some e => simp [mkInit] at hi ⊢; omega
  tmps := rfl
  dataLe := by
    intro i hi
    cases entry with
    | none => simp [mkInit] at hi
    | some e =>
      obtain ⟨d, sv, l, m⟩ := e
      simp [mkInit]
      exact hd d sv l m rfl

/-- the initial entry `(d, sv, l, m)`: its mtime is the current source mtime only if it is the
    parse of the current version (or torn); otherwise there must be an earlier version it can have
    been made from -/
theorem mkInit_initF (clock ver sm : Nat) (entry : Option (Nat × Nat × Nat × Nat)) (stamp : Option Nat)
    (hd : ∀ d sv l m, entry = some (d, sv, l, m) → d ≤ ver)
    (hm : ∀ d sv l m, entry = some (d, sv, l, m) → (m = sm ∨ 0 < ver) ∧ (l = full → m = sm → d = ver)) :
    InitF (mkInit clock ver sm entry stamp) where
  toInit := mkInit_init clock ver sm entry stamp hd
  pubStamp := by
    intro i hi _
    cases entry with
    | none => simp [mkInit] at hi
    | some e =>
      obtain ⟨d, sv, l, m⟩ := e
      obtain ⟨h1, _⟩ := hm d sv l m rfl
      by_cases hsm : m = sm
      · exact ⟨ver, Nat.le_refl _, by simp [mkInit, hsm]⟩
      · have hv : 0 < ver := by rcases h1 with a | a; exact absurd a hsm; exact a
        exact ⟨0, Nat.zero_le _, by simp [mkInit, show (0 : Nat) ≠ ver by omega]⟩
  cur := by
    intro i hi _
    cases entry with
    | none => simp [mkInit] at hi
    | some e =>
      obtain ⟨d, sv, l, m⟩ := e
      simp [mkInit]
      exact (hm d sv l m rfl).2

end GIVerif.Cache
