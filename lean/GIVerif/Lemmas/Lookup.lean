import GIVerif.Model.Lookup

namespace GIVerif.Lookup
open GIVerif.Py

/-! ### the linear scan -/

theorem scan_entry_iff (p : Entry → Bool) (r i : Nat) (es : List Entry) (j : Nat) (e : Entry) :
    scan p r i es = .entry j e ↔
      ∃ k, j = i + k ∧ k < r ∧ es[k]? = some e ∧ p e = true ∧
        ∀ k' e', k' < k → es[k']? = some e' → p e' = false := by
  induction es generalizing r i with
  | nil =>
    cases r with
    | zero => simp [scan]
    | succ r => simp [scan]
  | cons e0 es ih =>
    cases r with
    | zero => simp [scan]
    | succ r =>
      simp only [scan]
      by_cases hp : p e0 = true
      · simp only [hp, if_true]
        constructor
        · intro h
          cases h
          exact ⟨0, by simp, by omega, by simp, hp, by intro k' e' hk; omega⟩
        · rintro ⟨k, hj, _, hk, _, hfirst⟩
          cases k with
          | zero =>
            simp at hk
            subst hk; subst hj; rfl
          | succ k =>
            have := hfirst 0 e0 (by omega) (by simp)
            rw [hp] at this; cases this
      · have hp' : p e0 = false := by simpa using hp
        simp only [hp', Bool.false_eq_true, if_false]
        rw [ih]
        constructor
        · rintro ⟨k, hj, hk, hget, hpe, hfirst⟩
          refine ⟨k + 1, by omega, by omega, by simpa using hget, hpe, ?_⟩
          intro k' e' hk' hget'
          cases k' with
          | zero => simp at hget'; subst hget'; exact hp'
          | succ k' => exact hfirst k' e' (by omega) (by simpa using hget')
        · rintro ⟨k, hj, hk, hget, hpe, hfirst⟩
          cases k with
          | zero =>
            simp at hget; subst hget
            rw [hp'] at hpe; cases hpe
          | succ k =>
            refine ⟨k, by omega, by omega, by simpa using hget, hpe, ?_⟩
            intro k' e' hk' hget'
            exact hfirst (k' + 1) e' (by omega) (by simpa using hget')

theorem scan_null_iff (p : Entry → Bool) (r i : Nat) (es : List Entry) :
    scan p r i es = .null ↔ r ≤ es.length ∧ ∀ e ∈ es.take r, p e = false := by
  induction es generalizing r i with
  | nil =>
    cases r with
    | zero => simp [scan]
    | succ r => simp [scan]
  | cons e0 es ih =>
    cases r with
    | zero => simp [scan]
    | succ r =>
      simp only [scan]
      by_cases hp : p e0 = true
      · simp [hp]
      · have hp' : p e0 = false := by simpa using hp
        simp [hp', ih]

theorem scan_oob_iff (p : Entry → Bool) (r i : Nat) (es : List Entry) :
    scan p r i es = .oob ↔ es.length < r ∧ ∀ e ∈ es, p e = false := by
  induction es generalizing r i with
  | nil =>
    cases r with
    | zero => simp [scan]
    | succ r => simp [scan]
  | cons e0 es ih =>
    cases r with
    | zero => simp [scan]
    | succ r =>
      simp only [scan]
      by_cases hp : p e0 = true
      · simp [hp]
      · have hp' : p e0 = false := by simpa using hp
        simp [hp', ih]

theorem getElem?_take_some {α} (l : List α) (n k : Nat) (a : α) :
    (l.take n)[k]? = some a ↔ k < n ∧ l[k]? = some a := by
  rw [List.getElem?_take]
  split
  · simp_all
  · constructor
    · intro h; cases h
    · intro h; omega

/-- the scan over the first `n` directory entries, stated on `locals` -/
theorem scan_locals_entry_iff (p : Entry → Bool) (d : Dir) (i : Nat) (e : Entry) :
    scan p d.nLocal 0 d.entries = .entry i e ↔
      d.locals[i]? = some e ∧ p e = true ∧ ∀ j e', j < i → d.locals[j]? = some e' → p e' = false := by
  rw [scan_entry_iff]
  unfold Dir.locals
  constructor
  · rintro ⟨k, hj, hk, hget, hp, hfirst⟩
    have : i = k := by omega
    subst this
    refine ⟨(getElem?_take_some _ _ _ _).mpr ⟨hk, hget⟩, hp, ?_⟩
    intro j e' hj' hget'
    exact hfirst j e' hj' ((getElem?_take_some _ _ _ _).mp hget').2
  · rintro ⟨hget, hp, hfirst⟩
    obtain ⟨hk, hget⟩ := (getElem?_take_some _ _ _ _).mp hget
    refine ⟨i, by omega, hk, hget, hp, ?_⟩
    intro j e' hj' hget'
    exact hfirst j e' hj' ((getElem?_take_some _ _ _ _).mpr ⟨by omega, hget'⟩)

theorem scan_locals_null_iff (p : Entry → Bool) (d : Dir) (hwf : d.nLocal ≤ d.entries.length) :
    scan p d.nLocal 0 d.entries = .null ↔ ∀ e ∈ d.locals, p e = false := by
  rw [scan_null_iff]
  unfold Dir.locals
  simp [hwf]

theorem scan_locals_ne_oob (p : Entry → Bool) (d : Dir) (hwf : d.nLocal ≤ d.entries.length) :
    scan p d.nLocal 0 d.entries ≠ .oob := by
  intro h
  rw [scan_oob_iff] at h
  omega

/-! ### building the table -/

theorem mem_indexedFrom {α} (s : Nat) (l : List α) (x : α) (i : Nat) :
    (x, i) ∈ indexedFrom s l ↔ ∃ k, i = s + k ∧ l[k]? = some x := by
  induction l generalizing s with
  | nil => simp [indexedFrom]
  | cons a l ih =>
    simp only [indexedFrom, List.mem_cons, Prod.mk.injEq, ih]
    constructor
    · rintro (⟨rfl, rfl⟩ | ⟨k, hi, hk⟩)
      · exact ⟨0, by simp, by simp⟩
      · exact ⟨k + 1, by omega, by simpa using hk⟩
    · rintro ⟨k, hi, hk⟩
      cases k with
      | zero => left; simp at hk; exact ⟨hk.symm, by omega⟩
      | succ k => right; exact ⟨k, by omega, by simpa using hk⟩

theorem fst_mem_of_mem_indexedFrom {α} (s : Nat) (l : List α) (kv : α × Nat)
    (h : kv ∈ indexedFrom s l) : kv.1 ∈ l := by
  obtain ⟨x, i⟩ := kv
  obtain ⟨k, _, hk⟩ := (mem_indexedFrom s l x i).mp h
  exact List.mem_of_getElem? hk

theorem snd_lt_of_mem_indexedFrom {α} (s : Nat) (l : List α) (kv : α × Nat)
    (h : kv ∈ indexedFrom s l) : kv.2 < s + l.length := by
  obtain ⟨x, i⟩ := kv
  obtain ⟨k, hi, hk⟩ := (mem_indexedFrom s l x i).mp h
  have : k < l.length := by
    rcases Nat.lt_or_ge k l.length with h | h
    · exact h
    · rw [List.getElem?_eq_none h] at hk; cases hk
  simp only; omega

theorem pairwise_indexedFrom (h : Str → Nat) (s : Nat) (l : List Str) (hnd : l.Nodup)
    (hinj : ∀ a ∈ l, ∀ b ∈ l, h a = h b → a = b) :
    (indexedFrom s l).Pairwise (fun a b => h a.1 ≠ h b.1) := by
  induction l generalizing s with
  | nil => simp [indexedFrom]
  | cons x xs ih =>
    simp only [indexedFrom, List.pairwise_cons]
    rw [List.nodup_cons] at hnd
    refine ⟨?_, ih (s + 1) hnd.2 (fun a ha b hb => hinj a (by simp [ha]) b (by simp [hb]))⟩
    intro kv hkv heq
    have hmem := fst_mem_of_mem_indexedFrom (s + 1) xs kv hkv
    have := hinj x (by simp) kv.1 (by simp [hmem]) heq
    exact hnd.1 (this ▸ hmem)

theorem foldl_packStep_none (h : Str → Nat) (n : Nat) (l : List (Str × Nat)) :
    l.foldl (packStep h n) none = none := by
  induction l with
  | nil => rfl
  | cons kv l ih => simpa [List.foldl, packStep] using ih

/-- what the stores of the packing loop leave in the table -/
theorem foldl_packStep (h : Str → Nat) (n : Nat) (l : List (Str × Nat)) (t0 : List Nat)
    (hr : ∀ kv ∈ l, h kv.1 < n) :
    ∃ t, l.foldl (packStep h n) (some t0) = some t ∧ t.length = t0.length ∧
      (∀ (j : Nat), (∀ kv ∈ l, h kv.1 ≠ j) → t[j]? = t0[j]?) ∧
      (l.Pairwise (fun a b => h a.1 ≠ h b.1) →
        ∀ kv ∈ l, h kv.1 < t0.length → t[h kv.1]? = some (kv.2 % slotMod)) ∧
      (∀ (j v : Nat), t[j]? = some v → t0[j]? = some v ∨ ∃ kv ∈ l, v = kv.2 % slotMod) := by
  induction l generalizing t0 with
  | nil =>
    refine ⟨t0, rfl, rfl, ?_, ?_, ?_⟩
    · intro j _; rfl
    · intro _ kv hkv; cases hkv
    · intro j v hv; exact Or.inl hv
  | cons kv l ih =>
    have hkv : h kv.1 < n := hr kv (by simp)
    obtain ⟨t, hfold, hlen, hframe, hstore, hvals⟩ :=
      ih (t0.set (h kv.1) (kv.2 % slotMod)) (fun x hx => hr x (by simp [hx]))
    refine ⟨t, ?_, by simpa using hlen, ?_, ?_, ?_⟩
    · simp only [List.foldl, packStep, hkv, if_true]
      exact hfold
    · intro j hj
      rw [hframe j (fun x hx => hj x (by simp [hx]))]
      have : h kv.1 ≠ j := hj kv (by simp)
      simp [this]
    · intro hpw x hx hlt
      rw [List.pairwise_cons] at hpw
      rcases List.mem_cons.mp hx with rfl | hx'
      · rw [hframe (h x.1) (fun y hy => fun heq => hpw.1 y hy heq.symm)]
        simp [hlt]
      · exact hstore hpw.2 x hx' (by simpa using hlt)
    · intro j v hv
      rcases hvals j v hv with h0 | ⟨x, hx, hxv⟩
      · rw [List.getElem?_set] at h0
        split at h0
        · split at h0
          · cases h0; exact Or.inr ⟨kv, by simp, rfl⟩
          · cases h0
        · exact Or.inl h0
      · exact Or.inr ⟨x, by simp [hx], hxv⟩

theorem pack_spec (h : Str → Nat) (names : List Str) (hr : ∀ a ∈ names, h a < names.length) :
    ∃ t, pack h names = some t ∧ t.length = names.length ∧
      (names.Nodup → (∀ a ∈ names, ∀ b ∈ names, h a = h b → a = b) →
        ∀ i a, names[i]? = some a → t[h a]? = some (i % slotMod)) ∧
      (∀ (j v : Nat), t[j]? = some v → v = 0 ∨ ∃ i, i < names.length ∧ v = i % slotMod) := by
  obtain ⟨t, hfold, hlen, _, hstore, hvals⟩ :=
    foldl_packStep h names.length (indexedFrom 0 names) (List.replicate names.length 0)
      (fun kv hkv => hr kv.1 (fst_mem_of_mem_indexedFrom 0 names kv hkv))
  refine ⟨t, hfold, by simpa using hlen, ?_, ?_⟩
  · intro hnd hinj i a hia
    have hmem : (a, i) ∈ indexedFrom 0 names := (mem_indexedFrom 0 names a i).mpr ⟨i, by simp, hia⟩
    have := hstore (pairwise_indexedFrom h 0 names hnd hinj) (a, i) hmem
      (by simpa using hr a (List.mem_of_getElem? hia))
    simpa using this
  · intro j v hv
    rcases hvals j v hv with h0 | ⟨kv, hkv, hv'⟩
    · left
      rw [List.getElem?_replicate] at h0
      split at h0
      · cases h0; rfl
      · cases h0
    · right
      have := snd_lt_of_mem_indexedFrom 0 names kv hkv
      exact ⟨kv.2, by omega, hv'⟩

/-- if the packing loop went through, every key was in range (the assertion held) -/
theorem foldl_packStep_some_inv (h : Str → Nat) (n : Nat) (l : List (Str × Nat)) (t0 t : List Nat)
    (hf : l.foldl (packStep h n) (some t0) = some t) : ∀ kv ∈ l, h kv.1 < n := by
  induction l generalizing t0 with
  | nil => intro kv hkv; cases hkv
  | cons x l ih =>
    simp only [List.foldl, packStep] at hf
    by_cases hx : h x.1 < n
    · simp only [hx, if_true] at hf
      intro kv hkv
      rcases List.mem_cons.mp hkv with rfl | hkv'
      · exact hx
      · exact ih _ hf kv hkv'
    · simp only [hx, if_false] at hf
      rw [foldl_packStep_none] at hf
      cases hf

theorem pack_some_range (h : Str → Nat) (names : List Str) (t : List Nat) (hp : pack h names = some t) :
    ∀ a ∈ names, h a < names.length := by
  intro a ha
  obtain ⟨i, hi⟩ := List.getElem?_of_mem ha
  have hmem : (a, i) ∈ indexedFrom 0 names := (mem_indexedFrom 0 names a i).mpr ⟨i, by simp, hi⟩
  exact foldl_packStep_some_inv h names.length _ _ t hp (a, i) hmem

/-! ### prefixes -/

theorem stripPrefix?_eq_some {s p r : Str} : stripPrefix? s p = some r ↔ s = p ++ r := by
  induction p generalizing s with
  | nil => simp [stripPrefix?, eq_comm]
  | cons a p ih =>
    cases s with
    | nil => simp [stripPrefix?]
    | cons c cs =>
      simp only [stripPrefix?]
      split
      · subst_vars; simp [ih]
      · simp; intro h; contradiction

theorem prefixThenUpper_iff (g pre : Str) :
    prefixThenUpper g pre = true ↔ ∃ c rest, g = pre ++ c :: rest ∧ isAsciiUpper c = true := by
  unfold prefixThenUpper
  split
  · rename_i c rest hs
    rw [stripPrefix?_eq_some] at hs
    constructor
    · intro hc; exact ⟨c, rest, hs, hc⟩
    · rintro ⟨c', rest', hg, hc'⟩
      rw [hs] at hg
      have := List.append_cancel_left hg
      cases this; exact hc'
  · rename_i hno
    constructor
    · intro h; cases h
    · rintro ⟨c, rest, hg, _⟩
      exact absurd (stripPrefix?_eq_some.mpr hg) (hno c rest)

/-- when every non-empty piece is at least as long as everything written before it, the shared
    buffer is harmless: the pieces are seen as they are -/
theorem piecesSeen_eq (buf : Str) (ps : List Str)
    (hlen : ∀ p ∈ ps, p ≠ [] → buf.length ≤ p.length)
    (hsorted : ps.Pairwise (fun a b => a ≠ [] → b ≠ [] → a.length ≤ b.length)) :
    piecesSeen buf ps = ps := by
  induction ps generalizing buf with
  | nil => rfl
  | cons p ps ih =>
    rw [List.pairwise_cons] at hsorted
    simp only [piecesSeen]
    by_cases hp : p = []
    · subst hp
      simp only [List.isEmpty_nil, if_true]
      rw [ih buf (fun q hq => hlen q (by simp [hq])) hsorted.2]
    · have hne : p.isEmpty = false := by simpa using hp
      have how : overwrite buf p = p := by
        unfold overwrite
        have := hlen p (by simp) hp
        rw [List.drop_eq_nil_of_le this]; simp
      simp only [hne, Bool.false_eq_true, if_false, how]
      rw [ih p (fun q hq hq' => hsorted.1 q hq hp hq') hsorted.2]

/-! ### the comma-separated list -/

theorem splitChar_ne_nil (sep : Char) (s acc : Str) : splitChar sep s acc ≠ [] := by
  induction s generalizing acc with
  | nil => simp [splitChar]
  | cons c cs ih =>
    simp only [splitChar]
    split
    · simp
    · exact ih _

theorem join_cons_of_ne_nil (sep x : Str) (xs : List Str) (h : xs ≠ []) :
    join sep (x :: xs) = x ++ sep ++ join sep xs := by
  cases xs with
  | nil => exact absurd rfl h
  | cons y ys => simp [join]

theorem join_splitChar (sep : Char) (s acc : Str) :
    join [sep] (splitChar sep s acc) = acc.reverse ++ s := by
  induction s generalizing acc with
  | nil => simp [splitChar, join]
  | cons c cs ih =>
    simp only [splitChar]
    split
    · rename_i hc
      rw [join_cons_of_ne_nil _ _ _ (splitChar_ne_nil sep cs []), ih []]
      simp [hc]
    · rw [ih (c :: acc)]
      simp

theorem splitChar_no_sep (sep : Char) (s acc : Str) (hacc : sep ∉ acc) :
    ∀ p ∈ splitChar sep s acc, sep ∉ p := by
  induction s generalizing acc with
  | nil =>
    intro p hp
    simp only [splitChar, List.mem_singleton] at hp
    subst hp
    simpa using hacc
  | cons c cs ih =>
    intro p hp
    simp only [splitChar] at hp
    split at hp
    · rcases List.mem_cons.mp hp with rfl | hp'
      · simpa using hacc
      · exact ih [] (by simp) p hp'
    · rename_i hc
      exact ih (c :: acc) (by
        intro hm
        rcases List.mem_cons.mp hm with h | h
        · exact hc h.symm
        · exact hacc h) p hp

/-! ### repository level -/

theorem findPass_entry (g : Str) (cp : Bool) (k0 : Nat) (libs : List Lib) (k i : Nat) (e : Entry)
    (hf : findPass g cp k0 libs = .entry k i e) :
    ∃ j l, k = k0 + j ∧ libs[j]? = some l ∧ byGTypeName l.dir g = .entry i e := by
  induction libs generalizing k0 with
  | nil => simp [findPass] at hf
  | cons l ls ih =>
    simp only [findPass] at hf
    split at hf
    · obtain ⟨j, l', hk, hj, hb⟩ := ih (k0 + 1) hf
      exact ⟨j + 1, l', by omega, by simpa using hj, hb⟩
    · split at hf
      · rename_i i' e' hb
        cases hf
        exact ⟨0, l, by simp, by simp, hb⟩
      · obtain ⟨j, l', hk, hj, hb⟩ := ih (k0 + 1) hf
        exact ⟨j + 1, l', by omega, by simpa using hj, hb⟩
      · cases hf

theorem findPass_false_null_iff (g : Str) (k0 : Nat) (libs : List Lib) :
    findPass g false k0 libs = .null ↔ ∀ l ∈ libs, byGTypeName l.dir g = .null := by
  induction libs generalizing k0 with
  | nil => simp [findPass]
  | cons l ls ih =>
    simp only [findPass, Bool.false_and, Bool.false_eq_true, if_false, List.mem_cons, forall_eq_or_imp]
    cases hb : byGTypeName l.dir g with
    | entry i e => simp
    | null => simp [ih]
    | oob => simp

theorem findPass_null_of_all_null (g : Str) (cp : Bool) (k0 : Nat) (libs : List Lib)
    (h : ∀ l ∈ libs, byGTypeName l.dir g = .null) : findPass g cp k0 libs = .null := by
  induction libs generalizing k0 with
  | nil => simp [findPass]
  | cons l ls ih =>
    simp only [findPass]
    split
    · exact ih (k0 + 1) (fun l' hl' => h l' (by simp [hl']))
    · rw [h l (by simp)]
      exact ih (k0 + 1) (fun l' hl' => h l' (by simp [hl']))

theorem findByErrorDomain_entry (dom : Str) (k0 : Nat) (libs : List Lib) (k i : Nat) (e : Entry)
    (hf : findByErrorDomain dom k0 libs = .entry k i e) :
    ∃ j l, k = k0 + j ∧ libs[j]? = some l ∧ byErrorDomain l.dir dom = .entry i e := by
  induction libs generalizing k0 with
  | nil => simp [findByErrorDomain] at hf
  | cons l ls ih =>
    simp only [findByErrorDomain] at hf
    split at hf
    · rename_i i' e' hb
      cases hf
      exact ⟨0, l, by simp, by simp, hb⟩
    · obtain ⟨j, l', hk, hj, hb⟩ := ih (k0 + 1) hf
      exact ⟨j + 1, l', by omega, by simpa using hj, hb⟩
    · cases hf

theorem findByErrorDomain_null_iff (dom : Str) (k0 : Nat) (libs : List Lib) :
    findByErrorDomain dom k0 libs = .null ↔ ∀ l ∈ libs, byErrorDomain l.dir dom = .null := by
  induction libs generalizing k0 with
  | nil => simp [findByErrorDomain]
  | cons l ls ih =>
    simp only [findByErrorDomain, List.mem_cons, forall_eq_or_imp]
    cases hb : byErrorDomain l.dir dom with
    | entry i e => simp
    | null => simp [ih]
    | oob => simp

end GIVerif.Lookup
