import GIVerif.Model.Lookup

namespace GIVerif.Lookup
open GIVerif.Py

/-! ### the linear scan -/

theorem scan_entry_iff (p : Entry → Bool) (r i : Nat) (es : List Entry) (j : Nat) (e : Entry) :
    scan p r i es = .entry j e ↔
      ∃ k, j = i + k ∧ k < r ∧ es[k]? = some e ∧ p e = true ∧
        ∀ k' e', k' < k → es[k']? = some e' → p e' = false := by
  induction es generalizing r i with
  | nil =>
    cases r with
    | zero => simp [scan]
    | succ r => simp [scan]
  | cons e0 es ih =>
    cases r with
    | zero => simp [scan]
    | succ r =>
      simp only [scan]
      by_cases hp : p e0 = true
      · simp only [hp, if_true]
        constructor
        · intro h
          cases h
          exact ⟨0, by simp, by omega, by simp, hp, by intro k' e' hk; omega⟩
        · rintro ⟨k, hj, _, hk, _, hfirst⟩
          cases k with
          | zero =>
            simp at hk
            subst hk; subst hj; rfl
          | succ k =>
            have := hfirst 0 e0 (by omega) (by simp)
            rw [hp] at this; cases this
      · have hp' : p e0 = false := by simpa using hp
        simp only [hp', Bool.false_eq_true, if_false]
        rw [ih]
        constructor
        · rintro ⟨k, hj, hk, hget, hpe, hfirst⟩
          refine ⟨k + 1, by omega, by omega, by simpa using hget, hpe, ?_⟩
          intro k' e' hk' hget'
          cases k' with
          | zero => simp at hget'; subst hget'; exact hp'
          | succ k' => exact hfirst k' e' (by omega) (by simpa using hget')
        · rintro ⟨k, hj, hk, hget, hpe, hfirst⟩
          cases k with
          | zero =>
            simp at hget; subst hget
            rw [hp'] at hpe; cases hpe
          | succ k =>
            refine ⟨k, by omega, by omega, by simpa using hget, hpe, ?_⟩
            intro k' e' hk' hget'
            exact hfirst (k' + 1) e' (by omega) (by simpa using hget')

theorem scan_null_iff (p : Entry → Bool) (r i : Nat) (es : List Entry) :
    scan p r i es = .null ↔ r ≤ es.length ∧ ∀ e ∈ es.take r, p e = false := by
  induction es generalizing r i with
  | nil =>
    cases r with
    | zero => simp [scan]
    | succ r => simp [scan]
  | cons e0 es ih =>
    cases r with
    | zero => simp [scan]
    | succ r =>
      simp only [scan]
      by_cases hp : p e0 = true
      · simp [hp]
      · have hp' : p e0 = false := by simpa using hp
        simp [hp', ih]

theorem scan_oob_iff (p : Entry → Bool) (r i : Nat) (es : List Entry) :
    scan p r i es = .oob ↔ es.length < r ∧ ∀ e ∈ es, p e = false := by
  induction es generalizing r i with
  | nil =>
    cases r with
    | zero => simp [scan]
    | succ r => simp [scan]
  | cons e0 es ih =>
    cases r with
    | zero => simp [scan]
    | succ r =>
      simp only [scan]
      by_cases hp : p e0 = true
      · simp [hp]
      · have hp' : p e0 = false := by simpa using hp
        simp [hp', ih]

theorem getElem?_take_some {α} (l : List α) (n k : Nat) (a : α) :
    (l.take n)[k]? = some a ↔ k < n ∧ l[k]? = some a := by
  rw [List.getElem?_take]
  split
  · simp_all
  · constructor
    · intro h; cases h
    · intro h; omega

/-- the scan over the first `n` directory entries, stated on `locals` -/
theorem scan_locals_entry_iff (p : Entry → Bool) (d : Dir) (i : Nat) (e : Entry) :
    scan p d.nLocal 0 d.entries = .entry i e ↔
      d.locals[i]? = some e ∧ p e = true ∧ ∀ j e', j < i → d.locals[j]? = some e' → p e' = false := by
  rw [scan_entry_iff]
  unfold Dir.locals
  constructor
  · rintro ⟨k, hj, hk, hget, hp, hfirst⟩
    have : i = k := by omega
    subst this
    refine ⟨(getElem?_take_some _ _ _ _).mpr ⟨hk, hget⟩, hp, ?_⟩
    intro j e' hj' hget'
    exact hfirst j e' hj' ((getElem?_take_some _ _ _ _).mp hget').2
  · rintro ⟨hget, hp, hfirst⟩
    obtain ⟨hk, hget⟩ := (getElem?_take_some _ _ _ _).mp hget
    refine ⟨i, by omega, hk, hget, hp, ?_⟩
    intro j e' hj' hget'
    exact hfirst j e' hj' ((getElem?_take_some _ _ _ _).mpr ⟨by omega, hget'⟩)

theorem scan_locals_null_iff (p : Entry → Bool) (d : Dir) (hwf : d.nLocal ≤ d.entries.length) :
    scan p d.nLocal 0 d.entries = .null ↔ ∀ e ∈ d.locals, p e = false := by
  rw [scan_null_iff]
  unfold Dir.locals
  simp [hwf]

theorem scan_locals_ne_oob (p : Entry → Bool) (d : Dir) (hwf : d.nLocal ≤ d.entries.length) :
    scan p d.nLocal 0 d.entries ≠ .oob := by
  intro h
  rw [scan_oob_iff] at h
  omega

/-! ### building the table -/

theorem mem_indexedFrom {α} (s : Nat) (l : List α) (x : α) (i : Nat) :
    (x, i) ∈ indexedFrom s l ↔ ∃ k, i = s + k ∧ l[k]? = some x := by
  induction l generalizing s with
  | nil => simp [indexedFrom]
  | cons a l ih =>
    simp only [indexedFrom, List.mem_cons, Prod.mk.injEq, ih]
    constructor
    · rintro (⟨rfl, rfl⟩ | ⟨k, hi, hk⟩)
      · exact ⟨0, by simp, by simp⟩
      · exact ⟨k + 1, by omega, by simpa using hk⟩
    · rintro ⟨k, hi, hk⟩
      cases k with
      | zero => left; simp at hk; exact ⟨hk.symm, by omega⟩
      | succ k => right; exact ⟨k, by omega, by simpa using hk⟩

theorem fst_mem_of_mem_indexedFrom {α} (s : Nat) (l : List α) (kv : α × Nat)
    (h : kv ∈ indexedFrom s l) : kv.1 ∈ l := by
  obtain ⟨x, i⟩ := kv
  obtain ⟨k, _, hk⟩ := (mem_indexedFrom s l x i).mp h
  exact List.mem_of_getElem? hk

theorem snd_lt_of_mem_indexedFrom {α} (s : Nat) (l : List α) (kv : α × Nat)
    (h : kv ∈ indexedFrom s l) : kv.2 < s + l.length := by
  obtain ⟨x, i⟩ := kv
  obtain ⟨k, hi, hk⟩ := (mem_indexedFrom s l x i).mp h
  have : k < l.length := by
    rcases Nat.lt_or_ge k l.length with h | h
    · exact h
    · rw [List.getElem?_eq_none h] at hk; cases hk
  simp only; omega

theorem pairwise_indexedFrom (h : Str → Nat) (s : Nat) (l : List Str) (hnd : l.Nodup)
    (hinj : ∀ a ∈ l, ∀ b ∈ l, h a = h b → a = b) :
    (indexedFrom s l).Pairwise (fun a b => h a.1 ≠ h b.1) := by
  induction l generalizing s with
  | nil => simp [indexedFrom]
  | cons x xs ih =>
    simp only [indexedFrom, List.pairwise_cons]
    rw [List.nodup_cons] at hnd
    refine ⟨?_, ih (s + 1) hnd.2 (fun a ha b hb => hinj a (by simp [ha]) b (by simp [hb]))⟩
    intro kv hkv heq
    have hmem := fst_mem_of_mem_indexedFrom (s + 1) xs kv hkv
    have := hinj x (by simp) kv.1 (by simp [hmem]) heq
    exact hnd.1 (this ▸ hmem)

theorem foldl_packStep_none (h : Str → Nat) (n : Nat) (l : List (Str × Nat)) :
    l.foldl (packStep h n) none = none := by
  induction l with
  | nil => rfl
  | cons kv l ih => simpa [List.foldl, packStep] using ih

/-- what the stores of the packing loop leave in the table -/
theorem foldl_packStep (h : Str → Nat) (n : Nat) (l : List (Str × Nat)) (t0 : List Nat)
    (hr : ∀ kv ∈ l, h kv.1 < n) :
    ∃ t, l.foldl (packStep h n) (some t0) = some t ∧ t.length = t0.length ∧
      (∀ (j : Nat), (∀ kv ∈ l, h kv.1 ≠ j) → t[j]? = t0[j]?) ∧
      (l.Pairwise (fun a b => h a.1 ≠ h b.1) →
        ∀ kv ∈ l, h kv.1 < t0.length → t[h kv.1]? = some (kv.2 % slotMod)) ∧
      (∀ (j v : Nat), t[j]? = some v → t0[j]? = some v ∨ ∃ kv ∈ l, v = kv.2 % slotMod) := by
  induction l generalizing t0 with
  | nil =>
    refine ⟨t0, rfl, rfl, ?_, ?_, ?_⟩
    · intro j _; rfl
    · intro _ kv hkv; cases hkv
    · intro j v hv; exact Or.inl hv
  | cons kv l ih =>
    have hkv : h kv.1 < n := hr kv (by simp)
    obtain ⟨t, hfold, hlen, hframe, hstore, hvals⟩ :=
      ih (t0.set (h kv.1) (kv.2 % slotMod)) (fun x hx => hr x (by simp [hx]))
    refine ⟨t, ?_, by simpa using hlen, ?_, ?_, ?_⟩
    · simp only [List.foldl, packStep, hkv, if_true]
      exact hfold
    · intro j hj
      rw [hframe j (fun x hx => hj x (by simp [hx]))]
      have : h kv.1 ≠ j := hj kv (by simp)
      simp [this]
    · intro hpw x hx hlt
      rw [List.pairwise_cons] at hpw
      rcases List.mem_cons.mp hx with rfl | hx'
      · rw [hframe (h x.1) (fun y hy => fun heq => hpw.1 y hy heq.symm)]
        simp [hlt]
      · exact hstore hpw.2 x hx' (by simpa using hlt)
    · intro j v hv
      rcases hvals j v hv with h0 | ⟨x, hx, hxv⟩
      · rw [List.getElem?_set] at h0
        split at h0
        · split at h0
          · cases h0; exact Or.inr ⟨kv, by simp, rfl⟩
          · cases h0
        · exact Or.inl h0
      · exact Or.inr ⟨x, by simp [hx], hxv⟩

theorem pack_spec (h : Str → Nat) (names : List Str) (hr : ∀ a ∈ names, h a < names.length) :
    ∃ t, pack h names = some t ∧ t.length = names.length ∧
      (names.Nodup → (∀ a ∈ names, ∀ b ∈ names, h a = h b → a = b) →
        ∀ i a, names[i]? = some a → t[h a]? = some (i % slotMod)) ∧
      (∀ (j v : Nat), t[j]? = some v → v = 0 ∨ ∃ i, i < names.length ∧ v = i % slotMod) := by
  obtain ⟨t, hfold, hlen, _, hstore, hvals⟩ :=
    foldl_packStep h names.length (indexedFrom 0 names) (List.replicate names.length 0)
      (fun kv hkv => hr kv.1 (fst_mem_of_mem_indexedFrom 0 names kv hkv))
  refine ⟨t, hfold, by simpa using hlen, ?_, ?_⟩
  · intro hnd hinj i a hia
    have hmem : (a, i) ∈ indexedFrom 0 names := (mem_indexedFrom 0 names a i).mpr ⟨i, by simp, hia⟩
    have := hstore (pairwise_indexedFrom h 0 names hnd hinj) (a, i) hmem
      (by simpa using hr a (List.mem_of_getElem? hia))
    simpa using this
  · intro j v hv
    rcases hvals j v hv with h0 | ⟨kv, hkv, hv'⟩
    · left
      rw [List.getElem?_replicate] at h0
      split at h0
      · cases h0; rfl
      · cases h0
    · right
      have := snd_lt_of_mem_indexedFrom 0 names kv hkv
      exact ⟨kv.2, by omega, hv'⟩

/-- if the packing loop went through, every key was in range (the assertion held) -/
theorem foldl_packStep_some_inv (h : Str → Nat) (n : Nat) (l : List (Str × Nat)) (t0 t : List Nat)
    (hf : l.foldl (packStep h n) (some t0) = some t) : ∀ kv ∈ l, h kv.1 < n := by
  induction l generalizing t0 with
  | nil => intro kv hkv; cases hkv
  | cons x l ih =>
    simp only [List.foldl, packStep] at hf
    by_cases hx : h x.1 < n
    · simp only [hx, if_true] at hf
      intro kv hkv
      rcases List.mem_cons.mp hkv with rfl | hkv'
      · exact hx
      · exact ih _ hf kv hkv'
    · simp only [hx, if_false] at hf
      rw [foldl_packStep_none] at hf
      cases hf

theorem pack_some_range (h : Str → Nat) (names : List Str) (t : List Nat) (hp : pack h names = some t) :
    ∀ a ∈ names, h a < names.length := by
  intro a ha
  obtain ⟨i, hi⟩ := List.getElem?_of_mem ha
  have hmem : (a, i) ∈ indexedFrom 0 names := (mem_indexedFrom 0 names a i).mpr ⟨i, by simp, hi⟩
  exact foldl_packStep_some_inv h names.length _ _ t hp (a, i) hmem

/-! ### prefixes -/

theorem stripPrefix?_eq_some {s p r : Str} : stripPrefix? s p = some r ↔ s = p ++ r := by
  induction p generalizing s with
  | nil => simp [stripPrefix?, eq_comm]
  | cons a p ih =>
    cases s with
    | nil => simp [stripPrefix?]
    | cons c cs =>
      simp only [stripPrefix?]
      split
      · subst_vars; simp [ih]
      · simp; intro h; contradiction

theorem prefixThenUpper_iff (g pre : Str) :
    prefixThenUpper g pre = true ↔ ∃ c rest, g = pre ++ c :: rest ∧ isAsciiUpper c = true := by
  unfold prefixThenUpper
  split
  · rename_i c rest hs
    rw [stripPrefix?_eq_some] at hs
    constructor
    · intro hc; exact ⟨c, rest, hs, hc⟩
    · rintro ⟨c', rest', hg, hc'⟩
      rw [hs] at hg
      have := List.append_cancel_left hg
      cases this; exact hc'
  · rename_i hno
    constructor
    · intro h; cases h
    · rintro ⟨c, rest, hg, _⟩
      exact absurd (stripPrefix?_eq_some.mpr hg) (hno c rest)

/-- when every non-empty piece is at least as long as everything written before it, the shared
    buffer is harmless: the pieces are seen as they are -/
theorem piecesSeen_eq (buf : Str) (ps : List Str)
    (hlen : ∀ p ∈ ps, p ≠ [] → buf.length ≤ p.length)
    (hsorted : ps.Pairwise (fun a b => a ≠ [] → b ≠ [] → a.length ≤ b.length)) :
    piecesSeen buf ps = ps := by
  induction ps generalizing buf with
  | nil => rfl
  | cons p ps ih =>
    rw [List.pairwise_cons] at hsorted
    simp only [piecesSeen]
    by_cases hp : p = []
    · subst hp
      simp only [List.isEmpty_nil, if_true]
      rw [ih buf (fun q hq => hlen q (by simp [hq])) hsorted.2]
    · have hne : p.isEmpty = false := by simpa using hp
      have how : overwrite buf p = p := by
        unfold overwrite
        have := hlen p (by simp) hp
        rw [List.drop_eq_nil_of_le this]; simp
      simp only [hne, Bool.false_eq_true, if_false, how]
      rw [ih p (fun q hq hq' => hsorted.1 q hq hp hq') hsorted.2]

/-! ### the comma-separated list -/

theorem splitChar_ne_nil (sep : Char) (s acc : Str) : splitChar sep s acc ≠ [] := by
  induction s generalizing acc with
  | nil => simp [splitChar]
  | cons c cs ih =>
    simp only [splitChar]
    split
    · simp
    · exact ih _

theorem join_cons_of_ne_nil (sep x : Str) (xs : List Str) (h : xs ≠ []) :
    join sep (x :: xs) = x ++ sep ++ join sep xs := by
  cases xs with
  | nil => exact absurd rfl h
  | cons y ys => simp [join]

theorem join_splitChar (sep : Char) (s acc : Str) :
    join [sep] (splitChar sep s acc) = acc.reverse ++ s := by
  induction s generalizing acc with
  | nil => simp [splitChar, join]
  | cons c cs ih =>
    simp only [splitChar]
    split
    · rename_i hc
      rw [join_cons_of_ne_nil _ _ _ (splitChar_ne_nil sep cs []), ih []]
      simp [hc]
    · rw [ih (c :: acc)]
      simp

theorem splitChar_no_sep (sep : Char) (s acc : Str) (hacc : sep ∉ acc) :
    ∀ p ∈ splitChar sep s acc, sep ∉ p := by
  induction s generalizing acc with
  | nil =>
    intro p hp
    simp only [splitChar, List.mem_singleton] at hp
    subst hp
    simpa using hacc
  | cons c cs ih =>
    intro p hp
    simp only [splitChar] at hp
    split at hp
    · rcases List.mem_cons.mp hp with rfl | hp'
      · simpa using hacc
      · exact ih [] (by simp) p hp'
    · rename_i hc
      exact ih (c :: acc) (by
        intro hm
        rcases List.mem_cons.mp hm with h | h
        · exact hc h.symm
        · exact hacc h) p hp

/-! ### repository level -/

theorem findPass_entry (g : Str) (cp : Bool) (k0 : Nat) (libs : List Lib) (k i : Nat) (e : Entry)
    (hf : findPass g cp k0 libs = .entry k i e) :
    ∃ j l, k = k0 + j ∧ libs[j]? = some l ∧ byGTypeName l.dir g = .entry i e := by
  induction libs generalizing k0 with
  | nil => simp [findPass] at hf
  | cons l ls ih =>
    simp only [findPass] at hf
    split at hf
    · obtain ⟨j, l', hk, hj, hb⟩ := ih (k0 + 1) hf
      exact ⟨j + 1, l', by omega, by simpa using hj, hb⟩
    · split at hf
      · rename_i i' e' hb
        cases hf
        exact ⟨0, l, by simp, by simp, hb⟩
      · obtain ⟨j, l', hk, hj, hb⟩ := ih (k0 + 1) hf
        exact ⟨j + 1, l', by omega, by simpa using hj, hb⟩
      · cases hf

theorem findPass_false_null_iff (g : Str) (k0 : Nat) (libs : List Lib) :
    findPass g false k0 libs = .null ↔ ∀ l ∈ libs, byGTypeName l.dir g = .null := by
  induction libs generalizing k0 with
  | nil => simp [findPass]
  | cons l ls ih =>
    simp only [findPass, Bool.false_and, Bool.false_eq_true, if_false, List.mem_cons, forall_eq_or_imp]
    cases hb : byGTypeName l.dir g with
    | entry i e => simp
    | null => simp [ih]
    | oob => simp

theorem findPass_null_of_all_null (g : Str) (cp : Bool) (k0 : Nat) (libs : List Lib)
    (h : ∀ l ∈ libs, byGTypeName l.dir g = .null) : findPass g cp k0 libs = .null := by
  induction libs generalizing k0 with
  | nil => simp [findPass]
  | cons l ls ih =>
    simp only [findPass]
    split
    · exact ih (k0 + 1) (fun l' hl' => h l' (by simp [hl']))
    · rw [h l (by simp)]
      exact ih (k0 + 1) (fun l' hl' => h l' (by simp [hl']))

theorem findByErrorDomain_entry (dom : Str) (k0 : Nat) (libs : List Lib) (k i : Nat) (e : Entry)
    (hf : findByErrorDomain dom k0 libs = .entry k i e) :
    ∃ j l, k = k0 + j ∧ libs[j]? = some l ∧ byErrorDomain l.dir dom = .entry i e := by
  induction libs generalizing k0 with
  | nil => simp [findByErrorDomain] at hf
  | cons l ls ih =>
    simp only [findByErrorDomain] at hf
    split at hf
    · rename_i i' e' hb
      cases hf
      exact ⟨0, l, by simp, by simp, hb⟩
    · obtain ⟨j, l', hk, hj, hb⟩ := ih (k0 + 1) hf
      exact ⟨j + 1, l', by omega, by simpa using hj, hb⟩
    · cases hf

theorem findByErrorDomain_null_iff (dom : Str) (k0 : Nat) (libs : List Lib) :
    findByErrorDomain dom k0 libs = .null ↔ ∀ l ∈ libs, byErrorDomain l.dir dom = .null := by
  induction libs generalizing k0 with
  | nil => simp [findByErrorDomain]
  | cons l ls ih =>
    simp only [findByErrorDomain, List.mem_cons, forall_eq_or_imp]
    cases hb : byErrorDomain l.dir dom with
    | entry i e => simp
    | null => simp [ih]
    | oob => simp

/-! ### the repository state machine -/

theorem registerClearsUnknown_now : registerClearsUnknown true = true ∧ registerClearsUnknown false = true := by
  decide

theorem orElse_assoc (a : RAns) (b c : Unit → RAns) :
    orElse (orElse a b) c = orElse a (fun _ => orElse (b ()) c) := by
  cases a <;> rfl

theorem findByGTypeIn_info (g : Str) (cp : Bool) (libs : List TL) (hit : Hit)
    (hf : findByGTypeIn g cp libs = .info hit) :
    ∃ t ∈ libs, t.ns = hit.ns ∧ byGTypeName t.lib.dir g = .entry hit.idx hit.entry := by
  induction libs with
  | nil => simp [findByGTypeIn] at hf
  | cons t ts ih =>
    simp only [findByGTypeIn] at hf
    split at hf
    · obtain ⟨t', ht', h⟩ := ih hf
      exact ⟨t', by simp [ht'], h⟩
    · split at hf
      · rename_i i e hb
        cases hf
        exact ⟨t, by simp, rfl, hb⟩
      · obtain ⟨t', ht', h⟩ := ih hf
        exact ⟨t', by simp [ht'], h⟩
      · cases hf

theorem findByGTypeIn_false_null_iff (g : Str) (libs : List TL) :
    findByGTypeIn g false libs = .null ↔ ∀ t ∈ libs, byGTypeName t.lib.dir g = .null := by
  induction libs with
  | nil => simp [findByGTypeIn]
  | cons t ts ih =>
    simp only [findByGTypeIn, Bool.false_and, Bool.false_eq_true, if_false, List.mem_cons, forall_eq_or_imp]
    cases hb : byGTypeName t.lib.dir g with
    | entry i e => simp
    | null => simp [ih]
    | oob => simp

theorem findByGTypeIn_null_of_all_null (g : Str) (cp : Bool) (libs : List TL)
    (h : ∀ t ∈ libs, byGTypeName t.lib.dir g = .null) : findByGTypeIn g cp libs = .null := by
  induction libs with
  | nil => simp [findByGTypeIn]
  | cons t ts ih =>
    simp only [findByGTypeIn]
    split
    · exact ih (fun t' ht' => h t' (by simp [ht']))
    · rw [h t (by simp)]
      exact ih (fun t' ht' => h t' (by simp [ht']))

theorem findByGTypeIn_append (g : Str) (cp : Bool) (a b : List TL) :
    findByGTypeIn g cp (a ++ b) = orElse (findByGTypeIn g cp a) (fun _ => findByGTypeIn g cp b) := by
  induction a with
  | nil => simp [findByGTypeIn, orElse]
  | cons t ts ih =>
    simp only [List.cons_append, findByGTypeIn]
    split
    · exact ih
    · split
      · rfl
      · exact ih
      · rfl

theorem searchGType_eq_spec (s : Repo) (g : Str) : searchGType s g = specFindByGType s.loaded g := by
  unfold searchGType specFindByGType Repo.loaded
  rw [findByGTypeIn_append, findByGTypeIn_append, orElse_assoc]

theorem findByErrorDomainIn_info (dom : Str) (libs : List TL) (hit : Hit)
    (hf : findByErrorDomainIn dom libs = .info hit) :
    ∃ t ∈ libs, t.ns = hit.ns ∧ byErrorDomain t.lib.dir dom = .entry hit.idx hit.entry := by
  induction libs with
  | nil => simp [findByErrorDomainIn] at hf
  | cons t ts ih =>
    simp only [findByErrorDomainIn] at hf
    split at hf
    · rename_i i e hb
      cases hf
      exact ⟨t, by simp, rfl, hb⟩
    · obtain ⟨t', ht', h⟩ := ih hf
      exact ⟨t', by simp [ht'], h⟩
    · cases hf

theorem findByErrorDomainIn_null_iff (dom : Str) (libs : List TL) :
    findByErrorDomainIn dom libs = .null ↔ ∀ t ∈ libs, byErrorDomain t.lib.dir dom = .null := by
  induction libs with
  | nil => simp [findByErrorDomainIn]
  | cons t ts ih =>
    simp only [findByErrorDomainIn, List.mem_cons, forall_eq_or_imp]
    cases hb : byErrorDomain t.lib.dir dom with
    | entry i e => simp
    | null => simp [ih]
    | oob => simp

theorem findByErrorDomainIn_append (dom : Str) (a b : List TL) :
    findByErrorDomainIn dom (a ++ b)
      = orElse (findByErrorDomainIn dom a) (fun _ => findByErrorDomainIn dom b) := by
  induction a with
  | nil => simp [findByErrorDomainIn, orElse]
  | cons t ts ih =>
    simp only [List.cons_append, findByErrorDomainIn]
    split
    · rfl
    · exact ih
    · rfl

theorem searchErrorDomain_eq_spec (s : Repo) (dom : Str) :
    searchErrorDomain s dom = specFindByErrorDomain s.loaded dom := by
  unfold searchErrorDomain specFindByErrorDomain Repo.loaded
  rw [findByErrorDomainIn_append]

/-- the cache-free searches satisfy the agreement clause on the typelibs they look at -/
theorem spec_gtype_agrees (libs : List TL) (g : Str) :
    (∀ hit, specFindByGType libs g = .info hit →
        ∃ t ∈ libs, t.ns = hit.ns ∧ byGTypeName t.lib.dir g = .entry hit.idx hit.entry)
    ∧ (specFindByGType libs g = .null ↔ ∀ t ∈ libs, byGTypeName t.lib.dir g = .null) := by
  unfold specFindByGType
  constructor
  · intro hit hf
    cases h1 : findByGTypeIn g true libs with
    | info h' =>
      rw [h1] at hf; simp only [orElse] at hf; cases hf
      exact findByGTypeIn_info g true libs _ h1
    | null =>
      rw [h1] at hf; simp only [orElse] at hf
      exact findByGTypeIn_info g false libs _ hf
    | oob => rw [h1] at hf; simp [orElse] at hf
  · constructor
    · intro hf
      cases h1 : findByGTypeIn g true libs with
      | info h' => rw [h1] at hf; simp [orElse] at hf
      | null =>
        rw [h1] at hf; simp only [orElse] at hf
        exact (findByGTypeIn_false_null_iff g libs).mp hf
      | oob => rw [h1] at hf; simp [orElse] at hf
    · intro hall
      rw [findByGTypeIn_null_of_all_null g true libs hall]
      simp only [orElse]
      exact findByGTypeIn_null_of_all_null g false libs hall

theorem spec_domain_agrees (libs : List TL) (dom : Str) :
    (∀ hit, specFindByErrorDomain libs dom = .info hit →
        ∃ t ∈ libs, t.ns = hit.ns ∧ byErrorDomain t.lib.dir dom = .entry hit.idx hit.entry)
    ∧ (specFindByErrorDomain libs dom = .null ↔ ∀ t ∈ libs, byErrorDomain t.lib.dir dom = .null) :=
  ⟨fun hit hf => findByErrorDomainIn_info dom libs hit hf, findByErrorDomainIn_null_iff dom libs⟩

theorem findByGTypeIn_oob (g : Str) (cp : Bool) (libs : List TL)
    (hf : findByGTypeIn g cp libs = .oob) : ∃ t ∈ libs, byGTypeName t.lib.dir g = .oob := by
  induction libs with
  | nil => simp [findByGTypeIn] at hf
  | cons t ts ih =>
    simp only [findByGTypeIn] at hf
    split at hf
    · obtain ⟨t', ht', h⟩ := ih hf
      exact ⟨t', by simp [ht'], h⟩
    · split at hf
      · cases hf
      · obtain ⟨t', ht', h⟩ := ih hf
        exact ⟨t', by simp [ht'], h⟩
      · rename_i hb
        exact ⟨t, by simp, hb⟩

theorem spec_gtype_oob (libs : List TL) (g : Str) (hf : specFindByGType libs g = .oob) :
    ∃ t ∈ libs, byGTypeName t.lib.dir g = .oob := by
  unfold specFindByGType at hf
  cases h1 : findByGTypeIn g true libs with
  | info h' => rw [h1] at hf; simp [orElse] at hf
  | null =>
    rw [h1] at hf; simp only [orElse] at hf
    exact findByGTypeIn_oob g false libs hf
  | oob => exact findByGTypeIn_oob g true libs h1

theorem spec_domain_oob (libs : List TL) (dom : Str) (hf : specFindByErrorDomain libs dom = .oob) :
    ∃ t ∈ libs, byErrorDomain t.lib.dir dom = .oob := by
  unfold specFindByErrorDomain at hf
  induction libs with
  | nil => simp [findByErrorDomainIn] at hf
  | cons t ts ih =>
    simp only [findByErrorDomainIn] at hf
    split at hf
    · cases hf
    · obtain ⟨t', ht', h⟩ := ih hf
      exact ⟨t', by simp [ht'], h⟩
    · rename_i hb
      exact ⟨t, by simp, hb⟩

/-- what a cache-free search has to satisfy for the three lemmas below -/
structure SpecOK (by_ : TL → Found) (spec : RAns) (libs : List TL) : Prop where
  info : ∀ hit, spec = .info hit → ∃ t ∈ libs, t.ns = hit.ns ∧ by_ t = .entry hit.idx hit.entry
  null : spec = .null ↔ ∀ t ∈ libs, by_ t = .null
  oob : spec = .oob → ∃ t ∈ libs, by_ t = .oob

theorem specOK_gtype (libs : List TL) (g : Str) :
    SpecOK (fun t => byGTypeName t.lib.dir g) (specFindByGType libs g) libs :=
  ⟨(spec_gtype_agrees libs g).1, (spec_gtype_agrees libs g).2, spec_gtype_oob libs g⟩

theorem specOK_domain (libs : List TL) (dom : Str) :
    SpecOK (fun t => byErrorDomain t.lib.dir dom) (specFindByErrorDomain libs dom) libs :=
  ⟨(spec_domain_agrees libs dom).1, (spec_domain_agrees libs dom).2, spec_domain_oob libs dom⟩

/-- the uncached path: the answer IS the cache-free search -/
theorem agrees_of_spec {by_ : TL → Found} {spec : RAns} {libs : List TL} (h : SpecOK by_ spec libs) :
    AgreesWith by_ spec libs spec :=
  ⟨h.info, h.null, fun _ => rfl⟩

/-- the positive cache: an info that a still-loaded typelib justifies -/
theorem agrees_of_cached {by_ : TL → Found} {spec : RAns} {libs : List TL} (h : SpecOK by_ spec libs)
    (hit : Hit) (hc : ∃ t ∈ libs, t.ns = hit.ns ∧ by_ t = .entry hit.idx hit.entry) :
    AgreesWith by_ spec libs (.info hit) := by
  obtain ⟨t, ht, hns, hby⟩ := hc
  refine ⟨?_, ?_, ?_⟩
  · intro hit' he
    cases he
    exact ⟨t, ht, hns, hby⟩
  · constructor
    · intro he; cases he
    · intro hall
      rw [hall t ht] at hby; cases hby
  · intro huniq
    cases hs : spec with
    | info hit' =>
      obtain ⟨t', ht', hns', hby'⟩ := h.info hit' hs
      have := huniq t ht t' ht' (by rw [hby]; simp) (by rw [hby']; simp)
      subst this
      rw [hby] at hby'
      cases hit; cases hit'
      simp only [Found.entry.injEq] at hby'
      simp_all
    | null =>
      have := (h.null.mp hs) t ht
      rw [this] at hby; cases hby
    | oob =>
      obtain ⟨t', ht', hby'⟩ := h.oob hs
      have := huniq t ht t' ht' (by rw [hby]; simp) (by rw [hby']; simp)
      subst this
      rw [hby] at hby'; cases hby'

/-- the negative cache: NULL while every loaded typelib answers NULL -/
theorem agrees_of_unknown {by_ : TL → Found} {spec : RAns} {libs : List TL} (h : SpecOK by_ spec libs)
    (hall : ∀ t ∈ libs, by_ t = .null) : AgreesWith by_ spec libs .null :=
  ⟨fun _ he => (by cases he), ⟨fun _ => hall, fun _ => rfl⟩, fun _ => (h.null.mpr hall).symm⟩

theorem lookupCache_some (c : List (Str × Hit)) (k : Str) (hit : Hit) (h : lookupCache c k = some hit) :
    (k, hit) ∈ c := by
  unfold lookupCache at h
  split at h
  · rename_i p hp
    cases h
    have hk := List.find?_some hp
    have hm := List.mem_of_find?_eq_some hp
    have : p.1 = k := by simpa using hk
    rw [← this]
    exact hm
  · cases h

theorem lookupNs_some (l : List TL) (ns : Str) (t : TL) (h : lookupNs l ns = some t) : t ∈ l ∧ t.ns = ns := by
  unfold lookupNs at h
  exact ⟨List.mem_of_find?_eq_some h, by simpa using List.find?_some h⟩

theorem lookupNs_none (l : List TL) (ns : Str) : lookupNs l ns = none ↔ ∀ t ∈ l, t.ns ≠ ns := by
  unfold lookupNs
  simp [List.find?_eq_none]

theorem ns_inj_of_nodup (l : List TL) (hnd : (l.map (·.ns)).Nodup) (a b : TL) (ha : a ∈ l) (hb : b ∈ l)
    (h : a.ns = b.ns) : a = b := by
  induction l with
  | nil => cases ha
  | cons x xs ih =>
    simp only [List.map_cons, List.nodup_cons, List.mem_map, not_exists, not_and] at hnd
    rcases List.mem_cons.mp ha with rfl | ha' <;> rcases List.mem_cons.mp hb with rfl | hb'
    · rfl
    · exact absurd h.symm (hnd.1 b hb')
    · exact absurd h (hnd.1 a ha')
    · exact ih hnd.2 ha' hb'

theorem getRegistered_some (s : Repo) (ns : Str) (t : TL) (h : getRegistered s ns = some t) :
    t ∈ s.loaded ∧ t.ns = ns := by
  unfold getRegistered at h
  unfold Repo.loaded
  split at h
  · rename_i t' ht'
    cases h
    obtain ⟨hm, hn⟩ := lookupNs_some _ _ _ ht'
    exact ⟨List.mem_append_left _ hm, hn⟩
  · obtain ⟨hm, hn⟩ := lookupNs_some _ _ _ h
    exact ⟨List.mem_append_right _ hm, hn⟩

theorem getRegistered_none (s : Repo) (ns : Str) : getRegistered s ns = none ↔ ∀ t ∈ s.loaded, t.ns ≠ ns := by
  unfold getRegistered Repo.loaded
  constructor
  · intro h
    split at h
    · cases h
    · rename_i he
      intro t ht
      rcases List.mem_append.mp ht with ht | ht
      · exact (lookupNs_none _ _).mp he t ht
      · exact (lookupNs_none _ _).mp h t ht
  · intro hall
    have he : lookupNs s.eager ns = none :=
      (lookupNs_none _ _).mpr (fun t ht => hall t (List.mem_append_left _ ht))
    have hl : lookupNs s.lazy ns = none :=
      (lookupNs_none _ _).mpr (fun t ht => hall t (List.mem_append_right _ ht))
    rw [he]
    exact hl

theorem getRegistered_of_mem (s : Repo) (hnd : (s.loaded.map (·.ns)).Nodup) (t : TL) (ht : t ∈ s.loaded) :
    getRegistered s t.ns = some t := by
  cases h : getRegistered s t.ns with
  | none => exact absurd rfl ((getRegistered_none s t.ns).mp h t ht)
  | some t' =>
    obtain ⟨hm, hn⟩ := getRegistered_some s t.ns t' h
    rw [ns_inj_of_nodup s.loaded hnd t' t hm ht hn]

theorem mem_insertAt (l : List TL) (pos : Nat) (t x : TL) : x ∈ insertAt l pos t ↔ x = t ∨ x ∈ l := by
  unfold insertAt
  rw [List.mem_append, List.mem_cons]
  constructor
  · rintro (h | h | h)
    · exact Or.inr (List.mem_of_mem_take h)
    · exact Or.inl h
    · exact Or.inr (List.mem_of_mem_drop h)
  · rintro (h | h)
    · exact Or.inr (Or.inl h)
    · rw [← List.take_append_drop pos l, List.mem_append] at h
      rcases h with h | h
      · exact Or.inl h
      · exact Or.inr (Or.inr h)

theorem insertAt_perm (l : List TL) (pos : Nat) (t : TL) : (insertAt l pos t).Perm (t :: l) := by
  unfold insertAt
  have := List.perm_middle (a := t) (l₁ := l.take pos) (l₂ := l.drop pos)
  rwa [List.take_append_drop] at this

theorem step_findByGType (s : Repo) (g : Str) (hi : Inv s) :
    Inv (findByGTypeOp s g).1 ∧ (findByGTypeOp s g).1.loaded = s.loaded
      ∧ AnswerOK s (.findByGType g) (findByGTypeOp s g).2 := by
  have hspec := specOK_gtype s.loaded g
  unfold findByGTypeOp
  simp only [AnswerOK]
  split
  · rename_i hit hc
    exact ⟨hi, rfl, agrees_of_cached hspec hit (hi.gtype (g, hit) (lookupCache_some _ _ _ hc))⟩
  · split
    · rename_i hu
      have hu' : g ∈ s.unknownGTypes := by simpa using hu
      exact ⟨hi, rfl, agrees_of_unknown hspec (hi.unknown g hu')⟩
    · have hsearch := searchGType_eq_spec s g
      split
      · rename_i hit hs
        rw [hsearch] at hs
        refine ⟨⟨hi.unknown, ?_, hi.domain, hi.nodup⟩, rfl, ?_⟩
        · intro p hp
          rcases List.mem_cons.mp hp with rfl | hp'
          · exact hspec.info hit hs
          · exact hi.gtype p hp'
        · rw [← hs]; exact agrees_of_spec hspec
      · rename_i hs
        rw [hsearch] at hs
        refine ⟨⟨?_, hi.gtype, hi.domain, hi.nodup⟩, rfl, ?_⟩
        · intro g' hg'
          rcases List.mem_cons.mp hg' with rfl | hg''
          · exact hspec.null.mp hs
          · exact hi.unknown g' hg''
        · rw [← hs]; exact agrees_of_spec hspec
      · rename_i hs
        rw [hsearch] at hs
        refine ⟨hi, rfl, ?_⟩
        rw [← hs]; exact agrees_of_spec hspec

theorem step_findByErrorDomain (s : Repo) (dom : Str) (hi : Inv s) :
    Inv (findByErrorDomainOp s dom).1 ∧ (findByErrorDomainOp s dom).1.loaded = s.loaded
      ∧ AnswerOK s (.findByErrorDomain dom) (findByErrorDomainOp s dom).2 := by
  have hspec := specOK_domain s.loaded dom
  unfold findByErrorDomainOp
  simp only [AnswerOK]
  split
  · rename_i hit hc
    exact ⟨hi, rfl, agrees_of_cached hspec hit (hi.domain (dom, hit) (lookupCache_some _ _ _ hc))⟩
  · have hsearch := searchErrorDomain_eq_spec s dom
    split
    · rename_i hit hs
      rw [hsearch] at hs
      refine ⟨⟨hi.unknown, hi.gtype, ?_, hi.nodup⟩, rfl, ?_⟩
      · intro p hp
        rcases List.mem_cons.mp hp with rfl | hp'
        · exact hspec.info hit hs
        · exact hi.domain p hp'
      · rw [← hs]; exact agrees_of_spec hspec
    · refine ⟨hi, rfl, ?_⟩
      rw [hsearch]; exact agrees_of_spec hspec

theorem step_findByName (s : Repo) (ns name : Str) (hi : Inv s) :
    AnswerOK s (.findByName ns name) (findByNameOp s ns name) := by
  simp only [AnswerOK]
  constructor
  · intro t ht hns
    subst hns
    unfold findByNameOp
    rw [getRegistered_of_mem s hi.nodup t ht]
  · intro hall
    unfold findByNameOp
    rw [(getRegistered_none s ns).mpr hall]

/-- the invariant only reads membership in the tables, the namespaces and the caches -/
theorem inv_transfer (s s' : Repo) (hi : Inv s)
    (hmem : ∀ t, t ∈ s'.loaded ↔ t ∈ s.loaded) (hnd : (s'.loaded.map (·.ns)).Nodup)
    (hu : s'.unknownGTypes = s.unknownGTypes) (hg : s'.infoByGType = s.infoByGType)
    (hd : s'.infoByErrorDomain = s.infoByErrorDomain) : Inv s' := by
  refine ⟨?_, ?_, ?_, hnd⟩
  · intro g hg' t ht
    exact hi.unknown g (hu ▸ hg') t ((hmem t).mp ht)
  · intro p hp
    obtain ⟨t, ht, h⟩ := hi.gtype p (hg ▸ hp)
    exact ⟨t, (hmem t).mpr ht, h⟩
  · intro p hp
    obtain ⟨t, ht, h⟩ := hi.domain p (hd ▸ hp)
    exact ⟨t, (hmem t).mpr ht, h⟩

theorem step_rehash (s : Repo) (e l : List TL) (hi : Inv s) (hok : OpOk s (.rehash e l)) :
    Inv { s with eager := e, lazy := l } := by
  obtain ⟨he, hl⟩ := hok
  have hperm : (e ++ l).Perm (s.eager ++ s.lazy) := List.Perm.append he hl
  refine inv_transfer s _ hi (fun t => hperm.mem_iff) ?_ rfl rfl rfl
  exact ((hperm.map (·.ns)).nodup_iff).mpr hi.nodup

theorem isRegistered_false (s : Repo) (ns : Str) (lazy : Bool) (h : isRegistered s ns lazy = false) :
    lookupNs s.eager ns = none ∧ (lazy = true → lookupNs s.lazy ns = none) := by
  unfold isRegistered at h
  split at h
  · cases h
  · rename_i he
    refine ⟨he, ?_⟩
    intro hl
    split at h
    · assumption
    · subst hl; cases h

theorem transitionPromotes_now : transitionPromotes = true := by decide

theorem promoted_cases (s : Repo) (t : TL) :
    (lookupNs s.lazy t.ns = none ∧ promoted s t = t)
    ∨ (∃ t0, lookupNs s.lazy t.ns = some t0 ∧ promoted s t = t0) := by
  unfold promoted
  rw [transitionPromotes_now]
  simp only [if_true]
  cases h : lookupNs s.lazy t.ns with
  | none => exact Or.inl ⟨rfl, rfl⟩
  | some t0 => exact Or.inr ⟨t0, rfl, rfl⟩

theorem promoted_ns (s : Repo) (t : TL) : (promoted s t).ns = t.ns := by
  rcases promoted_cases s t with ⟨_, h⟩ | ⟨t0, h0, h⟩
  · rw [h]
  · rw [h]; exact (lookupNs_some _ _ _ h0).2

/-- `register_internal` never trips its assertion when called from the load functions -/
theorem loadOp_ne_none (s : Repo) (t : TL) (lazy : Bool) (pos : Nat) : loadOp s t lazy pos ≠ none := by
  unfold loadOp
  split
  · simp
  · rename_i hreg
    have hreg' : isRegistered s t.ns lazy = false := by simpa using hreg
    obtain ⟨_, hl⟩ := isRegistered_false s t.ns lazy hreg'
    unfold registerInternal registerInternalWith
    cases lazy with
    | true => simp [promoted_ns, hl rfl]
    | false => simp

/-- one `register_internal` of a namespace that is not in the loaded table (nor, for a lazy
    registration, in the lazy table): when it replaces a lazily loaded typelib the new one has the
    same directory -/
theorem step_register (s s' : Repo) (t : TL) (lazy : Bool) (pos : Nat) (hi : Inv s)
    (he : lookupNs s.eager t.ns = none) (hl : lazy = true → lookupNs s.lazy t.ns = none)
    (hok : lazy = false → ∀ t' ∈ s.lazy, t'.ns = t.ns → t'.lib.dir = t.lib.dir)
    (h : registerInternal s t lazy pos = some s') : Inv s' := by
  obtain ⟨hct, hcf⟩ := registerClearsUnknown_now
  · have hne : ∀ x ∈ s.eager, x.ns ≠ t.ns := (lookupNs_none _ _).mp he
    have hnd0 := hi.nodup
    unfold Repo.loaded at hnd0
    rw [List.map_append] at hnd0
    unfold registerInternal registerInternalWith at h
    cases lazy with
    | true =>
      have hl' := hl rfl
      have hnl : ∀ x ∈ s.lazy, x.ns ≠ t.ns := (lookupNs_none _ _).mp hl'
      simp only [hl', hct, if_true] at h
      cases h
      refine ⟨(by intro g hg; cases hg), ?_, ?_, ?_⟩
      · intro p hp
        obtain ⟨x, hx, hh⟩ := hi.gtype p hp
        refine ⟨x, ?_, hh⟩
        unfold Repo.loaded at hx ⊢
        rcases List.mem_append.mp hx with hx | hx
        · exact List.mem_append_left _ hx
        · exact List.mem_append_right _ ((mem_insertAt _ _ _ _).mpr (Or.inr hx))
      · intro p hp
        obtain ⟨x, hx, hh⟩ := hi.domain p hp
        refine ⟨x, ?_, hh⟩
        unfold Repo.loaded at hx ⊢
        rcases List.mem_append.mp hx with hx | hx
        · exact List.mem_append_left _ hx
        · exact List.mem_append_right _ ((mem_insertAt _ _ _ _).mpr (Or.inr hx))
      · show ((s.eager ++ insertAt s.lazy pos t).map (·.ns)).Nodup
        have hp : (s.eager ++ insertAt s.lazy pos t).Perm (t :: (s.eager ++ s.lazy)) :=
          ((insertAt_perm s.lazy pos t).append_left s.eager).trans List.perm_middle
        rw [((hp.map (·.ns)).nodup_iff)]
        simp only [List.map_cons, List.nodup_cons, List.mem_map, List.mem_append, not_exists, not_and]
        refine ⟨?_, by simpa [Repo.loaded] using hi.nodup⟩
        intro x hx
        rcases hx with hx | hx
        · exact hne x hx
        · exact hnl x hx
    | false =>
      simp only [Bool.false_eq_true, if_false, hcf, if_true] at h
      cases h
      have hsame := hok rfl
      have hwit : ∀ x ∈ s.loaded, ∃ y ∈ insertAt s.eager pos t ++ s.lazy.filter (fun x => !(x.ns == t.ns)),
          y.ns = x.ns ∧ y.lib.dir = x.lib.dir := by
        intro x hx
        unfold Repo.loaded at hx
        rcases List.mem_append.mp hx with hx | hx
        · exact ⟨x, List.mem_append_left _ ((mem_insertAt _ _ _ _).mpr (Or.inr hx)), rfl, rfl⟩
        · by_cases hxn : x.ns = t.ns
          · exact ⟨t, List.mem_append_left _ ((mem_insertAt _ _ _ _).mpr (Or.inl rfl)), hxn.symm,
              (hsame x hx hxn).symm⟩
          · exact ⟨x, List.mem_append_right _ (List.mem_filter.mpr ⟨hx, by simpa using hxn⟩), rfl, rfl⟩
      refine ⟨(by intro g hg; cases hg), ?_, ?_, ?_⟩
      · intro p hp
        obtain ⟨x, hx, hns, hby⟩ := hi.gtype p hp
        obtain ⟨y, hy, hyn, hyd⟩ := hwit x hx
        exact ⟨y, hy, hyn.trans hns, by rw [hyd]; exact hby⟩
      · intro p hp
        obtain ⟨x, hx, hns, hby⟩ := hi.domain p hp
        obtain ⟨y, hy, hyn, hyd⟩ := hwit x hx
        exact ⟨y, hy, hyn.trans hns, by rw [hyd]; exact hby⟩
      · show ((insertAt s.eager pos t ++ s.lazy.filter (fun x => !(x.ns == t.ns))).map (·.ns)).Nodup
        have hp : (insertAt s.eager pos t ++ s.lazy.filter (fun x => !(x.ns == t.ns))).Perm
            (t :: (s.eager ++ s.lazy.filter (fun x => !(x.ns == t.ns)))) :=
          (insertAt_perm s.eager pos t).append_right _
        rw [((hp.map (·.ns)).nodup_iff)]
        simp only [List.map_cons, List.nodup_cons, List.mem_map, List.mem_append, List.mem_filter, not_exists,
          not_and]
        constructor
        · intro x hx
          rcases hx with hx | ⟨_, hx⟩
          · exact hne x hx
          · simpa using hx
        · have hsub : (s.eager ++ s.lazy.filter (fun x => !(x.ns == t.ns))).Sublist (s.eager ++ s.lazy) :=
            List.Sublist.append_left List.filter_sublist s.eager
          exact (hi.nodup).sublist (hsub.map (·.ns))

theorem step_load (s s' : Repo) (t : TL) (lazy : Bool) (pos : Nat) (hi : Inv s)
    (h : loadOp s t lazy pos = some s') : Inv s' := by
  unfold loadOp at h
  split at h
  · cases h; exact hi
  · rename_i hreg
    have hreg' : isRegistered s t.ns lazy = false := by simpa using hreg
    obtain ⟨he, hl⟩ := isRegistered_false s t.ns lazy hreg'
    have hns := promoted_ns s t
    refine step_register s s' (promoted s t) lazy pos hi (by rw [hns]; exact he)
      (fun hz => by rw [hns]; exact hl hz) ?_ h
    intro _ x hx hxn
    rcases promoted_cases s t with ⟨hnone, _⟩ | ⟨t0, h0, hp⟩
    · exact absurd (hxn.trans hns) ((lookupNs_none _ _).mp hnone x hx)
    · -- the typelib registered IS the one of the lazy table
      rw [hp] at hxn ⊢
      obtain ⟨hm0, _⟩ := lookupNs_some _ _ _ h0
      have := ns_inj_of_nodup s.loaded hi.nodup x t0 (List.mem_append_right _ hx)
        (List.mem_append_right _ hm0) hxn
      rw [this]

end GIVerif.Lookup
