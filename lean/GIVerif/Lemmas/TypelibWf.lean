/-
  C06: decidable well-formedness checks over the GENERATED tables (Gen/TypelibLayout,
  Gen/TypelibConsts).  They are evaluated by `decide +kernel` in Props/C06.lean, i.e. proved
  for the whole finite table, on every run, against the current tree.
-/
import GIVerif.Model.TypelibDecode

namespace GIVerif.Typelib

/-- all members of struct `s` as bit ranges: scalar / bit-field members, nested structs,
    arrays of known size -/
def allRanges (s : String) : List Field :=
  fieldsOf s ++
  (Gen.blobNested.filterMap fun (st, f, off, _, sz) => if st == s then some ⟨f, 8 * off, 8 * sz⟩ else none) ++
  (Gen.blobArrays.filterMap fun (st, f, off, _, sz) =>
    if st == s && sz != 0 then some ⟨f, 8 * off, 8 * sz⟩ else none)

/-- a struct: members inside, pairwise disjoint, and covering every bit (no hole a future
    member could silently appear in); a union: every member starts at bit 0 and fits -/
def structOk (s kind : String) (size : Nat) : Bool :=
  if kind == "struct" then
    wfStruct size (allRanges s) && ((allRanges s).map (·.width)).sum == 8 * size
  else
    (allRanges s).all (fun f => f.first == 0 && 0 < f.width && f.width ≤ 8 * size)

def allStructsOk : Bool := Gen.blobSizes.all fun (s, kind, size) => structOk s kind size

/-- the scalar members alone (what the codec theorem is applied to) are well-formed for every struct -/
def allScalarLayoutsOk : Bool :=
  Gen.blobSizes.all fun (s, kind, size) => kind != "struct" || wfStruct size (fieldsOf s)

/-- a flexible array member starts exactly at `sizeof` of its struct (the decoder relies on it) -/
def flexArraysOk : Bool := Gen.blobArrays.all fun (st, _, off, _, sz) => sz != 0 || off == sizeOf' st

/-- `CHECK_SIZE (S, n)` of gitypelib.c agrees with the measured `sizeof (S)` -/
def checkSizesOk : Bool := Gen.typelibCheckSizes.all fun (s, n) => sizeOf' s == n

/-- every `header->X_blob_size` written by girmodule.c is a 16-bit member of Header and is set to
    `sizeof` of a known struct (or a literal) -/
def headerWrittenOk : Bool :=
  Gen.headerBlobSizeWritten.all fun (member, struct, _) =>
    (LHeader.field? member).any (fun f => f.width == 16) && (struct == "" || sizeOf' struct != 0)

/-- what validate_header compares is what girmodule.c writes -/
def headerCheckedOk : Bool :=
  Gen.headerBlobSizeChecked.all fun (member, struct) => Gen.headerBlobSizeWritten.contains (member, struct, 0)

/-- the members the decoder asks for, per layout -/
def usedMembers : List (String × List String) := [
  ("Header", headerNums),
  ("Section", ["id", "offset"]),
  ("DirEntry", ["blob_type", "local", "reserved", "name", "offset"]),
  ("SimpleTypeBlobFlags", ["reserved", "reserved2", "pointer", "tag"]),
  ("SimpleTypeBlob", ["offset"]),
  ("CommonBlob", ["blob_type"]),
  ("ArgBlob", ["name", "in", "out", "caller_allocates", "nullable", "optional", "transfer_ownership",
    "transfer_container_ownership", "return_value", "skip", "scope", "closure", "destroy", "reserved", "padding"]),
  ("SignatureBlob", ["may_return_null", "caller_owns_return_value", "caller_owns_return_container", "skip_return",
    "instance_transfer_ownership", "throws", "reserved", "n_arguments"]),
  ("FunctionBlob", ["blob_type", "deprecated", "setter", "getter", "constructor", "wraps_vfunc", "throws", "is_static",
    "is_async", "index", "sync_or_async", "finish", "reserved", "reserved2", "name", "symbol", "signature"]),
  ("CallbackBlob", ["blob_type", "deprecated", "reserved", "name", "signature"]),
  ("InterfaceTypeBlob", ["tag", "pointer", "interface"]),
  ("ArrayTypeDimension", ["length"]),
  ("ArrayTypeBlob", ["zero_terminated", "has_length", "has_size", "array_type"]),
  ("ParamTypeBlob", ["n_types"]),
  ("ErrorTypeBlob", ["n_domains"]),
  ("ValueBlob", ["name", "deprecated", "unsigned_value", "reserved", "value"]),
  ("FieldBlob", ["name", "readable", "writable", "has_embedded_type", "bits", "struct_offset", "reserved", "reserved2"]),
  ("StructBlob", ["blob_type", "name", "gtype_name", "gtype_init", "deprecated", "unregistered", "is_gtype_struct",
    "foreign", "alignment", "size", "n_fields", "n_methods", "reserved", "copy_func", "free_func"]),
  ("UnionBlob", ["blob_type", "name", "gtype_name", "gtype_init", "deprecated", "unregistered", "discriminated",
    "alignment", "size", "n_fields", "n_functions", "reserved", "discriminator_offset", "copy_func", "free_func"]),
  ("EnumBlob", ["blob_type", "name", "gtype_name", "gtype_init", "deprecated", "unregistered", "storage_type",
    "n_values", "n_methods", "reserved", "error_domain"]),
  ("PropertyBlob", ["name", "deprecated", "readable", "writable", "construct", "construct_only", "transfer_ownership",
    "transfer_container_ownership", "setter", "getter", "reserved", "reserved2"]),
  ("SignalBlob", ["name", "deprecated", "run_first", "run_last", "run_cleanup", "no_recurse", "detailed", "action",
    "no_hooks", "has_class_closure", "true_stops_emit", "class_closure", "reserved", "reserved2", "signature"]),
  ("VFuncBlob", ["name", "must_chain_up", "must_be_implemented", "must_not_be_implemented", "class_closure", "throws",
    "is_async", "sync_or_async", "signal", "struct_offset", "invoker", "finish", "reserved", "reserved2", "reserved3",
    "signature"]),
  ("ObjectBlob", ["blob_type", "name", "gtype_name", "gtype_init", "deprecated", "abstract", "fundamental", "final_",
    "parent", "gtype_struct", "n_interfaces", "n_fields", "n_properties", "n_methods", "n_signals", "n_vfuncs",
    "n_constants", "n_field_callbacks", "reserved", "reserved3", "reserved4", "ref_func", "unref_func",
    "set_value_func", "get_value_func"]),
  ("InterfaceBlob", ["blob_type", "name", "gtype_name", "gtype_init", "deprecated", "gtype_struct", "n_prerequisites",
    "n_properties", "n_methods", "n_signals", "n_vfuncs", "n_constants", "reserved", "padding", "reserved2", "reserved3"]),
  ("ConstantBlob", ["blob_type", "name", "deprecated", "reserved", "reserved2", "size", "offset"]),
  ("AttributeBlob", ["offset", "name", "value"])]

def usedMembersOk : Bool :=
  usedMembers.all fun (s, ms) => ms.all fun m => ((layoutOf s).field? m).isSome

/-- nested / array members the decoder locates by name -/
def usedNested : List (String × String) := [
  ("ArgBlob", "arg_type"), ("SignatureBlob", "return_type"), ("SignatureBlob", "arguments"),
  ("ArrayTypeBlob", "dimensions"), ("ArrayTypeBlob", "type"), ("ParamTypeBlob", "type"), ("ErrorTypeBlob", "domains"),
  ("FieldBlob", "type"), ("PropertyBlob", "type"), ("ConstantBlob", "type"), ("UnionBlob", "discriminator_type"),
  ("Header", "padding")]

def usedNestedOk : Bool := usedNested.all fun (s, m) => (nestedOffset s m).isSome

/-- the type-tag position is the same in the four out-of-line type blobs (the decoder reads the
    tag through InterfaceTypeBlob before it knows which one it is), and the 32-bit `offset` view of a
    SimpleTypeBlob covers exactly its flags view -/
def tagPositionsOk : Bool :=
  let tp (s : String) := ((layoutOf s).field? "tag").map (fun f => (f.first, f.width))
  let pp (s : String) := ((layoutOf s).field? "pointer").map (fun f => (f.first, f.width))
  tp "InterfaceTypeBlob" == tp "ArrayTypeBlob" && tp "InterfaceTypeBlob" == tp "ParamTypeBlob" &&
  tp "InterfaceTypeBlob" == tp "ErrorTypeBlob" && (tp "InterfaceTypeBlob").isSome &&
  pp "InterfaceTypeBlob" == pp "ArrayTypeBlob" && pp "InterfaceTypeBlob" == pp "ParamTypeBlob" &&
  pp "InterfaceTypeBlob" == pp "ErrorTypeBlob" && (pp "InterfaceTypeBlob").isSome &&
  sizeOf' "SimpleTypeBlob" == sizeOf' "SimpleTypeBlobFlags"

/-- the enumerators the decoder switches on exist -/
def usedEnumsOk : Bool :=
  (["GI_TYPE_TAG_ARRAY", "GI_TYPE_TAG_INTERFACE", "GI_TYPE_TAG_GLIST", "GI_TYPE_TAG_GSLIST", "GI_TYPE_TAG_GHASH",
    "GI_TYPE_TAG_ERROR"].all fun n => (enumVal "GITypeTag" n).isSome) &&
  (["BLOB_TYPE_FUNCTION", "BLOB_TYPE_CALLBACK", "BLOB_TYPE_STRUCT", "BLOB_TYPE_BOXED", "BLOB_TYPE_ENUM",
    "BLOB_TYPE_FLAGS", "BLOB_TYPE_OBJECT", "BLOB_TYPE_INTERFACE", "BLOB_TYPE_CONSTANT", "BLOB_TYPE_UNION"].all
    fun n => (enumVal "GTypelibBlobType" n).isSome)

end GIVerif.Typelib
