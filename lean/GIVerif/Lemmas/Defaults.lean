import GIVerif.Model.Defaults

namespace GIVerif.Defaults
open GIVerif.Py GIVerif.Types

/-! ### `_pass3_callable_throws` -/

theorem pass3Throws_nil (b : Bool) : pass3Throws [] b = ([], b) := rfl

theorem pass3Throws_concat (init : List Param) (last : Param) (b : Bool) :
    pass3Throws (init ++ [last]) b =
      if last.ty.ctype == Gen.throwsCtype.toList then (init, true) else (init ++ [last], b) := by
  unfold pass3Throws
  rw [List.getLast?_concat]
  simp only [List.dropLast_concat]

/-! ### second loop of `_pass3_callable_callbacks` -/

/-- effect of one follower on the callback it belongs to -/
def absorb1 (c p : Param) : Param :=
  if isDestroyNotify p then { c with destroy := some p.name, scope := some .notified, transfer := some .none }
  else if isUserData p then { c with closure := some p.name }
  else c

/-- effect of all followers up to the next callback -/
def absorb (c : Param) (seg : List Param) : Param := seg.foldl absorb1 c

/-- no parameter of the segment starts a new callback group -/
def NoPlainCallback (seg : List Param) : Prop := ∀ p ∈ seg, isPlainCallback p = false

theorem cbStep_plain (s : CbState) (p : Param) (h : isPlainCallback p = true) :
    cbStep s p = ⟨s.flush, some p, []⟩ := by
  simp only [cbStep, h, if_true]

theorem cbStep_none (b a : List Param) (p : Param) (h : isPlainCallback p = false) :
    cbStep ⟨b, none, a⟩ p = ⟨b ++ [p], none, []⟩ := by
  simp only [cbStep, h, Bool.false_eq_true, if_false]

theorem cbStep_some (b a : List Param) (c p : Param) (h : isPlainCallback p = false) :
    cbStep ⟨b, some c, a⟩ p = ⟨b, some (absorb1 c p), a ++ [p]⟩ := by
  simp only [cbStep, h, Bool.false_eq_true, if_false, absorb1]
  split
  · rfl
  · split <;> rfl

/-- the parameters in front of `callback_param` are only carried along -/
theorem cbStep_prefix (pre : List Param) (s : CbState) (p : Param) :
    cbStep ⟨pre ++ s.before, s.cur, s.after⟩ p =
      ⟨pre ++ (cbStep s p).before, (cbStep s p).cur, (cbStep s p).after⟩ := by
  by_cases h : isPlainCallback p = true
  · rw [cbStep_plain _ _ h, cbStep_plain _ _ h]
    simp [CbState.flush, List.append_assoc]
  · have h' : isPlainCallback p = false := by simpa using h
    cases s with
    | mk b cur a =>
      cases cur with
      | none => simp only [cbStep_none _ _ _ h', List.append_assoc]
      | some c => simp only [cbStep_some _ _ _ _ h']

theorem foldl_cbStep_prefix (pre : List Param) (xs : List Param) (s : CbState) :
    (xs.foldl cbStep ⟨pre ++ s.before, s.cur, s.after⟩).flush = pre ++ (xs.foldl cbStep s).flush := by
  induction xs generalizing s with
  | nil => simp [CbState.flush, List.append_assoc]
  | cons x xs ih =>
    simp only [List.foldl_cons]
    rw [cbStep_prefix]
    exact ih (cbStep s x)

theorem foldl_cbStep_none (b : List Param) (pre : List Param) (h : NoPlainCallback pre) :
    pre.foldl cbStep ⟨b, none, []⟩ = ⟨b ++ pre, none, []⟩ := by
  induction pre generalizing b with
  | nil => simp
  | cons x xs ih =>
    simp only [List.foldl_cons]
    rw [cbStep_none _ _ _ (h x (by simp)), ih _ (fun p hp => h p (by simp [hp]))]
    simp

theorem foldl_cbStep_some (b a : List Param) (c : Param) (seg : List Param) (h : NoPlainCallback seg) :
    seg.foldl cbStep ⟨b, some c, a⟩ = ⟨b, some (absorb c seg), a ++ seg⟩ := by
  induction seg generalizing c a with
  | nil => simp [absorb]
  | cons x xs ih =>
    simp only [List.foldl_cons]
    rw [cbStep_some _ _ _ _ (h x (by simp)), ih _ _ (fun p hp => h p (by simp [hp]))]
    simp [absorb]

/-- parameters in front of the first callback are left alone -/
theorem assignCallbacks_prefix (pre rest : List Param) (h : NoPlainCallback pre) :
    assignCallbacks (pre ++ rest) = pre ++ assignCallbacks rest := by
  unfold assignCallbacks
  rw [List.foldl_append, foldl_cbStep_none [] pre h]
  have := foldl_cbStep_prefix pre rest ⟨[], none, []⟩
  simpa using this

theorem assignCallbacks_cons_plain (c : Param) (tail : List Param) (h : isPlainCallback c = true) :
    assignCallbacks (c :: tail) = (tail.foldl cbStep ⟨[], some c, []⟩).flush := by
  unfold assignCallbacks
  simp only [List.foldl_cons]
  rw [cbStep_plain _ _ h]
  simp [CbState.flush]

/-- a callback collects exactly the followers up to the next callback: the group
    `c :: seg` is rewritten to `absorb c seg :: seg`, whatever comes behind -/
theorem assignCallbacks_group (c : Param) (seg rest : List Param) (hc : isPlainCallback c = true)
    (hseg : NoPlainCallback seg) (hrest : rest = [] ∨ ∃ r rs, rest = r :: rs ∧ isPlainCallback r = true) :
    assignCallbacks (c :: (seg ++ rest)) = absorb c seg :: (seg ++ assignCallbacks rest) := by
  rw [assignCallbacks_cons_plain c _ hc, List.foldl_append, foldl_cbStep_some _ _ _ _ hseg]
  rcases hrest with rfl | ⟨r, rs, rfl, hr⟩
  · simp [CbState.flush, assignCallbacks]
  · simp only [List.foldl_cons, List.nil_append]
    rw [cbStep_plain _ _ hr, assignCallbacks_cons_plain r rs hr]
    have := foldl_cbStep_prefix (absorb c seg :: seg) rs ⟨[], some r, []⟩
    simpa [CbState.flush] using this

/-! ### what `absorb` does to the callback -/

theorem rev_induction {α : Type} {motive : List α → Prop} (nil : motive [])
    (snoc : ∀ xs x, motive xs → motive (xs ++ [x])) (l : List α) : motive l := by
  have h : ∀ r : List α, motive r.reverse := by
    intro r
    induction r with
    | nil => simpa using nil
    | cons x xs ih => simpa using snoc _ x ih
  simpa using h l.reverse

/-- a follower that becomes the closure of the callback in front of it -/
def isClosureData (p : Param) : Bool := !isDestroyNotify p && isUserData p

theorem absorb_append (c : Param) (a b : List Param) : absorb c (a ++ b) = absorb (absorb c a) b := by
  simp [absorb, List.foldl_append]

theorem absorb1_frame (c p : Param) :
    (absorb1 c p).name = c.name ∧ (absorb1 c p).node = c.node ∧ (absorb1 c p).ty = c.ty ∧
    (absorb1 c p).direction = c.direction ∧ (absorb1 c p).callerAllocates = c.callerAllocates ∧
    (absorb1 c p).nullable = c.nullable ∧ (absorb1 c p).notNullable = c.notNullable := by
  unfold absorb1
  split
  · exact ⟨rfl, rfl, rfl, rfl, rfl, rfl, rfl⟩
  · split <;> exact ⟨rfl, rfl, rfl, rfl, rfl, rfl, rfl⟩

theorem absorb_frame (c : Param) (seg : List Param) :
    (absorb c seg).name = c.name ∧ (absorb c seg).node = c.node ∧ (absorb c seg).ty = c.ty ∧
    (absorb c seg).direction = c.direction ∧ (absorb c seg).callerAllocates = c.callerAllocates ∧
    (absorb c seg).nullable = c.nullable ∧ (absorb c seg).notNullable = c.notNullable := by
  induction seg generalizing c with
  | nil => exact ⟨rfl, rfl, rfl, rfl, rfl, rfl, rfl⟩
  | cons x xs ih =>
    have h1 := absorb1_frame c x
    have h2 := ih (absorb1 c x)
    simp only [absorb, List.foldl_cons] at h2 ⊢
    obtain ⟨a1, a2, a3, a4, a5, a6, a7⟩ := h1
    obtain ⟨b1, b2, b3, b4, b5, b6, b7⟩ := h2
    exact ⟨b1.trans a1, b2.trans a2, b3.trans a3, b4.trans a4, b5.trans a5, b6.trans a6, b7.trans a7⟩

/-- closure: the LAST user-data follower of the group wins; none ⇒ unchanged -/
theorem absorb_closure (c : Param) (seg : List Param) :
    (absorb c seg).closure =
      match (seg.filter isClosureData).getLast? with
      | some p => some p.name
      | none => c.closure := by
  induction seg using rev_induction with
  | nil => simp [absorb]
  | snoc xs x ih =>
    rw [absorb_append, List.filter_append]
    simp only [absorb, List.foldl_cons, List.foldl_nil] at ih ⊢
    by_cases hd : isDestroyNotify x = true
    · have : isClosureData x = false := by simp [isClosureData, hd]
      simp only [List.filter_cons, this, Bool.false_eq_true, if_false, List.filter_nil, List.append_nil]
      rw [← ih]
      simp [absorb1, hd]
    · have hd' : isDestroyNotify x = false := by simpa using hd
      by_cases hu : isUserData x = true
      · have : isClosureData x = true := by simp [isClosureData, hd', hu]
        simp only [List.filter_cons, this, if_true, List.filter_nil, List.getLast?_concat]
        simp [absorb1, hd', hu]
      · have hu' : isUserData x = false := by simpa using hu
        have : isClosureData x = false := by simp [isClosureData, hu']
        simp only [List.filter_cons, this, Bool.false_eq_true, if_false, List.filter_nil, List.append_nil]
        rw [← ih]
        simp [absorb1, hd', hu']

/-- destroy / scope: the LAST destroy notify of the group wins and sets scope notified -/
theorem absorb_destroy (c : Param) (seg : List Param) :
    ((absorb c seg).destroy, (absorb c seg).scope, (absorb c seg).transfer) =
      match (seg.filter isDestroyNotify).getLast? with
      | some p => (some p.name, some Scope.notified, some Transfer.none)
      | none => (c.destroy, c.scope, c.transfer) := by
  induction seg using rev_induction with
  | nil => simp [absorb]
  | snoc xs x ih =>
    rw [absorb_append, List.filter_append]
    simp only [absorb, List.foldl_cons, List.foldl_nil] at ih ⊢
    by_cases hd : isDestroyNotify x = true
    · simp only [List.filter_cons, hd, if_true, List.filter_nil, List.getLast?_concat]
      simp [absorb1, hd]
    · have hd' : isDestroyNotify x = false := by simpa using hd
      simp only [List.filter_cons, hd', Bool.false_eq_true, if_false, List.filter_nil, List.append_nil]
      rw [← ih]
      unfold absorb1
      simp only [hd', Bool.false_eq_true, if_false]
      split <;> rfl

/-! ### parameter indices written as closure= / destroy= -/

theorem getParameterIndex_at (a b : List Param) (p : Param) (h : ∀ x ∈ a, x.name ≠ p.name) :
    getParameterIndex (a ++ p :: b) p.name = .ok a.length := by
  unfold getParameterIndex
  have : (a ++ p :: b).findIdx? (fun x => x.name == p.name) = some a.length := by
    induction a with
    | nil => simp [List.findIdx?_cons]
    | cons x xs ih =>
      have hx : (x.name == p.name) = false := by simpa using h x (by simp)
      simp only [List.cons_append, List.findIdx?_cons, hx, Bool.false_eq_true, if_false, List.length_cons]
      rw [ih (fun y hy => h y (by simp [hy]))]
      simp
  rw [this]

/-! ### third loop: closure targets become nullable, nothing else changes -/

def clearNullable (p : Param) : Param := { p with nullable := false }

theorem clearNullable_setNullable (p : Param) : clearNullable (setNullable p) = clearNullable p := by
  unfold setNullable clearNullable
  split <;> rfl

theorem map_modify_of_fixed {α β : Type} (g : α → β) (f : α → α) (hf : ∀ x, g (f x) = g x) (l : List α) (i : Nat) :
    (l.modify i f).map g = l.map g := by
  induction l generalizing i with
  | nil => simp
  | cons x xs ih =>
    cases i with
    | zero => simp [hf]
    | succ i => simp [ih]

theorem closureNullable_frame_aux (xs acc acc' : List Param)
    (h : xs.foldlM (fun acc p =>
      match p.closure with
      | none => Except.ok acc
      | some n => do
        let idx ← getParameterIndex acc n
        pure (acc.modify idx setNullable)) acc = Except.ok acc') :
    acc'.map clearNullable = acc.map clearNullable := by
  induction xs generalizing acc with
  | nil =>
    simp only [List.foldlM_nil, pure, Except.pure, Except.ok.injEq] at h
    rw [h]
  | cons x xs ih =>
    simp only [List.foldlM_cons, bind, Except.bind] at h
    cases hc : x.closure with
    | none =>
      simp only [hc] at h
      exact ih acc h
    | some n =>
      simp only [hc] at h
      cases hi : getParameterIndex acc n with
      | error e => simp only [hi] at h; cases h
      | ok idx =>
        simp only [hi, pure, Except.pure] at h
        rw [ih _ h]
        exact map_modify_of_fixed clearNullable setNullable clearNullable_setNullable acc idx

/-- the third loop only ever touches the `nullable` flag -/
theorem closureNullable_frame (ps ps' : List Param) (h : closureNullable ps = .ok ps') :
    ps'.map clearNullable = ps.map clearNullable :=
  closureNullable_frame_aux ps ps ps' h

/-! ### transfer defaults -/

theorem transferDefault_void (pos : Position) (ctor : Bool) (d : Option Direction) (ca : Bool) (ty : TyInfo)
    (h : isEquivNone ty = true ∨ ty.isVarargs = true) :
    transferDefault pos ctor d ca ty = .ok (some .none) := by
  unfold transferDefault
  rcases h with h | h <;> simp [h]

theorem transferDefault_param (ctor : Bool) (d : Option Direction) (ca : Bool) (ty : TyInfo)
    (h1 : isEquivNone ty = false) (h2 : ty.isVarargs = false) :
    transferDefault .parameter ctor d ca ty = .ok (some (transferDefaultParam d ca)) := by
  unfold transferDefault
  simp [h1, h2]

theorem transferDefault_field (ctor : Bool) (d : Option Direction) (ca : Bool) (ty : TyInfo) :
    transferDefault .field ctor d ca ty = .ok (some .none) ∧
    transferDefault .property ctor d ca ty = .ok (some .none) := by
  unfold transferDefault
  constructor <;> split <;> rfl

theorem transferDefault_return (ctor : Bool) (d : Option Direction) (ca : Bool) (ty : TyInfo)
    (h1 : isEquivNone ty = false) (h2 : ty.isVarargs = false) :
    transferDefault .return_ ctor d ca ty = transferDefaultReturn ctor ty := by
  unfold transferDefault
  simp [h1, h2]

/-! ### returned typedef chains (`_get_transfer_default_return`, alias branch) -/

/-- the type of a value declared with a typedef name `g` whose alias chain has the target types `links` -/
def chainTy (g : Str) (links : List AliasLink) : TyInfo :=
  { fundamental := none, giname := some g, node := some (.alias links), callbackName := none, ctype := g,
    isConst := false, isVarargs := false }

/-- the basic rule for a non-const value of fundamental type `f` -/
def fundDefault (f : Str) : Option Transfer :=
  transferDefaultReturnBasic
    { fundamental := some f, giname := none, node := none, callbackName := none, ctype := [], isConst := false,
      isVarargs := false }

/-- the statement's default for a returned value whose typedef chain has constness `consts` (one entry per
    typedef, outermost first) and ends in the fundamental `f`: const anywhere along the chain makes it a
    returned const value (none); otherwise what the fundamental gets (basic types and untyped pointers none,
    non-const strings full) -/
def documentedChainDefault (consts : List Bool) (f : Str) : Option Transfer :=
  if consts.any id then some .none else fundDefault f

theorem chainTy_basic (g : Str) (links : List AliasLink) :
    isEquivNone (chainTy g links) = false ∧ transferDefaultReturnBasic (chainTy g links) = none := by
  have hn : isEquivNone (chainTy g links) = false := by simp [isEquivNone, isEquivFund, chainTy]
  have hb : isEquivBasicGir (chainTy g links) = false := by simp [isEquivBasicGir, isEquivFund, chainTy]
  have ha : isEquivAny (chainTy g links) = false := by simp [isEquivAny, isEquivFund, chainTy]
  have hs : isEquivFund (chainTy g links) stringName = false := by simp [isEquivFund, chainTy]
  have hc : (chainTy g links).isConst = false := rfl
  refine ⟨hn, ?_⟩
  unfold transferDefaultReturnBasic
  simp [hn, hb, ha, hs, hc]

/-- an alias whose target is a typedef name (giname, no fundamental) decides only by its constness -/
theorem basic_mid (l : AliasLink) (h1 : l.fundamental = none) (h2 : l.giname.isSome = true) :
    transferDefaultReturnBasic l.ty = if l.isConst then some .none else none := by
  obtain ⟨g, hg⟩ := Option.isSome_iff_exists.mp h2
  have hn : isEquivNone l.ty = false := by simp [isEquivNone, isEquivFund, AliasLink.ty, h1, hg]
  have hb : isEquivBasicGir l.ty = false := by simp [isEquivBasicGir, isEquivFund, AliasLink.ty, h1, hg]
  have ha : isEquivAny l.ty = false := by simp [isEquivAny, isEquivFund, AliasLink.ty, h1, hg]
  have hs : isEquivFund l.ty stringName = false := by simp [isEquivFund, AliasLink.ty, h1, hg]
  have hc : l.ty.isConst = l.isConst := rfl
  unfold transferDefaultReturnBasic
  cases hl : l.isConst <;> simp [hn, hb, ha, hs, hc, hl]

/-- an alias whose target is a fundamental: const ⇒ none, else the basic rule of that fundamental -/
theorem basic_last (l : AliasLink) (f : Str) (h : l.fundamental = some f) :
    transferDefaultReturnBasic l.ty = if l.isConst then some .none else fundDefault f := by
  have e : ∀ x, isEquivFund l.ty x = isEquivFund
      { fundamental := some f, giname := none, node := none, callbackName := none, ctype := [], isConst := false,
        isVarargs := false } x := by
    intro x; simp [isEquivFund, AliasLink.ty, h]
  have hc : l.ty.isConst = l.isConst := rfl
  unfold fundDefault transferDefaultReturnBasic isEquivBasicGir isEquivAny isEquivNone
  rw [funext e]
  simp only [hc]
  cases l.isConst <;> simp

/-- the chain walk computes the documented default for every well-formed typedef chain -/
theorem aliasChainDefault_chain (mid : List AliasLink) (last : AliasLink) (f : Str)
    (hmid : ∀ l ∈ mid, l.fundamental = none ∧ l.giname.isSome = true) (hlast : last.fundamental = some f) :
    aliasChainDefault (mid ++ [last]) = documentedChainDefault ((mid ++ [last]).map (·.isConst)) f := by
  induction mid with
  | nil =>
    simp only [List.nil_append, aliasChainDefault, List.map_cons, List.map_nil, documentedChainDefault,
      List.any_cons, List.any_nil, Bool.or_false, id]
    rw [basic_last last f hlast]
    cases last.isConst
    · simp only [Bool.false_eq_true, if_false]
      cases hf : fundDefault f with
      | none => simp
      | some t => rfl
    · simp
  | cons l mid ih =>
    have hl := hmid l (by simp)
    have ih' := ih (fun x hx => hmid x (by simp [hx]))
    simp only [List.cons_append, aliasChainDefault, List.map_cons, documentedChainDefault, List.any_cons, id]
    rw [basic_mid l hl.1 hl.2]
    cases hc : l.isConst
    · have hg : l.giname.isNone = false := by
        cases hgg : l.giname with
        | none => rw [hgg] at hl; simp at hl
        | some g => rfl
      simp only [Bool.false_eq_true, if_false, hg, Bool.false_or]
      rw [ih']
      rfl
    · simp

end GIVerif.Defaults
