/- Helper lemmas for C11 at the block level: the state machine `parseBlock` never reaches one of
   its partial Python operations with a bad argument (all comment texts). -/
import GIVerif.Lemmas.AnnParseCaret
import GIVerif.Lemmas.AnnParseStr

namespace GIVerif.AnnParse
open GIVerif.Py

/-! ### tokenizer calls are total -/

theorem parseFields_ok (po vd : Bool) (col : Nat) (fields : Str) (init : Option Anns) :
    ∃ r, parseFields po vd col fields init = .ok r := by
  unfold parseFields
  cases h : parseAnnotations po col fields init with
  | raise e => exact absurd h (parseAnnotations_not_raise _ _ _ _ e)
  | fail d => exact ⟨_, rfl⟩
  | ok a raw ch sp ep d =>
    simp only []
    split
    · split <;> exact ⟨_, rfl⟩
    · exact ⟨_, rfl⟩

theorem firstFields_ok (col : Nat) (fields : Str) : ∃ r, firstFields col fields = .ok r := by
  unfold firstFields
  split
  · exact ⟨_, rfl⟩
  · obtain ⟨r, hr⟩ := parseFields_ok true true col fields none
    rw [hr]; exact ⟨_, rfl⟩

theorem replaceAngles_append (a b : Str) : replaceAngles (a ++ b) = replaceAngles a ++ replaceAngles b := by
  simp [replaceAngles]

/-- an annotation text that starts with a name other than `attribute` always yields a name -/
theorem parseAnnotation_name_some (col : Nat) (n X : Str) (hsp : ' ' ∉ n) (hang : replaceAngles n = n)
    (hlow : pyLower n ≠ str Gen.annAttribute) :
    ∃ r d, parseAnnotation col (n ++ ' ' :: X) = .ok (some r, d) := by
  unfold parseAnnotation
  have hra : replaceAngles (n ++ ' ' :: X) = n ++ ' ' :: replaceAngles X := by
    rw [replaceAngles_append, hang]; simp [replaceAngles]
  rw [hra, split1_token_some hsp]
  by_cases hio : pyLower n = str Gen.annInoutAlt
  · simp only [deprecatedStep, hio, if_true]; exact ⟨_, _, rfl⟩
  · simp only [deprecatedStep, hio, hlow, if_false]; exact ⟨_, _, rfl⟩

/-- the names the deprecated annotation tags are turned into -/
theorem deprecatedAnnTag_names :
    ∀ t ∈ Gen.deprecatedGiAnnTags, ' ' ∉ spacesToDashes t.toList ∧
      replaceAngles (spacesToDashes t.toList) = spacesToDashes t.toList ∧
      pyLower (spacesToDashes t.toList) ≠ str Gen.annAttribute := by
  decide +kernel

theorem inTable_mem {t : List String} {s : Str} (h : inTable t s = true) : ∃ x ∈ t, x.toList = s := by
  simp only [inTable, List.any_eq_true, beq_iff_eq] at h
  exact h

/-! ### the `Attributes:` tag -/

theorem attributesTagFold_ok (ln mpos : Nat) (orig line : Str) (acc : Option Str × List BDiag) (a : Str) :
    ∃ r, attributesTagFold ln mpos orig line acc a = .ok r := by
  unfold attributesTagFold
  obtain ⟨l, hl⟩ := optionsList_isList mpos (some a)
  simp only [hl, pyLen]
  split
  · rename_i h1
    rw [pyItem_list_ok l 0 (by omega)]
    exact ⟨_, rfl⟩
  · split
    · rename_i h2
      rw [pyItem_list_ok l 0 (by omega), pyItem_list_ok l 1 (by omega)]
      exact ⟨_, rfl⟩
    · exact ⟨_, rfl⟩

theorem foldExcept_ok {α β : Type} (f : β → α → Except PyErr β) (hf : ∀ b a, ∃ r, f b a = .ok r) :
    ∀ (l : List α) (b : β), ∃ r, foldExcept f l b = .ok r
  | [], b => ⟨b, rfl⟩
  | a :: as, b => by
    obtain ⟨r, hr⟩ := hf b a
    simp only [foldExcept, hr]
    exact foldExcept_ok f hf as r

/-! ### the invariant of the line loop -/

/-- with a block there is a part indentation; inside a parameter or tag part there is a current part -/
def BInv (st : BSt) : Prop :=
  (st.block ≠ none → st.partIndent ≠ none) ∧
  ((st.inPart = some .params ∨ st.inPart = some .tags) → st.cur ≠ none)

theorem BInv_log {st : BSt} (d : List BDiag) (h : BInv st) : BInv (st.log d) := h

theorem identNotFound_inv {st : BSt} (ln col : Nat) (orig : Str) (h : BInv st) : BInv (identNotFound st ln col orig) := by
  unfold identNotFound
  split
  · exact h
  · exact h

theorem identStep_ok (h : Hdr) (st : BSt) (ln col : Nat) (orig line : Str) (indent : Nat) (hinv : BInv st)
    (_hb : st.block = none) : ∃ st', identStep h st ln col orig line indent = .ok st' ∧ BInv st' := by
  unfold identStep
  split
  · exact ⟨_, rfl, identNotFound_inv _ _ _ hinv⟩
  · simp only []
    split
    · cases hp : parseAnnotations true (col + _) _ none with
      | raise e => exact absurd hp (parseAnnotations_not_raise _ _ _ _ e)
      | fail d => exact ⟨_, rfl, by simp [BInv, BSt.log]⟩
      | ok a raw ch sp ep d =>
        simp only []
        split
        · refine ⟨_, rfl, identNotFound_inv _ _ _ ?_⟩
          simp [BInv, BSt.log]
        · exact ⟨_, rfl, by simp [BInv, BSt.log]⟩
    · exact ⟨_, rfl, by simp [BInv]⟩

theorem paramStep_ok (st : BSt) (blk : BlockM) (ln col : Nat) (orig line : Str) (indent : Nat) (g : List Group) :
    ∃ st', paramStep st blk ln col orig line indent g = .ok st' ∧ BInv st' := by
  unfold paramStep
  simp only []
  obtain ⟨r, hr⟩ := firstFields_ok (col + groupStart g "fields") (groupText line g "fields")
  rw [hr]
  simp only []
  split <;> exact ⟨_, rfl, by simp [BInv, BSt.log]⟩

theorem attributesTagStep_ok (st : BSt) (blk : BlockM) (ln col : Nat) (orig line annName fields : Str)
    (tagStart fstart mpos : Nat) (hinv : BInv st) (hb : st.block = some blk)
    (hn : ' ' ∉ annName ∧ replaceAngles annName = annName ∧ pyLower annName ≠ str Gen.annAttribute) :
    ∃ st', attributesTagStep st blk ln col orig line annName fields tagStart fstart mpos = .ok st' ∧ BInv st' := by
  unfold attributesTagStep
  obtain ⟨r, hr⟩ := parseFields_ok false false (tagStart + col) (strip fields) none
  rw [hr]
  simp only []
  split
  · exact ⟨_, rfl, BInv_log _ hinv⟩
  · obtain ⟨⟨tr, d⟩, hf⟩ := foldExcept_ok (attributesTagFold ln mpos orig line)
      (attributesTagFold_ok ln mpos orig line) r.raw (some [], [])
    rw [hf]
    simp only []
    split
    · exact ⟨_, rfl, BInv_log _ (BInv_log _ hinv)⟩
    · obtain ⟨x, d2, hx⟩ := parseAnnotation_name_some (col + fstart) annName (strip (tr.getD [])) hn.1 hn.2.1 hn.2.2
      rw [hx]
      simp only []
      split
      · exact ⟨_, rfl, BInv_log _ (BInv_log _ (BInv_log _ (BInv_log _ hinv)))⟩
      · refine ⟨_, rfl, ?_⟩
        obtain ⟨h1, h2⟩ := hinv
        refine ⟨fun _ => ?_, ?_⟩
        · exact h1 (by rw [hb]; simp)
        · exact h2

theorem tagStep_ok (st : BSt) (blk : BlockM) (ln col : Nat) (orig line : Str) (indent : Nat) (g : List Group)
    (hinv : BInv st) (hb : st.block = some blk) :
    ∃ st', tagStep st blk ln col orig line indent g = .ok st' ∧ BInv st' := by
  unfold tagStep
  simp only []
  have hinv' : BInv { st with partIndent := some indent } := ⟨fun _ => by simp, hinv.2⟩
  split
  · -- deprecated annotation tags
    rename_i hdep
    obtain ⟨t, ht, hte⟩ := inTable_mem hdep
    have hnames := deprecatedAnnTag_names t ht
    rw [hte] at hnames
    split
    · exact attributesTagStep_ok _ blk ln col orig line _ _ _ _ _ (BInv_log _ hinv') hb hnames
    · obtain ⟨x, d2, hx⟩ := parseAnnotation_name_some (col + groupStart g "fields")
        (spacesToDashes (pyLower (groupText line g "tag_name"))) (groupText line g "fields") hnames.1 hnames.2.1 hnames.2.2
      rw [hx]
      exact ⟨_, rfl, by simp [BInv, BSt.log]; exact hinv.2⟩
  · split
    · refine ⟨_, rfl, ?_⟩
      simp [BInv, BSt.log]
    · obtain ⟨r, hr⟩ := firstFields_ok (col + groupStart g "fields") (groupText line g "fields")
      rw [hr]
      simp only []
      split <;> exact ⟨_, rfl, by simp [BInv, BSt.log]⟩

theorem middleStep_ok (st : BSt) (blk : BlockM) (ln col : Nat) (orig line : Str) (hinv : BInv st)
    (hb : st.block = some blk) : ∃ st', middleStep st blk ln col orig line = .ok st' ∧ BInv st' := by
  have hpi : st.partIndent ≠ none := hinv.1 (by rw [hb]; simp)
  unfold middleStep
  simp only []
  split
  · rename_i hip
    have hnp : ¬ (st.inPart = some .params ∨ st.inPart = some .tags) := by
      rcases hip with h | h <;> rw [h] <;> simp
    have hres : ∀ (b' : BlockM) (d : List BDiag), BInv ({ st with block := some b' }.log d) :=
      fun b' d => ⟨fun _ => hpi, fun h => absurd h hnp⟩
    split
    · cases hp : parseAnnotations true col _ (some blk.annotations) with
      | raise e => exact absurd hp (parseAnnotations_not_raise _ _ _ _ e)
      | fail d => exact ⟨_, rfl, hres _ _⟩
      | ok a raw ch sp ep d =>
        simp only []
        split
        · exact ⟨_, rfl, hres _ _⟩
        · exact ⟨_, rfl, hres _ _⟩
    · exact ⟨_, rfl, hres _ []⟩
  · split
    · rename_i hip
      have hc := hinv.2 hip
      cases hcur : st.cur with
      | none => exact absurd hcur hc
      | some cp =>
        obtain ⟨isTag, p⟩ := cp
        simp only []
        have hres : ∀ (b' : BlockM) (p' : PartM) (d : List BDiag),
            BInv ({ st with block := some b', cur := some (isTag, p') }.log d) :=
          fun b' p' d => ⟨fun _ => hpi, fun _ => by simp [BSt.log]⟩
        split
        · obtain ⟨r, hr⟩ := parseFields_ok true true col
            (if matchEmpty line = true then line else rstrip line) (some p.annotations)
          rw [hr]
          simp only []
          split
          · exact ⟨_, rfl, hres _ _ _⟩
          · exact ⟨_, rfl, hres _ _ _⟩
        · exact ⟨_, rfl, hres _ _ _⟩
    · exact ⟨_, rfl, hinv⟩

theorem lineBody_ok (h : Hdr) (st : BSt) (ln col : Nat) (orig line : Str) (hinv : BInv st) :
    ∃ st', lineBody h st ln col orig line = .ok st' ∧ BInv st' := by
  unfold lineBody
  simp only []
  cases hb : st.block with
  | none => exact identStep_ok h st ln col orig line _ hinv hb
  | some blk =>
    simp only []
    split
    · exact paramStep_ok st blk ln col orig line _ _
    · split
      · refine ⟨_, rfl, ?_⟩
        simp [BInv]
      · split
        · have hpi : st.partIndent ≠ none := hinv.1 (by rw [hb]; simp)
          cases hpv : st.partIndent with
          | none => exact absurd hpv hpi
          | some pi =>
            simp only []
            split
            · exact tagStep_ok st blk ln col orig line _ _ hinv hb
            · exact middleStep_ok st blk ln col orig line hinv hb
        · exact middleStep_ok st blk ln col orig line hinv hb

theorem lineStep_ok (h : Hdr) (st : BSt) (ln : Nat) (orig : Str) (hinv : BInv st) :
    ∃ st', lineStep h st ln orig = .ok st' ∧ BInv st' := by
  unfold lineStep
  exact lineBody_ok h _ ln _ orig _ hinv

theorem lineStepAt_ok (h : Hdr) (st : BSt) (ln base : Nat) (orig line : Str) (hinv : BInv st) :
    ∃ st', lineStepAt h st ln base orig line = .ok st' ∧ BInv st' := by
  unfold lineStepAt
  exact lineBody_ok h _ ln _ orig _ hinv

theorem lineLoop_ok (h : Hdr) : ∀ (ls : List Str) (ln : Nat) (st : BSt), BInv st →
    ∃ st', lineLoop h ls ln st = .ok st' ∧ BInv st'
  | [], _, st, hinv => ⟨st, rfl, hinv⟩
  | l :: ls, ln, st, hinv => by
    obtain ⟨st1, h1, hi1⟩ := lineStep_ok h st (ln + 1) l hinv
    simp only [lineLoop, h1]
    exact lineLoop_ok h ls (ln + 1) st1 hi1

theorem commentLinesAux_ne_nil : ∀ (s acc : Str) (b : Bool), commentLinesAux s acc b ≠ []
  | [], _, _ => by simp [commentLinesAux]
  | c :: cs, acc, b => by
    rw [commentLinesAux]
    split
    · split
      · exact commentLinesAux_ne_nil cs acc false
      · simp
    · split
      · simp
      · exact commentLinesAux_ne_nil cs (c :: acc) false

theorem openBlock_ok (lines : List Str) (lineno : Nat) (hne : lines ≠ []) : ∃ r, openBlock lines lineno = .ok r := by
  unfold openBlock
  cases lines with
  | nil => exact absurd rfl hne
  | cons first rest =>
    simp only []
    split
    · exact ⟨_, rfl⟩
    · split
      · exact ⟨_, rfl⟩
      · rename_i hn1
        have hrest : rest ≠ [] := by
          intro he; apply hn1; simp [he]
        have hl : ∀ (l1 : List Str), l1 ≠ [] → ∃ x, l1.getLast? = some x := by
          intro l1 h1
          cases hg : l1.getLast? with
          | none => exact absurd (List.getLast?_eq_none_iff.mp hg) h1
          | some x => exact ⟨x, rfl⟩
        split
        · rename_i hg
          exfalso
          split at hg
          · obtain ⟨x, hx⟩ := hl rest hrest; rw [hx] at hg; cases hg
          · obtain ⟨x, hx⟩ := hl (_ :: rest) (by simp); rw [hx] at hg; cases hg
        · split <;> exact ⟨_, rfl⟩

theorem BInv_init (d : List BDiag) : BInv { BSt.init with diags := d } := by
  simp [BInv, BSt.init]

/-- the block state machine is total: for every comment text and line number it returns a block or
    `None` together with its diagnostics -/
theorem parseBlock_ok (comment : Str) (lineno : Nat) : ∃ r, parseBlock comment lineno = .ok r := by
  unfold parseBlock parseBlockLines
  obtain ⟨r, hr⟩ := openBlock_ok (commentLines comment) lineno (commentLinesAux_ne_nil _ _ _)
  rw [hr]
  obtain ⟨o, d⟩ := r
  cases o with
  | none => exact ⟨_, rfl⟩
  | some o =>
    simp only []
    obtain ⟨st, hst, hinv⟩ := lineLoop_ok o.hdr o.lines lineno _ (BInv_init d)
    rw [hst]
    simp only []
    cases he : o.endText with
    | none => exact ⟨_, rfl⟩
    | some t =>
      obtain ⟨text, src, off⟩ := t
      simp only []
      obtain ⟨st', hs', _⟩ := lineStepAt_ok o.hdr st (lineno + o.lines.length + 1) off src text hinv
      rw [hs']
      exact ⟨_, rfl⟩

end GIVerif.AnnParse
