import GIVerif.Model.Shlibs
import Mathlib.Data.List.TakeWhile

namespace GIVerif.Shlibs
open GIVerif.Py

theorem dropPrefix?_eq_some {s p r : Str} : dropPrefix? s p = some r ↔ s = p ++ r := by
  induction p generalizing s with
  | nil => simp [dropPrefix?, eq_comm]
  | cons a p ih =>
    cases s with
    | nil => simp [dropPrefix?]
    | cons c cs =>
      simp only [dropPrefix?]
      split
      · subst_vars; simp [ih]
      · simp; intro h; contradiction

theorem matchAt_iff {name s : Str} :
    matchAt name s = true ↔
      ∃ c rest, s = "lib".toList ++ name ++ c :: rest ∧ isSepChar c = true ∧ '/' ∉ rest := by
  unfold matchAt
  split
  · rename_i c rest h
    rw [dropPrefix?_eq_some] at h
    constructor
    · intro hm
      simp at hm
      exact ⟨c, rest, by simpa using h, hm.1, hm.2⟩
    · rintro ⟨c', rest', hs, hc, hr⟩
      rw [h] at hs
      have := List.append_cancel_left hs
      cases this
      simp [hc, hr]
  · rename_i hno
    constructor
    · intro h; cases h
    · rintro ⟨c, rest, hs, _, _⟩
      exact absurd (dropPrefix?_eq_some.mpr hs) (hno c rest)

theorem matchAfterSlash_iff {name w : Str} :
    matchAfterSlash name w = true ↔ ∃ pre s, w = pre ++ '/' :: s ∧ matchAt name s = true := by
  induction w with
  | nil => simp [matchAfterSlash]
  | cons c cs ih =>
    simp only [matchAfterSlash, Bool.or_eq_true, Bool.and_eq_true, beq_iff_eq, ih]
    constructor
    · rintro (⟨rfl, h⟩ | ⟨pre, s, rfl, h⟩)
      · exact ⟨[], cs, rfl, h⟩
      · exact ⟨c :: pre, s, rfl, h⟩
    · rintro ⟨pre, s, hw, h⟩
      cases pre with
      | nil => simp at hw; left; exact ⟨hw.1, hw.2 ▸ h⟩
      | cons p ps => simp at hw; right; exact ⟨ps, s, hw.2, h⟩

end GIVerif.Shlibs

namespace GIVerif.Shlibs
open GIVerif.Py

theorem ne_slash_of_mem {s : Str} (h : '/' ∉ s) : ∀ c ∈ s, (decide (c ≠ '/')) = true := by
  intro c hc; simp; rintro rfl; exact h hc

theorem basename_noslash {s : Str} (h : '/' ∉ s) : basename s = s := by
  unfold basename
  have : s.reverse.takeWhile (· ≠ '/') = s.reverse := by
    apply List.takeWhile_eq_self_iff.mpr
    intro c hc
    exact ne_slash_of_mem h c (by simpa using hc)
  rw [this]; simp

theorem basename_append_slash (pre s : Str) (h : '/' ∉ s) : basename (pre ++ '/' :: s) = s := by
  unfold basename
  simp only [List.reverse_append, List.reverse_cons, List.append_assoc, List.singleton_append]
  rw [List.takeWhile_append_of_pos]
  · simp [List.takeWhile]
  · intro c hc
    exact ne_slash_of_mem h c (by simpa using hc)

theorem basename_no_slash (s : Str) : '/' ∉ basename s := by
  unfold basename
  intro h
  have h' : '/' ∈ s.reverse.takeWhile (· ≠ '/') := by simpa using h
  have := List.mem_takeWhile_imp h'
  simp at this

/-- every string is its basename, or something ending in `/` followed by its basename -/
theorem basename_decomp (s : Str) : s = basename s ∨ ∃ pre, s = pre ++ '/' :: basename s := by
  unfold basename
  have hsplit := List.takeWhile_append_dropWhile (p := (· ≠ '/')) (l := s.reverse)
  cases hd : s.reverse.dropWhile (· ≠ '/') with
  | nil =>
    left
    rw [hd, List.append_nil] at hsplit
    rw [hsplit]; simp
  | cons c cs =>
    right
    have hc : c = '/' := by
      have := List.head?_dropWhile_not (· ≠ '/') s.reverse
      rw [hd] at this
      simpa using this
    subst hc
    refine ⟨cs.reverse, ?_⟩
    rw [hd] at hsplit
    have : s = (s.reverse.takeWhile (· ≠ '/') ++ '/' :: cs).reverse := by
      rw [hsplit]; simp
    conv => lhs; rw [this]
    simp

end GIVerif.Shlibs

namespace GIVerif.Shlibs
open GIVerif.Py

/-! ### the resolver fold, for an arbitrary match predicate -/

section Fold
variable (P : Str → Str → Bool)

/-- `step` with the matcher abstracted -/
def stepP (st : List Str × List Str) (w : Str) : List Str × List Str :=
  match st.1.find? (fun r => P r w) with
  | some r => (st.1.erase r, st.2 ++ [w])
  | none => st

theorem step_eq_stepP : step = stepP matchWord := rfl

theorem stepP_some {p a : List Str} {w r : Str} (h : p.find? (fun r => P r w) = some r) :
    stepP P (p, a) w = (p.erase r, a ++ [w]) := by
  simp [stepP, h]

theorem stepP_none {p a : List Str} {w : Str} (h : p.find? (fun r => P r w) = none) :
    stepP P (p, a) w = (p, a) := by
  simp [stepP, h]

theorem foldP_length (ws : List Str) (p a : List Str) :
    ((ws.foldl (stepP P) (p, a)).1.length + (ws.foldl (stepP P) (p, a)).2.length
      = p.length + a.length) := by
  induction ws generalizing p a with
  | nil => simp
  | cons w ws ih =>
    simp only [List.foldl_cons]
    cases hr : p.find? (fun r => P r w) with
    | some r =>
      rw [stepP_some P hr]
      have hmem : r ∈ p := List.mem_of_find?_eq_some hr
      rw [ih]
      simp [List.length_erase_of_mem hmem]
      have : 0 < p.length := List.length_pos_of_mem hmem
      omega
    | none => rw [stepP_none P hr]; exact ih p a

theorem foldP_pending_sublist (ws : List Str) (p a : List Str) :
    (ws.foldl (stepP P) (p, a)).1.Sublist p := by
  induction ws generalizing p a with
  | nil => simp
  | cons w ws ih =>
    simp only [List.foldl_cons]
    cases hr : p.find? (fun r => P r w) with
    | some r => rw [stepP_some P hr]; exact (ih _ _).trans (List.erase_sublist)
    | none => rw [stepP_none P hr]; exact ih p a

theorem foldP_acc (ws : List Str) (p a : List Str) :
    ∃ l, (ws.foldl (stepP P) (p, a)).2 = a ++ l ∧ l.Sublist ws ∧
      ∀ x ∈ l, ∃ r ∈ p, P r x = true := by
  induction ws generalizing p a with
  | nil => exact ⟨[], by simp⟩
  | cons w ws ih =>
    simp only [List.foldl_cons]
    cases hr : p.find? (fun r => P r w) with
    | some r =>
      rw [stepP_some P hr]
      obtain ⟨l, h1, h2, h3⟩ := ih (p.erase r) (a ++ [w])
      refine ⟨w :: l, by simp [h1], h2.cons_cons w, ?_⟩
      intro x hx
      rcases List.mem_cons.mp hx with rfl | hx
      · exact ⟨r, List.mem_of_find?_eq_some hr, by simpa using List.find?_some hr⟩
      · obtain ⟨r', hr', hP⟩ := h3 x hx
        exact ⟨r', List.mem_of_mem_erase hr', hP⟩
    | none =>
      rw [stepP_none P hr]
      obtain ⟨l, h1, h2, h3⟩ := ih p a
      exact ⟨l, h1, h2.cons w, h3⟩

/-- no listed word satisfies two different pending requests -/
def Disjoint (p ws : List Str) : Prop :=
  ∀ w ∈ ws, ∀ r₁ ∈ p, ∀ r₂ ∈ p, P r₁ w = true → P r₂ w = true → r₁ = r₂

theorem Disjoint.tail {p ws : List Str} {w : Str} (h : Disjoint P p (w :: ws)) : Disjoint P p ws :=
  fun w' hw' => h w' (List.mem_cons_of_mem _ hw')

theorem Disjoint.erase {p ws : List Str} {r : Str} (h : Disjoint P p ws) : Disjoint P (p.erase r) ws :=
  fun w hw r₁ h₁ r₂ h₂ => h w hw r₁ (List.mem_of_mem_erase h₁) r₂ (List.mem_of_mem_erase h₂)

theorem foldP_pending_eq (ws : List Str) (p a : List Str) (hnd : p.Nodup) (hd : Disjoint P p ws) :
    (ws.foldl (stepP P) (p, a)).1 = p.filter (fun r => !ws.any (fun w => P r w)) := by
  induction ws generalizing p a with
  | nil => simp [List.filter_eq_self.mpr]
  | cons w ws ih =>
    simp only [List.foldl_cons]
    cases hr : p.find? (fun r => P r w) with
    | some r =>
      rw [stepP_some P hr]
      have hmem : r ∈ p := List.mem_of_find?_eq_some hr
      have hPr : P r w = true := by simpa using List.find?_some hr
      rw [ih _ _ (hnd.erase r) (Disjoint.erase P (Disjoint.tail P hd))]
      rw [hnd.erase_eq_filter, List.filter_filter]
      apply List.filter_congr
      intro x hx
      by_cases hxr : x = r
      · subst hxr; simp [hPr]
      · have : P x w = false := by
          cases hPx : P x w with
          | false => rfl
          | true => exact absurd (hd w (List.mem_cons_self) x hx r hmem hPx hPr) hxr
        simp [this, hxr]
    | none =>
      have hnone := hr
      rw [stepP_none P hr]
      rw [ih p a hnd (Disjoint.tail P hd)]
      apply List.filter_congr
      intro x hx
      have : P x w = false := by
        have := List.find?_eq_none.mp hnone x hx
        simpa using this
      simp [this]

theorem foldP_first (ws : List Str) (p a : List Str) (hnd : p.Nodup) (hd : Disjoint P p ws) :
    ∀ r ∈ p, ∀ w, ws.find? (fun w => P r w) = some w → w ∈ (ws.foldl (stepP P) (p, a)).2 := by
  induction ws generalizing p a with
  | nil => simp
  | cons w ws ih =>
    intro r hr w' hw'
    simp only [List.foldl_cons]
    cases hr0 : p.find? (fun r => P r w) with
    | some r0 =>
      rw [stepP_some P hr0]
      have hmem : r0 ∈ p := List.mem_of_find?_eq_some hr0
      have hPr0 : P r0 w = true := by simpa using List.find?_some hr0
      by_cases hrr : r = r0
      · subst hrr
        simp [List.find?_cons, hPr0] at hw'
        subst hw'
        obtain ⟨l, h1, _, _⟩ := foldP_acc P ws (p.erase r) (a ++ [w])
        rw [h1]; simp
      · have hPr : P r w = false := by
          cases hPx : P r w with
          | false => rfl
          | true => exact absurd (hd w (List.mem_cons_self) r hr r0 hmem hPx hPr0) hrr
        simp [List.find?_cons, hPr] at hw'
        exact ih _ _ (hnd.erase r0) (Disjoint.erase P (Disjoint.tail P hd)) r
          ((List.mem_erase_of_ne hrr).mpr hr) w' hw'
    | none =>
      have hnone := hr0
      rw [stepP_none P hr0]
      have hPr : P r w = false := by
        have := List.find?_eq_none.mp hnone r hr
        simpa using this
      simp [List.find?_cons, hPr] at hw'
      exact ih p a hnd (Disjoint.tail P hd) r hr w' hw'

end Fold

theorem dedupKeepFirst_nodup (l : List Str) : (dedupKeepFirst l).Nodup := by
  induction l with
  | nil => simp [dedupKeepFirst]
  | cons x xs ih =>
    simp only [dedupKeepFirst, List.nodup_cons]
    exact ⟨by simp, ih.filter _⟩

theorem mem_dedupKeepFirst {l : List Str} {x : Str} : x ∈ dedupKeepFirst l ↔ x ∈ l := by
  induction l with
  | nil => simp [dedupKeepFirst]
  | cons y ys ih =>
    simp only [dedupKeepFirst, List.mem_cons, List.mem_filter, ih]
    by_cases h : x = y <;> simp [h]

end GIVerif.Shlibs

namespace GIVerif.Shlibs
open GIVerif.Py

theorem resolveWords_def (p ws : List Str) :
    resolveWords p ws = finish (ws.foldl (stepP matchWord) (p, [])) := rfl

theorem finish_ok_iff {st : List Str × List Str} {l : List Str} :
    finish st = .ok l ↔ st.1 = [] ∧ st.2 = l := by
  obtain ⟨a, b⟩ := st
  cases a <;> simp [finish]

theorem finish_unresolved_iff {st : List Str × List Str} {rem : List Str} :
    finish st = .unresolved rem ↔ st.1 = rem ∧ rem ≠ [] := by
  obtain ⟨a, b⟩ := st
  cases a with
  | nil =>
    simp only [finish]
    constructor
    · intro h; cases h
    · rintro ⟨h, h'⟩; exact absurd h.symm h'
  | cons x xs =>
    simp only [finish, Result.unresolved.injEq]
    constructor
    · intro h; exact ⟨h, by rw [← h]; simp⟩
    · exact fun h => h.1

end GIVerif.Shlibs

namespace GIVerif.Shlibs
open GIVerif.Py

/-! ### line splitting and header lines -/

theorem splitLinesAux_line (line rest acc : Str) (h : ∀ c ∈ line, isLineBreak c = false) :
    splitLinesAux (line ++ '\n' :: rest) acc = (acc.reverse ++ line) :: splitLinesAux rest [] := by
  induction line generalizing acc with
  | nil =>
    have hb : isLineBreak '\n' = true := by decide
    cases acc <;> simp [splitLinesAux, hb]
  | cons c cs ih =>
    have hc : isLineBreak c = false := h c (by simp)
    have hcr : c ≠ '\r' := by
      rintro rfl
      have : isLineBreak '\r' = true := by decide
      rw [this] at hc; cases hc
    have hcs : ∀ c ∈ cs, isLineBreak c = false := fun d hd => h d (by simp [hd])
    have step : splitLinesAux (c :: (cs ++ '\n' :: rest)) acc =
        splitLinesAux (cs ++ '\n' :: rest) (c :: acc) := by
      cases hrest : cs ++ '\n' :: rest with
      | nil => simp at hrest
      | cons d ds =>
        cases acc <;> simp [splitLinesAux, hc, hcr]
    rw [List.cons_append, step, ih (c :: acc) hcs]
    simp

theorem splitLines_line (line rest : Str) (h : ∀ c ∈ line, isLineBreak c = false) :
    splitLines (line ++ '\n' :: rest) = line :: splitLines rest := by
  unfold splitLines
  rw [splitLinesAux_line line rest [] h]
  simp

/-! ### libtool dlname -/

theorem takeWhile_dlname (v rest : Str) (hv : ∀ c ∈ v, isDlnameChar c = true) :
    (v ++ '\'' :: rest).takeWhile isDlnameChar = v ∧
    (v ++ '\'' :: rest).dropWhile isDlnameChar = '\'' :: rest := by
  have hq : isDlnameChar '\'' = false := by decide
  constructor
  · rw [List.takeWhile_append_of_pos hv]; simp [List.takeWhile, hq]
  · rw [List.dropWhile_append_of_pos hv]; simp [List.dropWhile, hq]

end GIVerif.Shlibs

namespace GIVerif.Shlibs
open GIVerif.Py

/-! ### words produced by `str.split()` -/

theorem splitOnRuns_spec (sep : Char → Bool) (s acc : Str) (hacc : ∀ c ∈ acc, sep c = false) :
    ∀ w ∈ splitOnRuns sep s acc, w ≠ [] ∧ ∀ c ∈ w, sep c = false := by
  induction s generalizing acc with
  | nil =>
    cases acc with
    | nil => simp [splitOnRuns]
    | cons a as =>
      intro w hw
      simp only [splitOnRuns, List.mem_singleton] at hw
      subst hw
      refine ⟨by simp, ?_⟩
      intro c hc
      have hc' : c ∈ as ∨ c = a := by simpa using hc
      exact hacc c (by rcases hc' with h | h <;> simp [h])
  | cons c cs ih =>
    intro w hw
    simp only [splitOnRuns] at hw
    split at hw
    · split at hw
      · exact ih [] (by simp) w hw
      · rename_i hne
        rcases List.mem_cons.mp hw with rfl | hw
        · refine ⟨?_, ?_⟩
          · intro h; apply hne; simpa using h
          · intro d hd; exact hacc d (by simpa using hd)
        · exact ih [] (by simp) w hw
    · rename_i hsep
      refine ih (c :: acc) ?_ w hw
      intro d hd
      rcases List.mem_cons.mp hd with rfl | hd
      · simpa using hsep
      · exact hacc d hd

/-- every word handed to the matcher is non-empty and free of whitespace (hence of line breaks) -/
theorem splitWs_spec (s : Str) : ∀ w ∈ splitWs s, w ≠ [] ∧ ∀ c ∈ w, isSpace c = false :=
  splitOnRuns_spec isSpace s [] (by simp)

theorem listingWords_spec (out : Str) : ∀ w ∈ listingWords out, w ≠ [] ∧ ∀ c ∈ w, isSpace c = false := by
  intro w hw
  unfold listingWords at hw
  obtain ⟨l, _, hl⟩ := List.mem_flatMap.mp hw
  exact splitWs_spec l w hl

end GIVerif.Shlibs
