/-
  Helper lemmas for the member (field) part of C07: `writeMember` / `parseMember` / `lengthUpd` /
  `lengthPass` of GIVerif/Model/GirCodec.lean.  No property statements here.
-/
import GIVerif.Lemmas.GirCodec

namespace GIVerif.GirCodec
open GIVerif.Py

/-- children of a compound that `_parse_fields` does not take for members -/
def NoMemberTags (l : List Xml) : Prop := ∀ x ∈ l, memberTags.contains x.tag = false

theorem readable_fold (a : Bool) : (!(optIf (!a) sZero == some sZero)) = a := by cases a <;> rfl

theorem tyTag_ne_callback (t : Ty) : tyTag t ≠ "callback" := by cases t <;> simp [tyTag]

theorem tyTag_not_anon (t : Ty) : anonTags.contains (tyTag t) = false := by cases t <;> simp [tyTag, anonTags]

/-- `lengthUpd` on a typed member is `parseTypeArrayLength` on its type -/
theorem lengthUpd_typed (names : List (Option Str)) (node : Xml) (m : Member) (t t' : Ty)
    (hb : m.body = .typed t) (h : parseTypeArrayLength names node.kids t = .ok t') :
    lengthUpd names node m = .ok { m with body := .typed t' } := by
  unfold lengthUpd
  rw [hb]
  simp only [h]

/-- a node without an `<array>` child leaves every member alone -/
theorem lengthUpd_noArray (names : List (Option Str)) (node : Xml) (m : Member)
    (h : findTag "array" node.kids = none) : lengthUpd names node m = .ok m := by
  unfold lengthUpd
  cases hb : m.body with
  | typed t =>
    simp only [parseTypeArrayLength, h]
    cases m; simp_all
  | callback cb => simp only [parseTypeArrayLength, h]
  | anon tag => simp only [parseTypeArrayLength, h]

/-- what `_parse_field` alone yields: the array length not yet resolved -/
def canonMember0 (m : Member) : Member := memberDropLen (canonMember m)

theorem canonMember0_name (m : Member) : (canonMember0 m).name = m.name := by
  rcases m with ⟨name, body, _, _, _, _, _, _, _, _, _, _⟩
  cases body <;> rfl

theorem canonMember_name (m : Member) : (canonMember m).name = m.name := by
  rcases m with ⟨name, body, _, _, _, _, _, _, _, _, _, _⟩
  cases body <;> rfl

theorem memberNames_canon0 (ms : List Member) : memberNames (ms.map canonMember0) = memberNames ms := by
  simp [memberNames, canonMember0_name, Function.comp_def]

/-- one member: the element written for it is a member element, is a `<field>` unless the member is an
    anonymous struct / union, reads back as `canonMember0`, and its own node resolves the array length -/
theorem parse_write_member (ns : Str) (names : List (Option Str)) (m : Member) (x : Xml)
    (hw : writeMember ns names m = .ok x) (hwf : wfMember ns m = true) :
    memberTags.contains x.tag = true ∧ (x.tag = "field") = (isFieldElem m = true) ∧
    parseMember ns x = .ok (canonMember0 m) ∧
    (isFieldElem m = true → lengthUpd names x (canonMember0 m) = .ok (canonMember m)) := by
  rcases m with ⟨name, body, readable, writable, bits, priv, version, skip, intro, depr, stab, docs⟩
  have hb : ∀ (s i : Bool), (!(s || !i)) = (i && !s) := by intro s i; cases s <;> cases i <;> rfl
  have hpf : parseFlag false none = false := rfl
  cases body with
  | anon tag =>
    simp only [writeMember, Except.ok.injEq] at hw
    subst hw
    simp only [wfMember, Bool.or_eq_true, beq_iff_eq] at hwf
    refine ⟨?_, ?_, ?_, ?_⟩
    · rcases hwf with rfl | rfl <;> simp [memberTags, Xml.tag]
    · simp only [isFieldElem, Bool.false_eq_true, eq_iff_iff, iff_false, Xml.tag]
      rcases hwf with rfl | rfl <;> simp
    · rcases hwf with rfl | rfl <;>
        simp [parseMember, Xml.tag, Xml.kids, Xml.attrs, anonTags, parseDocs, findTag, findAllTag, textOf, minPos,
          attrGet_compact, lookupSome, canonMember0, canonMember, memberDropLen, parseFlag, truthy, keepTruthy, sZero, sOne]
    · intro h; simp [isFieldElem] at h
  | callback cb =>
    simp only [writeMember, bind_eq_ok, pure, Except.pure, Except.ok.injEq] at hw
    obtain ⟨dk, hdk, c, hc, rfl⟩ := hw
    simp only [wfMember, Bool.and_eq_true] at hwf
    obtain ⟨hwc, hwd⟩ := hwf
    have hDK := writeDocs_docKids _ _ hdk
    have hct : c.tag = "callback" := by
      simp only [writeCallable, bind_eq_ok, pure, Except.pure, Except.ok.injEq] at hc
      obtain ⟨_, _, _, _, _, _, _, _, rfl⟩ := hc
      rfl
    have hpc := parse_write_callable ns (asCallback cb) c hc hwc
    have hfc : findTag "callback" (dk ++ [c]) = some c := by
      rw [findTag_skip _ _ _ (hDK.ne _ (by decide))]
      simp only [findTag, hct, ↓reduceIte]
    have hpd := parse_write_docs false docs dk [c] hdk hwd
      (by intro y hy; simp only [List.mem_singleton] at hy; subst hy; rw [hct]; decide)
    have : parseCallable ns .callback c = .ok (canonCallable (asCallback cb)) := hpc
    refine ⟨by simp [memberTags, Xml.tag], ?_, ?_, ?_⟩
    · simp [isFieldElem, Xml.tag]
    · simp only [parseMember, tag_elem, kids_elem, attrs_elem, anonTags, List.contains_cons, List.contains_nil,
        String.reduceBEq, Bool.or_self, Bool.false_eq_true, ↓reduceIte, hfc, hct,
        hpd, attrGet_compact, genericAttrs]
      simp only [this, Except.map, List.cons_append, List.nil_append, lookupSome, String.reduceEq, ↓reduceIte,
        Option.or_none, parseFlag_intro, keepTruthy_idem, hb, hpf]
      rfl
    · intro _
      apply lengthUpd_noArray
      simp only [Xml.kids]
      rw [findTag_skip _ _ _ (hDK.ne _ (by decide))]
      simp only [findTag, hct, String.reduceEq, ↓reduceIte]
  | typed ty =>
    simp only [writeMember, bind_eq_ok, pure, Except.pure, Except.ok.injEq] at hw
    obtain ⟨dk, hdk, t, ht, rfl⟩ := hw
    simp only [wfMember, Bool.and_eq_true] at hwf
    obtain ⟨hty, hwd⟩ := hwf
    have hDK := writeDocs_docKids _ _ hdk
    have htag := writeType_tag ns _ ty t ht
    obtain ⟨hpt, hlen⟩ := parse_top_type ns names ty t dk hty ht hDK.noTypeTags (hDK.ne _ (by decide))
    have hpd := parse_write_docs false docs dk [t] hdk hwd (typeKid_noDocTags ns _ _ _ ht)
    have hfc : findTag "callback" (dk ++ [t]) = none := by
      rw [findTag_skip _ _ _ (hDK.ne _ (by decide))]
      simp only [findTag, htag, tyTag_ne_callback, ↓reduceIte]
    refine ⟨by simp [memberTags, Xml.tag], ?_, ?_, ?_⟩
    · simp [isFieldElem, Xml.tag]
    · simp only [parseMember, tag_elem, kids_elem, attrs_elem, anonTags, List.contains_cons, List.contains_nil,
        String.reduceBEq, Bool.or_self, Bool.false_eq_true, ↓reduceIte, hfc, hpt, hpd, attrGet_compact, genericAttrs,
        Except.map, List.cons_append, List.nil_append, lookupSome, String.reduceEq, Option.or_none, parseFlag_intro,
        keepTruthy_idem, hb, hpf, optIf_eq, readable_fold]
      rfl
    · intro _
      have := lengthUpd_typed names (Xml.elem "field" (compact ([("name", name)] ++ genericAttrs
          ⟨name, .typed ty, readable, writable, bits, priv, version, skip, intro, depr, stab, docs⟩ ++
          [("readable", optIf (!readable) sZero), ("writable", optIf writable sOne), ("bits", keepTruthy bits),
           ("private", optIf priv sOne)])) (dk ++ [t]) none)
        (canonMember0 ⟨name, .typed ty, readable, writable, bits, priv, version, skip, intro, depr, stab, docs⟩)
        (dropLen (canonTy ty)) (canonTy ty) rfl hlen
      rw [this]
      rfl

/-! ### the list level -/

/-- an anonymous struct / union member has no type: nothing for the length pass to resolve -/
theorem canonMember0_of_not_field (m : Member) (h : ¬ isFieldElem m = true) : canonMember0 m = canonMember m := by
  rcases m with ⟨name, body, _, _, _, _, _, _, _, _, _, _⟩
  cases body with
  | anon tag => rfl
  | callback cb => exact absurd rfl h
  | typed t => exact absurd rfl h

/-- the length pass over the written member elements, paired one to one with the members read from them -/
theorem lengthPass_written (ns : Str) (names : List (Option Str)) (l : List Member) (ys : List Xml)
    (hf : Forall2 (fun m x => writeMember ns names m = .ok x) l ys) (hl : ∀ m ∈ l, wfMember ns m = true) :
    lengthPass names ys (l.map canonMember0) = .ok (l.map canonMember) := by
  induction hf with
  | nil => rfl
  | @cons a x as ys' hr _ ih =>
    obtain ⟨_, htag, _, hlen⟩ := parse_write_member ns names a x hr (hl a (by simp))
    have hstep : (if x.tag = "field" then lengthUpd names x (canonMember0 a) else .ok (canonMember0 a))
        = .ok (canonMember a) := by
      by_cases hf' : isFieldElem a = true
      · rw [if_pos (by rw [htag]; exact hf'), hlen hf']
      · rw [if_neg (by rw [htag]; exact hf'), canonMember0_of_not_field a hf']
    simp only [List.map_cons, lengthPass, hstep]
    rw [ih (fun m hm => hl m (by simp [hm]))]

/-! ### writing the canonical members gives the same elements -/

theorem write_canon_asCallback (ns : Str) (cb : Callable) :
    writeCallable ns (asCallback (canonCallable (asCallback cb))) = writeCallable ns (asCallback cb) := by
  rw [← write_canonCallable ns (asCallback cb)]
  have hext : extraAttrs (asCallback (canonCallable (asCallback cb))) = extraAttrs (canonCallable (asCallback cb)) := by
    simp only [extraAttrs, asCallback, canonCallable]
    by_cases h : cb.ctype = some cb.name <;> simp [h]
  unfold writeCallable
  rw [hext]
  rfl

theorem genericAttrs_canon (m : Member) (h : isFieldElem m = true) : genericAttrs (canonMember m) = genericAttrs m := by
  rcases m with ⟨name, body, readable, writable, bits, priv, version, skip, intro, depr, stab, docs⟩
  have hb : ∀ (s i : Bool), (false || !(i && !s)) = (s || !i) := by intro s i; cases s <;> cases i <;> rfl
  cases body with
  | anon tag => simp [isFieldElem] at h
  | callback cb => simp only [genericAttrs, canonMember, keepTruthy_idem, truthy_keepTruthy, canonDocs, hb]
  | typed t => simp only [genericAttrs, canonMember, keepTruthy_idem, truthy_keepTruthy, canonDocs, hb]

theorem write_canonMember (ns : Str) (names : List (Option Str)) (m : Member) :
    writeMember ns names (canonMember m) = writeMember ns names m := by
  by_cases hf : isFieldElem m = true
  · have hg := genericAttrs_canon m hf
    rcases m with ⟨name, body, readable, writable, bits, priv, version, skip, intro, depr, stab, docs⟩
    cases body with
    | anon tag => simp [isFieldElem] at hf
    | callback cb =>
      unfold writeMember
      simp only [canonMember] at hg ⊢
      rw [hg, write_canonDocs, write_canon_asCallback]
    | typed t =>
      unfold writeMember
      simp only [canonMember] at hg ⊢
      rw [hg, write_canonDocs, write_canonTy, keepTruthy_idem]
  · rcases m with ⟨name, body, _, _, _, _, _, _, _, _, _, _⟩
    cases body with
    | anon tag => rfl
    | callback cb => exact absurd rfl hf
    | typed t => exact absurd rfl hf

theorem write_canonMembers (ns : Str) (ms : List Member) :
    writeMembers ns (ms.map canonMember) = writeMembers ns ms := by
  unfold writeMembers
  have hn : memberNames (ms.map canonMember) = memberNames ms := by
    simp [memberNames, canonMember_name, Function.comp_def]
  rw [hn, mapMExcept_map]
  simp only [write_canonMember]

theorem filter_append3 (p : Xml → Bool) (pre xs post : List Xml) (hpre : ∀ x ∈ pre, p x = false)
    (hxs : ∀ x ∈ xs, p x = true) (hpost : ∀ x ∈ post, p x = false) :
    (pre ++ xs ++ post).filter p = xs := by
  have h1 : pre.filter p = [] := List.filter_eq_nil_iff.mpr (by intro x hx; simp [hpre x hx])
  have h2 : post.filter p = [] := List.filter_eq_nil_iff.mpr (by intro x hx; simp [hpost x hx])
  have h3 : xs.filter p = xs := List.filter_eq_self.mpr hxs
  rw [List.filter_append, List.filter_append, h1, h2, h3]
  simp

end GIVerif.GirCodec
