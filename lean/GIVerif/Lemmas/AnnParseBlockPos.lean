/- Helper lemmas for C11 at the block level: the position `validate()` reports for a part
   (`part.annotations.position`) is always set when the part has annotations, and it is a line of the block. -/
import GIVerif.Lemmas.AnnParseBlockDiag

namespace GIVerif.AnnParse
open GIVerif.Py

/-- annotations with their position: positioned whenever non-empty, and between `lo` (exclusive) and `hi` -/
def AnnPos (lo hi : Nat) (a : Anns) (al : Option Nat) : Prop :=
  (a ≠ [] → al ≠ none) ∧ ∀ l, al = some l → lo < l ∧ l ≤ hi

def PartPos (lo hi : Nat) (p : PartM) : Prop := AnnPos lo hi p.annotations p.annsLine

def BlockPos (lo hi : Nat) (b : BlockM) : Prop :=
  AnnPos lo hi b.annotations b.annsLine ∧ (∀ e ∈ b.params, PartPos lo hi e.2) ∧ (∀ e ∈ b.tags, PartPos lo hi e.2)

def PosInv (lo hi : Nat) (st : BSt) : Prop :=
  (∀ b, st.block = some b → BlockPos lo hi b) ∧ (∀ c, st.cur = some c → PartPos lo hi c.2)

theorem annPos_nil (lo hi : Nat) (al : Option Nat) (h : ∀ l, al = some l → lo < l ∧ l ≤ hi) : AnnPos lo hi [] al :=
  ⟨fun h => absurd rfl h, h⟩

theorem annPos_none (lo hi : Nat) : AnnPos lo hi [] none := annPos_nil lo hi none (fun _ h => by cases h)

theorem annPos_some {lo hi ln : Nat} (a : Anns) (h1 : lo < ln) (h2 : ln ≤ hi) : AnnPos lo hi a (some ln) :=
  ⟨fun _ => by simp, fun l hl => by cases hl; exact ⟨h1, h2⟩⟩

theorem annPos_orElse {lo hi ln : Nat} {a0 : Anns} {al : Option Nat} (a : Anns) (h : AnnPos lo hi a0 al) (h1 : lo < ln)
    (h2 : ln ≤ hi) : AnnPos lo hi a (al <|> some ln) := by
  cases al with
  | none => exact annPos_some a h1 h2
  | some l0 => exact ⟨fun _ => by simp, fun l hl => h.2 l (by simpa using hl)⟩

theorem annPos_mono {lo hi hi' : Nat} {a : Anns} {al : Option Nat} (h : AnnPos lo hi a al) (hh : hi ≤ hi') :
    AnnPos lo hi' a al :=
  ⟨h.1, fun l hl => ⟨(h.2 l hl).1, Nat.le_trans (h.2 l hl).2 hh⟩⟩

theorem blockPos_mono {lo hi hi' : Nat} {b : BlockM} (h : BlockPos lo hi b) (hh : hi ≤ hi') : BlockPos lo hi' b :=
  ⟨annPos_mono h.1 hh, fun e he => annPos_mono (h.2.1 e he) hh, fun e he => annPos_mono (h.2.2 e he) hh⟩

theorem posInv_mono {lo hi hi' : Nat} {st : BSt} (h : PosInv lo hi st) (hh : hi ≤ hi') : PosInv lo hi' st :=
  ⟨fun b hb => blockPos_mono (h.1 b hb) hh, fun c hc => annPos_mono (h.2 c hc) hh⟩

theorem mem_assocSet {β : Type} : ∀ (d : List (Str × β)) (k : Str) (v : β) (e : Str × β), e ∈ assocSet d k v →
    e ∈ d ∨ e = (k, v)
  | [], k, v, e, h => by simp only [assocSet, List.mem_singleton] at h; exact Or.inr h
  | (k', v') :: rest, k, v, e, h => by
    simp only [assocSet] at h
    split at h
    · rcases List.mem_cons.mp h with h1 | h1
      · exact Or.inr h1
      · exact Or.inl (List.mem_cons_of_mem _ h1)
    · rcases List.mem_cons.mp h with h1 | h1
      · exact Or.inl (by rw [h1]; simp)
      · rcases mem_assocSet rest k v e h1 with h2 | h2
        · exact Or.inl (List.mem_cons_of_mem _ h2)
        · exact Or.inr h2

theorem blockPos_setParam {lo hi : Nat} {b : BlockM} {p : PartM} (hb : BlockPos lo hi b) (hp : PartPos lo hi p) :
    BlockPos lo hi (setParam b p) := by
  refine ⟨hb.1, ?_, hb.2.2⟩
  intro e he
  rcases mem_assocSet _ _ _ e he with h | h
  · exact hb.2.1 e h
  · rw [h]; exact hp

theorem blockPos_setTag {lo hi : Nat} {b : BlockM} {p : PartM} (hb : BlockPos lo hi b) (hp : PartPos lo hi p) :
    BlockPos lo hi (setTag b p) := by
  refine ⟨hb.1, hb.2.1, ?_⟩
  intro e he
  rcases mem_assocSet _ _ _ e he with h | h
  · exact hb.2.2 e h
  · rw [h]; exact hp

theorem blockPos_storeCur {lo hi : Nat} {b : BlockM} {p : PartM} (isTag : Bool) (hb : BlockPos lo hi b)
    (hp : PartPos lo hi p) : BlockPos lo hi (storeCur b isTag p) := by
  unfold storeCur
  split
  · exact blockPos_setTag hb hp
  · exact blockPos_setParam hb hp

theorem partPos_first {lo ln : Nat} (name : Str) (r : Option FieldsResult) (h : lo < ln) :
    PartPos lo ln (applyFirstFields (newPart name ln) ln r) := by
  unfold applyFirstFields
  split
  · split
    · exact annPos_some _ h (Nat.le_refl _)
    · exact annPos_none _ _
  · exact annPos_none _ _

/-- a state whose block and current part are given explicitly -/
theorem posInv_mk {lo hi : Nat} {st : BSt} (b : Option BlockM) (c : Option (Bool × PartM)) (hb : st.block = b)
    (hc : st.cur = c) (h1 : ∀ x, b = some x → BlockPos lo hi x) (h2 : ∀ x, c = some x → PartPos lo hi x.2) :
    PosInv lo hi st :=
  ⟨fun x hx => h1 x (by rw [← hb]; exact hx), fun x hx => h2 x (by rw [← hc]; exact hx)⟩

theorem identNotFound_pos {lo hi : Nat} (st : BSt) (ln col : Nat) (orig : Str) (h : PosInv lo hi st) :
    PosInv lo hi (identNotFound st ln col orig) := by
  unfold identNotFound
  split
  · exact h
  · exact h

theorem identStep_pos {lo : Nat} (h : Hdr) (st : BSt) (ln col : Nat) (orig line : Str) (indent : Nat) (st' : BSt)
    (hs : identStep h st ln col orig line indent = .ok st') (hinv : PosInv lo ln st) (hlo : lo < ln)
    (hb : st.block = none) : PosInv lo ln st' := by
  have hnew : ∀ name, BlockPos lo ln (newBlock h name) := fun name =>
    ⟨annPos_none _ _, fun _ he => (by cases he), fun _ he => (by cases he)⟩
  unfold identStep at hs
  split at hs
  · cases hs; exact identNotFound_pos _ _ _ _ hinv
  · simp only [] at hs
    split at hs
    · split at hs
      · cases hs
      · cases hs
        exact posInv_mk (some _) st.cur rfl rfl (fun x hx => by cases hx; exact hnew _) hinv.2
      · split at hs
        · cases hs
          apply identNotFound_pos
          exact posInv_mk none st.cur rfl rfl (fun _ hx => by cases hx) hinv.2
        · cases hs
          refine posInv_mk (some _) st.cur rfl rfl (fun x hx => ?_) hinv.2
          cases hx
          exact ⟨annPos_some _ hlo (Nat.le_refl _), fun _ he => (by cases he), fun _ he => (by cases he)⟩
    · cases hs
      exact posInv_mk (some _) st.cur rfl rfl (fun x hx => by cases hx; exact hnew _) hinv.2

theorem paramStep_pos {lo : Nat} (st : BSt) (blk : BlockM) (ln col : Nat) (orig line : Str) (indent : Nat) (g : List Group)
    (st' : BSt) (hs : paramStep st blk ln col orig line indent g = .ok st') (hblk : BlockPos lo ln blk) (hlo : lo < ln) :
    PosInv lo ln st' := by
  unfold paramStep at hs
  simp only [] at hs
  split at hs
  · cases hs
  · split at hs
    · cases hs
      exact posInv_mk (some _) (some _) rfl rfl (fun x hx => by cases hx; exact blockPos_setTag hblk (partPos_first _ _ hlo))
        (fun x hx => by cases hx; exact partPos_first _ _ hlo)
    · cases hs
      exact posInv_mk (some _) (some _) rfl rfl (fun x hx => by cases hx; exact blockPos_setParam hblk (partPos_first _ _ hlo))
        (fun x hx => by cases hx; exact partPos_first _ _ hlo)


theorem blockPos_anns {lo hi ln : Nat} {b : BlockM} (a : Anns) (hb : BlockPos lo hi b) (h1 : lo < ln) (h2 : ln ≤ hi) :
    BlockPos lo hi { b with annotations := a, annsLine := b.annsLine <|> some ln } :=
  ⟨annPos_orElse a hb.1 h1 h2, hb.2.1, hb.2.2⟩

theorem attributesTagStep_pos {lo : Nat} (st : BSt) (blk : BlockM) (ln col : Nat) (orig line annName fields : Str)
    (tagStart fstart mpos : Nat) (st' : BSt)
    (hs : attributesTagStep st blk ln col orig line annName fields tagStart fstart mpos = .ok st')
    (hinv : PosInv lo ln st) (hblk : BlockPos lo ln blk) (hlo : lo < ln) : PosInv lo ln st' := by
  unfold attributesTagStep at hs
  split at hs
  · cases hs
  · simp only [] at hs
    split at hs
    · cases hs; exact hinv
    · split at hs
      · cases hs
      · split at hs
        · cases hs; exact hinv
        · split at hs
          · cases hs
          · cases hs
          · split at hs
            · cases hs; exact hinv
            · cases hs
              exact posInv_mk (some _) st.cur rfl rfl
                (fun x hx => by cases hx; exact blockPos_anns _ hblk hlo (Nat.le_refl _)) hinv.2

theorem tagStep_pos {lo : Nat} (st : BSt) (blk : BlockM) (ln col : Nat) (orig line : Str) (indent : Nat) (g : List Group)
    (st' : BSt) (hs : tagStep st blk ln col orig line indent g = .ok st') (hinv : PosInv lo ln st)
    (hblk : BlockPos lo ln blk) (hlo : lo < ln) : PosInv lo ln st' := by
  have hinv' : ∀ (d : List BDiag), PosInv lo ln ({ st with partIndent := some indent }.log d) := fun _ => hinv
  unfold tagStep at hs
  simp only [] at hs
  split at hs
  · split at hs
    · exact attributesTagStep_pos _ blk ln col orig line _ _ _ _ _ st' hs (hinv' _) hblk hlo
    · split at hs
      · cases hs
      · cases hs
      · cases hs
        exact posInv_mk (some _) st.cur rfl rfl
          (fun x hx => by cases hx; exact blockPos_anns _ hblk hlo (Nat.le_refl _)) hinv.2
  · split at hs
    · cases hs
      exact posInv_mk (some _) st.cur rfl rfl (fun x hx => by cases hx; exact ⟨hblk.1, hblk.2.1, hblk.2.2⟩) hinv.2
    · split at hs
      · cases hs
      · split at hs
        · cases hs
          exact posInv_mk (some _) (some _) rfl rfl
            (fun x hx => by cases hx; exact blockPos_setTag hblk (partPos_first _ _ hlo))
            (fun x hx => by cases hx; exact partPos_first _ _ hlo)
        · cases hs
          -- a generic tag never carries annotations
          have htag : ∀ (t : PartM), t.annotations = [] → t.annsLine = none → PartPos lo ln t := by
            intro t h1 h2; unfold PartPos; rw [h1, h2]; exact annPos_none _ _
          refine posInv_mk (some _) (some _) rfl rfl (fun x hx => ?_) (fun x hx => ?_)
          · cases hx
            apply blockPos_setTag hblk
            apply htag <;> (split <;> try rfl) <;> (split <;> try rfl) <;> (split <;> try rfl) <;> (split <;> rfl)
          · cases hx
            apply htag <;> (split <;> try rfl) <;> (split <;> try rfl) <;> (split <;> try rfl) <;> (split <;> rfl)

theorem middleStep_pos {lo : Nat} (st : BSt) (blk : BlockM) (ln col : Nat) (orig line : Str) (st' : BSt)
    (hs : middleStep st blk ln col orig line = .ok st') (hinv : PosInv lo ln st) (hblk : BlockPos lo ln blk)
    (hlo : lo < ln) : PosInv lo ln st' := by
  have hdesc : ∀ (d : Option Str), BlockPos lo ln { blk with description := d } := fun _ => ⟨hblk.1, hblk.2.1, hblk.2.2⟩
  unfold middleStep at hs
  simp only [] at hs
  split at hs
  · split at hs
    · split at hs
      · cases hs
      · cases hs
        exact posInv_mk (some _) st.cur rfl rfl (fun x hx => by cases hx; exact hdesc _) hinv.2
      · split at hs
        · cases hs
          exact posInv_mk (some _) st.cur rfl rfl
            (fun x hx => by cases hx; exact blockPos_anns _ hblk hlo (Nat.le_refl _)) hinv.2
        · cases hs
          exact posInv_mk (some _) st.cur rfl rfl (fun x hx => by cases hx; exact hdesc _) hinv.2
    · cases hs
      exact posInv_mk (some _) st.cur rfl rfl (fun x hx => by cases hx; exact hdesc _) hinv.2
  · split at hs
    · split at hs
      · cases hs
      · rename_i isTag p hcur
        have hp : PartPos lo ln p := hinv.2 (isTag, p) hcur
        have hpd : ∀ (d : Option Str), PartPos lo ln { p with description := d } := fun _ => hp
        split at hs
        · split at hs
          · cases hs
          · split at hs
            · cases hs
              have hp' : ∀ (a : Anns) (d : Option Str),
                  PartPos lo ln { p with annotations := a, annsLine := p.annsLine <|> some ln, description := d } :=
                fun a _ => annPos_orElse a hp hlo (Nat.le_refl _)
              exact posInv_mk (some _) (some _) rfl rfl
                (fun x hx => by cases hx; exact blockPos_storeCur isTag hblk (hp' _ _))
                (fun x hx => by cases hx; exact hp' _ _)
            · cases hs
              exact posInv_mk (some _) (some _) rfl rfl
                (fun x hx => by cases hx; exact blockPos_storeCur isTag hblk (hpd _))
                (fun x hx => by cases hx; exact hpd _)
        · cases hs
          exact posInv_mk (some _) (some _) rfl rfl
            (fun x hx => by cases hx; exact blockPos_storeCur isTag hblk (hpd _))
            (fun x hx => by cases hx; exact hpd _)
    · cases hs; exact hinv

theorem lineBody_pos {lo : Nat} (h : Hdr) (st : BSt) (ln col : Nat) (orig line : Str) (st' : BSt)
    (hs : lineBody h st ln col orig line = .ok st') (hinv : PosInv lo ln st) (hlo : lo < ln) : PosInv lo ln st' := by
  unfold lineBody at hs
  simp only [] at hs
  split at hs
  · rename_i hb
    exact identStep_pos h st ln col orig line _ st' hs hinv hlo hb
  · rename_i blk hb
    have hblk := hinv.1 blk hb
    split at hs
    · exact paramStep_pos st blk ln col orig line _ _ st' hs hblk hlo
    · split at hs
      · cases hs; exact hinv
      · split at hs
        · split at hs
          · cases hs
          · split at hs
            · exact tagStep_pos st blk ln col orig line _ _ st' hs hinv hblk hlo
            · exact middleStep_pos st blk ln col orig line st' hs hinv hblk hlo
        · exact middleStep_pos st blk ln col orig line st' hs hinv hblk hlo

theorem lineStep_pos {lo hi : Nat} (h : Hdr) (st : BSt) (ln : Nat) (line : Str) (st' : BSt)
    (hs : lineStep h st ln line = .ok st') (hinv : PosInv lo hi st) (hhi : hi ≤ ln) (hlo : lo < ln) : PosInv lo ln st' := by
  unfold lineStep at hs
  exact lineBody_pos h _ ln _ line _ st' hs (posInv_mono hinv hhi) hlo

theorem lineStepAt_pos {lo hi : Nat} (h : Hdr) (st : BSt) (ln base : Nat) (orig line : Str) (st' : BSt)
    (hs : lineStepAt h st ln base orig line = .ok st') (hinv : PosInv lo hi st) (hhi : hi ≤ ln) (hlo : lo < ln) :
    PosInv lo ln st' := by
  unfold lineStepAt at hs
  exact lineBody_pos h _ ln _ orig _ st' hs (posInv_mono hinv hhi) hlo

theorem lineLoop_pos {lo : Nat} (h : Hdr) : ∀ (ls : List Str) (ln : Nat) (st st' : BSt), lineLoop h ls ln st = .ok st' →
    PosInv lo ln st → lo ≤ ln → PosInv lo (ln + ls.length) st'
  | [], ln, st, st', hs, hinv, _ => by simp only [lineLoop] at hs; cases hs; exact hinv
  | l :: ls, ln, st, st', hs, hinv, hlo => by
    simp only [lineLoop] at hs
    split at hs
    · cases hs
    · rename_i st1 h1
      have := lineLoop_pos h ls (ln + 1) st1 st' hs
        (lineStep_pos h st (ln + 1) l st1 h1 hinv (Nat.le_succ _) (by omega)) (by omega)
      simpa [Nat.add_assoc, Nat.add_comm 1] using this

theorem validatePositions_pos {lo hi : Nat} {b : BlockM} (hb : BlockPos lo hi b) :
    ∀ p ∈ validatePositions b, ∃ l, p = some l ∧ lo < l ∧ l ≤ hi := by
  have hann : ∀ (a : Anns) (al : Option Nat), AnnPos lo hi a al → a.isEmpty = false → ∃ l, al = some l ∧ lo < l ∧ l ≤ hi := by
    intro a al h hne
    have : a ≠ [] := by intro he; rw [he] at hne; cases hne
    cases hal : al with
    | none => exact absurd hal (h.1 this)
    | some l => exact ⟨l, rfl, h.2 l hal⟩
  intro p hp
  simp only [validatePositions, List.mem_append, List.mem_map, List.mem_filter, Bool.not_eq_true'] at hp
  rcases hp with (hp | ⟨e, ⟨he, hne⟩, rfl⟩) | ⟨e, ⟨he, hne⟩, rfl⟩
  · split at hp
    · cases hp
    · rename_i hne
      rw [List.mem_singleton.mp hp]
      exact hann _ _ hb.1 (by simpa using hne)
  · exact hann _ _ (hb.2.1 e he) hne
  · exact hann _ _ (hb.2.2 e he) hne

theorem finishBlock_pos {lo hi : Nat} (st : BSt) (b : BlockM) (h : finishBlock st = some b) (hinv : PosInv lo hi st) :
    BlockPos lo hi b := by
  unfold finishBlock at h
  split at h
  · cases h
  · rename_i blk hb
    cases h
    have hblk := hinv.1 blk hb
    have hclean : ∀ p : PartM, (cleanDescription p).annotations = p.annotations ∧ (cleanDescription p).annsLine = p.annsLine := by
      intro p; unfold cleanDescription
      split
      · exact ⟨rfl, rfl⟩
      · split
        · exact ⟨rfl, rfl⟩
        · split
          · exact ⟨rfl, rfl⟩
          · split <;> exact ⟨rfl, rfl⟩
    refine ⟨hblk.1, ?_, ?_⟩
    · intro e he
      obtain ⟨e0, he0, rfl⟩ := List.mem_map.mp he
      unfold PartPos; rw [(hclean e0.2).1, (hclean e0.2).2]; exact hblk.2.1 e0 he0
    · intro e he
      obtain ⟨e0, he0, rfl⟩ := List.mem_map.mp he
      unfold PartPos; rw [(hclean e0.2).1, (hclean e0.2).2]; exact hblk.2.2 e0 he0

/-- every position `validate()` reports for the parsed block is a line of the comment behind its opening line -/
theorem parseBlock_validate_lines (comment : Str) (lineno : Nat) (b : BlockM) (d : List BDiag)
    (h : parseBlock comment lineno = .ok (some b, d)) (halone : OpeningAlone (commentLines comment)) :
    ∀ p ∈ validatePositions b, ∃ l, p = some l ∧ lineno < l ∧ l < lineno + (commentLines comment).length := by
  unfold parseBlock parseBlockLines at h
  split at h
  · cases h
  · cases h
  · rename_i op d0 ho
    have hlen := (openBlock_lines _ _ _ _ ho halone).2 op rfl
    have hinit : PosInv lineno lineno { BSt.init with diags := d0 } :=
      ⟨fun _ hb => (by cases hb), fun _ hc => (by cases hc)⟩
    split at h
    · cases h
    · rename_i st hl
      have hst := lineLoop_pos op.hdr op.lines lineno _ st hl hinit (Nat.le_refl _)
      split at h
      · simp only [Except.ok.injEq, Prod.mk.injEq] at h
        intro p hp
        obtain ⟨l, hl1, hl2, hl3⟩ := validatePositions_pos (finishBlock_pos st b h.1 hst) p hp
        exact ⟨l, hl1, hl2, by omega⟩
      · split at h
        · cases h
        · rename_i st2 hs2
          simp only [Except.ok.injEq, Prod.mk.injEq] at h
          have hst2 := lineStepAt_pos op.hdr st _ _ _ _ st2 hs2 hst (by omega) (by omega)
          intro p hp
          obtain ⟨l, hl1, hl2, hl3⟩ := validatePositions_pos (finishBlock_pos st2 b h.1 hst2) p hp
          exact ⟨l, hl1, hl2, by omega⟩

end GIVerif.AnnParse
