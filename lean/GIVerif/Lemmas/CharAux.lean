/- Small facts about `Char` used to turn character-class tables into statements. -/
namespace GIVerif

theorem Char.le_iff_toNat (a b : Char) : a ≤ b ↔ a.toNat ≤ b.toNat := by
  rw [_root_.Char.le_def, UInt32.le_iff_toNat_le]
  rfl

theorem Char.eq_iff_toNat (a b : Char) : a = b ↔ a.toNat = b.toNat :=
  _root_.Char.toNat_inj.symm

end GIVerif
