/- Helper lemmas about the line matchers (layer 2): the facts behind layout independence —
   whatever white space stands in front of the asterisk, stripping ` * ` leaves the text. -/
import GIVerif.Model.AnnParse

namespace GIVerif.AnnParse
open GIVerif.Py

theorem star_not_space : isSpace '*' = false := by decide

theorem countWhile_le (p : Char → Bool) (s : Str) : countWhile p s ≤ s.length := by
  induction s with
  | nil => simp [countWhile]
  | cons c cs ih =>
    simp only [countWhile]
    split <;> simp <;> omega

theorem countWhile_append_stop (p : Char → Bool) (pre : Str) (c : Char) (rest : Str)
    (hpre : ∀ x ∈ pre, p x = true) (hc : p c = false) : countWhile p (pre ++ c :: rest) = pre.length := by
  induction pre with
  | nil => simp [countWhile, hc]
  | cons x xs ih =>
    have hx := hpre x (by simp)
    simp only [List.cons_append, countWhile, hx, if_true, List.length_cons]
    rw [ih (fun y hy => hpre y (by simp [hy]))]

theorem countWhile_all (p : Char → Bool) (s : Str) (h : ∀ x ∈ s, p x = true) : countWhile p s = s.length := by
  induction s with
  | nil => rfl
  | cons x xs ih =>
    simp only [countWhile, h x (by simp), if_true, List.length_cons]
    rw [ih (fun y hy => h y (by simp [hy]))]

/-- COMMENT_ASTERISK_RE on `indent * text`: nothing is reported as stray comment text and
    exactly `indent`, the asterisk and one white-space character are removed -/
theorem matchAsterisk_indent (indent : Str) (sp : Char) (text : Str)
    (hind : ∀ x ∈ indent, isSpace x = true) (hsp : isSpace sp = true) :
    matchAsterisk (indent ++ '*' :: sp :: text) =
      some ([("comment", indent.length, indent.length)], indent.length + 2) := by
  unfold matchAsterisk
  have hws : countWs (indent ++ '*' :: sp :: text) = indent.length :=
    countWhile_append_stop isSpace indent '*' _ hind star_not_space
  simp only [hws, List.drop_left']
  have hfa : findAsterisk ('*' :: sp :: text) indent.length = some (indent.length, indent.length + 1) := by
    simp [findAsterisk, asteriskAt, countWs, countWhile, star_not_space]
  rw [hfa]
  simp only []
  have hd : (indent ++ '*' :: sp :: text).drop (indent.length + 1) = sp :: text := by
    rw [show indent ++ '*' :: sp :: text = (indent ++ ['*']) ++ sp :: text by simp]
    exact List.drop_left' (by simp)
  rw [hd]
  simp [hsp]

/-- ... and without a character after the asterisk (an "empty" comment line) -/
theorem matchAsterisk_bare (indent : Str) (hind : ∀ x ∈ indent, isSpace x = true) :
    matchAsterisk (indent ++ ['*']) = some ([("comment", indent.length, indent.length)], indent.length + 1) := by
  unfold matchAsterisk
  have hws : countWs (indent ++ ['*']) = indent.length :=
    countWhile_append_stop isSpace indent '*' [] hind star_not_space
  simp only [hws, List.drop_left']
  have hfa : findAsterisk ['*'] indent.length = some (indent.length, indent.length + 1) := by
    simp [findAsterisk, asteriskAt, countWs, countWhile, star_not_space]
  rw [hfa]
  simp only []
  have hd : (indent ++ ['*']).drop (indent.length + 1) = [] := by
    exact List.drop_eq_nil_of_le (by simp)
  rw [hd]

theorem matchEmpty_iff (line : Str) : matchEmpty line = true ↔ ∀ c ∈ line, isSpace c = true := by
  simp [matchEmpty, List.all_eq_true]

/-- INDENTATION_RE: the recorded indentation is a prefix of the line -/
theorem matchIndentation_span (line : Str) : matchIndentation line = [("indentation", 0, countWs line)] ∧
    countWs line ≤ line.length :=
  ⟨rfl, countWhile_le _ _⟩

end GIVerif.AnnParse
