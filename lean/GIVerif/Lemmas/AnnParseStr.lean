/- String-level helper lemmas for the C10 annotation round trip: strip / replace / split /
   join on token lists. -/
import GIVerif.Spec.AnnGrammar

namespace GIVerif.AnnParse
open GIVerif.Py

/-- characters of a serialized annotation's inside: clean characters and the single space -/
def okChar (c : Char) : Bool := cleanChar c || c == ' '

theorem space_isSpace : isSpace ' ' = true := by decide

theorem cleanChar_spec {c : Char} (h : cleanChar c = true) :
    isSpace c = false ∧ c ≠ '(' ∧ c ≠ ')' ∧ c ≠ '<' ∧ c ≠ '>' ∧ c ≠ ' ' := by
  simp only [cleanChar, Bool.and_eq_true, Bool.not_eq_true', bne_iff_ne, ne_eq] at h
  obtain ⟨⟨⟨⟨h1, h2⟩, h3⟩, h4⟩, h5⟩ := h
  refine ⟨h1, h2, h3, h4, h5, ?_⟩
  rintro rfl
  rw [space_isSpace] at h1; cases h1

theorem okChar_spec {c : Char} (h : okChar c = true) : c ≠ '(' ∧ c ≠ ')' ∧ c ≠ '<' ∧ c ≠ '>' := by
  simp only [okChar, Bool.or_eq_true, beq_iff_eq] at h
  rcases h with h | rfl
  · obtain ⟨_, h2, h3, h4, h5, _⟩ := cleanChar_spec h; exact ⟨h2, h3, h4, h5⟩
  · decide

theorem wfToken_spec {t : Str} (h : wfToken t = true) : t ≠ [] ∧ ∀ c ∈ t, cleanChar c = true := by
  simp only [wfToken, Bool.and_eq_true, Bool.not_eq_true', List.all_eq_true] at h
  refine ⟨?_, h.2⟩
  intro he; rw [he] at h; simp at h

/-! ### join of tokens -/

theorem join_cons_cons (sep : Str) (x y : Str) (ys : List Str) :
    join sep (x :: y :: ys) = x ++ sep ++ join sep (y :: ys) := rfl

theorem join_singleton (sep : Str) (x : Str) : join sep [x] = x := rfl

/-- a non-empty join of tokens: shape facts used everywhere below -/
structure TokJoin (J : Str) : Prop where
  ok : ∀ c ∈ J, okChar c = true
  head : ∃ c cs, J = c :: cs ∧ cleanChar c = true
  last : ∃ cs c, J = cs ++ [c] ∧ cleanChar c = true

theorem tokJoin_token {t : Str} (h : wfToken t = true) : TokJoin t := by
  obtain ⟨hne, hc⟩ := wfToken_spec h
  refine ⟨fun c hm => by simp [okChar, hc c hm], ?_, ?_⟩
  · cases t with
    | nil => exact absurd rfl hne
    | cons c cs => exact ⟨c, cs, rfl, hc c (by simp)⟩
  · have := List.dropLast_concat_getLast hne
    exact ⟨t.dropLast, t.getLast hne, this.symm, hc _ (List.getLast_mem hne)⟩

theorem tokJoin_join : ∀ (toks : List Str), toks ≠ [] → (∀ t ∈ toks, wfToken t = true) →
    TokJoin (join [' '] toks)
  | [], h, _ => absurd rfl h
  | [t], _, hw => by rw [join_singleton]; exact tokJoin_token (hw t (by simp))
  | t :: u :: us, _, hw => by
    have ht := tokJoin_token (hw t (by simp))
    have hr := tokJoin_join (u :: us) (by simp) (fun x hx => hw x (by simp [hx]))
    rw [join_cons_cons]
    refine ⟨?_, ?_, ?_⟩
    · intro c hc
      simp only [List.mem_append, List.mem_singleton] at hc
      rcases hc with (hc | rfl) | hc
      · exact ht.ok c hc
      · decide
      · exact hr.ok c hc
    · obtain ⟨c, cs, he, hcl⟩ := ht.head
      exact ⟨c, cs ++ [' '] ++ join [' '] (u :: us), by rw [he]; simp, hcl⟩
    · obtain ⟨cs, c, he, hcl⟩ := hr.last
      exact ⟨t ++ [' '] ++ cs, c, by rw [he]; simp, hcl⟩

theorem lstrip_cons_of_not_space {c : Char} {cs : Str} (h : isSpace c = false) : lstrip (c :: cs) = c :: cs := by
  simp [lstrip, List.dropWhile, h]

theorem rstrip_append_of_not_space {c : Char} {cs : Str} (h : isSpace c = false) : rstrip (cs ++ [c]) = cs ++ [c] := by
  simp [rstrip, h]

theorem strip_tokJoin {J : Str} (h : TokJoin J) : strip J = J := by
  obtain ⟨c, cs, he, hc⟩ := h.head
  obtain ⟨ds, d, hd, hdc⟩ := h.last
  unfold strip
  have : lstrip J = J := by rw [he]; exact lstrip_cons_of_not_space (cleanChar_spec hc).1
  rw [this, hd]
  exact rstrip_append_of_not_space (cleanChar_spec hdc).1

theorem replaceAngles_tokJoin {J : Str} (h : TokJoin J) : replaceAngles J = J := by
  unfold replaceAngles
  have : ∀ c ∈ J, (fun c => if c = '<' then '(' else if c = '>' then ')' else c) c = c := by
    intro c hc
    obtain ⟨_, _, h3, h4⟩ := okChar_spec (h.ok c hc)
    simp [h3, h4]
  calc J.map _ = J.map id := List.map_congr_left this
    _ = J := List.map_id J

theorem split1_token_none {c : Char} {t : Str} (h : c ∉ t) : split1 c t = (t, none) := by
  induction t with
  | nil => rfl
  | cons x xs ih =>
    have hx : x ≠ c := fun e => h (by simp [e])
    have := ih (fun hm => h (by simp [hm]))
    simp [split1, hx, this]

theorem split1_token_some {c : Char} {t rest : Str} (h : c ∉ t) : split1 c (t ++ c :: rest) = (t, some rest) := by
  induction t with
  | nil => simp [split1]
  | cons x xs ih =>
    have hx : x ≠ c := fun e => h (by simp [e])
    have := ih (fun hm => h (by simp [hm]))
    simp [split1, hx, this]

theorem space_not_mem_token {t : Str} (h : wfToken t = true) : ' ' ∉ t := by
  intro hm
  have := (cleanChar_spec ((wfToken_spec h).2 _ hm)).2.2.2.2.2
  exact this rfl

theorem splitChar_token {sep : Char} (t rest acc : Str) (h : sep ∉ t) :
    splitChar sep (t ++ rest) acc = splitChar sep rest (t.reverse ++ acc) := by
  induction t generalizing acc with
  | nil => rfl
  | cons x xs ih =>
    have hx : x ≠ sep := fun e => h (by simp [e])
    have := ih (x :: acc) (fun hm => h (by simp [hm]))
    simp [splitChar, hx, this]

/-- `' '.join(toks).split(' ') == toks` for tokens without spaces -/
theorem splitChar_join : ∀ (toks : List Str), toks ≠ [] → (∀ t ∈ toks, ' ' ∉ t) →
    splitChar ' ' (join [' '] toks) [] = toks
  | [], h, _ => absurd rfl h
  | [t], _, hw => by
    rw [join_singleton]
    have := splitChar_token (sep := ' ') t [] [] (hw t (by simp))
    simp at this
    rw [this]; simp [splitChar]
  | t :: u :: us, _, hw => by
    rw [join_cons_cons]
    have h1 := splitChar_token (sep := ' ') t ([' '] ++ join [' '] (u :: us)) [] (hw t (by simp))
    rw [List.append_assoc, h1]
    simp only [List.append_nil, List.singleton_append, splitChar, if_true, List.reverse_reverse]
    rw [splitChar_join (u :: us) (by simp) (fun x hx => hw x (by simp [hx]))]

theorem findChar_none {c : Char} {s : Str} (h : c ∉ s) : findChar c s = none := by
  induction s with
  | nil => rfl
  | cons x xs ih =>
    have hx : x ≠ c := fun e => h (by simp [e])
    simp [findChar, hx, ih (fun hm => h (by simp [hm]))]

theorem mem_join {c : Char} : ∀ (toks : List Str), c ∈ join [' '] toks → c = ' ' ∨ ∃ t ∈ toks, c ∈ t
  | [], h => by simp [join] at h
  | [t], h => Or.inr ⟨t, by simp, h⟩
  | t :: u :: us, h => by
    rw [join_cons_cons] at h
    simp only [List.mem_append, List.mem_singleton] at h
    rcases h with (h | h) | h
    · exact Or.inr ⟨t, by simp, h⟩
    · exact Or.inl h
    · rcases mem_join (u :: us) h with h | ⟨x, hx, hc⟩
      · exact Or.inl h
      · exact Or.inr ⟨x, by simp [hx], hc⟩

end GIVerif.AnnParse
