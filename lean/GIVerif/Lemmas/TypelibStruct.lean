/-
  Lemmas for C06: the codec lifted to whole layouts (any list of members), the frame
  property, the size arithmetic, and the read primitives of the decoder.
-/
import GIVerif.Lemmas.Typelib
import GIVerif.Model.TypelibDecode

namespace GIVerif.Typelib

/-! ### members of a struct placed at byte `base` -/

theorem disjointBits_shift (b a wa c wc : Nat) :
    disjointBits (8 * b + a) wa (8 * b + c) wc = disjointBits a wa c wc := by
  unfold disjointBits
  have e1 : (8 * b + a + wa ≤ 8 * b + c) = (a + wa ≤ c) := by apply propext; omega
  have e2 : (8 * b + c + wc ≤ 8 * b + a) = (c + wc ≤ a) := by apply propext; omega
  simp only [e1, e2]

theorem Field.disjoint_comm (f g : Field) : f.disjoint g = g.disjoint f := by
  unfold Field.disjoint disjointBits
  exact Bool.or_comm _ _

theorem length_encodeField (l : List Nat) (base : Nat) (f : Field) (v : Nat) :
    (encodeField l base f v).length = l.length := length_encodeBits _ _ _ _

theorem length_encodeStruct (l : List Nat) (base : Nat) (L : List Field) (vals : List Nat) :
    (encodeStruct l base L vals).length = l.length := by
  induction L generalizing l vals with
  | nil => simp [encodeStruct]
  | cons f fs ih =>
    cases vals with
    | nil => simp [encodeStruct]
    | cons v vs => simp only [encodeStruct]; rw [ih, length_encodeField]

/-- write one member, read it back -/
theorem decodeField_encodeField_same (l : List Nat) (base : Nat) (f : Field) (v : Nat)
    (hin : 8 * base + f.first + f.width ≤ 8 * l.length) (hv : v < 2 ^ f.width) :
    decodeField? (listReader (encodeField l base f v)) base f = some v :=
  decode_encode_same l (8 * base + f.first) f.width v hin hv

/-- write one member: every disjoint member reads as before -/
theorem decodeField_encodeField_other (l : List Nat) (base : Nat) (f g : Field) (v : Nat)
    (hin : 8 * base + f.first + f.width ≤ 8 * l.length) (hd : f.disjoint g = true) :
    decodeField? (listReader (encodeField l base f v)) base g = decodeField? (listReader l) base g := by
  unfold decodeField? encodeField
  exact decode_encode_other l _ _ v _ _ hin (by rw [disjointBits_shift]; exact hd)

/-- writing a list of members does not disturb a member disjoint from all of them -/
theorem decodeField_encodeStruct_frame (l : List Nat) (base size : Nat) (fs : List Field) (vals : List Nat)
    (g : Field) (hroom : base + size ≤ l.length) (hin : fieldsInside size fs = true)
    (hd : fs.all (fun f => g.disjoint f) = true) :
    decodeField? (listReader (encodeStruct l base fs vals)) base g = decodeField? (listReader l) base g := by
  induction fs generalizing l vals with
  | nil => simp [encodeStruct]
  | cons f fs ih =>
    cases vals with
    | nil => simp [encodeStruct]
    | cons v vs =>
      simp only [encodeStruct]
      simp only [fieldsInside, List.all_cons, Bool.and_eq_true, decide_eq_true_eq] at hin hd
      obtain ⟨⟨_, hf⟩, hrest⟩ := hin
      rw [ih (encodeField l base f v) vs (by rw [length_encodeField]; exact hroom)
            (by simpa [fieldsInside] using hrest) hd.2]
      exact decodeField_encodeField_other l base f g v (by omega) (by rw [Field.disjoint_comm]; exact hd.1)

/-- the struct-level codec: for ANY well-formed layout and fitting values, decode ∘ encode = id -/
theorem decodeStruct_encodeStruct (L : List Field) (size base : Nat) (l : List Nat) (vals : List Nat)
    (hwf : wfStruct size L = true) (hfit : fits L vals = true) (hroom : base + size ≤ l.length) :
    decodeStruct? (listReader (encodeStruct l base L vals)) base L = some vals := by
  induction L generalizing l vals with
  | nil =>
    cases vals with
    | nil => rfl
    | cons v vs => simp [fits] at hfit
  | cons f fs ih =>
    cases vals with
    | nil => simp [fits] at hfit
    | cons v vs =>
      simp only [wfStruct, fieldsInside, pairwiseDisjoint, List.all_cons, Bool.and_eq_true,
        decide_eq_true_eq] at hwf
      obtain ⟨⟨⟨_, hf⟩, hinrest⟩, hdis, hpw⟩ := hwf
      simp only [fits, Bool.and_eq_true, decide_eq_true_eq] at hfit
      have hinrest' : fieldsInside size fs = true := by simpa [fieldsInside] using hinrest
      simp only [encodeStruct, decodeStruct?]
      have hlen : base + size ≤ (encodeField l base f v).length := by rw [length_encodeField]; exact hroom
      rw [decodeField_encodeStruct_frame (encodeField l base f v) base size fs vs f hlen hinrest' hdis]
      rw [decodeField_encodeField_same l base f v (by omega) hfit.1]
      rw [ih (encodeField l base f v) vs (by simp [wfStruct, hinrest', hpw]) hfit.2 hlen]

/-- bytes outside the struct are untouched -/
theorem byteFn_encodeStruct_outside (L : List Field) (size base : Nat) (l : List Nat) (vals : List Nat) (i : Nat)
    (hin : fieldsInside size L = true) (hi : i < base ∨ base + size ≤ i) :
    byteFn (encodeStruct l base L vals) i = byteFn l i := by
  induction L generalizing l vals with
  | nil => simp [encodeStruct]
  | cons f fs ih =>
    cases vals with
    | nil => simp [encodeStruct]
    | cons v vs =>
      simp only [encodeStruct]
      simp only [fieldsInside, List.all_cons, Bool.and_eq_true, decide_eq_true_eq] at hin
      obtain ⟨⟨_, hf⟩, hrest⟩ := hin
      rw [ih (encodeField l base f v) vs (by simpa [fieldsInside] using hrest)]
      unfold encodeField
      apply byteFn_encodeBits_other
      intro k h1 h2
      omega

/-- encoding keeps every byte below 256 -/
theorem encodeStruct_bytes (l : List Nat) (base : Nat) (L : List Field) (vals : List Nat)
    (hl : ∀ x ∈ l, x < 256) : ∀ x ∈ encodeStruct l base L vals, x < 256 := by
  induction L generalizing l vals with
  | nil => simpa [encodeStruct] using hl
  | cons f fs ih =>
    cases vals with
    | nil => simpa [encodeStruct] using hl
    | cons v vs =>
      simp only [encodeStruct]
      exact ih _ vs (encodeBits_bytes l _ _ v hl)

/-! ### size arithmetic -/

theorem align4_ge (n : Nat) : n ≤ align4 n := by unfold align4; omega
theorem align4_mod (n : Nat) : align4 n % 4 = 0 := by unfold align4; omega
theorem align4_lt (n : Nat) : align4 n < n + 4 := by unfold align4; omega
theorem align4_least (n m : Nat) (hm : m % 4 = 0) (h : n ≤ m) : align4 n ≤ m := by unfold align4; omega
theorem align4_fix (n : Nat) (h : n % 4 = 0) : align4 n = n := by unfold align4; omega

theorem strAlloc_room (len : Nat) : len + 1 ≤ strAlloc len ∧ strAlloc len % 4 = 0 ∧ strAlloc len ≤ len + 4 := by
  unfold strAlloc align4; omega

theorem indexListBytes_eq (n : Nat) : indexListBytes n = align4 (2 * n) := by
  unfold indexListBytes align4; omega

/-- a size variable of at least 32 bits holds every aligned 32-bit size unchanged -/
theorem dirIndexRequired_eq (bits packed : Nat) (hb : 32 ≤ bits) (hp : packed + 3 < 2 ^ 32) :
    dirIndexRequired bits packed = align4 packed := by
  have h32 : 2 ^ 32 ≤ 2 ^ bits := Nat.pow_le_pow_right (by decide) hb
  have ha := align4_lt packed
  unfold dirIndexRequired storeIn
  rw [Nat.mod_eq_of_lt (by omega : packed < 2 ^ bits), Nat.mod_eq_of_lt (by omega : align4 packed < 2 ^ bits)]

theorem dirIndexPackOk_of_wide (bits packed : Nat) (hb : 32 ≤ bits) (hp : packed + 3 < 2 ^ 32) :
    dirIndexPackOk bits packed = true := by
  unfold dirIndexPackOk
  rw [dirIndexRequired_eq bits packed hb hp]
  exact decide_eq_true (align4_ge packed)

theorem sz_values :
    szSimple = 4 ∧ szArray = 8 ∧ szIface = 4 ∧ szParam = 4 ∧ szError = 4 ∧ szArg = 16 ∧ szSignature = 8 ∧
    szField = 16 ∧ szCallback = 12 ∧ szFunction = 20 ∧ szProperty = 16 ∧ szSignal = 16 ∧ szVFunc = 20 ∧
    szConstant = 24 ∧ szValue = 12 := by decide

theorem Ty.pool_le (t : Ty) : szSimple + t.pool ≤ t.reserved ∧ t.pool % 4 = 0 ∧ t.reserved % 4 = 0 := by
  obtain ⟨h1, h2, h3, h4, h5, _⟩ := sz_values
  induction t with
  | basic => simp [Ty.pool, Ty.reserved, h1]
  | array e ih => simp only [Ty.pool, Ty.reserved, h1, h2] at *; omega
  | iface => simp [Ty.pool, Ty.reserved, h1, h3]
  | list e ih => simp only [Ty.pool, Ty.reserved, h1, h4] at *; omega
  | hash k v ihk ihv => simp only [Ty.pool, Ty.reserved, h1, h4] at *; omega
  | error => simp [Ty.pool, Ty.reserved, h1, h5]

theorem sum_paramPool_le (ps : List Param) :
    ps.length * szArg + (ps.map paramPool).sum ≤ (ps.map paramReserved).sum := by
  obtain ⟨h1, _, _, _, _, h6, _⟩ := sz_values
  induction ps with
  | nil => simp
  | cons p ps ih =>
    have := (Ty.pool_le p.2).1
    simp only [List.length_cons, List.map_cons, List.sum_cons, paramPool, paramReserved, h1, h6] at ih this ⊢
    have e : (ps.length + 1) * 16 = ps.length * 16 + 16 := by omega
    omega

end GIVerif.Typelib
