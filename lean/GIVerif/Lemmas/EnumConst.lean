import GIVerif.Model.EnumConst
import Mathlib.Data.List.Basic
import Batteries.Data.List.Perm

namespace GIVerif.EnumConst
open GIVerif.Py

open Lean in
/-- `c!"abc"` is the character list `['a', 'b', 'c']`, expanded at parse time (the kernel
    evaluates `String.toList` on literals far too slowly for `decide`). -/
macro:max "c!" s:str : term => do
  let elems := s.getString.toList.toArray.map (fun c => (Syntax.mkCharLit c : TSyntax `term))
  `([$elems,*])

/-! ### `split('_')` / `'_'.join` -/

theorem splitU_ne_nil (s : Str) : splitU s ≠ [] := by
  induction s with
  | nil => simp [splitU]
  | cons c cs ih =>
    unfold splitU
    split
    · simp
    · split <;> simp

theorem splitU_cons_sep (cs : Str) : splitU ('_' :: cs) = [] :: splitU cs := by
  simp [splitU]

theorem splitU_cons_ne {c : Char} (hc : c ≠ '_') (cs : Str) :
    ∃ w ws, splitU cs = w :: ws ∧ splitU (c :: cs) = (c :: w) :: ws := by
  cases h : splitU cs with
  | nil => exact absurd h (splitU_ne_nil cs)
  | cons w ws =>
    refine ⟨w, ws, rfl, ?_⟩
    rw [splitU, if_neg hc, h]

theorem splitU_no_sep (s : Str) : ∀ w ∈ splitU s, '_' ∉ w := by
  induction s with
  | nil => simp [splitU]
  | cons c cs ih =>
    by_cases hc : c = '_'
    · subst hc
      rw [splitU_cons_sep]
      intro w hw
      rcases List.mem_cons.mp hw with rfl | hw
      · simp
      · exact ih w hw
    · obtain ⟨w, ws, h1, h2⟩ := splitU_cons_ne hc cs
      rw [h2]
      rw [h1] at ih
      intro x hx
      rcases List.mem_cons.mp hx with rfl | hx
      · intro hmem
        rcases List.mem_cons.mp hmem with h | h
        · exact hc h.symm
        · exact ih w (by simp) h
      · exact ih x (by simp [hx])

theorem joinU_nil : joinU [] = [] := rfl
theorem joinU_singleton (w : Str) : joinU [w] = w := rfl
theorem joinU_cons_cons (w v : Str) (ws : List Str) :
    joinU (w :: v :: ws) = w ++ '_' :: joinU (v :: ws) := by
  simp [joinU, join]

theorem joinU_cons_of_ne_nil (w : Str) {ws : List Str} (h : ws ≠ []) :
    joinU (w :: ws) = w ++ '_' :: joinU ws := by
  cases ws with
  | nil => exact absurd rfl h
  | cons v vs => exact joinU_cons_cons w v vs

theorem joinU_splitU (s : Str) : joinU (splitU s) = s := by
  induction s with
  | nil => rfl
  | cons c cs ih =>
    by_cases hc : c = '_'
    · subst hc
      rw [splitU_cons_sep, joinU_cons_of_ne_nil _ (splitU_ne_nil cs), ih]
      rfl
    · obtain ⟨w, ws, h1, h2⟩ := splitU_cons_ne hc cs
      rw [h2]
      rw [h1] at ih
      cases ws with
      | nil =>
        rw [joinU_singleton] at ih ⊢
        rw [ih]
      | cons v vs =>
        rw [joinU_cons_cons] at ih ⊢
        rw [← ih]
        rfl

theorem splitU_of_no_sep {w : Str} (h : '_' ∉ w) : splitU w = [w] := by
  induction w with
  | nil => rfl
  | cons c cs ih =>
    have hc : c ≠ '_' := fun e => h (by simp [e])
    have hcs : '_' ∉ cs := fun e => h (by simp [e])
    obtain ⟨w, ws, h1, h2⟩ := splitU_cons_ne hc cs
    rw [h2]
    rw [ih hcs] at h1
    cases h1
    rfl

theorem splitU_append_sep {w : Str} (h : '_' ∉ w) (rest : Str) :
    splitU (w ++ '_' :: rest) = w :: splitU rest := by
  induction w with
  | nil => exact splitU_cons_sep rest
  | cons c cs ih =>
    have hc : c ≠ '_' := fun e => h (by simp [e])
    have hcs : '_' ∉ cs := fun e => h (by simp [e])
    obtain ⟨w, ws, h1, h2⟩ := splitU_cons_ne hc (cs ++ '_' :: rest)
    rw [List.cons_append, h2]
    rw [ih hcs] at h1
    cases h1
    rfl

theorem splitU_joinU {ws : List Str} (hne : ws ≠ []) (h : ∀ w ∈ ws, '_' ∉ w) :
    splitU (joinU ws) = ws := by
  induction ws with
  | nil => exact absurd rfl hne
  | cons w ws ih =>
    cases ws with
    | nil => rw [joinU_singleton]; exact splitU_of_no_sep (h w (by simp))
    | cons v vs =>
      rw [joinU_cons_cons, splitU_append_sep (h w (by simp))]
      rw [ih (by simp) (fun x hx => h x (by simp [hx]))]

theorem joinU_append {ws vs : List Str} (hw : ws ≠ []) (hv : vs ≠ []) :
    joinU (ws ++ vs) = joinU ws ++ '_' :: joinU vs := by
  induction ws with
  | nil => exact absurd rfl hw
  | cons w ws ih =>
    cases ws with
    | nil => rw [List.singleton_append, joinU_cons_of_ne_nil _ hv, joinU_singleton]
    | cons x xs =>
      rw [List.cons_append, joinU_cons_of_ne_nil _ (by simp), ih (by simp), joinU_cons_cons]
      simp

theorem joinU_append_empty {ws : List Str} (hw : ws ≠ []) : joinU (ws ++ [[]]) = joinU ws ++ ['_'] := by
  rw [joinU_append hw (by simp)]; rfl

theorem splitU_eq_singleton_nil {s : Str} : splitU s = [[]] ↔ s = [] := by
  constructor
  · intro h
    have := joinU_splitU s
    rw [h] at this
    exact this.symm
  · rintro rfl; rfl

/-- a word-prefix is a string prefix -/
theorem joinU_prefix_of_prefix {ws vs : List Str} (hw : ws ≠ []) (h : ws <+: vs) : joinU ws <+: joinU vs := by
  obtain ⟨t, rfl⟩ := h
  cases t with
  | nil => simp
  | cons x xs => rw [joinU_append hw (by simp)]; exact List.prefix_append _ _

theorem prefix_of_splitU_prefix {a b : Str} (h : splitU a <+: splitU b) : a <+: b := by
  have := joinU_prefix_of_prefix (splitU_ne_nil a) h
  rwa [joinU_splitU, joinU_splitU] at this

/-! ### `min(a, b)` -/

theorem strLt_append_self (a c : Str) : strLt (a ++ c) a = false := by
  induction a with
  | nil => cases c <;> rfl
  | cons x xs ih => simp [strLt, ih]

theorem strLt_self_append_cons (b : Str) (x : Char) (c : Str) : strLt b (b ++ x :: c) = true := by
  induction b with
  | nil => rfl
  | cons y ys ih => simp [strLt, ih]

theorem strMin_of_prefix {a b : Str} (h : a <+: b) : strMin a b = a := by
  obtain ⟨c, rfl⟩ := h
  simp [strMin, strLt_append_self]

theorem strMin_of_prefix_right {a b : Str} (h : b <+: a) (hne : b ≠ a) : strMin a b = b := by
  obtain ⟨c, rfl⟩ := h
  cases c with
  | nil => simp at hne
  | cons x xs => simp [strMin, strLt_self_append_cons]

/-! ### longest common prefix of word lists -/

/-- longest common prefix (declarative counterpart of the zip loop) -/
def lcp : List Str → List Str → List Str
  | a :: as, b :: bs => if a = b then a :: lcp as bs else []
  | _, _ => []

theorem lcp_prefix_left (W V : List Str) : lcp W V <+: W := by
  induction W generalizing V with
  | nil => simp [lcp]
  | cons a as ih =>
    cases V with
    | nil => simp [lcp]
    | cons b bs =>
      simp only [lcp]
      split
      · exact List.cons_prefix_cons.mpr ⟨rfl, ih bs⟩
      · exact List.nil_prefix

theorem lcp_prefix_right (W V : List Str) : lcp W V <+: V := by
  induction W generalizing V with
  | nil => simp [lcp]
  | cons a as ih =>
    cases V with
    | nil => simp [lcp]
    | cons b bs =>
      simp only [lcp]
      split
      · rename_i h; subst h; exact List.cons_prefix_cons.mpr ⟨rfl, ih bs⟩
      · exact List.nil_prefix

theorem prefix_lcp {c W V : List Str} (h1 : c <+: W) (h2 : c <+: V) : c <+: lcp W V := by
  induction c generalizing W V with
  | nil => exact List.nil_prefix
  | cons x xs ih =>
    cases W with
    | nil => simp at h1
    | cons a as =>
      cases V with
      | nil => simp at h2
      | cons b bs =>
        obtain ⟨rfl, h1'⟩ := List.cons_prefix_cons.mp h1
        obtain ⟨rfl, h2'⟩ := List.cons_prefix_cons.mp h2
        simp only [lcp, if_true]
        exact List.cons_prefix_cons.mpr ⟨rfl, ih h1' h2'⟩

theorem prefix_antisymm {α : Type} {a b : List α} (h1 : a <+: b) (h2 : b <+: a) : a = b :=
  h1.eq_of_length (Nat.le_antisymm h1.length_le h2.length_le)

theorem lcp_eq_left {W V : List Str} (h : W <+: V) : lcp W V = W :=
  prefix_antisymm (lcp_prefix_left W V) (prefix_lcp (List.prefix_refl W) h)

theorem lcp_eq_right {W V : List Str} (h : V <+: W) : lcp W V = V :=
  prefix_antisymm (lcp_prefix_right W V) (prefix_lcp h (List.prefix_refl V))

/-- appending to `W` does not change the common prefix with `V` once `W` itself is not a prefix of `V` -/
theorem lcp_append_of_not_prefix {W V : List Str} (X : List Str) (h : ¬ W <+: V) : lcp (W ++ X) V = lcp W V := by
  induction W generalizing V with
  | nil => exact absurd List.nil_prefix h
  | cons a as ih =>
    cases V with
    | nil => simp [lcp]
    | cons b bs =>
      simp only [List.cons_append, lcp]
      split
      · rename_i hab
        subst hab
        rw [ih]
        intro hp
        exact h (List.cons_prefix_cons.mpr ⟨rfl, hp⟩)
      · rfl

theorem lcp_append_singleton_of_prefix {L r : List Str} {x y : Str} (hxy : x ≠ y) :
    lcp (L ++ [x]) (L ++ y :: r) = L := by
  induction L with
  | nil => simp [lcp, hxy]
  | cons a as ih => simp [lcp, ih]

/-! ### the zip loop is the longest common prefix -/

theorem zipCommon_of_prefix_left {W V : List Str} (h : W <+: V) : zipCommon W V = none := by
  induction W generalizing V with
  | nil => cases V <;> rfl
  | cons a as ih =>
    cases V with
    | nil => simp at h
    | cons b bs =>
      obtain ⟨rfl, h'⟩ := List.cons_prefix_cons.mp h
      simp [zipCommon, ih h']

theorem zipCommon_of_prefix_right {W V : List Str} (h : V <+: W) : zipCommon W V = none := by
  induction V generalizing W with
  | nil => cases W <;> rfl
  | cons b bs ih =>
    cases W with
    | nil => simp at h
    | cons a as =>
      obtain ⟨rfl, h'⟩ := List.cons_prefix_cons.mp h
      simp [zipCommon, ih h']

theorem zipCommon_of_not_prefix {W V : List Str} (h1 : ¬ W <+: V) (h2 : ¬ V <+: W) :
    zipCommon W V = some (lcp W V) := by
  induction W generalizing V with
  | nil => exact absurd List.nil_prefix h1
  | cons a as ih =>
    cases V with
    | nil => exact absurd List.nil_prefix h2
    | cons b bs =>
      simp only [zipCommon, lcp]
      split
      · rename_i hab
        subst hab
        rw [ih (fun hp => h1 (List.cons_prefix_cons.mpr ⟨rfl, hp⟩))
              (fun hp => h2 (List.cons_prefix_cons.mpr ⟨rfl, hp⟩))]
        rfl
      · rfl

/-- `common_prefix` on word lists -/
def stepW (W v : List Str) : Option (List Str) :=
  if W <+: v then some W
  else if v <+: W then some v
  else if lcp W v = [] then none
  else some (lcp W v ++ [[]])

def render : Option (List Str) → Str
  | none => []
  | some W => joinU W

theorem commonPrefix2_eq (a b : Str) : commonPrefix2 a b = render (stepW (splitU a) (splitU b)) := by
  unfold commonPrefix2 stepW
  by_cases h1 : splitU a <+: splitU b
  · rw [zipCommon_of_prefix_left h1, if_pos h1]
    simp only [render, joinU_splitU]
    exact strMin_of_prefix (prefix_of_splitU_prefix h1)
  · rw [if_neg h1]
    by_cases h2 : splitU b <+: splitU a
    · rw [zipCommon_of_prefix_right h2, if_pos h2]
      simp only [render, joinU_splitU]
      refine strMin_of_prefix_right (prefix_of_splitU_prefix h2) ?_
      rintro rfl
      exact h1 (List.prefix_refl _)
    · rw [zipCommon_of_not_prefix h1 h2, if_neg h2]
      cases hl : lcp (splitU a) (splitU b) with
      | nil => simp [render]
      | cons x xs =>
        simp only [render, reduceCtorEq, if_false]
        rw [joinU_append_empty (by simp)]

/-! ### the fold over the members -/

/-- greatest common prefix of a non-empty family of word lists -/
def lcpAll : List (List Str) → List Str
  | [] => []
  | w :: ws => ws.foldl lcp w

theorem lcpAll_append_singleton {seen : List (List Str)} (h : seen ≠ []) (v : List Str) :
    lcpAll (seen ++ [v]) = lcp (lcpAll seen) v := by
  cases seen with
  | nil => exact absurd rfl h
  | cons w ws => simp [lcpAll, List.foldl_append]

theorem foldl_lcp_prefix (ws : List (List Str)) (w : List Str) : ws.foldl lcp w <+: w := by
  induction ws generalizing w with
  | nil => exact List.prefix_refl w
  | cons v vs ih => exact (ih (lcp w v)).trans (lcp_prefix_left w v)

theorem foldl_lcp_prefix_mem (ws : List (List Str)) (w : List Str) : ∀ v ∈ ws, ws.foldl lcp w <+: v := by
  induction ws generalizing w with
  | nil => simp
  | cons x xs ih =>
    intro v hv
    rcases List.mem_cons.mp hv with rfl | hv
    · exact (foldl_lcp_prefix xs (lcp w v)).trans (lcp_prefix_right w v)
    · exact ih (lcp w x) v hv

theorem lcpAll_prefix_mem {ws : List (List Str)} : ∀ v ∈ ws, lcpAll ws <+: v := by
  cases ws with
  | nil => simp
  | cons w ws =>
    intro v hv
    rcases List.mem_cons.mp hv with rfl | hv
    · exact foldl_lcp_prefix ws v
    · exact foldl_lcp_prefix_mem ws w v hv

theorem prefix_foldl_lcp {c : List Str} (ws : List (List Str)) (w : List Str) (hw : c <+: w)
    (h : ∀ v ∈ ws, c <+: v) : c <+: ws.foldl lcp w := by
  induction ws generalizing w with
  | nil => exact hw
  | cons x xs ih =>
    exact ih (lcp w x) (prefix_lcp hw (h x (by simp))) (fun v hv => h v (by simp [hv]))

theorem prefix_lcpAll {c : List Str} {ws : List (List Str)} (hne : ws ≠ []) (h : ∀ v ∈ ws, c <+: v) :
    c <+: lcpAll ws := by
  cases ws with
  | nil => exact absurd rfl hne
  | cons w ws => exact prefix_foldl_lcp ws w (h w (by simp)) (fun v hv => h v (by simp [hv]))

/-- `L` is the greatest common prefix of the family -/
def IsGCP (ws : List (List Str)) (L : List Str) : Prop :=
  (∀ w ∈ ws, L <+: w) ∧ ∀ c, (∀ w ∈ ws, c <+: w) → c <+: L

theorem lcpAll_isGCP {ws : List (List Str)} (hne : ws ≠ []) : IsGCP ws (lcpAll ws) :=
  ⟨fun _ hw => lcpAll_prefix_mem _ hw, fun _ hc => prefix_lcpAll hne hc⟩

theorem IsGCP.unique {ws : List (List Str)} {L L' : List Str} (h : IsGCP ws L) (h' : IsGCP ws L') : L = L' :=
  prefix_antisymm (h'.2 L h.1) (h.2 L' h'.1)

theorem IsGCP.of_perm {ws ws' : List (List Str)} {L : List Str} (hp : ws.Perm ws') (h : IsGCP ws L) :
    IsGCP ws' L :=
  ⟨fun w hw => h.1 w (hp.mem_iff.mpr hw), fun c hc => h.2 c (fun w hw => hc w (hp.mem_iff.mp hw))⟩

/-- the value `_enum_common_prefix` ought to have, on word lists -/
def expectedW (ws : List (List Str)) : Option (List Str) :=
  if lcpAll ws = [] then none
  else if lcpAll ws ∈ ws then some (lcpAll ws)
  else some (lcpAll ws ++ [[]])

/-- state of the loop after the members `seen`: the common words, with a trailing empty word
    (the appended `'_'`) exactly when no member so far consists of the common words alone -/
def StW (seen : List (List Str)) (W : List Str) : Prop :=
  (W = lcpAll seen ∧ lcpAll seen ∈ seen) ∨
  (W = lcpAll seen ++ [[]] ∧ lcpAll seen ∉ seen ∧ lcpAll seen ≠ [])

theorem prefix_append_singleton {α : Type} {v L : List α} {x : α} (h : v <+: L ++ [x]) (hne : v ≠ L ++ [x]) :
    v <+: L := by
  rcases List.prefix_concat_iff.mp h with h | h
  · exact absurd h hne
  · exact h

theorem stepW_inv_aux (seen : List (List Str)) (L v W : List Str) (hall : ∀ s ∈ seen, L <+: s)
    (hst : (W = L ∧ L ∈ seen) ∨ (W = L ++ [[]] ∧ L ∉ seen ∧ L ≠ [])) :
    (stepW W v = none ∧ lcp L v = []) ∨
    (∃ W', stepW W v = some W' ∧
      ((W' = lcp L v ∧ lcp L v ∈ seen ++ [v]) ∨
       (W' = lcp L v ++ [[]] ∧ lcp L v ∉ seen ++ [v] ∧ lcp L v ≠ []))) := by
  have key : ¬ L <+: v → ¬ v <+: L → lcp L v ∉ seen ++ [v] := by
    intro hn1 hn2 hmem
    rcases List.mem_append.mp hmem with hs | hs
    · have h1 : L <+: lcp L v := hall _ hs
      have h2 : lcp L v <+: L := lcp_prefix_left _ _
      have e : lcp L v = L := prefix_antisymm h2 h1
      exact hn1 (e ▸ lcp_prefix_right L v)
    · simp only [List.mem_singleton] at hs
      exact hn2 (hs ▸ lcp_prefix_left L v)
  rcases hst with ⟨hW, hmem⟩ | ⟨hW, hnmem, hLne⟩
  · -- the state is a member's own word list
    rw [hW]
    unfold stepW
    by_cases h1 : L <+: v
    · right
      refine ⟨L, by rw [if_pos h1], Or.inl ⟨(lcp_eq_left h1).symm, ?_⟩⟩
      rw [lcp_eq_left h1]; simp [hmem]
    · rw [if_neg h1]
      by_cases h2 : v <+: L
      · right
        refine ⟨v, by rw [if_pos h2], Or.inl ⟨(lcp_eq_right h2).symm, ?_⟩⟩
        rw [lcp_eq_right h2]; simp
      · rw [if_neg h2]
        by_cases h3 : lcp L v = []
        · left; exact ⟨by rw [if_pos h3], h3⟩
        · right
          exact ⟨lcp L v ++ [[]], by rw [if_neg h3], Or.inr ⟨rfl, key h1 h2, h3⟩⟩
  · -- the state carries the appended separator
    rw [hW]
    unfold stepW
    by_cases h1 : L ++ [[]] <+: v
    · right
      have hLv : L <+: v := (List.prefix_append L [[]]).trans h1
      refine ⟨L ++ [[]], by rw [if_pos h1], Or.inr ⟨by rw [lcp_eq_left hLv], ?_, by rw [lcp_eq_left hLv]; exact hLne⟩⟩
      rw [lcp_eq_left hLv]
      intro hm
      rcases List.mem_append.mp hm with hs | hs
      · exact hnmem hs
      · simp only [List.mem_singleton] at hs
        have := h1.length_le
        rw [← hs] at this
        simp at this
        omega
    · rw [if_neg h1]
      by_cases h2 : v <+: L ++ [[]]
      · right
        have hvL : v <+: L := prefix_append_singleton h2 (fun e => h1 (e ▸ List.prefix_refl _))
        refine ⟨v, by rw [if_pos h2], Or.inl ⟨(lcp_eq_right hvL).symm, ?_⟩⟩
        rw [lcp_eq_right hvL]; simp
      · rw [if_neg h2]
        by_cases hLv : L <+: v
        · -- v continues the common words with a non-empty word
          obtain ⟨r, rfl⟩ := hLv
          have hlcp : lcp (L ++ [[]]) (L ++ r) = L := by
            cases r with
            | nil => exact absurd (by simp) h2
            | cons y ys =>
              have hy : ([] : Str) ≠ y := by
                rintro rfl
                exact h1 ⟨ys, by simp⟩
              exact lcp_append_singleton_of_prefix hy
          right
          have hLL : lcp L (L ++ r) = L := lcp_eq_left (List.prefix_append L r)
          refine ⟨L ++ [[]], by rw [hlcp, if_neg hLne], Or.inr ⟨by rw [hLL], ?_, by rw [hLL]; exact hLne⟩⟩
          rw [hLL]
          intro hm
          rcases List.mem_append.mp hm with hs | hs
          · exact hnmem hs
          · simp only [List.mem_singleton] at hs
            exact h2 (hs ▸ List.prefix_append L [[]])
        · have hvL : ¬ v <+: L := fun h => h2 (h.trans (List.prefix_append L [[]]))
          rw [lcp_append_of_not_prefix [[]] hLv]
          by_cases h3 : lcp L v = []
          · left; exact ⟨by rw [if_pos h3], h3⟩
          · right
            exact ⟨lcp L v ++ [[]], by rw [if_neg h3], Or.inr ⟨rfl, key hLv hvL, h3⟩⟩

theorem stepW_inv {seen : List (List Str)} {W : List Str} (hne : seen ≠ []) (v : List Str)
    (hst : StW seen W) :
    (stepW W v = none ∧ lcp (lcpAll seen) v = []) ∨
    (∃ W', stepW W v = some W' ∧ StW (seen ++ [v]) W') := by
  unfold StW
  rw [lcpAll_append_singleton hne]
  exact stepW_inv_aux seen (lcpAll seen) v W (fun s hs => lcpAll_prefix_mem s hs) hst

/-- the members seen so far are word lists of non-empty identifiers -/
def GoodSeen (seen : List (List Str)) : Prop :=
  seen ≠ [] ∧ ∀ s ∈ seen, ∃ id : Str, id ≠ [] ∧ s = splitU id

theorem StW_good {seen : List (List Str)} {W : List Str} (hs : GoodSeen seen) (h : StW seen W) :
    W ≠ [] ∧ (∀ w ∈ W, '_' ∉ w) ∧ joinU W ≠ [] := by
  rcases h with ⟨hW, hmem⟩ | ⟨hW, _, hLne⟩
  · obtain ⟨id, hid, he⟩ := hs.2 _ hmem
    rw [hW, he]
    exact ⟨splitU_ne_nil id, splitU_no_sep id, by rw [joinU_splitU]; exact hid⟩
  · rw [hW]
    refine ⟨by simp, ?_, ?_⟩
    · obtain ⟨s0, hs0⟩ := List.exists_mem_of_ne_nil seen hs.1
      obtain ⟨id, _, he⟩ := hs.2 s0 hs0
      have hp : lcpAll seen <+: splitU id := he ▸ lcpAll_prefix_mem s0 hs0
      intro w hw
      rcases List.mem_append.mp hw with hw | hw
      · exact splitU_no_sep id w (hp.subset hw)
      · simp only [List.mem_singleton] at hw
        subst hw
        simp
    · rw [joinU_append_empty hLne]
      simp

theorem lcpAll_append_prefix {A : List (List Str)} (hA : A ≠ []) (B : List (List Str)) :
    lcpAll (A ++ B) <+: lcpAll A :=
  prefix_lcpAll hA (fun v hv => lcpAll_prefix_mem v (List.mem_append_left B hv))

theorem prefixFold_eq (seen : List (List Str)) (p : Str) (cs : List Str) (hs : GoodSeen seen)
    (hst : StW seen (splitU p)) (hcs : ∀ c ∈ cs, c ≠ []) :
    prefixFold p cs = (expectedW (seen ++ cs.map splitU)).map joinU := by
  induction cs generalizing seen p with
  | nil =>
    simp only [prefixFold, List.map_nil, List.append_nil, expectedW]
    rcases hst with ⟨hW, hmem⟩ | ⟨hW, hnmem, hLne⟩
    · have hne : lcpAll seen ≠ [] := hW ▸ splitU_ne_nil p
      rw [if_neg hne, if_pos hmem, Option.map_some, ← hW, joinU_splitU]
    · rw [if_neg hLne, if_neg hnmem, Option.map_some, ← hW, joinU_splitU]
  | cons c cs ih =>
    have hc : c ≠ [] := hcs c (by simp)
    simp only [prefixFold]
    rw [commonPrefix2_eq]
    rcases stepW_inv hs.1 (splitU c) hst with ⟨hnone, hl⟩ | ⟨W', hsome, hst'⟩
    · rw [hnone, if_pos (show render none = [] from rfl)]
      have h0 : lcpAll (seen ++ (c :: cs).map splitU) = [] := by
        have h1 : lcpAll (seen ++ [splitU c] ++ cs.map splitU) <+: lcpAll (seen ++ [splitU c]) :=
          lcpAll_append_prefix (by simp) _
        rw [lcpAll_append_singleton hs.1, hl] at h1
        simpa using List.prefix_nil.mp h1
      unfold expectedW
      rw [if_pos h0]
      rfl
    · have hs' : GoodSeen (seen ++ [splitU c]) := by
        refine ⟨by simp, fun s hmem => ?_⟩
        rcases List.mem_append.mp hmem with h | h
        · exact hs.2 s h
        · simp only [List.mem_singleton] at h
          exact ⟨c, hc, h⟩
      obtain ⟨hne, hsep, hj⟩ := StW_good hs' hst'
      rw [hsome, if_neg (show render (some W') ≠ [] from hj)]
      show prefixFold (joinU W') cs = _
      have := ih (seen ++ [splitU c]) (joinU W') hs' (by rw [splitU_joinU hne hsep]; exact hst')
        (fun x hx => hcs x (by simp [hx]))
      rw [this]
      simp

theorem enumMinMembers_eq : Gen.enumMinMembers = 2 := rfl

/-- `_enum_common_prefix` in closed form, for every member list (no hypothesis about
    word-prefixes): the common leading words, followed by `_` unless some member consists
    of exactly those words -/
theorem enumCommonPrefix_eq (ids : List Str) (h2 : 2 ≤ ids.length) (hne : ∀ id ∈ ids, id ≠ []) :
    enumCommonPrefix ids = (expectedW (ids.map splitU)).map joinU := by
  unfold enumCommonPrefix
  rw [enumMinMembers_eq, if_neg (by omega)]
  cases ids with
  | nil => simp at h2
  | cons first rest =>
    have := prefixFold_eq [splitU first] first rest
      ⟨by simp, fun s hsm => ⟨first, hne first (by simp), by simpa using hsm⟩⟩
      (Or.inl ⟨rfl, by simp [lcpAll]⟩) (fun c hc => hne c (by simp [hc]))
    simpa using this

theorem enumCommonPrefix_short (ids : List Str) (h : ids.length < 2) : enumCommonPrefix ids = none := by
  unfold enumCommonPrefix
  rw [enumMinMembers_eq, if_pos h]

theorem lcpAll_perm {ws ws' : List (List Str)} (hp : ws.Perm ws') : lcpAll ws = lcpAll ws' := by
  by_cases hne : ws = []
  · subst hne
    rw [← hp.nil_eq]
  · have hne' : ws' ≠ [] := fun e => hne (by subst e; exact List.perm_nil.mp hp)
    exact ((lcpAll_isGCP hne).of_perm hp).unique (lcpAll_isGCP hne')

theorem expectedW_perm {ws ws' : List (List Str)} (hp : ws.Perm ws') : expectedW ws = expectedW ws' := by
  unfold expectedW
  rw [lcpAll_perm hp]
  have : lcpAll ws' ∈ ws ↔ lcpAll ws' ∈ ws' := hp.mem_iff
  by_cases h : lcpAll ws' ∈ ws'
  · rw [if_pos h, if_pos (this.mpr h)]
  · rw [if_neg h, if_neg (fun h' => h (this.mp h'))]

/-! ### `_strip_symbol` -/

theorem startsWith_iff {s t : Str} : startsWith s t = true ↔ t <+: s := by
  unfold startsWith
  exact List.isPrefixOf_iff_prefix

theorem firstPrefixMatch_of_first {ps pre post : List Str} {p name : Str} (hs : ps = pre ++ p :: post)
    (hpre : ∀ q ∈ pre, ¬ q <+: name) (hp : p <+: name) :
    firstPrefixMatch ps name = some (name.drop p.length) := by
  subst hs
  induction pre with
  | nil => simp [firstPrefixMatch, startsWith_iff.mpr hp]
  | cons q qs ih =>
    have hq : startsWith name q = false := by
      cases h : startsWith name q with
      | false => rfl
      | true => exact absurd (startsWith_iff.mp h) (hpre q (by simp))
    simp only [List.cons_append, firstPrefixMatch, hq]
    exact ih (fun x hx => hpre x (by simp [hx]))

theorem firstPrefixMatch_none {ps : List Str} {name : Str} (h : ∀ q ∈ ps, ¬ q <+: name) :
    firstPrefixMatch ps name = none := by
  induction ps with
  | nil => rfl
  | cons q qs ih =>
    have hq : startsWith name q = false := by
      cases h' : startsWith name q with
      | false => rfl
      | true => exact absurd (startsWith_iff.mp h') (h q (by simp))
    simp only [firstPrefixMatch, hq]
    exact ih (fun x hx => h x (by simp [hx]))

/-- a namespace symbol prefix as it is compared with an identifier whose first character is `c`:
    upper-cased for an upper-case identifier, with `_` appended unless already there -/
def casedPrefix (c : Char) (p : Str) : Str :=
  withUnderscore (if isAsciiUpper c then upperStr p else p)

theorem symbolPrefixesFor_eq (symp : List Str) (c : Char) :
    symbolPrefixesFor symp c = symp.map (casedPrefix c) := by
  unfold symbolPrefixesFor casedPrefix
  cases isAsciiUpper c <;> simp [List.map_map, Function.comp_def]

theorem stripSymbol_public {symp : List Str} {c : Char} {tail : Str} (hc : c ≠ '_') :
    stripSymbol symp (c :: tail) =
      match firstPrefixMatch (symp.map (casedPrefix c)) (c :: tail) with
      | some rest => .ok rest
      | none => .error (.unknownSymbol (c :: tail)) := by
  have hh : startsWith (c :: tail) ['_'] = false := by
    simp [startsWith, List.isPrefixOf, Ne.symm hc]
  unfold stripSymbol
  simp only [hh, Bool.false_eq_true, if_false]
  rw [symbolPrefixesFor_eq]
  rfl

theorem stripSymbol_ok {symp pre post : List Str} {c : Char} {tail p rest : Str} (hc : c ≠ '_')
    (hs : symp = pre ++ p :: post) (hP : c :: tail = casedPrefix c p ++ rest)
    (hfirst : ∀ q ∈ pre, ¬ casedPrefix c q <+: c :: tail) :
    stripSymbol symp (c :: tail) = .ok rest := by
  rw [stripSymbol_public hc]
  have hm : firstPrefixMatch (symp.map (casedPrefix c)) (c :: tail) = some rest := by
    have := firstPrefixMatch_of_first (ps := symp.map (casedPrefix c)) (pre := pre.map (casedPrefix c))
      (post := post.map (casedPrefix c)) (p := casedPrefix c p) (name := c :: tail)
      (by rw [hs]; simp)
      (by
        intro q hq
        obtain ⟨q', hq', rfl⟩ := List.mem_map.mp hq
        exact hfirst q' hq')
      ⟨rest, hP.symm⟩
    rw [this, hP]
    simp
  rw [hm]

theorem stripSymbol_unknown {symp : List Str} {c : Char} {tail : Str} (hc : c ≠ '_')
    (hnone : ∀ q ∈ symp, ¬ casedPrefix c q <+: c :: tail) :
    stripSymbol symp (c :: tail) = .error (.unknownSymbol (c :: tail)) := by
  rw [stripSymbol_public hc]
  have hm : firstPrefixMatch (symp.map (casedPrefix c)) (c :: tail) = none := by
    apply firstPrefixMatch_none
    intro q hq
    obtain ⟨q', hq', rfl⟩ := List.mem_map.mp hq
    exact hnone q' hq'
  rw [hm]

/-! ### the member loop -/

theorem createMembers_ok (symp : List Str) (n : Nat) (f : CMember → Str) (children : List CMember)
    (h : ∀ ch ∈ children, ch.priv = false → memberName symp n ch.ident = .ok (f ch)) :
    createMembers symp n children =
      .ok ((children.filter (fun ch => !ch.priv)).map (fun ch => ⟨lowerStr (f ch), ch.value, ch.ident⟩)) := by
  induction children with
  | nil => rfl
  | cons ch rest ih =>
    have ih' := ih (fun x hx hp => h x (by simp [hx]) hp)
    unfold createMembers
    cases hp : ch.priv with
    | true => simp [ih', hp]
    | false =>
      simp only [Bool.false_eq_true, if_false]
      rw [h ch (by simp) hp, ih']
      simp [hp]

theorem createMembers_shape {symp : List Str} {n : Nat} {children : List CMember} {ms : List Member}
    (h : createMembers symp n children = .ok ms) :
    ms.map (·.cident) = (children.filter (fun ch => !ch.priv)).map (·.ident) ∧
    ms.map (·.value) = (children.filter (fun ch => !ch.priv)).map (·.value) := by
  induction children generalizing ms with
  | nil =>
    simp only [createMembers, Except.ok.injEq] at h
    subst h
    simp
  | cons ch rest ih =>
    unfold createMembers at h
    cases hp : ch.priv with
    | true =>
      simp only [hp, if_true] at h
      simpa [hp] using ih h
    | false =>
      simp only [hp, Bool.false_eq_true, if_false] at h
      cases hm : memberName symp n ch.ident with
      | error e => rw [hm] at h; cases h
      | ok name =>
        rw [hm] at h
        cases hr : createMembers symp n rest with
        | error e => rw [hr] at h; cases h
        | ok ms' =>
          rw [hr] at h
          simp only [Except.ok.injEq] at h
          subst h
          have := ih hr
          simp [hp, this.1, this.2]

/-- an enumeration whose fallback cannot be applied is refused (a warning in `parse`), never
    given made-up names -/
theorem createMembers_error {symp : List Str} {n : Nat} {children : List CMember}
    (h : ∃ ch ∈ children, ch.priv = false ∧ ∃ e, memberName symp n ch.ident = .error e) :
    ∃ e, createMembers symp n children = .error e := by
  induction children with
  | nil => simp at h
  | cons ch rest ih =>
    unfold createMembers
    obtain ⟨x, hx, hxp, e, he⟩ := h
    cases hp : ch.priv with
    | true =>
      simp only [if_true]
      rcases List.mem_cons.mp hx with rfl | hx
      · rw [hp] at hxp; cases hxp
      · exact ih ⟨x, hx, hxp, e, he⟩
    | false =>
      simp only [Bool.false_eq_true, if_false]
      cases hm : memberName symp n ch.ident with
      | error e' => exact ⟨e', rfl⟩
      | ok name =>
        rcases List.mem_cons.mp hx with rfl | hx
        · rw [hm] at he; cases he
        · obtain ⟨e', he'⟩ := ih ⟨x, hx, hxp, e, he⟩
          rw [he']
          exact ⟨e', rfl⟩

theorem lowerStr_length (s : Str) : (lowerStr s).length = s.length := by simp [lowerStr]

/-! ### types of constants -/

/-- the (target_fundamental, ctype) pairs of `ast.type_names` -/
def fundamentalRows : List (Str × Str) := Gen.typeNamesL.map (fun r => (r.2.1, r.2.2))

theorem lookupTypeName_mem {t : Str} {x : Str × Str} (h : lookupTypeName t = some x) : x ∈ fundamentalRows := by
  unfold lookupTypeName at h
  obtain ⟨r, hr, rfl⟩ := Option.map_eq_some_iff.mp h
  exact List.mem_map.mpr ⟨r, List.mem_of_find?_eq_some hr, rfl⟩

/-- every target_fundamental of `type_names` is itself a key that maps to itself, has no `*`
    and is not one of the two spellings special-cased by `create_type_from_ctype_string` -/
theorem fundamentals_closed : ∀ x ∈ fundamentalRows,
    x.1 ≠ ['_','B','o','o','l'] ∧ x.1 ≠ ['b','o','o','l'] ∧ stripStars x.1 = x.1 ∧
    (lookupTypeName x.1).map (·.1) = some x.1 := by
  decide +kernel

theorem canonRev_of_lookup {r : Str} {x : Str × Str} (h : lookupTypeName r.reverse = some x) :
    canonRev r = x.1 := by
  cases r with
  | nil =>
    simp only [List.reverse_nil] at h
    simp [canonRev, h]
  | cons c r =>
    simp only [canonRev]
    rw [h]

theorem canonicalize_of_lookup {t : Str} {x : Str × Str} (h : lookupTypeName t = some x) :
    canonicalizeCType t = x.1 := by
  unfold canonicalizeCType
  exact canonRev_of_lookup (by rw [List.reverse_reverse]; exact h)

theorem createTypeFromCType_of_lookup {t : Str} {x : Str × Str} (h : lookupTypeName t = some x) :
    createTypeFromCType t = some x.1 := by
  obtain ⟨h1, h2, h3, h4⟩ := fundamentals_closed x (lookupTypeName_mem h)
  unfold createTypeFromCType
  simp only [canonicalize_of_lookup h, h1, h2, or_self, if_false, h3]
  exact h4

/-- `unaliased.target_fundamental` for a constant declared with a type name of `type_names` -/
theorem constUnaliased_direct {idp : List Str} {nodes : List Node} {t : Str} {x : Str × Str}
    (h : lookupTypeName t = some x) (hn : lookupNode idp nodes t = none) :
    constUnaliased idp nodes t = some x.1 := by
  unfold constUnaliased
  rw [hn, createTypeFromCType_of_lookup h]

theorem lookupNode_mem {idp : List Str} {nodes : List Node} {t : Str} {nd : Node}
    (h : lookupNode idp nodes t = some nd) : nd ∈ nodes := by
  simp only [lookupNode] at h
  cases hp : firstPrefixMatch idp (stripStars t) with
  | none => rw [hp] at h; cases h
  | some rest =>
    rw [hp] at h
    cases hf : nodes.find? (fun n => n.name = rest) with
    | some n =>
      simp only [hf, Option.some.injEq] at h
      subst h
      exact List.mem_of_find?_eq_some hf
    | none =>
      simp only [hf] at h
      exact List.mem_of_find?_eq_some h

/-- the C type name `t` names a typedef of the namespace, and following the typedefs
    (`path`, in order) ends at `target`, a key of `ast.type_names` for the fundamental type
    `f`; the intermediate targets are not spellings of a fundamental type -/
inductive ChainTo (idp : List Str) (nodes : List Node) : Str → Str → List Node → Prop where
  | last {t n c target f ct : Str} : lookupNode idp nodes t = some (.alias n c target) →
      lookupTypeName target = some (f, ct) → ChainTo idp nodes t f [.alias n c target]
  | step {t n c target f : Str} {p : List Node} : lookupNode idp nodes t = some (.alias n c target) →
      createTypeFromCType target = none → ChainTo idp nodes target f p →
      ChainTo idp nodes t f (.alias n c target :: p)

theorem ChainTo.head {idp : List Str} {nodes : List Node} {t f : Str} {p : List Node}
    (h : ChainTo idp nodes t f p) : ∃ x q, p = x :: q ∧ lookupNode idp nodes t = some x := by
  cases h with
  | last h1 _ => exact ⟨_, _, rfl, h1⟩
  | step h1 _ _ => exact ⟨_, _, rfl, h1⟩

theorem ChainTo.subset {idp : List Str} {nodes : List Node} {t f : Str} {p : List Node}
    (h : ChainTo idp nodes t f p) : ∀ x ∈ p, x ∈ nodes := by
  induction h with
  | last h1 _ =>
    intro x hx
    simp only [List.mem_singleton] at hx
    subst hx
    exact lookupNode_mem h1
  | step h1 _ _ ih =>
    intro x hx
    rcases List.mem_cons.mp hx with rfl | hx
    · exact lookupNode_mem h1
    · exact ih x hx

/-- the typedefs a type name goes through are determined by the namespace -/
theorem ChainTo.det {idp : List Str} {nodes : List Node} {t f : Str} {p : List Node}
    (h : ChainTo idp nodes t f p) : ∀ {f' : Str} {p' : List Node}, ChainTo idp nodes t f' p' → p = p' := by
  induction h with
  | last h1 h2 =>
    intro f' p' h'
    cases h' with
    | last h1' _ =>
      rw [h1] at h1'
      cases h1'
      rfl
    | step h1' h2' _ =>
      rw [h1] at h1'
      cases h1'
      rw [createTypeFromCType_of_lookup h2] at h2'
      cases h2'
  | step h1 h2 _ ih =>
    intro f' p' h'
    cases h' with
    | last h1' h2' =>
      rw [h1] at h1'
      cases h1'
      rw [createTypeFromCType_of_lookup h2'] at h2
      cases h2
    | step h1' _ h3' =>
      rw [h1] at h1'
      cases h1'
      rw [ih h3']

/-- every typedef on the way starts a chain of its own, a suffix of the whole -/
theorem ChainTo.suffix {idp : List Str} {nodes : List Node} {t f : Str} {p : List Node}
    (h : ChainTo idp nodes t f p) : ∀ x ∈ p, ∃ t' q, ChainTo idp nodes t' f (x :: q) ∧ (x :: q) <:+ p := by
  induction h with
  | @last t n c target f ct h1 h2 =>
    intro x hx
    simp only [List.mem_singleton] at hx
    subst hx
    exact ⟨t, [], .last h1 h2, List.suffix_refl _⟩
  | @step t n c target f p h1 h2 h3 ih =>
    intro x hx
    rcases List.mem_cons.mp hx with rfl | hx
    · exact ⟨t, p, .step h1 h2 h3, List.suffix_refl _⟩
    · obtain ⟨t', q, hq, hs⟩ := ih x hx
      exact ⟨t', q, hq, hs.trans (List.suffix_cons _ _)⟩

/-- a finite chain of typedefs never comes back to a typedef it went through -/
theorem ChainTo.nodup {idp : List Str} {nodes : List Node} {t f : Str} {p : List Node}
    (h : ChainTo idp nodes t f p) : p.Nodup := by
  induction h with
  | last _ _ => simp
  | @step t n c target f p h1 h2 h3 ih =>
    refine List.nodup_cons.mpr ⟨?_, ih⟩
    intro hmem
    obtain ⟨t', q, hq, hs⟩ := h3.suffix _ hmem
    cases hq with
    | last _ h2' =>
      rw [createTypeFromCType_of_lookup h2'] at h2
      cases h2
    | step _ _ h3' =>
      have e := h3'.det h3
      subst e
      have := hs.length_le
      simp only [List.length_cons] at this
      omega

theorem ChainTo.length_le {idp : List Str} {nodes : List Node} {t f : Str} {p : List Node}
    (h : ChainTo idp nodes t f p) : p.length ≤ nodes.length :=
  (List.subperm_of_subset h.nodup (fun x hx => h.subset x hx)).length_le

/-- `resolve_aliases` follows every finite chain of typedefs to its end -/
theorem resolveAliases_of_chain {idp : List Str} {nodes : List Node} {t f : Str} {p : List Node}
    (h : ChainTo idp nodes t f p) : ∀ (fuel : Nat) (seen : List Node), p.length ≤ fuel →
      (∀ x ∈ p, x ∉ seen) → p.Nodup → ∀ nd, lookupNode idp nodes t = some nd →
      resolveAliases idp nodes fuel seen nd = some f := by
  induction h with
  | @last t n c target f ct h1 h2 =>
    intro fuel seen hfuel hseen _ nd hnd
    rw [h1] at hnd
    cases hnd
    obtain ⟨k, rfl⟩ : ∃ k, fuel = k + 1 := ⟨fuel - 1, by simp at hfuel; omega⟩
    have hns : Node.alias n c target ∉ seen := hseen _ (by simp)
    obtain ⟨_, _, _, h4⟩ := fundamentals_closed (f, ct) (lookupTypeName_mem h2)
    simp only [resolveAliases, hns, if_false, createTypeFromCType_of_lookup h2]
    exact h4
  | @step t n c target f p h1 h2 h3 ih =>
    intro fuel seen hfuel hseen hnd nd hl
    rw [h1] at hl
    cases hl
    obtain ⟨k, rfl⟩ : ∃ k, fuel = k + 1 := ⟨fuel - 1, by simp at hfuel; omega⟩
    have hns : Node.alias n c target ∉ seen := hseen _ (by simp)
    obtain ⟨x, q, hp, hx⟩ := h3.head
    obtain ⟨hnotin, hnd'⟩ := List.nodup_cons.mp hnd
    simp only [resolveAliases, hns, if_false, h2, hx]
    refine ih k _ (by simp at hfuel; omega) ?_ hnd' x hx
    intro y hy hmem
    rcases List.mem_cons.mp hmem with rfl | hmem
    · exact hnotin hy
    · exact hseen y (List.mem_cons_of_mem _ hy) hmem

/-- … so `unaliased` is the fundamental type at the end of the chain, whatever its length -/
theorem constUnaliased_of_chain {idp : List Str} {nodes : List Node} {t f : Str} {p : List Node}
    (h : ChainTo idp nodes t f p) : constUnaliased idp nodes t = some f := by
  obtain ⟨x, q, _, hx⟩ := h.head
  unfold constUnaliased
  rw [hx]
  simp only [resolveAliases_of_chain h (nodes.length + 1) [] (by have := h.length_le; omega)
    (fun _ _ => List.not_mem_nil) h.nodup x hx]

/-- one typedef whose target is a type name of `type_names` -/
theorem constUnaliased_alias {idp : List Str} {nodes : List Node} {t n c target : Str} {x : Str × Str}
    (hn : lookupNode idp nodes t = some (.alias n c target)) (h : lookupTypeName target = some x) :
    constUnaliased idp nodes t = some x.1 :=
  constUnaliased_of_chain (.last (f := x.1) (ct := x.2) hn h)

/-- the fundamentals that the chain on `unaliased` mentions -/
def wrapDomain : List Str :=
  Gen.constWraps.flatMap (fun r => r.1.filterMap typeConstFundamental)

theorem wrapModulus_some_mem {f : Str} {m : Nat} (h : wrapModulus f = some m) : f ∈ wrapDomain := by
  unfold wrapModulus at h
  obtain ⟨r, hr, _⟩ := Option.map_eq_some_iff.mp h
  have hmem := List.mem_of_find?_eq_some hr
  have hp := List.find?_some hr
  obtain ⟨n, hn, hf⟩ := List.any_eq_true.mp hp
  refine List.mem_flatMap.mpr ⟨r, hmem, List.mem_filterMap.mpr ⟨n, hn, ?_⟩⟩
  simpa using hf

theorem constIntValue_of_modulus {f : Str} {m : Nat} (h : wrapModulus f = some m) (v : Int) :
    constIntValue (some f) v = v % (m : Int) := by
  simp [constIntValue, h]

theorem constIntValue_of_none {f : Str} (h : wrapModulus f = none) (v : Int) :
    constIntValue (some f) v = v := by
  simp [constIntValue, h]

/-! ### `_create_const`, branch by branch -/

theorem createConst_some {idp symp : List Str} {nodes : List Node} {s : ConstSym} {c : ConstNode}
    (h : createConst idp symp nodes s = .ok (some c)) :
    startsWith s.ident Gen.constHiddenPrefix = false ∧
    (∃ file, s.file = some file ∧ endsWith file Gen.constHeaderSuffix = true) ∧
    stripSymbol symp s.ident = .ok c.name ∧ c.cident = s.ident := by
  unfold createConst at h
  split at h
  · cases h
  · rename_i hh
    split at h
    · cases h
    · rename_i file hf
      split at h
      · cases h
      · rename_i he
        split at h
        · cases h
        · rename_i name hname
          refine ⟨by simpa using hh, ⟨file, hf, by simpa using he⟩, ?_⟩
          split at h <;> first
            | (simp only [Except.ok.injEq, Option.some.injEq] at h; subst h; exact ⟨hname, rfl⟩)
            | cases h

theorem createConst_hidden {idp symp : List Str} {nodes : List Node} {s : ConstSym}
    (h : startsWith s.ident Gen.constHiddenPrefix = true) : createConst idp symp nodes s = .ok none := by
  unfold createConst
  rw [if_pos h]

theorem createConst_not_header {idp symp : List Str} {nodes : List Node} {s : ConstSym}
    (h : ∀ file, s.file = some file → endsWith file Gen.constHeaderSuffix = false) :
    createConst idp symp nodes s = .ok none := by
  unfold createConst
  split
  · rfl
  · cases hf : s.file with
    | none => rfl
    | some file => simp [h file hf]

theorem createConst_string {idp symp : List Str} {nodes : List Node} {s : ConstSym} {c : ConstNode} {str : Str}
    (hs : s.constString = some str) (h : createConst idp symp nodes s = .ok (some c)) :
    c.value = some str ∧ c.declType = (fixedType fConstString).1 ∧
    c.fundamental = (fixedType fConstString).2 := by
  unfold createConst at h
  split at h
  · cases h
  · split at h
    · cases h
    · split at h
      · cases h
      · split at h
        · cases h
        · rw [hs] at h
          simp only [Except.ok.injEq, Option.some.injEq] at h
          subst h
          exact ⟨rfl, rfl, rfl⟩

theorem createConst_int {idp symp : List Str} {nodes : List Node} {s : ConstSym} {c : ConstNode} {v : Int}
    (hs : s.constString = none) (hi : s.constInt = some v)
    (h : createConst idp symp nodes s = .ok (some c)) :
    (∀ t, s.baseType = some t →
      c.value = some (decimal (constIntValue (constUnaliased idp nodes t) v)) ∧ c.declType = t ∧
      c.fundamental = createTypeFromCType t) ∧
    (s.baseType = none →
      c.value = some (decimal (constIntValue (constUnaliased idp nodes (fixedType fConstInt).1) v)) ∧
      c.declType = (fixedType fConstInt).1 ∧ c.fundamental = (fixedType fConstInt).2) := by
  unfold createConst at h
  split at h
  · cases h
  · split at h
    · cases h
    · split at h
      · cases h
      · split at h
        · cases h
        · rw [hs, hi] at h
          simp only [Except.ok.injEq, Option.some.injEq] at h
          subst h
          constructor
          · intro t ht
            simp [ht]
          · intro ht
            simp [ht]

theorem createConst_bool {idp symp : List Str} {nodes : List Node} {s : ConstSym} {c : ConstNode} {b : Bool}
    (hs : s.constString = none) (hi : s.constInt = none) (hb : s.constBool = some b)
    (h : createConst idp symp nodes s = .ok (some c)) :
    c.value = some (if b then Gen.constBoolLits.1 else Gen.constBoolLits.2) ∧
    c.declType = (fixedType fConstBoolean).1 ∧ c.fundamental = (fixedType fConstBoolean).2 := by
  unfold createConst at h
  split at h
  · cases h
  · split at h
    · cases h
    · split at h
      · cases h
      · split at h
        · cases h
        · rw [hs, hi, hb] at h
          simp only [Except.ok.injEq, Option.some.injEq] at h
          subst h
          exact ⟨rfl, rfl, rfl⟩

/-! ### vocabulary of the property statements (specification side) -/

/-- no member's word list is a prefix of another member's (the property's carve-out) -/
def NoWordPrefix (ids : List Str) : Prop :=
  ids.Pairwise (fun a b => ¬ splitU a <+: splitU b ∧ ¬ splitU b <+: splitU a)

/-- `L` is the list of leading whole words shared by all identifiers: a common prefix of
    every identifier's word list, and the longest such -/
def SharedWords (ids : List Str) (L : List Str) : Prop := IsGCP (ids.map splitU) L

/-- `rest` is `ident` without the namespace symbol prefix: the first prefix of the namespace
    (in its order) that, cased like the identifier and followed by `_`, starts the identifier -/
def IsNsStripped (symp : List Str) (ident rest : Str) : Prop :=
  ∃ c tail pre p post, ident = c :: tail ∧ c ≠ '_' ∧ symp = pre ++ p :: post ∧
    ident = casedPrefix c p ++ rest ∧ ∀ q ∈ pre, ¬ casedPrefix c q <+: ident

/-- the identifier carries no namespace symbol prefix at all -/
def LacksNsPrefix (symp : List Str) (ident : Str) : Prop :=
  ∃ c tail, ident = c :: tail ∧ c ≠ '_' ∧ ∀ q ∈ symp, ¬ casedPrefix c q <+: ident

/-- unsigned integer types and their width in bits, from the GLib / C definitions
    (platform-width ones at LP64) — written from the type definitions, not from the scanner -/
def unsignedWidths : List (Str × Nat) :=
  [(['g','u','i','n','t','8'], 8), (['g','u','i','n','t','1','6'], 16), (['g','u','i','n','t','3','2'], 32),
   (['g','u','i','n','t','6','4'], 64), (['g','u','i','n','t'], 32), (['g','u','s','h','o','r','t'], 16),
   (['g','u','n','i','c','h','a','r'], 32), (['g','u','l','o','n','g'], 64), (['g','s','i','z','e'], 64),
   (['g','u','i','n','t','p','t','r'], 64),
   (['u','n','s','i','g','n','e','d',' ','l','o','n','g',' ','l','o','n','g'], 64)]

/-- the unsigned types whose width depends on the platform ABI -/
def platformUnsigned : List Str :=
  [['g','u','l','o','n','g'], ['g','s','i','z','e'], ['g','u','i','n','t','p','t','r']]

def unsignedWidth (f : Str) : Option Nat := (unsignedWidths.find? (fun p => p.1 = f)).map (·.2)

/-- the C type name `t` denotes the fundamental type `f`: it is a key of `ast.type_names` (and
    no node of the namespace goes by that name), or it names a typedef of the namespace and a
    chain of typedefs of ANY length leads from it to such a key -/
inductive ResolvesTo (idp : List Str) (nodes : List Node) : Str → Str → Prop where
  | direct {t f ct : Str} : lookupTypeName t = some (f, ct) → lookupNode idp nodes t = none →
      ResolvesTo idp nodes t f
  | viaAlias {t f : Str} {p : List Node} : ChainTo idp nodes t f p → ResolvesTo idp nodes t f

theorem constUnaliased_of_resolves {idp : List Str} {nodes : List Node} {t f : Str}
    (h : ResolvesTo idp nodes t f) : constUnaliased idp nodes t = some f := by
  cases h with
  | direct h1 h2 => exact constUnaliased_direct h1 h2
  | viaAlias h1 => exact constUnaliased_of_chain h1

theorem unsignedWidth_mem {f : Str} {w : Nat} (h : unsignedWidth f = some w) : (f, w) ∈ unsignedWidths := by
  unfold unsignedWidth at h
  obtain ⟨p, hp, rfl⟩ := Option.map_eq_some_iff.mp h
  have h1 := List.mem_of_find?_eq_some hp
  have h2 := List.find?_some hp
  simp only [decide_eq_true_eq] at h2
  subst h2
  exact h1

/-- the chain of `_create_const` wraps every fixed-width unsigned type at its own width … -/
theorem wrap_table_complete : ∀ p ∈ unsignedWidths, p.1 ∉ platformUnsigned → wrapModulus p.1 = some (2 ^ p.2) := by
  decide +kernel

/-- … and nothing else -/
theorem wrap_table_sound : ∀ f ∈ wrapDomain, ∃ p ∈ unsignedWidths, p.1 = f ∧ wrapModulus f = some (2 ^ p.2) := by
  decide +kernel

theorem unsignedWidths_nodup : ∀ p ∈ unsignedWidths, ∀ q ∈ unsignedWidths, q.1 = p.1 → q = p := by
  decide +kernel

theorem unsignedWidth_of_mem {p : Str × Nat} (hp : p ∈ unsignedWidths) : unsignedWidth p.1 = some p.2 := by
  unfold unsignedWidth
  cases hfind : unsignedWidths.find? (fun q => q.1 = p.1) with
  | none =>
    have := List.find?_eq_none.mp hfind p hp
    simp at this
  | some q =>
    have hq := List.mem_of_find?_eq_some hfind
    have hqf := List.find?_some hfind
    simp only [decide_eq_true_eq] at hqf
    rw [unsignedWidths_nodup p hp q hq hqf]
    rfl

/-- the chain never wraps a type that is not an unsigned integer type -/
theorem wrapModulus_none_of_not_unsigned {f : Str} (hw : unsignedWidth f = none) : wrapModulus f = none := by
  cases hwm : wrapModulus f with
  | none => rfl
  | some m =>
    obtain ⟨p, hp, hpf, _⟩ := wrap_table_sound f (wrapModulus_some_mem hwm)
    have := unsignedWidth_of_mem hp
    rw [hpf, hw] at this
    cases this

/-- fewer than two members, or no shared leading word: `prefixlen = 0` -/
theorem prefixLen_eq_zero (ids : List Str) (hne : ∀ id ∈ ids, id ≠ [])
    (hcase : ids.length < 2 ∨ SharedWords ids []) : prefixLen ids = 0 := by
  unfold prefixLen
  by_cases h2 : 2 ≤ ids.length
  · rcases hcase with h | hL
    · omega
    · have hmne : ids.map splitU ≠ [] := by
        intro e
        rw [List.map_eq_nil_iff] at e
        subst e
        simp at h2
      have hlcp : lcpAll (ids.map splitU) = [] := (lcpAll_isGCP hmne).unique hL
      rw [enumCommonPrefix_eq ids h2 hne]
      unfold expectedW
      rw [if_pos hlcp]
      rfl
  · rw [enumCommonPrefix_short ids (by omega)]

theorem pairwise_exists_other {α : Type} {R : α → α → Prop} {l : List α} (hp : l.Pairwise R) (h2 : 2 ≤ l.length)
    {a : α} (ha : a ∈ l) : ∃ b ∈ l, R a b ∨ R b a := by
  obtain ⟨l1, l2, rfl⟩ := List.append_of_mem ha
  rw [List.pairwise_append] at hp
  obtain ⟨_, hp2, hp12⟩ := hp
  cases l2 with
  | cons b bs => exact ⟨b, by simp, Or.inl ((List.pairwise_cons.mp hp2).1 b (by simp))⟩
  | nil =>
    cases l1 with
    | nil => simp at h2
    | cons b bs => exact ⟨b, by simp, Or.inr (hp12 b (by simp) a (by simp))⟩

/-! ## dump merge (`GDumpParser._introspect_enum`) -/

theorem nickName_toNick (n : Str) (h : '-' ∉ n) : nickName (toNick n) = n := by
  induction n with
  | nil => rfl
  | cons c cs ih =>
    have hc : c ≠ '-' := fun e => h (by simp [e])
    have hcs : '-' ∉ cs := fun e => h (by simp [e])
    have ih' := ih hcs
    simp only [nickName, toNick, List.map_cons] at ih' ⊢
    rw [ih']
    by_cases hu : c = '_'
    · simp [hu]
    · simp [hu, hc]

theorem lookupPrevious_some {prev : List Member} {n : Str} {y : Member}
    (h : lookupPrevious prev n = some y) : y ∈ prev ∧ y.name = n := by
  induction prev with
  | nil => simp [lookupPrevious] at h
  | cons m ms ih =>
    simp only [lookupPrevious] at h
    cases hl : lookupPrevious ms n with
    | some x =>
      rw [hl] at h
      simp only [Option.some.injEq] at h
      subst h
      exact ⟨List.mem_cons_of_mem _ (ih hl).1, (ih hl).2⟩
    | none =>
      rw [hl] at h
      by_cases hm : m.name = n
      · simp only [hm, if_true, Option.some.injEq] at h
        subst h
        exact ⟨by simp, hm⟩
      · simp [hm] at h

theorem lookupPrevious_mem {prev : List Member} (hd : prev.Pairwise (fun a b => a.name ≠ b.name))
    {m : Member} (hm : m ∈ prev) : lookupPrevious prev m.name = some m := by
  induction prev with
  | nil => simp at hm
  | cons x xs ih =>
    rw [List.pairwise_cons] at hd
    simp only [lookupPrevious]
    rcases List.mem_cons.mp hm with rfl | hin
    · cases hl : lookupPrevious xs m.name with
      | none => simp
      | some y =>
        have := lookupPrevious_some hl
        exact absurd this.2.symm (hd.1 y this.1)
    · rw [ih hd.2 hin]

end GIVerif.EnumConst
