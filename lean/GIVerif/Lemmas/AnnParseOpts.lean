/- C10 round trip, options level: what the writer emits for well-formed options is read
   back by the options parser of the annotation's class. -/
import GIVerif.Lemmas.AnnParseStr

namespace GIVerif.AnnParse
open GIVerif.Py

/-- `key=value` / `key` as written by the writer for one dict entry -/
def kvstr (kv : Str × Option Str) : Str :=
  match kv.2 with
  | some v => kv.1 ++ '=' :: v
  | none => kv.1

theorem wfListToken_spec {t : Str} (h : wfListToken t = true) : wfToken t = true ∧ '=' ∉ t := by
  simp only [wfListToken, Bool.and_eq_true, Bool.not_eq_true'] at h
  refine ⟨h.1, ?_⟩
  intro hm
  have : t.contains '=' = true := List.contains_iff_mem.mpr hm
  rw [this] at h; exact absurd h.2 (by simp)

theorem cleanChar_eq : cleanChar '=' = true := by decide

theorem wfToken_kvstr {kv : Str × Option Str} (h : wfDictEntry kv = true) : wfToken (kvstr kv) = true := by
  obtain ⟨k, v⟩ := kv
  simp only [wfDictEntry, Bool.and_eq_true] at h
  obtain ⟨hk, hv⟩ := h
  have hk' := (wfListToken_spec hk).1
  cases v with
  | none => exact hk'
  | some v =>
    simp only [] at hv
    obtain ⟨hkne, hkc⟩ := wfToken_spec hk'
    have hvc : ∀ c ∈ v, cleanChar c = true := List.all_eq_true.mp hv
    simp only [kvstr, wfToken, Bool.and_eq_true, Bool.not_eq_true', List.all_eq_true]
    refine ⟨?_, ?_⟩
    · cases k with
      | nil => exact absurd rfl hkne
      | cons c cs => rfl
    · intro c hc
      simp only [List.mem_append, List.mem_cons] at hc
      rcases hc with hc | rfl | hc
      · exact hkc c hc
      · exact cleanChar_eq
      · exact hvc c hc

theorem keyValue_kvstr {kv : Str × Option Str} (h : wfDictEntry kv = true) : keyValue (kvstr kv) = kv := by
  obtain ⟨k, v⟩ := kv
  simp only [wfDictEntry, Bool.and_eq_true] at h
  have hk := (wfListToken_spec h.1).2
  cases v with
  | none => simp only [kvstr, keyValue]; exact split1_token_none hk
  | some v => simp only [kvstr, keyValue]; exact split1_token_some hk

/-! ### the writer's dict loop -/

theorem dictStep_wf {kv : Str × Option Str} (h : wfDictEntry kv = true) (acc : Str) :
    dictStep acc kv = acc ++ kvstr kv ++ [' '] := by
  obtain ⟨k, v⟩ := kv
  cases v with
  | none => rfl
  | some v => simp [dictStep, kvstr]

theorem dictFold_wf : ∀ (d : List (Str × Option Str)) (acc : Str), (∀ kv ∈ d, wfDictEntry kv = true) →
    d.foldl dictStep acc = acc ++ (d.map (fun kv => kvstr kv ++ [' '])).flatten
  | [], acc, _ => by simp
  | kv :: rest, acc, h => by
    rw [List.foldl_cons, dictStep_wf (h kv (by simp)), dictFold_wf rest _ (fun x hx => h x (by simp [hx]))]
    simp

theorem flatten_space_join : ∀ (toks : List Str), toks ≠ [] →
    (toks.map (fun t => t ++ [' '])).flatten = join [' '] toks ++ [' ']
  | [], h => absurd rfl h
  | [t], _ => by simp [join]
  | t :: u :: us, _ => by
    rw [join_cons_cons, List.map_cons, List.flatten_cons, flatten_space_join (u :: us) (by simp)]
    simp

theorem strip_tokJoin_space {J : Str} (h : TokJoin J) : strip (J ++ [' ']) = J := by
  obtain ⟨c, cs, he, hc⟩ := h.head
  obtain ⟨ds, d, hd, hdc⟩ := h.last
  unfold strip
  have h1 : lstrip (J ++ [' ']) = J ++ [' '] := by
    rw [he]; exact lstrip_cons_of_not_space (cleanChar_spec hc).1
  rw [h1]
  have h2 : rstrip (J ++ [' ']) = rstrip J := by
    simp [rstrip, space_isSpace]
  rw [h2, hd]
  exact rstrip_append_of_not_space (cleanChar_spec hdc).1

theorem serializeOptions_dict (d : List (Str × Option Str)) (hne : d ≠ [])
    (h : ∀ kv ∈ d, wfDictEntry kv = true) :
    serializeOptions (.dict d) = some (join [' '] (d.map kvstr)) ∧ TokJoin (join [' '] (d.map kvstr)) := by
  have htj : TokJoin (join [' '] (d.map kvstr)) := by
    apply tokJoin_join
    · simpa using hne
    · intro t ht
      obtain ⟨kv, hkv, rfl⟩ := List.mem_map.mp ht
      exact wfToken_kvstr (h kv hkv)
  refine ⟨?_, htj⟩
  cases d with
  | nil => exact absurd rfl hne
  | cons kv rest =>
    simp only [serializeOptions]
    rw [dictFold_wf _ _ h, List.nil_append]
    have : ((kv :: rest).map (fun kv => kvstr kv ++ [' '])) = ((kv :: rest).map kvstr).map (fun t => t ++ [' ']) := by
      simp
    rw [this, flatten_space_join _ (by simp), strip_tokJoin_space htj]

/-! ### the dict options parser -/

theorem assocSet_append_new {β : Type} : ∀ (d : List (Str × β)) (k : Str) (v : β), assocHas d k = false →
    assocSet d k v = d ++ [(k, v)]
  | [], _, _, _ => rfl
  | (k', v') :: rest, k, v, h => by
    simp only [assocHas, List.any_cons, Bool.or_eq_false_iff, beq_eq_false_iff_ne, ne_eq] at h
    simp only [assocSet, h.1, if_false, List.cons_append]
    rw [assocSet_append_new rest k v (by simpa [assocHas] using h.2)]

theorem assocHas_append {β : Type} (d e : List (Str × β)) (k : Str) :
    assocHas (d ++ e) k = (assocHas d k || assocHas e k) := by
  simp [assocHas]

theorem dictParse_fold : ∀ (d acc : List (Str × Option Str)), (∀ kv ∈ d, wfDictEntry kv = true) →
    nodupKeys d = true → (∀ kv ∈ d, assocHas acc kv.1 = false) →
    (d.map kvstr).foldl (fun dd p => assocSet dd (keyValue p).1 (keyValue p).2) acc = acc ++ d
  | [], acc, _, _, _ => by simp
  | kv :: rest, acc, hw, hn, ha => by
    simp only [nodupKeys, Bool.and_eq_true, Bool.not_eq_true'] at hn
    rw [List.map_cons, List.foldl_cons, keyValue_kvstr (hw kv (by simp)),
      assocSet_append_new acc kv.1 kv.2 (ha kv (by simp))]
    rw [dictParse_fold rest _ (fun x hx => hw x (by simp [hx])) hn.2]
    · simp
    · intro x hx
      rw [assocHas_append, ha x (by simp [hx])]
      simp only [Bool.false_or]
      -- x.1 ≠ kv.1 because kv.1 does not occur among the keys of rest
      simp only [assocHas, List.any_cons, List.any_nil, Bool.or_false, beq_eq_false_iff_ne, ne_eq]
      intro he
      have : assocHas rest kv.1 = true := by
        simp only [assocHas, List.any_eq_true, beq_iff_eq]
        exact ⟨x, hx, he.symm⟩
      rw [this] at hn; exact absurd hn.1 (by simp)

theorem optionsDict_join (d : List (Str × Option Str)) (hne : d ≠ [])
    (hw : ∀ kv ∈ d, wfDictEntry kv = true) (hn : nodupKeys d = true) :
    optionsDict (some (join [' '] (d.map kvstr))) = .dict d := by
  obtain ⟨_, htj⟩ := serializeOptions_dict d hne hw
  obtain ⟨c, cs, he, _⟩ := htj.head
  unfold optionsDict
  simp only [he, List.isEmpty_cons, Bool.false_eq_true, if_false]
  rw [← he, splitChar_join (d.map kvstr) (by simpa using hne)]
  · rw [dictParse_fold d [] hw hn (fun _ _ => rfl)]; simp
  · intro t ht
    obtain ⟨kv, hkv, rfl⟩ := List.mem_map.mp ht
    exact space_not_mem_token (wfToken_kvstr (hw kv hkv))

/-! ### free-form option text -/

theorem splitChar_ne_nil (sep : Char) (s acc : Str) : splitChar sep s acc ≠ [] := by
  induction s generalizing acc with
  | nil => simp [splitChar]
  | cons c cs ih =>
    simp only [splitChar]
    split
    · simp
    · exact ih _

theorem join_splitChar (s acc : Str) : join [' '] (splitChar ' ' s acc) = acc.reverse ++ s := by
  induction s generalizing acc with
  | nil => simp [splitChar, join]
  | cons c cs ih =>
    simp only [splitChar]
    split
    · rename_i hc
      have hne := splitChar_ne_nil ' ' cs []
      cases hs : splitChar ' ' cs [] with
      | nil => exact absurd hs hne
      | cons y ys =>
        rw [join_cons_cons, ← hs, ih]
        simp [hc]
    · rw [ih]; simp

theorem tokJoin_free {s : Str} (h : wfFree s = true) : TokJoin s := by
  have hj := join_splitChar s []
  simp only [List.reverse_nil, List.nil_append] at hj
  rw [← hj]
  apply tokJoin_join _ (splitChar_ne_nil _ _ _)
  intro t ht
  exact List.all_eq_true.mp h t ht

end GIVerif.AnnParse
