/- C10 round trip, annotation and field level: the tokenizer reads back what the writer
   emits for a well-formed annotation list. -/
import GIVerif.Lemmas.AnnParseOpts
import GIVerif.Lemmas.AnnParseTotal

namespace GIVerif.AnnParse
open GIVerif.Py

/-! ### one annotation: options -/

theorem optionsList_join (col : Nat) (l : List Str) (hne : l ≠ []) (hw : ∀ t ∈ l, wfListToken t = true) :
    optionsList col (some (join [' '] l)) = (.list l, []) ∧ TokJoin (join [' '] l) := by
  have hw' : ∀ t ∈ l, wfToken t = true := fun t ht => (wfListToken_spec (hw t ht)).1
  have htj := tokJoin_join l hne hw'
  refine ⟨?_, htj⟩
  obtain ⟨c, cs, he, _⟩ := htj.head
  have hno : '=' ∉ join [' '] l := by
    intro hm
    rcases mem_join l hm with h | ⟨t, ht, hc⟩
    · exact absurd h (by decide)
    · exact (wfListToken_spec (hw t ht)).2 hc
  unfold optionsList
  simp only [he, List.isEmpty_cons, Bool.false_eq_true, if_false]
  rw [← he, findChar_none hno]
  simp only []
  rw [splitChar_join l hne (fun t ht => space_not_mem_token (hw' t ht))]

/-- the crux: for well-formed options of annotation `n`, either nothing is written and the
    class parser returns the options for "no option text", or the written text is a join of
    clean tokens and the class parser returns the options from it, without diagnostics -/
theorem classStep_serialize (col : Nat) (n : Str) (o : Opts) (h : wfOpts n o = true) :
    (serializeOptions o = none ∧ classStep col n none = ((n, o), [])) ∨
    (∃ O, serializeOptions o = some O ∧ TokJoin O ∧ classStep col n (some O) = ((n, o), [])) := by
  cases o with
  | none =>
    simp only [wfOpts, Bool.and_eq_true, Bool.not_eq_true'] at h
    left
    exact ⟨rfl, by simp [classStep, h.1, h.2, optionsUnknown]⟩
  | list l =>
    simp only [wfOpts] at h
    split at h
    · rename_i hl
      cases l with
      | nil => left; exact ⟨rfl, by simp [classStep, hl, optionsList]⟩
      | cons t ts =>
        right
        have hw : ∀ x ∈ t :: ts, wfListToken x = true := List.all_eq_true.mp h
        obtain ⟨h1, h2⟩ := optionsList_join (col + n.length + 2) (t :: ts) (by simp) hw
        refine ⟨join [' '] (t :: ts), rfl, h2, ?_⟩
        simp [classStep, hl, h1]
    · rename_i hl
      simp only [Bool.not_eq_true] at hl
      simp only [Bool.and_eq_true, Bool.not_eq_true'] at h
      obtain ⟨hd, hm⟩ := h
      match l, hm with
      | [s], hm =>
        right
        have htj := tokJoin_free hm
        obtain ⟨c, cs, he, _⟩ := htj.head
        refine ⟨s, rfl, htj, ?_⟩
        have : optionsUnknown (some s) = .list [s] := by
          rw [optionsUnknown_some_list s (by rw [he]; simp), strip_tokJoin htj]
        simp [classStep, hl, hd, this]
  | dict d =>
    simp only [wfOpts, Bool.and_eq_true, Bool.not_eq_true'] at h
    obtain ⟨⟨⟨hl, hd⟩, hw⟩, hn⟩ := h
    have hw' : ∀ kv ∈ d, wfDictEntry kv = true := List.all_eq_true.mp hw
    cases d with
    | nil => left; exact ⟨rfl, by simp [classStep, hl, hd, optionsDict]⟩
    | cons kv rest =>
      right
      obtain ⟨h1, h2⟩ := serializeOptions_dict (kv :: rest) (by simp) hw'
      refine ⟨_, h1, h2, ?_⟩
      unfold classStep
      simp only [hl, hd, Bool.false_eq_true, if_false, if_true]
      rw [optionsDict_join (kv :: rest) (by simp) hw' hn]

/-! ### one annotation: the text between the parentheses -/

/-- text between the parentheses of a serialized annotation -/
def innerOf (a : Str × Opts) : Str :=
  match serializeOptions a.2 with
  | some o => a.1 ++ ' ' :: o
  | none => a.1

theorem serializeAnnotation_inner (a : Str × Opts) : serializeAnnotation a = '(' :: innerOf a ++ [')'] := by
  unfold serializeAnnotation innerOf
  cases serializeOptions a.2 <;> simp

theorem wfName_spec {n : Str} (h : wfName n = true) :
    wfToken n = true ∧ pyLower n = n ∧ n ≠ str Gen.annInoutAlt ∧ n ≠ str Gen.annAttribute := by
  simp only [wfName, Bool.and_eq_true, beq_iff_eq, bne_iff_ne, ne_eq] at h
  exact ⟨h.1.1.1, h.1.1.2, h.1.2, h.2⟩

theorem tokJoin_name_opts {n O : Str} (hn : wfToken n = true) (hO : TokJoin O) : TokJoin (n ++ ' ' :: O) := by
  have ht := tokJoin_token hn
  refine ⟨?_, ?_, ?_⟩
  · intro c hc
    simp only [List.mem_append, List.mem_cons] at hc
    rcases hc with hc | rfl | hc
    · exact ht.ok c hc
    · decide
    · exact hO.ok c hc
  · obtain ⟨c, cs, he, hcl⟩ := ht.head
    exact ⟨c, cs ++ ' ' :: O, by rw [he]; simp, hcl⟩
  · obtain ⟨cs, c, he, hcl⟩ := hO.last
    exact ⟨n ++ ' ' :: cs, c, by rw [he]; simp, hcl⟩

/-- `_parse_annotation` reads a well-formed annotation back exactly, with no diagnostics -/
theorem parseAnnotation_inner (col : Nat) (a : Str × Opts) (h : wfAnnotation a = true) :
    TokJoin (innerOf a) ∧ parseAnnotation col (innerOf a) = .ok (some a, []) := by
  obtain ⟨n, o⟩ := a
  simp only [wfAnnotation, Bool.and_eq_true] at h
  obtain ⟨hn, ho⟩ := h
  obtain ⟨hnt, hlow, hni, hna⟩ := wfName_spec hn
  have hsp := space_not_mem_token hnt
  have hdep : ∀ x, deprecatedStep col n x = .ok (some (n, x), []) := by
    intro x; simp [deprecatedStep, hni, hna]
  rcases classStep_serialize col n o ho with ⟨hs, hc⟩ | ⟨O, hs, hO, hc⟩
  · have hin : innerOf (n, o) = n := by simp [innerOf, hs]
    rw [hin]
    have htj := tokJoin_token hnt
    refine ⟨htj, ?_⟩
    unfold parseAnnotation
    simp only [replaceAngles_tokJoin htj, split1_token_none hsp, hlow, hdep, hc, List.append_nil]
  · have hin : innerOf (n, o) = n ++ ' ' :: O := by simp [innerOf, hs]
    rw [hin]
    have htj := tokJoin_name_opts hnt hO
    refine ⟨htj, ?_⟩
    unfold parseAnnotation
    simp only [replaceAngles_tokJoin htj, split1_token_some hsp, hlow, hdep, hc, List.append_nil]

/-! ### the state machine -/

/-- `prev_char` after scanning `body` -/
def lastOr (d : Option Char) : Str → Option Char
  | [] => d
  | c :: cs => lastOr (some c) cs

theorem lastOr_mem : ∀ (body : Str) (d : Option Char), body ≠ [] → ∃ c ∈ body, lastOr d body = some c
  | [], _, h => absurd rfl h
  | [c], _, _ => ⟨c, by simp, rfl⟩
  | c :: c' :: cs, _, _ => by
    obtain ⟨x, hx, he⟩ := lastOr_mem (c' :: cs) (some c) (by simp)
    exact ⟨x, List.mem_cons_of_mem c hx, he⟩

/-- inside an annotation, characters other than parentheses are appended to the buffer -/
theorem loop_scan (po : Bool) (col : Nat) (body rest : Str) (i : Nat) (s : St) (hp : 0 < s.parens)
    (hb : ∀ c ∈ body, c ≠ '(' ∧ c ≠ ')') :
    loop po col (body ++ rest) i s =
      loop po col rest (i + body.length) { s with buf := s.buf ++ body, prev := lastOr s.prev body } := by
  induction body generalizing i s with
  | nil => simp [lastOr]
  | cons c cs ih =>
    obtain ⟨h1, h2⟩ := hb c (by simp)
    have hp0 : s.parens ≠ 0 := by omega
    have hstep : step po col s i c = .cont { s with buf := s.buf ++ [c], prev := some c } := by
      unfold step
      simp only [h1, h2, if_false, hp, hp0, if_true]
      split <;> rfl
    have hih := ih (i + 1) { s with buf := s.buf ++ [c], prev := some c } hp
      (fun x hx => hb x (by simp [hx]))
    rw [List.cons_append, loop, hstep]
    simp only [] at hih ⊢
    rw [hih]
    simp only [lastOr, List.append_assoc, List.singleton_append, List.length_cons]
    congr 1
    omega

/-- one serialized well-formed annotation, read at parenthesis level 0 -/
theorem loop_annotation (col : Nat) (a : Str × Opts) (hwf : wfAnnotation a = true) (rest : Str) (i : Nat)
    (s : St) (hp : s.parens = 0) (hprev : s.prev ≠ some '(') (hbuf : s.buf = [])
    (hnew : assocHas s.anns a.1 = false) :
    loop true col (serializeAnnotation a ++ rest) i s =
      loop true col rest (i + (serializeAnnotation a).length)
        { s with prev := some ')', startPos := i, endPos := i + (serializeAnnotation a).length,
                 anns := s.anns ++ [a], changed := true } := by
  obtain ⟨htj, hparse⟩ := parseAnnotation_inner (col + i) a hwf
  rw [serializeAnnotation_inner]
  have hb : ∀ c ∈ innerOf a, c ≠ '(' ∧ c ≠ ')' := fun c hc =>
    let h := okChar_spec (htj.ok c hc); ⟨h.1, h.2.1⟩
  -- the opening parenthesis
  have hopen : step true col s i '(' = .cont { s with parens := 1, startPos := i, prev := some '(' } := by
    unfold step; simp [hprev, hp]
  have hform : '(' :: innerOf a ++ [')'] ++ rest = '(' :: (innerOf a ++ ([')'] ++ rest)) := by simp
  rw [hform, loop, hopen]
  simp only []
  rw [loop_scan true col (innerOf a) ([')'] ++ rest) (i + 1)
    { s with parens := 1, startPos := i, prev := some '(' } (by simp) hb]
  -- the closing parenthesis
  obtain ⟨c0, cs0, he0, _⟩ := htj.head
  obtain ⟨x, hx, hlast⟩ := lastOr_mem (innerOf a) (some '(') (by rw [he0]; simp)
  have hxne : x ≠ '(' := (hb x hx).1
  rw [List.singleton_append, loop]
  have hclose : step true col
      { s with parens := 1, startPos := i, prev := lastOr (some '(') (innerOf a), buf := s.buf ++ innerOf a }
      (i + 1 + (innerOf a).length) ')' =
      .cont { s with prev := some ')', startPos := i, endPos := i + 1 + (innerOf a).length + 1,
                     anns := s.anns ++ [a], changed := true } := by
    unfold step
    simp only [hlast, Option.some.injEq, hxne, if_false, closeAnn, hbuf, List.nil_append,
      strip_tokJoin htj, hparse, hnew, hp]
    simp [assocSet_append_new s.anns a.1 a.2 hnew]
  simp only [] at hclose ⊢
  rw [hclose]
  simp only [List.length_cons, List.length_append, List.length_nil]
  congr 1
  · omega
  · congr 1; omega

/-! ### a whole annotation field -/

theorem serializeAnnotations_cons_cons (a b : Str × Opts) (t : Anns) :
    serializeAnnotations (a :: b :: t) = serializeAnnotation a ++ ' ' :: serializeAnnotations (b :: t) := by
  simp [serializeAnnotations, join_cons_cons]

theorem serializeAnnotations_singleton (a : Str × Opts) : serializeAnnotations [a] = serializeAnnotation a := rfl

theorem nodupKeys_cons {β : Type} (e : Str × β) (rest : List (Str × β)) (h : nodupKeys (e :: rest) = true) :
    assocHas rest e.1 = false ∧ nodupKeys rest = true := by
  simpa [nodupKeys] using h

/-- a level-0 state between annotations -/
def Between (s : St) : Prop := s.parens = 0 ∧ s.prev ≠ some '(' ∧ s.buf = []

theorem loop_anns (col : Nat) : ∀ (l : Anns) (rest : Str) (i : Nat) (s : St), l ≠ [] →
    (∀ a ∈ l, wfAnnotation a = true) → nodupKeys l = true → (∀ a ∈ l, assocHas s.anns a.1 = false) →
    Between s →
    ∃ sp, loop true col (serializeAnnotations l ++ rest) i s =
      loop true col rest (i + (serializeAnnotations l).length)
        { s with prev := some ')', startPos := sp, endPos := i + (serializeAnnotations l).length,
                 anns := s.anns ++ l, changed := true }
  | [], _, _, _, h, _, _, _, _ => absurd rfl h
  | [a], rest, i, s, _, hw, _, hd, hb => by
    refine ⟨i, ?_⟩
    rw [serializeAnnotations_singleton]
    exact loop_annotation col a (hw a (by simp)) rest i s hb.1 hb.2.1 hb.2.2 (hd a (by simp))
  | a :: b :: t, rest, i, s, _, hw, hn, hd, hb => by
    rw [serializeAnnotations_cons_cons]
    have h1 := loop_annotation col a (hw a (by simp)) (' ' :: serializeAnnotations (b :: t) ++ rest) i s
      hb.1 hb.2.1 hb.2.2 (hd a (by simp))
    have hform : serializeAnnotation a ++ ' ' :: serializeAnnotations (b :: t) ++ rest =
        serializeAnnotation a ++ (' ' :: serializeAnnotations (b :: t) ++ rest) := by simp
    rw [hform, h1]
    -- the separating space
    rw [List.cons_append, loop]
    have hsp : step true col
        { s with prev := some ')', startPos := i, endPos := i + (serializeAnnotation a).length,
                 anns := s.anns ++ [a], changed := true } (i + (serializeAnnotation a).length) ' ' =
        .cont { s with prev := some ' ', startPos := i, endPos := i + (serializeAnnotation a).length,
                       anns := s.anns ++ [a], changed := true } := by
      unfold step
      simp [space_isSpace, hb.1]
    rw [hsp]
    simp only []
    replace hn := nodupKeys_cons a (b :: t) hn
    have hd' : ∀ x ∈ b :: t, assocHas (s.anns ++ [a]) x.1 = false := by
      intro x hx
      rw [assocHas_append, hd x (by simp [hx])]
      simp only [Bool.false_or, assocHas, List.any_cons, List.any_nil, Bool.or_false, beq_eq_false_iff_ne, ne_eq]
      intro he
      have : assocHas (b :: t) a.1 = true := by
        simp only [assocHas, List.any_eq_true, beq_iff_eq]
        exact ⟨x, hx, he.symm⟩
      rw [this] at hn; exact absurd hn.1 (by simp)
    obtain ⟨sp, h2⟩ := loop_anns col (b :: t) rest (i + (serializeAnnotation a).length + 1)
      { s with prev := some ' ', startPos := i, endPos := i + (serializeAnnotation a).length,
               anns := s.anns ++ [a], changed := true }
      (by simp) (fun x hx => hw x (by simp [hx])) hn.2 hd' ⟨hb.1, by simp, hb.2.2⟩
    refine ⟨sp, ?_⟩
    rw [h2]
    simp only [List.length_append, List.length_cons, List.append_assoc, List.singleton_append]
    congr 1
    · omega
    · congr 1; omega

/-- what may follow the annotations on the line: nothing, or something starting with a
    character that is neither white space nor a parenthesis (e.g. the `:` before a description) -/
def StopRest (rest : Str) : Prop :=
  rest = [] ∨ ∃ c cs, rest = c :: cs ∧ isSpace c = false ∧ c ≠ '(' ∧ c ≠ ')'

theorem loop_stop (col : Nat) (rest : Str) (i : Nat) (s : St) (hr : StopRest rest) (hp : s.parens = 0) :
    loop true col rest i s = .done s := by
  rcases hr with rfl | ⟨c, cs, rfl, h1, h2, h3⟩
  · rfl
  · rw [loop]
    have : step true col s i c = .brk s := by
      unfold step; simp [h1, h2, h3, hp]
    rw [this]

theorem wfAnns_spec {a : Anns} (h : wfAnns a = true) : (∀ x ∈ a, wfAnnotation x = true) ∧ nodupKeys a = true := by
  simp only [wfAnns, Bool.and_eq_true, List.all_eq_true] at h
  exact h

/-- the round trip with existing annotations (`annotations=` argument of a continuation line) -/
theorem parseAnnotations_serialize (col : Nat) (a : Anns) (init : Option Anns) (rest : Str)
    (hwf : wfAnns a = true) (hdisj : ∀ x ∈ a, assocHas (init.getD []) x.1 = false) (hrest : StopRest rest) :
    ∃ sp, parseAnnotations true col (serializeAnnotations a ++ rest) init =
      .ok (init.getD [] ++ a) [] (!a.isEmpty) sp (serializeAnnotations a).length [] := by
  obtain ⟨hw, hn⟩ := wfAnns_spec hwf
  unfold parseAnnotations
  cases a with
  | nil =>
    refine ⟨0, ?_⟩
    have : serializeAnnotations [] = [] := rfl
    rw [this, List.nil_append, loop_stop col rest 0 _ hrest rfl]
    simp [initSt]
  | cons x xs =>
    obtain ⟨sp, h⟩ := loop_anns col (x :: xs) rest 0 (initSt init) (by simp) hw hn hdisj
      ⟨rfl, by simp [initSt], rfl⟩
    refine ⟨sp, ?_⟩
    rw [h, loop_stop col rest _ _ hrest rfl]
    simp [initSt]

theorem nodupKeys_append {β : Type} : ∀ (a b : List (Str × β)), nodupKeys (a ++ b) = true →
    nodupKeys a = true ∧ nodupKeys b = true ∧ ∀ x ∈ b, assocHas a x.1 = false
  | [], b, h => ⟨rfl, h, fun _ _ => rfl⟩
  | e :: a, b, h => by
    simp only [List.cons_append, nodupKeys, Bool.and_eq_true, Bool.not_eq_true', assocHas_append,
      Bool.or_eq_false_iff] at h
    obtain ⟨h1, h2, h3⟩ := nodupKeys_append a b h.2
    refine ⟨by simp [nodupKeys, h.1.1, h1], h2, ?_⟩
    intro x hx
    simp only [assocHas, List.any_cons, Bool.or_eq_false_iff, beq_eq_false_iff_ne, ne_eq]
    refine ⟨?_, by simpa [assocHas] using h3 x hx⟩
    intro he
    have : assocHas b e.1 = true := by
      simp only [assocHas, List.any_eq_true, beq_iff_eq]
      exact ⟨x, hx, he.symm⟩
    rw [this] at h; exact absurd h.1.2 (by simp)

end GIVerif.AnnParse
