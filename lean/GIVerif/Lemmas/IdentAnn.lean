import GIVerif.Model.IdentAnn

namespace GIVerif.IdentAnn
open GIVerif.Py
open GIVerif.Gen.IdentAnn

/-! ### shape of the block keys -/

theorem keyProp_eq (a p : Str) : keyProp a p = a ++ ':' :: p := by
  simp [keyProp, keyFmtProperty, fmt]

theorem keySig_eq (a s : Str) : keySig a s = a ++ ':' :: ':' :: s := by
  simp [keySig, keyFmtSignal, fmt]

theorem keyField_eq (a f : Str) : keyField a f = a ++ '.' :: f := by
  simp [keyField, keyFmtField, fmt]

theorem keyVfunc_eq (a v : Str) : keyVfunc a v = a ++ ':' :: ':' :: v := by
  simp [keyVfunc, keyFmtVfunc, fmt]

def sectionWord : Str := ['S', 'E', 'C', 'T', 'I', 'O', 'N']

theorem keySection_eq (a : Str) : keySection a = sectionWord ++ ':' :: lower a := by
  simp [keySection, keyFmtSection, fmt, sectionWord]

/-- splitting at the first occurrence of a separator is unique -/
theorem append_cons_inj {c : Char} {a a' r r' : Str} (h : c ∉ a) (h' : c ∉ a')
    (e : a ++ c :: r = a' ++ c :: r') : a = a' ∧ r = r' := by
  induction a generalizing a' with
  | nil =>
    cases a' with
    | nil => simpa using e
    | cons x xs =>
      simp at e
      exact absurd e.1 (by intro hx; apply h'; simp [hx])
  | cons y ys ih =>
    cases a' with
    | nil =>
      simp at e
      exact absurd e.1.symm (by intro hx; apply h; simp [hx])
    | cons x xs =>
      simp at e
      obtain ⟨rfl, e⟩ := e
      have := ih (a' := xs) (by intro hm; apply h; simp [hm]) (by intro hm; apply h'; simp [hm]) e
      exact ⟨by rw [this.1], this.2⟩

/-- lowering a character never produces or removes `:` or `.` -/
theorem lowerChar_upper_ne (n : Nat) (h1 : 65 ≤ n) (h2 : n ≤ 90) :
    Char.ofNat (n + 32) ≠ ':' ∧ Char.ofNat (n + 32) ≠ '.' := by
  have : ∀ m, m < 26 → Char.ofNat (m + 65 + 32) ≠ ':' ∧ Char.ofNat (m + 65 + 32) ≠ '.' := by decide
  have := this (n - 65) (by omega)
  have e : n - 65 + 65 = n := by omega
  rwa [e] at this

theorem lowerChar_sep (c : Char) : (lowerChar c = ':' ↔ c = ':') ∧ (lowerChar c = '.' ↔ c = '.') := by
  unfold lowerChar
  split
  · rename_i h
    have h1 : 65 ≤ c.toNat := by
      have := h.1
      rw [Char.le_def] at this
      exact this
    have h2 : c.toNat ≤ 90 := by
      have := h.2
      rw [Char.le_def] at this
      exact this
    have := lowerChar_upper_ne c.toNat h1 h2
    constructor
    · constructor
      · intro e; exact absurd e this.1
      · rintro rfl; exact absurd h1 (by decide)
    · constructor
      · intro e; exact absurd e this.2
      · rintro rfl; exact absurd h1 (by decide)
  · simp

theorem mem_lower_colon (s : Str) : ':' ∈ lower s ↔ ':' ∈ s := by
  induction s with
  | nil => simp [lower]
  | cons c cs ih =>
    simp only [lower, List.map_cons, List.mem_cons] at ih ⊢
    rw [ih, eq_comm, (lowerChar_sep c).1, eq_comm]

theorem mem_lower_dot (s : Str) : '.' ∈ lower s ↔ '.' ∈ s := by
  induction s with
  | nil => simp [lower]
  | cons c cs ih =>
    simp only [lower, List.map_cons, List.mem_cons] at ih ⊢
    rw [ih, eq_comm, (lowerChar_sep c).2, eq_comm]

/-! ### frame: every lookup goes through an explicit key -/

theorem without_congr {b b' : Blocks} {K : List Str} (P : List Str) (h : ∀ k ∈ K, b k = b' k) :
    ∀ k ∈ K, without b P k = without b' P k := by
  intro k hk
  simp only [without]
  split
  · rfl
  · exact h k hk

/-- keys the element itself is looked up with -/
def selfKeys (n : Node) : List Str :=
  [annotationName n, recordEarlyName n, n.symbol, keySection (annotationName n)]

theorem annotateSelf_congr {b b' : Blocks} (n : Node) (h : ∀ k ∈ selfKeys n, b k = b' k) :
    annotateSelf b n = annotateSelf b' n := by
  have h1 := h (annotationName n) (by simp [selfKeys])
  have h2 := h (recordEarlyName n) (by simp [selfKeys])
  have h3 := h n.symbol (by simp [selfKeys])
  have h4 := h (keySection (annotationName n)) (by simp [selfKeys])
  unfold annotateSelf
  simp only [h1, h2, h3, h4]

theorem applyMember_congr {b b' : Blocks} (m : Str) (h : b m = b' m) : applyMember b m = applyMember b' m := by
  simp only [applyMember, h]

theorem applyField_congr {b b' : Blocks} (a f : Str) (h : b (keyField a f) = b' (keyField a f)) :
    applyField b a f = applyField b' a f := by
  simp only [applyField, h]

theorem applyProperty_congr {b b' : Blocks} (a p : Str) (h : b (keyProp a p) = b' (keyProp a p)) :
    applyProperty b a p = applyProperty b' a p := by
  simp only [applyProperty, h]

theorem applySignal_congr {b b' : Blocks} (a s : Str) (h : b (keySig a s) = b' (keySig a s)) :
    applySignal b a s = applySignal b' a s := by
  simp only [applySignal, h]

/-- addresses of the elements `_pass_read_annotations` annotates -/
inductive Addr where
  | self (i : Nat)
  | member (i j : Nat)
  | field (i j : Nat)
  | prop (i j : Nat)
  | sig (i j : Nat)
  deriving DecidableEq, Repr

def Addr.node : Addr → Nat
  | .self i | .member i _ | .field i _ | .prop i _ | .sig i _ => i

/-- the explicit, finite key set of an element of node `n` -/
def nodeKeys (n : Node) : Addr → List Str
  | .self _ => selfKeys n
  | .member _ j => (n.members[j]?).toList
  | .field _ j => (n.fields[j]?.map (keyField (annotationName n))).toList
  | .prop _ j => (n.props[j]?.map (fun p => keyProp (annotationName n) p.name)).toList
  | .sig _ j => (n.sigs[j]?.map (keySig (annotationName n))).toList

def keys (ns : List Node) (a : Addr) : List Str :=
  match ns[a.node]? with
  | some n => nodeKeys n a
  | none => []

/-- the annotated state of the addressed element inside one node's output -/
def NodeOut.at (o : NodeOut) : Addr → Option (Except Err Elem)
  | .self _ => some o.self
  | .member _ j => o.members[j]?
  | .field _ j => o.fields[j]?
  | .prop _ j => o.props[j]?
  | .sig _ j => o.sigs[j]?

def elemAt (outs : List NodeOut) (a : Addr) : Option (Except Err Elem) :=
  match outs[a.node]? with
  | some o => o.at a
  | none => none

theorem annotateNode_at_congr {b b' : Blocks} (n : Node) (a : Addr) (h : ∀ k ∈ nodeKeys n a, b k = b' k) :
    (annotateNode b n).at a = (annotateNode b' n).at a := by
  cases a with
  | self i =>
    simp only [NodeOut.at, annotateNode]
    rw [annotateSelf_congr n h]
  | member i j =>
    simp only [NodeOut.at, annotateNode]
    split
    · simp only [List.getElem?_map]
      cases hm : n.members[j]? with
      | none => rfl
      | some m =>
        simp only [Option.map_some]
        rw [applyMember_congr m (h m (by simp [nodeKeys, hm]))]
    · rfl
  | field i j =>
    simp only [NodeOut.at, annotateNode]
    split
    · simp only [List.getElem?_map]
      cases hm : n.fields[j]? with
      | none => rfl
      | some f =>
        simp only [Option.map_some]
        rw [applyField_congr _ f (h _ (by simp [nodeKeys, hm]))]
    · rfl
  | prop i j =>
    simp only [NodeOut.at, annotateNode]
    split
    · simp only [List.getElem?_map]
      cases hm : n.props[j]? with
      | none => rfl
      | some p =>
        simp only [Option.map_some]
        rw [applyProperty_congr _ p.name
          (without_congr (K := nodeKeys n (.prop i j)) _ h _ (by simp [nodeKeys, hm]))]
    · rfl
  | sig i j =>
    simp only [NodeOut.at, annotateNode]
    split
    · simp only [List.getElem?_map]
      cases hm : n.sigs[j]? with
      | none => rfl
      | some s =>
        simp only [Option.map_some]
        rw [applySignal_congr _ s
          (without_congr (K := nodeKeys n (.sig i j)) _ h _ (by simp [nodeKeys, hm]))]
    · rfl

/-- re-address an element of the tail of the node list -/
def Addr.shift : Addr → Addr
  | .self i => .self (i - 1)
  | .member i j => .member (i - 1) j
  | .field i j => .field (i - 1) j
  | .prop i j => .prop (i - 1) j
  | .sig i j => .sig (i - 1) j

theorem nodeKeys_shift (n : Node) (a : Addr) : nodeKeys n a.shift = nodeKeys n a := by
  cases a <;> rfl

theorem NodeOut.at_shift (o : NodeOut) (a : Addr) : o.at a.shift = o.at a := by
  cases a <;> rfl

theorem Addr.shift_node (a : Addr) : a.shift.node = a.node - 1 := by
  cases a <;> rfl

theorem pass1_frame (b b' : Blocks) (ns : List Node) (popped : List Str) (a : Addr)
    (h : ∀ k ∈ keys ns a, b k = b' k) :
    elemAt (pass1 b popped ns) a = elemAt (pass1 b' popped ns) a := by
  induction ns generalizing popped a with
  | nil => simp [pass1, elemAt]
  | cons n ns ih =>
    cases hi : a.node with
    | zero =>
      simp only [elemAt, pass1, hi, List.getElem?_cons_zero]
      apply annotateNode_at_congr
      apply without_congr
      simpa [keys, hi] using h
    | succ i =>
      have hk : keys ns a.shift = keys (n :: ns) a := by
        simp only [keys, Addr.shift_node, hi, Nat.add_sub_cancel, List.getElem?_cons_succ]
        cases ns[i]? with
        | none => rfl
        | some m => exact nodeKeys_shift m a
      have := ih (sectionKeys n ++ popped) a.shift (by rw [hk]; exact h)
      simp only [elemAt, pass1, hi, List.getElem?_cons_succ]
      simp only [elemAt, Addr.shift_node, hi, Nat.add_sub_cancel] at this
      cases h1 : (pass1 b (sectionKeys n ++ popped) ns)[i]? with
      | none =>
        cases h2 : (pass1 b' (sectionKeys n ++ popped) ns)[i]? with
        | none => rfl
        | some o2 => rw [h1, h2] at this; simpa [NodeOut.at_shift] using this
      | some o1 =>
        cases h2 : (pass1 b' (sectionKeys n ++ popped) ns)[i]? with
        | none => rw [h1, h2] at this; simpa [NodeOut.at_shift] using this
        | some o2 =>
          rw [h1, h2] at this
          simpa [NodeOut.at_shift] using this

/-! ### rename-to: the invariant of the fold -/

theorem truthyS_some (v : Str) : truthyS (some v) = true ↔ v ≠ [] := by
  cases v <;> simp [truthyS]

/-- function names: distinct symbols have distinct, non-empty names -/
structure NameEnv (nameOf : Str → Option Str) : Prop where
  inj : ∀ s s' x, nameOf s = some x → nameOf s' = some x → s = s'
  nonempty : ∀ s x, nameOf s = some x → x ≠ []

/-- `pending` are the symbols whose own request has not been visited yet -/
structure RInv (nameOf : Str → Option Str) (st : RState) (pending : List Str) : Prop where
  a : ∀ s v, st.shadows s = some v → ∃ t fn, nameOf t = some v ∧ nameOf s = some fn ∧ st.shadowedBy t = some fn
  b : ∀ t w, st.shadowedBy t = some w → ∃ s gn, nameOf s = some w ∧ nameOf t = some gn ∧ st.shadows s = some gn
  c : ∀ s ∈ pending, st.shadows s = none

theorem RInv.init (nameOf : Str → Option Str) (pending : List Str) : RInv nameOf RState.init pending :=
  ⟨by intro s v h; simp [RState.init] at h, by intro t w h; simp [RState.init] at h, by intro s _; rfl⟩

theorem renameStep_inv {nameOf : Str → Option Str} (env : NameEnv nameOf) {st : RState} {r : Str × Str}
    {pend : List Str} (h : RInv nameOf st (r.1 :: pend)) (hnd : r.1 ∉ pend) :
    RInv nameOf (renameStep nameOf st r) pend := by
  have hweak : RInv nameOf st pend := ⟨h.a, h.b, fun s hs => h.c s (List.mem_cons_of_mem _ hs)⟩
  unfold renameStep
  cases hg : nameOf r.2 with
  | none => exact hweak
  | some gname =>
    simp only
    by_cases hself : r.2 = r.1
    · rw [if_pos hself]; exact hweak
    rw [if_neg hself]
    split
    · exact hweak
    · rename_i hsb
      split
      · exact hweak
      · rename_i hsh
        split
        · exact hweak
        · cases hf : nameOf r.1 with
          | none => exact hweak
          | some fname =>
            simp only
            -- the target is untouched so far
            have sb_none : st.shadowedBy r.2 = none := by
              cases hv : st.shadowedBy r.2 with
              | none => rfl
              | some w =>
                exfalso
                obtain ⟨s, gn, hs, _, _⟩ := h.b _ _ hv
                apply hsb
                rw [hv, truthyS_some]
                exact env.nonempty _ _ hs
            have sh_none : st.shadows r.2 = none := by
              cases hv : st.shadows r.2 with
              | none => rfl
              | some v =>
                exfalso
                obtain ⟨t, fn, ht, _, _⟩ := h.a _ _ hv
                apply hsh
                rw [hv, truthyS_some]
                exact env.nonempty _ _ ht
            have src_none : st.shadows r.1 = none := h.c _ (List.mem_cons_self)
            refine ⟨?_, ?_, ?_⟩
            · intro s v hv
              by_cases hs : s = r.1
              · subst hs
                simp only [if_true] at hv
                cases hv
                exact ⟨r.2, fname, hg, hf, by simp⟩
              · simp only [hs, if_false] at hv
                obtain ⟨t, fn, ht, hfn, hsbt⟩ := h.a _ _ hv
                refine ⟨t, fn, ht, hfn, ?_⟩
                by_cases htt : t = r.2
                · subst htt; rw [sb_none] at hsbt; cases hsbt
                · simp [htt, hsbt]
            · intro t w hw
              by_cases ht : t = r.2
              · subst ht
                simp only [if_true] at hw
                cases hw
                exact ⟨r.1, gname, hf, hg, by simp⟩
              · simp only [ht, if_false] at hw
                obtain ⟨s, gn, hs, hgn, hshs⟩ := h.b _ _ hw
                refine ⟨s, gn, hs, hgn, ?_⟩
                by_cases hss : s = r.1
                · subst hss; rw [src_none] at hshs; cases hshs
                · simp [hss, hshs]
            · intro s hs
              have : s ≠ r.1 := by rintro rfl; exact hnd hs
              simp only [this, if_false]
              exact h.c s (List.mem_cons_of_mem _ hs)

theorem renameFold_inv_aux {nameOf : Str → Option Str} (env : NameEnv nameOf) (reqs : List (Str × Str))
    (st : RState) (hnd : (reqs.map (·.1)).Nodup) (h : RInv nameOf st (reqs.map (·.1))) :
    RInv nameOf (reqs.foldl (renameStep nameOf) st) [] := by
  induction reqs generalizing st with
  | nil => simpa using h
  | cons r rs ih =>
    simp only [List.map_cons, List.nodup_cons] at hnd
    simp only [List.foldl_cons]
    exact ih _ hnd.2 (renameStep_inv env (by simpa using h) hnd.1)

theorem renameFold_inv {nameOf : Str → Option Str} (env : NameEnv nameOf) (reqs : List (Str × Str))
    (hnd : (reqs.map (·.1)).Nodup) : RInv nameOf (renameFold nameOf reqs) [] :=
  renameFold_inv_aux env reqs _ hnd (RInv.init _ _)

/-- no function both shadows and is shadowed -/
def NoBoth (st : RState) : Prop := ∀ s v w, st.shadows s = some v → st.shadowedBy s = some w → False

/-- every request keeps `NoBoth`: one naming its own function is refused (`target is node`), the
    visited function must not be shadowed yet (the check added by "refuse rename-to chains in either
    processing order"), the target must neither shadow nor be shadowed -/
theorem renameStep_noboth {nameOf : Str → Option Str} (env : NameEnv nameOf) {st : RState} {r : Str × Str}
    {pend : List Str} (h : RInv nameOf st pend) (nb : NoBoth st) :
    NoBoth (renameStep nameOf st r) := by
  unfold renameStep
  cases hg : nameOf r.2 with
  | none => exact nb
  | some gname =>
    simp only
    by_cases hself : r.2 = r.1
    · rw [if_pos hself]; exact nb
    rw [if_neg hself]
    have hne : r.1 ≠ r.2 := fun e => hself e.symm
    split
    · exact nb
    · split
      · exact nb
      · rename_i hsh
        split
        · exact nb
        · rename_i hsrc
          cases hf : nameOf r.1 with
          | none => exact nb
          | some fname =>
            simp only
            have sh_none : st.shadows r.2 = none := by
              cases hv : st.shadows r.2 with
              | none => rfl
              | some v =>
                exfalso
                obtain ⟨t, fn, ht, _, _⟩ := h.a _ _ hv
                apply hsh
                rw [hv, truthyS_some]
                exact env.nonempty _ _ ht
            have src_none : st.shadowedBy r.1 = none := by
              cases hv : st.shadowedBy r.1 with
              | none => rfl
              | some w =>
                exfalso
                obtain ⟨s, gn, hs, _, _⟩ := h.b _ _ hv
                apply hsrc
                rw [hv, truthyS_some]
                exact env.nonempty _ _ hs
            intro s v w hv hw
            simp only at hv hw
            by_cases h1 : s = r.1
            · subst h1
              rw [if_neg hne, src_none] at hw
              cases hw
            · rw [if_neg h1] at hv
              by_cases h2 : s = r.2
              · subst h2
                rw [sh_none] at hv
                cases hv
              · rw [if_neg h2] at hw
                exact nb s v w hv hw

theorem renameFold_noboth_aux {nameOf : Str → Option Str} (env : NameEnv nameOf) (reqs : List (Str × Str))
    (st : RState) (hnd : (reqs.map (·.1)).Nodup)
    (h : RInv nameOf st (reqs.map (·.1))) (nb : NoBoth st) :
    NoBoth (reqs.foldl (renameStep nameOf) st) := by
  induction reqs generalizing st with
  | nil => simpa using nb
  | cons r rs ih =>
    simp only [List.map_cons, List.nodup_cons] at hnd
    simp only [List.foldl_cons]
    exact ih _ hnd.2 (renameStep_inv env (by simpa using h) hnd.1) (renameStep_noboth env h nb)

/-- after any number of requests nobody both shadows and is shadowed: the writer's `elif` never
    hides a `shadows` -/
theorem renameFold_noboth {nameOf : Str → Option Str} (env : NameEnv nameOf) (reqs : List (Str × Str))
    (hnd : (reqs.map (·.1)).Nodup) : NoBoth (renameFold nameOf reqs) :=
  renameFold_noboth_aux env reqs _ hnd (RInv.init _ _) (by intro s v w h; simp [RState.init] at h)

/-- only visited sources shadow, only requested targets are shadowed -/
theorem renameStep_dom (nameOf : Str → Option Str) (st : RState) (r : Str × Str) (S T : List Str)
    (hs : ∀ s v, st.shadows s = some v → s ∈ S) (ht : ∀ t w, st.shadowedBy t = some w → t ∈ T)
    (hr1 : r.1 ∈ S) (hr2 : r.2 ∈ T) :
    (∀ s v, (renameStep nameOf st r).shadows s = some v → s ∈ S) ∧
    (∀ t w, (renameStep nameOf st r).shadowedBy t = some w → t ∈ T) := by
  unfold renameStep
  cases nameOf r.2 with
  | none => exact ⟨hs, ht⟩
  | some g =>
    simp only
    by_cases hself : r.2 = r.1
    · rw [if_pos hself]; exact ⟨hs, ht⟩
    rw [if_neg hself]
    split
    · exact ⟨hs, ht⟩
    · split
      · exact ⟨hs, ht⟩
      · split
        · exact ⟨hs, ht⟩
        · cases nameOf r.1 with
          | none => exact ⟨hs, ht⟩
          | some f =>
            simp only
            constructor
            · intro s v hv
              by_cases h : s = r.1
              · rw [h]; exact hr1
              · simp only [h, if_false] at hv; exact hs _ _ hv
            · intro t w hw
              by_cases h : t = r.2
              · rw [h]; exact hr2
              · simp only [h, if_false] at hw; exact ht _ _ hw

theorem renameFold_dom_aux (nameOf : Str → Option Str) (reqs : List (Str × Str)) (st : RState) (S T : List Str)
    (hs : ∀ s v, st.shadows s = some v → s ∈ S) (ht : ∀ t w, st.shadowedBy t = some w → t ∈ T)
    (hS : ∀ r ∈ reqs, r.1 ∈ S) (hT : ∀ r ∈ reqs, r.2 ∈ T) :
    (∀ s v, (reqs.foldl (renameStep nameOf) st).shadows s = some v → s ∈ S) ∧
    (∀ t w, (reqs.foldl (renameStep nameOf) st).shadowedBy t = some w → t ∈ T) := by
  induction reqs generalizing st with
  | nil => exact ⟨hs, ht⟩
  | cons r rs ih =>
    simp only [List.foldl_cons]
    have := renameStep_dom nameOf st r S T hs ht (hS r List.mem_cons_self) (hT r List.mem_cons_self)
    exact ih _ this.1 this.2 (fun r hr => hS r (List.mem_cons_of_mem _ hr)) (fun r hr => hT r (List.mem_cons_of_mem _ hr))

/-! ### what the writer shows of a rename pair -/

/-- the `shadows` attribute as written by `_write_function_common` (`elif`) -/
def wShadows (st : RState) (s : Str) : Option Str :=
  if truthyS (st.shadowedBy s) then none else if truthyS (st.shadows s) then st.shadows s else none

def wShadowedBy (st : RState) (s : Str) : Option Str :=
  if truthyS (st.shadowedBy s) then st.shadowedBy s else none

/-! ### what one block does to an element -/

theorem optFirst_some_ok {l : List Str} {v : Option Str} (h : optFirst (some l) = .ok v) :
    ∃ x rest, l = x :: rest ∧ v = some x := by
  cases l with
  | nil => simp [optFirst, first?, Except.map] at h
  | cons x rest =>
    simp [optFirst, first?, Except.map] at h
    exact ⟨x, rest, rfl, h.symm⟩

theorem optFirst_cons (x : Str) (rest : List Str) : optFirst (some (x :: rest)) = .ok (some x) := rfl

theorem applyAnnotated_ok {f : Bool} {e e' : Elem} {b : Block} (h : applyAnnotated f e (some b) = .ok e') :
    ∃ sp gp, optFirst (if f then b.get annSetProperty else none) = .ok sp ∧
      optFirst (if f then b.get annGetProperty else none) = .ok gp ∧
      e' = { applyPure f e b with setProperty := orOld sp e.setProperty, getProperty := orOld gp e.getProperty } := by
  unfold applyAnnotated at h
  cases h1 : optFirst (if f then b.get annSetProperty else none) with
  | error err => simp [h1, bind, Except.bind] at h
  | ok sp =>
    cases h2 : optFirst (if f then b.get annGetProperty else none) with
    | error err => simp [h1, h2, bind, Except.bind] at h
    | ok gp =>
      simp [h1, h2, bind, Except.bind, pure, Except.pure] at h
      exact ⟨sp, gp, rfl, rfl, h.symm⟩

theorem applyCallable_ok {f : Bool} {e e' : Elem} {b : Block} (h : applyCallable f e (some b) = .ok e') :
    ∃ ff sf af, optFirst (b.get annFinishFunc) = .ok ff ∧ optFirst (b.get annSyncFunc) = .ok sf ∧
      optFirst (b.get annAsyncFunc) = .ok af ∧
      applyAnnotated f { e with finishFunc := orOld ff e.finishFunc, syncFunc := orOld sf e.syncFunc,
                                asyncFunc := orOld af e.asyncFunc } (some b) = .ok e' := by
  unfold applyCallable at h
  cases h1 : optFirst (b.get annFinishFunc) with
  | error err => simp [h1, bind, Except.bind] at h
  | ok ff =>
    cases h2 : optFirst (b.get annSyncFunc) with
    | error err => simp [h1, h2, bind, Except.bind] at h
    | ok sf =>
      cases h3 : optFirst (b.get annAsyncFunc) with
      | error err => simp [h1, h2, h3, bind, Except.bind] at h
      | ok af =>
        simp [h1, h2, h3, bind, Except.bind] at h
        exact ⟨ff, sf, af, rfl, rfl, rfl, h⟩

theorem mem_dictSet_self (m : List (Str × Str)) (k v : Str) : (k, v) ∈ dictSet m k v := by
  induction m with
  | nil => simp [dictSet]
  | cons x xs ih =>
    obtain ⟨k', v'⟩ := x
    simp only [dictSet]
    split
    · simp
    · simp [ih]

theorem mem_dictSet_of_ne {m : List (Str × Str)} {k v k' v' : Str} (h : (k', v') ∈ m) (hne : k' ≠ k) :
    (k', v') ∈ dictSet m k v := by
  induction m with
  | nil => simp at h
  | cons x xs ih =>
    obtain ⟨k'', v''⟩ := x
    simp only [dictSet]
    split
    · rename_i heq
      rcases List.mem_cons.mp h with h | h
      · cases h; exact absurd heq hne
      · simp [h]
    · rcases List.mem_cons.mp h with h | h
      · cases h; simp
      · simp [ih h]

theorem applyAttributes_keep {l : List (Str × Option Str)} {m : List (Str × Str)} {k v : Str}
    (h : (k, v) ∈ m) (hk : k ∉ l.map (·.1)) : (k, v) ∈ applyAttributes m l := by
  unfold applyAttributes
  induction l generalizing m with
  | nil => simpa using h
  | cons x xs ih =>
    simp only [List.map_cons, List.mem_cons, not_or] at hk
    simp only [List.foldl_cons]
    apply ih _ hk.2
    split
    · exact mem_dictSet_of_ne h hk.1
    · exact h

theorem applyAttributes_mem {l : List (Str × Option Str)} {m : List (Str × Str)} {k : Str} {c : Char} {cs : Str}
    (hnd : (l.map (·.1)).Nodup) (h : (k, some (c :: cs)) ∈ l) : (k, c :: cs) ∈ applyAttributes m l := by
  induction l generalizing m with
  | nil => simp at h
  | cons x xs ih =>
    simp only [List.map_cons, List.nodup_cons] at hnd
    rcases List.mem_cons.mp h with h | h
    · subst h
      have : applyAttributes m ((k, some (c :: cs)) :: xs) = applyAttributes (dictSet m k (c :: cs)) xs := by
        simp [applyAttributes]
      rw [this]
      exact applyAttributes_keep (mem_dictSet_self _ _ _) hnd.1
    · have : applyAttributes m (x :: xs) = applyAttributes
          (match x.2 with | some (c :: cs) => dictSet m x.1 (c :: cs) | _ => m) xs := rfl
      rw [this]
      exact ih hnd.2 h

/-! ### virtual methods: frame -/

theorem withBlocks_congr {b b' : Blocks} {fs : List Method} (h : ∀ f ∈ fs, b f.symbol = b' f.symbol) :
    withBlocks b fs = withBlocks b' fs := by
  unfold withBlocks
  apply List.map_congr_left
  intro f hf
  rw [h f hf]

/-- a slot with a block of its own: only the methods themselves (name, signature) matter -/
theorem vfuncPair_own_congr (own : Block) (fieldDoc : Option Str) (v : VSlot)
    {methods methods' : List (Method × Option Block)} (h : methods.map (·.1) = methods'.map (·.1)) :
    vfuncPair (some own) fieldDoc methods v = vfuncPair (some own) fieldDoc methods' v := by
  have hf : (methods.find? (fun m => vmatch v m.1)).map (·.1) = (methods'.find? (fun m => vmatch v m.1)).map (·.1) := by
    induction methods generalizing methods' with
    | nil =>
      cases methods' with
      | nil => rfl
      | cons y ys => simp at h
    | cons x xs ih =>
      cases methods' with
      | nil => simp at h
      | cons y ys =>
        simp only [List.map_cons, List.cons.injEq] at h
        simp only [List.find?_cons]
        rw [← h.1]
        cases vmatch v x.1 with
        | true => simp [h.1]
        | false => exact ih h.2
  simp only [vfuncPair, Option.isSome_some, if_true]
  cases applyCallable false Elem.fresh (some own) with
  | error e => rfl
  | ok e =>
    simp only [bind, Except.bind]
    cases h1 : methods.find? (fun m => vmatch v m.1) with
    | none =>
      cases h2 : methods'.find? (fun m => vmatch v m.1) with
      | none => rfl
      | some m' => rw [h1, h2] at hf; simp at hf
    | some m =>
      cases h2 : methods'.find? (fun m => vmatch v m.1) with
      | none => rw [h1, h2] at hf; simp at hf
      | some m' =>
        rw [h1, h2] at hf
        simp only [Option.map_some, Option.some.injEq] at hf
        simp only [hf]

/-- the explicit, finite key set of the virtual methods of container `n` -/
def vfuncKeys (n : Node) : List Str :=
  (match n.structAnn with
    | some sa => n.vslots.map (fun v => keyVfunc sa v.name)
    | none => [])
  ++ n.methods.map (·.symbol) ++ (walkFuncs n).map (·.symbol)

/-- everything the two virtual-method phases (`vfuncsPairCore`, `vfuncsVirtualCore`) are handed by
    `annotateAll` is looked up through `vfuncKeys` -/
theorem vfuncInputs_congr {b b' : Blocks} (n : Node) (h : ∀ k ∈ vfuncKeys n, b k = b' k) :
    slotBlocks b n = slotBlocks b' n ∧ withBlocks b n.methods = withBlocks b' n.methods
    ∧ withBlocks b (walkFuncs n) = withBlocks b' (walkFuncs n) := by
  refine ⟨?_, ?_, ?_⟩
  · unfold slotBlocks
    cases hs : n.structAnn with
    | none => rfl
    | some sa =>
      simp only
      apply List.map_congr_left
      intro v hv
      rw [h (keyVfunc sa v.name) (by simp only [vfuncKeys, hs, List.mem_append, List.mem_map]; left; left; exact ⟨v, hv, rfl⟩)]
  · exact withBlocks_congr (fun f hf => h _ (by simp only [vfuncKeys, List.mem_append, List.mem_map]; left; right; exact ⟨f, hf, rfl⟩))
  · exact withBlocks_congr (fun f hf => h _ (by simp only [vfuncKeys, List.mem_append, List.mem_map]; right; exact ⟨f, hf, rfl⟩))

theorem vfuncsOf_congr {b b' : Blocks} (n : Node) (fd : Str → Option Str) (h : ∀ k ∈ vfuncKeys n, b k = b' k) :
    vfuncsOf b n fd = vfuncsOf b' n fd := by
  obtain ⟨h1, h2, h3⟩ := vfuncInputs_congr n h
  unfold vfuncsOf
  rw [h1, h2, h3]

theorem renameReqs_congr {b b' : Blocks} {fs : List Method} (h : ∀ f ∈ fs, b f.symbol = b' f.symbol) :
    renameReqs b fs = renameReqs b' fs := by
  unfold renameReqs
  rw [withBlocks_congr h]

/-! ### field-wise description of one application of a block -/

structure AnnFields (f : Bool) (e : Elem) (b : Block) (e' : Elem) : Prop where
  doc : e'.doc = if truthyS b.description then b.description else e.doc
  version : e'.version = tagValue b.since e.version
  versionDoc : e'.versionDoc = tagDesc b.since e.versionDoc
  deprecated : e'.deprecated = tagValue b.deprecated e.deprecated
  deprecatedDoc : e'.deprecatedDoc = tagDesc b.deprecated e.deprecatedDoc
  stability : e'.stability = tagValue b.stability e.stability
  stabilityDoc : e'.stabilityDoc = tagDesc b.stability e.stabilityDoc
  attributes : e'.attributes = match b.attributes with
    | some l => applyAttributes e.attributes l
    | none => e.attributes
  skip : e'.skip = (e.skip || b.has annSkip)
  foreign : e'.foreign = (e.foreign || b.has annForeign)
  isConstructor : e'.isConstructor = (e.isConstructor || (b.has annConstructor && f))
  isMethod : e'.isMethod = (e.isMethod || b.has annMethod)
  setProperty : ∃ sp, optFirst (if f then b.get annSetProperty else none) = .ok sp ∧ e'.setProperty = orOld sp e.setProperty
  getProperty : ∃ gp, optFirst (if f then b.get annGetProperty else none) = .ok gp ∧ e'.getProperty = orOld gp e.getProperty
  finishFunc : e'.finishFunc = e.finishFunc
  syncFunc : e'.syncFunc = e.syncFunc
  asyncFunc : e'.asyncFunc = e.asyncFunc
  setter : e'.setter = e.setter
  getter : e'.getter = e.getter
  defaultValue : e'.defaultValue = e.defaultValue
  emitter : e'.emitter = e.emitter
  value : e'.value = e.value
  invoker : e'.invoker = e.invoker

theorem applyAnnotated_fields {f : Bool} {e e' : Elem} {b : Block} (h : applyAnnotated f e (some b) = .ok e') :
    AnnFields f e b e' := by
  obtain ⟨sp, gp, h1, h2, rfl⟩ := applyAnnotated_ok h
  exact ⟨rfl, rfl, rfl, rfl, rfl, rfl, rfl, rfl, rfl, rfl, rfl, rfl, ⟨sp, h1, rfl⟩, ⟨gp, h2, rfl⟩,
    rfl, rfl, rfl, rfl, rfl, rfl, rfl, rfl, rfl⟩

/-! ### field-wise description of the writer -/

theorem generic_sub_write {k : WKind} {i : Bool} {e : Elem} {sh sb : Option Str} {x : Str × Str}
    (h : x ∈ genericAttrs k i e) : x ∈ writeAttrs k i e sh sb := by
  cases k <;> simp only [writeAttrs, List.mem_append] <;> simp [h]

theorem mem_optAttr (name : String) (c : Char) (cs : Str) : (name.toList, c :: cs) ∈ optAttr name (some (c :: cs)) :=
  List.mem_singleton.mpr rfl

theorem mem_someAttr (name : String) (v : Str) : (name.toList, v) ∈ someAttr name (some v) :=
  List.mem_singleton.mpr rfl

theorem w_introspectable {k : WKind} {i : Bool} {e : Elem} {sh sb : Option Str} (h : e.skip = true) :
    ("introspectable".toList, "0".toList) ∈ writeAttrs k i e sh sb := by
  apply generic_sub_write
  simp only [genericAttrs, h, Bool.true_or, if_true, List.mem_append]
  left; left; left; right
  exact List.mem_singleton.mpr rfl

theorem w_version {k : WKind} {i : Bool} {e : Elem} {sh sb : Option Str} {c : Char} {cs : Str}
    (h : e.version = some (c :: cs)) :
    ("version".toList, c :: cs) ∈ writeAttrs k i e sh sb := by
  apply generic_sub_write
  simp only [genericAttrs, h, List.mem_append]
  left; left; left; left
  exact mem_optAttr _ _ _

theorem w_deprecated_version {k : WKind} {i : Bool} {e : Elem} {sh sb : Option Str} {c : Char} {cs : Str}
    (h : e.deprecated = some (c :: cs)) :
    ("deprecated".toList, "1".toList) ∈ writeAttrs k i e sh sb
    ∧ ("deprecated-version".toList, c :: cs) ∈ writeAttrs k i e sh sb := by
  constructor <;> apply generic_sub_write
  · simp only [genericAttrs, h, truthyS, Bool.true_or, if_true, List.mem_append]
    left; left; right
    exact List.mem_singleton.mpr rfl
  · simp only [genericAttrs, h, List.mem_append]
    left; right
    exact mem_optAttr _ _ _

theorem w_deprecated_doc {k : WKind} {i : Bool} {e : Elem} {sh sb : Option Str} {c : Char} {cs : Str}
    (h : e.deprecatedDoc = some (c :: cs)) :
    ("deprecated".toList, "1".toList) ∈ writeAttrs k i e sh sb := by
  apply generic_sub_write
  simp only [genericAttrs, h, truthyS, Bool.or_true, if_true, List.mem_append]
  left; left; right
  exact List.mem_singleton.mpr rfl

theorem w_stability {k : WKind} {i : Bool} {e : Elem} {sh sb : Option Str} {c : Char} {cs : Str}
    (h : e.stability = some (c :: cs)) : ("stability".toList, c :: cs) ∈ writeAttrs k i e sh sb := by
  apply generic_sub_write
  simp only [genericAttrs, h, List.mem_append]
  right
  exact mem_optAttr _ _ _

theorem w_children {e : Elem} {c : Char} {cs : Str} :
    (e.doc = some (c :: cs) → ("doc".toList, c :: cs) ∈ (writeChildren e).2)
    ∧ (e.versionDoc = some (c :: cs) → ("doc-version".toList, c :: cs) ∈ (writeChildren e).2)
    ∧ (e.deprecatedDoc = some (c :: cs) → ("doc-deprecated".toList, c :: cs) ∈ (writeChildren e).2)
    ∧ (e.stabilityDoc = some (c :: cs) → ("doc-stability".toList, c :: cs) ∈ (writeChildren e).2) := by
  refine ⟨?_, ?_, ?_, ?_⟩ <;> intro h <;> simp only [writeChildren, h, List.mem_append]
  · left; left; left; exact mem_optAttr _ _ _
  · left; left; right; exact mem_optAttr _ _ _
  · left; right; exact mem_optAttr _ _ _
  · right; exact mem_optAttr _ _ _

theorem w_callable {k : WKind} {i : Bool} {e : Elem} {sh sb : Option Str}
    (hk : k = .function ∨ k = .callback ∨ k = .vfunc) :
    (∀ x, e.finishFunc = some x → ("glib:finish-func".toList, x) ∈ writeAttrs k i e sh sb)
    ∧ (∀ x, e.syncFunc = some x → ("glib:sync-func".toList, x) ∈ writeAttrs k i e sh sb)
    ∧ (∀ x, e.asyncFunc = some x → ("glib:async-func".toList, x) ∈ writeAttrs k i e sh sb) := by
  refine ⟨?_, ?_, ?_⟩ <;> intro x h <;> rcases hk with rfl | rfl | rfl <;>
    simp only [writeAttrs, List.mem_append] <;> right
  · left; left; rw [h]; exact mem_someAttr _ _
  · left; left; rw [h]; exact mem_someAttr _ _
  · left; left; rw [h]; exact mem_someAttr _ _
  · left; right; rw [h]; exact mem_someAttr _ _
  · left; right; rw [h]; exact mem_someAttr _ _
  · left; right; rw [h]; exact mem_someAttr _ _
  · right; rw [h]; exact mem_someAttr _ _
  · right; rw [h]; exact mem_someAttr _ _
  · right; rw [h]; exact mem_someAttr _ _

theorem w_function {i : Bool} {e : Elem} {sh sb : Option Str} :
    (∀ x, e.setProperty = some x → ("glib:set-property".toList, x) ∈ writeAttrs .function i e sh sb)
    ∧ (∀ x, e.getProperty = some x → ("glib:get-property".toList, x) ∈ writeAttrs .function i e sh sb) := by
  refine ⟨?_, ?_⟩ <;> intro x h <;> simp only [writeAttrs, List.mem_append]
  · left; left; left; right; rw [h]; exact mem_someAttr _ _
  · left; left; right; rw [h]; exact mem_someAttr _ _

theorem w_property {i : Bool} {e : Elem} {c : Char} {cs : Str} :
    (e.setter = some (c :: cs) → ("setter".toList, c :: cs) ∈ writeAttrs .property i e none none)
    ∧ (e.getter = some (c :: cs) → ("getter".toList, c :: cs) ∈ writeAttrs .property i e none none)
    ∧ (e.defaultValue = some (c :: cs) → ("default-value".toList, c :: cs) ∈ writeAttrs .property i e none none) := by
  refine ⟨?_, ?_, ?_⟩ <;> intro h <;> simp only [writeAttrs, List.mem_append]
  · left; left; right; rw [h]; exact mem_optAttr _ _ _
  · left; right; rw [h]; exact mem_optAttr _ _ _
  · right; rw [h]; exact mem_someAttr _ _

theorem w_signal {i : Bool} {e : Elem} {c : Char} {cs : Str} (h : e.emitter = some (c :: cs)) :
    ("emitter".toList, c :: cs) ∈ writeAttrs .signal i e none none := by
  simp only [writeAttrs, List.mem_append]
  left; rw [h]; exact mem_optAttr _ _ _

theorem w_constant {i : Bool} {e : Elem} {x : Str} (h : e.value = some x) :
    ("value".toList, x) ∈ writeAttrs .constant i e none none := by
  simp only [writeAttrs, List.mem_append]
  left; rw [h]; exact mem_someAttr _ _

theorem w_class {i : Bool} {e : Elem} {c : Char} {cs : Str} :
    (e.refFunc = some (c :: cs) → ("glib:ref-func".toList, c :: cs) ∈ writeAttrs .klass i e none none)
    ∧ (e.unrefFunc = some (c :: cs) → ("glib:unref-func".toList, c :: cs) ∈ writeAttrs .klass i e none none)
    ∧ (e.setValueFunc = some (c :: cs) → ("glib:set-value-func".toList, c :: cs) ∈ writeAttrs .klass i e none none)
    ∧ (e.getValueFunc = some (c :: cs) → ("glib:get-value-func".toList, c :: cs) ∈ writeAttrs .klass i e none none) := by
  refine ⟨?_, ?_, ?_, ?_⟩ <;> intro h <;> simp only [writeAttrs, List.mem_append]
  · left; left; left; right; rw [h]; exact mem_optAttr _ _ _
  · left; left; right; rw [h]; exact mem_optAttr _ _ _
  · left; right; rw [h]; exact mem_optAttr _ _ _
  · right; rw [h]; exact mem_optAttr _ _ _

theorem w_record {i : Bool} {e : Elem} {c : Char} {cs : Str} :
    (e.copyFunc = some (c :: cs) → ("copy-function".toList, c :: cs) ∈ writeAttrs .record i e none none)
    ∧ (e.freeFunc = some (c :: cs) → ("free-function".toList, c :: cs) ∈ writeAttrs .record i e none none)
    ∧ (e.copyFunc = some (c :: cs) → ("copy-function".toList, c :: cs) ∈ writeAttrs .union i e none none)
    ∧ (e.freeFunc = some (c :: cs) → ("free-function".toList, c :: cs) ∈ writeAttrs .union i e none none) := by
  refine ⟨?_, ?_, ?_, ?_⟩ <;> intro h <;> simp only [writeAttrs, List.mem_append]
  · left; left; right; rw [h]; exact mem_optAttr _ _ _
  · left; right; rw [h]; exact mem_optAttr _ _ _
  · left; right; rw [h]; exact mem_optAttr _ _ _
  · right; rw [h]; exact mem_optAttr _ _ _

theorem w_foreign {i : Bool} {e : Elem} (h : e.foreign = true) :
    ("foreign".toList, "1".toList) ∈ writeAttrs .record i e none none := by
  simp only [writeAttrs, h, if_true, List.mem_append]
  left; left; left
  exact List.mem_singleton.mpr rfl

/-! ### vocabulary of the key-disjointness statement -/

/-- a name contains neither `:` nor `.` (C identifiers, GObject property and signal names) -/
def clean (s : Str) : Prop := ':' ∉ s ∧ '.' ∉ s

instance (s : Str) : Decidable (clean s) := by unfold clean; infer_instance

inductive Target where
  | name (n : Str)
  | prop (a p : Str)
  | sig (a s : Str)
  | field (a f : Str)
  | sect (a : Str)

def Target.key : Target → Str
  | .name n => n
  | .prop a p => keyProp a p
  | .sig a s => keySig a s
  | .field a f => keyField a f
  | .sect a => keySection a

def Target.Clean : Target → Prop
  | .name n => clean n
  | .prop a p => clean a ∧ clean p ∧ a ≠ sectionWord
  | .sig a s => clean a ∧ clean s
  | .field a f => clean a ∧ clean f
  | .sect a => clean a

def Target.Same : Target → Target → Prop
  | .name n, .name n' => n = n'
  | .prop a p, .prop a' p' => a = a' ∧ p = p'
  | .sig a s, .sig a' s' => a = a' ∧ s = s'
  | .field a f, .field a' f' => a = a' ∧ f = f'
  | .sect a, .sect a' => lower a = lower a'
  | _, _ => False

theorem count_colon_clean {s : Str} (h : clean s) : s.count ':' = 0 := List.count_eq_zero.mpr h.1

theorem clean_lower {s : Str} (h : clean s) : clean (lower s) :=
  ⟨fun hm => h.1 ((mem_lower_colon s).mp hm), fun hm => h.2 ((mem_lower_dot s).mp hm)⟩

theorem clean_sectionWord : clean sectionWord := by
  constructor <;> decide

/-- (number of `:`, whether a `.` occurs) of each kind of key -/
theorem Target.signature (t : Target) (h : t.Clean) :
    (t.key.count ':', decide ('.' ∈ t.key)) =
      match t with
      | .name _ => (0, false)
      | .prop _ _ => (1, false)
      | .sig _ _ => (2, false)
      | .field _ _ => (0, true)
      | .sect _ => (1, false) := by
  cases t with
  | name n => simp [Target.key, count_colon_clean h, h.2]
  | prop a p =>
    obtain ⟨ha, hp, _⟩ := h
    simp [Target.key, keyProp_eq, List.count_append, count_colon_clean ha, count_colon_clean hp,
      ha.2, hp.2]
  | sig a s =>
    obtain ⟨ha, hs⟩ := h
    simp [Target.key, keySig_eq, List.count_append, count_colon_clean ha, count_colon_clean hs,
      ha.2, hs.2]
  | field a f =>
    obtain ⟨ha, hf⟩ := h
    simp [Target.key, keyField_eq, List.count_append, count_colon_clean ha, count_colon_clean hf]
  | sect a =>
    have hl := clean_lower h
    simp [Target.key, keySection_eq, List.count_append, count_colon_clean clean_sectionWord,
      count_colon_clean hl, clean_sectionWord.2, hl.2]


/-! ### `_pair_property_accessors`: only the chosen getter keeps an inferred get-property -/

/-- invariant of the inner loop relative to the methods' state `ms` before the property was visited:
    methods stay where they are, and a get_property that was None and is set now was inferred -/
structure AccInv (p : PropInfo) (ms : List (Method × Option Str × Option Str)) (st : AccSt) : Prop where
  meth : ∀ (j : Nat) m sp gp, st.ms[j]? = some (m, sp, gp) → ∃ sp0 gp0, ms[j]? = some (m, sp0, gp0)
  inf : ∀ (j : Nat) m sp g sp0, st.ms[j]? = some (m, sp, some g) → ms[j]? = some (m, sp0, none) →
    j ∈ st.inferred ∧ g = p.name

theorem accessorStep_inv {p : PropInfo} {setter : Option Str} {cands : List (Str × Nat)}
    {ms : List (Method × Option Str × Option Str)} {st : AccSt} (i : Nat) (h : AccInv p ms st) :
    AccInv p ms (accessorStep p setter cands st i) := by
  unfold accessorStep
  cases hi : st.ms[i]? with
  | none => exact h
  | some x =>
    obtain ⟨mi, spi, gpi⟩ := x
    have hlt : i < st.ms.length := (List.getElem?_eq_some_iff.mp hi).1
    simp only
    split
    · constructor
      · intro j m sp gp hj
        by_cases hij : i = j
        · subst hij
          rw [List.getElem?_set_self hlt] at hj
          cases hj
          exact h.meth i mi spi gpi hi
        · rw [List.getElem?_set_ne hij] at hj
          exact h.meth j m sp gp hj
      · intro j m sp g sp0 hj h0
        by_cases hij : i = j
        · subst hij
          rw [List.getElem?_set_self hlt] at hj
          cases hj
          exact h.inf i _ spi g sp0 hi h0
        · rw [List.getElem?_set_ne hij] at hj
          exact h.inf j m sp g sp0 hj h0
    · split
      · split
        · exact h
        · constructor
          · intro j m sp gp hj
            by_cases hij : i = j
            · subst hij
              rw [List.getElem?_set_self hlt] at hj
              cases hj
              exact h.meth i mi spi gpi hi
            · rw [List.getElem?_set_ne hij] at hj
              exact h.meth j m sp gp hj
          · intro j m sp g sp0 hj h0
            by_cases hij : i = j
            · subst hij
              rw [List.getElem?_set_self hlt] at hj
              cases hj
              refine ⟨?_, rfl⟩
              cases hg : gpi with
              | none => simp
              | some g0 =>
                simp only [Option.isNone_some, Bool.false_eq_true, if_false]
                rw [hg] at hi
                exact (h.inf i _ spi g0 sp0 hi h0).1
            · rw [List.getElem?_set_ne hij] at hj
              have := h.inf j m sp g sp0 hj h0
              refine ⟨?_, this.2⟩
              show j ∈ (if gpi.isNone = true then st.inferred ++ [i] else st.inferred)
              cases gpi with
              | none => simp [this.1]
              | some _ => simpa using this.1
      · exact h

theorem accessorFold_inv {p : PropInfo} {setter : Option Str} {cands : List (Str × Nat)}
    {ms : List (Method × Option Str × Option Str)} (is : List Nat) (st : AccSt) (h : AccInv p ms st) :
    AccInv p ms (is.foldl (accessorStep p setter cands) st) := by
  induction is generalizing st with
  | nil => exact h
  | cons i is ih => exact ih _ (accessorStep_inv i h)

/-- one visit of the `for method in inferred_getters` loop -/
def dropOne (getter : Option Str) (ms : List (Method × Option Str × Option Str)) (i : Nat) :
    List (Method × Option Str × Option Str) :=
  match ms[i]? with
  | some (m, sp, _) => if getter = some m.name then ms else ms.set i (m, sp, none)
  | none => ms

theorem dropUnchosen_eq (getter : Option Str) (ms : List (Method × Option Str × Option Str)) (inferred : List Nat) :
    dropUnchosen getter ms inferred = inferred.foldl (dropOne getter) ms := rfl

theorem dropOne_ne {getter : Option Str} {ms : List (Method × Option Str × Option Str)} {i j : Nat} (h : i ≠ j) :
    (dropOne getter ms i)[j]? = ms[j]? := by
  unfold dropOne
  split
  · split
    · rfl
    · exact List.getElem?_set_ne h
  · rfl

theorem dropOne_keep {getter : Option Str} {ms : List (Method × Option Str × Option Str)} {i j : Nat}
    {m : Method} {sp gp : Option Str} (h : (dropOne getter ms i)[j]? = some (m, sp, gp)) :
    ∃ gp0, ms[j]? = some (m, sp, gp0) ∧ (gp = gp0 ∨ gp = none) := by
  unfold dropOne at h
  split at h
  · rename_i m' sp' gp' hi
    split at h
    · exact ⟨gp, h, Or.inl rfl⟩
    · by_cases hij : i = j
      · subst hij
        rw [List.getElem?_set_self (List.getElem?_eq_some_iff.mp hi).1] at h
        cases h
        exact ⟨gp', hi, Or.inr rfl⟩
      · rw [List.getElem?_set_ne hij] at h
        exact ⟨gp, h, Or.inl rfl⟩
  · exact ⟨gp, h, Or.inl rfl⟩

theorem dropOne_self {getter : Option Str} {ms : List (Method × Option Str × Option Str)} {i : Nat}
    {m : Method} {sp : Option Str} {g : Str} (h : (dropOne getter ms i)[i]? = some (m, sp, some g)) :
    getter = some m.name := by
  unfold dropOne at h
  split at h
  · rename_i m' sp' gp' hi
    split at h
    · rename_i hg
      rw [hi] at h
      cases h
      exact hg
    · rw [List.getElem?_set_self (List.getElem?_eq_some_iff.mp hi).1] at h
      cases h
  · rename_i hi
    rw [hi] at h
    cases h

theorem dropFold_spec (getter : Option Str) (inferred : List Nat) (ms : List (Method × Option Str × Option Str)) :
    (∀ j : Nat, j ∉ inferred → (inferred.foldl (dropOne getter) ms)[j]? = ms[j]?)
    ∧ (∀ (j : Nat) m sp gp, (inferred.foldl (dropOne getter) ms)[j]? = some (m, sp, gp) →
        ∃ gp0, ms[j]? = some (m, sp, gp0) ∧ (gp = gp0 ∨ gp = none))
    ∧ (∀ j ∈ inferred, ∀ m sp g, (inferred.foldl (dropOne getter) ms)[j]? = some (m, sp, some g) →
        getter = some m.name) := by
  induction inferred generalizing ms with
  | nil =>
    refine ⟨fun _ _ => rfl, ?_, ?_⟩
    · intro j m sp gp h; exact ⟨gp, h, Or.inl rfl⟩
    · intro j hj; cases hj
  | cons i rest ih =>
    obtain ⟨ih1, ih2, ih3⟩ := ih (dropOne getter ms i)
    simp only [List.foldl_cons]
    refine ⟨?_, ?_, ?_⟩
    · intro j hj
      simp only [List.mem_cons, not_or] at hj
      rw [ih1 j hj.2]
      exact dropOne_ne (fun e => hj.1 e.symm)
    · intro j m sp gp h
      obtain ⟨gp1, h1, hor⟩ := ih2 j m sp gp h
      obtain ⟨gp0, h0, hor0⟩ := dropOne_keep h1
      refine ⟨gp0, h0, ?_⟩
      rcases hor with rfl | rfl
      · exact hor0
      · exact Or.inr rfl
    · intro j hj m sp g h
      by_cases hr : j ∈ rest
      · exact ih3 j hr m sp g h
      · have : j = i := by
          rcases List.mem_cons.mp hj with e | e
          · exact e
          · exact absurd e hr
        subst this
        rw [ih1 j hr] at h
        exact dropOne_self h

theorem pairOne_spec (p : PropInfo) (pe : Option Str × Option Str) (ms : List (Method × Option Str × Option Str)) :
    ∃ st : AccSt, AccInv p ms st ∧ pairOne p pe ms = (st.prop, dropUnchosen st.prop.2 st.ms st.inferred) := by
  refine ⟨_, accessorFold_inv (List.range ms.length) { prop := pe, ms := ms } ⟨?_, ?_⟩, rfl⟩
  · intro j m sp gp h
    exact ⟨sp, gp, h⟩
  · intro j m sp g sp0 h h0
    simp only at h
    rw [h] at h0
    cases h0

theorem pairOne_inferred {p : PropInfo} {pe : Option Str × Option Str} {ms : List (Method × Option Str × Option Str)}
    {i : Nat} {m m' : Method} {sp sp' : Option Str} {g : Str}
    (h0 : ms[i]? = some (m, sp, none)) (h1 : (pairOne p pe ms).2[i]? = some (m', sp', some g)) :
    m' = m ∧ g = p.name ∧ (pairOne p pe ms).1.2 = some m.name := by
  obtain ⟨st, inv, e⟩ := pairOne_spec p pe ms
  rw [e] at h1 ⊢
  simp only [dropUnchosen_eq] at h1 ⊢
  obtain ⟨d1, d2, d3⟩ := dropFold_spec st.prop.2 st.inferred st.ms
  obtain ⟨gp0, hst, hor⟩ := d2 i m' sp' (some g) h1
  have hgp : gp0 = some g := by
    rcases hor with h | h
    · exact h.symm
    · cases h
  subst hgp
  obtain ⟨sp0, gp0, hm⟩ := inv.meth i m' sp' (some g) hst
  rw [h0] at hm
  cases hm
  obtain ⟨hmem, hg⟩ := inv.inf i m sp' g sp hst h0
  exact ⟨rfl, hg, d3 i hmem m sp' g h1⟩

/-- three functions named like their symbols (used by the rename-to witnesses) -/
def abcNames : Str → Option Str := fun s => if s ∈ ["a".toList, "b".toList, "c".toList] then some s else none

theorem abcNames_env : NameEnv abcNames := by
  constructor
  · intro s s' x h h'
    unfold abcNames at h h'
    split at h <;> split at h' <;> simp_all
  · intro s x h
    unfold abcNames at h
    split at h
    · rename_i hm
      cases h
      simp only [List.mem_cons, List.not_mem_nil, or_false] at hm
      rcases hm with rfl | rfl | rfl <;> decide
    · cases h


end GIVerif.IdentAnn
