/-
  Helper lemmas for C12 (Props/C12.lean).  Core Lean only (Mathlib's import time would eat
  the quick-tier budget and nothing here needs it).
-/
import GIVerif.Model.Dump

namespace GIVerif.Dump
open GIVerif.Py

/-! ### bits -/

theorem and_two_pow (n i : Nat) : n &&& 2 ^ i = if n.testBit i then 2 ^ i else 0 := by
  apply Nat.eq_of_testBit_eq
  intro j
  rw [Nat.testBit_and, Nat.testBit_two_pow]
  by_cases h : n.testBit i
  · simp only [h, if_true, Nat.testBit_two_pow]
    by_cases hij : i = j
    · subst hij; simp [h]
    · simp [hij]
  · simp only [h, Bool.false_eq_true, if_false, Nat.zero_testBit]
    by_cases hij : i = j
    · subst hij; simp [h]
    · simp [hij]

theorem and_two_pow_ne_zero (n i : Nat) : (n &&& 2 ^ i != 0) = n.testBit i := by
  rw [and_two_pow]
  have : 2 ^ i ≠ 0 := Nat.pos_iff_ne_zero.mp (Nat.two_pow_pos i)
  by_cases h : n.testBit i <;> simp [h]

theorem pyAnd_ofNat (n i : Nat) : (pyAnd (Int.ofNat n) (2 ^ i) != 0) = n.testBit i := by
  simp only [pyAnd]; exact and_two_pow_ne_zero n i

theorem pyAnd_negSucc (n i : Nat) : (pyAnd (Int.negSucc n) (2 ^ i) != 0) = !n.testBit i := by
  simp only [pyAnd]
  rw [and_two_pow]
  by_cases h : n.testBit i <;> simp [h]

/-! ### the parent walk -/

theorem parentWalk_append_unresolved (res : Str → Option Str) (pre rest : List Ty)
    (h : ∀ p ∈ pre, tyGiname (resolveTy res p) = none) :
    parentWalk res (pre ++ rest) = parentWalk res rest := by
  induction pre with
  | nil => rfl
  | cons p ps ih =>
    have hp := h p (by simp)
    simp only [List.cons_append, parentWalk, hp]
    exact ih (fun q hq => h q (by simp [hq]))

theorem parentWalk_cons_resolved (res : Str → Option Str) (p : Ty) (n : Str) (rest : List Ty)
    (h : tyGiname (resolveTy res p) = some n) : parentWalk res (p :: rest) = some (.giname n) := by
  simp only [parentWalk, h]

theorem parentWalk_none_iff (res : Str → Option Str) (chain : List Ty) :
    parentWalk res chain = none ↔ ∀ p ∈ chain, tyGiname (resolveTy res p) = none := by
  induction chain with
  | nil => simp [parentWalk]
  | cons p ps ih =>
    cases hp : tyGiname (resolveTy res p) with
    | none => simp [parentWalk, hp, ih]
    | some n => simp [parentWalk, hp]

theorem parentWalk_some (res : Str → Option Str) (chain : List Ty) (t : Ty)
    (h : parentWalk res chain = some t) :
    ∃ pre p post n, chain = pre ++ p :: post ∧ (∀ q ∈ pre, tyGiname (resolveTy res q) = none) ∧
      tyGiname (resolveTy res p) = some n ∧ t = .giname n := by
  induction chain with
  | nil => simp [parentWalk] at h
  | cons p ps ih =>
    cases hp : tyGiname (resolveTy res p) with
    | some n =>
      simp only [parentWalk, hp, Option.some.injEq] at h
      exact ⟨[], p, ps, n, rfl, by simp, hp, h.symm⟩
    | none =>
      simp only [parentWalk, hp] at h
      obtain ⟨pre, q, post, n, hc, hpre, hq, ht⟩ := ih h
      refine ⟨p :: pre, q, post, n, by simp [hc], ?_, hq, ht⟩
      intro r hr
      rcases List.mem_cons.mp hr with rfl | hr
      · exact hp
      · exact hpre r hr

/-! ### `_resolve_and_filter_type_list` -/

theorem tyEq_resolved_unresolved (p : Ty) (g : Str) (h : tyResolved p = true) : tyEq p (.gtype g) = false := by
  cases p <;> simp_all [tyEq, tyFund, tyGiname, tyResolved]

theorem tyEq_gtype_self (g : Str) : tyEq (.gtype g) (.gtype g) = true := by
  simp [tyEq, tyFund, tyGiname, tyCtype]

theorem removeFirst_prefix (pre ts : List Ty) (g : Str) (h : ∀ p ∈ pre, tyResolved p = true) :
    removeFirst (.gtype g) (pre ++ .gtype g :: ts) = pre ++ ts := by
  induction pre with
  | nil => simp [removeFirst, tyEq_gtype_self]
  | cons p ps ih =>
    have hp := tyEq_resolved_unresolved p g (h p (by simp))
    simp only [List.cons_append, removeFirst, hp, Bool.false_eq_true, if_false]
    rw [ih (fun q hq => h q (by simp [hq]))]

theorem replaceFirst_self (t : Ty) (l : List Ty) : replaceFirst t t l = l := by
  induction l with
  | nil => rfl
  | cons a as ih =>
    simp only [replaceFirst]
    split
    · next h => rw [h]
    · rw [ih]

theorem replaceFirst_prefix (pre ts : List Ty) (g : Str) (b : Ty) (h : ∀ p ∈ pre, tyResolved p = true) :
    replaceFirst (.gtype g) b (pre ++ .gtype g :: ts) = pre ++ b :: ts := by
  induction pre with
  | nil => simp [replaceFirst]
  | cons p ps ih =>
    have hp : p ≠ .gtype g := by
      intro e
      have := h p (by simp)
      rw [e] at this
      simp [tyResolved] at this
    simp only [List.cons_append, replaceFirst, hp, if_false]
    rw [ih (fun q hq => h q (by simp [hq]))]

theorem resolveTy_resolved_of_resolved (res : Str → Option Str) (t : Ty) (h : tyResolved t = true) :
    resolveTy res t = t := by
  cases t <;> simp_all [resolveTy, tyResolved]

/-- the loop invariant: the copy is (what was kept so far) ++ (what is still to visit) -/
theorem filterLoop_inv (res : Str → Option Str) (todo pre : List Ty) (h : ∀ p ∈ pre, tyResolved p = true) :
    filterLoop res todo (pre ++ todo) = pre ++ (todo.map (resolveTy res)).filter tyResolved := by
  induction todo generalizing pre with
  | nil => simp [filterLoop]
  | cons t ts ih =>
    simp only [filterLoop]
    cases ht : tyResolved (resolveTy res t) with
    | true =>
      simp only [if_true, List.map_cons, List.filter_cons, ht]
      have hrep : replaceFirst t (resolveTy res t) (pre ++ t :: ts) = pre ++ resolveTy res t :: ts := by
        cases t with
        | gtype g => exact replaceFirst_prefix pre ts g _ h
        | fund n c => simp [resolveTy, replaceFirst_self]
        | giname n => simp [resolveTy, replaceFirst_self]
        | container k a e => simp [resolveTy, replaceFirst_self]
      rw [hrep]
      have := ih (pre ++ [resolveTy res t]) (by
        intro p hp
        rcases List.mem_append.mp hp with hp | hp
        · exact h p hp
        · simp only [List.mem_singleton] at hp; rw [hp]; exact ht)
      simpa using this
    | false =>
      simp only [Bool.false_eq_true, if_false, List.map_cons, List.filter_cons, ht]
      cases t with
      | gtype g =>
        have hr : resolveTy res (.gtype g) = .gtype g := by
          simp only [resolveTy] at ht ⊢
          split at ht
          · simp [tyResolved] at ht
          · rfl
        rw [hr, removeFirst_prefix pre ts g h]
        exact ih pre h
      | fund n c => simp [resolveTy, tyResolved] at ht
      | giname n => simp [resolveTy, tyResolved] at ht
      | container k a e => simp [resolveTy, tyResolved] at ht

end GIVerif.Dump

namespace GIVerif.Dump
open GIVerif.Py

/-! ### `_find_class_record`: the two links -/

def tsOf (ns : NS) (c : Str) : Option Str := (nsGet ns c).bind (·.typeStruct)
def sfOf (ns : NS) (r : Str) : Option Str := (nsGet ns r).bind (·.gtypeStructFor)
def hasName (ns : NS) (x : Str) : Prop := (nsGet ns x).isSome = true

instance (ns : NS) (x : Str) : Decidable (hasName ns x) := by unfold hasName; infer_instance

def linkF (c r : Str) (n : Node) : Node :=
  if n.name == c then { n with typeStruct := some r }
  else if n.name == r then { n with gtypeStructFor := some c }
  else n

theorem linkF_name (c r : Str) (n : Node) : (linkF c r n).name = n.name := by
  unfold linkF; split
  · rfl
  · split <;> rfl

theorem linkOne_eq (ns : NS) (c r : Str) : linkOne ns c r = ns.map (linkF c r) := rfl

theorem nsGet_name {ns : NS} {x : Str} {n : Node} (h : nsGet ns x = some n) : n.name = x := by
  have := List.find?_some h
  simpa using this

theorem nsGet_linkOne (ns : NS) (c r x : Str) :
    nsGet (linkOne ns c r) x = (nsGet ns x).map (linkF c r) := by
  unfold nsGet
  rw [linkOne_eq, List.find?_map]
  have : ((fun n : Node => n.name == x) ∘ linkF c r) = (fun n : Node => n.name == x) := by
    funext n; simp [Function.comp, linkF_name]
  rw [this]

theorem hasName_linkOne (ns : NS) (c r x : Str) : hasName (linkOne ns c r) x ↔ hasName ns x := by
  unfold hasName; rw [nsGet_linkOne]; simp

theorem tsOf_linkOne (ns : NS) (c r x : Str) (hc : hasName ns c) :
    tsOf (linkOne ns c r) x = if x = c then some r else tsOf ns x := by
  unfold tsOf; rw [nsGet_linkOne]
  cases h : nsGet ns x with
  | none =>
    have : x ≠ c := by
      intro e; subst e; unfold hasName at hc; rw [h] at hc; simp at hc
    simp [this]
  | some n =>
    have hn := nsGet_name h
    simp only [Option.map_some, Option.bind_some]
    by_cases e : x = c
    · subst e; simp [linkF, hn]
    · have : (n.name == c) = false := by simp [hn, e]
      simp only [linkF, this, Bool.false_eq_true, if_false, e]
      split <;> rfl

theorem sfOf_linkOne (ns : NS) (c r x : Str) (hr : hasName ns r) (hcr : c ≠ r) :
    sfOf (linkOne ns c r) x = if x = r then some c else sfOf ns x := by
  unfold sfOf; rw [nsGet_linkOne]
  cases h : nsGet ns x with
  | none =>
    have : x ≠ r := by
      intro e; subst e; unfold hasName at hr; rw [h] at hr; simp at hr
    simp [this]
  | some n =>
    have hn := nsGet_name h
    simp only [Option.map_some, Option.bind_some]
    by_cases e : x = r
    · subst e
      have h1 : (n.name == c) = false := by
        rw [hn]; exact beq_eq_false_iff_ne.mpr (fun e => hcr e.symm)
      have h2 : (n.name == x) = true := by rw [hn]; exact beq_self_eq_true x
      simp only [linkF, h1, h2, Bool.false_eq_true, if_false, if_true]
    · have h2 : (n.name == r) = false := by simp [hn, e]
      simp only [linkF, h2, Bool.false_eq_true, if_false, e]
      split <;> rfl

/-- conditions on the list of (class, structure) pairs: both exist, no class is paired twice,
    no structure serves two classes, no class is also a structure -/
structure PairsOK (ns : NS) (pairs : List (Str × Str)) : Prop where
  names : ∀ p ∈ pairs, hasName ns p.1 ∧ hasName ns p.2
  fstNodup : (pairs.map (·.1)).Nodup
  sndNodup : (pairs.map (·.2)).Nodup
  disjoint : ∀ p ∈ pairs, ∀ q ∈ pairs, p.1 ≠ q.2

theorem PairsOK.tail {ns : NS} {p : Str × Str} {ps : List (Str × Str)} (h : PairsOK ns (p :: ps)) :
    PairsOK (linkOne ns p.1 p.2) ps where
  names := fun q hq => by
    have := h.names q (by simp [hq])
    exact ⟨(hasName_linkOne ..).mpr this.1, (hasName_linkOne ..).mpr this.2⟩
  fstNodup := by have := h.fstNodup; simp only [List.map_cons, List.nodup_cons] at this; exact this.2
  sndNodup := by have := h.sndNodup; simp only [List.map_cons, List.nodup_cons] at this; exact this.2
  disjoint := fun a ha b hb => h.disjoint a (by simp [ha]) b (by simp [hb])

theorem foldl_links (pairs : List (Str × Str)) (ns : NS) (h : PairsOK ns pairs)
    (hts : ∀ p ∈ pairs, tsOf ns p.1 = none) (hsf : ∀ p ∈ pairs, sfOf ns p.2 = none) :
    let final := pairs.foldl (fun acc p => linkOne acc p.1 p.2) ns
    (∀ x y, tsOf final x = some y ↔ (tsOf ns x = some y ∨ (x, y) ∈ pairs)) ∧
    (∀ x y, sfOf final y = some x ↔ (sfOf ns y = some x ∨ (x, y) ∈ pairs)) := by
  induction pairs generalizing ns with
  | nil => simp
  | cons p ps ih =>
    obtain ⟨c, r⟩ := p
    have hn := h.names (c, r) (by simp)
    have hcr : c ≠ r := h.disjoint (c, r) (by simp) (c, r) (by simp)
    have hfst := h.fstNodup
    have hsnd := h.sndNodup
    simp only [List.map_cons, List.nodup_cons, List.mem_map, not_exists, not_and] at hfst hsnd
    have ih' := ih (linkOne ns c r) h.tail
      (by intro q hq
          rw [tsOf_linkOne ns c r q.1 hn.1]
          have : q.1 ≠ c := fun e => hfst.1 q hq e
          simp only [this, if_false]
          exact hts q (by simp [hq]))
      (by intro q hq
          rw [sfOf_linkOne ns c r q.2 hn.2 hcr]
          have : q.2 ≠ r := fun e => hsnd.1 q hq e
          simp only [this, if_false]
          exact hsf q (by simp [hq]))
    simp only [List.foldl_cons]
    refine ⟨?_, ?_⟩
    · intro x y
      rw [ih'.1 x y, tsOf_linkOne ns c r x hn.1]
      have hc0 := hts (c, r) (by simp)
      by_cases e : x = c
      · subst e
        simp only [if_true, Option.some.injEq, List.mem_cons, Prod.mk.injEq, true_and]
        simp only [hc0] at *
        constructor
        · rintro (h1 | h1)
          · exact Or.inr (Or.inl h1.symm)
          · exact Or.inr (Or.inr h1)
        · rintro (h1 | h1 | h1)
          · cases h1
          · exact Or.inl h1.symm
          · exact Or.inr h1
      · simp only [e, if_false, List.mem_cons, Prod.mk.injEq, false_and, false_or]
    · intro x y
      rw [ih'.2 x y, sfOf_linkOne ns c r y hn.2 hcr]
      have hr0 := hsf (c, r) (by simp)
      by_cases e : y = r
      · subst e
        simp only [if_true, Option.some.injEq, List.mem_cons, Prod.mk.injEq, and_true]
        simp only [hr0] at *
        constructor
        · rintro (h1 | h1)
          · exact Or.inr (Or.inl h1.symm)
          · exact Or.inr (Or.inr h1)
        · rintro (h1 | h1 | h1)
          · cases h1
          · exact Or.inl h1.symm
          · exact Or.inr h1
      · simp only [e, if_false, List.mem_cons, Prod.mk.injEq, and_false, false_or]

end GIVerif.Dump

namespace GIVerif.Dump
open GIVerif.Py

/-! ### get-type removal -/

theorem getTypeFunctionNames_mem (env : Env) (ns : NS) (names : List Str)
    (h : getTypeFunctionNames env ns = .ok names) (m : Node) (hm : m ∈ ns) (hr : isRegistered m = true)
    (g nm : Str) (hg : m.getType = some g) (hi : g ≠ ['i', 'n', 't', 'e', 'r', 'n'])
    (hs : splitCSymbol env g = some nm) : nm ∈ names := by
  induction ns generalizing names with
  | nil => cases hm
  | cons n rest ih =>
    unfold getTypeFunctionNames at h
    rcases List.mem_cons.mp hm with rfl | hm'
    · simp only [hr, if_true, hg] at h
      have : (g == ['i', 'n', 't', 'e', 'r', 'n']) = false := beq_eq_false_iff_ne.mpr hi
      simp only [this, Bool.false_eq_true, if_false, hs] at h
      cases hrest : getTypeFunctionNames env rest with
      | error e => rw [hrest] at h; cases h
      | ok l =>
        rw [hrest] at h
        cases h
        simp
    · by_cases hreg : isRegistered n = true
      · simp only [hreg, if_true] at h
        cases hgt : n.getType with
        | none => rw [hgt] at h; exact ih names h hm'
        | some g' =>
          rw [hgt] at h
          simp only at h
          by_cases hin : (g' == ['i', 'n', 't', 'e', 'r', 'n']) = true
          · simp only [hin, if_true] at h; exact ih names h hm'
          · simp only [hin, Bool.false_eq_true, if_false] at h
            cases hsp : splitCSymbol env g' with
            | none => rw [hsp] at h; cases h
            | some nm' =>
              rw [hsp] at h
              cases hrest : getTypeFunctionNames env rest with
              | error e => rw [hrest] at h; cases h
              | ok l =>
                rw [hrest] at h
                cases h
                exact List.mem_cons_of_mem _ (ih l hrest hm')
      · simp only [hreg, Bool.false_eq_true, if_false] at h
        exact ih names h hm'

theorem removeGetTypes_ok (env : Env) (ns ns' : NS) (h : removeGetTypes env ns = .ok ns') :
    ∃ names, getTypeFunctionNames env ns = .ok names ∧ ns' = ns.filter (fun n => !names.contains n.name) ∧
      ∀ nm ∈ names, ∃ f, nsGet ns nm = some f ∧ (f.kind = .func ∨ f.kind = .quark) := by
  unfold removeGetTypes at h
  cases hn : getTypeFunctionNames env ns with
  | error e => rw [hn] at h; cases h
  | ok names =>
    rw [hn] at h
    simp only [bind, Except.bind] at h
    split at h
    · cases h
    · rename_i hany
      split at h
      · cases h
      · cases h
        refine ⟨names, rfl, rfl, ?_⟩
        intro nm hnm
        have := hany
        simp only [List.any_eq_true, not_exists, not_and] at this
        have h1 := this nm hnm
        cases hg : nsGet ns nm with
        | none => simp [hg] at h1
        | some f =>
          refine ⟨f, rfl, ?_⟩
          simp only [hg, Bool.not_eq_true', Bool.not_eq_false, Bool.or_eq_true, beq_iff_eq] at h1
          exact h1

/-! ### `_split_uscored_by_type`: the candidates -/

theorem uscoreCutsAux_decomp (acc s : Str) (p rest : Str) (h : (p, rest) ∈ uscoreCutsAux acc s) :
    acc.reverse ++ s = p ++ '_' :: rest ∨ (acc.reverse ++ s = p ∧ rest = []) := by
  induction s generalizing acc with
  | nil =>
    simp only [uscoreCutsAux, List.mem_singleton, Prod.mk.injEq] at h
    right; simp [h.1, h.2]
  | cons c cs ih =>
    unfold uscoreCutsAux at h
    by_cases hc : c = '_'
    · simp only [hc, if_true, List.mem_cons, Prod.mk.injEq] at h
      rcases h with ⟨rfl, rfl⟩ | h
      · left; simp [hc]
      · have := ih ('_' :: acc) h
        simpa [hc] using this
    · simp only [hc, if_false] at h
      have := ih (c :: acc) h
      simpa using this

theorem uscoreCutsAux_lengths (acc s : Str) :
    (uscoreCutsAux acc s).Pairwise (fun a b => a.1.length < b.1.length) ∧
    ∀ a ∈ uscoreCutsAux acc s, acc.length ≤ a.1.length := by
  induction s generalizing acc with
  | nil => simp [uscoreCutsAux]
  | cons c cs ih =>
    unfold uscoreCutsAux
    by_cases hc : c = '_'
    · simp only [hc, if_true, List.pairwise_cons, List.mem_cons, forall_eq_or_imp, List.length_reverse]
      have := ih ('_' :: acc)
      refine ⟨⟨fun a ha => ?_, this.1⟩, Nat.le_refl _, fun a ha => ?_⟩
      · have := this.2 a ha; simp at this; omega
      · have := this.2 a ha; simp at this; omega
    · simp only [hc, if_false]
      have := ih (c :: acc)
      refine ⟨this.1, fun a ha => ?_⟩
      have := this.2 a ha; simp at this; omega

end GIVerif.Dump

namespace GIVerif.Dump
open GIVerif.Py

/-! ### error domains -/

def edF (dom : Option Str) (n : Node) : Node := if n.kind == .enum then { n with errorDomain := dom } else n

theorem edF_name (dom : Option Str) (n : Node) : (edF dom n).name = n.name := by
  unfold edF; split <;> rfl

theorem nsGet_setErrorDomain (ns : NS) (t : Str) (dom : Option Str) (x : Str) :
    nsGet (setErrorDomain ns t dom) x = (nsGet ns x).map (fun n => if n.name == t then edF dom n else n) := by
  unfold nsGet setErrorDomain nsUpdate
  rw [List.find?_map]
  have : ((fun n : Node => n.name == x) ∘ fun n => if (n.name == t) = true then
      (fun n => if n.kind == .enum then { n with errorDomain := dom } else n) n else n)
      = (fun n : Node => n.name == x) := by
    funext n
    simp only [Function.comp]
    split
    · split <;> rfl
    · rfl
  rw [this]
  rfl

theorem nsGet_setErrorDomain_ne (ns : NS) (t : Str) (dom : Option Str) (x : Str) (h : x ≠ t) :
    nsGet (setErrorDomain ns t dom) x = nsGet ns x := by
  rw [nsGet_setErrorDomain]
  cases hg : nsGet ns x with
  | none => rfl
  | some n =>
    have hn := nsGet_name hg
    have : (n.name == t) = false := by rw [hn]; exact beq_eq_false_iff_ne.mpr h
    simp only [Option.map_some, this, Bool.false_eq_true, if_false]

theorem nsGet_setErrorDomain_eq (ns : NS) (t : Str) (dom : Option Str) (n : Node)
    (hg : nsGet ns t = some n) (hk : n.kind = .enum) :
    nsGet (setErrorDomain ns t dom) t = some { n with errorDomain := dom } := by
  rw [nsGet_setErrorDomain, hg]
  have hn := nsGet_name hg
  simp [hn, edF, hk]

/-- quark functions whose target is another node leave node `e` alone -/
theorem pairQuarksLoop_frame (env : Env) (reg : List (Str × Node)) (ns0 : NS) (e : Str)
    (qs : List Node) (acc res : NS) (h : pairQuarksLoop env reg ns0 qs acc = .ok res)
    (hne : ∀ q ∈ qs, q.kind = .quark → ∀ t, quarkTarget env reg ns0 q = .ok (some t) → t.name ≠ e) :
    nsGet res e = nsGet acc e := by
  induction qs generalizing acc with
  | nil => simp only [pairQuarksLoop, pure, Except.pure] at h; cases h; rfl
  | cons q qs ih =>
    unfold pairQuarksLoop at h
    by_cases hk : q.kind = .quark
    · simp only [hk, beq_self_eq_true, if_true, bind, Except.bind] at h
      cases ht : quarkTarget env reg ns0 q with
      | error err => rw [ht] at h; cases h
      | ok o =>
        rw [ht] at h
        cases o with
        | none =>
          simp only at h
          exact ih acc h (fun q' hq' => hne q' (by simp [hq']))
        | some t =>
          simp only at h
          have := ih _ h (fun q' hq' => hne q' (by simp [hq']))
          rw [this]
          exact nsGet_setErrorDomain_ne acc t.name q.errorDomain e (fun e' => hne q (by simp) hk t ht e'.symm)
    · have : (q.kind == Kind.quark) = false := beq_eq_false_iff_ne.mpr hk
      simp only [this, Bool.false_eq_true, if_false] at h
      exact ih acc h (fun q' hq' => hne q' (by simp [hq']))

/-- where the pairing loop puts each error-quark function: it stays in the namespace unless a
    class owns it, then it is among the floated ones; nothing is lost, nothing is invented -/
theorem floatQuarks_mem (env : Env) (reg : List (Str × Node)) (ns : NS) (r : NS × List Node)
    (h : floatQuarks env reg ns = .ok r) (q : Node) (hk : q.kind = .quark) :
    (q ∈ r.1 ↔ (q ∈ ns ∧ quarkFloated env reg q = .ok false)) ∧
    (q ∈ r.2 ↔ (q ∈ ns ∧ quarkFloated env reg q = .ok true)) := by
  induction ns generalizing r with
  | nil => simp only [floatQuarks, pure, Except.pure] at h; cases h; simp
  | cons n rest ih =>
    unfold floatQuarks at h
    simp only [bind, Except.bind] at h
    cases hr : floatQuarks env reg rest with
    | error e => rw [hr] at h; cases h
    | ok r' =>
      rw [hr] at h
      simp only at h
      have ih' := ih r' hr
      by_cases hnk : n.kind = .quark
      · simp only [hnk, beq_self_eq_true, if_true] at h
        split at h
        · cases h
        · cases hf : quarkFloated env reg n with
          | error e => rw [hf] at h; cases h
          | ok b =>
            rw [hf] at h
            cases b with
            | true =>
              simp only [if_true, pure, Except.pure] at h
              cases h
              simp only [List.mem_cons, ih'.1, ih'.2]
              refine ⟨?_, ?_⟩
              · constructor
                · rintro ⟨h1, h2⟩; exact ⟨Or.inr h1, h2⟩
                · rintro ⟨rfl | h1, h2⟩
                  · rw [hf] at h2; cases h2
                  · exact ⟨h1, h2⟩
              · constructor
                · rintro (rfl | ⟨h1, h2⟩)
                  · exact ⟨Or.inl rfl, hf⟩
                  · exact ⟨Or.inr h1, h2⟩
                · rintro ⟨rfl | h1, h2⟩
                  · exact Or.inl rfl
                  · exact Or.inr ⟨h1, h2⟩
            | false =>
              simp only [Bool.false_eq_true, if_false, pure, Except.pure] at h
              cases h
              simp only [List.mem_cons, ih'.1, ih'.2]
              refine ⟨?_, ?_⟩
              · constructor
                · rintro (rfl | ⟨h1, h2⟩)
                  · exact ⟨Or.inl rfl, hf⟩
                  · exact ⟨Or.inr h1, h2⟩
                · rintro ⟨rfl | h1, h2⟩
                  · exact Or.inl rfl
                  · exact Or.inr ⟨h1, h2⟩
              · constructor
                · rintro ⟨h1, h2⟩; exact ⟨Or.inr h1, h2⟩
                · rintro ⟨rfl | h1, h2⟩
                  · rw [hf] at h2; cases h2
                  · exact ⟨h1, h2⟩
      · have : (n.kind == Kind.quark) = false := beq_eq_false_iff_ne.mpr hnk
        simp only [this, Bool.false_eq_true, if_false, pure, Except.pure] at h
        cases h
        simp only [List.mem_cons, ih'.1, ih'.2]
        refine ⟨?_, ?_⟩
        · constructor
          · rintro (rfl | ⟨h1, h2⟩)
            · exact absurd hk hnk
            · exact ⟨Or.inr h1, h2⟩
          · rintro ⟨rfl | h1, h2⟩
            · exact absurd hk hnk
            · exact Or.inr ⟨h1, h2⟩
        · constructor
          · rintro ⟨h1, h2⟩; exact ⟨Or.inr h1, h2⟩
          · rintro ⟨rfl | h1, h2⟩
            · exact absurd hk hnk
            · exact ⟨h1, h2⟩

/-- a successful pairing loop decided `quarkFloated` for every error-quark function -/
theorem floatQuarks_decided (env : Env) (reg : List (Str × Node)) (ns : NS) (r : NS × List Node)
    (h : floatQuarks env reg ns = .ok r) (q : Node) (hq : q ∈ ns) (hk : q.kind = .quark) :
    ∃ b, quarkFloated env reg q = .ok b := by
  induction ns generalizing r with
  | nil => cases hq
  | cons n rest ih =>
    unfold floatQuarks at h
    simp only [bind, Except.bind] at h
    cases hr : floatQuarks env reg rest with
    | error e => rw [hr] at h; cases h
    | ok r' =>
      rw [hr] at h
      simp only at h
      rcases List.mem_cons.mp hq with rfl | hq'
      · simp only [hk, beq_self_eq_true, if_true] at h
        split at h
        · cases h
        · cases hf : quarkFloated env reg q with
          | error e => rw [hf] at h; cases h
          | ok b => exact ⟨b, rfl⟩
      · exact ih r' hr hq'

/-- only error-quark functions are floated -/
theorem floatQuarks_floated_kind (env : Env) (reg : List (Str × Node)) (ns : NS) (r : NS × List Node)
    (h : floatQuarks env reg ns = .ok r) (q : Node) (hq : q ∈ r.2) : q.kind = .quark := by
  induction ns generalizing r with
  | nil => simp only [floatQuarks, pure, Except.pure] at h; cases h; cases hq
  | cons n rest ih =>
    unfold floatQuarks at h
    simp only [bind, Except.bind] at h
    cases hr : floatQuarks env reg rest with
    | error e => rw [hr] at h; cases h
    | ok r' =>
      rw [hr] at h
      simp only at h
      by_cases hnk : n.kind = .quark
      · simp only [hnk, beq_self_eq_true, if_true] at h
        split at h
        · cases h
        · cases hf : quarkFloated env reg n with
          | error e => rw [hf] at h; cases h
          | ok b =>
            rw [hf] at h
            cases b with
            | true =>
              simp only [if_true, pure, Except.pure] at h
              cases h
              rcases List.mem_cons.mp hq with rfl | hq'
              · exact hnk
              · exact ih r' hr hq'
            | false =>
              simp only [Bool.false_eq_true, if_false, pure, Except.pure] at h
              cases h
              exact ih r' hr hq
      · have : (n.kind == Kind.quark) = false := beq_eq_false_iff_ne.mpr hnk
        simp only [this, Bool.false_eq_true, if_false, pure, Except.pure] at h
        cases h
        exact ih r' hr hq

/-- the error-domain loop when every function that names node `x` reports the same domain `d`:
    `x` ends up with `d`, or no function named it and it is untouched -/
theorem pairQuarksLoop_agree (env : Env) (reg : List (Str × Node)) (ns0 : NS) (x : Str) (d : Option Str)
    (qs : List Node) (acc res : NS) (n : Node)
    (h : pairQuarksLoop env reg ns0 qs acc = .ok res)
    (hn : nsGet acc x = some n) (hk : n.kind = .enum)
    (hagree : ∀ q ∈ qs, q.kind = .quark → ∀ t, quarkTarget env reg ns0 q = .ok (some t) → t.name = x →
      q.errorDomain = d) :
    nsGet res x = some { n with errorDomain := d } ∨
    (nsGet res x = some n ∧
      ∀ q ∈ qs, q.kind = .quark → ∀ t, quarkTarget env reg ns0 q = .ok (some t) → t.name ≠ x) := by
  induction qs generalizing acc n with
  | nil =>
    simp only [pairQuarksLoop, pure, Except.pure] at h
    cases h
    exact Or.inr ⟨hn, fun q hq => by cases hq⟩
  | cons q qs ih =>
    unfold pairQuarksLoop at h
    have hag' : ∀ q' ∈ qs, q'.kind = .quark → ∀ t, quarkTarget env reg ns0 q' = .ok (some t) → t.name = x →
        q'.errorDomain = d := fun q' hq' => hagree q' (by simp [hq'])
    by_cases hqk : q.kind = .quark
    · simp only [hqk, beq_self_eq_true, if_true, bind, Except.bind] at h
      cases ht : quarkTarget env reg ns0 q with
      | error err => rw [ht] at h; cases h
      | ok o =>
        rw [ht] at h
        cases o with
        | none =>
          simp only at h
          rcases ih acc n h hn hk hag' with h1 | ⟨h1, h2⟩
          · exact Or.inl h1
          · refine Or.inr ⟨h1, ?_⟩
            intro q' hq' hk' t' ht'
            rcases List.mem_cons.mp hq' with rfl | hq''
            · rw [ht] at ht'; cases ht'
            · exact h2 q' hq'' hk' t' ht'
        | some t =>
          simp only at h
          by_cases hx : t.name = x
          · have hd : q.errorDomain = d := hagree q (by simp) hqk t ht hx
            have hn' : nsGet (setErrorDomain acc t.name q.errorDomain) x = some { n with errorDomain := d } := by
              rw [hx, hd]
              exact nsGet_setErrorDomain_eq acc x d n hn hk
            rcases ih _ { n with errorDomain := d } h hn' hk hag' with h1 | ⟨h1, _⟩
            · exact Or.inl h1
            · exact Or.inl h1
          · have hn' : nsGet (setErrorDomain acc t.name q.errorDomain) x = some n := by
              rw [nsGet_setErrorDomain_ne acc t.name q.errorDomain x (fun e => hx e.symm)]
              exact hn
            rcases ih _ n h hn' hk hag' with h1 | ⟨h1, h2⟩
            · exact Or.inl h1
            · refine Or.inr ⟨h1, ?_⟩
              intro q' hq' hk' t' ht'
              rcases List.mem_cons.mp hq' with rfl | hq''
              · rw [ht] at ht'; cases ht'; exact hx
              · exact h2 q' hq'' hk' t' ht'
    · have : (q.kind == Kind.quark) = false := beq_eq_false_iff_ne.mpr hqk
      simp only [this, Bool.false_eq_true, if_false] at h
      rcases ih acc n h hn hk hag' with h1 | ⟨h1, h2⟩
      · exact Or.inl h1
      · refine Or.inr ⟨h1, ?_⟩
        intro q' hq' hk' t' ht'
        rcases List.mem_cons.mp hq' with rfl | hq''
        · exact absurd hk' hqk
        · exact h2 q' hq'' hk' t' ht'

/-! ### passes that only touch classes and interfaces leave the error-quark functions alone -/

theorem isClassLike_quark {q : Node} (hk : q.kind = .quark) : isClassLike q = false := by
  simp [isClassLike, hk]

theorem resolveNode_kind (res : Str → Option Str) (a : Node) : (resolveNode res a).kind = a.kind := by
  unfold resolveNode; split <;> rfl

theorem resolveNode_other (res : Str → Option Str) (a : Node) (h : isClassLike a = false) : resolveNode res a = a := by
  unfold resolveNode; simp [h]

theorem mem_map_quark (f : Node → Node) (hkind : ∀ a, (f a).kind = a.kind)
    (hid : ∀ a, isClassLike a = false → f a = a) (l : List Node) (q : Node) (hk : q.kind = .quark) :
    q ∈ l.map f ↔ q ∈ l := by
  rw [List.mem_map]
  constructor
  · rintro ⟨a, ha, rfl⟩
    have hak : a.kind = .quark := by rw [← hkind a]; exact hk
    rw [hid a (isClassLike_quark hak)]
    exact ha
  · intro hq
    exact ⟨q, hq, hid q (isClassLike_quark hk)⟩

theorem mem_resolvePass_quark (env : Env) (ns : NS) (q : Node) (hk : q.kind = .quark) :
    q ∈ resolvePass env ns ↔ q ∈ ns :=
  mem_map_quark _ (resolveNode_kind _) (resolveNode_other _) ns q hk

theorem mem_pairVirtuals_quark (env : Env) (ns : NS) (q : Node) (hk : q.kind = .quark) :
    q ∈ pairVirtuals env ns ↔ q ∈ ns := by
  unfold pairVirtuals
  apply mem_map_quark _ _ _ ns q hk
  · intro a; split <;> rfl
  · intro a h; simp [h]

/-- what a successful `merge` consists of -/
theorem merge_ok (env : Env) (ns : NS) (dump : List DItem) (m : Merged) (h : merge env ns dump = .ok m) :
    ∃ fl : NS × List Node,
      m.reg = uscoreTypeNames (resolvePass env m.afterParse) ∧
      floatQuarks env m.reg (resolvePass env m.afterParse) = .ok fl ∧
      m.paired = pairVirtuals env fl.1 ∧ m.floated = fl.2 ∧
      pairQuarksLoop env m.reg m.paired (m.paired ++ m.floated) m.paired = .ok m.final := by
  unfold merge at h
  simp only [bind, Except.bind] at h
  cases hp : parseDump env ns dump with
  | error e => rw [hp] at h; cases h
  | ok p =>
    rw [hp] at h
    obtain ⟨ns1, priv⟩ := p
    simp only at h
    cases hf : floatQuarks env (uscoreTypeNames (resolvePass env ns1)) (resolvePass env ns1) with
    | error e => rw [hf] at h; cases h
    | ok fl =>
      rw [hf] at h
      simp only at h
      cases hq : pairQuarksWithEnums env (uscoreTypeNames (resolvePass env ns1)) (pairVirtuals env fl.1) fl.2 with
      | error e => rw [hq] at h; cases h
      | ok ns5 =>
        rw [hq] at h
        simp only [pure, Except.pure] at h
        cases h
        exact ⟨fl, rfl, hf, rfl, rfl, hq⟩

end GIVerif.Dump

namespace GIVerif.Dump
open GIVerif.Py

theorem fresh_of_all (ns : NS) (h : ∀ n ∈ ns, n.typeStruct = none ∧ n.gtypeStructFor = none) (x : Str) :
    tsOf ns x = none ∧ sfOf ns x = none := by
  unfold tsOf sfOf
  cases hg : nsGet ns x with
  | none => simp
  | some n =>
    have := h n (List.mem_of_find?_eq_some hg)
    simp [this.1, this.2]

end GIVerif.Dump

/-! ### the (class, structure) pairs of a namespace with unique names satisfy `PairsOK` -/

namespace GIVerif.Dump
open GIVerif.Py

theorem nsGet_self_of_nodup (ns : NS) (hnd : (ns.map (·.name)).Nodup) (c : Node) (hc : c ∈ ns) :
    nsGet ns c.name = some c := by
  induction ns with
  | nil => cases hc
  | cons a rest ih =>
    simp only [List.map_cons, List.nodup_cons] at hnd
    unfold nsGet
    rcases List.mem_cons.mp hc with rfl | hc'
    · simp [List.find?]
    · have hne : a.name ≠ c.name := by
        intro e
        apply hnd.1
        rw [e]
        exact List.mem_map_of_mem hc'
      have : (a.name == c.name) = false := beq_eq_false_iff_ne.mpr hne
      simp only [List.find?, this]
      exact ih hnd.2 hc'

def structSuffixes : List Str := [['C', 'l', 'a', 's', 's'], ['I', 'f', 'a', 'c', 'e'], ['I', 'n', 't', 'e', 'r', 'f', 'a', 'c', 'e']]

theorem suffix_inj (a b s t : Str) (hs : s ∈ structSuffixes) (ht : t ∈ structSuffixes) (h : a ++ s = b ++ t) : a = b := by
  have hr := congrArg List.reverse h
  simp only [List.reverse_append] at hr
  simp only [structSuffixes, List.mem_cons, List.not_mem_nil, or_false] at hs ht
  rcases hs with rfl | rfl | rfl <;> rcases ht with rfl | rfl | rfl
  all_goals first
    | exact List.append_cancel_right h
    | (simp at hr)


theorem recordNamed_some {ns : NS} {nm r : Str} (h : recordNamed ns nm = some (some r)) :
    r = nm ∧ ∃ rec, nsGet ns r = some rec ∧ rec.kind = .record := by
  unfold recordNamed at h
  cases hg : nsGet ns nm with
  | none => rw [hg] at h; cases h
  | some rec =>
    rw [hg] at h
    simp only [Option.some.injEq] at h
    by_cases hk : rec.kind = .record
    · simp only [hk, beq_self_eq_true, if_true, Option.some.injEq] at h
      have hn := nsGet_name hg
      have : r = nm := by rw [← h, hn]
      subst this
      exact ⟨rfl, rec, hg, hk⟩
    · have : (rec.kind == Kind.record) = false := beq_eq_false_iff_ne.mpr hk
      simp [this] at h

theorem join_some {o : Option (Option Str)} {r : Str} (h : o.join = some r) : o = some (some r) := by
  cases o with
  | none => cases h
  | some x => have : x = some r := by simpa [Option.join] using h
              rw [this]

theorem classRecordName_some {ns : NS} {c : Node} {r : Str} (h : classRecordName ns c = some r) :
    (∃ s ∈ structSuffixes, r = c.name ++ s) ∧ ∃ rec, nsGet ns r = some rec ∧ rec.kind = .record := by
  unfold classRecordName at h
  by_cases hc : c.kind = .cls
  · simp only [hc, beq_self_eq_true, if_true] at h
    obtain ⟨h1, h2⟩ := recordNamed_some (join_some h)
    exact ⟨⟨_, by simp [structSuffixes], h1⟩, h2⟩
  · have : (c.kind == Kind.cls) = false := beq_eq_false_iff_ne.mpr hc
    simp only [this, Bool.false_eq_true, if_false] at h
    cases hi : recordNamed ns (c.name ++ ['I', 'f', 'a', 'c', 'e']) with
    | some o =>
      rw [hi] at h
      simp only at h
      subst h
      obtain ⟨h1, h2⟩ := recordNamed_some hi
      exact ⟨⟨_, by simp [structSuffixes], h1⟩, h2⟩
    | none =>
      rw [hi] at h
      simp only at h
      obtain ⟨h1, h2⟩ := recordNamed_some (join_some h)
      exact ⟨⟨_, by simp [structSuffixes], h1⟩, h2⟩

theorem mem_classPairs {ns : NS} {p : Str × Str} :
    p ∈ classPairs ns ↔ ∃ c ∈ ns, isClassLike c = true ∧ classRecordName ns c = some p.2 ∧ p.1 = c.name := by
  unfold classPairs
  simp only [List.mem_filterMap, List.mem_filter, Option.map_eq_some_iff]
  constructor
  · rintro ⟨c, ⟨hc, hk⟩, r, hr, rfl⟩
    exact ⟨c, hc, hk, hr, rfl⟩
  · rintro ⟨c, hc, hk, hr, hp⟩
    refine ⟨c, ⟨hc, hk⟩, p.2, hr, ?_⟩
    rw [← hp]

theorem classPairs_fst_sublist (ns0 : NS) (l : List Node) :
    (((l.filter isClassLike).filterMap (fun c => (classRecordName ns0 c).map (fun r => (c.name, r)))).map (·.1)).Sublist
      (l.map (·.name)) := by
  induction l with
  | nil => simp
  | cons a rest ih =>
    simp only [List.filter_cons]
    by_cases hk : isClassLike a = true
    · simp only [hk, if_true, List.filterMap_cons]
      cases hr : classRecordName ns0 a with
      | none => simp only [Option.map_none]; exact List.Sublist.cons _ ih
      | some r => simp only [Option.map_some, List.map_cons]; exact List.Sublist.cons_cons _ ih
    · simp only [hk, Bool.false_eq_true, if_false]
      exact List.Sublist.cons _ ih

theorem pairsOK_of_nodup (ns : NS) (hnd : (ns.map (·.name)).Nodup) : PairsOK ns (classPairs ns) := by
  have hfst : ((classPairs ns).map (·.1)).Nodup := (classPairs_fst_sublist ns ns).nodup hnd
  have hinj : ∀ p ∈ classPairs ns, ∀ q ∈ classPairs ns, p.2 = q.2 → p.1 = q.1 := by
    intro p hp q hq he
    obtain ⟨c, _, _, hcr, hcn⟩ := mem_classPairs.mp hp
    obtain ⟨d, _, _, hdr, hdn⟩ := mem_classPairs.mp hq
    obtain ⟨⟨s, hs, hps⟩, _⟩ := classRecordName_some hcr
    obtain ⟨⟨t, ht, hqt⟩, _⟩ := classRecordName_some hdr
    rw [hcn, hdn]
    apply suffix_inj _ _ s t hs ht
    rw [← hps, ← hqt, he]
  refine ⟨?_, hfst, ?_, ?_⟩
  · intro p hp
    obtain ⟨c, hc, _, hcr, hcn⟩ := mem_classPairs.mp hp
    obtain ⟨_, rec, hrec, _⟩ := classRecordName_some hcr
    refine ⟨?_, ?_⟩
    · unfold hasName; rw [hcn, nsGet_self_of_nodup ns hnd c hc]; rfl
    · unfold hasName; rw [hrec]; rfl
  · rw [List.Nodup, List.pairwise_map]
    rw [List.Nodup, List.pairwise_map] at hfst
    refine List.Pairwise.imp_of_mem ?_ hfst
    intro p q hp hq hne he
    exact hne (hinj p hp q hq he)
  · intro p hp q hq he
    obtain ⟨c, hc, hk, _, hcn⟩ := mem_classPairs.mp hp
    obtain ⟨d, _, _, hdr, _⟩ := mem_classPairs.mp hq
    obtain ⟨_, rec, hrec, hreck⟩ := classRecordName_some hdr
    rw [← he, hcn, nsGet_self_of_nodup ns hnd c hc] at hrec
    cases hrec
    simp [isClassLike, hreck] at hk

end GIVerif.Dump
