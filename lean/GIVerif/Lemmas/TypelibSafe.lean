/-
  Lemmas for C06: the decoder reads the file only through `Image.getByte?`.
  * non-interference: bytes beyond `size` cannot influence the result;
  * each read primitive that succeeds has stayed inside the file.
-/
import GIVerif.Lemmas.TypelibStruct

namespace GIVerif.Typelib

theorem getByte?_lt (m : Image) (i : Nat) (h : i < m.size) : m.getByte? i = some (m.byte i) := by
  simp [Image.getByte?, h]

theorem getByte?_ge (m : Image) (i : Nat) (h : m.size ≤ i) : m.getByte? i = none := by
  have : ¬ i < m.size := by omega
  simp [Image.getByte?, this]

theorem getByte?_isSome (m : Image) (i b : Nat) (h : m.getByte? i = some b) : i < m.size := by
  unfold Image.getByte? at h
  split at h
  · assumption
  · cases h

theorem getByte?_ofList (l : List Nat) : (Image.ofList l).getByte? = listReader l := by
  funext i
  unfold Image.getByte? Image.ofList listReader
  by_cases h : i < l.length
  · simp [h, List.getD_eq_getElem?_getD]
  · simp [h]

/-- two images of the same size that agree below the size have the same checked reader -/
theorem getByte?_congr (m m' : Image) (hs : m.size = m'.size) (hb : ∀ i, i < m.size → m.byte i = m'.byte i) :
    m.getByte? = m'.getByte? := by
  funext i
  unfold Image.getByte?
  by_cases h : i < m.size
  · have h' : i < m'.size := hs ▸ h
    simp [h, h', hb i h]
  · have h' : ¬ i < m'.size := hs ▸ h
    simp [h, h']

/-- a successful bit read stayed inside the file -/
theorem decodeBits?_inside (m : Image) (first w v : Nat) (h : decodeBits? m.getByte? first w = some v)
    (hw : 0 < w) : (first + w - 1) / 8 < m.size := by
  apply Classical.byContradiction
  intro hn
  have := decodeBits?_eq_none m.getByte? first w
    ⟨first + w - 1, by omega, by omega, getByte?_ge m _ (by omega)⟩
  rw [this] at h
  cases h

theorem getF_inside (m : Image) (L : SLayout) (base : Nat) (name : String) (v : Nat)
    (h : getF m.getByte? L base name = .ok v) :
    ∃ f, L.field? name = some f ∧ (f.width = 0 ∨ (8 * base + f.first + f.width - 1) / 8 < m.size) := by
  unfold getF at h
  split at h
  · cases h
  · rename_i f hf
    refine ⟨f, hf, ?_⟩
    split at h
    · cases h
    · rename_i v' hv
      by_cases hw : f.width = 0
      · exact Or.inl hw
      · exact Or.inr (decodeBits?_inside m _ _ v' hv (by omega))

theorem readBytes_inside (m : Image) (off n : Nat) (bs : List Nat) (h : readBytes m.getByte? off n = .ok bs) :
    bs.length = n ∧ off + n ≤ m.size + (if n = 0 then off else 0) := by
  induction n generalizing off bs with
  | zero => simp [readBytes] at h; subst h; simp
  | succ n ih =>
    simp only [readBytes] at h
    split at h
    · cases h
    · rename_i b hb
      have hlt := getByte?_isSome m off b hb
      split at h
      · cases h
      · rename_i bs' hbs
        cases h
        obtain ⟨h1, h2⟩ := ih (off + 1) bs' hbs
        refine ⟨by simp [h1], ?_⟩
        simp only [Nat.add_eq_zero_iff, Nat.one_ne_zero, and_false, if_false, Nat.add_zero]
        by_cases hn : n = 0
        · subst hn; omega
        · simp only [hn, if_false, Nat.add_zero] at h2; omega

theorem readCStrAux_inside (m : Image) (off : Nat) (acc : List Nat) (fuel : Nat) (s : List Nat)
    (h : readCStrAux m.getByte? off acc fuel = .ok s) :
    acc.length ≤ s.length ∧ off + (s.length - acc.length) < m.size := by
  induction fuel generalizing off acc with
  | zero => simp [readCStrAux] at h
  | succ fuel ih =>
    simp only [readCStrAux] at h
    split at h
    · cases h
    · rename_i hb
      cases h
      have := getByte?_isSome m off 0 hb
      simp [this]
    · rename_i b _ hb
      have hlt := getByte?_isSome m off b hb
      obtain ⟨h1, h2⟩ := ih (off + 1) (b :: acc) h
      simp only [List.length_cons] at h1 h2
      omega

/-- a string read that succeeds found its terminating NUL inside the file -/
theorem readCStr_inside (m : Image) (off : Nat) (s : List Nat) (h : readCStr m.getByte? m.size off = .ok s) :
    off + s.length < m.size := by
  have := readCStrAux_inside m off [] (m.size + 1) s h
  simpa using this.2

end GIVerif.Typelib
