/- Helper lemmas for C11 at the block level: every diagnostic the state machine logs while it reads a
   line names that line. -/
import GIVerif.Lemmas.AnnParseBlockTotal

namespace GIVerif.AnnParse
open GIVerif.Py

/-- all diagnostics of `d` name line `ln` -/
def AllLine (ln : Nat) (d : List BDiag) : Prop := ∀ x ∈ d, x.line = ln

/-- `b` is `a` followed by diagnostics that all name line `ln` -/
def GrowsD (a b : List BDiag) (ln : Nat) : Prop := ∃ d, b = a ++ d ∧ AllLine ln d

theorem growsD_refl (a : List BDiag) (ln : Nat) : GrowsD a a ln := ⟨[], by simp, fun _ h => by cases h⟩

theorem growsD_append {a b : List BDiag} {ln : Nat} (d : List BDiag) (h : GrowsD a b ln) (hd : AllLine ln d) :
    GrowsD a (b ++ d) ln := by
  obtain ⟨e, he, hl⟩ := h
  refine ⟨e ++ d, by rw [he, List.append_assoc], ?_⟩
  intro x hx
  rcases List.mem_append.mp hx with h1 | h1
  · exact hl x h1
  · exact hd x h1

theorem growsD_trans {a b c : List BDiag} {ln : Nat} (h1 : GrowsD a b ln) (h2 : GrowsD b c ln) : GrowsD a c ln := by
  obtain ⟨d, hd, hl⟩ := h1
  obtain ⟨e, he, hl2⟩ := h2
  refine ⟨d ++ e, by rw [he, hd, List.append_assoc], ?_⟩
  intro x hx
  rcases List.mem_append.mp hx with h | h
  · exact hl x h
  · exact hl2 x h

theorem allLine_nil (ln : Nat) : AllLine ln [] := fun _ h => by cases h

theorem allLine_append {ln : Nat} {d e : List BDiag} (hd : AllLine ln d) (he : AllLine ln e) : AllLine ln (d ++ e) := by
  intro x hx
  rcases List.mem_append.mp hx with h | h
  · exact hd x h
  · exact he x h

theorem allLine_tdiagsAt (ln : Nat) (q : Str) (d : List TDiag) : AllLine ln (tdiagsAt ln q d) := by
  intro x hx
  simp only [tdiagsAt, List.mem_map] at hx
  obtain ⟨t, _, rfl⟩ := hx
  rfl

theorem allLine_mkDiag (lv : Level) (k : DKind) (ln m : Nat) (q : Str) : AllLine ln [mkDiag lv k ln m q] := by
  intro x hx; rw [List.mem_singleton.mp hx]; rfl

theorem allLine_mkDiagPos (lv : Level) (k : DKind) (ln : Nat) : AllLine ln [mkDiagPos lv k ln] := by
  intro x hx; rw [List.mem_singleton.mp hx]; rfl

theorem allLine_ite {ln : Nat} (c : Prop) [Decidable c] {d e : List BDiag} (hd : AllLine ln d) (he : AllLine ln e) :
    AllLine ln (if c then d else e) := by
  split
  · exact hd
  · exact he

theorem allLine_fieldsDiags (ln : Nat) (q : Str) (r : Option FieldsResult) : AllLine ln (fieldsDiags ln q r) := by
  unfold fieldsDiags
  split
  · exact allLine_tdiagsAt _ _ _
  · exact allLine_nil _

/-- closes goals `GrowsD st.diags (st.diags ++ d1 ++ … ++ dk) ln` whose `di` are built from the constructors above -/
macro "grows" : tactic =>
  `(tactic| (simp only [BSt.log, List.append_assoc];
             first
             | exact growsD_refl _ _
             | (refine ⟨_, rfl, ?_⟩;
                repeat' (first
                  | exact allLine_nil _
                  | exact allLine_tdiagsAt _ _ _
                  | exact allLine_mkDiag _ _ _ _ _
                  | exact allLine_mkDiagPos _ _ _
                  | exact allLine_fieldsDiags _ _ _
                  | apply allLine_append
                  | apply allLine_ite))))

theorem identNotFound_grows (st : BSt) (ln col : Nat) (orig : Str) :
    GrowsD st.diags (identNotFound st ln col orig).diags ln := by
  unfold identNotFound
  split
  · exact growsD_refl _ _
  · grows

theorem identStep_grows (h : Hdr) (st : BSt) (ln col : Nat) (orig line : Str) (indent : Nat) (st' : BSt)
    (hs : identStep h st ln col orig line indent = .ok st') : GrowsD st.diags st'.diags ln := by
  unfold identStep at hs
  split at hs
  · cases hs; exact identNotFound_grows _ _ _ _
  · simp only [] at hs
    split at hs
    · split at hs
      · cases hs
      · cases hs; grows
      · split at hs
        · cases hs
          exact growsD_trans (by grows) (identNotFound_grows _ ln col orig)
        · cases hs; grows
    · cases hs; exact growsD_refl _ _


theorem paramStep_grows (st : BSt) (blk : BlockM) (ln col : Nat) (orig line : Str) (indent : Nat) (g : List Group)
    (st' : BSt) (hs : paramStep st blk ln col orig line indent g = .ok st') : GrowsD st.diags st'.diags ln := by
  unfold paramStep at hs
  simp only [] at hs
  split at hs
  · cases hs
  · split at hs
    · cases hs; grows
    · cases hs; grows

theorem attributesTagFold_allLine (ln mpos : Nat) (orig line : Str) (acc r : Option Str × List BDiag) (a : Str)
    (hacc : AllLine ln acc.2) (h : attributesTagFold ln mpos orig line acc a = .ok r) : AllLine ln r.2 := by
  unfold attributesTagFold at h
  simp only [] at h
  have hbase : AllLine ln (acc.2 ++ tdiagsAt ln line (optionsList mpos (some a)).2) :=
    allLine_append hacc (allLine_tdiagsAt _ _ _)
  split at h
  · cases h
  · split at h
    · split at h
      · cases h
      · cases h; exact hbase
    · split at h
      · split at h
        · cases h; exact hbase
        · cases h
        · cases h
      · cases h; exact allLine_append hbase (allLine_mkDiag _ _ _ _ _)

theorem foldExcept_allLine (ln mpos : Nat) (orig line : Str) : ∀ (l : List Str) (acc r : Option Str × List BDiag),
    AllLine ln acc.2 → foldExcept (attributesTagFold ln mpos orig line) l acc = .ok r → AllLine ln r.2
  | [], acc, r, hacc, h => by simp only [foldExcept] at h; cases h; exact hacc
  | a :: as, acc, r, hacc, h => by
    simp only [foldExcept] at h
    split at h
    · cases h
    · rename_i b' hb
      exact foldExcept_allLine ln mpos orig line as b' r (attributesTagFold_allLine ln mpos orig line acc b' a hacc hb) h

theorem attributesTagStep_grows (st : BSt) (blk : BlockM) (ln col : Nat) (orig line annName fields : Str)
    (tagStart fstart mpos : Nat) (st' : BSt)
    (hs : attributesTagStep st blk ln col orig line annName fields tagStart fstart mpos = .ok st') :
    GrowsD st.diags st'.diags ln := by
  unfold attributesTagStep at hs
  split at hs
  · cases hs
  · simp only [] at hs
    split at hs
    · cases hs; grows
    · split at hs
      · cases hs
      · rename_i tr d hf
        have hd : AllLine ln d := foldExcept_allLine ln mpos orig line _ (some [], []) (tr, d) (allLine_nil _) hf
        split at hs
        · cases hs
          simp only [BSt.log, List.append_assoc]
          exact ⟨_, rfl, allLine_append (allLine_tdiagsAt _ _ _) hd⟩
        · split at hs
          · cases hs
          · cases hs
          · split at hs
            · cases hs
              simp only [BSt.log, List.append_assoc]
              exact ⟨_, rfl, allLine_append (allLine_tdiagsAt _ _ _) (allLine_append hd
                (allLine_append (allLine_tdiagsAt _ _ _) (allLine_mkDiag _ _ _ _ _)))⟩
            · cases hs
              simp only [BSt.log, List.append_assoc]
              exact ⟨_, rfl, allLine_append (allLine_tdiagsAt _ _ _) (allLine_append hd (allLine_tdiagsAt _ _ _))⟩


theorem tagStep_grows (st : BSt) (blk : BlockM) (ln col : Nat) (orig line : Str) (indent : Nat) (g : List Group)
    (st' : BSt) (hs : tagStep st blk ln col orig line indent g = .ok st') : GrowsD st.diags st'.diags ln := by
  unfold tagStep at hs
  simp only [] at hs
  split at hs
  · split at hs
    · exact growsD_trans (by grows) (attributesTagStep_grows _ _ _ _ _ _ _ _ _ _ _ _ hs)
    · split at hs
      · cases hs
      · cases hs
      · cases hs; grows
  · split at hs
    · cases hs; grows
    · split at hs
      · cases hs
      · split at hs
        · cases hs; grows
        · cases hs
          simp only [BSt.log, List.append_assoc]
          refine ⟨_, rfl, ?_⟩
          refine allLine_append (allLine_ite _ (allLine_nil _) (allLine_mkDiag _ _ _ _ _)) ?_
          refine allLine_append (allLine_ite _ (allLine_mkDiag _ _ _ _ _) (allLine_nil _)) ?_
          refine allLine_append (allLine_fieldsDiags _ _ _) ?_
          split
          · exact allLine_nil _
          · split
            · exact allLine_nil _
            · split
              · exact allLine_ite _ (allLine_mkDiagPos _ _ _) (allLine_nil _)
              · split
                · exact allLine_ite _ (allLine_mkDiagPos _ _ _) (allLine_nil _)
                · exact allLine_ite _ (allLine_mkDiagPos _ _ _) (allLine_nil _)

theorem middleStep_grows (st : BSt) (blk : BlockM) (ln col : Nat) (orig line : Str) (st' : BSt)
    (hs : middleStep st blk ln col orig line = .ok st') : GrowsD st.diags st'.diags ln := by
  unfold middleStep at hs
  simp only [] at hs
  split at hs
  · split at hs
    · split at hs
      · cases hs
      · cases hs; grows
      · split at hs
        · cases hs; grows
        · cases hs; grows
    · cases hs; exact growsD_refl _ _
  · split at hs
    · split at hs
      · cases hs
      · split at hs
        · split at hs
          · cases hs
          · split at hs
            · cases hs; grows
            · cases hs; grows
        · cases hs; grows
    · cases hs; exact growsD_refl _ _

theorem lineBody_grows (h : Hdr) (st : BSt) (ln col : Nat) (orig line : Str) (st' : BSt)
    (hs : lineBody h st ln col orig line = .ok st') : GrowsD st.diags st'.diags ln := by
  unfold lineBody at hs
  simp only [] at hs
  split at hs
  · exact identStep_grows _ _ _ _ _ _ _ _ hs
  · split at hs
    · exact paramStep_grows _ _ _ _ _ _ _ _ _ hs
    · split at hs
      · cases hs; exact growsD_refl _ _
      · split at hs
        · split at hs
          · cases hs
          · split at hs
            · exact tagStep_grows _ _ _ _ _ _ _ _ _ hs
            · exact middleStep_grows _ _ _ _ _ _ _ hs
        · exact middleStep_grows _ _ _ _ _ _ _ hs

theorem stripAsterisk_allLine (ln : Nat) (orig : Str) : AllLine ln (stripAsterisk ln orig).1 := by
  unfold stripAsterisk
  split
  · exact allLine_ite _ (allLine_nil _) (allLine_mkDiag _ _ _ _ _)
  · exact allLine_nil _

theorem lineStep_grows (h : Hdr) (st : BSt) (ln : Nat) (orig : Str) (st' : BSt)
    (hs : lineStep h st ln orig = .ok st') : GrowsD st.diags st'.diags ln := by
  unfold lineStep at hs
  exact growsD_trans ⟨_, rfl, stripAsterisk_allLine ln orig⟩ (lineBody_grows _ _ _ _ _ _ _ hs)

/-- the diagnostics logged by the loop over `ls` (first line number `ln + 1`): each names the line it was logged for -/
theorem lineLoop_lines (h : Hdr) : ∀ (ls : List Str) (ln : Nat) (st st' : BSt), lineLoop h ls ln st = .ok st' →
    ∃ d, st'.diags = st.diags ++ d ∧ ∀ x ∈ d, ln + 1 ≤ x.line ∧ x.line ≤ ln + ls.length
  | [], ln, st, st', hs => by
    simp only [lineLoop] at hs; cases hs; exact ⟨[], by simp, fun _ hx => by cases hx⟩
  | l :: ls, ln, st, st', hs => by
    simp only [lineLoop] at hs
    split at hs
    · cases hs
    · rename_i st1 h1
      obtain ⟨d1, hd1, hl1⟩ := lineStep_grows h st (ln + 1) l st1 h1
      obtain ⟨d2, hd2, hl2⟩ := lineLoop_lines h ls (ln + 1) st1 st' hs
      refine ⟨d1 ++ d2, by rw [hd2, hd1, List.append_assoc], ?_⟩
      intro x hx
      rcases List.mem_append.mp hx with hx1 | hx2
      · rw [hl1 x hx1]; simp only [List.length_cons]; omega
      · have := hl2 x hx2; simp only [List.length_cons]; omega


/-- the opening token stands alone on its line: no comment text follows it -/
def OpeningAlone (lines : List Str) : Prop :=
  match lines with
  | [] => True
  | first :: _ => match matchStart first with
    | some g => (groupText first g "comment").isEmpty = true
    | none => True

theorem openBlock_lines (lines : List Str) (lineno : Nat) (o : Option Opened) (d : List BDiag)
    (h : openBlock lines lineno = .ok (o, d)) (halone : OpeningAlone lines) :
    (∀ x ∈ d, lineno ≤ x.line ∧ x.line < lineno + lines.length) ∧
    (∀ op, o = some op → op.lines.length + 2 ≤ lines.length) := by
  unfold openBlock at h
  cases lines with
  | nil => simp at h
  | cons first rest =>
    simp only [OpeningAlone] at halone
    simp only [] at h
    split at h
    · cases h; exact ⟨fun _ hx => (by cases hx), fun _ ho => (by cases ho)⟩
    · rename_i g hg
      rw [hg] at halone
      split at h
      · cases h
        refine ⟨?_, fun _ ho => by cases ho⟩
        intro x hx
        rw [List.mem_singleton.mp hx]
        simp [mkDiag]
      · rename_i hn1
        have hlen : 2 ≤ (first :: rest).length := by
          cases rest with
          | nil => simp at hn1
          | cons _ _ => simp
        -- the diagnostics of the two token lines
        have hD : ∀ (a b c e : List BDiag), AllLine lineno a → AllLine lineno b →
            AllLine (lineno + (first :: rest).length - 1) c → AllLine (lineno + (first :: rest).length - 1) e →
            ∀ x ∈ a ++ b ++ c ++ e, lineno ≤ x.line ∧ x.line < lineno + (first :: rest).length := by
          intro a b c e ha hb hc he x hx
          simp only [List.mem_append] at hx
          rcases hx with ((hx | hx) | hx) | hx
          · rw [ha x hx]; omega
          · rw [hb x hx]; omega
          · rw [hc x hx]; omega
          · rw [he x hx]; omega
        split at h
        · cases h
        · split at h
          · cases h
            refine ⟨?_, fun _ ho => by cases ho⟩
            intro x hx
            have := hD _ _ [] [] (allLine_ite _ (allLine_nil _) (allLine_mkDiag _ _ _ _ _)) (allLine_nil lineno)
              (allLine_nil _) (allLine_nil _) x (by simpa using hx)
            exact this
          · cases h
            refine ⟨?_, ?_⟩
            · intro x hx
              exact hD _ _ _ _ (allLine_ite _ (allLine_nil _) (allLine_mkDiag _ _ _ _ _)) (allLine_nil lineno)
                (allLine_ite _ (allLine_nil _) (allLine_mkDiag _ _ _ _ _))
                (allLine_ite _ (allLine_nil _) (allLine_mkDiag _ _ _ _ _)) x hx
            · intro op ho
              cases ho
              simp only [List.length_dropLast, List.length_cons]
              cases rest with
              | nil => simp at hn1
              | cons _ _ => simp

theorem lineStepAt_grows (h : Hdr) (st : BSt) (ln base : Nat) (orig line : Str) (st' : BSt)
    (hs : lineStepAt h st ln base orig line = .ok st') : GrowsD st.diags st'.diags ln := by
  unfold lineStepAt at hs
  have ha : AllLine ln (stripAsteriskAt ln base orig line).1 := by
    unfold stripAsteriskAt
    split
    · exact allLine_ite _ (allLine_nil _) (allLine_mkDiag _ _ _ _ _)
    · exact allLine_nil _
  exact growsD_trans ⟨_, rfl, ha⟩ (lineBody_grows _ _ _ _ _ _ _ hs)

/-- Every diagnostic of the block state machine names a line of the block: with the opening token alone
    on its line, the named line lies between the first and the last source line of the comment. -/
theorem parseBlock_diag_lines (comment : Str) (lineno : Nat) (b : Option BlockM) (d : List BDiag)
    (h : parseBlock comment lineno = .ok (b, d)) (halone : OpeningAlone (commentLines comment)) :
    ∀ x ∈ d, lineno ≤ x.line ∧ x.line < lineno + (commentLines comment).length := by
  unfold parseBlock parseBlockLines at h
  split at h
  · cases h
  · rename_i d0 ho
    cases h
    exact (openBlock_lines _ _ _ _ ho halone).1
  · rename_i op d0 ho
    obtain ⟨hd0, hlen⟩ := openBlock_lines _ _ _ _ ho halone
    split at h
    · cases h
    · rename_i st hl
      obtain ⟨d1, hd1, hl1⟩ := lineLoop_lines op.hdr op.lines lineno _ st hl
      have hlen' := hlen op rfl
      have hloop : ∀ x ∈ st.diags, lineno ≤ x.line ∧ x.line < lineno + (commentLines comment).length := by
        intro x hx
        rw [hd1] at hx
        rcases List.mem_append.mp hx with h0 | h1
        · exact hd0 x h0
        · have := hl1 x h1; omega
      split at h
      · cases h; exact hloop
      · split at h
        · cases h
        · rename_i st' hs'
          cases h
          obtain ⟨d2, hd2, hl2⟩ := lineStepAt_grows _ _ _ _ _ _ _ hs'
          intro x hx
          rw [hd2] at hx
          rcases List.mem_append.mp hx with h0 | h1
          · exact hloop x h0
          · rw [hl2 x h1]; omega

end GIVerif.AnnParse
