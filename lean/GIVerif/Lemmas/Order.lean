/-
  Helper lemmas for C16 (GIVerif/Props/C16.lean): the orders used as sort keys are total
  orders; `sorted` of a permutation; `min` of a permutation; dict construction; `find` in a
  permuted list with a unique hit.
-/
import GIVerif.Model.Order
import Mathlib.Data.List.Perm.Basic
import Mathlib.Data.List.Nodup
import Mathlib.Data.List.Induction

namespace GIVerif.Order
open GIVerif.Py

/-- a Boolean `<=` that is a total order -/
structure TotalOrderB (le : κ → κ → Bool) : Prop where
  total : ∀ a b, (le a b || le b a) = true
  trans : ∀ a b c, le a b = true → le b c = true → le a c = true
  antisymm : ∀ a b, le a b = true → le b a = true → a = b

theorem TotalOrderB.refl {le : κ → κ → Bool} (h : TotalOrderB le) (a : κ) : le a a = true := by
  have := h.total a a
  simpa using this

/-! ### the concrete orders -/

theorem strLe_total : ∀ a b : Str, (strLe a b || strLe b a) = true
  | [], _ => by simp [strLe]
  | _ :: _, [] => by simp [strLe]
  | a :: as, b :: bs => by
    have ih := strLe_total as bs
    simp only [strLe, Bool.or_eq_true, Bool.and_eq_true, decide_eq_true_eq, beq_iff_eq] at ih ⊢
    rcases Nat.lt_trichotomy a.toNat b.toNat with h | h | h
    · left; left; exact h
    · rcases ih with ih | ih
      · left; right; exact ⟨h, ih⟩
      · right; right; exact ⟨h.symm, ih⟩
    · right; left; exact h

theorem strLe_trans : ∀ a b c : Str, strLe a b = true → strLe b c = true → strLe a c = true
  | [], _, _ => by simp [strLe]
  | _ :: _, [], _ => by simp [strLe]
  | _ :: _, _ :: _, [] => by simp [strLe]
  | a :: as, b :: bs, c :: cs => by
    have ih := strLe_trans as bs cs
    simp only [strLe, Bool.or_eq_true, Bool.and_eq_true, decide_eq_true_eq, beq_iff_eq] at ih ⊢
    rintro (h1 | ⟨h1, t1⟩) (h2 | ⟨h2, t2⟩)
    · left; omega
    · left; omega
    · left; omega
    · right; exact ⟨by omega, ih t1 t2⟩

theorem strLe_antisymm : ∀ a b : Str, strLe a b = true → strLe b a = true → a = b
  | [], [] => by simp
  | [], _ :: _ => by simp [strLe]
  | _ :: _, [] => by simp [strLe]
  | a :: as, b :: bs => by
    have ih := strLe_antisymm as bs
    simp only [strLe, Bool.or_eq_true, Bool.and_eq_true, decide_eq_true_eq, beq_iff_eq] at ih ⊢
    rintro (h1 | ⟨h1, t1⟩) (h2 | ⟨h2, t2⟩)
    · omega
    · omega
    · omega
    · rw [Char.toNat_inj.mp h1, ih t1 t2]

theorem strLe_order : TotalOrderB strLe := ⟨strLe_total, strLe_trans, strLe_antisymm⟩

theorem natLe_order : TotalOrderB natLe := by
  refine ⟨?_, ?_, ?_⟩ <;> intros <;> simp only [natLe, Bool.or_eq_true, decide_eq_true_eq] at * <;> omega

theorem pairLe_order [DecidableEq α] {le1 : α → α → Bool} {le2 : β → β → Bool}
    (h1 : TotalOrderB le1) (h2 : TotalOrderB le2) : TotalOrderB (pairLe le1 le2) := by
  refine ⟨?_, ?_, ?_⟩
  · rintro ⟨a1, a2⟩ ⟨b1, b2⟩
    unfold pairLe
    by_cases h : a1 = b1
    · subst h; simpa using h2.total a2 b2
    · have h' : ¬ b1 = a1 := fun e => h e.symm
      simpa [h, h'] using h1.total a1 b1
  · rintro ⟨a1, a2⟩ ⟨b1, b2⟩ ⟨c1, c2⟩
    unfold pairLe
    by_cases hab : a1 = b1
    · subst hab
      by_cases hbc : a1 = c1
      · subst hbc; simpa using h2.trans a2 b2 c2
      · simp [hbc]
    · by_cases hbc : b1 = c1
      · subst hbc
        simp only [hab, if_false, if_true]
        intro x _; exact x
      · by_cases hac : a1 = c1
        · subst hac
          simp only [hab, hbc, if_false, if_true]
          intro x y
          exact absurd (h1.antisymm _ _ x y) hab
        · simp only [hab, hbc, hac, if_false]
          exact h1.trans a1 b1 c1
  · rintro ⟨a1, a2⟩ ⟨b1, b2⟩
    unfold pairLe
    by_cases h : a1 = b1
    · subst h
      simp only [if_true]
      intro x y
      rw [h2.antisymm _ _ x y]
    · have h' : ¬ b1 = a1 := fun e => h e.symm
      simp only [h, h', if_false]
      intro x y
      exact absurd (h1.antisymm _ _ x y) h

theorem posKeyLe_order : TotalOrderB posKeyLe :=
  pairLe_order strLe_order (pairLe_order natLe_order natLe_order)

theorem nscmpLe_order : TotalOrderB nscmpLe := pairLe_order natLe_order strLe_order

theorem includeLe_order : TotalOrderB (pairLe strLe strLe) := pairLe_order strLe_order strLe_order

/-! ### `sorted` -/

theorem insertBy_perm (le : α → α → Bool) (a : α) : ∀ l : List α, (insertBy le a l).Perm (a :: l)
  | [] => List.Perm.refl _
  | b :: l => by
    unfold insertBy
    split
    · exact List.Perm.refl _
    · exact ((insertBy_perm le a l).cons b).trans (List.Perm.swap a b l)

theorem isort_perm (le : α → α → Bool) : ∀ l : List α, (isort le l).Perm l
  | [] => List.Perm.refl _
  | a :: l => (insertBy_perm le a _).trans ((isort_perm le l).cons a)

theorem insertBy_pairwise {le : α → α → Bool} (htot : ∀ a b, (le a b || le b a) = true)
    (htr : ∀ a b c, le a b = true → le b c = true → le a c = true) (a : α) :
    ∀ l : List α, l.Pairwise (fun x y => le x y = true) →
      (insertBy le a l).Pairwise (fun x y => le x y = true)
  | [], _ => by simp [insertBy]
  | b :: l, h => by
    unfold insertBy
    split
    · rename_i hab
      refine List.Pairwise.cons ?_ h
      intro y hy
      rcases List.mem_cons.mp hy with rfl | hy
      · exact hab
      · exact htr _ _ _ hab ((List.pairwise_cons.mp h).1 y hy)
    · rename_i hab
      have hba : le b a = true := by
        have := htot a b
        rw [Bool.or_eq_true] at this
        rcases this with t | t
        · exact absurd t hab
        · exact t
      obtain ⟨hb, hl⟩ := List.pairwise_cons.mp h
      refine List.Pairwise.cons ?_ (insertBy_pairwise htot htr a l hl)
      intro y hy
      rcases List.mem_cons.mp ((insertBy_perm le a l).subset hy) with rfl | hy
      · exact hba
      · exact hb y hy

theorem isort_pairwise {le : α → α → Bool} (htot : ∀ a b, (le a b || le b a) = true)
    (htr : ∀ a b c, le a b = true → le b c = true → le a c = true) :
    ∀ l : List α, (isort le l).Pairwise (fun x y => le x y = true)
  | [] => List.Pairwise.nil
  | a :: l => insertBy_pairwise htot htr a _ (isort_pairwise htot htr l)

theorem sortBy_perm_self {le : κ → κ → Bool} (key : α → κ) (l : List α) :
    (sortBy le key l).Perm l := isort_perm _ l

theorem sortBy_pairwise {le : κ → κ → Bool} (h : TotalOrderB le) (key : α → κ) (l : List α) :
    (sortBy le key l).Pairwise (fun a b => le (key a) (key b) = true) :=
  isort_pairwise (le := fun a b => le (key a) (key b))
    (fun a b => h.total (key a) (key b)) (fun a b c => h.trans (key a) (key b) (key c)) l

theorem key_inj_of_nodup {key : α → κ} {l : List α} (hk : (l.map key).Nodup) {a b : α}
    (ha : a ∈ l) (hb : b ∈ l) (e : key a = key b) : a = b :=
  List.inj_on_of_nodup_map hk ha hb e

/-- sorted + permutation ⇒ equal: any list that is a permutation of `l` and ordered by the key
    IS `sortBy le key l`, when the keys in `l` are pairwise distinct -/
theorem sorted_perm_unique {le : κ → κ → Bool} (h : TotalOrderB le) (key : α → κ) (l r : List α)
    (hk : (l.map key).Nodup) (hp : r.Perm l)
    (hs : r.Pairwise (fun a b => le (key a) (key b) = true)) : r = sortBy le key l := by
  refine List.Perm.eq_of_pairwise ?_ hs (sortBy_pairwise h key l) (hp.trans (sortBy_perm_self key l).symm)
  intro a b ha hb hab hba
  have ha' : a ∈ l := hp.subset ha
  have hb' : b ∈ l := (sortBy_perm_self key l).subset hb
  exact key_inj_of_nodup hk ha' hb' (h.antisymm _ _ hab hba)

theorem sortBy_perm {le : κ → κ → Bool} (h : TotalOrderB le) (key : α → κ) (l l' : List α)
    (hk : (l.map key).Nodup) (hp : l'.Perm l) : sortBy le key l' = sortBy le key l :=
  sorted_perm_unique h key l _ hk ((sortBy_perm_self key l').trans hp) (sortBy_pairwise h key l')

/-! ### `min` -/

theorem minFold_spec {le : κ → κ → Bool} (h : TotalOrderB le) (key : α → κ) :
    ∀ (xs : List α) (x : α),
      xs.foldl (fun m y => if ltOf le (key y) (key m) then y else m) x ∈ x :: xs ∧
      ∀ y ∈ x :: xs,
        le (key (xs.foldl (fun m y => if ltOf le (key y) (key m) then y else m) x)) (key y) = true
  | [], x => by
    refine ⟨by simp, fun y hy => ?_⟩
    rw [List.mem_singleton.mp hy]
    exact h.refl _
  | y :: ys, x => by
    rw [List.foldl_cons]
    obtain ⟨hm, hle⟩ := minFold_spec h key ys (if ltOf le (key y) (key x) then y else x)
    generalize ys.foldl (fun m y => if ltOf le (key y) (key m) then y else m)
      (if ltOf le (key y) (key x) then y else x) = m at hm hle
    have hx0 := hle _ (List.mem_cons_self ..)
    refine ⟨?_, ?_⟩
    · rcases List.mem_cons.mp hm with e | e
      · rw [e]
        split <;> simp
      · exact List.mem_cons_of_mem _ (List.mem_cons_of_mem _ e)
    · intro z hz
      rcases List.mem_cons.mp hz with rfl | hz
      · -- z = x
        refine h.trans _ _ _ hx0 ?_
        split
        · rename_i hlt
          simp only [ltOf, Bool.and_eq_true] at hlt
          exact hlt.1
        · exact h.refl _
      · rcases List.mem_cons.mp hz with rfl | hz
        · refine h.trans _ _ _ hx0 ?_
          split
          · exact h.refl _
          · rename_i hlt
            simp only [ltOf, Bool.and_eq_true, Bool.not_eq_true', not_and, Bool.not_eq_false] at hlt
            have ht := h.total (key z) (key x)
            rw [Bool.or_eq_true] at ht
            rcases ht with t | t
            · cases hzx : le (key x) (key z) with
              | true => rfl
              | false => exact absurd (hlt t) (by simp [hzx])
            · exact t
        · exact hle _ (List.mem_cons_of_mem _ hz)

theorem minBy_eq_none {le : κ → κ → Bool} {key : α → κ} {l : List α} :
    minBy le key l = none ↔ l = [] := by
  cases l <;> simp [minBy]

theorem minBy_spec {le : κ → κ → Bool} (h : TotalOrderB le) (key : α → κ) {l : List α} {m : α}
    (hm : minBy le key l = some m) : m ∈ l ∧ ∀ y ∈ l, le (key m) (key y) = true := by
  cases l with
  | nil => simp [minBy] at hm
  | cons x xs =>
    simp only [minBy, Option.some.injEq] at hm
    subst hm
    exact minFold_spec h key xs x

/-- the key of the minimum does not depend on the order of the list (no hypothesis) -/
theorem minBy_key_perm {le : κ → κ → Bool} (h : TotalOrderB le) (key : α → κ) {l l' : List α}
    (hp : l'.Perm l) : (minBy le key l').map key = (minBy le key l).map key := by
  cases h1 : minBy le key l' with
  | none =>
    rw [minBy_eq_none] at h1
    subst h1
    rw [List.nil_perm.mp hp]
    simp [minBy]
  | some m' =>
    cases h2 : minBy le key l with
    | none =>
      rw [minBy_eq_none] at h2
      subst h2
      rw [List.perm_nil.mp hp] at h1
      simp [minBy] at h1
    | some m =>
      obtain ⟨hm', hle'⟩ := minBy_spec h key h1
      obtain ⟨hm, hle⟩ := minBy_spec h key h2
      simp only [Option.map_some, Option.some.injEq]
      exact h.antisymm _ _ (hle' _ (hp.symm.subset hm)) (hle _ (hp.subset hm'))

/-- with pairwise distinct keys (a genuine set) the minimum itself is order independent -/
theorem minBy_perm {le : κ → κ → Bool} (h : TotalOrderB le) (key : α → κ) {l l' : List α}
    (hk : (l.map key).Nodup) (hp : l'.Perm l) : minBy le key l' = minBy le key l := by
  have hkey := minBy_key_perm h key hp
  cases h1 : minBy le key l' with
  | none => rw [h1] at hkey; cases h2 : minBy le key l with
    | none => rfl
    | some m => rw [h2] at hkey; simp at hkey
  | some m' =>
    cases h2 : minBy le key l with
    | none => rw [h1, h2] at hkey; simp at hkey
    | some m =>
      rw [h1, h2] at hkey
      simp only [Option.map_some, Option.some.injEq] at hkey
      have hm' := (minBy_spec h key h1).1
      have hm := (minBy_spec h key h2).1
      rw [key_inj_of_nodup hk (hp.subset hm') hm hkey]

/-! ### lists whose order cannot matter -/

theorem perm_eq_of_all_eq {l l' : List α} (hp : l'.Perm l) (h : ∀ a ∈ l, ∀ b ∈ l, a = b) : l' = l := by
  cases l with
  | nil => exact List.perm_nil.mp hp
  | cons x xs =>
    have e1 : x :: xs = List.replicate (x :: xs).length x :=
      List.eq_replicate_iff.mpr ⟨rfl, fun b hb => h b hb x (List.mem_cons_self ..)⟩
    have e2 : l' = List.replicate l'.length x :=
      List.eq_replicate_iff.mpr ⟨rfl, fun b hb => h b (hp.subset hb) x (List.mem_cons_self ..)⟩
    rw [e2, hp.length_eq, ← e1]

theorem findSome?_eq_head?_filterMap (f : α → Option β) :
    ∀ l : List α, l.findSome? f = (l.filterMap f).head?
  | [] => rfl
  | a :: l => by
    simp only [List.findSome?_cons, List.filterMap_cons]
    cases h : f a with
    | none => simp only []; exact findSome?_eq_head?_filterMap f l
    | some b => simp

/-- the first hit of a search does not depend on the order of the list when all hits agree -/
theorem findSome?_perm {f : α → Option β} {l l' : List α} (hp : l'.Perm l)
    (h : ∀ a ∈ l, ∀ b ∈ l, ∀ x y, f a = some x → f b = some y → x = y) :
    l'.findSome? f = l.findSome? f := by
  rw [findSome?_eq_head?_filterMap, findSome?_eq_head?_filterMap]
  congr 1
  refine perm_eq_of_all_eq (hp.filterMap f) ?_
  intro x hx y hy
  obtain ⟨a, ha, hax⟩ := List.mem_filterMap.mp hx
  obtain ⟨b, hb, hby⟩ := List.mem_filterMap.mp hy
  exact h a ha b hb x y hax hby

/-! ### dicts -/

theorem dictGet_dictSet [DecidableEq κ] (d : List (κ × β)) (k k' : κ) (v : β) :
    dictGet (dictSet d k v) k' = if k = k' then some v else dictGet d k' := by
  induction d with
  | nil =>
    simp only [dictSet, dictGet, List.find?_cons, List.find?_nil]
    by_cases h : k = k' <;> simp [h]
  | cons e rest ih =>
    obtain ⟨ek, ev⟩ := e
    simp only [dictSet]
    by_cases h1 : ek = k
    · subst h1
      simp only [if_true, dictGet, List.find?_cons]
      by_cases h2 : ek = k' <;> simp [h2]
    · simp only [h1, if_false]
      simp only [dictGet, List.find?_cons] at ih ⊢
      by_cases h2 : ek = k'
      · subst h2
        simp [Ne.symm h1]
      · simp only [h2, decide_false]
        exact ih

theorem dictHas_iff [DecidableEq κ] (d : List (κ × β)) (k : κ) :
    dictHas d k = true ↔ k ∈ d.map (·.1) := by
  induction d with
  | nil => simp [dictHas]
  | cons e rest ih =>
    simp only [dictHas, List.any_cons, Bool.or_eq_true, decide_eq_true_eq, List.map_cons,
      List.mem_cons] at ih ⊢
    rw [ih]
    constructor
    · rintro (h | h)
      · exact Or.inl h.symm
      · exact Or.inr h
    · rintro (h | h)
      · exact Or.inl h.symm
      · exact Or.inr h

theorem keys_dictSet [DecidableEq κ] (d : List (κ × β)) (k : κ) (v : β) :
    (dictSet d k v).map (·.1) = if dictHas d k then d.map (·.1) else d.map (·.1) ++ [k] := by
  induction d with
  | nil => simp [dictSet, dictHas]
  | cons e rest ih =>
    obtain ⟨ek, ev⟩ := e
    simp only [dictSet]
    by_cases h1 : ek = k
    · subst h1; simp [dictHas]
    · simp only [h1, if_false, List.map_cons, ih, dictHas, List.any_cons, decide_false, Bool.false_or]
      split <;> simp_all

/-! ### `set(list)` -/

theorem mem_setOf [DecidableEq α] {a : α} : ∀ {l : List α}, a ∈ setOf l ↔ a ∈ l
  | [] => by simp [setOf]
  | x :: xs => by
    simp only [setOf, List.mem_cons, List.mem_filter, mem_setOf (l := xs), decide_eq_true_eq]
    constructor
    · rintro (h | ⟨h, _⟩)
      · exact Or.inl h
      · exact Or.inr h
    · rintro (h | h)
      · exact Or.inl h
      · by_cases e : a = x
        · exact Or.inl e
        · exact Or.inr ⟨h, e⟩

theorem nodup_setOf [DecidableEq α] : ∀ l : List α, (setOf l).Nodup
  | [] => by simp [setOf]
  | x :: xs => by
    simp only [setOf, List.nodup_cons, List.mem_filter, decide_eq_true_eq]
    exact ⟨fun h => h.2 rfl, (nodup_setOf xs).filter _⟩

/-- two lists with the same elements give the same set -/
theorem setOf_perm_of_mem_iff [DecidableEq α] {l l' : List α} (h : ∀ a, a ∈ l' ↔ a ∈ l) :
    (setOf l').Perm (setOf l) :=
  (List.perm_ext_iff_of_nodup (nodup_setOf l') (nodup_setOf l)).mpr
    (fun a => by rw [mem_setOf, mem_setOf, h])

/-! ### the block dictionary -/

theorem dictSet_of_not_has [DecidableEq κ] (d : List (κ × β)) (k : κ) (v : β)
    (h : dictHas d k = false) : dictSet d k v = d ++ [(k, v)] := by
  induction d with
  | nil => rfl
  | cons e rest ih =>
    obtain ⟨ek, ev⟩ := e
    simp only [dictHas, List.any_cons, Bool.or_eq_false_iff, decide_eq_false_iff_not] at h
    simp only [dictSet, h.1, if_false, List.cons_append]
    rw [ih h.2]

theorem blockDict_append [DecidableEq κ] (l : List (κ × β)) (b : κ × β) :
    blockDict (l ++ [b]) =
      (dictSet (blockDict l).1 b.1 b.2,
       if dictHas (blockDict l).1 b.1 then (blockDict l).2 + 1 else (blockDict l).2) := by
  unfold blockDict
  rw [List.foldl_append]
  rfl

theorem blockDict_keys_mem [DecidableEq κ] (l : List (κ × β)) :
    ∀ k : κ, dictHas (blockDict l).1 k = true ↔ k ∈ l.map (·.1) := by
  induction l using List.reverseRecOn with
  | nil => simp [blockDict, dictHas]
  | append_singleton l b ih =>
    intro k
    rw [blockDict_append, dictHas_iff, keys_dictSet]
    have ihk : k ∈ (blockDict l).1.map (·.1) ↔ k ∈ l.map (·.1) := by
      rw [← dictHas_iff]; exact ih k
    rw [List.map_append, List.mem_append]
    by_cases hb : dictHas (blockDict l).1 b.1 = true
    · rw [if_pos hb, ihk]
      constructor
      · exact Or.inl
      · rintro (h | h)
        · exact h
        · have : k = b.1 := by simpa using h
          rw [this]; exact (ih b.1).mp hb
    · rw [if_neg hb, List.mem_append, ihk]
      simp

/-- last block wins: looking an identifier up in the dictionary finds its LAST block -/
theorem blockDict_get [DecidableEq κ] (l : List (κ × β)) (k : κ) :
    dictGet (blockDict l).1 k = dictGet l.reverse k := by
  induction l using List.reverseRecOn with
  | nil => rfl
  | append_singleton l b ih =>
    rw [blockDict_append, dictGet_dictSet, List.reverse_append]
    simp only [List.reverse_cons, List.reverse_nil, List.nil_append, List.singleton_append, dictGet,
      List.find?_cons]
    by_cases h : b.1 = k
    · simp [h]
    · simp only [h, if_false, decide_false]
      exact ih

/-- without duplicated identifiers the dictionary is the list itself and nothing is warned -/
theorem blockDict_of_nodup [DecidableEq κ] (l : List (κ × β)) (h : (l.map (·.1)).Nodup) :
    blockDict l = (l, 0) := by
  induction l using List.reverseRecOn with
  | nil => rfl
  | append_singleton l b ih =>
    rw [List.map_append, List.nodup_append] at h
    obtain ⟨h1, _, h3⟩ := h
    have hb : dictHas (blockDict l).1 b.1 = false := by
      cases hh : dictHas (blockDict l).1 b.1 with
      | false => rfl
      | true =>
        rw [blockDict_keys_mem] at hh
        exact absurd rfl (h3 _ hh b.1 (by simp))
    rw [blockDict_append, hb, dictSet_of_not_has _ _ _ hb, ih h1]
    simp

/-- duplicated identifiers are never silent: the warning count is 0 exactly when the
    identifiers are pairwise distinct -/
theorem blockDict_warnings [DecidableEq κ] (l : List (κ × β)) :
    (blockDict l).2 = 0 ↔ (l.map (·.1)).Nodup := by
  induction l using List.reverseRecOn with
  | nil => simp [blockDict]
  | append_singleton l b ih =>
    rw [blockDict_append, List.map_append, List.nodup_append]
    by_cases hb : dictHas (blockDict l).1 b.1 = true
    · have hb' := (blockDict_keys_mem l b.1).mp hb
      simp only [hb, if_true, Nat.succ_ne_zero, false_iff, not_and]
      intro _ _ h3
      exact h3 _ hb' b.1 (by simp) rfl
    · have hb' : b.1 ∉ l.map (·.1) := fun h => hb ((blockDict_keys_mem l b.1).mpr h)
      simp only [hb, if_false, ih, List.map_cons, List.map_nil, List.nodup_singleton, true_and,
        List.mem_singleton, Bool.false_eq_true]
      constructor
      · intro h
        refine ⟨h, ?_⟩
        intro a ha c hc
        rw [hc]
        intro e
        exact hb' (e ▸ ha)
      · exact fun h => h.1

theorem dictGet_eq_findSome? [DecidableEq κ] (d : List (κ × β)) (k : κ) :
    dictGet d k = d.findSome? (fun e => if e.1 = k then some e.2 else none) := by
  induction d with
  | nil => rfl
  | cons e rest ih =>
    simp only [dictGet, List.find?_cons, List.findSome?_cons] at ih ⊢
    by_cases h : e.1 = k
    · simp [h]
    · simp only [h, decide_false, if_false]
      exact ih

/-- lookups in an association list with pairwise distinct keys do not depend on its order -/
theorem dictGet_perm [DecidableEq κ] {d d' : List (κ × β)} (hk : (d.map (·.1)).Nodup)
    (hp : d'.Perm d) (k : κ) : dictGet d' k = dictGet d k := by
  rw [dictGet_eq_findSome?, dictGet_eq_findSome?]
  refine findSome?_perm hp ?_
  intro a ha b hb x y hx hy
  by_cases h1 : a.1 = k <;> by_cases h2 : b.1 = k <;> simp [h1, h2] at hx hy
  have : a = b := key_inj_of_nodup hk ha hb (h1.trans h2.symm)
  rw [← hx, ← hy, this]

/-! ### the tag namespace -/

theorem emitted_congr (s s' : St) (hn : s.names = s'.names)
    (h : ∀ e ∈ s'.names, recOf s e = recOf s' e) : emitted s = emitted s' := by
  unfold emitted
  rw [hn]
  apply List.filterMap_congr
  intro e he
  exact h e ((sortBy_perm_self _ _).subset he)

/-! ### flags that only go from true to false; the fixed point of the introspectable loop -/

/-- `a` is `b` with some flags cleared -/
def FLe (a b : List Bool) : Prop :=
  a.length = b.length ∧ ∀ i, a.getD i false = true → b.getD i false = true

theorem FLe.refl (a : List Bool) : FLe a a := ⟨rfl, fun _ h => h⟩

theorem FLe.trans {a b c : List Bool} (h1 : FLe a b) (h2 : FLe b c) : FLe a c :=
  ⟨h1.1.trans h2.1, fun i h => h2.2 i (h1.2 i h)⟩

theorem FLe.antisymm {a b : List Bool} (h1 : FLe a b) (h2 : FLe b a) : a = b := by
  apply List.ext_getElem h1.1
  intro i hi1 hi2
  have e1 : a.getD i false = a[i] := by simp [List.getD, List.getElem?_eq_getElem hi1]
  have e2 : b.getD i false = b[i] := by simp [List.getD, List.getElem?_eq_getElem hi2]
  have := h1.2 i
  have := h2.2 i
  rw [e1, e2] at *
  cases ha : a[i] <;> cases hb : b[i] <;> simp_all

theorem getD_set_false (a : List Bool) (i j : Nat) :
    (a.set i false).getD j false = (if i = j then false else a.getD j false) := by
  by_cases hij : i = j
  · subst hij
    by_cases hi : i < a.length <;> simp [List.getD, hi]
  · simp [List.getD, hij]

theorem fle_set_false (a : List Bool) (i : Nat) : FLe (a.set i false) a := by
  refine ⟨by simp, fun j h => ?_⟩
  rw [getD_set_false] at h
  split at h
  · cases h
  · exact h

theorem fle_set_set {a b : List Bool} (h : FLe a b) (i : Nat) : FLe (a.set i false) (b.set i false) := by
  refine ⟨by simpa using h.1, fun j hj => ?_⟩
  rw [getD_set_false] at hj ⊢
  split
  · rename_i e; simp [e] at hj
  · rename_i e; simp only [e, if_false] at hj; exact h.2 j hj

theorem cntI_cons (x : Bool) (l : List Bool) : cntI (x :: l) = (if x then 1 else 0) + cntI l := by
  cases x <;> simp [cntI]
  omega

theorem fle_cons {x y : Bool} {a b : List Bool} (h : FLe (x :: a) (y :: b)) :
    (x = true → y = true) ∧ FLe a b := by
  refine ⟨fun hx => ?_, ?_, fun i hi => ?_⟩
  · have := h.2 0; simpa [List.getD, hx] using this
  · have := h.1; simpa using this
  · have := h.2 (i + 1); simpa [List.getD] using this (by simpa [List.getD] using hi)

theorem cntI_le_of_fle : ∀ {a b : List Bool}, FLe a b → cntI a ≤ cntI b
  | [], [], _ => Nat.le_refl _
  | [], _ :: _, h => by have := h.1; simp at this
  | _ :: _, [], h => by have := h.1; simp at this
  | x :: a, y :: b, h => by
    obtain ⟨hxy, hab⟩ := fle_cons h
    have := cntI_le_of_fle hab
    rw [cntI_cons, cntI_cons]
    cases x <;> cases y <;> simp_all
    omega

theorem eq_of_fle_of_cntI_eq : ∀ {a b : List Bool}, FLe a b → cntI a = cntI b → a = b
  | [], [], _, _ => rfl
  | [], _ :: _, h, _ => by have := h.1; simp at this
  | _ :: _, [], h, _ => by have := h.1; simp at this
  | x :: a, y :: b, h, hc => by
    obtain ⟨hxy, hab⟩ := fle_cons h
    have hle := cntI_le_of_fle hab
    rw [cntI_cons, cntI_cons] at hc
    cases x <;> cases y <;> simp_all
    · exact eq_of_fle_of_cntI_eq hab hc
    · omega
    · exact eq_of_fle_of_cntI_eq hab (by omega)

/-- a visit function that only clears flags and clears at least as much from a smaller state -/
structure Deflating (f : List Bool → Nat → List Bool) : Prop where
  le : ∀ a k, FLe (f a k) a
  mono : ∀ a b k, FLe a b → FLe (f a k) (f b k)

theorem foldl_fle {f : List Bool → Nat → List Bool} (hf : Deflating f) :
    ∀ (l : List Nat) (a : List Bool), FLe (l.foldl f a) a
  | [], a => FLe.refl a
  | k :: l, a => (foldl_fle hf l (f a k)).trans (hf.le a k)

theorem foldl_fmono {f : List Bool → Nat → List Bool} (hf : Deflating f) :
    ∀ (l : List Nat) (a b : List Bool), FLe a b → FLe (l.foldl f a) (l.foldl f b)
  | [], _, _, h => h
  | k :: l, a, b, h => foldl_fmono hf l (f a k) (f b k) (hf.mono a b k h)

/-- a walk of clearing visits that ends where it started did nothing at any visit -/
theorem foldl_ffixed {f : List Bool → Nat → List Bool} (hf : Deflating f) :
    ∀ (l : List Nat) (a : List Bool), l.foldl f a = a → ∀ k ∈ l, f a k = a
  | [], _, _, _, hk => by cases hk
  | k :: l, a, h, k', hk' => by
    have h1 : FLe (l.foldl f (f a k)) (f a k) := foldl_fle hf l (f a k)
    simp only [List.foldl_cons] at h
    rw [h] at h1
    have e : f a k = a := (hf.le a k).antisymm h1
    rw [e] at h
    rcases List.mem_cons.mp hk' with rfl | hm
    · exact e
    · exact foldl_ffixed hf l a h k' hm

/-- a state that no visit changes stays below every state it is below, through a whole walk -/
theorem foldl_above_fixed {f : List Bool → Nat → List Bool} (hf : Deflating f) {q : List Bool}
    (hq : ∀ k, f q k = q) : ∀ (l : List Nat) (a : List Bool), FLe q a → FLe q (l.foldl f a)
  | [], _, h => h
  | k :: l, a, h => by
    have : FLe q (f a k) := by
      have := hf.mono q a k h
      rwa [hq k] at this
    exact foldl_above_fixed hf hq l (f a k) this

theorem refOkI_mono {nodes : List INode} {a b : List Bool} (h : FLe a b) (r : Nat)
    (hr : refOkI nodes a r = true) : refOkI nodes b r = true := by
  unfold refOkI at hr ⊢
  cases hn : nodes[r]? with
  | none => simp [hn] at hr
  | some t =>
    simp only [hn, Bool.and_eq_true] at hr ⊢
    exact ⟨h.2 r hr.1, hr.2⟩

theorem condI_mono {nodes : List INode} {a b : List Bool} (h : FLe a b) (n : INode)
    (hc : condI nodes a n = true) : condI nodes b n = true := by
  unfold condI at hc ⊢
  simp only [Bool.and_eq_true, List.all_eq_true] at hc ⊢
  exact ⟨hc.1, fun r hr => refOkI_mono h r (hc.2 r hr)⟩

theorem stepI_deflating (sel : INode → Bool) (nodes : List INode) : Deflating (stepI sel nodes) := by
  refine ⟨fun a k => ?_, fun a b k h => ?_⟩
  · unfold stepI
    cases nodes[k]? with
    | none => exact FLe.refl a
    | some n =>
      dsimp only
      split
      · exact fle_set_false a k
      · exact FLe.refl a
  · unfold stepI
    cases nodes[k]? with
    | none => exact h
    | some n =>
      dsimp only
      by_cases hb : (sel n && !condI nodes b n) = true
      · have ha : (sel n && !condI nodes a n) = true := by
          simp only [Bool.and_eq_true, Bool.not_eq_true'] at hb ⊢
          refine ⟨hb.1, ?_⟩
          cases hca : condI nodes a n with
          | false => rfl
          | true => rw [condI_mono h n hca] at hb; exact absurd hb.2 (by simp)
        rw [if_pos ha, if_pos hb]
        exact fle_set_set h k
      · rw [if_neg hb]
        split
        · exact (fle_set_false a k).trans h
        · exact h

theorem aliasStepI_deflating (nodes : List INode) : Deflating (aliasStepI nodes) := stepI_deflating _ nodes
theorem callStepI_deflating (nodes : List INode) : Deflating (callStepI nodes) := stepI_deflating _ nodes

theorem roundI_le (nodes : List INode) (ord : List Nat) (tf : List Bool) : FLe (roundI nodes ord tf) tf :=
  (foldl_fle (callStepI_deflating nodes) ord _).trans (foldl_fle (aliasStepI_deflating nodes) ord tf)

theorem loopI_le (nodes : List INode) (ord : List Nat) : ∀ (fuel : Nat) (tf : List Bool),
    FLe (loopI nodes ord fuel tf) tf
  | 0, tf => FLe.refl tf
  | fuel + 1, tf => by
    unfold loopI
    dsimp only
    split
    · exact roundI_le nodes ord tf
    · exact (loopI_le nodes ord fuel _).trans (roundI_le nodes ord tf)

/-- with enough fuel the loop stops in a state that one more round leaves unchanged -/
theorem loopI_fixed (nodes : List INode) (ord : List Nat) : ∀ (fuel : Nat) (tf : List Bool),
    cntI tf < fuel → roundI nodes ord (loopI nodes ord fuel tf) = loopI nodes ord fuel tf
  | 0, _, h => by omega
  | fuel + 1, tf, h => by
    unfold loopI
    dsimp only
    split
    · rename_i heq
      have e : roundI nodes ord tf = tf := eq_of_fle_of_cntI_eq (roundI_le nodes ord tf) (by simpa using heq)
      rw [e, e]
    · rename_i hne
      have hle := cntI_le_of_fle (roundI_le nodes ord tf)
      have : cntI (roundI nodes ord tf) ≠ cntI tf := by simpa using hne
      exact loopI_fixed nodes ord fuel _ (by omega)

/-- no visit of either walk changes the state -/
def StableI (nodes : List INode) (q : List Bool) : Prop :=
  ∀ i, aliasStepI nodes q i = q ∧ callStepI nodes q i = q

theorem stepI_out_of_range (sel : INode → Bool) (nodes : List INode) (tf : List Bool) (i : Nat)
    (hi : nodes.length ≤ i) : stepI sel nodes tf i = tf := by
  unfold stepI
  rw [List.getElem?_eq_none hi]

/-- a state that a round over every node leaves unchanged is stable -/
theorem stable_of_round_fixed {nodes : List INode} {ord : List Nat} {r : List Bool}
    (hord : ∀ i, i < nodes.length → i ∈ ord) (h : roundI nodes ord r = r) : StableI nodes r := by
  have h1 := foldl_fle (aliasStepI_deflating nodes) ord r
  have h2 := foldl_fle (callStepI_deflating nodes) ord (walkI (aliasStepI nodes) ord r)
  unfold roundI walkI at h
  unfold walkI at h2
  rw [h] at h2
  have e : ord.foldl (aliasStepI nodes) r = r := h1.antisymm h2
  rw [e] at h
  intro i
  by_cases hi : i < nodes.length
  · exact ⟨foldl_ffixed (aliasStepI_deflating nodes) ord r e i (hord i hi),
      foldl_ffixed (callStepI_deflating nodes) ord r h i (hord i hi)⟩
  · exact ⟨stepI_out_of_range _ nodes r i (by omega), stepI_out_of_range _ nodes r i (by omega)⟩

/-- a stable state below `tf` is below everything the loop makes of `tf`, in any visiting order -/
theorem stable_le_loop {nodes : List INode} {q : List Bool} (hq : StableI nodes q) (ord : List Nat) :
    ∀ (fuel : Nat) (tf : List Bool), FLe q tf → FLe q (loopI nodes ord fuel tf)
  | 0, _, h => h
  | fuel + 1, tf, h => by
    have hr : FLe q (roundI nodes ord tf) :=
      foldl_above_fixed (callStepI_deflating nodes) (fun k => (hq k).2) ord _
        (foldl_above_fixed (aliasStepI_deflating nodes) (fun k => (hq k).1) ord tf h)
    unfold loopI
    dsimp only
    split
    · exact hr
    · exact stable_le_loop hq ord fuel _ hr

theorem stableI_iff (nodes : List INode) (tf : List Bool) : stableI nodes tf = true ↔ StableI nodes tf := by
  unfold stableI StableI
  simp only [List.all_eq_true, List.mem_range, Bool.and_eq_true, beq_iff_eq]
  constructor
  · intro h i
    by_cases hi : i < nodes.length
    · exact h i hi
    · exact ⟨stepI_out_of_range _ nodes tf i (by omega), stepI_out_of_range _ nodes tf i (by omega)⟩
  · intro h i _
    exact h i

end GIVerif.Order
