import GIVerif.Model.Naming
import GIVerif.Lemmas.CharAux
import Mathlib.Data.List.Basic
import Mathlib.Data.List.Perm.Basic
import Mathlib.Data.List.Nodup

namespace GIVerif.Naming
open GIVerif.Py

/-! ### prefixes -/

theorem stripPrefix?_eq_some {s p r : Str} : stripPrefix? s p = some r ↔ s = p ++ r := by
  induction p generalizing s with
  | nil => simp [stripPrefix?, eq_comm]
  | cons a p ih =>
    cases s with
    | nil => simp [stripPrefix?]
    | cons c cs =>
      simp only [stripPrefix?]
      split
      · subst_vars; simp [ih]
      · simp; intro h; contradiction

theorem stripPrefix?_eq_none {s p : Str} : stripPrefix? s p = none ↔ ¬ p <+: s := by
  constructor
  · intro h ⟨r, hr⟩
    have := stripPrefix?_eq_some.mpr hr.symm
    rw [h] at this; cases this
  · intro h
    cases hs : stripPrefix? s p with
    | none => rfl
    | some r => exact absurd ⟨r, (stripPrefix?_eq_some.mp hs).symm⟩ h

/-- the prefix actually compared: symbols get the `_` separator -/
def effPrefix (isIdent : Bool) (p : Str) : Str := if isIdent then p else completeSym p

theorem firstMatch_some {isIdent : Bool} {ps : List Str} {name rest : Str} {n : Nat}
    (h : firstMatch isIdent ps name = some (rest, n)) :
    ∃ pre p post, ps = pre ++ p :: post ∧ name = effPrefix isIdent p ++ rest ∧
      n = (effPrefix isIdent p).length ∧ ∀ q ∈ pre, ¬ effPrefix isIdent q <+: name := by
  induction ps with
  | nil => simp [firstMatch] at h
  | cons p ps ih =>
    simp only [firstMatch] at h
    cases hs : stripPrefix? name (if isIdent = true then p else completeSym p) with
    | some r =>
      rw [hs] at h
      simp only [Option.some.injEq, Prod.mk.injEq] at h
      obtain ⟨rfl, rfl⟩ := h
      exact ⟨[], p, ps, rfl, stripPrefix?_eq_some.mp hs, rfl, by simp⟩
    | none =>
      rw [hs] at h
      obtain ⟨pre, q, post, hps, hn, hl, hno⟩ := ih h
      refine ⟨p :: pre, q, post, by simp [hps], hn, hl, ?_⟩
      intro x hx
      rcases List.mem_cons.mp hx with rfl | hx
      · exact stripPrefix?_eq_none.mp hs
      · exact hno x hx

theorem firstMatch_none {isIdent : Bool} {ps : List Str} {name : Str} :
    firstMatch isIdent ps name = none ↔ ∀ p ∈ ps, ¬ effPrefix isIdent p <+: name := by
  induction ps with
  | nil => simp [firstMatch]
  | cons p ps ih =>
    simp only [firstMatch]
    cases hs : stripPrefix? name (if isIdent = true then p else completeSym p) with
    | some r =>
      simp only [reduceCtorEq, List.mem_cons, forall_eq_or_imp, false_iff, not_and]
      intro h
      exact absurd ⟨r, (stripPrefix?_eq_some.mp hs).symm⟩ h
    | none =>
      simp only [ih, List.mem_cons, forall_eq_or_imp, iff_and_self]
      intro _
      exact stripPrefix?_eq_none.mp hs

theorem firstMatch_isSome_of_mem {isIdent : Bool} {ps : List Str} {name : Str} {p : Str}
    (hp : p ∈ ps) (h : effPrefix isIdent p <+: name) : (firstMatch isIdent ps name).isSome := by
  cases hf : firstMatch isIdent ps name with
  | some _ => rfl
  | none => exact absurd h (firstMatch_none.mp hf p hp)

/-! ### the include part of the match list never mentions the current namespace -/

theorem incMatches_ns {isIdent : Bool} {name : Str} {incs : List NsPrefixes} {i : Nat}
    {m : NsRef × Str × Nat} (h : m ∈ incMatches isIdent name incs i) : ∃ j, m.1 = NsRef.inc j := by
  induction incs generalizing i with
  | nil => simp [incMatches] at h
  | cons ns rest ih =>
    simp only [incMatches] at h
    split at h
    · rcases List.mem_cons.mp h with rfl | h
      · exact ⟨i, rfl⟩
      · exact ih h
    · exact ih h

theorem mem_insertByLen {x y : NsRef × Str × Nat} {l : List (NsRef × Str × Nat)} :
    y ∈ insertByLen x l ↔ y = x ∨ y ∈ l := by
  induction l with
  | nil => simp [insertByLen]
  | cons z zs ih =>
    simp only [insertByLen]
    split
    · simp
    · simp only [List.mem_cons, ih]
      tauto

theorem mem_sortByLen {y : NsRef × Str × Nat} {l : List (NsRef × Str × Nat)} :
    y ∈ sortByLen l ↔ y ∈ l := by
  induction l with
  | nil => simp [sortByLen]
  | cons x xs ih =>
    have : sortByLen (x :: xs) = insertByLen x (sortByLen xs) := rfl
    rw [this, mem_insertByLen, ih]
    simp

theorem sortByLen_eq_nil {l : List (NsRef × Str × Nat)} : sortByLen l = [] ↔ l = [] := by
  constructor
  · intro h
    cases l with
    | nil => rfl
    | cons x xs =>
      have : x ∈ sortByLen (x :: xs) := mem_sortByLen.mpr (by simp)
      rw [h] at this; cases this
  · rintro rfl; rfl

/-- the matches contributed by the included namespaces, as they appear in the result -/
def incPart (cfg : Cfg) (isIdent : Bool) (name : Str) : List (NsRef × Str) :=
  (sortByLen (incMatches isIdent name cfg.incs 0)).map (fun m => (m.1, m.2.1))

theorem incPart_ns {cfg : Cfg} {isIdent : Bool} {name : Str} {m : NsRef × Str}
    (h : m ∈ incPart cfg isIdent name) : ∃ j, m.1 = NsRef.inc j := by
  simp only [incPart, List.mem_map] at h
  obtain ⟨x, hx, rfl⟩ := h
  exact incMatches_ns (mem_sortByLen.mp hx)

theorem incPart_ne_cur {cfg : Cfg} {isIdent : Bool} {name : Str} {m : NsRef × Str}
    (h : m ∈ incPart cfg isIdent name) : (m.1 == NsRef.cur) = false := by
  obtain ⟨j, hj⟩ := incPart_ns h
  rw [hj]; rfl

/-- when the current namespace matches, it is the LAST element of the result, whatever the
    included namespaces contribute -/
theorem split_of_cur_match {cfg : Cfg} {isIdent : Bool} {name r : Str} {n : Nat}
    (hne : (!isIdent && name.isEmpty) = false)
    (h : firstMatch isIdent (prefixesFor isIdent name cfg.cur) name = some (r, n)) :
    splitForNamespaces cfg isIdent name = .ok (incPart cfg isIdent name ++ [(NsRef.cur, r)]) := by
  unfold splitForNamespaces
  rw [hne]
  simp only [Bool.false_eq_true, ↓reduceIte, h, incPart]
  simp

/-- when only included namespaces match, the result is exactly their (non-empty) list -/
theorem split_of_inc_only {cfg : Cfg} {isIdent : Bool} {name : Str}
    (hne : (!isIdent && name.isEmpty) = false)
    (h : firstMatch isIdent (prefixesFor isIdent name cfg.cur) name = none)
    (hinc : incMatches isIdent name cfg.incs 0 ≠ []) :
    splitForNamespaces cfg isIdent name = .ok (incPart cfg isIdent name) ∧
      incPart cfg isIdent name ≠ [] := by
  have hne' : incPart cfg isIdent name ≠ [] := by
    simp only [incPart, ne_eq, List.map_eq_nil_iff, sortByLen_eq_nil]
    exact hinc
  refine ⟨?_, hne'⟩
  unfold splitForNamespaces
  rw [hne]
  simp only [Bool.false_eq_true, ↓reduceIte, h, List.append_nil]
  have : ((sortByLen (incMatches isIdent name cfg.incs 0)).map (fun m => (m.1, m.2.1))).isEmpty = false := by
    cases hl : (sortByLen (incMatches isIdent name cfg.incs 0)).map (fun m => (m.1, m.2.1)) with
    | nil => exact absurd hl hne'
    | cons _ _ => rfl
  simp [this, incPart]

theorem find_cur_append {l : List (NsRef × Str)} {r : Str}
    (hl : ∀ m ∈ l, (m.1 == NsRef.cur) = false) :
    (l ++ [(NsRef.cur, r)]).find? (fun m => m.1 == NsRef.cur) = some (NsRef.cur, r) := by
  induction l with
  | nil => simp
  | cons x xs ih =>
    have hx := hl x (by simp)
    simp only [List.cons_append, List.find?_cons, hx]
    exact ih (fun m hm => hl m (by simp [hm]))

theorem find_cur_none {l : List (NsRef × Str)} (hl : ∀ m ∈ l, (m.1 == NsRef.cur) = false) :
    l.find? (fun m => m.1 == NsRef.cur) = none := by
  rw [List.find?_eq_none]
  intro m hm
  simp [hl m hm]

theorem lastOf_append_singleton (l : List (NsRef × Str)) (x : NsRef × Str) :
    lastOf (l ++ [x]) = some x := by
  simp [lastOf]

theorem lastOf_mem {l : List (NsRef × Str)} (h : l ≠ []) : ∃ x ∈ l, lastOf l = some x := by
  unfold lastOf
  cases hl : l.getLast? with
  | none => exact absurd (List.getLast?_eq_none_iff.mp hl) h
  | some x => exact ⟨x, List.mem_of_getLast? hl, rfl⟩

end GIVerif.Naming

namespace GIVerif.Naming
open GIVerif.Py

/-! ### `_split_uscored_by_type` -/

/-- `pre` is the whole string, or is followed by an underscore in `s`; `rest` is what remains -/
def IsBoundaryPrefix (pre s rest : Str) : Prop := (pre = s ∧ rest = []) ∨ s = pre ++ '_' :: rest

theorem mem_cutsAt {s pre rest : Str} : (pre, rest) ∈ cutsAt s ↔ s = pre ++ '_' :: rest := by
  induction s generalizing pre with
  | nil => simp [cutsAt]
  | cons c cs ih =>
    simp only [cutsAt, List.mem_append, List.mem_map, Prod.mk.injEq, Prod.exists]
    constructor
    · rintro (h | ⟨a, b, hab, rfl, rfl⟩)
      · split at h
        · simp only [List.mem_singleton, Prod.mk.injEq] at h
          obtain ⟨rfl, rfl⟩ := h
          subst_vars; rfl
        · cases h
      · rw [ih.mp hab]; rfl
    · intro h
      cases pre with
      | nil =>
        simp only [List.nil_append, List.cons.injEq] at h
        obtain ⟨rfl, rfl⟩ := h
        left; simp
      | cons p ps =>
        simp only [List.cons_append, List.cons.injEq] at h
        obtain ⟨rfl, h⟩ := h
        right
        exact ⟨ps, rest, ih.mpr h, rfl, rfl⟩

theorem cutsAt_lt_length {s : Str} {p : Str × Str} (h : p ∈ cutsAt s) : p.1.length < s.length := by
  obtain ⟨a, b⟩ := p
  rw [mem_cutsAt.mp h]
  simp

theorem cutsAt_pairwise (s : Str) : (cutsAt s).Pairwise (fun a b => a.1.length < b.1.length) := by
  induction s with
  | nil => simp [cutsAt]
  | cons c cs ih =>
    simp only [cutsAt]
    rw [List.pairwise_append]
    refine ⟨?_, ?_, ?_⟩
    · split <;> simp
    · rw [List.pairwise_map]
      exact ih.imp (by intro a b h; simpa using h)
    · intro a ha b hb
      split at ha
      · simp only [List.mem_singleton] at ha
        subst ha
        obtain ⟨x, _, rfl⟩ := List.mem_map.mp hb
        simp
      · cases ha

theorem rsplitCandidates_pairwise (s : Str) :
    (rsplitCandidates s).Pairwise (fun a b => b.1.length < a.1.length) := by
  unfold rsplitCandidates
  rw [List.pairwise_cons]
  refine ⟨?_, ?_⟩
  · intro p hp
    exact cutsAt_lt_length (List.mem_reverse.mp hp)
  · rw [List.pairwise_reverse]
    exact cutsAt_pairwise s

theorem mem_rsplitCandidates {s pre rest : Str} :
    (pre, rest) ∈ rsplitCandidates s ↔ IsBoundaryPrefix pre s rest := by
  unfold rsplitCandidates IsBoundaryPrefix
  simp only [List.mem_cons, Prod.mk.injEq, List.mem_reverse, mem_cutsAt]

end GIVerif.Naming

namespace GIVerif.Naming
open GIVerif.Py

/-! ### the namespace container: uniqueness invariant -/

/-- C identifiers of the elements of a list that are not moved-to copies -/
def canonOf (l : List Node) : List Str :=
  (l.filter (fun n => n.hasCid && n.movedTo.isNone)).map (·.cid)

theorem canonCids_eq (st : NsState) :
    st.canonCids = canonOf (st.names.map (·.2)) ++ canonOf (st.owned.map (·.fn)) := rfl

theorem canonOf_append (a b : List Node) : canonOf (a ++ b) = canonOf a ++ canonOf b := by
  simp [canonOf]

theorem canonOf_sublist {a b : List Node} (h : a.Sublist b) : (canonOf a).Sublist (canonOf b) :=
  (h.filter _).map _

/-- GIR names are unique, every key is the node's name, and no two elements that are not
    moved-to copies carry the same C identifier -/
structure NsState.Inv (st : NsState) : Prop where
  keys : (st.names.map (·.1)).Nodup
  named : ∀ p ∈ st.names, p.1 = p.2.name
  cids : st.canonCids.Nodup

theorem Inv_init : NsState.Inv ⟨[], []⟩ := ⟨by simp, by simp, by simp [NsState.canonCids]⟩

theorem Inv_remove {st : NsState} (h : st.Inv) (name : Str) : (st.remove name).Inv := by
  have hsub : (st.names.filter (fun p => p.1 != name)).Sublist st.names := List.filter_sublist
  refine ⟨(hsub.map _).nodup h.keys, ?_, ?_⟩
  · intro p hp
    exact h.named p (List.mem_filter.mp hp).1
  · rw [canonCids_eq]
    have hb : (canonOf (st.names.map (·.2)) ++ canonOf (st.owned.map (·.fn))).Nodup := by
      rw [← canonCids_eq]; exact h.cids
    exact (List.Sublist.append (canonOf_sublist (hsub.map _)) (List.Sublist.refl _)).nodup hb

theorem Inv_append {st st' : NsState} {n : Node} (h : st.Inv) (ha : st.append n = .ok st') : st'.Inv := by
  unfold NsState.append at ha
  split at ha
  · cases ha
  · rename_i hkey
    split at ha
    · cases ha
    · rename_i hcid
      cases ha
      have hkey' : n.name ∉ st.names.map (·.1) := by
        intro hm
        apply hkey
        obtain ⟨p, hp, hpn⟩ := List.mem_map.mp hm
        exact List.any_eq_true.mpr ⟨p, hp, by simp [hpn]⟩
      refine ⟨?_, ?_, ?_⟩
      · simp only [List.map_append, List.map_cons, List.map_nil]
        rw [List.nodup_append]
        refine ⟨h.keys, by simp, ?_⟩
        intro a ha b hb
        simp only [List.mem_singleton] at hb
        subst hb
        rintro rfl
        exact hkey' ha
      · intro p hp
        rcases List.mem_append.mp hp with hp | hp
        · exact h.named p hp
        · simp only [List.mem_singleton] at hp
          subst hp; rfl
      · rw [canonCids_eq]
        simp only [List.map_append, List.map_cons, List.map_nil, canonOf_append]
        have hbase : (canonOf (st.names.map (·.2)) ++ canonOf (st.owned.map (·.fn))).Nodup := by
          rw [← canonCids_eq]; exact h.cids
        by_cases hc : (n.hasCid && n.movedTo.isNone) = true
        · have hnot : n.cid ∉ st.canonCids := by
            intro hm
            apply hcid
            simp [hc, hm]
          have h1 : canonOf [n] = [n.cid] := by simp [canonOf, hc]
          rw [h1]
          have hperm : (canonOf (st.names.map (·.2)) ++ [n.cid] ++ canonOf (st.owned.map (·.fn))).Perm
              (n.cid :: (canonOf (st.names.map (·.2)) ++ canonOf (st.owned.map (·.fn)))) := by
            rw [List.append_assoc]
            exact (List.perm_middle)
          rw [hperm.nodup_iff, List.nodup_cons]
          exact ⟨by rw [← canonCids_eq]; exact hnot, hbase⟩
        · have h1 : canonOf [n] = [] := by simp [canonOf, hc]
          rw [h1]
          simpa using hbase

theorem Inv_appendReplace {st st' : NsState} {n : Node} (h : st.Inv)
    (ha : st.appendReplace n = .ok st') : st'.Inv :=
  Inv_append (Inv_remove h n.name) ha

/-- in-place updates of nodes that touch neither name, C identifier nor the moved-to flag -/
theorem Inv_frame {st : NsState} (h : st.Inv) (u : Str × Node → Str × Node)
    (hu : ∀ p, (u p).1 = p.1 ∧ (u p).2.name = p.2.name ∧ (u p).2.cid = p.2.cid ∧
      (u p).2.hasCid = p.2.hasCid ∧ (u p).2.movedTo = p.2.movedTo) :
    NsState.Inv { st with names := st.names.map u } := by
  have hk : (st.names.map u).map (·.1) = st.names.map (·.1) := by
    rw [List.map_map]
    exact List.map_congr_left (fun p _ => (hu p).1)
  have hc : canonOf ((st.names.map u).map (·.2)) = canonOf (st.names.map (·.2)) := by
    simp only [canonOf, List.map_map]
    induction st.names with
    | nil => rfl
    | cons p ps ih =>
      obtain ⟨_, _, h3, h4, h5⟩ := hu p
      simp only [List.map_cons, List.filter_cons, Function.comp, h4, h5]
      split
      · simp only [List.map_cons, h3, ih]
      · exact ih
  refine ⟨by rw [hk]; exact h.keys, ?_, ?_⟩
  · intro p hp
    obtain ⟨q, hq, rfl⟩ := List.mem_map.mp hp
    rw [(hu q).1, (hu q).2.1]
    exact h.named q hq
  · rw [canonCids_eq]
    simp only
    rw [hc, ← canonCids_eq]
    exact h.cids

end GIVerif.Naming

namespace GIVerif.Naming
open GIVerif.Py

theorem perm_move_last {α : Type} (a x b c : List α) : (a ++ x ++ b ++ c).Perm (a ++ b ++ (c ++ x)) := by
  simp only [List.append_assoc]
  refine List.Perm.append_left a ?_
  rw [← List.append_assoc b c x]
  exact List.perm_append_comm

/-- the entry found by `Namespace.get` splits the (key-unique) name list -/
theorem get_decomp {st : NsState} (h : st.Inv) {fname : Str} {f : Node} (hg : st.get fname = some f) :
    ∃ l1 l2, st.names = l1 ++ (fname, f) :: l2 ∧ (∀ p ∈ l1, (p.1 != fname) = true) ∧
      (∀ p ∈ l2, (p.1 != fname) = true) := by
  unfold NsState.get at hg
  cases hf : st.names.find? (fun p => p.1 == fname) with
  | none => simp [hf] at hg
  | some p =>
    rw [hf] at hg
    simp only [Option.map_some, Option.some.injEq] at hg
    obtain ⟨hp, as, bs, hl, hno⟩ := List.find?_eq_some_iff_append.mp hf
    have hp1 : p.1 = fname := by simpa using hp
    obtain ⟨k, v⟩ := p
    simp only at hp1 hg
    subst hp1 hg
    refine ⟨as, bs, hl, ?_, ?_⟩
    · intro q hq
      have := hno q hq
      simpa using this
    · intro q hq
      have hk := h.keys
      rw [hl] at hk
      simp only [List.map_append, List.map_cons] at hk
      have := (List.nodup_append.mp hk).2.1
      rw [List.nodup_cons] at this
      have hne : k ∉ bs.map (·.1) := this.1
      simp only [bne_iff_ne, ne_eq]
      intro heq
      exact hne (List.mem_map.mpr ⟨q, hq, heq⟩)

theorem filter_ne_decomp {l1 l2 : List (Str × Node)} {fname : Str} {f : Node}
    (h1 : ∀ p ∈ l1, (p.1 != fname) = true) (h2 : ∀ p ∈ l2, (p.1 != fname) = true) :
    (l1 ++ (fname, f) :: l2).filter (fun p => p.1 != fname) = l1 ++ l2 := by
  rw [List.filter_append, List.filter_cons]
  simp only [bne_self_eq_false, Bool.false_eq_true, ↓reduceIte]
  rw [List.filter_eq_self.mpr h1, List.filter_eq_self.mpr h2]

theorem Inv_pairMove {st : NsState} (h : st.Inv) (fname owner : Str) (role : Role) (newName : Str)
    (mark : Node → Node)
    (hmark : ∀ n, (mark n).cid = n.cid ∧ (mark n).hasCid = n.hasCid ∧ (mark n).movedTo = n.movedTo) :
    (st.pairMove fname owner role newName mark).Inv := by
  unfold NsState.pairMove
  cases hg : st.get fname with
  | none => exact h
  | some f =>
    obtain ⟨l1, l2, hl, h1, h2⟩ := get_decomp h hg
    have hrem := Inv_remove h fname
    simp only [NsState.float]
    refine ⟨hrem.keys, hrem.named, ?_⟩
    rw [canonCids_eq]
    simp only [NsState.remove, hl, filter_ne_decomp h1 h2, List.map_append, canonOf_append, List.map_cons,
      List.map_nil]
    have hb := h.cids
    rw [canonCids_eq, hl] at hb
    simp only [List.map_append, List.map_cons, canonOf_append] at hb
    have hcf : canonOf [mark { f with name := newName }] = canonOf [f] := by
      have e1 : (mark { f with name := newName }).cid = f.cid := (hmark _).1
      have e2 : (mark { f with name := newName }).hasCid = f.hasCid := (hmark _).2.1
      have e3 : (mark { f with name := newName }).movedTo = f.movedTo := (hmark _).2.2
      simp only [canonOf, List.filter_cons, e2, e3, List.filter_nil]
      split <;> simp [e1]
    rw [hcf]
    have hsplit : canonOf (f :: l2.map (·.2)) = canonOf [f] ++ canonOf (l2.map (·.2)) := by
      rw [← canonOf_append]; rfl
    rw [hsplit, ← List.append_assoc] at hb
    exact (perm_move_last _ _ _ _).nodup_iff.mp hb

theorem Inv_pairCompat {st : NsState} (h : st.Inv) (fname owner newName : Str) :
    (st.pairCompat fname owner newName).Inv := by
  unfold NsState.pairCompat
  cases hg : st.get fname with
  | none => exact h
  | some f =>
    refine ⟨h.keys, h.named, ?_⟩
    rw [canonCids_eq]
    simp only [List.map_append, canonOf_append, List.map_cons, List.map_nil]
    have : canonOf [{ f with name := newName, movedTo := some f.name, isMethod := true,
                              params := f.params.drop 1 }] = [] := by
      simp [canonOf]
    rw [this, List.append_nil, ← canonCids_eq]
    exact h.cids

theorem Inv_pairClone {st : NsState} (h : st.Inv) (fname owner newName : Str) :
    (st.pairClone fname owner newName).Inv := by
  unfold NsState.pairClone
  cases hg : st.get fname with
  | none => exact h
  | some f =>
    obtain ⟨l1, l2, hl, h1, h2⟩ := get_decomp h hg
    have hid : ∀ (l : List (Str × Node)), (∀ p ∈ l, (p.1 != fname) = true) →
        l.map (fun p => if (p.1 == fname) = true then
          (p.1, { p.2 with movedTo := some (owner ++ ['.'] ++ newName) }) else p) = l := by
      intro l hlne
      conv => rhs; rw [← List.map_id l]
      apply List.map_congr_left
      intro p hp
      have := hlne p hp
      simp only [bne_iff_ne, ne_eq] at this
      simp [this]
    refine ⟨?_, ?_, ?_⟩
    · simp only [List.map_map]
      have : (st.names.map ((fun x => x.1) ∘ fun p => if (p.1 == fname) = true then
          (p.1, { p.2 with movedTo := some (owner ++ ['.'] ++ newName) }) else p)) = st.names.map (·.1) := by
        apply List.map_congr_left
        intro p _
        simp only [Function.comp]
        split <;> rfl
      rw [this]; exact h.keys
    · intro p hp
      simp only [List.mem_map] at hp
      obtain ⟨q, hq, rfl⟩ := hp
      split
      · exact h.named q hq
      · exact h.named q hq
    · rw [canonCids_eq]
      simp only [hl, List.map_append, List.map_cons, hid l1 h1, hid l2 h2, beq_self_eq_true, ↓reduceIte,
        canonOf_append, List.map_nil]
      have hb := h.cids
      rw [canonCids_eq, hl] at hb
      simp only [List.map_append, List.map_cons, canonOf_append] at hb
      have hsplit : ∀ (g : Node), canonOf (g :: l2.map (·.2)) = canonOf [g] ++ canonOf (l2.map (·.2)) := by
        intro g; rw [← canonOf_append]; rfl
      rw [hsplit] at hb ⊢
      have hmoved : canonOf [{ f with movedTo := some (owner ++ ['.'] ++ newName) }] = [] := by
        simp [canonOf]
      have hclone : canonOf [{ f with name := newName }] = canonOf [f] := by
        simp only [canonOf, List.filter_cons, List.filter_nil]
        split <;> simp
      rw [hmoved, hclone, List.nil_append]
      rw [← List.append_assoc] at hb
      exact (perm_move_last _ _ _ _).nodup_iff.mp hb

end GIVerif.Naming

namespace GIVerif.Naming
open GIVerif.Py

/-! ### the invariant along the whole pipeline model -/

theorem Inv_appendNewNode {st st' : NsState} {n : Node} (h : st.Inv)
    (ha : appendNewNode st n = .ok st') : st'.Inv := by
  unfold appendNewNode at ha
  split at ha
  · split at ha
    · cases ha; exact h
    · split at ha
      · cases ha; exact h
      · cases ha
  · exact Inv_append h ha

theorem foldE_inv {σ α ε : Type} (P : σ → Prop) (f : σ → α → Except ε σ)
    (hf : ∀ s a s', P s → f s a = .ok s' → P s') :
    ∀ (l : List α) (s s' : σ), P s → foldE f s l = .ok s' → P s' := by
  intro l
  induction l with
  | nil => intro s s' hs h; simp only [foldE] at h; cases h; exact hs
  | cons a as ih =>
    intro s s' hs h
    simp only [foldE] at h
    cases hfa : f s a with
    | error e => rw [hfa] at h; cases h
    | ok s1 =>
      rw [hfa] at h
      exact ih s1 s' (hf s a s1 hs hfa) h

theorem Inv_parseOne {cfg : Cfg} {ps ps' : ParseSt} {d : Decl} (h : ps.ns.Inv)
    (hp : parseOne cfg ps d = .ok ps') : ps'.ns.Inv := by
  unfold parseOne at hp
  cases ht : traverseOne cfg ps.tagNs ps.next d with
  | error e => rw [ht] at hp; cases hp
  | ok r =>
    obtain ⟨node?, tagNs⟩ := r
    rw [ht] at hp
    cases node? with
    | none => cases hp; exact h
    | some node =>
      simp only at hp
      by_cases hn : node.name.isEmpty = true
      · rw [if_pos hn] at hp; cases hp; exact h
      · rw [if_neg hn] at hp
        cases ha : appendNewNode ps.ns node with
        | error e => rw [ha] at hp; cases hp
        | ok ns => rw [ha] at hp; cases hp; exact Inv_appendNewNode h ha

theorem Inv_parseDecls {cfg : Cfg} : ∀ (ds : List Decl) (ps ps' : ParseSt), ps.ns.Inv →
    parseDecls cfg ps ds = .ok ps' → ps'.ns.Inv := by
  intro ds
  induction ds with
  | nil => intro ps ps' h hp; simp only [parseDecls] at hp; cases hp; exact h
  | cons d ds ih =>
    intro ps ps' h hp
    simp only [parseDecls] at hp
    cases h1 : parseOne cfg ps d with
    | error e => rw [h1] at hp; cases hp
    | ok ps1 =>
      rw [h1] at hp
      exact ih ps1 ps' (Inv_parseOne h h1) hp

theorem Inv_promoteTags {cfg : Cfg} : ∀ (l : List (Str × Node)) (ns ns' : NsState), ns.Inv →
    promoteTags cfg ns l = .ok ns' → ns'.Inv := by
  intro l
  induction l with
  | nil => intro ns ns' h hp; simp only [promoteTags] at hp; cases hp; exact h
  | cons x xs ih =>
    intro ns ns' h hp
    obtain ⟨tag, c⟩ := x
    simp only [promoteTags] at hp
    split at hp
    · exact ih ns ns' h hp
    · split at hp
      · cases hp
      · exact ih ns ns' h hp
      · split at hp
        · cases hp
        · rename_i ns1 hns1
          exact ih ns1 ns' (Inv_appendNewNode h hns1) hp

theorem Inv_parse {cfg : Cfg} {decls : List Decl} {ns : NsState} (hp : parse cfg decls = .ok ns) : ns.Inv := by
  unfold parse at hp
  split at hp
  · cases hp
  · rename_i ps hps
    exact Inv_promoteTags _ _ _ (Inv_parseDecls decls _ ps Inv_init hps) hp

theorem Inv_dumpOne {cfg : Cfg} {st st' : NsState × List DumpEntry × Nat} {e : DumpEntry} (h : st.1.Inv)
    (hd : dumpOne cfg st e = .ok st') : st'.1.Inv := by
  unfold dumpOne at hd
  cases hn : dumpName cfg e with
  | error x => rw [hn] at hd; cases hd
  | ok r =>
    obtain ⟨pfx, name⟩ := r
    rw [hn] at hd
    simp only at hd
    by_cases hb : (e.kind == DumpKind.boxed) = true
    · rw [if_pos hb] at hd; cases hd; exact h
    · rw [if_neg hb] at hd
      cases ha : st.1.appendReplace (dumpNode st.1 st.2.2 e pfx name) with
      | error x => rw [ha] at hd; cases hd
      | ok ns' => rw [ha] at hd; cases hd; exact Inv_appendReplace h ha

theorem Inv_pairBoxed {cfg : Cfg} {st st' : NsState × Nat} {e : DumpEntry} (h : st.1.Inv)
    (hd : pairBoxed cfg st e = .ok st') : st'.1.Inv := by
  unfold pairBoxed at hd
  split at hd
  · cases hd
  · rename_i pfx name _
    split at hd
    · split at hd
      · cases hd
      · rename_i ns' hns'
        cases hd
        exact Inv_append h hns'
    · split at hd
      · cases hd
        exact Inv_frame h _ (by
          intro p
          split <;> simp)
      · cases hd; exact h

theorem Inv_removeGetType {cfg : Cfg} {st st' : NsState} {gt : Str} (h : st.Inv)
    (hr : removeGetType cfg st gt = .ok st') : st'.Inv := by
  unfold removeGetType at hr
  split at hr
  · split at hr
    · split at hr
      · cases hr; exact Inv_remove h _
      · cases hr
    · cases hr
  · cases hr

theorem Inv_applyDump {cfg : Cfg} {ns ns' : NsState} {dump : List DumpEntry} {next : Nat} (h : ns.Inv)
    (hd : applyDump cfg ns dump next = .ok ns') : ns'.Inv := by
  unfold applyDump at hd
  split at hd
  · cases hd
  · rename_i st1 h1
    split at hd
    · cases hd
    · rename_i st2 h2
      have i1 : st1.1.Inv :=
        foldE_inv (fun s => s.1.Inv) (dumpOne cfg) (fun s a s' hs hf => Inv_dumpOne hs hf) dump _ st1 h h1
      have i2 : st2.1.Inv :=
        foldE_inv (fun s => s.1.Inv) (pairBoxed cfg) (fun s a s' hs hf => Inv_pairBoxed hs hf) _ _ st2 i1 h2
      exact foldE_inv NsState.Inv (removeGetType cfg) (fun s a s' hs hf => Inv_removeGetType hs hf) _ _ ns' i2 hd

theorem Inv_resolveParents {env : Env} {st : NsState} (h : st.Inv) : (resolveParents env st).Inv :=
  Inv_frame h _ (by intro p; split <;> simp)

theorem Inv_applyForeign {l : List Str} {st : NsState} (h : st.Inv) : (applyForeign l st).Inv :=
  Inv_frame h _ (by intro p; split <;> simp)

theorem Inv_setupMethod {env : Env} {st : NsState} {f : Node} {sub : Str} (h : st.Inv) :
    (setupMethod env st f sub).Inv := by
  unfold setupMethod
  split
  · exact h
  · split
    · exact h
    · dsimp only
      split
      · exact Inv_pairCompat h _ _ _
      · exact Inv_pairMove h _ _ _ _ _ (by intro n; simp)

theorem Inv_pairStaticMethod {st st' : NsState} {f : Node} {sub : Str} (h : st.Inv)
    (hp : pairStaticMethod st f sub = some st') : st'.Inv := by
  unfold pairStaticMethod at hp
  split at hp
  · cases hp
  · split at hp
    · cases hp
    · split at hp
      · cases hp
      · split at hp
        · cases hp
          exact Inv_pairMove h _ _ _ _ _ (by intro n; simp)
        · split at hp
          · cases hp
            exact Inv_pairClone h _ _ _
          · cases hp

theorem Inv_pairFunction {env : Env} {st st' : NsState} {f : Node} (h : st.Inv)
    (hp : pairFunction env st f = .ok st') : st'.Inv := by
  unfold pairFunction at hp
  split at hp
  · cases hp; exact h
  · split at hp
    · split at hp
      · split at hp
        · cases hp
        · split at hp
          · cases hp
            exact Inv_pairMove h _ _ _ _ _ (by intro n; simp)
          · cases hp; exact h
        · split at hp
          · cases hp; exact Inv_setupMethod h
          · cases hp
            cases hs : pairStaticMethod st f _ with
            | none => simpa [hs] using h
            | some s1 => simpa [hs] using Inv_pairStaticMethod h hs
      · cases hp; exact h
    · cases hp; exact h

theorem Inv_pairAll {env : Env} {st st' : NsState} (h : st.Inv) (hp : pairAll env st = .ok st') : st'.Inv :=
  foldE_inv NsState.Inv (pairFunction env) (fun _ _ _ hs hf => Inv_pairFunction hs hf) _ _ st' h hp

theorem Inv_describe {inp : Input} {st : NsState} (hd : describe inp = .ok st) : st.Inv := by
  unfold describe at hd
  split at hd
  · cases hd
  · rename_i ns0 h0
    split at hd
    · cases hd
    · rename_i ns1 h1
      have i0 : ns0.Inv := Inv_parse h0
      have i1 : ns1.Inv := by
        split at h1
        · exact Inv_applyDump i0 h1
        · cases h1; exact i0
      exact Inv_pairAll (Inv_applyForeign (Inv_resolveParents i1)) hd

end GIVerif.Naming

namespace GIVerif.Naming
open GIVerif.Py

/-! ### ancestor walk of `_is_constructor` -/

/-- GI names met when following `parent_type` links upwards, the node itself first -/
def ancestorChain (env : Env) (st : NsState) : Nat → Option Target → List Str
  | 0, _ => []
  | _, none => []
  | fuel + 1, some p =>
    giName env p :: (match p.parent with
      | none => []
      | some ref => ancestorChain env st fuel (lookupGiname env st ref))

theorem giName_congr {env : Env} {a b : Target} (h1 : a.ns = b.ns) (h2 : a.name = b.name) :
    giName env a = giName env b := by
  unfold giName; rw [h1, h2]

theorem walk_found {env : Env} {st : NsState} {target : Target} :
    ∀ (fuel : Nat) (origin : Target), ancestorWalk env st target fuel origin = .found →
      giName env target ∈ ancestorChain env st fuel (some origin) := by
  intro fuel
  induction fuel with
  | zero => intro origin h; simp [ancestorWalk] at h
  | succ n ih =>
    intro origin h
    simp only [ancestorWalk] at h
    simp only [ancestorChain]
    split at h
    · rename_i hsame
      simp only [Bool.and_eq_true, beq_iff_eq] at hsame
      rw [giName_congr hsame.1 hsame.2]
      exact List.mem_cons_self
    · split at h
      · cases h
      · cases hp : origin.parent with
        | none => rw [hp] at h; cases h
        | some ref =>
          rw [hp] at h
          simp only at h ⊢
          cases hl : lookupGiname env st ref with
          | none => rw [hl] at h; cases h
          | some p =>
            rw [hl] at h
            exact List.mem_cons_of_mem _ (ih p h)

end GIVerif.Naming

namespace GIVerif.Naming
open GIVerif.Py

/-! ### CamelCase → underscores -/

theorem lowdig_not_up {c : Char} (h : isLowDig c = true) : isUp c = false := by
  simp only [isLowDig, isUp, inRanges, Gen.reLowerDigit, Gen.reUpper, List.any_cons, List.any_nil,
    Bool.or_false, Bool.or_eq_true, Bool.and_eq_true, decide_eq_true_eq, Bool.and_eq_false_iff,
    decide_eq_false_iff_not] at h ⊢
  omega

theorem underscore_not_up : isUp '_' = false := by decide

/-- an upper-case letter is copied by the first substitution and scanning resumes after it -/
theorem sub1_up {b : Char} (rest : Str) (hb : isUp b = true) : sub1 (b :: rest) = b :: sub1 rest := by
  cases rest with
  | nil => simp [sub1]
  | cons c r => simp [sub1, hb]

theorem sub1_step (a b : Char) (rest : Str) :
    sub1 (a :: b :: rest) =
      a :: ((if (!isUp a && isUp b) = true then ['_'] else []) ++ sub1 (b :: rest)) := by
  by_cases h : (!isUp a && isUp b) = true
  · have hb : isUp b = true := by simp only [Bool.and_eq_true] at h; exact h.2
    simp only [sub1, h, if_true, sub1_up rest hb]
    rfl
  · simp only [sub1, h]
    rfl

theorem sub1_ups (acr : Str) (hacr : ∀ c ∈ acr, isUp c = true) (rest : Str) :
    sub1 (acr ++ rest) = acr ++ sub1 rest := by
  induction acr with
  | nil => rfl
  | cons a as ih =>
    rw [List.cons_append, sub1_up _ (hacr a (by simp)), ih (fun c hc => hacr c (by simp [hc]))]
    rfl

/-- a word `[A-Z][a-z0-9]+` -/
def ProperWord (w : Char × Str) : Prop := isUp w.1 = true ∧ w.2 ≠ [] ∧ ∀ c ∈ w.2, isLowDig c = true

def wordStr (w : Char × Str) : Str := w.1 :: w.2

/-- CamelCase: the words written one after the other -/
def camel (ws : List (Char × Str)) : Str := (ws.map wordStr).flatten

/-- the words joined by `_` -/
def joined (ws : List (Char × Str)) : Str := join ['_'] (ws.map wordStr)

theorem joined_cons (w : Char × Str) (ws : List (Char × Str)) :
    joined (w :: ws) = wordStr w ++ (if ws = [] then [] else '_' :: joined ws) := by
  cases ws with
  | nil => simp [joined, join]
  | cons x xs => simp [joined, join]

theorem camel_cons (w : Char × Str) (ws : List (Char × Str)) :
    camel (w :: ws) = w.1 :: (w.2 ++ camel ws) := by
  simp [camel, wordStr]

theorem camel_head_up {ws : List (Char × Str)} (hws : ∀ w ∈ ws, ProperWord w) (hne : ws ≠ []) :
    ∃ h r, camel ws = h :: r ∧ isUp h = true := by
  cases ws with
  | nil => exact absurd rfl hne
  | cons w ws' => exact ⟨w.1, w.2 ++ camel ws', camel_cons w ws', (hws w (by simp)).1⟩

/-- lower-case run followed by the remaining words -/
theorem sub1_low_run (ws : List (Char × Str)) (hws : ∀ w ∈ ws, ProperWord w)
    (hA : sub1 (camel ws) = joined ws) :
    ∀ (t : Str) (c : Char), isLowDig c = true → (∀ x ∈ t, isLowDig x = true) →
      sub1 (c :: (t ++ camel ws)) = c :: (t ++ (if ws = [] then [] else '_' :: joined ws)) := by
  intro t
  induction t with
  | nil =>
    intro c hc _
    by_cases hne : ws = []
    · subst hne; simp [camel, sub1]
    · obtain ⟨h, r, hcam, hup⟩ := camel_head_up hws hne
      simp only [List.nil_append, hne, if_false]
      rw [hcam, sub1_step, ← hcam, hA]
      simp [lowdig_not_up hc, hup]
  | cons d t' ih =>
    intro c hc ht
    have hd : isLowDig d = true := ht d (by simp)
    rw [List.cons_append, sub1_step, ih d hd (fun x hx => ht x (by simp [hx]))]
    simp [lowdig_not_up hd]

theorem sub1_camel : ∀ (ws : List (Char × Str)), (∀ w ∈ ws, ProperWord w) → sub1 (camel ws) = joined ws := by
  intro ws
  induction ws with
  | nil => intro _; rfl
  | cons w ws' ih =>
    intro hws
    have hws' : ∀ w ∈ ws', ProperWord w := fun x hx => hws x (by simp [hx])
    obtain ⟨hup, hne, hlow⟩ := hws w (by simp)
    rw [camel_cons, sub1_up _ hup, joined_cons]
    cases ht : w.2 with
    | nil => exact absurd ht hne
    | cons c t =>
      rw [ht] at hlow
      rw [List.cons_append, sub1_low_run ws' hws' (ih hws') t c (hlow c (by simp))
        (fun x hx => hlow x (by simp [hx]))]
      simp [wordStr, ht]

/-- no capital is directly followed by another capital -/
def NoUU : Str → Prop
  | [] => True
  | a :: r => (isUp a = true → ∀ b ∈ r.head?, isUp b = false) ∧ NoUU r

theorem sub2_skip (a : Char) (r : Str) (h : isUp a = true → ∀ b ∈ r.head?, isUp b = false) :
    sub2 (a :: r) = a :: sub2 r := by
  match r with
  | [] => simp [sub2]
  | [b] => simp [sub2]
  | [b, c] => simp [sub2]
  | b :: c :: d :: rest =>
    have : (isUp a && isUp b) = false := by
      cases ha : isUp a with
      | false => rfl
      | true => simp [h ha b (by simp)]
    simp [sub2, this]

theorem sub2_noUU : ∀ (s : Str), NoUU s → sub2 s = s := by
  intro s
  induction s with
  | nil => intro _; simp [sub2]
  | cons a r ih =>
    intro h
    rw [sub2_skip a r h.1, ih h.2]

theorem NoUU_low_append (t R : Str) (ht : ∀ x ∈ t, isLowDig x = true) (hR : NoUU R) : NoUU (t ++ R) := by
  induction t with
  | nil => exact hR
  | cons c t' ih =>
    refine ⟨?_, ih (fun x hx => ht x (by simp [hx]))⟩
    intro hup
    rw [lowdig_not_up (ht c (by simp))] at hup
    cases hup

theorem NoUU_joined : ∀ (ws : List (Char × Str)), (∀ w ∈ ws, ProperWord w) → NoUU (joined ws) := by
  intro ws
  induction ws with
  | nil => intro _; simp [joined, join, NoUU]
  | cons w ws' ih =>
    intro hws
    obtain ⟨hup, hne, hlow⟩ := hws w (by simp)
    have hR : NoUU (if ws' = [] then [] else '_' :: joined ws') := by
      split
      · trivial
      · exact ⟨(by intro h; rw [underscore_not_up] at h; cases h), ih (fun x hx => hws x (by simp [hx]))⟩
    rw [joined_cons]
    refine ⟨?_, NoUU_low_append _ _ hlow hR⟩
    intro _ b hb
    cases ht : w.2 with
    | nil => exact absurd ht hne
    | cons c t =>
      rw [ht] at hb hlow
      have hcb : c = b := by simpa using hb
      subst hcb
      exact lowdig_not_up (hlow c (by simp))

theorem NoUU_tail {a : Char} {r : Str} (h : NoUU (a :: r)) : NoUU r := h.2

end GIVerif.Naming

namespace GIVerif.Naming
open GIVerif.Py

theorem up_not_lowdig {c : Char} (h : isUp c = true) : isLowDig c = false := by
  cases hl : isLowDig c with
  | false => rfl
  | true => rw [lowdig_not_up hl] at h; cases h

/-- a run of capitals followed by a word: the second substitution cuts before the LAST capital -/
theorem sub2_acronym (acr : Str) (hacr : ∀ x ∈ acr, isUp x = true) (a b h c : Char) (R : Str)
    (ha : isUp a = true) (hb : isUp b = true) (hh : isUp h = true) (hc : isLowDig c = true) :
    sub2 (acr ++ a :: b :: h :: c :: R) = acr ++ a :: b :: '_' :: h :: c :: sub2 R := by
  induction acr with
  | nil => simp [sub2, ha, hb, hh, hc]
  | cons x acr' ih =>
    have ih' := ih (fun y hy => hacr y (by simp [hy]))
    match acr', hacr, ih' with
    | [], _, ih' =>
      simp only [List.nil_append, List.cons_append] at ih' ⊢
      simp only [sub2, up_not_lowdig hh, Bool.and_false, Bool.false_eq_true, ↓reduceIte, ha, hb, hh, hc,
        Bool.and_self]
    | [y], _, ih' =>
      simp only [List.cons_append, List.nil_append] at ih' ⊢
      rw [← ih']
      simp only [sub2, up_not_lowdig hb, Bool.and_false, Bool.false_eq_true, ↓reduceIte]
    | [y, z], _, ih' =>
      simp only [List.cons_append, List.nil_append] at ih' ⊢
      rw [← ih']
      simp only [sub2, up_not_lowdig ha, Bool.and_false, Bool.false_eq_true, ↓reduceIte]
    | y :: z :: w :: rest, hacr, ih' =>
      simp only [List.cons_append] at ih' ⊢
      rw [← ih']
      have hw : isUp w = true := hacr w (by simp)
      simp only [sub2, up_not_lowdig hw, Bool.and_false, Bool.false_eq_true, ↓reduceIte]

/-- the first two characters of the joined words of a non-empty list of proper words -/
theorem joined_shape {ws : List (Char × Str)} (hws : ∀ w ∈ ws, ProperWord w) (hne : ws ≠ []) :
    ∃ h c X, joined ws = h :: c :: X ∧ isUp h = true ∧ isLowDig c = true := by
  cases ws with
  | nil => exact absurd rfl hne
  | cons w ws' =>
    obtain ⟨hup, hne', hlow⟩ := hws w (by simp)
    cases ht : w.2 with
    | nil => exact absurd ht hne'
    | cons c t =>
      refine ⟨w.1, c, t ++ (if ws' = [] then [] else '_' :: joined ws'), ?_, hup, ?_⟩
      · rw [joined_cons]; simp [wordStr, ht]
      · rw [ht] at hlow; exact hlow c (by simp)

theorem toUnderscoresNoprefix_camel (ws : List (Char × Str)) (hws : ∀ w ∈ ws, ProperWord w) :
    toUnderscoresNoprefix (camel ws) = joined ws := by
  unfold toUnderscoresNoprefix
  rw [sub1_camel ws hws, sub2_noUU _ (NoUU_joined ws hws)]

theorem sub3_joined (ws : List (Char × Str)) (hws : ∀ w ∈ ws, ProperWord w) :
    sub3 (joined ws) = joined ws := by
  by_cases hne : ws = []
  · subst hne; simp [joined, join, sub3]
  · obtain ⟨h, c, X, hj, _, hc⟩ := joined_shape hws hne
    rw [hj]
    simp [sub3, lowdig_not_up hc]

theorem toUnderscoresNoprefix_acronym (acr : Str) (a b : Char) (ws : List (Char × Str))
    (hacr : ∀ x ∈ acr, isUp x = true) (ha : isUp a = true) (hb : isUp b = true)
    (hws : ∀ w ∈ ws, ProperWord w) (hne : ws ≠ []) :
    toUnderscoresNoprefix (acr ++ a :: b :: camel ws) = acr ++ a :: b :: '_' :: joined ws := by
  unfold toUnderscoresNoprefix
  have h1 : sub1 (acr ++ a :: b :: camel ws) = acr ++ a :: b :: joined ws := by
    have : acr ++ a :: b :: camel ws = (acr ++ [a, b]) ++ camel ws := by simp
    rw [this, sub1_ups _ (by
      intro c hc
      rcases List.mem_append.mp hc with hc | hc
      · exact hacr c hc
      · simp only [List.mem_cons, List.not_mem_nil, or_false] at hc
        rcases hc with rfl | rfl <;> assumption), sub1_camel ws hws]
    simp
  rw [h1]
  obtain ⟨h, c, X, hj, hh, hc⟩ := joined_shape hws hne
  have hX : NoUU X := by
    have := NoUU_joined ws hws
    rw [hj] at this
    exact this.2.2
  rw [hj, sub2_acronym acr hacr a b h c X ha hb hh hc, sub2_noUU X hX]

theorem toUnderscoresNoprefix_single (a : Char) (ws : List (Char × Str)) (ha : isUp a = true)
    (hws : ∀ w ∈ ws, ProperWord w) (hne : ws ≠ []) :
    toUnderscoresNoprefix (a :: camel ws) = a :: joined ws := by
  unfold toUnderscoresNoprefix
  rw [sub1_up _ ha, sub1_camel ws hws]
  obtain ⟨h, c, X, hj, hh, hc⟩ := joined_shape hws hne
  have hN := NoUU_joined ws hws
  rw [hj] at hN ⊢
  have hstep : sub2 (a :: h :: c :: X) = a :: sub2 (h :: c :: X) := by
    cases X with
    | nil => simp [sub2]
    | cons d X' => simp [sub2, lowdig_not_up hc]
  rw [hstep, sub2_noUU _ hN]

theorem toUnderscores_single (a : Char) (ws : List (Char × Str)) (ha : isUp a = true)
    (hws : ∀ w ∈ ws, ProperWord w) (hne : ws ≠ []) :
    toUnderscores (a :: camel ws) = a :: '_' :: joined ws := by
  have h := toUnderscoresNoprefix_single a ws ha hws hne
  unfold toUnderscoresNoprefix at h
  unfold toUnderscores
  rw [h]
  obtain ⟨h', c, X, hj, hh, _⟩ := joined_shape hws hne
  rw [hj]
  simp [sub3, ha, hh]

end GIVerif.Naming

namespace GIVerif.Naming
open GIVerif.Py

theorem getConstructorClass_some {env : Env} {st : NsState} {f : Node} {sub : Str} {origin : Target}
    (h : getConstructorClass env st f sub = some origin) :
    (∃ owner rest, splitUscoredByType (typeMap st) sub = some (owner, rest) ∧
        (st.get owner).map targetOfNode = some origin) ∨ f.isCtor = true := by
  unfold getConstructorClass at h
  cases hs : splitUscoredByType (typeMap st) sub with
  | some p =>
    obtain ⟨owner, rest⟩ := p
    rw [hs] at h
    exact Or.inl ⟨owner, rest, rfl, h⟩
  | none =>
    rw [hs] at h
    right
    cases hc : f.isCtor with
    | true => rfl
    | false => simp [hc] at h

end GIVerif.Naming

namespace GIVerif.Naming
open GIVerif.Py

/-! ### only public symbols of the current namespace are described -/

/-- a function / constant element carries a C name that does not start with an underscore and
    that the splitter attributes to the CURRENT namespace -/
def PublicSym (cfg : Cfg) (n : Node) : Prop :=
  (n.kind = Kind.function ∨ n.kind = Kind.constant) → (publicSymbolName cfg n.cid).isSome = true

theorem PublicSym_of_kind {cfg : Cfg} {n : Node} (h1 : n.kind ≠ Kind.function) (h2 : n.kind ≠ Kind.constant) :
    PublicSym cfg n := by
  intro h; rcases h with h | h
  · exact absurd h h1
  · exact absurd h h2

theorem PublicSym_congr {cfg : Cfg} {n m : Node} (hk : m.kind = n.kind) (hc : m.cid = n.cid)
    (h : PublicSym cfg n) : PublicSym cfg m := by
  unfold PublicSym at *
  rw [hk, hc]; exact h

structure NsState.Pub (cfg : Cfg) (st : NsState) : Prop where
  top : ∀ p ∈ st.names, PublicSym cfg p.2
  own : ∀ o ∈ st.owned, PublicSym cfg o.fn

theorem Pub_init {cfg : Cfg} : NsState.Pub cfg ⟨[], []⟩ := ⟨by simp, by simp⟩

theorem Pub_remove {cfg : Cfg} {st : NsState} (h : st.Pub cfg) (name : Str) : (st.remove name).Pub cfg :=
  ⟨fun p hp => h.top p (List.mem_of_mem_filter hp), h.own⟩

theorem Pub_append {cfg : Cfg} {st st' : NsState} {n : Node} (h : st.Pub cfg) (hn : PublicSym cfg n)
    (ha : st.append n = .ok st') : st'.Pub cfg := by
  unfold NsState.append at ha
  split at ha
  · cases ha
  · split at ha
    · cases ha
    · cases ha
      refine ⟨?_, h.own⟩
      intro p hp
      rcases List.mem_append.mp hp with hp | hp
      · exact h.top p hp
      · simp only [List.mem_singleton] at hp; subst hp; exact hn

theorem Pub_appendReplace {cfg : Cfg} {st st' : NsState} {n : Node} (h : st.Pub cfg) (hn : PublicSym cfg n)
    (ha : st.appendReplace n = .ok st') : st'.Pub cfg :=
  Pub_append (Pub_remove h _) hn ha

theorem Pub_frame {cfg : Cfg} {st : NsState} (h : st.Pub cfg) (u : Str × Node → Str × Node)
    (hu : ∀ p, (u p).2.kind = p.2.kind ∧ (u p).2.cid = p.2.cid) :
    NsState.Pub cfg { st with names := st.names.map u } := by
  refine ⟨?_, h.own⟩
  intro p hp
  obtain ⟨q, hq, rfl⟩ := List.mem_map.mp hp
  exact PublicSym_congr (hu q).1 (hu q).2 (h.top q hq)

theorem get_mem {st : NsState} {name : Str} {f : Node} (hg : st.get name = some f) :
    ∃ p ∈ st.names, p.2 = f := by
  unfold NsState.get at hg
  cases hf : st.names.find? (fun p => p.1 == name) with
  | none => rw [hf] at hg; cases hg
  | some p =>
    rw [hf] at hg
    simp only [Option.map_some, Option.some.injEq] at hg
    exact ⟨p, List.mem_of_find?_eq_some hf, hg⟩

theorem Pub_get {cfg : Cfg} {st : NsState} (h : st.Pub cfg) {name : Str} {f : Node}
    (hg : st.get name = some f) : PublicSym cfg f := by
  obtain ⟨p, hp, rfl⟩ := get_mem hg
  exact h.top p hp

theorem Pub_pairMove {cfg : Cfg} {st : NsState} (h : st.Pub cfg) (fname owner : Str) (role : Role)
    (newName : Str) (mark : Node → Node) (hm : ∀ n, (mark n).kind = n.kind ∧ (mark n).cid = n.cid) :
    (st.pairMove fname owner role newName mark).Pub cfg := by
  unfold NsState.pairMove
  split
  · exact h
  · rename_i f hg
    have hr := Pub_remove h fname
    refine ⟨hr.top, ?_⟩
    intro o ho
    simp only [NsState.float] at ho
    rcases List.mem_append.mp ho with ho | ho
    · exact hr.own o ho
    · simp only [List.mem_singleton] at ho; subst ho
      exact PublicSym_congr (n := f) (by rw [(hm _).1]) (by rw [(hm _).2]) (Pub_get h hg)

theorem Pub_pairClone {cfg : Cfg} {st : NsState} (h : st.Pub cfg) (fname owner newName : Str) :
    (st.pairClone fname owner newName).Pub cfg := by
  unfold NsState.pairClone
  split
  · exact h
  · rename_i f hg
    refine ⟨?_, ?_⟩
    · intro p hp
      obtain ⟨q, hq, rfl⟩ := List.mem_map.mp hp
      have := h.top q hq
      split
      · exact PublicSym_congr rfl rfl this
      · exact this
    · intro o ho
      rcases List.mem_append.mp ho with ho | ho
      · exact h.own o ho
      · simp only [List.mem_singleton] at ho; subst ho
        exact PublicSym_congr (n := f) rfl rfl (Pub_get h hg)

theorem Pub_pairCompat {cfg : Cfg} {st : NsState} (h : st.Pub cfg) (fname owner newName : Str) :
    (st.pairCompat fname owner newName).Pub cfg := by
  unfold NsState.pairCompat
  split
  · exact h
  · rename_i f hg
    refine ⟨h.top, ?_⟩
    intro o ho
    rcases List.mem_append.mp ho with ho | ho
    · exact h.own o ho
    · simp only [List.mem_singleton] at ho; subst ho
      exact PublicSym_congr (n := f) rfl rfl (Pub_get h hg)

theorem Pub_appendNewNode {cfg : Cfg} {st st' : NsState} {n : Node} (h : st.Pub cfg) (hn : PublicSym cfg n)
    (ha : appendNewNode st n = .ok st') : st'.Pub cfg := by
  unfold appendNewNode at ha
  split at ha
  · split at ha
    · cases ha; exact h
    · split at ha
      · cases ha; exact h
      · cases ha
  · exact Pub_append h hn ha

/-- all nodes of the tag namespace are compounds -/
def TagsCompound (tagNs : List (Str × Node)) : Prop := ∀ p ∈ tagNs, isCompound p.2.kind = true

theorem compound_pub {cfg : Cfg} {n : Node} (h : isCompound n.kind = true) : PublicSym cfg n := by
  apply PublicSym_of_kind <;> intro hk <;> rw [hk] at h <;> revert h <;> decide

theorem tagLookup_mem {tagNs : List (Str × Node)} {t : Str} {c : Node} (h : tagLookup tagNs t = some c) :
    ∃ p ∈ tagNs, p.2 = c := by
  unfold tagLookup at h
  cases hf : tagNs.find? (fun p => p.1 == t) with
  | none => rw [hf] at h; cases h
  | some p =>
    rw [hf] at h
    simp only [Option.map_some, Option.some.injEq] at h
    exact ⟨p, List.mem_of_find?_eq_some hf, h⟩

theorem TagsCompound_tagSet {tagNs : List (Str × Node)} (h : TagsCompound tagNs) (t : Str) (n : Node)
    (hn : isCompound n.kind = true) : TagsCompound (tagSet tagNs t n) := by
  unfold tagSet
  split
  · intro p hp
    obtain ⟨q, hq, rfl⟩ := List.mem_map.mp hp
    split
    · exact hn
    · exact h q hq
  · intro p hp
    rcases List.mem_append.mp hp with hp | hp
    · exact h p hp
    · simp only [List.mem_singleton] at hp; subst hp; exact hn

theorem TagsCompound_registerTag {tagNs : List (Str × Node)} (h : TagsCompound tagNs) (n : Node) :
    TagsCompound (registerTag tagNs n) := by
  unfold registerTag
  split
  · split
    · rename_i hc
      simp only [Bool.and_eq_true] at hc
      intro p hp
      rcases List.mem_append.mp hp with hp | hp
      · exact h p hp
      · simp only [List.mem_singleton] at hp; subst hp; exact hc.1
    · exact h
  · exact h

theorem isCompound_ite (b : Bool) : isCompound (if b then Kind.union else Kind.record) = true := by
  cases b <;> decide

theorem stripSymbol_pub {cfg : Cfg} {ident name : Str} (hu : startsWith ident ['_'] = false)
    (hs : stripSymbol cfg ident = .ok name) : (publicSymbolName cfg ident).isSome = true := by
  unfold publicSymbolName
  rw [hu, hs]
  rfl

theorem noNode {cfg : Cfg} : ∀ n, (none : Option Node) = some n → PublicSym cfg n :=
  fun _ h => nomatch h

theorem oneNode {cfg : Cfg} {m : Node} (hm : PublicSym cfg m) : ∀ n, some m = some n → PublicSym cfg n :=
  fun n h => by cases h; exact hm

theorem symNode_pub {cfg : Cfg} {tagNs tagNs' : List (Str × Node)} {ident : Str} {mk : Str → Node}
    {node? : Option Node} (ht : TagsCompound tagNs) (hu : ¬ startsWith ident ['_'] = true)
    (hmk : ∀ name, (mk name).cid = ident)
    (h : (match stripSymbol cfg ident with
          | .error .crash => (.error .crash : Except PipeErr (Option Node × List (Str × Node)))
          | .error _ => .ok (none, tagNs)
          | .ok name => .ok (some (mk name), tagNs)) = .ok (node?, tagNs')) :
    (∀ n, node? = some n → PublicSym cfg n) ∧ TagsCompound tagNs' := by
  cases hs : stripSymbol cfg ident with
  | error e =>
    rw [hs] at h
    cases e with
    | crash => cases h
    | unknown => cases h; exact ⟨noNode, ht⟩
    | foreign ns => cases h; exact ⟨noNode, ht⟩
  | ok name =>
    rw [hs] at h
    cases h
    refine ⟨oneNode ?_, ht⟩
    intro _
    rw [hmk]
    exact stripSymbol_pub (by simpa using hu) hs

/-- `_traverse_one` only hands out public nodes and keeps the tag namespace made of compounds -/
theorem traverseOne_pub {cfg : Cfg} {tagNs tagNs' : List (Str × Node)} {uid : Nat} {d : Decl}
    {node? : Option Node} (ht : TagsCompound tagNs)
    (h : traverseOne cfg tagNs uid d = .ok (node?, tagNs')) :
    (∀ n, node? = some n → PublicSym cfg n) ∧ TagsCompound tagNs' := by
  cases d with
  | function ident ret params ma ca =>
    simp only [traverseOne] at h
    by_cases hu : startsWith ident ['_'] = true
    · rw [if_pos hu] at h; cases h; exact ⟨noNode, ht⟩
    · rw [if_neg hu] at h
      exact symNode_pub ht hu (fun _ => rfl) h
  | const ident =>
    simp only [traverseOne] at h
    by_cases hu : startsWith ident ['_'] = true
    · rw [if_pos hu] at h; cases h; exact ⟨noNode, ht⟩
    · rw [if_neg hu] at h
      exact symNode_pub ht hu (fun _ => rfl) h
  | «alias» ident =>
    simp only [traverseOne] at h
    split at h
    · split at h
      · cases h; exact ⟨noNode, ht⟩
      · cases h
        exact ⟨oneNode (PublicSym_of_kind (by simp) (by simp)), ht⟩
    · split at h
      · cases h
      · cases h; exact ⟨noNode, ht⟩
      · cases h
        exact ⟨oneNode (PublicSym_of_kind (by simp) (by simp)), ht⟩
  | callback ident =>
    simp only [traverseOne] at h
    split at h
    · cases h
    · cases h; exact ⟨noNode, ht⟩
    · cases h
      exact ⟨oneNode (PublicSym_of_kind (by simp) (by simp)), ht⟩
  | enum ident =>
    simp only [traverseOne] at h
    split at h
    · cases h
    · cases h; exact ⟨noNode, ht⟩
    · cases h
      exact ⟨oneNode (PublicSym_of_kind (by simp) (by simp)), ht⟩
  | typedefCompound ident tag isUnion =>
    simp only [traverseOne] at h
    split at h
    · cases h
    · cases h; exact ⟨noNode, ht⟩
    · rename_i name hname
      split at h
      · rename_i t c htc
        have hc : isCompound c.kind = true := by
          cases tag with
          | none => simp at htc
          | some t' =>
            simp only [Option.bind_some, Option.map_eq_some_iff] at htc
            obtain ⟨c', hl, he⟩ := htc
            cases he
            obtain ⟨p, hp, rfl⟩ := tagLookup_mem hl
            exact ht p hp
        split at h
        · cases h
          exact ⟨oneNode (compound_pub (isCompound_ite isUnion)), ht⟩
        · cases h
          exact ⟨oneNode (compound_pub hc), TagsCompound_tagSet ht _ _ hc⟩
      · cases h
        exact ⟨oneNode (compound_pub (isCompound_ite isUnion)), ht⟩
  | tagCompound tag isUnion =>
    simp only [traverseOne] at h
    split at h
    · rename_i c hl
      cases h
      obtain ⟨p, hp, rfl⟩ := tagLookup_mem hl
      exact ⟨oneNode (compound_pub (ht p hp)), ht⟩
    · cases h
      exact ⟨oneNode (compound_pub (isCompound_ite isUnion)), ht⟩


structure ParseSt.Pub (cfg : Cfg) (ps : ParseSt) : Prop where
  ns : ps.ns.Pub cfg
  tags : TagsCompound ps.tagNs

theorem Pub_parseOne {cfg : Cfg} {ps ps' : ParseSt} {d : Decl} (h : ps.Pub cfg)
    (hp : parseOne cfg ps d = .ok ps') : ps'.Pub cfg := by
  unfold parseOne at hp
  cases ht : traverseOne cfg ps.tagNs ps.next d with
  | error e => rw [ht] at hp; cases hp
  | ok r =>
    obtain ⟨node?, tagNs⟩ := r
    rw [ht] at hp
    obtain ⟨hnode, htags⟩ := traverseOne_pub h.tags ht
    cases node? with
    | none => cases hp; exact ⟨h.ns, htags⟩
    | some node =>
      simp only at hp
      by_cases hn : node.name.isEmpty = true
      · rw [if_pos hn] at hp; cases hp; exact ⟨h.ns, TagsCompound_registerTag htags _⟩
      · rw [if_neg hn] at hp
        cases ha : appendNewNode ps.ns node with
        | error e => rw [ha] at hp; cases hp
        | ok ns =>
          rw [ha] at hp; cases hp
          exact ⟨Pub_appendNewNode h.ns (hnode node rfl) ha, TagsCompound_registerTag htags _⟩

theorem Pub_parseDecls {cfg : Cfg} : ∀ (ds : List Decl) (ps ps' : ParseSt), ps.Pub cfg →
    parseDecls cfg ps ds = .ok ps' → ps'.Pub cfg := by
  intro ds
  induction ds with
  | nil => intro ps ps' h hp; simp only [parseDecls] at hp; cases hp; exact h
  | cons d ds ih =>
    intro ps ps' h hp
    simp only [parseDecls] at hp
    cases h1 : parseOne cfg ps d with
    | error e => rw [h1] at hp; cases hp
    | ok ps1 =>
      rw [h1] at hp
      exact ih ps1 ps' (Pub_parseOne h h1) hp

theorem Pub_promoteTags {cfg : Cfg} : ∀ (l : List (Str × Node)) (ns ns' : NsState), ns.Pub cfg →
    TagsCompound l → promoteTags cfg ns l = .ok ns' → ns'.Pub cfg := by
  intro l
  induction l with
  | nil => intro ns ns' h _ hp; simp only [promoteTags] at hp; cases hp; exact h
  | cons x xs ih =>
    intro ns ns' h hl hp
    obtain ⟨tag, c⟩ := x
    have hxs : TagsCompound xs := fun p hp => hl p (List.mem_cons_of_mem _ hp)
    have hc : isCompound c.kind = true := hl (tag, c) (List.mem_cons_self)
    simp only [promoteTags] at hp
    split at hp
    · exact ih ns ns' h hxs hp
    · split at hp
      · cases hp
      · exact ih ns ns' h hxs hp
      · split at hp
        · cases hp
        · rename_i ns1 hns1
          exact ih ns1 ns' (Pub_appendNewNode h (compound_pub (by exact hc)) hns1) hxs hp

theorem Pub_parse {cfg : Cfg} {decls : List Decl} {ns : NsState} (hp : parse cfg decls = .ok ns) :
    ns.Pub cfg := by
  unfold parse at hp
  split at hp
  · cases hp
  · rename_i ps hps
    have := Pub_parseDecls decls _ ps ⟨Pub_init, by intro p hp; cases hp⟩ hps
    exact Pub_promoteTags _ _ _ this.ns this.tags hp

theorem Pub_dumpOne {cfg : Cfg} {st st' : NsState × List DumpEntry × Nat} {e : DumpEntry} (h : st.1.Pub cfg)
    (hd : dumpOne cfg st e = .ok st') : st'.1.Pub cfg := by
  unfold dumpOne at hd
  cases hn : dumpName cfg e with
  | error x => rw [hn] at hd; cases hd
  | ok r =>
    obtain ⟨pfx, name⟩ := r
    rw [hn] at hd
    simp only at hd
    by_cases hb : (e.kind == DumpKind.boxed) = true
    · rw [if_pos hb] at hd; cases hd; exact h
    · rw [if_neg hb] at hd
      cases ha : st.1.appendReplace (dumpNode st.1 st.2.2 e pfx name) with
      | error x => rw [ha] at hd; cases hd
      | ok ns' =>
        rw [ha] at hd; cases hd
        refine Pub_appendReplace h ?_ ha
        apply PublicSym_of_kind <;> (unfold dumpNode; split <;> (try dsimp only) <;> (try split) <;> simp)

theorem Pub_pairBoxed {cfg : Cfg} {st st' : NsState × Nat} {e : DumpEntry} (h : st.1.Pub cfg)
    (hd : pairBoxed cfg st e = .ok st') : st'.1.Pub cfg := by
  unfold pairBoxed at hd
  split at hd
  · cases hd
  · rename_i pfx name _
    split at hd
    · split at hd
      · cases hd
      · rename_i ns' hns'
        cases hd
        exact Pub_append h (PublicSym_of_kind (by simp) (by simp)) hns'
    · split at hd
      · cases hd
        exact Pub_frame h _ (by intro p; split <;> simp)
      · cases hd; exact h

theorem Pub_removeGetType {cfg : Cfg} {st st' : NsState} {gt : Str} (h : st.Pub cfg)
    (hr : removeGetType cfg st gt = .ok st') : st'.Pub cfg := by
  unfold removeGetType at hr
  split at hr
  · split at hr
    · split at hr
      · cases hr; exact Pub_remove h _
      · cases hr
    · cases hr
  · cases hr

theorem Pub_applyDump {cfg : Cfg} {ns ns' : NsState} {dump : List DumpEntry} {next : Nat} (h : ns.Pub cfg)
    (hd : applyDump cfg ns dump next = .ok ns') : ns'.Pub cfg := by
  unfold applyDump at hd
  split at hd
  · cases hd
  · rename_i st1 h1
    split at hd
    · cases hd
    · rename_i st2 h2
      have i1 : st1.1.Pub cfg :=
        foldE_inv (fun s => s.1.Pub cfg) (dumpOne cfg) (fun s a s' hs hf => Pub_dumpOne hs hf) dump _ st1 h h1
      have i2 : st2.1.Pub cfg :=
        foldE_inv (fun s => s.1.Pub cfg) (pairBoxed cfg) (fun s a s' hs hf => Pub_pairBoxed hs hf) _ _ st2 i1 h2
      exact foldE_inv (NsState.Pub cfg) (removeGetType cfg) (fun s a s' hs hf => Pub_removeGetType hs hf)
        _ _ ns' i2 hd

theorem Pub_resolveParents {env : Env} {st : NsState} (h : st.Pub env.cfg) :
    (resolveParents env st).Pub env.cfg :=
  Pub_frame h _ (by intro p; split <;> simp)

theorem Pub_applyForeign {cfg : Cfg} {l : List Str} {st : NsState} (h : st.Pub cfg) :
    (applyForeign l st).Pub cfg :=
  Pub_frame h _ (by intro p; split <;> simp)

theorem Pub_setupMethod {env : Env} {st : NsState} {f : Node} {sub : Str} (h : st.Pub env.cfg) :
    (setupMethod env st f sub).Pub env.cfg := by
  unfold setupMethod
  split
  · exact h
  · split
    · exact h
    · dsimp only
      split
      · exact Pub_pairCompat h _ _ _
      · exact Pub_pairMove h _ _ _ _ _ (by intro n; simp)

theorem Pub_pairStaticMethod {cfg : Cfg} {st st' : NsState} {f : Node} {sub : Str} (h : st.Pub cfg)
    (hp : pairStaticMethod st f sub = some st') : st'.Pub cfg := by
  unfold pairStaticMethod at hp
  split at hp
  · cases hp
  · split at hp
    · cases hp
    · split at hp
      · cases hp
      · split at hp
        · cases hp
          exact Pub_pairMove h _ _ _ _ _ (by intro n; simp)
        · split at hp
          · cases hp
            exact Pub_pairClone h _ _ _
          · cases hp

theorem Pub_pairFunction {env : Env} {st st' : NsState} {f : Node} (h : st.Pub env.cfg)
    (hp : pairFunction env st f = .ok st') : st'.Pub env.cfg := by
  unfold pairFunction at hp
  split at hp
  · cases hp; exact h
  · split at hp
    · split at hp
      · split at hp
        · cases hp
        · split at hp
          · cases hp
            exact Pub_pairMove h _ _ _ _ _ (by intro n; simp)
          · cases hp; exact h
        · split at hp
          · cases hp; exact Pub_setupMethod h
          · cases hp
            cases hs : pairStaticMethod st f _ with
            | none => simpa [hs] using h
            | some s1 => simpa [hs] using Pub_pairStaticMethod h hs
      · cases hp; exact h
    · cases hp; exact h

theorem Pub_pairAll {env : Env} {st st' : NsState} (h : st.Pub env.cfg) (hp : pairAll env st = .ok st') :
    st'.Pub env.cfg :=
  foldE_inv (NsState.Pub env.cfg) (pairFunction env) (fun _ _ _ hs hf => Pub_pairFunction hs hf) _ _ st' h hp

theorem Pub_describe {inp : Input} {st : NsState} (hd : describe inp = .ok st) : st.Pub inp.env.cfg := by
  unfold describe at hd
  split at hd
  · cases hd
  · rename_i ns0 h0
    split at hd
    · cases hd
    · rename_i ns1 h1
      have i0 : ns0.Pub inp.env.cfg := Pub_parse h0
      have i1 : ns1.Pub inp.env.cfg := by
        split at h1
        · exact Pub_applyDump i0 h1
        · cases h1; exact i0
      exact Pub_pairAll (Pub_applyForeign (Pub_resolveParents i1)) hd

/-- which kinds get a static-function clone instead of a move -/
def isCloneOwnerKind (k : Kind) : Bool :=
  k == .iface || k == .record || k == .union || k == .boxed || k == .enum

theorem endsWith_append (b t : Str) : endsWith (b ++ t) t = true := by
  simp [endsWith, List.reverse_append]

theorem endsWith_gtype_not_type (b : Str) :
    endsWith (b ++ "_get_gtype".toList) "_get_type".toList = false := by
  simp [endsWith, List.reverse_append, List.isPrefixOf]

end GIVerif.Naming
