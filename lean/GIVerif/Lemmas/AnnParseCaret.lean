/- Helper lemmas for C11 (layer 1): column bookkeeping of the tokenizer — every caret
   position it hands to the message log lies inside the field being parsed. -/
import GIVerif.Lemmas.AnnParseTotal

namespace GIVerif.AnnParse
open GIVerif.Py

def isAscii (c : Char) : Bool := decide (c.toNat < 128)

/-- generated-table fact: a code point whose lower case is longer than one character
    lowers to something containing a non-ASCII character -/
theorem lowerTable_fact :
    (Gen.pyLowerAscii ++ Gen.pyLowerTable).all
      (fun e => e.2.length == 1 || (e.2.map Char.ofNat).any (fun ch => !isAscii ch)) = true := by
  decide +kernel

theorem lowerChar_ascii_length (c : Char) (h : (lowerChar c).all isAscii = true) : (lowerChar c).length = 1 := by
  unfold lowerChar at h ⊢
  split at h
  · rename_i e he
    have hm : e ∈ Gen.pyLowerAscii ++ Gen.pyLowerTable := by
      have := List.mem_of_find?_eq_some he
      split at this
      · exact List.mem_append_left _ this
      · exact List.mem_append_right _ this
    have hf := List.all_eq_true.mp lowerTable_fact e hm
    simp only [Bool.or_eq_true, beq_iff_eq] at hf
    rcases hf with hf | hf
    · simpa using hf
    · exfalso
      obtain ⟨ch, hch, hna⟩ := List.any_eq_true.mp hf
      have := List.all_eq_true.mp h ch hch
      simp [this] at hna
  · rfl

theorem pyLower_ascii_length (p : Str) (h : (pyLower p).all isAscii = true) : (pyLower p).length = p.length := by
  induction p with
  | nil => rfl
  | cons c cs ih =>
    simp only [pyLower, List.flatMap_cons, List.all_append, Bool.and_eq_true, List.length_append,
      List.length_cons] at h ⊢
    have h1 := lowerChar_ascii_length c h.1
    have h2 := ih h.2
    simp only [pyLower] at h2
    omega

theorem listAnnotations_ascii : Gen.listAnnotations.all (fun x => x.toList.all isAscii) = true := by
  decide +kernel

theorem isListAnn_ascii (n : Str) (h : isListAnn n = true) : n.all isAscii = true := by
  unfold isListAnn inTable at h
  obtain ⟨x, hx, he⟩ := List.any_eq_true.mp h
  have := List.all_eq_true.mp listAnnotations_ascii x hx
  simp only [beq_iff_eq] at he
  rw [← he]; exact this

theorem findChar_lt (c : Char) (s : Str) (k : Nat) (h : findChar c s = some k) : k < s.length := by
  induction s generalizing k with
  | nil => simp [findChar] at h
  | cons x xs ih =>
    simp only [findChar] at h
    split at h
    · cases h; simp
    · cases hf : findChar c xs with
      | none => simp [hf] at h
      | some k' =>
        simp [hf] at h
        have := ih k' hf
        simp; omega

theorem split1_length (c : Char) (s : Str) (o : Str) (h : (split1 c s).2 = some o) :
    s.length = (split1 c s).1.length + 1 + o.length := by
  induction s with
  | nil => simp [split1] at h
  | cons x xs ih =>
    simp only [split1] at h ⊢
    split
    · rename_i hx; simp only [hx, if_true] at h; cases h; simp; omega
    · rename_i hx; simp only [hx, if_false] at h
      have := ih h
      simp; omega

theorem split1_fst_le (c : Char) (s : Str) : (split1 c s).1.length ≤ s.length := by
  induction s with
  | nil => simp [split1]
  | cons x xs ih =>
    simp only [split1]
    split <;> simp <;> omega

theorem replaceAngles_length (s : Str) : (replaceAngles s).length = s.length := by
  simp [replaceAngles]

/-- the only diagnostic of `_parse_annotation_options_list` points at an `=` inside the options -/
theorem optionsList_caret (col : Nat) (o : Str) (d : TDiag) (h : d ∈ (optionsList col (some o)).2) :
    d.marker < col + o.length := by
  unfold optionsList at h
  simp only [] at h
  split at h
  · simp at h
  · split at h
    · rename_i k hk
      simp at h
      have := findChar_lt '=' o k hk
      rw [h]; simp; omega
    · simp at h

theorem optionsList_none_diags (col : Nat) : (optionsList col none).2 = [] := rfl

theorem attributes_not_list : isListAnn (str Gen.annAttributes) = false := by decide +kernel
theorem inout_length : (str Gen.annInout).length ≤ (str Gen.annInoutAlt).length := by decide

theorem annInoutAlt_ascii : (str Gen.annInoutAlt).all isAscii = true := by decide +kernel

/-- diagnostics of `classStep` lie within `name ++ ' ' ++ options` -/
theorem classStep_caret (col : Nat) (name : Str) (opts : Option Str) (d : TDiag)
    (h : d ∈ (classStep col name opts).2) :
    ∃ o, opts = some o ∧ d.marker < col + name.length + 2 + o.length := by
  unfold classStep at h
  simp only [] at h
  split at h
  · cases opts with
    | none => simp [optionsList_none_diags] at h
    | some o => exact ⟨o, rfl, optionsList_caret _ o d h⟩
  · split at h <;> simp at h

theorem attributeStep_caret (col : Nat) (opts0 : Option Str) (r) (h : attributeStep col opts0 = .ok r)
    (bound : Nat) (hb : ∀ o, opts0 = some o → o.length ≤ bound) :
    (∀ d ∈ r.2, d.marker ≤ col + bound) ∧ (∀ n o, r.1 = some (n, o) → n = str Gen.annAttributes) := by
  have hlo : ∀ d ∈ (optionsList col opts0).2, d.marker ≤ col + bound := by
    intro d hd
    cases opts0 with
    | none => simp [optionsList_none_diags] at hd
    | some o =>
      have := optionsList_caret col o d hd
      have := hb o rfl
      omega
  unfold attributeStep at h
  simp only [] at h
  split at h
  · cases h
  · split at h
    · split at h
      · cases h
      · cases h
        refine ⟨?_, ?_⟩
        · intro d hd
          simp only [List.mem_append, List.mem_singleton] at hd
          rcases hd with rfl | hd
          · simp
          · exact hlo d hd
        · intro n o hno; simp at hno; exact hno.1.symm
    · split at h
      · split at h
        · cases h
          refine ⟨?_, ?_⟩
          · intro d hd
            simp only [List.mem_append, List.mem_singleton] at hd
            rcases hd with rfl | hd
            · simp
            · exact hlo d hd
          · intro n o hno; simp at hno; exact hno.1.symm
        · cases h
        · cases h
      · cases h
        refine ⟨?_, ?_⟩
        · intro d hd
          simp only [List.mem_append, List.mem_singleton] at hd
          rcases hd with (rfl | hd) | rfl
          · simp
          · exact hlo d hd
          · simp
        · intro n o hno; simp at hno

theorem deprecatedStep_spec (col : Nat) (name0 : Str) (opts0 : Option Str) (x) (dd : List TDiag)
    (h : deprecatedStep col name0 opts0 = .ok (x, dd)) (bound : Nat)
    (hb : ∀ o, opts0 = some o → o.length ≤ bound) :
    (∀ d ∈ dd, d.marker ≤ col + bound) ∧
    (∀ n o, x = some (n, o) → n = str Gen.annAttributes ∨
      (o = opts0 ∧ (n = name0 ∨ (name0 = str Gen.annInoutAlt ∧ n = str Gen.annInout)))) := by
  unfold deprecatedStep at h
  split at h
  · rename_i hname
    cases h
    refine ⟨?_, ?_⟩
    · intro d hd; simp at hd; rw [hd]; simp
    · intro n o hno; simp at hno; right; exact ⟨hno.2.symm, Or.inr ⟨hname, hno.1.symm⟩⟩
  · split at h
    · obtain ⟨hc1, hc2⟩ := attributeStep_caret col opts0 (x, dd) h bound hb
      exact ⟨hc1, fun n o hno => Or.inl (hc2 n o hno)⟩
    · cases h
      refine ⟨?_, ?_⟩
      · intro d hd; simp at hd
      · intro n o hno; simp at hno; right; exact ⟨hno.2.symm, Or.inl hno.1.symm⟩

theorem classStep_attributes_diags (col : Nat) (opts : Option Str) :
    (classStep col (str Gen.annAttributes) opts).2 = [] := by
  unfold classStep
  simp only [attributes_not_list, Bool.false_eq_true, if_false]
  split <;> rfl

/-- every caret of `_parse_annotation` lies within the annotation text (relative to the
    column of its opening parenthesis, which is one before the text) -/
theorem parseAnnotation_caret (col : Nat) (a : Str) (r) (h : parseAnnotation col a = .ok r) :
    ∀ d ∈ r.2, d.marker ≤ col + a.length := by
  unfold parseAnnotation at h
  simp only [] at h
  have hlen := replaceAngles_length a
  generalize hra : replaceAngles a = ra at h hlen
  have hs2 : ∀ o, (split1 ' ' ra).2 = some o → ra.length = (split1 ' ' ra).1.length + 1 + o.length :=
    fun o ho => split1_length ' ' ra o ho
  have hb : ∀ o, (split1 ' ' ra).2 = some o → o.length ≤ a.length := by
    intro o ho; have := hs2 o ho; omega
  cases hds : deprecatedStep col (pyLower (split1 ' ' ra).1) (split1 ' ' ra).2 with
  | error e => simp [hds] at h
  | ok r' =>
    obtain ⟨x, dd⟩ := r'
    obtain ⟨hc1, hc2⟩ := deprecatedStep_spec col _ _ x dd hds a.length hb
    simp only [hds] at h
    cases x with
    | none => simp only [] at h; cases h; exact hc1
    | some p =>
      obtain ⟨n, o⟩ := p
      simp only [] at h; cases h
      intro d hd
      simp only [List.mem_append] at hd
      rcases hd with hd | hd
      · exact hc1 d hd
      · rcases hc2 n o rfl with hn | ⟨ho, hn⟩
        · subst hn; rw [classStep_attributes_diags] at hd; simp at hd
        · obtain ⟨o', ho', hlt⟩ := classStep_caret col n o d hd
          have h1 := hs2 o' (by rw [← ho, ho'])
          rcases hn with hn | ⟨hname, hn⟩
          · -- the name is a list annotation, hence ASCII, hence as long as its source spelling
            have hl : isListAnn n = true := by
              cases hl : isListAnn n with
              | true => rfl
              | false =>
                exfalso
                unfold classStep at hd
                simp only [hl, Bool.false_eq_true, if_false] at hd
                split at hd <;> simp at hd
            have h2 := pyLower_ascii_length (split1 ' ' ra).1 (by rw [← hn]; exact isListAnn_ascii n hl)
            rw [← hn] at h2
            omega
          · have hasc : (pyLower (split1 ' ' ra).1).all isAscii = true := by rw [hname]; exact annInoutAlt_ascii
            have h2 := pyLower_ascii_length _ hasc
            rw [hname] at h2
            have h3 := inout_length
            subst hn
            omega

theorem lstrip_length_le (s : Str) : (lstrip s).length ≤ s.length := by
  unfold lstrip; exact (List.dropWhile_sublist _).length_le

theorem rstrip_length_le (s : Str) : (rstrip s).length ≤ s.length := by
  unfold rstrip
  have := (List.dropWhile_sublist isSpace (l := s.reverse)).length_le
  simpa using this

theorem strip_length_le (s : Str) : (strip s).length ≤ s.length := by
  unfold strip
  exact Nat.le_trans (rstrip_length_le _) (lstrip_length_le _)

/-- loop invariant of `_parse_annotations`: outside an annotation the buffer is empty, inside
    it holds exactly the characters since the opening parenthesis; carets so far are in range -/
def Inv (col N i : Nat) (s : St) : Prop :=
  (s.parens = 0 → s.buf = []) ∧ (0 < s.parens → s.startPos + 1 + s.buf.length = i) ∧
  (∀ d ∈ s.diags, d.marker < col + N)

/-- what the invariant promises about one loop iteration -/
def Good (col N i : Nat) : Outcome → Prop
  | .cont s' => Inv col N (i + 1) s'
  | .brk s' => ∀ d ∈ s'.diags, d.marker < col + N
  | .fail dd => ∀ d ∈ dd, d.marker < col + N
  | .raise _ => True

theorem closeAnn_inv (po : Bool) (col N i : Nat) (s : St) (c : Char) (hinv : Inv col N i s)
    (hp : 0 < s.parens) (hi : i < N) : Good col N i (closeAnn po col s i c) := by
  obtain ⟨_, h2, h3⟩ := hinv
  have hlen := h2 hp
  unfold closeAnn
  cases po with
  | false =>
    simp only [Bool.false_eq_true, if_false]
    exact ⟨fun _ => rfl, fun h => absurd h (by simp), h3⟩
  | true =>
    simp only [if_true]
    cases hpa : parseAnnotation (col + s.startPos) (strip s.buf) with
    | error e => simp [Good]
    | ok r =>
      have hc := parseAnnotation_caret _ _ r hpa
      have hsl := strip_length_le s.buf
      obtain ⟨x, dd⟩ := r
      cases x with
      | none =>
        simp only []
        refine ⟨fun _ => rfl, fun h => absurd h (by simp), ?_⟩
        intro d hd
        simp only [List.mem_append] at hd
        rcases hd with hd | hd
        · exact h3 d hd
        · have := hc d hd; omega
      | some p =>
        obtain ⟨n, o⟩ := p
        simp only []
        refine ⟨fun _ => rfl, fun h => absurd h (by simp), ?_⟩
        intro d hd
        simp only [List.mem_append] at hd
        rcases hd with (hd | hd) | hd
        · exact h3 d hd
        · have := hc d hd; omega
        · split at hd
          · simp at hd; rw [hd]; simp; omega
          · simp at hd

theorem step_inv (po : Bool) (col N i : Nat) (s : St) (c : Char) (hinv : Inv col N i s) (hi : i < N) :
    Good col N i (step po col s i c) := by
  have hinv' := hinv
  obtain ⟨h1, h2, h3⟩ := hinv
  have hfail : ∀ k, ∀ d ∈ s.diags ++ [(⟨.error, k, col + i⟩ : TDiag)], d.marker < col + N := by
    intro k d hd
    simp only [List.mem_append, List.mem_singleton] at hd
    rcases hd with hd | rfl
    · exact h3 d hd
    · simp; omega
  unfold step
  split
  · split
    · exact hfail _
    · split
      · rename_i hp0
        refine ⟨fun h => by simp at h, fun _ => ?_, h3⟩
        simp [h1 hp0]
      · rename_i hp0
        refine ⟨fun h => by simp at h, fun _ => ?_, h3⟩
        have := h2 (Nat.pos_of_ne_zero hp0)
        simp; omega
  · split
    · split
      · exact hfail _
      · split
        · exact hfail _
        · rename_i hp0
          split
          · exact closeAnn_inv po col N i s c hinv' (Nat.pos_of_ne_zero hp0) hi
          · rename_i hp1
            refine ⟨fun h => ?_, fun _ => ?_, h3⟩
            · simp at h; omega
            · have := h2 (Nat.pos_of_ne_zero hp0)
              simp; omega
    · split
      · split
        · rename_i hp
          refine ⟨fun h => ?_, fun _ => ?_, h3⟩
          · simp at h; omega
          · have := h2 hp
            simp; omega
        · rename_i hp
          refine ⟨fun _ => ?_, fun h => ?_, h3⟩
          · simp; exact h1 (by omega)
          · simp at h; omega
      · split
        · exact h3
        · rename_i hp0
          refine ⟨fun h => ?_, fun _ => ?_, h3⟩
          · simp at h; omega
          · have := h2 (Nat.pos_of_ne_zero hp0)
            simp; omega

theorem loop_inv (po : Bool) (col N : Nat) (fields : Str) (i : Nat) (s : St) (hinv : Inv col N i s)
    (hN : i + fields.length = N) :
    match loop po col fields i s with
    | .done s' => ∀ d ∈ s'.diags, d.marker < col + N
    | .fail dd => ∀ d ∈ dd, d.marker < col + N
    | .raise _ => True := by
  induction fields generalizing i s with
  | nil => simp only [loop]; exact hinv.2.2
  | cons c cs ih =>
    unfold loop
    have hs := step_inv po col N i s c hinv (by simp at hN; omega)
    cases hst : step po col s i c with
    | cont s' =>
      simp only [hst, Good] at hs ⊢
      exact ih (i + 1) s' hs (by simp at hN; omega)
    | brk s' => simp only [hst, Good] at hs ⊢; exact hs
    | fail dd => simp only [hst, Good] at hs ⊢; exact hs
    | raise e => simp

theorem initSt_inv (col N : Nat) (init : Option Anns) : Inv col N 0 (initSt init) :=
  ⟨fun _ => rfl, fun h => by simp [initSt] at h, fun d hd => by simp [initSt] at hd⟩

def AnnResult.diags : AnnResult → List TDiag
  | .ok _ _ _ _ _ d => d
  | .fail d => d
  | .raise _ => []

/-- every caret produced by `_parse_annotations` lies inside the field -/
theorem parseAnnotations_caret (po : Bool) (col : Nat) (fields : Str) (init : Option Anns) :
    ∀ d ∈ (parseAnnotations po col fields init).diags, d.marker < col + fields.length := by
  unfold parseAnnotations
  have hl := loop_inv po col fields.length fields 0 (initSt init) (initSt_inv _ _ _) (by simp)
  cases hlo : loop po col fields 0 (initSt init) with
  | raise e => simp [AnnResult.diags]
  | fail dd => simp only [hlo] at hl; simpa [AnnResult.diags] using hl
  | done s =>
    simp only [hlo] at hl
    simp only []
    split
    · rename_i hp
      intro d hd
      simp only [AnnResult.diags, List.mem_append, List.mem_singleton] at hd
      rcases hd with hd | rfl
      · exact hl d hd
      · cases fields with
        | nil => simp [loop] at hlo; subst hlo; simp [initSt] at hp
        | cons c cs => simp
    · simpa [AnnResult.diags] using hl

end GIVerif.AnnParse
