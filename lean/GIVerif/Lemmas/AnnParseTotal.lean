/- Helper lemmas for C11 (layer 1): no partial operation of the tokenizer is reachable
   with a bad argument. -/
import GIVerif.Model.AnnParse

namespace GIVerif.AnnParse
open GIVerif.Py

theorem optionsUnknown_some_list (o : Str) (h : o ≠ []) : optionsUnknown (some o) = .list [strip o] := by
  cases o with
  | nil => exact absurd rfl h
  | cons c cs => simp [optionsUnknown]

/-- `_parse_annotation_options_list` always returns a Python list -/
theorem optionsList_isList (col : Nat) (o : Option Str) : ∃ l, (optionsList col o).1 = .list l := by
  unfold optionsList
  cases o with
  | none => exact ⟨[], rfl⟩
  | some o =>
    cases o with
    | nil => exact ⟨[], rfl⟩
    | cons c cs =>
      simp only [List.isEmpty_cons, Bool.false_eq_true, if_false]
      split
      · exact ⟨[strip (c :: cs)], by simp [optionsUnknown]⟩
      · exact ⟨_, rfl⟩

theorem pyItem_list_ok (l : List Str) (i : Nat) (h : i < l.length) : pyItem (.list l) i = .ok l[i] := by
  simp [pyItem, List.getElem?_eq_getElem h]

/-- `len(ann_options)`, `ann_options[0]`, `ann_options[1]` in the `(attribute)` branch are safe -/
theorem attributeStep_ok (col : Nat) (o : Option Str) : ∃ r, attributeStep col o = .ok r := by
  unfold attributeStep
  obtain ⟨l, hl⟩ := optionsList_isList col o
  simp only [hl, pyLen]
  by_cases h1 : l.length = 1
  · simp only [h1, if_true, pyItem_list_ok l 0 (by omega)]
    exact ⟨_, rfl⟩
  · simp only [h1, if_false]
    by_cases h2 : l.length = 2
    · simp only [h2, if_true, pyItem_list_ok l 0 (by omega), pyItem_list_ok l 1 (by omega)]
      exact ⟨_, rfl⟩
    · simp only [h2, if_false]
      exact ⟨_, rfl⟩

theorem deprecatedStep_ok (col : Nat) (n : Str) (o : Option Str) : ∃ r, deprecatedStep col n o = .ok r := by
  unfold deprecatedStep
  split
  · exact ⟨_, rfl⟩
  · split
    · exact attributeStep_ok col o
    · exact ⟨_, rfl⟩

/-- `_parse_annotation` never raises -/
theorem parseAnnotation_ok (col : Nat) (a : Str) : ∃ r, parseAnnotation col a = .ok r := by
  unfold parseAnnotation
  obtain ⟨r, hr⟩ := deprecatedStep_ok col (pyLower (split1 ' ' (replaceAngles a)).1) (split1 ' ' (replaceAngles a)).2
  simp only [hr]
  obtain ⟨x, d⟩ := r
  cases x with
  | none => exact ⟨_, rfl⟩
  | some p => obtain ⟨n, o⟩ := p; exact ⟨_, rfl⟩

theorem closeAnn_not_raise (po : Bool) (col : Nat) (s : St) (i : Nat) (c : Char) (e : PyErr) :
    closeAnn po col s i c ≠ .raise e := by
  unfold closeAnn
  cases po with
  | false => simp
  | true =>
    obtain ⟨r, hr⟩ := parseAnnotation_ok (col + s.startPos) (strip s.buf)
    simp only [hr, if_true]
    obtain ⟨x, d⟩ := r
    cases x with
    | none => simp
    | some p => obtain ⟨n, o⟩ := p; simp

theorem step_not_raise (po : Bool) (col : Nat) (s : St) (i : Nat) (c : Char) (e : PyErr) :
    step po col s i c ≠ .raise e := by
  unfold step
  repeat' split
  all_goals first
    | exact closeAnn_not_raise po col s i c e
    | simp

theorem loop_not_raise (po : Bool) (col : Nat) (fields : Str) (i : Nat) (s : St) (e : PyErr) :
    loop po col fields i s ≠ .raise e := by
  induction fields generalizing i s with
  | nil => simp [loop]
  | cons c cs ih =>
    unfold loop
    cases h : step po col s i c with
    | cont s' => exact ih (i + 1) s'
    | brk s' => simp
    | fail d => simp
    | raise e' => exact absurd h (step_not_raise po col s i c e')

theorem parseAnnotations_not_raise (po : Bool) (col : Nat) (fields : Str) (init : Option Anns) (e : PyErr) :
    parseAnnotations po col fields init ≠ .raise e := by
  unfold parseAnnotations
  cases h : loop po col fields 0 (initSt init) with
  | raise e' => exact absurd h (loop_not_raise po col fields 0 _ e')
  | fail d => simp
  | done s => simp only []; split <;> simp

theorem closeAnn_not_fail (po : Bool) (col : Nat) (s : St) (i : Nat) (c : Char) (d : List TDiag) :
    closeAnn po col s i c ≠ .fail d := by
  unfold closeAnn
  cases po with
  | false => simp
  | true =>
    simp only [if_true]
    cases parseAnnotation (col + s.startPos) (strip s.buf) with
    | error e => simp
    | ok r =>
      obtain ⟨x, dd⟩ := r
      cases x with
      | none => simp
      | some p => obtain ⟨n, o⟩ := p; simp

/-- a failing iteration always carries the error that made it fail -/
theorem step_fail_ne_nil (po : Bool) (col : Nat) (s : St) (i : Nat) (c : Char) (d : List TDiag)
    (h : step po col s i c = .fail d) : d ≠ [] := by
  unfold step at h
  repeat' split at h
  all_goals first
    | exact absurd h (closeAnn_not_fail po col s i c d)
    | (cases h; simp)
    | cases h

theorem loop_fail_ne_nil (po : Bool) (col : Nat) (fs : Str) (i : Nat) (s : St) (d : List TDiag)
    (h : loop po col fs i s = .fail d) : d ≠ [] := by
  induction fs generalizing i s with
  | nil => simp [loop] at h
  | cons c cs ih =>
    rw [loop] at h
    cases hs : step po col s i c with
    | cont s' => rw [hs] at h; exact ih _ _ h
    | brk s' => rw [hs] at h; cases h
    | raise e => rw [hs] at h; cases h
    | fail d2 => rw [hs] at h; cases h; exact step_fail_ne_nil po col s i c _ hs

end GIVerif.AnnParse
