/-
  Helper lemmas for C05 (model: GIVerif/Model/Introspectable.lean).

  Part A  the order "flags only go from true to false" on `List Bool`, rows of them and `St`;
          counting the set flags is monotone, and equal counts force equal flags.
  Part B  generic facts about `foldl` of decreasing steps (a fold that returns its start value
          changed nothing at any step; an effect established at one step survives).
  Part C  every walk of the pass is decreasing; which components a walk can touch.
  Part D  what a step that changes nothing tells about the visited node.
-/
import GIVerif.Model.Introspectable

namespace GIVerif.Introspectable
open GIVerif.Py

/-! ## Part A: the order on flags -/

/-- `a` is `b` with some flags cleared -/
def Le (a b : List Bool) : Prop :=
  a.length = b.length ∧ ∀ i, a.getD i false = true → b.getD i false = true

theorem Le.refl (a : List Bool) : Le a a := ⟨rfl, fun _ h => h⟩

theorem Le.trans {a b c : List Bool} (h1 : Le a b) (h2 : Le b c) : Le a c :=
  ⟨h1.1.trans h2.1, fun i h => h2.2 i (h1.2 i h)⟩

theorem getD_eq_of_getElem? {l : List Bool} {i : Nat} {d : Bool} {b : Bool} (h : l[i]? = some b) :
    l.getD i d = b := by
  simp [List.getD, h]

theorem Le.antisymm {a b : List Bool} (h1 : Le a b) (h2 : Le b a) : a = b := by
  apply List.ext_getElem h1.1
  intro i hi1 hi2
  have e1 : a.getD i false = a[i] := by simp [List.getD, List.getElem?_eq_getElem hi1]
  have e2 : b.getD i false = b[i] := by simp [List.getD, List.getElem?_eq_getElem hi2]
  have := h1.2 i
  have := h2.2 i
  rw [e1, e2] at *
  cases ha : a[i] <;> cases hb : b[i] <;> simp_all

theorem le_set_false (a : List Bool) (i : Nat) : Le (a.set i false) a := by
  refine ⟨by simp, fun j h => ?_⟩
  by_cases hij : i = j
  · subst hij
    by_cases hi : i < a.length
    · simp [List.getD, hi] at h
    · simp [List.getD, hi] at h
  · simpa [List.getD, List.getElem?_set, hij] using h

theorem cnt_cons (x : Bool) (l : List Bool) : cnt (x :: l) = (if x then 1 else 0) + cnt l := by
  cases x <;> simp [cnt] <;> omega

theorem le_cons {x y : Bool} {a b : List Bool} (h : Le (x :: a) (y :: b)) :
    (x = true → y = true) ∧ Le a b := by
  refine ⟨fun hx => ?_, ?_, fun i hi => ?_⟩
  · have := h.2 0; simpa [List.getD, hx] using this
  · have := h.1; simpa using this
  · have := h.2 (i + 1); simpa [List.getD] using this (by simpa [List.getD] using hi)

theorem cnt_le_of_le : ∀ {a b : List Bool}, Le a b → cnt a ≤ cnt b
  | [], [], _ => Nat.le_refl _
  | [], _ :: _, h => by have := h.1; simp at this
  | _ :: _, [], h => by have := h.1; simp at this
  | x :: a, y :: b, h => by
    obtain ⟨hxy, hab⟩ := le_cons h
    have := cnt_le_of_le hab
    rw [cnt_cons, cnt_cons]
    cases x <;> cases y <;> simp_all <;> omega

theorem eq_of_le_of_cnt_eq : ∀ {a b : List Bool}, Le a b → cnt a = cnt b → a = b
  | [], [], _, _ => rfl
  | [], _ :: _, h, _ => by have := h.1; simp at this
  | _ :: _, [], h, _ => by have := h.1; simp at this
  | x :: a, y :: b, h, hc => by
    obtain ⟨hxy, hab⟩ := le_cons h
    have hle := cnt_le_of_le hab
    rw [cnt_cons, cnt_cons] at hc
    cases x <;> cases y <;> simp_all
    · exact eq_of_le_of_cnt_eq hab hc
    · omega
    · exact eq_of_le_of_cnt_eq hab (by omega)

/-- rows of flags -/
def Le2 (a b : List (List Bool)) : Prop :=
  a.length = b.length ∧ ∀ i, Le (a.getD i []) (b.getD i [])

theorem Le2.refl (a : List (List Bool)) : Le2 a a := ⟨rfl, fun _ => Le.refl _⟩

theorem Le2.trans {a b c : List (List Bool)} (h1 : Le2 a b) (h2 : Le2 b c) : Le2 a c :=
  ⟨h1.1.trans h2.1, fun i => (h1.2 i).trans (h2.2 i)⟩

theorem Le2.antisymm {a b : List (List Bool)} (h1 : Le2 a b) (h2 : Le2 b a) : a = b := by
  apply List.ext_getElem h1.1
  intro i hi1 hi2
  have e1 : a.getD i [] = a[i] := by simp [List.getD, List.getElem?_eq_getElem hi1]
  have e2 : b.getD i [] = b[i] := by simp [List.getD, List.getElem?_eq_getElem hi2]
  have := (h1.2 i).antisymm (h2.2 i)
  rwa [e1, e2] at this

def cnt2 (m : List (List Bool)) : Nat := (m.map cnt).sum

theorem le2_cons {x y : List Bool} {a b : List (List Bool)} (h : Le2 (x :: a) (y :: b)) :
    Le x y ∧ Le2 a b := by
  refine ⟨?_, ?_, fun i => ?_⟩
  · have := h.2 0; simpa [List.getD] using this
  · have := h.1; simpa using this
  · have := h.2 (i + 1); simpa [List.getD] using this

theorem cnt2_le_of_le2 : ∀ {a b : List (List Bool)}, Le2 a b → cnt2 a ≤ cnt2 b
  | [], [], _ => Nat.le_refl _
  | [], _ :: _, h => by have := h.1; simp at this
  | _ :: _, [], h => by have := h.1; simp at this
  | x :: a, y :: b, h => by
    obtain ⟨hxy, hab⟩ := le2_cons h
    have h1 := cnt_le_of_le hxy
    have h2 := cnt2_le_of_le2 hab
    simp only [cnt2, List.map_cons, List.sum_cons] at *
    omega

theorem eq_of_le2_of_cnt2_eq : ∀ {a b : List (List Bool)}, Le2 a b → cnt2 a = cnt2 b → a = b
  | [], [], _, _ => rfl
  | [], _ :: _, h, _ => by have := h.1; simp at this
  | _ :: _, [], h, _ => by have := h.1; simp at this
  | x :: a, y :: b, h, hc => by
    obtain ⟨hxy, hab⟩ := le2_cons h
    have h1 := cnt_le_of_le hxy
    have h2 := cnt2_le_of_le2 hab
    simp only [cnt2, List.map_cons, List.sum_cons] at hc h2
    have e1 : cnt x = cnt y := by omega
    have e2 : cnt2 a = cnt2 b := by simp only [cnt2]; omega
    rw [eq_of_le_of_cnt_eq hxy e1, eq_of_le2_of_cnt2_eq hab e2]

theorem le2_set {m : List (List Bool)} {i : Nat} {r : List Bool} (h : Le r (m.getD i [])) :
    Le2 (m.set i r) m := by
  refine ⟨by simp, fun j => ?_⟩
  by_cases hij : i = j
  · subst hij
    by_cases hi : i < m.length
    · simpa [List.getD, List.getElem?_set, hi] using h
    · have : m[i]? = none := by simp; omega
      simp [List.getD, hi]
      exact Le.refl _
  · simp [List.getD, hij]
    exact Le.refl _

/-- the order on states -/
def StLe (a b : St) : Prop := Le a.tf b.tf ∧ Le2 a.sf b.sf ∧ Le2 a.ff b.ff ∧ Le2 a.pf b.pf

theorem StLe.refl (a : St) : StLe a a := ⟨Le.refl _, Le2.refl _, Le2.refl _, Le2.refl _⟩

theorem StLe.trans {a b c : St} (h1 : StLe a b) (h2 : StLe b c) : StLe a c :=
  ⟨h1.1.trans h2.1, h1.2.1.trans h2.2.1, h1.2.2.1.trans h2.2.2.1, h1.2.2.2.trans h2.2.2.2⟩

theorem StLe.antisymm {a b : St} (h1 : StLe a b) (h2 : StLe b a) : a = b := by
  cases a; cases b
  simp only [St.mk.injEq]
  exact ⟨h1.1.antisymm h2.1, h1.2.1.antisymm h2.2.1, h1.2.2.1.antisymm h2.2.2.1,
    h1.2.2.2.antisymm h2.2.2.2⟩

theorem count_le_of_stLe {a b : St} (h : StLe a b) : count a ≤ count b := by
  have h1 := cnt_le_of_le h.1
  have h2 := cnt2_le_of_le2 h.2.1
  have h3 := cnt2_le_of_le2 h.2.2.2
  simp only [count, cnt2] at *
  omega

/-- equal counts: nothing that is counted changed -/
theorem eq_of_stLe_of_count_eq {a b : St} (h : StLe a b) (hc : count a = count b) (hff : a.ff = b.ff) :
    a = b := by
  have h1 := cnt_le_of_le h.1
  have h2 := cnt2_le_of_le2 h.2.1
  have h3 := cnt2_le_of_le2 h.2.2.2
  simp only [count] at hc
  have e1 : cnt a.tf = cnt b.tf := by simp only [cnt2] at *; omega
  have e2 : cnt2 a.sf = cnt2 b.sf := by simp only [cnt2] at *; omega
  have e3 : cnt2 a.pf = cnt2 b.pf := by simp only [cnt2] at *; omega
  cases a; cases b
  simp only [St.mk.injEq]
  exact ⟨eq_of_le_of_cnt_eq h.1 e1, eq_of_le2_of_cnt2_eq h.2.1 e2, hff, eq_of_le2_of_cnt2_eq h.2.2.2 e3⟩

/-! ## Part B: folds of decreasing steps -/

theorem foldl_le {β : Type} (f : St → β → St) (hf : ∀ a k, StLe (f a k) a) :
    ∀ (l : List β) (a : St), StLe (l.foldl f a) a
  | [], a => StLe.refl a
  | k :: l, a => (foldl_le f hf l (f a k)).trans (hf a k)

/-- a fold of decreasing steps that ends where it started did nothing at every step -/
theorem foldl_fixed {β : Type} (f : St → β → St) (hf : ∀ a k, StLe (f a k) a) :
    ∀ (l : List β) (a : St), l.foldl f a = a → ∀ k ∈ l, f a k = a
  | [], _, _, _, hk => by cases hk
  | k :: l, a, h, k', hk' => by
    have h1 : StLe (l.foldl f (f a k)) (f a k) := foldl_le f hf l (f a k)
    simp only [List.foldl_cons] at h
    rw [h] at h1
    have e : f a k = a := (hf a k).antisymm h1
    rw [e] at h
    rcases List.mem_cons.mp hk' with rfl | hm
    · exact e
    · exact foldl_fixed f hf l a h k' hm

theorem foldl_preserve {α β : Type} (f : α → β → α) (P : α → Prop) (hP : ∀ a k, P a → P (f a k)) :
    ∀ (l : List β) (a : α), P a → P (l.foldl f a)
  | [], _, h => h
  | k :: l, a, h => foldl_preserve f P hP l (f a k) (hP a k h)

/-- what step `i` establishes survives the rest of the fold -/
theorem foldl_establish {α β : Type} (f : α → β → α) (P : α → Prop) (hP : ∀ a k, P a → P (f a k))
    (i : β) (hi : ∀ a, P (f a i)) : ∀ (l : List β) (a : α), i ∈ l → P (l.foldl f a)
  | [], _, h => by cases h
  | k :: l, a, h => by
    rcases List.mem_cons.mp h with rfl | hm
    · exact foldl_preserve f P hP l _ (hi a)
    · exact foldl_establish f P hP i hi l (f a k) hm

/-! ## Part C: every walk is decreasing -/

theorem getD_rowMap {α : Type} (xs : List α) (keep : α → Bool → Bool) (row : List Bool) (k : Nat) :
    (rowMap xs keep row).getD k false =
      match row[k]?, xs[k]? with
      | some b, some x => keep x b
      | some b, none => b
      | none, _ => false := by
  simp only [rowMap, List.getD, List.getElem?_mapIdx]
  cases row[k]? <;> cases xs[k]? <;> simp

theorem rowMap_le {α : Type} (xs : List α) (keep : α → Bool → Bool) (row : List Bool)
    (hk : ∀ x b, keep x b = true → b = true) : Le (rowMap xs keep row) row := by
  refine ⟨by simp [rowMap], fun k h => ?_⟩
  rw [getD_rowMap] at h
  simp only [List.getD]
  cases hr : row[k]? with
  | none => simp [hr] at h
  | some b =>
    cases hx : xs[k]? with
    | none => simpa [hr, hx] using h
    | some x => simp only [hr, hx] at h; simpa using hk x b h

theorem subKeep_lower (bad : Sub → Bool) (x : Sub) (b : Bool) (h : subKeep bad x b = true) : b = true := by
  unfold subKeep at h
  split at h
  · exact h
  · split at h
    · cases h
    · exact h

theorem fieldKeepAnalyze_lower (ns : NS) (tf : List Bool) (f : Field) (b : Bool)
    (h : fieldKeepAnalyze ns tf f b = true) : b = true := by
  unfold fieldKeepAnalyze at h
  split at h
  · split at h
    · exact h
    · cases h
  · exact h

theorem fieldKeepPass3_lower (ns : NS) (tf : List Bool) (subs : List Sub) (row : List Bool) (f : Field) (b : Bool)
    (h : fieldKeepPass3 ns tf subs row f b = true) : b = true := by
  unfold fieldKeepPass3 at h
  split at h
  · split at h
    · cases h
    · exact h
  · split at h
    · split at h
      · exact h
      · cases h
    · exact h

theorem stLe_tf (s : St) (i : Nat) : StLe { s with tf := s.tf.set i false } s :=
  ⟨le_set_false _ _, Le2.refl _, Le2.refl _, Le2.refl _⟩

theorem aliasStep_le (ns : NS) (s : St) (i : Nat) : StLe (aliasStep ns s i) s := by
  unfold aliasStep
  split
  · exact StLe.refl s
  · split
    · split
      · exact StLe.refl s
      · exact stLe_tf s i
    · exact StLe.refl s

theorem callStep_le (ns : NS) (s : St) (i : Nat) : StLe (callStep ns s i) s := by
  unfold callStep
  split
  · exact StLe.refl s
  · split
    · exact StLe.refl s
    · split
      · split
        · exact stLe_tf s i
        · exact StLe.refl s
      · exact ⟨Le.refl _, le2_set (rowMap_le _ _ _ (subKeep_lower _)), Le2.refl _, Le2.refl _⟩
      · exact StLe.refl s

theorem analyzeStep_le (ns : NS) (s : St) (i : Nat) : StLe (analyzeStep ns s i) s := by
  unfold analyzeStep
  split
  · exact StLe.refl s
  · split
    · exact StLe.refl s
    · split
      · split
        · exact stLe_tf s i
        · exact StLe.refl s
      · exact ⟨Le.refl _, le2_set (rowMap_le _ _ _ (subKeep_lower _)),
          le2_set (rowMap_le _ _ _ (fieldKeepAnalyze_lower ns s.tf)), Le2.refl _⟩
      · exact StLe.refl s

theorem propStep_le (ns : NS) (s : St) (i : Nat) : StLe (propStep ns s i) s := by
  unfold propStep
  split
  · exact StLe.refl s
  · split
    · exact StLe.refl s
    · refine ⟨Le.refl _, Le2.refl _, Le2.refl _, le2_set (rowMap_le _ _ _ ?_)⟩
      intro p b h
      split at h
      · exact h
      · cases h

theorem pass3Step_le (ns : NS) (s : St) (i : Nat) : StLe (pass3Step ns s i) s := by
  unfold pass3Step
  split
  · exact StLe.refl s
  · split
    · exact StLe.refl s
    · split
      · exact ⟨Le.refl _, le2_set (rowMap_le _ _ _ (subKeep_lower _)),
          le2_set (rowMap_le _ _ _ (fieldKeepPass3_lower ns s.tf _ _)), Le2.refl _⟩
      · exact StLe.refl s

theorem aliasWalk_le (ns : NS) (s : St) : StLe (aliasWalk ns s) s := foldl_le _ (aliasStep_le ns) _ _
theorem callWalk_le (ns : NS) (s : St) : StLe (callWalk ns s) s := foldl_le _ (callStep_le ns) _ _
theorem analyzeWalk_le (ns : NS) (s : St) : StLe (analyzeWalk ns s) s := foldl_le _ (analyzeStep_le ns) _ _
theorem propWalk_le (ns : NS) (s : St) : StLe (propWalk ns s) s := foldl_le _ (propStep_le ns) _ _
theorem pass3Walk_le (ns : NS) (s : St) : StLe (pass3Walk ns s) s := foldl_le _ (pass3Step_le ns) _ _

theorem round_le (ns : NS) (s : St) : StLe (round ns s) s :=
  (callWalk_le ns _).trans (aliasWalk_le ns s)

/-- the loop body never touches field flags -/
theorem aliasStep_ff (ns : NS) (s : St) (i : Nat) : (aliasStep ns s i).ff = s.ff := by
  unfold aliasStep
  split
  · rfl
  · split
    · split <;> rfl
    · rfl

theorem callStep_ff (ns : NS) (s : St) (i : Nat) : (callStep ns s i).ff = s.ff := by
  unfold callStep
  split
  · rfl
  · split
    · rfl
    · split
      · split <;> rfl
      · rfl
      · rfl

theorem round_ff (ns : NS) (s : St) : (round ns s).ff = s.ff := by
  unfold round callWalk aliasWalk
  have h1 := foldl_preserve (callStep ns) (fun a => a.ff = s.ff) (fun a k h => (callStep_ff ns a k).trans h)
  have h2 := foldl_preserve (aliasStep ns) (fun a => a.ff = s.ff) (fun a k h => (aliasStep_ff ns a k).trans h)
  exact h1 _ _ (h2 _ s rfl)

/-- after the loop nothing changes the flags of top-level nodes -/
theorem propStep_tf (ns : NS) (s : St) (i : Nat) : (propStep ns s i).tf = s.tf := by
  unfold propStep
  split
  · rfl
  · split <;> rfl

theorem pass3Step_tf (ns : NS) (s : St) (i : Nat) : (pass3Step ns s i).tf = s.tf := by
  unfold pass3Step
  split
  · rfl
  · split
    · rfl
    · split <;> rfl

theorem propWalk_tf (ns : NS) (s : St) : (propWalk ns s).tf = s.tf :=
  foldl_preserve (propStep ns) (fun a => a.tf = s.tf) (fun a k h => (propStep_tf ns a k).trans h) _ s rfl

theorem pass3Walk_tf (ns : NS) (s : St) : (pass3Walk ns s).tf = s.tf :=
  foldl_preserve (pass3Step ns) (fun a => a.tf = s.tf) (fun a k h => (pass3Step_tf ns a k).trans h) _ s rfl

/-! ## Part D: the loop, and what an unchanged step tells -/

theorem loop_isSome (ns : NS) : ∀ (fuel : Nat) (s : St), count s < fuel → (loop ns fuel s).isSome = true
  | 0, _, h => by omega
  | fuel + 1, s, h => by
    unfold loop
    simp only
    split
    · rfl
    · rename_i hne
      have hle := count_le_of_stLe (round_le ns s)
      have hlt : count (round ns s) < fuel := by
        have : count (round ns s) ≠ count s := by simpa using hne
        omega
      have := loop_isSome ns fuel (round ns s) hlt
      simp only [Option.isSome_map]
      exact this

theorem round_eq_of_count_eq (ns : NS) (s : St) (h : count (round ns s) = count s) : round ns s = s :=
  eq_of_stLe_of_count_eq (round_le ns s) h (round_ff ns s)

/-- the loop only exits in a state that one more round leaves unchanged -/
theorem loop_fixed (ns : NS) : ∀ (fuel : Nat) (s r : St) (k : Nat), loop ns fuel s = some (r, k) → round ns r = r
  | 0, _, _, _, h => by simp [loop] at h
  | fuel + 1, s, r, k, h => by
    unfold loop at h
    simp only at h
    split at h
    · rename_i heq
      have e := round_eq_of_count_eq ns s (by simpa using heq)
      simp only [Option.some.injEq, Prod.mk.injEq] at h
      rw [← h.1, e, e]
    · cases hl : loop ns fuel (round ns s) with
      | none => simp [hl] at h
      | some rk =>
        simp only [hl, Option.map_some, Option.some.injEq, Prod.mk.injEq] at h
        exact loop_fixed ns fuel (round ns s) r rk.2 (by rw [hl, ← h.1])

theorem loop_le (ns : NS) : ∀ (fuel : Nat) (s r : St) (k : Nat), loop ns fuel s = some (r, k) → StLe r s
  | 0, _, _, _, h => by simp [loop] at h
  | fuel + 1, s, r, k, h => by
    unfold loop at h
    simp only at h
    split at h
    · simp only [Option.some.injEq, Prod.mk.injEq] at h
      rw [← h.1]; exact round_le ns s
    · cases hl : loop ns fuel (round ns s) with
      | none => simp [hl] at h
      | some rk =>
        simp only [hl, Option.map_some, Option.some.injEq, Prod.mk.injEq] at h
        exact (loop_le ns fuel (round ns s) r rk.2 (by rw [hl, ← h.1])).trans (round_le ns s)

/-- the number of rounds is at most the number of flags that were set, plus one -/
theorem loop_rounds (ns : NS) : ∀ (fuel : Nat) (s r : St) (k : Nat), loop ns fuel s = some (r, k) →
    k + count r ≤ count s + 1
  | 0, _, _, _, h => by simp [loop] at h
  | fuel + 1, s, r, k, h => by
    unfold loop at h
    simp only at h
    split at h
    · rename_i heq
      simp only [Option.some.injEq, Prod.mk.injEq] at h
      have : count (round ns s) = count s := by simpa using heq
      rw [← h.1, ← h.2]; omega
    · rename_i hne
      cases hl : loop ns fuel (round ns s) with
      | none => simp [hl] at h
      | some rk =>
        simp only [hl, Option.map_some, Option.some.injEq, Prod.mk.injEq] at h
        have ih := loop_rounds ns fuel (round ns s) r rk.2 (by rw [hl, ← h.1])
        have hle := count_le_of_stLe (round_le ns s)
        have : count (round ns s) ≠ count s := by simpa using hne
        omega

theorem round_fixed_walks (ns : NS) (r : St) (h : round ns r = r) :
    aliasWalk ns r = r ∧ callWalk ns r = r := by
  have h1 := aliasWalk_le ns r
  have h2 := callWalk_le ns (aliasWalk ns r)
  unfold round at h
  rw [h] at h2
  have e := h1.antisymm h2
  rw [e] at h
  exact ⟨e, h⟩

theorem round_fixed_steps (ns : NS) (r : St) (h : round ns r = r) (i : Nat) (hi : i < ns.tops.length) :
    aliasStep ns r i = r ∧ callStep ns r i = r := by
  obtain ⟨ha, hc⟩ := round_fixed_walks ns r h
  exact ⟨foldl_fixed _ (aliasStep_le ns) _ r ha i (List.mem_range.mpr hi),
    foldl_fixed _ (callStep_le ns) _ r hc i (List.mem_range.mpr hi)⟩

theorem getD_set_false_self (l : List Bool) (i : Nat) : (l.set i false).getD i false = false := by
  by_cases hi : i < l.length
  · simp [List.getD, hi]
  · simp [List.getD, hi]

theorem aliasStep_fixed {ns : NS} {s : St} {i : Nat} {t : Top} {tgt : Ty}
    (h : aliasStep ns s i = s) (ht : ns.tops[i]? = some t) (hb : t.body = .alias tgt)
    (hf : s.tf.getD i false = true) : tyIntro ns s.tf tgt = true := by
  unfold aliasStep at h
  rw [ht] at h
  simp only [hb] at h
  cases hti : tyIntro ns s.tf tgt with
  | true => rfl
  | false =>
    simp only [hti, Bool.false_eq_true, if_false] at h
    have := congrArg (fun x => x.tf.getD i false) h
    simp only [getD_set_false_self] at this
    rw [hf] at this; cases this

theorem callStep_fixed_top {ns : NS} {s : St} {i : Nat} {t : Top} {sig : Sig}
    (h : callStep ns s i = s) (ht : ns.tops[i]? = some t) (hs : t.skip = false)
    (hb : t.body = .callable sig) (hf : s.tf.getD i false = true) : callBad ns s.tf sig = false := by
  unfold callStep at h
  rw [ht] at h
  simp only [hs, Bool.false_eq_true, if_false, hb] at h
  cases hc : callBad ns s.tf sig with
  | false => rfl
  | true =>
    simp only [hc, if_true] at h
    have := congrArg (fun x => x.tf.getD i false) h
    simp only [getD_set_false_self] at this
    rw [hf] at this; cases this

theorem getD_getD_set (m : List (List Bool)) (i : Nat) (r : List Bool) (j : Nat)
    (h : (m.getD i []).getD j false = true) : ((m.set i r).getD i []).getD j false = r.getD j false := by
  by_cases hi : i < m.length
  · simp [List.getD, hi]
  · have : m[i]? = none := by simp; omega
    simp [List.getD, this] at h

/-- a row entry that survives `subKeep` on a non-skipped child: the child was not `bad` -/
theorem rowMap_subKeep_fixed {subs : List Sub} {bad : Sub → Bool} {row : List Bool} {j : Nat} {sub : Sub}
    (hsub : subs[j]? = some sub) (hskip : sub.skip = false) (hrow : row.getD j false = true)
    (h : (rowMap subs (subKeep bad) row).getD j false = true) : bad sub = false := by
  rw [getD_rowMap] at h
  cases hr : row[j]? with
  | none => simp [List.getD, hr] at hrow
  | some b =>
    simp only [hr, hsub] at h
    unfold subKeep at h
    simp only [hskip, Bool.false_eq_true, if_false] at h
    cases hb : bad sub with
    | false => rfl
    | true => simp [hb] at h

theorem callStep_fixed_sub {ns : NS} {s : St} {i j : Nat} {t : Top} {b : Bool} {fs : List Field}
    {ps : List Prop'} {subs : List Sub} {sub : Sub}
    (h : callStep ns s i = s) (ht : ns.tops[i]? = some t) (hs : t.skip = false)
    (hb : t.body = .compound b fs ps subs) (hsub : subs[j]? = some sub) (hskip : sub.skip = false)
    (hf : (s.sf.getD i []).getD j false = true) : callBad ns s.tf sub.sig = false := by
  unfold callStep at h
  rw [ht] at h
  simp only [hs, Bool.false_eq_true, if_false, hb] at h
  have e := congrArg (fun x => (x.sf.getD i []).getD j false) h
  simp only at e
  rw [getD_getD_set _ _ _ _ hf, hf] at e
  exact rowMap_subKeep_fixed (bad := fun sub => callBad ns s.tf sub.sig) hsub hskip hf e

/-! ### `_type_is_introspectable` and the leaves of a type -/

theorem tyIntro_eq_closed (ns : NS) (tf : List Bool) : ∀ t : Ty, tyIntro ns tf t = tyClosed ns tf t
  | .unresolved => by simp [tyIntro, tyClosed, leaves, leafOk]
  | .fund n => by simp [tyIntro, tyClosed, leaves, leafOk]
  | .foreignT => by simp [tyIntro, tyClosed, leaves, leafOk]
  | .varargs => by simp [tyIntro, tyClosed, leaves, leafOk]
  | .ref n => by simp [tyIntro, tyClosed, leaves, leafOk]
  | .ext a b c => by simp [tyIntro, tyClosed, leaves, leafOk]
  | .array e => by
    have := tyIntro_eq_closed ns tf e
    simp only [tyIntro, tyClosed, leaves] at *; exact this
  | .list e => by
    have := tyIntro_eq_closed ns tf e
    simp only [tyIntro, tyClosed, leaves] at *; exact this
  | .map k v => by
    have h1 := tyIntro_eq_closed ns tf k
    have h2 := tyIntro_eq_closed ns tf v
    simp only [tyIntro, tyClosed, leaves, List.all_append] at *
    rw [h1, h2]

/-- the reference-closure clause for one leaf, as a proposition -/
def LeafOK (ns : NS) (tf : List Bool) : Ty → Prop
  | .unresolved => False
  | .fund n => n ≠ vaList ∧ n ∉ bigTypes
  | .ref n => ∃ i t, ns.find n = some i ∧ ns.tops[i]? = some t ∧ tf.getD i false = true ∧ t.skip = false
  | .ext intro skip _ => intro = true ∧ skip = false
  | .varargs => False
  | _ => True

theorem leafOK_of_leafOk {ns : NS} {tf : List Bool} {l : Ty} (h : leafOk ns tf l = true) : LeafOK ns tf l := by
  cases l with
  | unresolved => simp [leafOk] at h
  | fund n =>
    simp only [leafOk, fundOk, Bool.and_eq_true, Bool.not_eq_true', beq_eq_false_iff_ne] at h
    refine ⟨h.1, ?_⟩
    have := h.2
    simpa using this
  | ref n =>
    simp only [leafOk, refOk] at h
    cases hf : ns.find n with
    | none => simp [hf] at h
    | some i =>
      cases ht : ns.tops[i]? with
      | none => simp [hf, ht] at h
      | some t =>
        simp only [hf, ht, Bool.and_eq_true, Bool.not_eq_true'] at h
        exact ⟨i, t, hf, ht, h.1, h.2⟩
  | ext a b c => simpa [leafOk, LeafOK] using h
  | foreignT => trivial
  | varargs => simp [leafOk] at h
  | array e => trivial
  | list e => trivial
  | map k v => trivial

theorem leavesOK_of_tyIntro {ns : NS} {tf : List Bool} {t : Ty} (h : tyIntro ns tf t = true) :
    ∀ l ∈ leaves t, LeafOK ns tf l := by
  rw [tyIntro_eq_closed] at h
  simp only [tyClosed, List.all_eq_true] at h
  exact fun l hl => leafOK_of_leafOk (h l hl)

theorem callBad_false {ns : NS} {tf : List Bool} {sig : Sig} (h : callBad ns tf sig = false) :
    (∀ p ∈ sig.params, tyIntro ns tf p.ty = true) ∧ tyIntro ns tf sig.ret.ty = true ∧ sig.inline = false := by
  simp only [callBad, Bool.or_eq_false_iff, List.any_eq_false, Bool.not_eq_true', Bool.not_eq_false'] at h
  refine ⟨fun p hp => ?_, ?_, h.2⟩
  · have := h.1.1 p hp; simpa using this
  · simpa using h.1.2

/-! ## Part E: what `_analyze_node`, the property analysis and pass 3 establish -/

theorem getD_false_of_le {a b : List Bool} (h : Le a b) {i : Nat} (hb : b.getD i false = false) :
    a.getD i false = false := by
  cases ha : a.getD i false with
  | false => rfl
  | true => rw [h.2 i ha] at hb; cases hb

theorem getD2_false_of_le2 {a b : List (List Bool)} (h : Le2 a b) {i j : Nat}
    (hb : (b.getD i []).getD j false = false) : (a.getD i []).getD j false = false :=
  getD_false_of_le (h.2 i) hb

theorem getD2_set_false (m : List (List Bool)) (i : Nat) (r : List Bool) (j : Nat)
    (h : r.getD j false = false) : ((m.set i r).getD i []).getD j false = false := by
  by_cases hi : i < m.length
  · simpa [List.getD, hi] using h
  · simp [List.getD, hi]

theorem analyzeStep_top {ns : NS} {i : Nat} {t : Top} {sig : Sig} (s : St)
    (ht : ns.tops[i]? = some t) (hs : t.skip = false) (hb : t.body = .callable sig)
    (hbad : sigBad ns sig = true) : (analyzeStep ns s i).tf.getD i false = false := by
  unfold analyzeStep
  rw [ht]
  simp only [hs, Bool.false_eq_true, if_false, hb, hbad, if_true]
  exact getD_set_false_self _ _

theorem analyzeStep_sub {ns : NS} {i j : Nat} {t : Top} {b : Bool} {fs : List Field} {ps : List Prop'}
    {subs : List Sub} {sub : Sub} (s : St)
    (ht : ns.tops[i]? = some t) (hs : t.skip = false) (hb : t.body = .compound b fs ps subs)
    (hsub : subs[j]? = some sub) (hskip : sub.skip = false) (hbad : sigBad ns sub.sig = true) :
    ((analyzeStep ns s i).sf.getD i []).getD j false = false := by
  unfold analyzeStep
  rw [ht]
  simp only [hs, Bool.false_eq_true, if_false, hb]
  apply getD2_set_false
  rw [getD_rowMap]
  cases hr : (s.sf.getD i [])[j]? with
  | none => rfl
  | some b' => simp [hsub, subKeep, hskip, hbad]

/-- after `_analyze_node` a visited callable with an unbindable parameter is not introspectable -/
theorem analyzeWalk_top {ns : NS} {i : Nat} {t : Top} {sig : Sig} (s : St)
    (ht : ns.tops[i]? = some t) (hs : t.skip = false) (hb : t.body = .callable sig)
    (hbad : sigBad ns sig = true) : (analyzeWalk ns s).tf.getD i false = false := by
  have hi : i < ns.tops.length := by
    rcases Nat.lt_or_ge i ns.tops.length with h | h
    · exact h
    · rw [List.getElem?_eq_none h] at ht; cases ht
  exact foldl_establish (analyzeStep ns) (fun a => a.tf.getD i false = false)
    (fun a k h => getD_false_of_le (analyzeStep_le ns a k).1 h) i
    (fun a => analyzeStep_top a ht hs hb hbad) _ s (List.mem_range.mpr hi)

theorem analyzeWalk_sub {ns : NS} {i j : Nat} {t : Top} {b : Bool} {fs : List Field} {ps : List Prop'}
    {subs : List Sub} {sub : Sub} (s : St)
    (ht : ns.tops[i]? = some t) (hs : t.skip = false) (hb : t.body = .compound b fs ps subs)
    (hsub : subs[j]? = some sub) (hskip : sub.skip = false) (hbad : sigBad ns sub.sig = true) :
    ((analyzeWalk ns s).sf.getD i []).getD j false = false := by
  have hi : i < ns.tops.length := by
    rcases Nat.lt_or_ge i ns.tops.length with h | h
    · exact h
    · rw [List.getElem?_eq_none h] at ht; cases ht
  exact foldl_establish (analyzeStep ns) (fun a => (a.sf.getD i []).getD j false = false)
    (fun a k h => getD2_false_of_le2 (analyzeStep_le ns a k).2.1 h) i
    (fun a => analyzeStep_sub a ht hs hb hsub hskip hbad) _ s (List.mem_range.mpr hi)

theorem getD2_set_true (m : List (List Bool)) (i : Nat) (r : List Bool) (j : Nat)
    (h : ((m.set i r).getD i []).getD j false = true) : r.getD j false = true := by
  by_cases hi : i < m.length
  · simpa [List.getD, hi] using h
  · simp [List.getD, hi] at h

theorem pass3Step_pf (ns : NS) (s : St) (i : Nat) : (pass3Step ns s i).pf = s.pf := by
  unfold pass3Step
  split
  · rfl
  · split
    · rfl
    · split <;> rfl

theorem pass3Walk_pf (ns : NS) (s : St) : (pass3Walk ns s).pf = s.pf :=
  foldl_preserve (pass3Step ns) (fun a => a.pf = s.pf) (fun a k h => (pass3Step_pf ns a k).trans h) _ s rfl

/-- a typed field that is still introspectable after pass 3 has an introspectable type -/
theorem pass3Walk_field {ns : NS} {i k : Nat} {t : Top} {b : Bool} {fs : List Field} {ps : List Prop'}
    {subs : List Sub} {f : Field} {ty : Ty} (s : St)
    (ht : ns.tops[i]? = some t) (hs : t.skip = false) (hb : t.body = .compound b fs ps subs)
    (hf : fs[k]? = some f) (hanon : f.anon = none) (hty : f.ty = some ty)
    (hflag : ((pass3Walk ns s).ff.getD i []).getD k false = true) : tyIntro ns s.tf ty = true := by
  have hi : i < ns.tops.length := by
    rcases Nat.lt_or_ge i ns.tops.length with h | h
    · exact h
    · rw [List.getElem?_eq_none h] at ht; cases ht
  have key := foldl_establish (pass3Step ns)
    (fun a => (a.ff.getD i []).getD k false = true → tyIntro ns a.tf ty = true)
    (fun a j h h' => by
      rw [pass3Step_tf]
      apply h
      cases hx : (a.ff.getD i []).getD k false with
      | true => rfl
      | false => rw [getD2_false_of_le2 (pass3Step_le ns a j).2.2.1 hx] at h'; cases h')
    i
    (fun a h' => by
      rw [pass3Step_tf]
      unfold pass3Step at h'
      rw [ht] at h'
      simp only [hs, Bool.false_eq_true, if_false, hb] at h'
      have h2 := getD2_set_true _ _ _ _ h'
      generalize a.ff.getD i [] = row at h2
      rw [getD_rowMap] at h2
      cases hr : row[k]? with
      | none => simp [hr] at h2
      | some b' =>
        simp only [hr, hf, fieldKeepPass3, hanon, hty] at h2
        cases hti : tyIntro ns a.tf ty with
        | true => rfl
        | false => simp [hti] at h2)
    _ s (List.mem_range.mpr hi)
  have := key hflag
  have e := pass3Walk_tf ns s
  simp only [pass3Walk] at e
  rwa [e] at this

/-- a property that is still introspectable after the property analysis has an introspectable type -/
theorem propWalk_prop {ns : NS} {i k : Nat} {t : Top} {p : Prop'} (s : St)
    (ht : ns.tops[i]? = some t) (hs : t.skip = false) (hp : t.props[k]? = some p)
    (hflag : ((propWalk ns s).pf.getD i []).getD k false = true) : tyIntro ns s.tf p.ty = true := by
  have hi : i < ns.tops.length := by
    rcases Nat.lt_or_ge i ns.tops.length with h | h
    · exact h
    · rw [List.getElem?_eq_none h] at ht; cases ht
  have key := foldl_establish (propStep ns)
    (fun a => (a.pf.getD i []).getD k false = true → tyIntro ns a.tf p.ty = true)
    (fun a j h h' => by
      rw [propStep_tf]
      apply h
      cases hx : (a.pf.getD i []).getD k false with
      | true => rfl
      | false => rw [getD2_false_of_le2 (propStep_le ns a j).2.2.2 hx] at h'; cases h')
    i
    (fun a h' => by
      rw [propStep_tf]
      unfold propStep at h'
      rw [ht] at h'
      simp only [hs, Bool.false_eq_true, if_false] at h'
      have h2 := getD2_set_true _ _ _ _ h'
      generalize a.pf.getD i [] = row at h2
      rw [getD_rowMap] at h2
      cases hr : row[k]? with
      | none => simp [hr] at h2
      | some b' =>
        simp only [hr, hp] at h2
        cases hti : tyIntro ns a.tf p.ty with
        | true => rfl
        | false => simp [hti] at h2)
    _ s (List.mem_range.mpr hi)
  have := key hflag
  have e := propWalk_tf ns s
  simp only [propWalk] at e
  rwa [e] at this

/-- `foldl_preserve` / `foldl_establish` with an invariant `I` that every step keeps -/
theorem foldl_preserve_inv {α β : Type} (f : α → β → α) (I P : α → Prop)
    (hI : ∀ a k, I a → I (f a k)) (hP : ∀ a k, I a → P a → P (f a k)) :
    ∀ (l : List β) (a : α), I a → P a → P (l.foldl f a)
  | [], _, _, h => h
  | k :: l, a, hi, h => foldl_preserve_inv f I P hI hP l (f a k) (hI a k hi) (hP a k hi h)

theorem foldl_establish_inv {α β : Type} (f : α → β → α) (I P : α → Prop)
    (hI : ∀ a k, I a → I (f a k)) (hP : ∀ a k, I a → P a → P (f a k))
    (i : β) (hi : ∀ a, I a → P (f a i)) : ∀ (l : List β) (a : α), I a → i ∈ l → P (l.foldl f a)
  | [], _, _, h => by cases h
  | k :: l, a, hia, h => by
    rcases List.mem_cons.mp h with rfl | hm
    · exact foldl_preserve_inv f I P hI hP l _ (hI a _ hia) (hi a hia)
    · exact foldl_establish_inv f I P hI hP i hi l (f a k) (hI a k hia) hm

/-- a field with an anonymous callback that is still introspectable after pass 3: the callback
    was introspectable when pass 3 started, and it is not skipped (commit efccda4) -/
theorem pass3Walk_anon {ns : NS} {i k j : Nat} {t : Top} {b : Bool} {fs : List Field} {ps : List Prop'}
    {subs : List Sub} {f : Field} (s : St)
    (ht : ns.tops[i]? = some t) (hs : t.skip = false) (hb : t.body = .compound b fs ps subs)
    (hf : fs[k]? = some f) (hanon : f.anon = some j)
    (hflag : ((pass3Walk ns s).ff.getD i []).getD k false = true) :
    (s.sf.getD i []).getD j false = true ∧ subSkipped subs j = false := by
  have hi : i < ns.tops.length := by
    rcases Nat.lt_or_ge i ns.tops.length with h | h
    · exact h
    · rw [List.getElem?_eq_none h] at ht; cases ht
  have key := foldl_establish_inv (pass3Step ns) (fun a => StLe a s)
    (fun a => (a.ff.getD i []).getD k false = true →
      (s.sf.getD i []).getD j false = true ∧ subSkipped subs j = false)
    (fun a j' h => (pass3Step_le ns a j').trans h)
    (fun a j' _ h h' => by
      apply h
      cases hx : (a.ff.getD i []).getD k false with
      | true => rfl
      | false => rw [getD2_false_of_le2 (pass3Step_le ns a j').2.2.1 hx] at h'; cases h')
    i
    (fun a hle h' => by
      unfold pass3Step at h'
      rw [ht] at h'
      simp only [hs, Bool.false_eq_true, if_false, hb] at h'
      have h2 := getD2_set_true _ _ _ _ h'
      have hsle := (hle.2.1.2 i).2 j
      generalize a.ff.getD i [] = row at h2
      generalize a.sf.getD i [] = srow at h2 hsle
      rw [getD_rowMap] at h2
      cases hr : row[k]? with
      | none => simp [hr] at h2
      | some b' =>
        simp only [hr, hf, fieldKeepPass3, hanon] at h2
        cases hrow : srow.getD j false with
        | false => rw [hrow] at h2; simp at h2
        | true =>
          cases hsk : subSkipped subs j with
          | true => rw [hrow, hsk] at h2; simp at h2
          | false => exact ⟨hsle hrow, rfl⟩)
    _ s (StLe.refl s) (List.mem_range.mpr hi)
  exact key hflag

theorem getD_set_ne (m : List (List Bool)) {i i' : Nat} (r : List Bool) (h : i' ≠ i) :
    (m.set i' r).getD i [] = m.getD i [] := by
  simp [List.getD, h]

/-- pass 3 re-analyses signals only: the flag of any other nested callable is left alone -/
theorem pass3Step_sf_keep {ns : NS} {i j : Nat} {t : Top} {b : Bool} {fs : List Field} {ps : List Prop'}
    {subs : List Sub} {sub : Sub} (a : St) (i' : Nat)
    (ht : ns.tops[i]? = some t) (hb : t.body = .compound b fs ps subs)
    (hsub : subs[j]? = some sub) (hsig : sub.sig.isSignal = false)
    (h : (a.sf.getD i []).getD j false = true) :
    ((pass3Step ns a i').sf.getD i []).getD j false = true := by
  unfold pass3Step
  split
  · exact h
  · rename_i t' ht'
    split
    · exact h
    · split
      · rename_i b' fs' ps' subs' hb'
        by_cases hii : i' = i
        · subst hii
          rw [ht] at ht'; cases ht'
          rw [hb] at hb'; cases hb'
          simp only
          rw [getD_getD_set _ _ _ _ h, getD_rowMap]
          generalize a.sf.getD i' [] = row at h ⊢
          cases hr : row[j]? with
          | none => simp [List.getD, hr] at h
          | some b0 =>
            have hb0 : b0 = true := by simpa [List.getD, hr] using h
            simp [hsub, subKeep, hsig, hb0]
        · simp only
          rw [getD_set_ne _ _ hii]; exact h
      · exact h

theorem pass3Walk_sf_keep {ns : NS} {i j : Nat} {t : Top} {b : Bool} {fs : List Field} {ps : List Prop'}
    {subs : List Sub} {sub : Sub} (s : St)
    (ht : ns.tops[i]? = some t) (hb : t.body = .compound b fs ps subs)
    (hsub : subs[j]? = some sub) (hsig : sub.sig.isSignal = false)
    (h : (s.sf.getD i []).getD j false = true) :
    ((pass3Walk ns s).sf.getD i []).getD j false = true :=
  foldl_preserve (pass3Step ns) (fun a => (a.sf.getD i []).getD j false = true)
    (fun a i' h' => pass3Step_sf_keep a i' ht hb hsub hsig h') _ s h

/-! ## Part F: shape of `validate`, `_introspectable_param_analysis` unfolded, the writer's lookups -/

/-- shape of a successful run: skips propagated, loop exit state `s2`, then the two late walks -/
theorem validate_some {ns ns1 : NS} {s : St} {k : Nat} (h : validate ns = some (ns1, s, k)) :
    ns1 = propagateSkips ns ∧
    ∃ s2, loop ns1 (count (analyzeWalk ns1 (aliasWalk ns (initSt ns))) + 1)
            (analyzeWalk ns1 (aliasWalk ns (initSt ns))) = some (s2, k) ∧
      s = pass3Walk ns1 (propWalk ns1 s2) := by
  unfold validate at h
  simp only at h
  split at h
  · cases h
  · rename_i s2 rounds hl
    simp only [Option.some.injEq, Prod.mk.injEq] at h
    obtain ⟨h1, h2, h3⟩ := h
    subst h1 h3
    exact ⟨rfl, s2, hl, h2.symm⟩

/-- every leaf of every parameter / return type of `sig` is acceptable -/
def SigClosed (ns : NS) (tf : List Bool) (sig : Sig) : Prop :=
  ∀ p, p ∈ sig.params ∨ p = sig.ret → ∀ l ∈ leaves p.ty, LeafOK ns tf l

theorem sigClosed_of_callBad {ns : NS} {tf : List Bool} {sig : Sig} (h : callBad ns tf sig = false) :
    SigClosed ns tf sig := by
  obtain ⟨hp, hr, _⟩ := callBad_false h
  rintro p (hp' | rfl)
  · exact leavesOK_of_tyIntro (hp p hp')
  · exact leavesOK_of_tyIntro hr

/-- after `validate`, a visited callable that is still introspectable passed
    `_introspectable_param_analysis` (flags never come back) -/
theorem validate_sigBad {ns ns1 : NS} {s : St} {k : Nat} (h : validate ns = some (ns1, s, k)) :
    (∀ i t sig, ns1.tops[i]? = some t → t.body = .callable sig → t.skip = false →
        s.tf.getD i false = true → sigBad ns1 sig = false)
    ∧ (∀ i t j sub, ns1.tops[i]? = some t → t.skip = false → t.subs[j]? = some sub → sub.skip = false →
        (s.sf.getD i []).getD j false = true → sigBad ns1 sub.sig = false) := by
  obtain ⟨_, s2, hl, rfl⟩ := validate_some h
  have hle : StLe (pass3Walk ns1 (propWalk ns1 s2)) (analyzeWalk ns1 (aliasWalk ns (initSt ns))) :=
    ((pass3Walk_le ns1 _).trans (propWalk_le ns1 s2)).trans (loop_le ns1 _ _ s2 k hl)
  refine ⟨?_, ?_⟩
  · intro i t sig ht hb hs hf
    cases hbad : sigBad ns1 sig with
    | false => rfl
    | true =>
      have := analyzeWalk_top (aliasWalk ns (initSt ns)) ht hs hb hbad
      rw [getD_false_of_le hle.1 this] at hf; cases hf
  · intro i t j sub ht hs hsub hskip hf
    cases hbad : sigBad ns1 sub.sig with
    | false => rfl
    | true =>
      cases hb : t.body with
      | compound b fs ps subs =>
        have hsub' : subs[j]? = some sub := by simpa [Top.subs, hb] using hsub
        have := analyzeWalk_sub (aliasWalk ns (initSt ns)) ht hs hb hsub' hskip hbad
        rw [getD2_false_of_le2 hle.2.1 this] at hf; cases hf
      | alias _ => simp [Top.subs, hb] at hsub
      | callable _ => simp [Top.subs, hb] at hsub
      | other => simp [Top.subs, hb] at hsub

/-- what `sigBad = false` says about one value that is not marked (skip) -/
theorem paramBad_false {ns : NS} {isRet : Bool} {p : Param} (h : paramBad ns isRet p = false)
    (hskip : p.skip = false) :
    p.ty ≠ .unresolved ∧ p.ty ≠ .varargs ∧ missingElementType p.ty = false
    ∧ (isRet = false → targetKind ns p.ty = .callback false → p.hasScope = true)
    ∧ (isRet = true → ∀ e, targetKind ns p.ty ≠ .callback e)
    ∧ ((isRet = true → targetKind ns p.ty ≠ .bareCompound) → p.hasTransfer = true) := by
  unfold paramBad at h
  simp only [hskip, Bool.false_eq_true, if_false] at h
  by_cases h1 : p.ty = .unresolved
  · simp [h1] at h
  by_cases h2 : p.ty = .varargs
  · simp [h2] at h
  by_cases h3 : missingElementType p.ty = true
  · simp [h1, h2, h3] at h
  simp only [beq_iff_eq, h1, h2, h3, if_false] at h
  refine ⟨h1, h2, by simpa using h3, ?_, ?_, ?_⟩
  · intro hr hk
    rw [hk, hr] at h
    have : p.hasScope = true ∧ p.hasTransfer = true := by simpa using h
    exact this.1
  · intro hr e hk
    rw [hk, hr] at h
    simp at h
  · intro hnb
    cases hk : targetKind ns p.ty with
    | other => rw [hk] at h; simpa using h
    | bareCompound =>
      rw [hk] at h
      cases hr : isRet with
      | false => rw [hr] at h; simpa using h
      | true => exact absurd hk (hnb hr)
    | callback e =>
      rw [hk] at h
      cases hr : isRet with
      | true => rw [hr] at h; simp at h
      | false =>
        rw [hr] at h
        cases he : e <;> cases hs : p.hasScope <;> simp [he, hs] at h <;> simpa using h

theorem getIndex_ok {names : List (Option Str)} {name : Str} {i : Nat} (h : getIndex names name = .ok i) :
    i < names.length ∧ names[i]? = some (some name) := by
  unfold getIndex at h
  cases hf : names.findIdx? (fun a => a == some name) with
  | none => rw [hf] at h; cases h
  | some j =>
    rw [hf] at h
    cases h
    obtain ⟨hlt, hp, _⟩ := List.findIdx?_eq_some_iff_getElem.mp hf
    refine ⟨hlt, ?_⟩
    rw [List.getElem?_eq_getElem hlt]
    simpa using hp

theorem optIndex_ok {names : List (Option Str)} {o : Option Str} {i : Nat}
    (h : optIndex names o = .ok (some i)) :
    i < names.length ∧ ∃ n, o = some n ∧ names[i]? = some (some n) := by
  cases o with
  | none => simp [optIndex] at h
  | some n =>
    simp only [optIndex] at h
    cases hg : getIndex names n with
    | error e => rw [hg] at h; cases h
    | ok j =>
      rw [hg] at h
      simp only [Except.ok.injEq, Option.some.injEq] at h
      subst h
      exact ⟨(getIndex_ok hg).1, n, rfl, (getIndex_ok hg).2⟩

/-! ## Part G: `_introspectable_property_analysis` keeps accessor names consistent -/

/-- the cross-reference clause of C05 for accessors, as `girWellFormed` checks it on the written
    attributes: a property's setter / getter is a method that names the property back, and a
    method's set-property / get-property — when a property of that name exists (the first one is
    looked at) — is named by that property as its setter / getter -/
def AccAgree (ps : List Prop') (ms : List Sub) : Prop :=
  (∀ p ∈ ps, ∀ m, p.setter = some m → ∃ f ∈ ms, f.isMethod = true ∧ f.name = m ∧ f.setProp = some p.name)
  ∧ (∀ p ∈ ps, ∀ m, p.getter = some m → ∃ f ∈ ms, f.isMethod = true ∧ f.name = m ∧ f.getProp = some p.name)
  ∧ (∀ f ∈ ms, f.isMethod = true → ∀ pn, f.setProp = some pn →
      ∀ p, ps.find? (fun p => p.name == pn) = some p → p.setter = some f.name)
  ∧ (∀ f ∈ ms, f.isMethod = true → ∀ pn, f.getProp = some pn →
      ∀ p, ps.find? (fun p => p.name == pn) = some p → p.getter = some f.name)

theorem propAfter_name (ns : NS) (tf : List Bool) (p : Prop') : (propAfter ns tf p).name = p.name := by
  unfold propAfter; split <;> rfl

/-- a property that still has an accessor, or is still introspectable, was left alone -/
theorem propAfter_eq_of_intro {ns : NS} {tf : List Bool} {p : Prop'} (h : (propAfter ns tf p).intro = true) :
    propAfter ns tf p = p := by
  unfold propAfter at h ⊢
  split
  · rfl
  · rename_i hn; simp [hn] at h

theorem propAfter_eq_of_setter {ns : NS} {tf : List Bool} {p : Prop'} {m : Str}
    (h : (propAfter ns tf p).setter = some m) : propAfter ns tf p = p := by
  unfold propAfter at h ⊢
  split
  · rfl
  · rename_i hn; simp [hn] at h

theorem propAfter_eq_of_getter {ns : NS} {tf : List Bool} {p : Prop'} {m : Str}
    (h : (propAfter ns tf p).getter = some m) : propAfter ns tf p = p := by
  unfold propAfter at h ⊢
  split
  · rfl
  · rename_i hn; simp [hn] at h

theorem clearAcc_some {ps : List Prop'} {o : Option Str} {n : Str} (h : clearAcc ps o = some n) :
    o = some n ∧ ∀ p ∈ ps, p.name = n → p.intro = true := by
  cases o with
  | none => simp [clearAcc] at h
  | some x =>
    simp only [clearAcc] at h
    split at h
    · cases h
    · rename_i hany
      cases h
      refine ⟨rfl, fun p hp hn => ?_⟩
      cases hi : p.intro with
      | true => rfl
      | false =>
        exfalso; apply hany
        simp only [List.any_eq_true]
        exact ⟨p, hp, by simp [hn, hi]⟩

theorem clearAcc_keep {ps : List Prop'} {n : Str} (h : ∀ p ∈ ps, p.name = n → p.intro = true) :
    clearAcc ps (some n) = some n := by
  simp only [clearAcc]
  split
  · rename_i hany
    simp only [List.any_eq_true, Bool.and_eq_true, beq_iff_eq, Bool.not_eq_true'] at hany
    obtain ⟨p, hp, hn, hi⟩ := hany
    rw [h p hp hn] at hi; cases hi
  · rfl

theorem find?_map_propAfter (ns : NS) (tf : List Bool) (pn : Str) : ∀ (ps : List Prop'),
    (ps.map (propAfter ns tf)).find? (fun p => p.name == pn) =
      (ps.find? (fun p => p.name == pn)).map (propAfter ns tf)
  | [] => rfl
  | p :: ps => by
    simp only [List.map_cons, List.find?_cons, propAfter_name]
    cases p.name == pn with
    | true => rfl
    | false => exact find?_map_propAfter ns tf pn ps

/-- The property analysis keeps the accessor cross references consistent, for a class whose
    property names are distinct and whose properties that are already non-introspectable carry
    no accessor. -/
theorem accessorsAfter_agree (ns : NS) (tf : List Bool) (t : Top)
    (huniq : ∀ p ∈ t.props, ∀ q ∈ t.props, p.name = q.name → p = q)
    (hdead : ∀ p ∈ t.props, p.intro = false → p.setter = none ∧ p.getter = none)
    (h : AccAgree t.props t.subs) :
    AccAgree (accessorsAfter ns tf t).1 (accessorsAfter ns tf t).2 := by
  unfold accessorsAfter
  split
  · exact h
  · simp only
    obtain ⟨h1, h2, h3, h4⟩ := h
    -- a surviving property keeps every method that names it
    have keep : ∀ p ∈ t.props, propAfter ns tf p = p → p.intro = true →
        ∀ q' ∈ t.props.map (propAfter ns tf), q'.name = p.name → q'.intro = true := by
      intro p hp hpe hpi q' hq' hn
      obtain ⟨q, hq, rfl⟩ := List.mem_map.mp hq'
      rw [propAfter_name] at hn
      have := huniq q hq p hp hn
      subst this
      rw [hpe]; exact hpi
    refine ⟨?_, ?_, ?_, ?_⟩
    · intro p' hp' m hm
      obtain ⟨p, hp, rfl⟩ := List.mem_map.mp hp'
      have he := propAfter_eq_of_setter hm
      rw [he] at hm ⊢
      have hpi : p.intro = true := by
        cases hi : p.intro with
        | true => rfl
        | false => rw [(hdead p hp hi).1] at hm; cases hm
      obtain ⟨f, hf, hfm, hfn, hfs⟩ := h1 p hp m hm
      refine ⟨methodAfter (t.props.map (propAfter ns tf)) f, List.mem_map.mpr ⟨f, hf, rfl⟩, ?_, ?_, ?_⟩
      · simp [methodAfter, hfm]
      · simp [methodAfter, hfm, hfn]
      · simp only [methodAfter, hfm, if_true, hfs]
        exact clearAcc_keep (keep p hp he hpi)
    · intro p' hp' m hm
      obtain ⟨p, hp, rfl⟩ := List.mem_map.mp hp'
      have he := propAfter_eq_of_getter hm
      rw [he] at hm ⊢
      have hpi : p.intro = true := by
        cases hi : p.intro with
        | true => rfl
        | false => rw [(hdead p hp hi).2] at hm; cases hm
      obtain ⟨f, hf, hfm, hfn, hfs⟩ := h2 p hp m hm
      refine ⟨methodAfter (t.props.map (propAfter ns tf)) f, List.mem_map.mpr ⟨f, hf, rfl⟩, ?_, ?_, ?_⟩
      · simp [methodAfter, hfm]
      · simp [methodAfter, hfm, hfn]
      · simp only [methodAfter, hfm, if_true, hfs]
        exact clearAcc_keep (keep p hp he hpi)
    · intro f' hf' hm' pn hs' p' hfind
      obtain ⟨f, hf, rfl⟩ := List.mem_map.mp hf'
      have hfm : f.isMethod = true := by
        unfold methodAfter at hm'; split at hm'
        · assumption
        · exact hm'
      simp only [methodAfter, hfm, if_true] at hs' ⊢
      obtain ⟨hs, hall⟩ := clearAcc_some hs'
      rw [find?_map_propAfter] at hfind
      cases hfp : t.props.find? (fun p => p.name == pn) with
      | none => rw [hfp] at hfind; cases hfind
      | some p =>
        rw [hfp] at hfind
        simp only [Option.map_some, Option.some.injEq] at hfind
        subst hfind
        have hpm : p ∈ t.props := List.mem_of_find?_eq_some hfp
        have hpn : p.name = pn := by simpa using List.find?_some hfp
        have hi := hall (propAfter ns tf p) (List.mem_map.mpr ⟨p, hpm, rfl⟩) (by rw [propAfter_name]; exact hpn)
        rw [propAfter_eq_of_intro hi]
        exact h3 f hf hfm pn hs p hfp
    · intro f' hf' hm' pn hs' p' hfind
      obtain ⟨f, hf, rfl⟩ := List.mem_map.mp hf'
      have hfm : f.isMethod = true := by
        unfold methodAfter at hm'; split at hm'
        · assumption
        · exact hm'
      simp only [methodAfter, hfm, if_true] at hs' ⊢
      obtain ⟨hs, hall⟩ := clearAcc_some hs'
      rw [find?_map_propAfter] at hfind
      cases hfp : t.props.find? (fun p => p.name == pn) with
      | none => rw [hfp] at hfind; cases hfind
      | some p =>
        rw [hfp] at hfind
        simp only [Option.map_some, Option.some.injEq] at hfind
        subst hfind
        have hpm : p ∈ t.props := List.mem_of_find?_eq_some hfp
        have hpn : p.name = pn := by simpa using List.find?_some hfp
        have hi := hall (propAfter ns tf p) (List.mem_map.mpr ⟨p, hpm, rfl⟩) (by rw [propAfter_name]; exact hpn)
        rw [propAfter_eq_of_intro hi]
        exact h4 f hf hfm pn hs p hfp

/-- `AccAgree`, executable -/
def accAgreeB (ps : List Prop') (ms : List Sub) : Bool :=
  ps.all (fun p => match p.setter with
    | none => true
    | some m => ms.any (fun f => f.isMethod && f.name == m && f.setProp == some p.name))
  && ps.all (fun p => match p.getter with
    | none => true
    | some m => ms.any (fun f => f.isMethod && f.name == m && f.getProp == some p.name))
  && ms.all (fun f => !f.isMethod || match f.setProp with
    | none => true
    | some pn => match ps.find? (fun p => p.name == pn) with
      | none => true
      | some p => p.setter == some f.name)
  && ms.all (fun f => !f.isMethod || match f.getProp with
    | none => true
    | some pn => match ps.find? (fun p => p.name == pn) with
      | none => true
      | some p => p.getter == some f.name)

theorem accAgree_of_accAgreeB {ps : List Prop'} {ms : List Sub} (h : accAgreeB ps ms = true) : AccAgree ps ms := by
  simp only [accAgreeB, Bool.and_eq_true, List.all_eq_true] at h
  obtain ⟨⟨⟨h1, h2⟩, h3⟩, h4⟩ := h
  refine ⟨?_, ?_, ?_, ?_⟩
  · intro p hp m hm
    have := h1 p hp
    simp only [hm, List.any_eq_true, Bool.and_eq_true, beq_iff_eq] at this
    obtain ⟨f, hf, ⟨a, b⟩, c⟩ := this
    exact ⟨f, hf, a, b, c⟩
  · intro p hp m hm
    have := h2 p hp
    simp only [hm, List.any_eq_true, Bool.and_eq_true, beq_iff_eq] at this
    obtain ⟨f, hf, ⟨a, b⟩, c⟩ := this
    exact ⟨f, hf, a, b, c⟩
  · intro f hf hm pn hs p hfind
    have := h3 f hf
    simpa [hm, hs, hfind] using this
  · intro f hf hm pn hs p hfind
    have := h4 f hf
    simpa [hm, hs, hfind] using this

end GIVerif.Introspectable
