/- The block-level round trip (C10): the state machine `parseBlock` run over every layout of the
   lines the writer emits for a block of the stated grammar gives exactly the block's image. -/
import GIVerif.Lemmas.AnnParseBlockLines

namespace GIVerif.AnnParse
open GIVerif.Py

/-! ### one laid-out line -/

structure WfLayout (L : Layout) : Prop where
  startIndent : ∀ x ∈ L.startIndent, isSpace x = true ∧ x ≠ '\r' ∧ x ≠ '\n'
  indent : ∀ x ∈ L.indent, isSpace x = true ∧ x ≠ '\r' ∧ x ≠ '\n'
  endIndent : ∀ x ∈ L.endIndent, isSpace x = true ∧ x ≠ '\r' ∧ x ≠ '\n'
  sp : isSpace L.sp = true ∧ L.sp ≠ '\r' ∧ L.sp ≠ '\n'
  eol : IsEol L.eol

theorem wsString_spec {s : Str} (h : wsString s = true) : ∀ x ∈ s, isSpace x = true ∧ x ≠ '\r' ∧ x ≠ '\n' := by
  intro x hx
  simp only [wsString, List.all_eq_true, Bool.and_eq_true, noBreakChar, bne_iff_ne, ne_eq] at h
  exact ⟨(h x hx).1, (h x hx).2.2, (h x hx).2.1⟩

theorem wfLayout_spec {L : Layout} (h : wfLayout L = true) : WfLayout L := by
  simp only [wfLayout, Bool.and_eq_true, Bool.or_eq_true, beq_iff_eq, noBreakChar, bne_iff_ne, ne_eq] at h
  obtain ⟨⟨⟨⟨⟨h1, h2⟩, h3⟩, h4⟩, h5, h6⟩, h7⟩ := h
  exact ⟨wsString_spec h1, wsString_spec h2, wsString_spec h3, ⟨h4, h6, h5⟩, by
    rcases h7 with (h | h) | h
    · exact Or.inl h
    · exact Or.inr (Or.inl h)
    · exact Or.inr (Or.inr h)⟩

/-- the column at which the text of a laid-out line starts -/
def colOf (L : Layout) (l : Str) : Nat := L.indent.length + (if l.isEmpty then 1 else 2)

theorem lineStep_lay (h : Hdr) (st : BSt) (ln : Nat) (L : Layout) (hL : WfLayout L) (l : Str) :
    lineStep h st ln (layLine L l) =
      lineBody h { st with blockIndent := st.blockIndent ++ [L.indent] } ln (colOf L l) (layLine L l) l := by
  have hind : ∀ x ∈ L.indent, isSpace x = true := fun x hx => (hL.indent x hx).1
  unfold lineStep stripAsterisk layLine colOf
  cases hl : l.isEmpty with
  | true =>
    have : l = [] := List.isEmpty_iff.mp hl
    subst this
    simp only [if_true]
    rw [matchAsterisk_bare L.indent hind]
    have hws : countWs (L.indent ++ ['*']) = L.indent.length :=
      countWhile_append_stop isSpace L.indent '*' [] hind star_not_space
    have hd : (L.indent ++ ['*']).drop (L.indent.length + 1) = [] := List.drop_eq_nil_of_le (by simp)
    simp [hws, take_len_append, groupText, hd]
  | false =>
    simp only [Bool.false_eq_true, if_false]
    rw [matchAsterisk_indent L.indent L.sp l hind hL.sp.1]
    have hws : countWs (L.indent ++ '*' :: L.sp :: l) = L.indent.length :=
      countWhile_append_stop isSpace L.indent '*' _ hind star_not_space
    have hd : (L.indent ++ '*' :: L.sp :: l).drop (L.indent.length + 2) = l := by
      rw [drop_len_add]; rfl
    simp [hws, take_len_append, groupText, hd]

theorem lineLoop_append (h : Hdr) : ∀ (xs ys : List Str) (ln : Nat) (st : BSt),
    lineLoop h (xs ++ ys) ln st =
      (match lineLoop h xs ln st with
       | .error e => .error e
       | .ok st' => lineLoop h ys (ln + xs.length) st')
  | [], ys, ln, st => by simp [lineLoop]
  | x :: xs, ys, ln, st => by
    simp only [List.cons_append, lineLoop]
    cases hs : lineStep h st (ln + 1) x with
    | error e => rfl
    | ok st' =>
      simp only []
      rw [lineLoop_append h xs ys (ln + 1) st']
      simp only [List.length_cons]
      rw [show ln + 1 + xs.length = ln + (xs.length + 1) by omega]

/-! ### the phases of a block -/

/-- a state in which nothing has gone wrong so far -/
structure Clean (st : BSt) (blk : BlockM) (inds : List Str) : Prop where
  block : st.block = some blk
  partIndent : st.partIndent = some 0
  returnsSeen : st.returnsSeen = false
  diags : st.diags = []
  blockIndent : st.blockIndent = inds

def paramRaws : List SPart → Nat → List (Str × PartM)
  | [], _ => []
  | p :: ps, ln => (p.name, partRaw p.name p ln) :: paramRaws ps (ln + 1)

theorem assocHas_map_name (ps : List SPart) (k : Str) :
    assocHas (ps.map (fun p => (p.name, ()))) k = ps.any (fun p => p.name == k) := by
  simp [assocHas, List.any_map, Function.comp_def]

/-- the parameter lines -/
theorem phase_params (h : Hdr) (L : Layout) (hL : WfLayout L) : ∀ (ps : List SPart) (ln : Nat) (st : BSt) (blk : BlockM)
    (inds : List Str), Clean st blk inds → (st.inPart = some .ident ∨ st.inPart = some .params) →
    (∀ p ∈ ps, wfParam p = true) → nodupKeys (ps.map (fun p => (p.name, ()))) = true →
    (∀ p ∈ ps, assocHas blk.params p.name = false) →
    ∃ st', lineLoop h (ps.map (fun p => layLine L (paramLine p))) ln st = .ok st' ∧
      Clean st' { blk with params := blk.params ++ paramRaws ps (ln + 1) } (inds ++ List.replicate ps.length L.indent) ∧
      (st'.inPart = some .ident ∨ st'.inPart = some .params)
  | [], ln, st, blk, inds, hc, hin, _, _, _ => by
    refine ⟨st, rfl, ?_, hin⟩
    simpa [paramRaws] using hc
  | p :: ps, ln, st, blk, inds, hc, hin, hw, hn, hnew => by
    have hp := hw p (by simp)
    obtain ⟨_, _, _, hbody⟩ := wfParam_spec hp
    simp only [List.map_cons, lineLoop]
    rw [lineStep_lay h st (ln + 1) L hL (paramLine p)]
    have hstep := lineBody_param h { st with blockIndent := st.blockIndent ++ [L.indent] } blk (ln + 1)
      (colOf L (paramLine p)) (layLine L (paramLine p)) (partTail p) p hp (partFields_spec p hbody).2 hc.block hin
      (hnew p (by simp))
    unfold paramLine at hstep ⊢
    rw [hstep]
    simp only []
    have hn' := nodupKeys_cons (p.name, ()) (ps.map (fun p => (p.name, ()))) (by simpa [List.map_cons] using hn)
    have hnm : (partRaw p.name p (ln + 1)).name = p.name := rfl
    have hset : setParam blk (partRaw p.name p (ln + 1)) =
        { blk with params := blk.params ++ [(p.name, partRaw p.name p (ln + 1))] } := by
      simp only [setParam, hnm, assocSet_append_new blk.params p.name _ (hnew p (by simp))]
    have hnew' : ∀ q ∈ ps, assocHas (setParam blk (partRaw p.name p (ln + 1))).params q.name = false := by
      intro q hq
      rw [hset]
      show assocHas (blk.params ++ [(p.name, partRaw p.name p (ln + 1))]) q.name = false
      rw [assocHas_append, hnew q (by simp [hq])]
      simp only [Bool.false_or, assocHas, List.any_cons, List.any_nil, Bool.or_false, beq_eq_false_iff_ne, ne_eq]
      intro he
      have h1 := hn'.1
      rw [assocHas_map_name] at h1
      have : (ps.any fun r => r.name == p.name) = true := List.any_eq_true.mpr ⟨q, hq, by simp [he]⟩
      rw [this] at h1; cases h1
    obtain ⟨st', hl, hc', hin'⟩ := phase_params h L hL ps (ln + 1)
      { st with blockIndent := st.blockIndent ++ [L.indent], partIndent := some 0, inPart := some .params,
                block := some (setParam blk (partRaw p.name p (ln + 1))), cur := some (false, partRaw p.name p (ln + 1)) }
      (setParam blk (partRaw p.name p (ln + 1))) (inds ++ [L.indent])
      ⟨rfl, rfl, hc.returnsSeen, hc.diags, by simp [hc.blockIndent]⟩ (Or.inr rfl)
      (fun q hq => hw q (by simp [hq])) hn'.2 hnew'
    unfold paramLine at hl
    refine ⟨st', hl, ?_, hin'⟩
    rw [hset] at hc'
    simpa [paramRaws, List.replicate_succ, List.append_assoc] using hc'


/-- description lines appended one by one give the joined text -/
theorem join_lf_push (x l : Str) (ls : List Str) :
    join ['\n'] ((x ++ '\n' :: l) :: ls) = x ++ '\n' :: join ['\n'] (l :: ls) := by
  cases ls with
  | nil => simp [join]
  | cons y ys => simp [join]

theorem foldl_appendDesc (x : Str) : ∀ (ls : List Str), ls.foldl appendDesc (some x) = some (join ['\n'] (x :: ls))
  | [] => rfl
  | l :: ls => by
    simp only [List.foldl_cons, appendDesc]
    rw [foldl_appendDesc (x ++ '\n' :: l) ls, join_lf_push]
    cases ls <;> simp [join]

/-- the lines of the block description, read in the description part -/
theorem phase_desc (h : Hdr) (L : Layout) (hL : WfLayout L) : ∀ (ls : List Str) (ln : Nat) (st : BSt) (blk : BlockM)
    (inds : List Str), Clean st blk inds → st.inPart = some .desc → (∀ l ∈ ls, wfDescLine l = true) →
    ∃ st', lineLoop h (ls.map (layLine L)) ln st = .ok st' ∧
      Clean st' { blk with description := ls.foldl appendDesc blk.description } (inds ++ List.replicate ls.length L.indent) ∧
      st'.inPart = some .desc
  | [], ln, st, blk, inds, hc, hin, _ => ⟨st, rfl, by simpa using hc, hin⟩
  | l :: ls, ln, st, blk, inds, hc, hin, hw => by
    simp only [List.map_cons, lineLoop]
    have hstep := lineBody_desc h { st with blockIndent := st.blockIndent ++ [L.indent] } blk (ln + 1) (colOf L l)
      (layLine L l) l hc.block hin (hw l (by simp))
    rw [lineStep_lay h st (ln + 1) L hL l, hstep]
    simp only []
    obtain ⟨st', hl, hc', hin'⟩ := phase_desc h L hL ls (ln + 1)
      { st with blockIndent := st.blockIndent ++ [L.indent],
                block := some { blk with description := appendDesc blk.description l } }
      { blk with description := appendDesc blk.description l } (inds ++ [L.indent])
      ⟨rfl, hc.partIndent, hc.returnsSeen, hc.diags, by simp [hc.blockIndent]⟩ hin (fun x hx => hw x (by simp [hx]))
    refine ⟨st', hl, ?_, hin'⟩
    simpa [List.replicate_succ, List.append_assoc] using hc'

/-! ### the clean-up -/

theorem split1_noSep {c : Char} {t : Str} (h : c ∉ t) : (split1 c t).1 = t := by
  rw [split1_token_none h]

theorem cleanDescription_raw (name : Str) (p : SPart) (ln : Nat) (h : wfPartBody p = true) :
    cleanDescription (partRaw name p ln) = partImage name p ln := by
  simp only [wfPartBody, Bool.and_eq_true] at h
  obtain ⟨_, hd⟩ := h
  unfold cleanDescription partRaw partImage rawDesc
  cases hd' : p.desc with
  | none =>
    cases hae : p.anns.isEmpty with
    | true => simp
    | false => simp
  | some d =>
    rw [hd'] at hd
    obtain ⟨htr, hnb, _⟩ := wfDescText_spec hd
    have hne : d.isEmpty = false := by cases d with
      | nil => exact absurd rfl htr.ne_nil
      | cons _ _ => rfl
    have hlf : '\n' ∉ d := noBreak_not_mem_lf hnb
    cases hae : p.anns.isEmpty with
    | true =>
      simp only [Bool.true_and, Option.isNone_some, Bool.false_eq_true, if_false, if_true, hne, strip_trimmed htr,
        split1_noSep hlf, matchEmpty_trimmed htr]
    | false =>
      have hlf' : '\n' ∉ ' ' :: d := by
        intro hm; rcases List.mem_cons.mp hm with h | h
        · exact absurd h (by decide)
        · exact hlf h
      have hme : matchEmpty (' ' :: d) = false := by
        have := matchEmpty_trimmed htr
        simp only [matchEmpty] at this
        simp only [matchEmpty, List.all_cons, this, Bool.and_false]
      simp only [Bool.false_and, Bool.false_eq_true, if_false, List.isEmpty_cons, strip_space_trimmed space_isSpace htr,
        hne, split1_noSep hlf', hme]

theorem paramRaws_clean : ∀ (ps : List SPart) (ln : Nat), (∀ p ∈ ps, wfParam p = true) →
    (paramRaws ps ln).map (fun e => (e.1, cleanDescription e.2)) = paramImages ps ln
  | [], _, _ => rfl
  | p :: ps, ln, h => by
    simp only [paramRaws, paramImages, List.map_cons, cleanDescription_raw p.name p ln (wfParam_spec (h p (by simp))).2.2.2]
    rw [paramRaws_clean ps (ln + 1) (fun q hq => h q (by simp [hq]))]

theorem join_lf_trimmed : ∀ (ls : List Str), ls ≠ [] → (∀ l ∈ ls, Trimmed l) → Trimmed (join ['\n'] ls)
  | [], h, _ => absurd rfl h
  | [l], _, hw => hw l (by simp)
  | l :: m :: ms, _, hw => by
    rw [join_cons_cons]
    have hl := hw l (by simp)
    have hr := join_lf_trimmed (m :: ms) (by simp) (fun x hx => hw x (by simp [hx]))
    obtain ⟨c, cs, he, hc⟩ := hl.head
    obtain ⟨ds, d, hd, hdd⟩ := hr.last
    exact ⟨⟨c, cs ++ ['\n'] ++ join ['\n'] (m :: ms), by rw [he]; simp, hc⟩,
      ⟨l ++ ['\n'] ++ ds, d, by rw [hd]; simp, hdd⟩⟩

theorem strip_append_lf {d : Str} (h : Trimmed d) : strip (d ++ ['\n']) = d := by
  unfold strip
  obtain ⟨c, cs, he, hc⟩ := h.head
  have h1 : lstrip (d ++ ['\n']) = d ++ ['\n'] := by
    rw [he]; exact lstrip_cons_of_not_space hc
  rw [h1]
  obtain ⟨ds, x, hx, hxs⟩ := h.last
  unfold rstrip
  rw [hx]
  simp [List.dropWhile, show isSpace '\n' = true by decide, hxs]

/-! ### the comment tokens -/

theorem findStart_lay (si : Str) (hsi : ∀ x ∈ si, isSpace x = true) :
    findStart (si ++ str "/**") 0 = some (0, si.length) := by
  have hws : countWs (si ++ str "/**") = si.length :=
    countWhile_append_stop isSpace si '/' _ hsi (by decide)
  have hd : (si ++ str "/**").drop si.length = str "/**" := drop_append_len _ _
  cases hsi' : si ++ str "/**" with
  | nil => simp [str] at hsi'
  | cons c cs =>
    rw [findStart, ← hsi', hws, hd]
    simp [startTokenAt, str]

theorem matchStart_lay (si : Str) (hsi : ∀ x ∈ si, isSpace x = true) :
    matchStart (si ++ str "/**") =
      some [("code", 0, 0), ("token", si.length, si.length + 3), ("comment", si.length + 3, si.length + 3)] := by
  unfold matchStart
  rw [findStart_lay si hsi]
  have hd : (si ++ str "/**").drop (si.length + 3) = [] := List.drop_eq_nil_of_le (by simp [str])
  simp only [hd, trimmedSpan_nil]

theorem matchEnd_lay (ei : Str) (hei : ∀ x ∈ ei, isSpace x = true) :
    matchEnd (ei ++ str "*/") =
      some [("comment", ei.length, ei.length), ("token", ei.length, ei.length + 2), ("code", ei.length + 2, ei.length + 2)] := by
  unfold matchEnd
  have hws : countWs (ei ++ str "*/") = ei.length :=
    countWhile_append_stop isSpace ei '*' _ hei star_not_space
  have hd : (ei ++ str "*/").drop ei.length = str "*/" := drop_append_len _ _
  simp only [hws]
  rw [hd]
  have hf : findEnd (str "*/") ei.length = some (ei.length, ei.length, ei.length + 2) := by
    simp [str, findEnd, endTokenAt, countWs, countWhile, star_not_space]
  rw [hf]
  have hd2 : (ei ++ str "*/").drop (ei.length + 2) = [] := List.drop_eq_nil_of_le (by simp [str])
  simp [hd2, rstrip]

theorem openBlock_lay (L : Layout) (hL : WfLayout L) (body : List Str) (n : Nat) :
    openBlock ((L.startIndent ++ str "/**") :: (body ++ [L.endIndent ++ str "*/"])) n =
      .ok (some { lines := body, hdr := { line := n, codeBefore := [], codeAfter := [] } }, []) := by
  unfold openBlock
  simp only []
  rw [matchStart_lay L.startIndent (fun x hx => (hL.startIndent x hx).1)]
  have hn : ((L.startIndent ++ str "/**") :: (body ++ [L.endIndent ++ str "*/"])).length ≠ 1 := by simp
  simp only [hn, if_false]
  have hlast : (body ++ [L.endIndent ++ str "*/"]).getLast? = some (L.endIndent ++ str "*/") := by simp
  simp [groupText, hlast, matchEnd_lay L.endIndent (fun x hx => (hL.endIndent x hx).1)]


/-! ### the identifier line and the part after the parameters -/

theorem identLine_head (name : Str) (a : Anns) (hw : wfWord name = true) :
    ∃ c cs, identLine name a = c :: cs ∧ isSpace c = false := by
  obtain ⟨hne, hall⟩ := wfWord_spec hw
  cases name with
  | nil => exact absurd rfl hne
  | cons c cs =>
    have hc := isWord_not_space (hall c (by simp))
    unfold identLine
    split
    · exact ⟨c, cs ++ [':'], rfl, hc⟩
    · exact ⟨c, cs ++ ':' :: ' ' :: serializeAnnotations a, rfl, hc⟩

theorem lineBody_ident (h : Hdr) (st : BSt) (ln col : Nat) (orig : Str) (name : Str) (a : Anns)
    (hw : wfWord name = true) (hs : NotSection name) (ha : wfAnns a = true) (hb : st.block = none) :
    lineBody h st ln col orig (identLine name a) =
      .ok { st with inPart := some .ident, partIndent := some 0, block := some (identBlock h name a ln) } := by
  obtain ⟨c, cs, he, hc⟩ := identLine_head name a hw
  unfold lineBody
  rw [hb]
  simp only []
  rw [identStep_symbol h st ln col orig _ name a hw hs ha, he, lineIndent_nonspace cs hc]

/-- the optional description part: an empty line and the description lines -/
theorem phase_descPart (h : Hdr) (L : Layout) (hL : WfLayout L) (ds : List Str) (ln : Nat) (st : BSt) (blk : BlockM)
    (inds : List Str) (hc : Clean st blk inds) (hin : st.inPart = some .ident ∨ st.inPart = some .params)
    (hnone : blk.description = none) (hw : ∀ l ∈ ds, wfDescLine l = true) :
    ∃ st', lineLoop h ((if ds.isEmpty then [] else [] :: ds).map (layLine L)) ln st = .ok st' ∧
      Clean st' { blk with description := if ds.isEmpty then none else some (join ['\n'] ds) }
        (inds ++ List.replicate (if ds.isEmpty then [] else [] :: ds).length L.indent) ∧
      (if ds.isEmpty then (st'.inPart = some .ident ∨ st'.inPart = some .params) else st'.inPart = some .desc) := by
  cases ds with
  | nil =>
    refine ⟨st, rfl, ?_, by simpa using hin⟩
    have : blk = { blk with description := none } := by rw [← hnone]
    simp only [List.isEmpty_nil, if_true, List.length_nil, List.replicate_zero, List.append_nil]
    rw [← this]; exact hc
  | cons d ds =>
    simp only [List.isEmpty_cons, Bool.false_eq_true, if_false, List.map_cons, lineLoop]
    have hstep := lineBody_blank_first h { st with blockIndent := st.blockIndent ++ [L.indent] } blk (ln + 1)
      (colOf L []) (layLine L []) hc.block hin
    rw [lineStep_lay h st (ln + 1) L hL [], hstep]
    simp only []
    obtain ⟨st', hl, hc', hin'⟩ := phase_desc h L hL (d :: ds) (ln + 1)
      { st with blockIndent := st.blockIndent ++ [L.indent], inPart := some .desc, partIndent := some 0 } blk
      (inds ++ [L.indent]) ⟨hc.block, rfl, hc.returnsSeen, hc.diags, by simp [hc.blockIndent]⟩ rfl hw
    simp only [List.map_cons] at hl
    refine ⟨st', hl, ?_, hin'⟩
    rw [hnone] at hc'
    have hf : (d :: ds).foldl appendDesc none = some (join ['\n'] (d :: ds)) := by
      simp only [List.foldl_cons, appendDesc]; exact foldl_appendDesc d ds
    rw [hf] at hc'
    simpa [List.replicate_succ, List.append_assoc] using hc'

/-- the optional tag part: an empty line and the `Returns:` line -/
theorem phase_tagPart (h : Hdr) (L : Layout) (hL : WfLayout L) (r : SPart) (hr : wfPartBody r = true) (ln : Nat)
    (st : BSt) (blk : BlockM) (inds : List Str) (hc : Clean st blk inds)
    (hin : st.inPart = some .desc ∨ (st.inPart = some .ident ∨ st.inPart = some .params)) :
    ∃ st', lineLoop h ([[], returnsLine r].map (layLine L)) ln st = .ok st' ∧ st'.diags = [] ∧
      st'.blockIndent = inds ++ [L.indent, L.indent] ∧
      st'.block = some (setTag { blk with description := if st.inPart = some .desc then appendDesc blk.description []
                                                           else blk.description }
                          (partRaw (str Gen.tagReturns) r (ln + 2))) := by
  simp only [List.map_cons, List.map_nil, lineLoop]
  rw [lineStep_lay h st (ln + 1) L hL []]
  have hft := (partFields_spec r hr).2
  rcases hin with hd | hip
  · -- the empty line belongs to the description
    have hstep := lineBody_blank_desc h { st with blockIndent := st.blockIndent ++ [L.indent] } blk (ln + 1)
      (colOf L []) (layLine L []) hc.block hd
    rw [hstep]
    simp only []
    rw [lineStep_lay h _ (ln + 1 + 1) L hL (returnsLine r)]
    have hret := lineBody_returns h
      { st with blockIndent := st.blockIndent ++ [L.indent] ++ [L.indent],
                block := some { blk with description := appendDesc blk.description [] } }
      { blk with description := appendDesc blk.description [] } (ln + 1 + 1) (colOf L (returnsLine r))
      (layLine L (returnsLine r)) (partTail r) r hr hft rfl hd hc.partIndent hc.returnsSeen
    unfold returnsLine at hret ⊢
    rw [hret]
    refine ⟨_, rfl, hc.diags, by simp [hc.blockIndent], ?_⟩
    simp [hd]
  · -- the empty line ends the identifier / parameter part
    have hstep := lineBody_blank_first h { st with blockIndent := st.blockIndent ++ [L.indent] } blk (ln + 1)
      (colOf L []) (layLine L []) hc.block hip
    rw [hstep]
    simp only []
    rw [lineStep_lay h _ (ln + 1 + 1) L hL (returnsLine r)]
    have hret := lineBody_returns h
      { st with blockIndent := st.blockIndent ++ [L.indent] ++ [L.indent], inPart := some .desc, partIndent := some 0 }
      blk (ln + 1 + 1) (colOf L (returnsLine r))
      (layLine L (returnsLine r)) (partTail r) r hr hft hc.block rfl rfl hc.returnsSeen
    unfold returnsLine at hret ⊢
    rw [hret]
    refine ⟨_, rfl, hc.diags, by simp [hc.blockIndent], ?_⟩
    have hnd : st.inPart ≠ some .desc := by rcases hip with h | h <;> rw [h] <;> simp
    simp [hnd]


/-! ### the whole body -/

theorem descBlock_trimmed (ds : List Str) (hne : ds ≠ []) (hw : ∀ l ∈ ds, wfDescLine l = true) :
    Trimmed (join ['\n'] ds) :=
  join_lf_trimmed ds hne (fun l hl => (wfDescLine_spec (hw l hl)).1)

/-- the block while the body is being read: everything fixed by the identifier and parameter lines,
    the description and tags collected so far -/
def blkMid (h : Hdr) (b : SBlock) (n : Nat) (desc : Option Str) (tags : List (Str × PartM)) : BlockM :=
  { name := b.name, line := h.line, annotations := b.anns, annsLine := if b.anns.isEmpty then none else some (n + 1),
    params := paramRaws b.params (n + 2), description := desc, tags := tags, codeBefore := h.codeBefore,
    codeAfter := h.codeAfter, indentation := [] }

/-- what the clean-up makes of the description collected so far (`extra`: the empty line before the tags) -/
theorem finish_desc (b : SBlock) (hb : WfSBlock b) (extra : Bool) :
    stripDescription (if b.desc.isEmpty then none else
              if extra then some (join ['\n'] b.desc ++ ['\n']) else some (join ['\n'] b.desc)) =
      (if b.desc.isEmpty then none else some (join ['\n'] b.desc)) := by
  unfold stripDescription
  cases hds : b.desc with
  | nil => rfl
  | cons d ds =>
    have htr := descBlock_trimmed (d :: ds) (by simp) (fun l hl => hb.desc l (by rw [hds]; exact hl))
    have hne : (join ['\n'] (d :: ds)).isEmpty = false := by
      cases hj : join ['\n'] (d :: ds) with
      | nil => exact absurd hj htr.ne_nil
      | cons _ _ => rfl
    cases extra with
    | true => simp [strip_append_lf htr]
    | false => simp [hne, strip_trimmed htr]

theorem replicate_body (x : Str) (a c k : Nat) :
    [x] ++ List.replicate a x ++ List.replicate c x ++ List.replicate k x = List.replicate (1 + a + c + k) x := by
  rw [show [x] = List.replicate 1 x from rfl]
  simp only [List.replicate_append_replicate]

/-- the state machine over every laid-out body of a block of the grammar -/
theorem lineLoop_body (L : Layout) (hL : WfLayout L) (b : SBlock) (hb : WfSBlock b) (n : Nat) (h : Hdr)
    (hh : h = { line := n, codeBefore := [], codeAfter := [] }) :
    ∃ st, lineLoop h ((bodyOf b).map (layLine L)) n BSt.init = .ok st ∧ st.diags = [] ∧
      finishBlock st = some (blockImage b n (List.replicate (bodyOf b).length L.indent)) := by
  unfold bodyOf
  simp only [List.map_cons, List.map_append, List.append_assoc, List.cons_append, List.map_map]
  rw [lineLoop]
  -- the identifier line
  have e1 : lineStep h BSt.init (n + 1) (layLine L (identLine b.name b.anns)) =
      .ok { block := some (blkMid h { b with params := [] } n none []), identWarned := false, blockIndent := [L.indent],
            partIndent := some 0, inPart := some .ident, cur := none, returnsSeen := false, diags := [] } := by
    rw [lineStep_lay h BSt.init (n + 1) L hL (identLine b.name b.anns)]
    exact lineBody_ident h { BSt.init with blockIndent := BSt.init.blockIndent ++ [L.indent] } (n + 1)
      (colOf L (identLine b.name b.anns)) (layLine L (identLine b.name b.anns)) b.name b.anns hb.name hb.notSA hb.anns rfl
  rw [e1]
  simp only []
  -- the parameters
  rw [lineLoop_append]
  obtain ⟨st2, hl2, hc2, hin2⟩ := phase_params h L hL b.params (n + 1)
    { block := some (blkMid h { b with params := [] } n none []), identWarned := false, blockIndent := [L.indent],
      partIndent := some 0, inPart := some .ident, cur := none, returnsSeen := false, diags := [] }
    (blkMid h { b with params := [] } n none []) [L.indent] ⟨rfl, rfl, rfl, rfl, rfl⟩ (Or.inl rfl) hb.params hb.nodup
    (fun _ _ => rfl)
  have hc2' : Clean st2 (blkMid h b n none []) ([L.indent] ++ List.replicate b.params.length L.indent) := hc2
  have hcomp : (layLine L ∘ paramLine) = (fun p => layLine L (paramLine p)) := rfl
  rw [hcomp, hl2]
  simp only [List.length_map]
  -- the description
  rw [lineLoop_append]
  obtain ⟨st3, hl3, hc3, hin3⟩ := phase_descPart h L hL b.desc (n + 1 + b.params.length) st2 _ _ hc2' hin2 rfl hb.desc
  have hc3' : Clean st3 (blkMid h b n (if b.desc.isEmpty then none else some (join ['\n'] b.desc)) [])
      ([L.indent] ++ List.replicate b.params.length L.indent ++
        List.replicate (if b.desc.isEmpty = true then [] else [] :: b.desc).length L.indent) := hc3
  rw [hl3]
  simp only [List.length_map]
  have harith : ∀ a c k : Nat, 1 + a + c + k = a + (c + k) + 1 := by intros; omega
  cases hr : b.returns with
  | none =>
    simp only [List.map_nil, lineLoop]
    refine ⟨st3, rfl, hc3'.diags, ?_⟩
    unfold finishBlock
    rw [hc3'.block]
    have h0 := replicate_body L.indent b.params.length (if b.desc.isEmpty = true then [] else [] :: b.desc).length 0
    simp only [List.replicate_zero, List.append_nil] at h0
    have hd0 := finish_desc b hb false
    simp only [Bool.false_eq_true, if_false] at hd0
    simp only [blkMid, hc3'.blockIndent, h0, blockImage, hr, hh, List.map_nil,
      paramRaws_clean b.params (n + 2) hb.params, List.length_cons, List.length_append, List.length_map, List.length_nil]
    rw [hd0, harith]
  | some r =>
    have hrb := hb.returns r hr
    have hnm : (partRaw (str Gen.tagReturns) r (n + linesBeforeTags b + 2)).name = str Gen.tagReturns := rfl
    cases hde : b.desc.isEmpty with
    | true =>
      simp only [hde, if_true, List.length_nil, Nat.add_zero, List.nil_append] at hin3 hc3' ⊢
      have hnd : st3.inPart ≠ some .desc := by rcases hin3 with h | h <;> rw [h] <;> simp
      obtain ⟨st4, hl4, hd4, hi4, hb4⟩ := phase_tagPart h L hL r hrb (n + 1 + b.params.length) st3 _ _ hc3' (Or.inr hin3)
      refine ⟨st4, hl4, hd4, ?_⟩
      unfold finishBlock
      rw [hb4, hi4]
      have hln : n + 1 + b.params.length + 2 = n + linesBeforeTags b + 2 := by simp [linesBeforeTags, hde]; omega
      have h2 := replicate_body L.indent b.params.length 0 2
      rw [show [L.indent, L.indent] = List.replicate 2 L.indent from rfl, h2, hln]
      simp only [hnd, if_false, setTag, hnm, blkMid, assocSet, List.map_cons, List.map_nil, blockImage, hr, hh, hde,
        if_true, paramRaws_clean b.params (n + 2) hb.params, cleanDescription_raw _ r _ hrb, List.length_cons,
        List.length_append, List.length_map, List.length_nil]
      rw [harith]
      rfl
    | false =>
      simp only [hde, Bool.false_eq_true, if_false, List.length_cons] at hin3 hc3' ⊢
      obtain ⟨st4, hl4, hd4, hi4, hb4⟩ := phase_tagPart h L hL r hrb (n + 1 + b.params.length + (b.desc.length + 1)) st3 _ _
        hc3' (Or.inl hin3)
      refine ⟨st4, hl4, hd4, ?_⟩
      unfold finishBlock
      rw [hb4, hi4]
      have hln : n + 1 + b.params.length + (b.desc.length + 1) + 2 = n + linesBeforeTags b + 2 := by
        simp [linesBeforeTags, hde]; omega
      have h2 := replicate_body L.indent b.params.length (b.desc.length + 1) 2
      have hd1 := finish_desc b hb true
      simp only [hde, Bool.false_eq_true, if_false, if_true] at hd1
      rw [show [L.indent, L.indent] = List.replicate 2 L.indent from rfl, h2, hln]
      simp only [hin3, if_true, appendDesc, setTag, hnm, blkMid, assocSet, List.map_cons, List.map_nil, blockImage, hr, hh,
        hde, Bool.false_eq_true, if_false, paramRaws_clean b.params (n + 2) hb.params, cleanDescription_raw _ r _ hrb,
        List.length_cons, List.length_append, List.length_map, List.length_nil]
      rw [hd1, harith]


/-! ### the whole comment -/

theorem bodyOf_noBreak (b : SBlock) (hb : WfSBlock b) : ∀ l ∈ bodyOf b, NoBreak l := by
  intro l hl
  unfold bodyOf at hl
  rw [List.append_assoc, List.cons_append] at hl
  rcases List.mem_cons.mp hl with heq | hl2
  · rw [heq]
    unfold identLine
    split
    · exact noBreak_append (wfWord_noBreak hb.name) (noBreak_cons (by decide) noBreak_nil)
    · exact noBreak_append (wfWord_noBreak hb.name) (noBreak_cons (by decide) (noBreak_cons (by decide)
        (serializeAnnotations_noBreak b.anns (wfAnns_spec hb.anns).1)))
  rcases List.mem_append.mp hl2 with hp' | hl3
  · obtain ⟨p, hp, rfl⟩ := List.mem_map.mp hp'
    obtain ⟨hw, _, _, hbody⟩ := wfParam_spec (hb.params p hp)
    exact noBreak_cons (by decide) (noBreak_append (wfWord_noBreak hw) (noBreak_cons (by decide) (partTail_noBreak p hbody)))
  rcases List.mem_append.mp hl3 with hd | hr
  · split at hd
    · cases hd
    · rcases List.mem_cons.mp hd with rfl | h
      · exact noBreak_nil
      · exact (wfDescLine_spec (hb.desc l h)).2.1
  · cases hret : b.returns with
    | none => rw [hret] at hr; cases hr
    | some r =>
      rw [hret] at hr
      simp only [List.mem_cons, List.mem_nil_iff, or_false] at hr
      rcases hr with rfl | rfl
      · exact noBreak_nil
      · exact noBreak_append (wfWord_noBreak (by decide +kernel)) (noBreak_cons (by decide)
          (partTail_noBreak r (hb.returns r hret)))

theorem ws_noBreak {s : Str} (h : ∀ x ∈ s, isSpace x = true ∧ x ≠ '\r' ∧ x ≠ '\n') : NoBreak s :=
  fun x hx => (h x hx).2

theorem layLine_noBreak (L : Layout) (hL : WfLayout L) {l : Str} (h : NoBreak l) : NoBreak (layLine L l) := by
  unfold layLine
  split
  · exact noBreak_append (ws_noBreak hL.indent) (noBreak_cons (by decide) noBreak_nil)
  · exact noBreak_append (ws_noBreak hL.indent) (noBreak_cons (by decide) (noBreak_cons hL.sp.2 h))

/-- **parse ∘ render**: every layout of the writer's lines for a block of the grammar parses, without any
    diagnostic, to exactly the block's image (with the layout's indentation recorded for every body line) -/
theorem parseBlock_render (L : Layout) (hL : WfLayout L) (b : SBlock) (hb : WfSBlock b) (n : Nat) (inds0 : List Str) :
    parseBlock (render L (blockImage b n inds0)) n =
      .ok (some (blockImage b n (List.replicate (bodyOf b).length L.indent)), []) := by
  unfold parseBlock render renderLines
  rw [bodyLines_image b n inds0 hb, List.cons_append]
  have hnb : ∀ l ∈ (L.startIndent ++ str "/**") :: ((bodyOf b).map (layLine L) ++ [L.endIndent ++ str "*/"]), NoBreak l := by
    intro l hl
    simp only [List.mem_cons, List.mem_append, List.mem_map, List.mem_nil_iff, or_false] at hl
    rcases hl with rfl | ⟨x, hx, rfl⟩ | rfl
    · exact noBreak_append (ws_noBreak hL.startIndent) (by intro c hc; revert c; decide)
    · exact layLine_noBreak L hL (bodyOf_noBreak b hb x hx)
    · exact noBreak_append (ws_noBreak hL.endIndent) (by intro c hc; revert c; decide)
  rw [commentLines_join L.eol hL.eol _ (by simp) hnb]
  unfold parseBlockLines
  rw [openBlock_lay L hL _ n]
  simp only []
  obtain ⟨st, hl, hd, hf⟩ := lineLoop_body L hL b hb n { line := n, codeBefore := [], codeAfter := [] } rfl
  have hinit : ({ BSt.init with diags := [] } : BSt) = BSt.init := rfl
  rw [hinit, hl]
  simp only [hd, hf]


/-! ### the writer -/

theorem mostCommon_fold_same (whole : List Str) (x : Str) : ∀ (m : Nat),
    (List.replicate m x).foldl (fun best k => match best with
      | none => some k
      | some b => if whole.count k > whole.count b then some k else some b) (some x) = some x
  | 0 => rfl
  | m + 1 => by simp [List.replicate_succ, mostCommon_fold_same whole x m]

theorem mostCommon_replicate (k : Nat) (x : Str) : mostCommon (List.replicate (k + 1) x) = some x := by
  unfold mostCommon
  conv => lhs; arg 3; rw [List.replicate_succ]
  rw [List.foldl_cons]
  exact mostCommon_fold_same _ x k

theorem flatten_lines : ∀ (ls : List Str), ls ≠ [] → (ls.map (fun l => l ++ ['\n'])).flatten = join ['\n'] ls ++ ['\n']
  | [], h => absurd rfl h
  | [l], _ => by simp [join]
  | l :: m :: ms, _ => by
    rw [List.map_cons, List.flatten_cons, flatten_lines (m :: ms) (by simp), join_cons_cons]
    simp

theorem write_lines (si li : Str) (body : List Str) :
    ((si ++ str "/**\n") :: body.map (fun l => if l.isEmpty then li ++ ['*', '\n'] else li ++ '*' :: ' ' :: l ++ ['\n'])
        ++ [li ++ str "*/\n"]).flatten =
      join ['\n'] ((si ++ str "/**") ::
        body.map (layLine { startIndent := si, indent := li, endIndent := li, sp := ' ', eol := ['\n'] }) ++ [li ++ str "*/"])
        ++ ['\n'] := by
  rw [← flatten_lines _ (by simp)]
  congr 1
  simp only [List.cons_append, List.map_cons, List.map_append, List.map_map, List.map_nil]
  congr 1
  · simp [str]
  · congr 1
    · apply List.map_congr_left
      intro l _
      simp only [Function.comp, layLine]
      split <;> simp
    · simp [str]

/-- the writer's own text for the image of a block model is that block's rendering in the writer's layout,
    followed by the final line break -/
theorem writeBlock_image (b : SBlock) (n : Nat) (k : Nat) (ind : Str) :
    writeBlock (blockImage b n (List.replicate (k + 1) ind)) =
      .ok (render (writerLayout ind) (blockImage b n (List.replicate (k + 1) ind)) ++ ['\n']) := by
  unfold writeBlock writeIndents
  have hind : (blockImage b n (List.replicate (k + 1) ind)).indentation = List.replicate (k + 1) ind := rfl
  have hcb : (blockImage b n (List.replicate (k + 1) ind)).codeBefore = [] := rfl
  have hca : (blockImage b n (List.replicate (k + 1) ind)).codeAfter = [] := rfl
  rw [hind, mostCommon_replicate, hcb, hca]
  unfold render renderLines writerLayout
  cases he : endsWith (if ind.isEmpty then [' '] else ind) ['\t'] with
  | true => simp only [he, if_true, List.isEmpty_nil]; rw [write_lines]
  | false => simp only [he, Bool.false_eq_true, if_false, List.isEmpty_nil, if_true]; rw [write_lines]


theorem writerLayout_wf (ind : Str) (h : wsString ind = true) : WfLayout (writerLayout ind) := by
  have hi := wsString_spec h
  have hsp : isSpace ' ' = true ∧ ' ' ≠ '\r' ∧ ' ' ≠ '\n' := by decide
  have hindent : ∀ x ∈ (if ind.isEmpty then [' '] else ind), isSpace x = true ∧ x ≠ '\r' ∧ x ≠ '\n' := by
    intro x hx
    split at hx
    · rw [List.mem_singleton.mp hx]; exact hsp
    · exact hi x hx
  unfold writerLayout
  simp only []
  generalize (if ind.isEmpty then [' '] else ind) = indent at hindent ⊢
  have hdl : ∀ x ∈ indent.dropLast, x ∈ indent := fun x hx => List.dropLast_subset indent hx
  cases he : endsWith indent ['\t'] with
  | true =>
    simp only [if_true]
    refine ⟨hindent, ?_, ?_, hsp, Or.inl rfl⟩ <;>
    · intro x hx
      rcases List.mem_append.mp hx with h1 | h1
      · exact hindent x h1
      · rw [List.mem_singleton.mp h1]; exact hsp
  | false =>
    simp only [Bool.false_eq_true, if_false]
    exact ⟨fun x hx => hindent x (hdl x hx), hindent, hindent, hsp, Or.inl rfl⟩

end GIVerif.AnnParse
