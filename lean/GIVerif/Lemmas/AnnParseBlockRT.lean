/- The block-level round trip (C10): the state machine `parseBlock` run over every layout of the
   lines the writer emits for a block of the stated grammar gives exactly the block's image. -/
import GIVerif.Lemmas.AnnParseBlockLines

namespace GIVerif.AnnParse
open GIVerif.Py

/-! ### one laid-out line -/

structure WfLayout (L : Layout) : Prop where
  startIndent : ∀ x ∈ L.startIndent, isSpace x = true ∧ x ≠ '\r' ∧ x ≠ '\n'
  indent : ∀ x ∈ L.indent, isSpace x = true ∧ x ≠ '\r' ∧ x ≠ '\n'
  endIndent : ∀ x ∈ L.endIndent, isSpace x = true ∧ x ≠ '\r' ∧ x ≠ '\n'
  sp : isSpace L.sp = true ∧ L.sp ≠ '\r' ∧ L.sp ≠ '\n'
  eol : IsEol L.eol

theorem wsString_spec {s : Str} (h : wsString s = true) : ∀ x ∈ s, isSpace x = true ∧ x ≠ '\r' ∧ x ≠ '\n' := by
  intro x hx
  simp only [wsString, List.all_eq_true, Bool.and_eq_true, noBreakChar, bne_iff_ne, ne_eq] at h
  exact ⟨(h x hx).1, (h x hx).2.2, (h x hx).2.1⟩

theorem wfLayout_spec {L : Layout} (h : wfLayout L = true) : WfLayout L := by
  simp only [wfLayout, Bool.and_eq_true, Bool.or_eq_true, beq_iff_eq, noBreakChar, bne_iff_ne, ne_eq] at h
  obtain ⟨⟨⟨⟨⟨h1, h2⟩, h3⟩, h4⟩, h5, h6⟩, h7⟩ := h
  exact ⟨wsString_spec h1, wsString_spec h2, wsString_spec h3, ⟨h4, h6, h5⟩, by
    rcases h7 with (h | h) | h
    · exact Or.inl h
    · exact Or.inr (Or.inl h)
    · exact Or.inr (Or.inr h)⟩

/-- the column at which the text of a laid-out line starts -/
def colOf (L : Layout) (l : Str) : Nat := L.indent.length + (if l.isEmpty then 1 else 2)

theorem lineStep_lay (h : Hdr) (st : BSt) (ln : Nat) (L : Layout) (hL : WfLayout L) (l : Str) :
    lineStep h st ln (layLine L l) =
      lineBody h { st with blockIndent := st.blockIndent ++ [L.indent] } ln (colOf L l) (layLine L l) l := by
  have hind : ∀ x ∈ L.indent, isSpace x = true := fun x hx => (hL.indent x hx).1
  unfold lineStep stripAsterisk layLine colOf
  cases hl : l.isEmpty with
  | true =>
    have : l = [] := List.isEmpty_iff.mp hl
    subst this
    simp only [if_true]
    rw [matchAsterisk_bare L.indent hind]
    have hws : countWs (L.indent ++ ['*']) = L.indent.length :=
      countWhile_append_stop isSpace L.indent '*' [] hind star_not_space
    have hd : (L.indent ++ ['*']).drop (L.indent.length + 1) = [] := List.drop_eq_nil_of_le (by simp)
    simp [hws, take_len_append, groupText, hd]
  | false =>
    simp only [Bool.false_eq_true, if_false]
    rw [matchAsterisk_indent L.indent L.sp l hind hL.sp.1]
    have hws : countWs (L.indent ++ '*' :: L.sp :: l) = L.indent.length :=
      countWhile_append_stop isSpace L.indent '*' _ hind star_not_space
    have hd : (L.indent ++ '*' :: L.sp :: l).drop (L.indent.length + 2) = l := by
      rw [drop_len_add]; rfl
    simp [hws, take_len_append, groupText, hd]

theorem lineLoop_append (h : Hdr) : ∀ (xs ys : List Str) (ln : Nat) (st : BSt),
    lineLoop h (xs ++ ys) ln st =
      (match lineLoop h xs ln st with
       | .error e => .error e
       | .ok st' => lineLoop h ys (ln + xs.length) st')
  | [], ys, ln, st => by simp [lineLoop]
  | x :: xs, ys, ln, st => by
    simp only [List.cons_append, lineLoop]
    cases hs : lineStep h st (ln + 1) x with
    | error e => rfl
    | ok st' =>
      simp only []
      rw [lineLoop_append h xs ys (ln + 1) st']
      simp only [List.length_cons]
      rw [show ln + 1 + xs.length = ln + (xs.length + 1) by omega]

/-! ### the phases of a block -/

/-- a state in which nothing has gone wrong so far -/
structure Clean (st : BSt) (blk : BlockM) (inds : List Str) : Prop where
  block : st.block = some blk
  partIndent : st.partIndent = some 0
  returnsSeen : st.returnsSeen = false
  diags : st.diags = []
  blockIndent : st.blockIndent = inds

def paramRaws : List SPart → Nat → List (Str × PartM)
  | [], _ => []
  | p :: ps, ln => (p.name, partRaw p.name p ln) :: paramRaws ps (ln + 1)

theorem assocHas_map_name (ps : List SPart) (k : Str) :
    assocHas (ps.map (fun p => (p.name, ()))) k = ps.any (fun p => p.name == k) := by
  simp [assocHas, List.any_map, Function.comp_def]

/-- the parameter lines -/
theorem phase_params (h : Hdr) (L : Layout) (hL : WfLayout L) : ∀ (ps : List SPart) (ln : Nat) (st : BSt) (blk : BlockM)
    (inds : List Str), Clean st blk inds → (st.inPart = some .ident ∨ st.inPart = some .params) →
    (∀ p ∈ ps, wfParam p = true) → nodupKeys (ps.map (fun p => (p.name, ()))) = true →
    (∀ p ∈ ps, assocHas blk.params p.name = false) →
    ∃ st', lineLoop h (ps.map (fun p => layLine L (paramLine p))) ln st = .ok st' ∧
      Clean st' { blk with params := blk.params ++ paramRaws ps (ln + 1) } (inds ++ List.replicate ps.length L.indent) ∧
      (st'.inPart = some .ident ∨ st'.inPart = some .params)
  | [], ln, st, blk, inds, hc, hin, _, _, _ => by
    refine ⟨st, rfl, ?_, hin⟩
    simpa [paramRaws] using hc
  | p :: ps, ln, st, blk, inds, hc, hin, hw, hn, hnew => by
    have hp := hw p (by simp)
    obtain ⟨_, _, _, hbody⟩ := wfParam_spec hp
    simp only [List.map_cons, lineLoop]
    rw [lineStep_lay h st (ln + 1) L hL (paramLine p)]
    have hstep := lineBody_param h { st with blockIndent := st.blockIndent ++ [L.indent] } blk (ln + 1)
      (colOf L (paramLine p)) (layLine L (paramLine p)) (partTail p) p hp (partFields_spec p hbody).2 hc.block hin
      (hnew p (by simp))
    unfold paramLine at hstep ⊢
    rw [hstep]
    simp only []
    have hn' := nodupKeys_cons (p.name, ()) (ps.map (fun p => (p.name, ()))) (by simpa [List.map_cons] using hn)
    have hnm : (partRaw p.name p (ln + 1)).name = p.name := rfl
    have hset : setParam blk (partRaw p.name p (ln + 1)) =
        { blk with params := blk.params ++ [(p.name, partRaw p.name p (ln + 1))] } := by
      simp only [setParam, hnm, assocSet_append_new blk.params p.name _ (hnew p (by simp))]
    have hnew' : ∀ q ∈ ps, assocHas (setParam blk (partRaw p.name p (ln + 1))).params q.name = false := by
      intro q hq
      rw [hset]
      show assocHas (blk.params ++ [(p.name, partRaw p.name p (ln + 1))]) q.name = false
      rw [assocHas_append, hnew q (by simp [hq])]
      simp only [Bool.false_or, assocHas, List.any_cons, List.any_nil, Bool.or_false, beq_eq_false_iff_ne, ne_eq]
      intro he
      have h1 := hn'.1
      rw [assocHas_map_name] at h1
      have : (ps.any fun r => r.name == p.name) = true := List.any_eq_true.mpr ⟨q, hq, by simp [he]⟩
      rw [this] at h1; cases h1
    obtain ⟨st', hl, hc', hin'⟩ := phase_params h L hL ps (ln + 1)
      { st with blockIndent := st.blockIndent ++ [L.indent], partIndent := some 0, inPart := some .params,
                block := some (setParam blk (partRaw p.name p (ln + 1))), cur := some (false, partRaw p.name p (ln + 1)) }
      (setParam blk (partRaw p.name p (ln + 1))) (inds ++ [L.indent])
      ⟨rfl, rfl, hc.returnsSeen, hc.diags, by simp [hc.blockIndent]⟩ (Or.inr rfl)
      (fun q hq => hw q (by simp [hq])) hn'.2 hnew'
    unfold paramLine at hl
    refine ⟨st', hl, ?_, hin'⟩
    rw [hset] at hc'
    simpa [paramRaws, List.replicate_succ, List.append_assoc] using hc'

end GIVerif.AnnParse
