/- The block-level round trip (C10): the state machine `parseBlock` run over every layout of the
   lines the writer emits for a block of the stated grammar gives exactly the block's image. -/
import GIVerif.Lemmas.AnnParseBlockLines

namespace GIVerif.AnnParse
open GIVerif.Py

/-! ### one laid-out line -/

structure WfLayout (L : Layout) : Prop where
  startIndent : ∀ x ∈ L.startIndent, isSpace x = true ∧ x ≠ '\r' ∧ x ≠ '\n'
  indent : ∀ k, ∀ x ∈ L.indentAt k, isSpace x = true ∧ x ≠ '\r' ∧ x ≠ '\n'
  endIndent : ∀ x ∈ L.endIndent, isSpace x = true ∧ x ≠ '\r' ∧ x ≠ '\n'
  sp : isSpace L.sp = true ∧ L.sp ≠ '\r' ∧ L.sp ≠ '\n'
  eol : IsEol L.eol

theorem wsString_spec {s : Str} (h : wsString s = true) : ∀ x ∈ s, isSpace x = true ∧ x ≠ '\r' ∧ x ≠ '\n' := by
  intro x hx
  simp only [wsString, List.all_eq_true, Bool.and_eq_true, noBreakChar, bne_iff_ne, ne_eq] at h
  exact ⟨(h x hx).1, (h x hx).2.2, (h x hx).2.1⟩

theorem wfLayout_spec {L : Layout} (h : wfLayout L = true) : WfLayout L := by
  simp only [wfLayout, Bool.and_eq_true, Bool.or_eq_true, beq_iff_eq, noBreakChar, bne_iff_ne, ne_eq] at h
  obtain ⟨⟨⟨⟨⟨⟨h1, h2l⟩, h2⟩, h3⟩, h4⟩, h5, h6⟩, h7⟩ := h
  have hat : ∀ k, ∀ x ∈ L.indentAt k, isSpace x = true ∧ x ≠ '\r' ∧ x ≠ '\n' := by
    intro k
    unfold Layout.indentAt
    cases hk : L.indents[k]? with
    | none => simp only [List.getD_eq_getElem?_getD, hk, Option.getD_none]; exact wsString_spec h2
    | some v =>
      simp only [List.getD_eq_getElem?_getD, hk, Option.getD_some]
      exact wsString_spec (List.all_eq_true.mp h2l v (List.mem_of_getElem? hk))
  exact ⟨wsString_spec h1, hat, wsString_spec h3, ⟨h4, h6, h5⟩, by
    rcases h7 with (h | h) | h
    · exact Or.inl h
    · exact Or.inr (Or.inl h)
    · exact Or.inr (Or.inr h)⟩

/-- the column at which the text of a laid-out line starts -/
def colOf (L : Layout) (k : Nat) (l : Str) : Nat := (L.indentAt k).length + (if l.isEmpty then 1 else 2)

theorem lineStep_lay (h : Hdr) (st : BSt) (ln : Nat) (L : Layout) (hL : WfLayout L) (k : Nat) (l : Str) :
    lineStep h st ln (layLine L k l) =
      lineBody h { st with blockIndent := st.blockIndent ++ [L.indentAt k] } ln (colOf L k l) (layLine L k l) l := by
  have hind : ∀ x ∈ L.indentAt k, isSpace x = true := fun x hx => (hL.indent k x hx).1
  unfold lineStep stripAsterisk layLine colOf
  generalize L.indentAt k = ind at hind ⊢
  cases hl : l.isEmpty with
  | true =>
    have : l = [] := List.isEmpty_iff.mp hl
    subst this
    simp only [if_true]
    rw [matchAsterisk_bare ind hind]
    have hws : countWs (ind ++ ['*']) = ind.length :=
      countWhile_append_stop isSpace ind '*' [] hind star_not_space
    have hd : (ind ++ ['*']).drop (ind.length + 1) = [] := List.drop_eq_nil_of_le (by simp)
    simp [hws, take_len_append, groupText, hd]
  | false =>
    simp only [Bool.false_eq_true, if_false]
    rw [matchAsterisk_indent ind L.sp l hind hL.sp.1]
    have hws : countWs (ind ++ '*' :: L.sp :: l) = ind.length :=
      countWhile_append_stop isSpace ind '*' _ hind star_not_space
    have hd : (ind ++ '*' :: L.sp :: l).drop (ind.length + 2) = l := by
      rw [drop_len_add]; rfl
    simp [hws, take_len_append, groupText, hd]

theorem lineLoop_append (h : Hdr) : ∀ (xs ys : List Str) (ln : Nat) (st : BSt),
    lineLoop h (xs ++ ys) ln st =
      (match lineLoop h xs ln st with
       | .error e => .error e
       | .ok st' => lineLoop h ys (ln + xs.length) st')
  | [], ys, ln, st => by simp [lineLoop]
  | x :: xs, ys, ln, st => by
    simp only [List.cons_append, lineLoop]
    cases hs : lineStep h st (ln + 1) x with
    | error e => rfl
    | ok st' =>
      simp only []
      rw [lineLoop_append h xs ys (ln + 1) st']
      simp only [List.length_cons]
      rw [show ln + 1 + xs.length = ln + (xs.length + 1) by omega]

theorem layLines_append (L : Layout) : ∀ (xs ys : List Str) (k : Nat),
    layLines L k (xs ++ ys) = layLines L k xs ++ layLines L (k + xs.length) ys
  | [], ys, k => by simp [layLines]
  | x :: xs, ys, k => by
    simp only [List.cons_append, layLines, layLines_append L xs ys (k + 1), List.length_cons]
    rw [show k + 1 + xs.length = k + (xs.length + 1) by omega]

theorem layLines_length (L : Layout) : ∀ (xs : List Str) (k : Nat), (layLines L k xs).length = xs.length
  | [], _ => rfl
  | x :: xs, k => by simp [layLines, layLines_length L xs (k + 1)]

theorem indentsFrom_add (L : Layout) : ∀ (a b k : Nat),
    indentsFrom L k (a + b) = indentsFrom L k a ++ indentsFrom L (k + a) b
  | 0, b, k => by simp [indentsFrom]
  | a + 1, b, k => by
    rw [show a + 1 + b = (a + b) + 1 by omega]
    simp only [indentsFrom, indentsFrom_add L a b (k + 1), List.cons_append]
    rw [show k + 1 + a = k + (a + 1) by omega]

/-! ### the phases of a block -/

/-- a state in which nothing has gone wrong so far -/
structure Clean (st : BSt) (blk : BlockM) (inds : List Str) : Prop where
  block : st.block = some blk
  partIndent : st.partIndent = some 0
  returnsSeen : st.returnsSeen = false
  diags : st.diags = []
  blockIndent : st.blockIndent = inds

def paramRaws : List SPart → Nat → List (Str × PartM)
  | [], _ => []
  | p :: ps, ln => (p.name, partRaw p.name p ln) :: paramRaws ps (ln + 1)

theorem assocHas_map_name (ps : List SPart) (k : Str) :
    assocHas (ps.map (fun p => (p.name, ()))) k = ps.any (fun p => p.name == k) := by
  simp [assocHas, List.any_map, Function.comp_def]

/-- the parameter lines -/
theorem phase_params (h : Hdr) (L : Layout) (hL : WfLayout L) : ∀ (ps : List SPart) (k ln : Nat) (st : BSt) (blk : BlockM)
    (inds : List Str), Clean st blk inds → (st.inPart = some .ident ∨ st.inPart = some .params) →
    (∀ p ∈ ps, wfParam p = true) → nodupKeys (ps.map (fun p => (p.name, ()))) = true →
    (∀ p ∈ ps, assocHas blk.params p.name = false) →
    ∃ st', lineLoop h (layLines L k (ps.map paramLine)) ln st = .ok st' ∧
      Clean st' { blk with params := blk.params ++ paramRaws ps (ln + 1) } (inds ++ indentsFrom L k ps.length) ∧
      (st'.inPart = some .ident ∨ st'.inPart = some .params)
  | [], k, ln, st, blk, inds, hc, hin, _, _, _ => by
    refine ⟨st, rfl, ?_, hin⟩
    simpa [paramRaws, indentsFrom] using hc
  | p :: ps, k, ln, st, blk, inds, hc, hin, hw, hn, hnew => by
    have hp := hw p (by simp)
    obtain ⟨_, _, _, hbody⟩ := wfParam_spec hp
    simp only [List.map_cons, layLines, lineLoop]
    rw [lineStep_lay h st (ln + 1) L hL k (paramLine p)]
    have hstep := lineBody_param h { st with blockIndent := st.blockIndent ++ [L.indentAt k] } blk (ln + 1)
      (colOf L k (paramLine p)) (layLine L k (paramLine p)) (partTail p) p hp (partFields_spec p hbody).2 hc.block hin
      (hnew p (by simp))
    unfold paramLine at hstep ⊢
    rw [hstep]
    simp only []
    have hn' := nodupKeys_cons (p.name, ()) (ps.map (fun p => (p.name, ()))) (by simpa [List.map_cons] using hn)
    have hnm : (partRaw p.name p (ln + 1)).name = p.name := rfl
    have hset : setParam blk (partRaw p.name p (ln + 1)) =
        { blk with params := blk.params ++ [(p.name, partRaw p.name p (ln + 1))] } := by
      simp only [setParam, hnm, assocSet_append_new blk.params p.name _ (hnew p (by simp))]
    have hnew' : ∀ q ∈ ps, assocHas (setParam blk (partRaw p.name p (ln + 1))).params q.name = false := by
      intro q hq
      rw [hset]
      show assocHas (blk.params ++ [(p.name, partRaw p.name p (ln + 1))]) q.name = false
      rw [assocHas_append, hnew q (by simp [hq])]
      simp only [Bool.false_or, assocHas, List.any_cons, List.any_nil, Bool.or_false, beq_eq_false_iff_ne, ne_eq]
      intro he
      have h1 := hn'.1
      rw [assocHas_map_name] at h1
      have : (ps.any fun r => r.name == p.name) = true := List.any_eq_true.mpr ⟨q, hq, by simp [he]⟩
      rw [this] at h1; cases h1
    obtain ⟨st', hl, hc', hin'⟩ := phase_params h L hL ps (k + 1) (ln + 1)
      { st with blockIndent := st.blockIndent ++ [L.indentAt k], partIndent := some 0, inPart := some .params,
                block := some (setParam blk (partRaw p.name p (ln + 1))), cur := some (false, partRaw p.name p (ln + 1)) }
      (setParam blk (partRaw p.name p (ln + 1))) (inds ++ [L.indentAt k])
      ⟨rfl, rfl, hc.returnsSeen, hc.diags, by simp [hc.blockIndent]⟩ (Or.inr rfl)
      (fun q hq => hw q (by simp [hq])) hn'.2 hnew'
    refine ⟨st', hl, ?_, hin'⟩
    rw [hset] at hc'
    simpa [paramRaws, indentsFrom, List.append_assoc] using hc'


/-- description lines appended one by one give the joined text -/
theorem join_lf_push (x l : Str) (ls : List Str) :
    join ['\n'] ((x ++ '\n' :: l) :: ls) = x ++ '\n' :: join ['\n'] (l :: ls) := by
  cases ls with
  | nil => simp [join]
  | cons y ys => simp [join]

theorem foldl_appendDesc (x : Str) : ∀ (ls : List Str), ls.foldl appendDesc (some x) = some (join ['\n'] (x :: ls))
  | [] => rfl
  | l :: ls => by
    simp only [List.foldl_cons, appendDesc]
    rw [foldl_appendDesc (x ++ '\n' :: l) ls, join_lf_push]
    cases ls <;> simp [join]

/-- the lines of the block description, read in the description part -/
theorem phase_desc (h : Hdr) (L : Layout) (hL : WfLayout L) : ∀ (ls : List Str) (k ln : Nat) (st : BSt) (blk : BlockM)
    (inds : List Str), Clean st blk inds → st.inPart = some .desc → (∀ l ∈ ls, wfDescLine l = true) →
    ∃ st', lineLoop h (layLines L k ls) ln st = .ok st' ∧
      Clean st' { blk with description := ls.foldl appendDesc blk.description } (inds ++ indentsFrom L k ls.length) ∧
      st'.inPart = some .desc
  | [], k, ln, st, blk, inds, hc, hin, _ => ⟨st, rfl, by simpa [indentsFrom] using hc, hin⟩
  | l :: ls, k, ln, st, blk, inds, hc, hin, hw => by
    simp only [layLines, lineLoop]
    have hstep := lineBody_desc h { st with blockIndent := st.blockIndent ++ [L.indentAt k] } blk (ln + 1) (colOf L k l)
      (layLine L k l) l hc.block hin (hw l (by simp))
    rw [lineStep_lay h st (ln + 1) L hL k l, hstep]
    simp only []
    obtain ⟨st', hl, hc', hin'⟩ := phase_desc h L hL ls (k + 1) (ln + 1)
      { st with blockIndent := st.blockIndent ++ [L.indentAt k],
                block := some { blk with description := appendDesc blk.description l } }
      { blk with description := appendDesc blk.description l } (inds ++ [L.indentAt k])
      ⟨rfl, hc.partIndent, hc.returnsSeen, hc.diags, by simp [hc.blockIndent]⟩ hin (fun x hx => hw x (by simp [hx]))
    refine ⟨st', hl, ?_, hin'⟩
    simpa [indentsFrom, List.append_assoc] using hc'

/-! ### the clean-up -/

theorem split1_noSep {c : Char} {t : Str} (h : c ∉ t) : (split1 c t).1 = t := by
  rw [split1_token_none h]

theorem cleanDescription_raw (name : Str) (p : SPart) (ln : Nat) (h : wfPartBody p = true) :
    cleanDescription (partRaw name p ln) = partImage name p ln := by
  simp only [wfPartBody, Bool.and_eq_true] at h
  obtain ⟨_, hd⟩ := h
  unfold cleanDescription partRaw partImage rawDesc
  cases hd' : p.desc with
  | none =>
    cases hae : p.anns.isEmpty with
    | true => simp
    | false => simp
  | some d =>
    rw [hd'] at hd
    obtain ⟨htr, hnb, _⟩ := wfDescText_spec hd
    have hne : d.isEmpty = false := by cases d with
      | nil => exact absurd rfl htr.ne_nil
      | cons _ _ => rfl
    have hlf : '\n' ∉ d := noBreak_not_mem_lf hnb
    cases hae : p.anns.isEmpty with
    | true =>
      simp only [Bool.true_and, Option.isNone_some, Bool.false_eq_true, if_false, if_true, hne, strip_trimmed htr,
        split1_noSep hlf, matchEmpty_trimmed htr]
    | false =>
      have hlf' : '\n' ∉ ' ' :: d := by
        intro hm; rcases List.mem_cons.mp hm with h | h
        · exact absurd h (by decide)
        · exact hlf h
      have hme : matchEmpty (' ' :: d) = false := by
        have := matchEmpty_trimmed htr
        simp only [matchEmpty] at this
        simp only [matchEmpty, List.all_cons, this, Bool.and_false]
      simp only [Bool.false_and, Bool.false_eq_true, if_false, List.isEmpty_cons, strip_space_trimmed space_isSpace htr,
        hne, split1_noSep hlf', hme]

theorem paramRaws_clean : ∀ (ps : List SPart) (ln : Nat), (∀ p ∈ ps, wfParam p = true) →
    (paramRaws ps ln).map (fun e => (e.1, cleanDescription e.2)) = paramImages ps ln
  | [], _, _ => rfl
  | p :: ps, ln, h => by
    simp only [paramRaws, paramImages, List.map_cons, cleanDescription_raw p.name p ln (wfParam_spec (h p (by simp))).2.2.2]
    rw [paramRaws_clean ps (ln + 1) (fun q hq => h q (by simp [hq]))]

theorem join_lf_trimmed : ∀ (ls : List Str), ls ≠ [] → (∀ l ∈ ls, Trimmed l) → Trimmed (join ['\n'] ls)
  | [], h, _ => absurd rfl h
  | [l], _, hw => hw l (by simp)
  | l :: m :: ms, _, hw => by
    rw [join_cons_cons]
    have hl := hw l (by simp)
    have hr := join_lf_trimmed (m :: ms) (by simp) (fun x hx => hw x (by simp [hx]))
    obtain ⟨c, cs, he, hc⟩ := hl.head
    obtain ⟨ds, d, hd, hdd⟩ := hr.last
    exact ⟨⟨c, cs ++ ['\n'] ++ join ['\n'] (m :: ms), by rw [he]; simp, hc⟩,
      ⟨l ++ ['\n'] ++ ds, d, by rw [hd]; simp, hdd⟩⟩

theorem strip_append_lf {d : Str} (h : Trimmed d) : strip (d ++ ['\n']) = d := by
  unfold strip
  obtain ⟨c, cs, he, hc⟩ := h.head
  have h1 : lstrip (d ++ ['\n']) = d ++ ['\n'] := by
    rw [he]; exact lstrip_cons_of_not_space hc
  rw [h1]
  obtain ⟨ds, x, hx, hxs⟩ := h.last
  unfold rstrip
  rw [hx]
  simp [List.dropWhile, show isSpace '\n' = true by decide, hxs]

/-! ### the comment tokens -/

theorem findStart_lay (si : Str) (hsi : ∀ x ∈ si, isSpace x = true) :
    findStart (si ++ str "/**") 0 = some (0, si.length) := by
  have hws : countWs (si ++ str "/**") = si.length :=
    countWhile_append_stop isSpace si '/' _ hsi (by decide)
  have hd : (si ++ str "/**").drop si.length = str "/**" := drop_append_len _ _
  cases hsi' : si ++ str "/**" with
  | nil => simp [str] at hsi'
  | cons c cs =>
    rw [findStart, ← hsi', hws, hd]
    simp [startTokenAt, str]

theorem matchStart_lay (si : Str) (hsi : ∀ x ∈ si, isSpace x = true) :
    matchStart (si ++ str "/**") =
      some [("code", 0, 0), ("token", si.length, si.length + 3), ("comment", si.length + 3, si.length + 3)] := by
  unfold matchStart
  rw [findStart_lay si hsi]
  have hd : (si ++ str "/**").drop (si.length + 3) = [] := List.drop_eq_nil_of_le (by simp [str])
  simp only [hd, trimmedSpan_nil]

theorem matchEnd_lay (ei : Str) (hei : ∀ x ∈ ei, isSpace x = true) :
    matchEnd (ei ++ str "*/") =
      some [("comment", ei.length, ei.length), ("token", ei.length, ei.length + 2), ("code", ei.length + 2, ei.length + 2)] := by
  unfold matchEnd
  have hws : countWs (ei ++ str "*/") = ei.length :=
    countWhile_append_stop isSpace ei '*' _ hei star_not_space
  have hd : (ei ++ str "*/").drop ei.length = str "*/" := drop_append_len _ _
  simp only [hws]
  rw [hd]
  have hf : findEnd (str "*/") ei.length = some (ei.length, ei.length, ei.length + 2) := by
    simp [str, findEnd, endTokenAt, countWs, countWhile, star_not_space]
  rw [hf]
  have hd2 : (ei ++ str "*/").drop (ei.length + 2) = [] := List.drop_eq_nil_of_le (by simp [str])
  simp [hd2, rstrip]

theorem openBlock_lay (L : Layout) (hL : WfLayout L) (body : List Str) (n : Nat) :
    openBlock ((L.startIndent ++ str "/**") :: (body ++ [L.endIndent ++ str "*/"])) n =
      .ok (some { lines := body, endText := none, hdr := { line := n, codeBefore := [], codeAfter := [] } }, []) := by
  unfold openBlock
  simp only []
  rw [matchStart_lay L.startIndent (fun x hx => (hL.startIndent x hx).1)]
  have hn : ((L.startIndent ++ str "/**") :: (body ++ [L.endIndent ++ str "*/"])).length ≠ 1 := by simp
  simp only [hn, if_false]
  have hlast : (body ++ [L.endIndent ++ str "*/"]).getLast? = some (L.endIndent ++ str "*/") := by simp
  simp [groupText, hlast, matchEnd_lay L.endIndent (fun x hx => (hL.endIndent x hx).1)]


/-! ### the identifier line and the part after the parameters -/

theorem identLine_head (name : Str) (a : Anns) (hw : wfWord name = true) :
    ∃ c cs, identLine name a = c :: cs ∧ isSpace c = false := by
  obtain ⟨hne, hall⟩ := wfWord_spec hw
  cases name with
  | nil => exact absurd rfl hne
  | cons c cs =>
    have hc := isWord_not_space (hall c (by simp))
    unfold identLine
    split
    · exact ⟨c, cs ++ [':'], rfl, hc⟩
    · exact ⟨c, cs ++ ':' :: ' ' :: serializeAnnotations a, rfl, hc⟩

theorem lineBody_ident (h : Hdr) (st : BSt) (ln col : Nat) (orig : Str) (name : Str) (a : Anns)
    (hw : wfWord name = true) (hs : NotSection name) (ha : wfAnns a = true) (hb : st.block = none) :
    lineBody h st ln col orig (identLine name a) =
      .ok { st with inPart := some .ident, partIndent := some 0, block := some (identBlock h name a ln) } := by
  obtain ⟨c, cs, he, hc⟩ := identLine_head name a hw
  unfold lineBody
  rw [hb]
  simp only []
  rw [identStep_symbol h st ln col orig _ name a hw hs ha, he, lineIndent_nonspace cs hc]

/-- the optional description part: an empty line and the description lines -/
theorem phase_descPart (h : Hdr) (L : Layout) (hL : WfLayout L) (ds : List Str) (k ln : Nat) (st : BSt) (blk : BlockM)
    (inds : List Str) (hc : Clean st blk inds) (hin : st.inPart = some .ident ∨ st.inPart = some .params)
    (hnone : blk.description = none) (hw : ∀ l ∈ ds, wfDescLine l = true) :
    ∃ st', lineLoop h (layLines L k (if ds.isEmpty then [] else [] :: ds)) ln st = .ok st' ∧
      Clean st' { blk with description := if ds.isEmpty then none else some (join ['\n'] ds) }
        (inds ++ indentsFrom L k (if ds.isEmpty then [] else [] :: ds).length) ∧
      (if ds.isEmpty then (st'.inPart = some .ident ∨ st'.inPart = some .params) else st'.inPart = some .desc) := by
  cases ds with
  | nil =>
    refine ⟨st, rfl, ?_, by simpa using hin⟩
    have : blk = { blk with description := none } := by rw [← hnone]
    simp only [List.isEmpty_nil, if_true, List.length_nil, indentsFrom, List.append_nil]
    rw [← this]; exact hc
  | cons d ds =>
    simp only [List.isEmpty_cons, Bool.false_eq_true, if_false, layLines, lineLoop]
    have hstep := lineBody_blank_first h { st with blockIndent := st.blockIndent ++ [L.indentAt k] } blk (ln + 1)
      (colOf L k []) (layLine L k []) hc.block hin
    rw [lineStep_lay h st (ln + 1) L hL k [], hstep]
    simp only []
    obtain ⟨st', hl, hc', hin'⟩ := phase_desc h L hL (d :: ds) (k + 1) (ln + 1)
      { st with blockIndent := st.blockIndent ++ [L.indentAt k], inPart := some .desc, partIndent := some 0 } blk
      (inds ++ [L.indentAt k]) ⟨hc.block, rfl, hc.returnsSeen, hc.diags, by simp [hc.blockIndent]⟩ rfl hw
    simp only [layLines] at hl
    refine ⟨st', hl, ?_, hin'⟩
    rw [hnone] at hc'
    have hf : (d :: ds).foldl appendDesc none = some (join ['\n'] (d :: ds)) := by
      simp only [List.foldl_cons, appendDesc]; exact foldl_appendDesc d ds
    rw [hf] at hc'
    simpa [indentsFrom, List.append_assoc] using hc'

/-- the optional tag part: an empty line and the `Returns:` line -/
theorem phase_tagPart (h : Hdr) (L : Layout) (hL : WfLayout L) (r : SPart) (hr : wfPartBody r = true) (k ln : Nat)
    (st : BSt) (blk : BlockM) (inds : List Str) (hc : Clean st blk inds)
    (hin : st.inPart = some .desc ∨ (st.inPart = some .ident ∨ st.inPart = some .params)) :
    ∃ st', lineLoop h (layLines L k [[], returnsLine r]) ln st = .ok st' ∧ st'.diags = [] ∧
      st'.blockIndent = inds ++ [L.indentAt k, L.indentAt (k + 1)] ∧
      st'.block = some (setTag { blk with description := if st.inPart = some .desc then appendDesc blk.description []
                                                           else blk.description }
                          (partRaw (str Gen.tagReturns) r (ln + 2))) := by
  simp only [layLines, lineLoop]
  rw [lineStep_lay h st (ln + 1) L hL k []]
  have hft := (partFields_spec r hr).2
  rcases hin with hd | hip
  · -- the empty line belongs to the description
    have hstep := lineBody_blank_desc h { st with blockIndent := st.blockIndent ++ [L.indentAt k] } blk (ln + 1)
      (colOf L k []) (layLine L k []) hc.block hd
    rw [hstep]
    simp only []
    rw [lineStep_lay h _ (ln + 1 + 1) L hL (k + 1) (returnsLine r)]
    have hret := lineBody_returns h
      { st with blockIndent := st.blockIndent ++ [L.indentAt k] ++ [L.indentAt (k + 1)],
                block := some { blk with description := appendDesc blk.description [] } }
      { blk with description := appendDesc blk.description [] } (ln + 1 + 1) (colOf L (k + 1) (returnsLine r))
      (layLine L (k + 1) (returnsLine r)) (partTail r) r hr hft rfl hd hc.partIndent hc.returnsSeen
    unfold returnsLine at hret ⊢
    rw [hret]
    refine ⟨_, rfl, hc.diags, by simp [hc.blockIndent], ?_⟩
    simp [hd]
  · -- the empty line ends the identifier / parameter part
    have hstep := lineBody_blank_first h { st with blockIndent := st.blockIndent ++ [L.indentAt k] } blk (ln + 1)
      (colOf L k []) (layLine L k []) hc.block hip
    rw [hstep]
    simp only []
    rw [lineStep_lay h _ (ln + 1 + 1) L hL (k + 1) (returnsLine r)]
    have hret := lineBody_returns h
      { st with blockIndent := st.blockIndent ++ [L.indentAt k] ++ [L.indentAt (k + 1)], inPart := some .desc, partIndent := some 0 }
      blk (ln + 1 + 1) (colOf L (k + 1) (returnsLine r))
      (layLine L (k + 1) (returnsLine r)) (partTail r) r hr hft hc.block rfl rfl hc.returnsSeen
    unfold returnsLine at hret ⊢
    rw [hret]
    refine ⟨_, rfl, hc.diags, by simp [hc.blockIndent], ?_⟩
    have hnd : st.inPart ≠ some .desc := by rcases hip with h | h <;> rw [h] <;> simp
    simp [hnd]


/-! ### the whole body -/

theorem descBlock_trimmed (ds : List Str) (hne : ds ≠ []) (hw : ∀ l ∈ ds, wfDescLine l = true) :
    Trimmed (join ['\n'] ds) :=
  join_lf_trimmed ds hne (fun l hl => (wfDescLine_spec (hw l hl)).1)

/-- the block while the body is being read: everything fixed by the identifier and parameter lines,
    the description and tags collected so far -/
def blkMid (h : Hdr) (b : SBlock) (n : Nat) (desc : Option Str) (tags : List (Str × PartM)) : BlockM :=
  { name := b.name, line := h.line, annotations := b.anns, annsLine := if b.anns.isEmpty then none else some (n + 1),
    params := paramRaws b.params (n + 2), description := desc, tags := tags, codeBefore := h.codeBefore,
    codeAfter := h.codeAfter, indentation := [] }

/-- what the clean-up makes of the description collected so far (`extra`: the empty line before the tags) -/
theorem finish_desc (b : SBlock) (hb : WfSBlock b) (extra : Bool) :
    stripDescription (if b.desc.isEmpty then none else
              if extra then some (join ['\n'] b.desc ++ ['\n']) else some (join ['\n'] b.desc)) =
      (if b.desc.isEmpty then none else some (join ['\n'] b.desc)) := by
  unfold stripDescription
  cases hds : b.desc with
  | nil => rfl
  | cons d ds =>
    have htr := descBlock_trimmed (d :: ds) (by simp) (fun l hl => hb.desc l (by rw [hds]; exact hl))
    have hne : (join ['\n'] (d :: ds)).isEmpty = false := by
      cases hj : join ['\n'] (d :: ds) with
      | nil => exact absurd hj htr.ne_nil
      | cons _ _ => rfl
    cases extra with
    | true => simp [strip_append_lf htr]
    | false => simp [hne, strip_trimmed htr]

theorem indents_body (L : Layout) (P D T : Nat) :
    [L.indentAt 0] ++ indentsFrom L 1 P ++ indentsFrom L (1 + P) D ++ indentsFrom L (1 + P + D) T =
      indentsFrom L 0 (1 + P + D + T) := by
  rw [indentsFrom_add L (1 + P + D) T 0, indentsFrom_add L (1 + P) D 0, indentsFrom_add L 1 P 0]
  simp only [Nat.zero_add]
  rfl

/-- the state machine over every laid-out body of a block of the grammar -/
theorem lineLoop_body (L : Layout) (hL : WfLayout L) (b : SBlock) (hb : WfSBlock b) (n : Nat) (h : Hdr)
    (hh : h = { line := n, codeBefore := [], codeAfter := [] }) :
    ∃ st, lineLoop h (layLines L 0 (bodyOf b)) n BSt.init = .ok st ∧ st.diags = [] ∧
      finishBlock st = some (blockImage b n (indentsFrom L 0 (bodyOf b).length)) := by
  unfold bodyOf
  simp only [List.append_assoc, List.cons_append]
  rw [layLines, layLines_append, layLines_append, lineLoop]
  simp only [List.length_map, Nat.zero_add]
  -- the identifier line
  have e1 : lineStep h BSt.init (n + 1) (layLine L 0 (identLine b.name b.anns)) =
      .ok { block := some (blkMid h { b with params := [] } n none []), identWarned := false, blockIndent := [L.indentAt 0],
            partIndent := some 0, inPart := some .ident, cur := none, returnsSeen := false, diags := [] } := by
    rw [lineStep_lay h BSt.init (n + 1) L hL 0 (identLine b.name b.anns)]
    exact lineBody_ident h { BSt.init with blockIndent := BSt.init.blockIndent ++ [L.indentAt 0] } (n + 1)
      (colOf L 0 (identLine b.name b.anns)) (layLine L 0 (identLine b.name b.anns)) b.name b.anns hb.name hb.notSA hb.anns rfl
  rw [e1]
  simp only []
  -- the parameters
  rw [lineLoop_append]
  obtain ⟨st2, hl2, hc2, hin2⟩ := phase_params h L hL b.params 1 (n + 1)
    { block := some (blkMid h { b with params := [] } n none []), identWarned := false, blockIndent := [L.indentAt 0],
      partIndent := some 0, inPart := some .ident, cur := none, returnsSeen := false, diags := [] }
    (blkMid h { b with params := [] } n none []) [L.indentAt 0] ⟨rfl, rfl, rfl, rfl, rfl⟩ (Or.inl rfl) hb.params hb.nodup
    (fun _ _ => rfl)
  have hc2' : Clean st2 (blkMid h b n none []) ([L.indentAt 0] ++ indentsFrom L 1 b.params.length) := hc2
  rw [hl2]
  simp only [layLines_length, List.length_map]
  -- the description
  rw [lineLoop_append]
  obtain ⟨st3, hl3, hc3, hin3⟩ := phase_descPart h L hL b.desc (1 + b.params.length) (n + 1 + b.params.length) st2 _ _
    hc2' hin2 rfl hb.desc
  have hc3' : Clean st3 (blkMid h b n (if b.desc.isEmpty then none else some (join ['\n'] b.desc)) [])
      ([L.indentAt 0] ++ indentsFrom L 1 b.params.length ++
        indentsFrom L (1 + b.params.length) (if b.desc.isEmpty = true then [] else [] :: b.desc).length) := hc3
  rw [hl3]
  simp only [layLines_length]
  cases hr : b.returns with
  | none =>
    simp only [layLines, lineLoop]
    refine ⟨st3, rfl, hc3'.diags, ?_⟩
    unfold finishBlock
    rw [hc3'.block]
    have h0 := indents_body L b.params.length (if b.desc.isEmpty = true then [] else [] :: b.desc).length 0
    simp only [indentsFrom, List.append_nil] at h0
    have hd0 := finish_desc b hb false
    simp only [Bool.false_eq_true, if_false] at hd0
    simp only [blkMid, hc3'.blockIndent, h0, blockImage, hr, hh, List.map_nil,
      paramRaws_clean b.params (n + 2) hb.params, List.length_cons, List.length_append, List.length_map, List.length_nil]
    rw [hd0, show b.params.length + ((if b.desc.isEmpty = true then [] else [] :: b.desc).length + 0) + 1 =
      1 + b.params.length + (if b.desc.isEmpty = true then [] else [] :: b.desc).length + 0 by omega]
  | some r =>
    have hrb := hb.returns r hr
    have hnm : (partRaw (str Gen.tagReturns) r (n + linesBeforeTags b + 2)).name = str Gen.tagReturns := rfl
    cases hde : b.desc.isEmpty with
    | true =>
      simp only [hde, if_true, List.length_nil, Nat.add_zero, List.nil_append] at hin3 hc3' ⊢
      have hnd : st3.inPart ≠ some .desc := by rcases hin3 with h | h <;> rw [h] <;> simp
      obtain ⟨st4, hl4, hd4, hi4, hb4⟩ := phase_tagPart h L hL r hrb (1 + b.params.length) (n + 1 + b.params.length) st3 _ _
        hc3' (Or.inr hin3)
      refine ⟨st4, hl4, hd4, ?_⟩
      unfold finishBlock
      rw [hb4, hi4]
      have hln : n + 1 + b.params.length + 2 = n + linesBeforeTags b + 2 := by simp [linesBeforeTags, hde]; omega
      have h2 := indents_body L b.params.length 0 2
      simp only [Nat.add_zero] at h2
      rw [show [L.indentAt (1 + b.params.length), L.indentAt (1 + b.params.length + 1)] =
        indentsFrom L (1 + b.params.length) 2 from rfl, h2, hln]
      simp only [hnd, if_false, setTag, hnm, blkMid, assocSet, List.map_cons, List.map_nil, blockImage, hr, hh, hde,
        if_true, paramRaws_clean b.params (n + 2) hb.params, cleanDescription_raw _ r _ hrb, List.length_cons,
        List.length_append, List.length_map, List.length_nil]
      rw [show b.params.length + (0 + 1 + 1) + 1 = 1 + b.params.length + 2 by omega]
      rfl
    | false =>
      simp only [hde, Bool.false_eq_true, if_false, List.length_cons] at hin3 hc3' ⊢
      obtain ⟨st4, hl4, hd4, hi4, hb4⟩ := phase_tagPart h L hL r hrb (1 + b.params.length + (b.desc.length + 1))
        (n + 1 + b.params.length + (b.desc.length + 1)) st3 _ _ hc3' (Or.inl hin3)
      refine ⟨st4, hl4, hd4, ?_⟩
      unfold finishBlock
      rw [hb4, hi4]
      have hln : n + 1 + b.params.length + (b.desc.length + 1) + 2 = n + linesBeforeTags b + 2 := by
        simp [linesBeforeTags, hde]; omega
      have h2 := indents_body L b.params.length (b.desc.length + 1) 2
      have hd1 := finish_desc b hb true
      simp only [hde, Bool.false_eq_true, if_false, if_true] at hd1
      rw [show [L.indentAt (1 + b.params.length + (b.desc.length + 1)), L.indentAt (1 + b.params.length + (b.desc.length + 1) + 1)] =
        indentsFrom L (1 + b.params.length + (b.desc.length + 1)) 2 from rfl, h2, hln]
      simp only [hin3, if_true, appendDesc, setTag, hnm, blkMid, assocSet, List.map_cons, List.map_nil, blockImage, hr, hh,
        hde, Bool.false_eq_true, if_false, paramRaws_clean b.params (n + 2) hb.params, cleanDescription_raw _ r _ hrb,
        List.length_cons, List.length_append, List.length_map, List.length_nil]
      rw [hd1, show b.params.length + (b.desc.length + 1 + (0 + 1 + 1)) + 1 = 1 + b.params.length + (b.desc.length + 1) + 2 by omega]


/-! ### the whole comment -/

theorem bodyOf_noBreak (b : SBlock) (hb : WfSBlock b) : ∀ l ∈ bodyOf b, NoBreak l := by
  intro l hl
  unfold bodyOf at hl
  rw [List.append_assoc, List.cons_append] at hl
  rcases List.mem_cons.mp hl with heq | hl2
  · rw [heq]
    unfold identLine
    split
    · exact noBreak_append (wfWord_noBreak hb.name) (noBreak_cons (by decide) noBreak_nil)
    · exact noBreak_append (wfWord_noBreak hb.name) (noBreak_cons (by decide) (noBreak_cons (by decide)
        (serializeAnnotations_noBreak b.anns (wfAnns_spec hb.anns).1)))
  rcases List.mem_append.mp hl2 with hp' | hl3
  · obtain ⟨p, hp, rfl⟩ := List.mem_map.mp hp'
    obtain ⟨hw, _, _, hbody⟩ := wfParam_spec (hb.params p hp)
    exact noBreak_cons (by decide) (noBreak_append (wfWord_noBreak hw) (noBreak_cons (by decide) (partTail_noBreak p hbody)))
  rcases List.mem_append.mp hl3 with hd | hr
  · split at hd
    · cases hd
    · rcases List.mem_cons.mp hd with rfl | h
      · exact noBreak_nil
      · exact (wfDescLine_spec (hb.desc l h)).2.1
  · cases hret : b.returns with
    | none => rw [hret] at hr; cases hr
    | some r =>
      rw [hret] at hr
      simp only [List.mem_cons, List.mem_nil_iff, or_false] at hr
      rcases hr with rfl | rfl
      · exact noBreak_nil
      · exact noBreak_append (wfWord_noBreak (by decide +kernel)) (noBreak_cons (by decide)
          (partTail_noBreak r (hb.returns r hret)))

theorem ws_noBreak {s : Str} (h : ∀ x ∈ s, isSpace x = true ∧ x ≠ '\r' ∧ x ≠ '\n') : NoBreak s :=
  fun x hx => (h x hx).2

theorem layLine_noBreak (L : Layout) (hL : WfLayout L) (k : Nat) {l : Str} (h : NoBreak l) : NoBreak (layLine L k l) := by
  unfold layLine
  split
  · exact noBreak_append (ws_noBreak (hL.indent k)) (noBreak_cons (by decide) noBreak_nil)
  · exact noBreak_append (ws_noBreak (hL.indent k)) (noBreak_cons (by decide) (noBreak_cons hL.sp.2 h))

theorem layLines_noBreak (L : Layout) (hL : WfLayout L) : ∀ (ls : List Str) (k : Nat), (∀ l ∈ ls, NoBreak l) →
    ∀ x ∈ layLines L k ls, NoBreak x
  | [], _, _ => fun _ hx => by cases hx
  | l :: ls, k, h => by
    intro x hx
    simp only [layLines, List.mem_cons] at hx
    rcases hx with rfl | hx
    · exact layLine_noBreak L hL k (h l (by simp))
    · exact layLines_noBreak L hL ls (k + 1) (fun y hy => h y (by simp [hy])) x hx

/-- **parse ∘ render**: every layout — the indentation in front of the asterisk chosen line by line — of the
    writer's lines for a block of the grammar parses, without any diagnostic, to exactly the block's image
    (with each line's own indentation recorded) -/
theorem parseBlock_render (L : Layout) (hL : WfLayout L) (b : SBlock) (hb : WfSBlock b) (n : Nat) (inds0 : List Str) :
    parseBlock (render L (blockImage b n inds0)) n =
      .ok (some (blockImage b n (indentsFrom L 0 (bodyOf b).length)), []) := by
  unfold parseBlock render renderLines
  rw [bodyLines_image b n inds0 hb]
  have hnb : ∀ l ∈ (L.startIndent ++ str "/**") :: (layLines L 0 (bodyOf b) ++ [L.endIndent ++ str "*/"]), NoBreak l := by
    intro l hl
    simp only [List.mem_cons, List.mem_append, List.mem_nil_iff, or_false] at hl
    rcases hl with rfl | hx | rfl
    · exact noBreak_append (ws_noBreak hL.startIndent) (by intro c hc; revert c; decide)
    · exact layLines_noBreak L hL (bodyOf b) 0 (bodyOf_noBreak b hb) l hx
    · exact noBreak_append (ws_noBreak hL.endIndent) (by intro c hc; revert c; decide)
  rw [commentLines_join L.eol hL.eol _ (by simp) hnb]
  unfold parseBlockLines
  rw [openBlock_lay L hL _ n]
  simp only []
  obtain ⟨st, hl, hd, hf⟩ := lineLoop_body L hL b hb n { line := n, codeBefore := [], codeAfter := [] } rfl
  have hinit : ({ BSt.init with diags := [] } : BSt) = BSt.init := rfl
  rw [hinit, hl]
  simp only [hd, hf]


/-! ### the writer -/

/-- `most_common(1)` of a non-empty list is one of its elements -/
theorem mostCommon_fold (whole : List Str) : ∀ (xs : List Str) (acc : Option Str),
    (∀ a, acc = some a → a ∈ whole) → (∀ x ∈ xs, x ∈ whole) → (acc ≠ none ∨ xs ≠ []) →
    ∃ m, xs.foldl (fun best k => match best with
      | none => some k
      | some b => if whole.count k > whole.count b then some k else some b) acc = some m ∧ m ∈ whole
  | [], acc, ha, _, hne => by
    cases acc with
    | none => rcases hne with h | h <;> exact absurd rfl h
    | some a => exact ⟨a, rfl, ha a rfl⟩
  | x :: xs, acc, ha, hx, _ => by
    rw [List.foldl_cons]
    apply mostCommon_fold whole xs
    · intro a hacc
      cases acc with
      | none => simp only [Option.some.injEq] at hacc; rw [← hacc]; exact hx x (by simp)
      | some b0 =>
        simp only [] at hacc
        split at hacc
        · simp only [Option.some.injEq] at hacc; rw [← hacc]; exact hx x (by simp)
        · simp only [Option.some.injEq] at hacc; rw [← hacc]; exact ha b0 rfl
    · exact fun y hy => hx y (by simp [hy])
    · left
      cases acc with
      | none => simp
      | some b0 => simp only []; split <;> simp

theorem mostCommon_mem (l : List Str) (hne : l ≠ []) : ∃ m, mostCommon l = some m ∧ m ∈ l := by
  unfold mostCommon
  exact mostCommon_fold l l none (fun _ h => by cases h) (fun _ h => h) (Or.inr hne)

theorem flatten_lines : ∀ (ls : List Str), ls ≠ [] → (ls.map (fun l => l ++ ['\n'])).flatten = join ['\n'] ls ++ ['\n']
  | [], h => absurd rfl h
  | [l], _ => by simp [join]
  | l :: m :: ms, _ => by
    rw [List.map_cons, List.flatten_cons, flatten_lines (m :: ms) (by simp), join_cons_cons]
    simp

/-- in a layout with the same indentation on every line the body lines are laid out one like the other -/
theorem layLines_uniform (L : Layout) (hu : L.indents = []) : ∀ (ls : List Str) (k : Nat),
    layLines L k ls = ls.map (fun l => if l.isEmpty then L.indent ++ ['*'] else L.indent ++ '*' :: L.sp :: l)
  | [], _ => rfl
  | l :: ls, k => by
    simp only [layLines, List.map_cons, layLines_uniform L hu ls (k + 1), layLine, Layout.indentAt, hu]
    simp

theorem write_lines (si li : Str) (body : List Str) :
    ((si ++ str "/**\n") :: body.map (fun l => if l.isEmpty then li ++ ['*', '\n'] else li ++ '*' :: ' ' :: l ++ ['\n'])
        ++ [li ++ str "*/\n"]).flatten =
      join ['\n'] ((si ++ str "/**") ::
        (layLines { startIndent := si, indents := [], indent := li, endIndent := li, sp := ' ', eol := ['\n'] } 0 body
          ++ [li ++ str "*/"]))
        ++ ['\n'] := by
  rw [← flatten_lines _ (by simp), layLines_uniform _ rfl]
  congr 1
  simp only [List.cons_append, List.map_cons, List.map_append, List.map_map, List.map_nil]
  congr 1
  · simp [str]
  · congr 1
    · apply List.map_congr_left
      intro l _
      simp only [Function.comp]
      split <;> simp
    · simp [str]

/-- the writer's own text for the image of a block model is that block's rendering in the writer's layout
    (the most common recorded indentation `m` on every line), followed by the final line break -/
theorem writeBlock_image (b : SBlock) (n : Nat) (inds : List Str) (m : Str) (hm : mostCommon inds = some m) :
    writeBlock (blockImage b n inds) = .ok (render (writerLayout m) (blockImage b n inds) ++ ['\n']) := by
  unfold writeBlock writeIndents
  have hind : (blockImage b n inds).indentation = inds := rfl
  have hcb : (blockImage b n inds).codeBefore = [] := rfl
  have hca : (blockImage b n inds).codeAfter = [] := rfl
  rw [hind, hm, hcb, hca]
  unfold render renderLines writerLayout
  cases he : endsWith (if m.isEmpty then [' '] else m) ['\t'] with
  | true => simp only [he, if_true, List.isEmpty_nil]; rw [write_lines]
  | false => simp only [he, Bool.false_eq_true, if_false, List.isEmpty_nil, if_true]; rw [write_lines]


theorem writerLayout_wf (ind : Str) (h : ∀ x ∈ ind, isSpace x = true ∧ x ≠ '\r' ∧ x ≠ '\n') : WfLayout (writerLayout ind) := by
  have hi := h
  have hsp : isSpace ' ' = true ∧ ' ' ≠ '\r' ∧ ' ' ≠ '\n' := by decide
  have hindent : ∀ x ∈ (if ind.isEmpty then [' '] else ind), isSpace x = true ∧ x ≠ '\r' ∧ x ≠ '\n' := by
    intro x hx
    split at hx
    · rw [List.mem_singleton.mp hx]; exact hsp
    · exact hi x hx
  unfold writerLayout
  simp only []
  generalize (if ind.isEmpty then [' '] else ind) = indent at hindent ⊢
  have hdl : ∀ x ∈ indent.dropLast, x ∈ indent := fun x hx => List.dropLast_subset indent hx
  cases he : endsWith indent ['\t'] with
  | true =>
    simp only [if_true]
    refine ⟨hindent, ?_, ?_, hsp, Or.inl rfl⟩
    · intro k x hx
      simp only [Layout.indentAt, List.getD_eq_getElem?_getD, List.getElem?_nil, Option.getD_none] at hx
      rcases List.mem_append.mp hx with h1 | h1
      · exact hindent x h1
      · rw [List.mem_singleton.mp h1]; exact hsp
    · intro x hx
      rcases List.mem_append.mp hx with h1 | h1
      · exact hindent x h1
      · rw [List.mem_singleton.mp h1]; exact hsp
  | false =>
    simp only [Bool.false_eq_true, if_false]
    refine ⟨fun x hx => hindent x (hdl x hx), ?_, hindent, hsp, Or.inl rfl⟩
    intro k x hx
    simp only [Layout.indentAt, List.getD_eq_getElem?_getD, List.getElem?_nil, Option.getD_none] at hx
    exact hindent x hx

/-- every recorded indentation of a well-formed layout is white space without line breaks -/
theorem indentsFrom_ws (L : Layout) (hL : WfLayout L) : ∀ (n k : Nat), ∀ s ∈ indentsFrom L k n,
    ∀ x ∈ s, isSpace x = true ∧ x ≠ '\r' ∧ x ≠ '\n'
  | 0, _ => fun _ hs => by cases hs
  | n + 1, k => by
    intro s hs
    simp only [indentsFrom, List.mem_cons] at hs
    rcases hs with rfl | hs
    · exact hL.indent k
    · exact indentsFrom_ws L hL n (k + 1) s hs

end GIVerif.AnnParse
