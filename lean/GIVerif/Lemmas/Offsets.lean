/-
  Helper definitions and lemmas for C08 (Props/C08.lean): the bit-level fact behind GI_ALIGN,
  least-multiple arithmetic, the loop invariants of compute_struct_field_offsets /
  compute_union_field_offsets, unknown-size propagation, enum storage facts.
-/
import GIVerif.Model.Offsets
import GIVerif.Spec.CLayout

namespace GIVerif.Offsets
open GIVerif.Spec GIVerif.Py

/-- a member of known size: (size, alignment) with the alignment a power of two -/
def KnownMember (m : Spec.Member) : Prop := ∃ k, k ≤ 30 ∧ m.2 = 2 ^ k

/-- the model's view of a member of known size -/
def toField (m : Spec.Member) : MemberSA := .field ⟨m.1, m.2, true⟩

/-- offsets are aligned, do not go backwards, members do not overlap and end inside `size` -/
def Sane : Int → List Spec.Member → List Int → Int → Prop
  | start, [], [], size => start ≤ size
  | start, m :: ms, o :: os, size => start ≤ o ∧ (m.2 : Int) ∣ o ∧ Sane (o + m.1) ms os size
  | _, _, _, _ => False

/-- the FIELD members of a list -/
def fieldCount : List MemberSA → Nat
  | [] => 0
  | .field _ :: ms => fieldCount ms + 1
  | _ :: ms => fieldCount ms

/-- representable range of an integer storage tag -/
def storageRange (tag : Nat) : Option (Int × Int) :=
  if tag = Gen.tagInt8 then some (-128, 127) else if tag = Gen.tagUInt8 then some (0, 255)
  else if tag = Gen.tagInt16 then some (-32768, 32767) else if tag = Gen.tagUInt16 then some (0, 65535)
  else if tag = Gen.tagInt32 then some (-2147483648, 2147483647) else if tag = Gen.tagUInt32 then some (0, 4294967295)
  else if tag = Gen.tagInt64 then some (-9223372036854775808, 9223372036854775807)
  else if tag = Gen.tagUInt64 then some (0, 18446744073709551615) else none

/-! ### GI_ALIGN -/

theorem and_high_mask (x k : Nat) (hx : x < 2 ^ 32) (hk : k ≤ 32) :
    x &&& (2 ^ 32 - 1 - (2 ^ k - 1)) = x / 2 ^ k * 2 ^ k := by
  apply Nat.eq_of_testBit_eq
  intro i
  have hpos : 0 < 2 ^ k := Nat.two_pow_pos k
  have hle : 2 ^ k ≤ 2 ^ 32 := Nat.pow_le_pow_right (by decide) hk
  have hm : 2 ^ 32 - 1 - (2 ^ k - 1) = 2 ^ 32 - ((2 ^ k - 1) + 1) := by omega
  rw [Nat.testBit_and, hm, Nat.testBit_two_pow_sub_succ (by omega), Nat.testBit_two_pow_sub_one,
    Nat.testBit_mul_two_pow, Nat.testBit_div_two_pow]
  by_cases h1 : i < k
  · have : ¬ k ≤ i := by omega
    simp [h1, this]
  · have h2 : k ≤ i := by omega
    have h3 : i - k + k = i := by omega
    simp only [h1, h2, h3, decide_false, decide_true, Bool.not_false, Bool.and_true, Bool.true_and]
    by_cases h4 : i < 32
    · simp [h4]
    · have : x < 2 ^ i := Nat.lt_of_lt_of_le hx (Nat.pow_le_pow_right (by decide) (by omega))
      simp [h4, Nat.testBit_lt_two_pow this]

theorem giAlign_nat (n k : Nat) (hk : k ≤ 30) (hov : n + 2 ^ k ≤ 2 ^ 31) :
    giAlign (n : Int) ((2 ^ k : Nat) : Int) = ((n + 2 ^ k - 1) / 2 ^ k * 2 ^ k : Nat) := by
  have hpos : 0 < 2 ^ k := Nat.two_pow_pos k
  have h31 : (2:Nat) ^ 31 = 2147483648 := by decide
  have h32 : (2:Nat) ^ 32 = 4294967296 := by decide
  generalize ha : 2 ^ k = a at *
  have hle : a ≤ 2 ^ 32 := by omega
  unfold giAlign
  simp only [BitVec.ofInt_natCast]
  have hx : (BitVec.ofNat 32 n + BitVec.ofNat 32 a - 1#32).toNat = n + a - 1 := by
    simp only [BitVec.toNat_sub, BitVec.toNat_add, BitVec.toNat_ofNat]
    omega
  have hm : (~~~(BitVec.ofNat 32 a - 1#32)).toNat = 2 ^ 32 - 1 - (a - 1) := by
    simp only [BitVec.toNat_not, BitVec.toNat_sub, BitVec.toNat_ofNat]
    omega
  have hand : ((BitVec.ofNat 32 n + BitVec.ofNat 32 a - 1#32) &&& ~~~(BitVec.ofNat 32 a - 1#32)).toNat
      = (n + a - 1) / a * a := by
    rw [BitVec.toNat_and, hx, hm, ← ha]
    exact and_high_mask _ k (by omega) (by omega)
  have hlt : (n + a - 1) / a * a ≤ n + a - 1 := Nat.div_mul_le_self _ _
  rw [BitVec.toInt_eq_toNat_of_lt (by rw [hand]; omega), hand]

/-! ### least multiples -/

theorem alignUp_dvd (n a : Nat) : a ∣ alignUp n a := Nat.dvd_mul_left _ _

theorem alignUp_ge (n a : Nat) (ha : 0 < a) : n ≤ alignUp n a := by
  unfold alignUp
  have h := Nat.div_add_mod (n + a - 1) a
  have hm := Nat.mod_lt (n + a - 1) ha
  have : a * ((n + a - 1) / a) = (n + a - 1) / a * a := Nat.mul_comm _ _
  omega

theorem alignUp_lt (n a : Nat) (ha : 0 < a) : alignUp n a < n + a := by
  unfold alignUp
  have := Nat.div_mul_le_self (n + a - 1) a
  omega

theorem alignUp_least (n a m : Nat) (ha : 0 < a) (hd : a ∣ m) (hn : n ≤ m) : alignUp n a ≤ m := by
  obtain ⟨c, rfl⟩ := hd
  unfold alignUp
  have h1 : (n + a - 1) / a ≤ c := by
    apply Nat.le_of_lt_succ
    rw [Nat.div_lt_iff_lt_mul ha]
    have : c.succ * a = a * c + a := by rw [Nat.succ_mul, Nat.mul_comm]
    omega
  calc (n + a - 1) / a * a ≤ c * a := Nat.mul_le_mul_right a h1
    _ = a * c := Nat.mul_comm _ _

theorem alignUp_isLeast (n a : Nat) (ha : 0 < a) : IsLeastMultipleGE (alignUp n a) a n :=
  ⟨alignUp_dvd n a, alignUp_ge n a ha, fun m hd hn => alignUp_least n a m ha hd hn⟩

theorem isLeast_unique {r₁ r₂ a n : Nat} (h₁ : IsLeastMultipleGE r₁ a n) (h₂ : IsLeastMultipleGE r₂ a n) :
    r₁ = r₂ :=
  Nat.le_antisymm (h₁.2.2 r₂ h₂.1 h₂.2.1) (h₂.2.2 r₁ h₁.1 h₁.2.1)

theorem alignUp_of_dvd (n a : Nat) (ha : 0 < a) (hd : a ∣ n) : alignUp n a = n :=
  Nat.le_antisymm (alignUp_least n a n ha hd (Nat.le_refl _)) (alignUp_ge n a ha)

/-! ### maxima -/

theorem maxAlign_pos (ms : List Spec.Member) : 1 ≤ maxAlign ms := by
  induction ms with
  | nil => simp [maxAlign]
  | cons m ms ih => simp only [maxAlign]; omega

theorem maxAlign_ge (ms : List Spec.Member) : ∀ m ∈ ms, m.2 ≤ maxAlign ms := by
  induction ms with
  | nil => simp
  | cons m ms ih =>
    intro x hx
    simp only [maxAlign]
    rcases List.mem_cons.mp hx with rfl | h
    · omega
    · have := ih x h; omega

theorem maxAlign_mem (ms : List Spec.Member) : maxAlign ms = 1 ∨ maxAlign ms ∈ ms.map (·.2) := by
  induction ms with
  | nil => simp [maxAlign]
  | cons m ms ih =>
    simp only [maxAlign, List.map_cons, List.mem_cons]
    rcases Nat.le_total m.2 (maxAlign ms) with h | h
    · rw [Nat.max_eq_right h]
      rcases ih with h1 | h1
      · left; exact h1
      · right; right; exact h1
    · rw [Nat.max_eq_left h]; right; left; rfl

theorem maxAlign_isMax (ms : List Spec.Member) : IsMaxWithOne (maxAlign ms) (ms.map (·.2)) := by
  refine ⟨maxAlign_mem ms, maxAlign_pos ms, ?_⟩
  intro x hx
  obtain ⟨m, hm, rfl⟩ := List.mem_map.mp hx
  exact maxAlign_ge ms m hm

theorem isMaxWithOne_unique {r₁ r₂ : Nat} {l : List Nat} (h₁ : IsMaxWithOne r₁ l) (h₂ : IsMaxWithOne r₂ l) :
    r₁ = r₂ := by
  apply Nat.le_antisymm
  · rcases h₁.1 with h | h
    · rw [h]; exact h₂.2.1
    · exact h₂.2.2 _ h
  · rcases h₂.1 with h | h
    · rw [h]; exact h₁.2.1
    · exact h₁.2.2 _ h

theorem maxSize_ge (ms : List Spec.Member) : ∀ m ∈ ms, m.1 ≤ maxSize ms := by
  induction ms with
  | nil => simp
  | cons m ms ih =>
    intro x hx
    simp only [maxSize]
    rcases List.mem_cons.mp hx with rfl | h
    · omega
    · have := ih x h; omega

theorem maxSize_mem (ms : List Spec.Member) : maxSize ms = 0 ∨ maxSize ms ∈ ms.map (·.1) := by
  induction ms with
  | nil => simp [maxSize]
  | cons m ms ih =>
    simp only [maxSize, List.map_cons, List.mem_cons]
    rcases Nat.le_total m.1 (maxSize ms) with h | h
    · rw [Nat.max_eq_right h]
      rcases ih with h1 | h1
      · left; exact h1
      · right; right; exact h1
    · rw [Nat.max_eq_left h]; right; left; rfl

theorem maxSize_isMax (ms : List Spec.Member) : IsMaxWithZero (maxSize ms) (ms.map (·.1)) := by
  refine ⟨maxSize_mem ms, ?_⟩
  intro x hx
  obtain ⟨m, hm, rfl⟩ := List.mem_map.mp hx
  exact maxSize_ge ms m hm

theorem isMaxWithZero_unique {r₁ r₂ : Nat} {l : List Nat} (h₁ : IsMaxWithZero r₁ l) (h₂ : IsMaxWithZero r₂ l) :
    r₁ = r₂ := by
  apply Nat.le_antisymm
  · rcases h₁.1 with h | h
    · rw [h]; exact Nat.zero_le _
    · exact h₂.2 _ h
  · rcases h₂.1 with h | h
    · rw [h]; exact Nat.zero_le _
    · exact h₁.2 _ h

/-! ### the executable specification satisfies the declarative one, which has one solution -/

theorem place_placed (ms : List Spec.Member) (hpos : ∀ m ∈ ms, 0 < m.2) (start : Nat) :
    Placed start ms (place start ms).1 (place start ms).2 := by
  induction ms generalizing start with
  | nil => exact Placed.nil start
  | cons m ms ih =>
    simp only [place]
    exact Placed.cons (alignUp_isLeast start m.2 (hpos m (List.mem_cons_self)))
      (ih (fun x hx => hpos x (List.mem_cons_of_mem _ hx)) _)

theorem placed_unique {start : Nat} {ms : List Spec.Member} {o₁ o₂ : List Nat} {f₁ f₂ : Nat}
    (h₁ : Placed start ms o₁ f₁) (h₂ : Placed start ms o₂ f₂) : o₁ = o₂ ∧ f₁ = f₂ := by
  induction h₁ generalizing o₂ f₂ with
  | nil s => cases h₂; exact ⟨rfl, rfl⟩
  | cons hl hp ih =>
    cases h₂ with
    | cons hl' hp' =>
      have := isLeast_unique hl hl'
      subst this
      obtain ⟨e1, e2⟩ := ih hp'
      exact ⟨by rw [e1], e2⟩

theorem spec_struct (ms : List Spec.Member) (hpos : ∀ m ∈ ms, 0 < m.2) :
    IsStructLayout ms (cStructLayout ms).offsets (cStructLayout ms).size (cStructLayout ms).align :=
  ⟨⟨(place 0 ms).2, place_placed ms hpos 0, alignUp_isLeast _ _ (maxAlign_pos ms)⟩, maxAlign_isMax ms⟩

theorem spec_struct_unique (ms : List Spec.Member) (o₁ o₂ : List Nat) (s₁ s₂ a₁ a₂ : Nat)
    (h₁ : IsStructLayout ms o₁ s₁ a₁) (h₂ : IsStructLayout ms o₂ s₂ a₂) : o₁ = o₂ ∧ s₁ = s₂ ∧ a₁ = a₂ := by
  obtain ⟨f₁, p₁, l₁⟩ := h₁.placed
  obtain ⟨f₂, p₂, l₂⟩ := h₂.placed
  obtain ⟨eo, ef⟩ := placed_unique p₁ p₂
  have ea := isMaxWithOne_unique h₁.align_max h₂.align_max
  subst eo ef ea
  exact ⟨rfl, isLeast_unique l₁ l₂, rfl⟩

theorem spec_union (ms : List Spec.Member) :
    IsUnionLayout ms (cUnionLayout ms).offsets (cUnionLayout ms).size (cUnionLayout ms).align :=
  ⟨rfl, ⟨maxSize ms, maxSize_isMax ms, alignUp_isLeast _ _ (maxAlign_pos ms)⟩, maxAlign_isMax ms⟩

theorem spec_union_unique (ms : List Spec.Member) (o₁ o₂ : List Nat) (s₁ s₂ a₁ a₂ : Nat)
    (h₁ : IsUnionLayout ms o₁ s₁ a₁) (h₂ : IsUnionLayout ms o₂ s₂ a₂) : o₁ = o₂ ∧ s₁ = s₂ ∧ a₁ = a₂ := by
  obtain ⟨m₁, x₁, l₁⟩ := h₁.size_padded
  obtain ⟨m₂, x₂, l₂⟩ := h₂.size_padded
  have em := isMaxWithZero_unique x₁ x₂
  have ea := isMaxWithOne_unique h₁.align_max h₂.align_max
  subst em ea
  exact ⟨by rw [h₁.offsets_zero, h₂.offsets_zero], isLeast_unique l₁ l₂, rfl⟩

/-! ### C int arithmetic inside its range -/

theorem wrap32_id (x : Int) (h0 : 0 ≤ x) (h1 : x < 2147483648) : wrap32 x = x := by
  unfold wrap32; omega

theorem cMax_nat (x y : Nat) : cMax (x : Int) (y : Int) = ((max x y : Nat) : Int) := by
  unfold cMax
  split <;> omega

theorem pow2_max {x y : Nat} (hx : ∃ j, j ≤ 30 ∧ x = 2 ^ j) (hy : ∃ j, j ≤ 30 ∧ y = 2 ^ j) :
    ∃ j, j ≤ 30 ∧ max x y = 2 ^ j := by
  rcases Nat.le_total x y with h | h
  · rw [Nat.max_eq_right h]; exact hy
  · rw [Nat.max_eq_left h]; exact hx

theorem pow2_pos {x : Nat} (hx : ∃ j, j ≤ 30 ∧ x = 2 ^ j) : 0 < x := by
  obtain ⟨j, _, rfl⟩ := hx; exact Nat.two_pow_pos j

theorem pow2_le {x : Nat} (hx : ∃ j, j ≤ 30 ∧ x = 2 ^ j) : x ≤ 1073741824 := by
  obtain ⟨j, hj, rfl⟩ := hx
  calc 2 ^ j ≤ 2 ^ 30 := Nat.pow_le_pow_right (by decide) hj
    _ = 1073741824 := by decide

theorem giAlign_known (start a : Nat) (ha : ∃ j, j ≤ 30 ∧ a = 2 ^ j) (hov : start + a ≤ 2147483648) :
    giAlign (start : Int) (a : Int) = ((alignUp start a : Nat) : Int) := by
  obtain ⟨k, hk, rfl⟩ := ha
  have := giAlign_nat start k hk (by rw [show (2:Nat) ^ 31 = 2147483648 by decide]; exact hov)
  rw [this]; rfl

theorem place_ge (ms : List Spec.Member) (hpos : ∀ m ∈ ms, 0 < m.2) (start : Nat) :
    start ≤ (place start ms).2 := by
  induction ms generalizing start with
  | nil => simp [place]
  | cons m ms ih =>
    simp only [place]
    have h1 := alignUp_ge start m.2 (hpos m List.mem_cons_self)
    have h2 := ih (fun x hx => hpos x (List.mem_cons_of_mem _ hx)) (alignUp start m.2 + m.1)
    omega

/-! ### one-step equations of the loops -/

theorem structLoop_field_ok (ptr : SA) (size al : Int) (sa : SA) (ms : List MemberSA) (h : sa.ok = true) :
    structLoop ptr size al false (.field sa :: ms) =
      (giAlign size sa.align :: (structLoop ptr (wrap32 (giAlign size sa.align + sa.size)) (cMax al sa.align) false ms).1,
       (structLoop ptr (wrap32 (giAlign size sa.align + sa.size)) (cMax al sa.align) false ms).2) := by
  simp [structLoop, h]

theorem structLoop_known (ptr : SA) (ms : List Spec.Member) (hk : ∀ m ∈ ms, KnownMember m)
    (start al : Nat) (hal : ∃ j, j ≤ 30 ∧ al = 2 ^ j)
    (hov : (place start ms).2 + max al (maxAlign ms) ≤ 2147483648) :
    structLoop ptr (start : Int) (al : Int) false (ms.map toField) =
      ((place start ms).1.map Int.ofNat, (((place start ms).2 : Nat) : Int),
        ((max al (maxAlign ms) : Nat) : Int), false) := by
  induction ms generalizing start al with
  | nil =>
    have := pow2_pos hal
    simp only [List.map_nil, structLoop, place, maxAlign]
    rw [Nat.max_eq_left (by omega)]
  | cons m ms ih =>
    have hm : KnownMember m := hk m List.mem_cons_self
    have hk' : ∀ x ∈ ms, KnownMember x := fun x hx => hk x (List.mem_cons_of_mem _ hx)
    have hpos' : ∀ x ∈ ms, 0 < x.2 := fun x hx => pow2_pos (hk' x hx)
    have hmpos := pow2_pos hm
    simp only [place, maxAlign] at hov
    have hge := place_ge ms hpos' (alignUp start m.2 + m.1)
    have hup := alignUp_ge start m.2 hmpos
    have hmax1 : m.2 ≤ max al (max m.2 (maxAlign ms)) := by omega
    have halpos := pow2_pos hal
    have hoff : giAlign (start : Int) (m.2 : Int) = ((alignUp start m.2 : Nat) : Int) :=
      giAlign_known start m.2 hm (by omega)
    rw [List.map_cons, toField, structLoop_field_ok ptr _ _ _ _ rfl]
    simp only []
    rw [hoff, wrap32_id _ (by omega) (by omega), cMax_nat]
    have e : ((alignUp start m.2 : Nat) : Int) + ((m.1 : Nat) : Int) = ((alignUp start m.2 + m.1 : Nat) : Int) := by
      omega
    rw [e, ih hk' _ _ (pow2_max hal hm) (by rw [Nat.max_assoc]; exact hov)]
    simp only [place, maxAlign, List.map_cons, Nat.max_assoc]
    rfl

theorem maxAlign_pow2 (ms : List Spec.Member) (hk : ∀ m ∈ ms, KnownMember m) :
    ∃ j, j ≤ 30 ∧ maxAlign ms = 2 ^ j := by
  induction ms with
  | nil => exact ⟨0, by omega, rfl⟩
  | cons m ms ih =>
    simp only [maxAlign]
    exact pow2_max (hk m List.mem_cons_self) (ih (fun x hx => hk x (List.mem_cons_of_mem _ hx)))

theorem struct_known (ptr : SA) (ms : List Spec.Member) (hk : ∀ m ∈ ms, KnownMember m)
    (hov : (cStructLayout ms).size + (cStructLayout ms).align ≤ 2 ^ 31) :
    structLayout ptr (ms.map toField) =
      ⟨(cStructLayout ms).size, (cStructLayout ms).align, (cStructLayout ms).offsets.map Int.ofNat⟩ := by
  have h31 : (2:Nat) ^ 31 = 2147483648 := by decide
  simp only [cStructLayout] at hov ⊢
  rw [h31] at hov
  have hpa := maxAlign_pow2 ms hk
  have hapos := pow2_pos hpa
  have hge := alignUp_ge (place 0 ms).2 (maxAlign ms) hapos
  have hloop := structLoop_known ptr ms hk 0 1 ⟨0, by omega, rfl⟩
    (by rw [Nat.max_eq_right (maxAlign_pos ms)]; omega)
  rw [Nat.max_eq_right (maxAlign_pos ms)] at hloop
  unfold structLayout
  have h0 : ((0 : Nat) : Int) = 0 := rfl
  have h1 : ((1 : Nat) : Int) = 1 := rfl
  rw [h0, h1] at hloop
  rw [hloop]
  simp only [finishLayout]
  rw [giAlign_known _ _ hpa (by omega)]
  rfl

/-! ### unions -/

theorem unionLoop_known (ms : List Spec.Member) (sz al : Nat) (hal : 1 ≤ al) :
    unionLoop (sz : Int) (al : Int) false (ms.map toField) =
      (((max sz (maxSize ms) : Nat) : Int), ((max al (maxAlign ms) : Nat) : Int), false) := by
  induction ms generalizing sz al with
  | nil =>
    simp only [List.map_nil, unionLoop, maxSize, maxAlign]
    rw [Nat.max_eq_left (by omega), Nat.max_eq_left hal]
  | cons m ms ih =>
    rw [List.map_cons, toField]
    simp only [unionLoop, Bool.not_false, Bool.and_self, ↓reduceIte]
    rw [cMax_nat, cMax_nat, ih _ _ (by omega)]
    simp only [maxSize, maxAlign, Nat.max_assoc]

theorem unionOffsets_known (ms : List Spec.Member) :
    unionOffsets (ms.map toField) = (ms.map (fun _ => (0 : Nat))).map Int.ofNat := by
  induction ms with
  | nil => rfl
  | cons m ms ih => simp only [List.map_cons, toField, unionOffsets, ih]; rfl

theorem union_known (ms : List Spec.Member) (hk : ∀ m ∈ ms, KnownMember m)
    (hov : (cUnionLayout ms).size + (cUnionLayout ms).align ≤ 2 ^ 31) :
    unionLayout (ms.map toField) =
      ⟨(cUnionLayout ms).size, (cUnionLayout ms).align, (cUnionLayout ms).offsets.map Int.ofNat⟩ := by
  have h31 : (2:Nat) ^ 31 = 2147483648 := by decide
  simp only [cUnionLayout] at hov ⊢
  rw [h31] at hov
  have hpa := maxAlign_pow2 ms hk
  have hapos := pow2_pos hpa
  have hge := alignUp_ge (maxSize ms) (maxAlign ms) hapos
  have hloop := unionLoop_known ms 0 1 (by omega)
  rw [Nat.max_eq_right (maxAlign_pos ms), Nat.max_eq_right (Nat.zero_le _)] at hloop
  unfold unionLayout
  have h0 : ((0 : Nat) : Int) = 0 := rfl
  have h1 : ((1 : Nat) : Int) = 1 := rfl
  rw [h0, h1] at hloop
  rw [hloop]
  simp only [finishLayout]
  rw [giAlign_known _ _ hpa (by omega), unionOffsets_known]
  rfl

/-! ### sanity of the specified layout -/

theorem pow2_dvd_of_le {x y : Nat} (hx : ∃ j, j ≤ 30 ∧ x = 2 ^ j) (hy : ∃ j, j ≤ 30 ∧ y = 2 ^ j) (h : x ≤ y) :
    x ∣ y := by
  obtain ⟨i, _, rfl⟩ := hx
  obtain ⟨j, _, rfl⟩ := hy
  exact Nat.pow_dvd_pow 2 ((Nat.pow_le_pow_iff_right (by decide)).mp h)

theorem sane_place (ms : List Spec.Member) (hpos : ∀ m ∈ ms, 0 < m.2) (start fin : Nat)
    (hfin : (place start ms).2 ≤ fin) :
    Sane (start : Int) ms ((place start ms).1.map Int.ofNat) (fin : Int) := by
  induction ms generalizing start with
  | nil => simp only [place] at hfin; simp only [place, List.map_nil, Sane]; omega
  | cons m ms ih =>
    simp only [place] at hfin
    simp only [place, List.map_cons, Sane]
    have hup := alignUp_ge start m.2 (hpos m List.mem_cons_self)
    refine ⟨by simp only [Int.ofNat_eq_natCast]; omega, ?_, ?_⟩
    · exact Int.natCast_dvd_natCast.mpr (alignUp_dvd start m.2)
    · have := ih (fun x hx => hpos x (List.mem_cons_of_mem _ hx)) (alignUp start m.2 + m.1) hfin
      simpa [Int.ofNat_eq_natCast, Int.natCast_add] using this

theorem maxAlign_dvd (ms : List Spec.Member) (hk : ∀ m ∈ ms, KnownMember m) :
    ∀ m ∈ ms, m.2 ∣ maxAlign ms :=
  fun m hm => pow2_dvd_of_le (hk m hm) (maxAlign_pow2 ms hk) (maxAlign_ge ms m hm)

/-! ### unknown-size members -/

theorem structLoop_err (ptr : SA) (ms : List MemberSA) (size al : Int) :
    (structLoop ptr size al true ms).1 = List.replicate (fieldCount ms) (-1) ∧
    (structLoop ptr size al true ms).2.2.2 = true := by
  induction ms generalizing size al with
  | nil => simp [structLoop, fieldCount]
  | cons m ms ih =>
    cases m with
    | field sa =>
      simp only [structLoop, Bool.not_true, Bool.false_and, Bool.false_eq_true, ↓reduceIte, fieldCount,
        List.replicate_succ]
      exact ⟨by rw [(ih size al).1], (ih size al).2⟩
    | callback => simp only [structLoop, fieldCount]; exact ih _ _
    | other => simp only [structLoop, fieldCount]; exact ih _ _

theorem structLoop_bad (ptr : SA) (ms : List MemberSA) (h : ∃ sa, MemberSA.field sa ∈ ms ∧ sa.ok = false)
    (size al : Int) (err : Bool) : (structLoop ptr size al err ms).2.2.2 = true := by
  induction ms generalizing size al err with
  | nil => obtain ⟨sa, hm, _⟩ := h; cases hm
  | cons m ms ih =>
    obtain ⟨sa, hm, hbad⟩ := h
    cases m with
    | field sa' =>
      simp only [structLoop]
      split
      · rename_i hc
        rcases List.mem_cons.mp hm with e | e
        · cases e; simp [hbad] at hc
        · exact ih ⟨sa, e, hbad⟩ _ _ _
      · exact (structLoop_err ptr ms size al).2
    | callback =>
      simp only [structLoop]
      rcases List.mem_cons.mp hm with e | e
      · cases e
      · exact ih ⟨sa, e, hbad⟩ _ _ _
    | other =>
      simp only [structLoop]
      rcases List.mem_cons.mp hm with e | e
      · cases e
      · exact ih ⟨sa, e, hbad⟩ _ _ _

theorem unionLoop_err (ms : List MemberSA) (size al : Int) : (unionLoop size al true ms).2.2 = true := by
  induction ms generalizing size al with
  | nil => simp [unionLoop]
  | cons m ms ih =>
    cases m with
    | field sa => simp only [unionLoop, Bool.not_true, Bool.false_and, Bool.false_eq_true, ↓reduceIte]; exact ih _ _
    | callback => simp only [unionLoop]; exact ih _ _
    | other => simp only [unionLoop]; exact ih _ _

theorem unionLoop_bad (ms : List MemberSA) (h : ∃ sa, MemberSA.field sa ∈ ms ∧ sa.ok = false)
    (size al : Int) (err : Bool) : (unionLoop size al err ms).2.2 = true := by
  induction ms generalizing size al err with
  | nil => obtain ⟨sa, hm, _⟩ := h; cases hm
  | cons m ms ih =>
    obtain ⟨sa, hm, hbad⟩ := h
    cases m with
    | field sa' =>
      simp only [unionLoop]
      split
      · rename_i hc
        rcases List.mem_cons.mp hm with e | e
        · cases e; simp [hbad] at hc
        · exact ih ⟨sa, e, hbad⟩ _ _ _
      · exact unionLoop_err ms size al
    | callback =>
      simp only [unionLoop]
      rcases List.mem_cons.mp hm with e | e
      · cases e
      · exact ih ⟨sa, e, hbad⟩ _ _ _
    | other =>
      simp only [unionLoop]
      rcases List.mem_cons.mp hm with e | e
      · cases e
      · exact ih ⟨sa, e, hbad⟩ _ _ _

theorem structLoop_prefix (ptr : SA) (pre post : List MemberSA) (sa : SA) (hbad : sa.ok = false)
    (hpre : ∀ s, MemberSA.field s ∈ pre → s.ok = true) (size al : Int) :
    (structLoop ptr size al false (pre ++ .field sa :: post)).1 =
      (structLoop ptr size al false pre).1 ++ List.replicate (fieldCount post + 1) (-1) := by
  induction pre generalizing size al with
  | nil =>
    simp only [List.nil_append, structLoop, hbad, Bool.and_false, Bool.false_eq_true, ↓reduceIte,
      List.replicate_succ]
    rw [(structLoop_err ptr post size al).1]
  | cons m pre ih =>
    have hpre' : ∀ s, MemberSA.field s ∈ pre → s.ok = true := fun s hs => hpre s (List.mem_cons_of_mem _ hs)
    cases m with
    | field s =>
      have hs : s.ok = true := hpre s List.mem_cons_self
      simp only [List.cons_append, structLoop, hs, Bool.not_false, Bool.and_self, ↓reduceIte]
      rw [ih hpre']
    | callback => simp only [List.cons_append, structLoop]; exact ih hpre' _ _
    | other => simp only [List.cons_append, structLoop]; exact ih hpre' _ _

/-! ### enumerations -/

theorem probe_facts :
    probeWidth 1 = 4 ∧ probeWidth 2 = 4 ∧ probeWidth 3 = 4 ∧ probeWidth 4 = 4 ∧ probeWidth 5 = 4 ∧
    probeWidth 6 = 4 ∧ probeWidth 7 = 4 ∧ probeWidth 8 = 4 ∧ probeWidth 9 = 4 ∧
    probeSigned 1 = false ∧ probeSigned 2 = false ∧ probeSigned 3 = false ∧ probeSigned 4 = false ∧
    probeSigned 5 = false ∧ probeSigned 6 = false := by decide

theorem enumStorage_nonneg (maxV : Int) : enumStorage 0 maxV = some Gen.tagUInt32 := by
  obtain ⟨h1, h2, h3, h4, h5, h6, _, _, _, s1, s2, s3, s4, s5, s6⟩ := probe_facts
  unfold enumStorage enumWidthSigned
  simp only [Int.lt_irrefl, ↓reduceIte, h1, h2, h3, h4, h5, h6, s1, s2, s3, s4, s5, s6]
  split <;> (try split) <;> (try split) <;> (try split) <;> (try split) <;> rfl

theorem enumStorage_neg (minV maxV : Int) (h : minV < 0) (hmax : maxV ≤ 2147483647) :
    enumStorage minV maxV = some Gen.tagInt32 := by
  obtain ⟨_, _, _, _, _, _, h7, h8, h9, _⟩ := probe_facts
  have hmi : Gen.gMaxInt = 2147483647 := by decide
  unfold enumStorage enumWidthSigned
  simp only [h, ↓reduceIte, h7, h8, h9, hmi, hmax]
  split <;> (try split) <;> rfl

/-- the branch added for a negative member together with a member above G_MAXINT -/
theorem enumStorage_neg_big (minV maxV : Int) (h : minV < 0) (hmax : 2147483647 < maxV) :
    enumStorage minV maxV = some Gen.tagInt64 := by
  have hmi : Gen.gMaxInt = 2147483647 := by decide
  have hms : Gen.gMaxShort = 32767 := by decide
  have h1 : ¬ maxV ≤ 127 := by omega
  have h2 : ¬ maxV ≤ 32767 := by omega
  have h3 : ¬ maxV ≤ 2147483647 := by omega
  unfold enumStorage enumWidthSigned
  simp only [h, ↓reduceIte, hmi, hms, h1, h2, h3, decide_false, Bool.and_false, Bool.false_eq_true]
  decide

theorem enumMinMax_spec (vs : List Int) (lo hi : Int) (hlo : lo ≤ 0) (hhi : 0 ≤ hi) :
    let mm := vs.foldl (fun (mm : Int × Int) v =>
      (if v < mm.1 then v else mm.1, if v > mm.2 then v else mm.2)) (lo, hi)
    (∀ v ∈ vs, mm.1 ≤ v ∧ v ≤ mm.2) ∧ mm.1 ≤ lo ∧ hi ≤ mm.2 ∧
    (mm.1 = lo ∨ mm.1 ∈ vs) ∧ (mm.2 = hi ∨ mm.2 ∈ vs) := by
  induction vs generalizing lo hi with
  | nil => simp
  | cons v vs ih =>
    simp only [List.foldl_cons]
    have fl : (if v < lo then v else lo) ≤ lo ∧ (if v < lo then v else lo) ≤ v ∧
        ((if v < lo then v else lo) = lo ∨ (if v < lo then v else lo) = v) := by split <;> omega
    have fh : hi ≤ (if v > hi then v else hi) ∧ v ≤ (if v > hi then v else hi) ∧
        ((if v > hi then v else hi) = hi ∨ (if v > hi then v else hi) = v) := by split <;> omega
    generalize (if v < lo then v else lo) = lo' at fl ⊢
    generalize (if v > hi then v else hi) = hi' at fh ⊢
    have := ih lo' hi' (by omega) (by omega)
    simp only at this
    obtain ⟨h1, h2, h3, h4, h5⟩ := this
    refine ⟨?_, by omega, by omega, ?_, ?_⟩
    · intro x hx
      rcases List.mem_cons.mp hx with rfl | hx
      · omega
      · exact h1 x hx
    · rcases h4 with h4 | h4
      · rcases fl.2.2 with e | e
        · left; omega
        · right; rw [h4, e]; exact List.mem_cons_self
      · right; exact List.mem_cons_of_mem _ h4
    · rcases h5 with h5 | h5
      · rcases fh.2.2 with e | e
        · left; omega
        · right; rw [h5, e]; exact List.mem_cons_self
      · right; exact List.mem_cons_of_mem _ h5

/-! ### what is stored in the blobs -/

theorem blobOffset_small (o : Int) (h0 : 0 ≤ o) (h1 : o < 65535) : blobOffset o = o.toNat ∧ blobOffset o ≠ 65535 := by
  unfold blobOffset
  have hc : (decide (o ≥ 0) && decide (o < 65535)) = true := by simp [h0, h1]
  simp only [hc, ↓reduceIte]
  have : o % 65536 = o := Int.emod_eq_of_lt h0 (by omega)
  rw [this]
  exact ⟨rfl, by omega⟩

theorem blobOffset_unknown (o : Int) (h : o < 0 ∨ 65535 ≤ o) : blobOffset o = 65535 := by
  unfold blobOffset
  have hc : (decide (o ≥ 0) && decide (o < 65535)) = false := by
    rcases h with h | h
    · have : ¬ o ≥ 0 := by omega
      simp [this]
    · have : ¬ o < 65535 := by omega
      simp [this]
  simp only [hc, Bool.false_eq_true, ↓reduceIte]

end GIVerif.Offsets
