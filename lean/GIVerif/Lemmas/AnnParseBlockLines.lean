/- Helper lemmas for the block-level round trip (C10): what the line matchers return on the
   lines the project's own writer emits for a block of the stated grammar (Spec/BlockGrammar). -/
import GIVerif.Spec.BlockGrammar
import GIVerif.Lemmas.AnnParseMatchers
import GIVerif.Lemmas.AnnParseRoundtrip
import GIVerif.Lemmas.AnnParseLines

namespace GIVerif.AnnParse
open GIVerif.Py

/-! ### characters -/

theorem whitespace_not_word :
    ∀ n ∈ Gen.pyWhitespace, (Gen.pyWordRanges.any (fun r => r.1 ≤ n && n ≤ r.2)) = false := by
  decide +kernel

theorem isWord_not_space {c : Char} (h : isWord c = true) : isSpace c = false := by
  cases hs : isSpace c with
  | false => rfl
  | true =>
    have hm : c.toNat ∈ Gen.pyWhitespace := by simpa [isSpace] using hs
    have := whitespace_not_word c.toNat hm
    simp only [isWord] at h
    rw [this] at h
    cases h

theorem word_facts : isWord ':' = false ∧ isWord '(' = false ∧ isWord ')' = false ∧ isWord '@' = false ∧
    isWord '|' = false ∧ isWord '.' = false ∧ isWord '-' = false ∧ isWord '*' = false ∧ isWord '/' = false := by
  decide +kernel

theorem isWord_ne {c : Char} (h : isWord c = true) :
    c ≠ ':' ∧ c ≠ '(' ∧ c ≠ ')' ∧ c ≠ '@' ∧ c ≠ '|' ∧ c ≠ '.' ∧ c ≠ '-' ∧ c ≠ '\n' ∧ c ≠ '\r' ∧ c ≠ ' ' := by
  have hs := isWord_not_space h
  obtain ⟨h1, h2, h3, h4, h5, h6, h7, _, _⟩ := word_facts
  refine ⟨?_, ?_, ?_, ?_, ?_, ?_, ?_, ?_, ?_, ?_⟩ <;> intro he <;> subst he <;> first
    | (rw [h1] at h; cases h) | (rw [h2] at h; cases h) | (rw [h3] at h; cases h) | (rw [h4] at h; cases h)
    | (rw [h5] at h; cases h) | (rw [h6] at h; cases h) | (rw [h7] at h; cases h)
    | (revert hs; decide)

theorem colon_not_space : isSpace ':' = false := by decide
theorem lpar_not_space : isSpace '(' = false := by decide
theorem rpar_not_space : isSpace ')' = false := by decide
theorem at_not_space : isSpace '@' = false := by decide

/-! ### white space counting, trimming -/

theorem countWs_cons_nonspace {c : Char} (cs : Str) (h : isSpace c = false) : countWs (c :: cs) = 0 := by
  simp [countWs, countWhile, h]

theorem countWs_nil : countWs [] = 0 := rfl

theorem countWs_space_cons {c : Char} (cs : Str) (h : isSpace c = true) : countWs (c :: cs) = countWs cs + 1 := by
  simp [countWs, countWhile, h]

/-- text with no white space at either end -/
structure Trimmed (s : Str) : Prop where
  head : ∃ c cs, s = c :: cs ∧ isSpace c = false
  last : ∃ cs c, s = cs ++ [c] ∧ isSpace c = false

theorem Trimmed.ne_nil {s : Str} (h : Trimmed s) : s ≠ [] := by
  obtain ⟨c, cs, he, _⟩ := h.head; rw [he]; simp

theorem lstrip_trimmed {s : Str} (h : Trimmed s) : lstrip s = s := by
  obtain ⟨c, cs, he, hc⟩ := h.head
  rw [he]; exact lstrip_cons_of_not_space hc

theorem rstrip_trimmed {s : Str} (h : Trimmed s) : rstrip s = s := by
  obtain ⟨cs, c, he, hc⟩ := h.last
  rw [he]; exact rstrip_append_of_not_space hc

theorem strip_trimmed {s : Str} (h : Trimmed s) : strip s = s := by
  unfold strip; rw [lstrip_trimmed h, rstrip_trimmed h]

theorem countWs_trimmed {s : Str} (h : Trimmed s) : countWs s = 0 := by
  obtain ⟨c, cs, he, hc⟩ := h.head
  rw [he]; exact countWs_cons_nonspace cs hc

theorem lstrip_space_cons {c : Char} (s : Str) (h : isSpace c = true) : lstrip (c :: s) = lstrip s := by
  simp [lstrip, List.dropWhile, h]

theorem rstrip_cons_trimmed (c : Char) {s : Str} (h : Trimmed s) : rstrip (c :: s) = c :: s := by
  obtain ⟨cs, x, he, hx⟩ := h.last
  rw [he, ← List.cons_append]; exact rstrip_append_of_not_space hx

theorem strip_space_trimmed {c : Char} {s : Str} (hc : isSpace c = true) (h : Trimmed s) : strip (c :: s) = s := by
  unfold strip
  rw [lstrip_space_cons s hc, lstrip_trimmed h, rstrip_trimmed h]

theorem strip_nonspace_cons {c : Char} {s : Str} (hc : isSpace c = false) (h : Trimmed s) : strip (c :: s) = c :: s := by
  unfold strip
  rw [lstrip_cons_of_not_space hc, rstrip_cons_trimmed c h]

theorem strip_nil : strip [] = [] := rfl

theorem trimmed_cons {c : Char} {s : Str} (hc : isSpace c = false) (h : Trimmed s) : Trimmed (c :: s) := by
  obtain ⟨cs, x, he, hx⟩ := h.last
  exact ⟨⟨c, s, rfl, hc⟩, ⟨c :: cs, x, by rw [he]; simp, hx⟩⟩

theorem trimmed_append {a b : Str} (ha : Trimmed a) (hb : Trimmed b) : Trimmed (a ++ b) := by
  obtain ⟨c, cs, he, hc⟩ := ha.head
  obtain ⟨ds, d, hd, hdd⟩ := hb.last
  exact ⟨⟨c, cs ++ b, by rw [he]; simp, hc⟩, ⟨a ++ ds, d, by rw [hd]; simp, hdd⟩⟩

theorem trimmedSpan_nil (off : Nat) : trimmedSpan off [] = (off, off) := by
  simp [trimmedSpan, countWs, countWhile, rstrip]

theorem trimmedSpan_trimmed (off : Nat) {s : Str} (h : Trimmed s) : trimmedSpan off s = (off, off + s.length) := by
  simp [trimmedSpan, countWs_trimmed h, rstrip_trimmed h]

theorem trimmedSpan_space_trimmed (off : Nat) {c : Char} {s : Str} (hc : isSpace c = true) (h : Trimmed s) :
    trimmedSpan off (c :: s) = (off + 1, off + 1 + s.length) := by
  simp [trimmedSpan, countWs_space_cons s hc, countWs_trimmed h, rstrip_trimmed h]

/-! ### group access on literal group lists -/

theorem drop_append_len (p q : Str) : (p ++ q).drop p.length = q := List.drop_left' rfl

theorem take_len_append (p q : Str) : (p ++ q).take p.length = p := List.take_left' rfl

theorem drop_take_mid (p m q : Str) : ((p ++ (m ++ q)).drop p.length).take m.length = m := by
  rw [drop_append_len, take_len_append]

theorem drop_len_add (p q : Str) (k : Nat) : (p ++ q).drop (p.length + k) = q.drop k := by
  induction p with
  | nil => simp
  | cons c cs ih => simp [Nat.succ_add, ih]

theorem hasPrefix_eq_isPrefixOf : ∀ (s p : Str), hasPrefix s p = p.isPrefixOf s
  | _, [] => by simp [hasPrefix]
  | [], _ :: _ => by simp [hasPrefix]
  | c :: cs, p :: ps => by
    simp only [hasPrefix, List.isPrefixOf, hasPrefix_eq_isPrefixOf cs ps]
    rw [Bool.beq_comm]

/-- a literal made of word characters is a prefix of `name ++ ':' :: _` only if it is one of `name` -/
theorem hasPrefix_word_append : ∀ (name rest P : Str) (c : Char), isWord c = false → (∀ x ∈ P, isWord x = true) →
    hasPrefix (name ++ c :: rest) P = hasPrefix name P
  | [], rest, [], c, _, _ => by simp [hasPrefix]
  | [], rest, p :: ps, c, hc, hP => by
    have hp := hP p (by simp)
    have : (c == p) = false := by
      simp only [beq_eq_false_iff_ne, ne_eq]; intro he; rw [he, hp] at hc; cases hc
    simp [hasPrefix, this]
  | x :: xs, rest, [], c, _, _ => by simp [hasPrefix]
  | x :: xs, rest, p :: ps, c, hc, hP => by
    simp only [List.cons_append, hasPrefix]
    rw [hasPrefix_word_append xs rest ps c hc (fun y hy => hP y (by simp [hy]))]

theorem wfWord_spec {n : Str} (h : wfWord n = true) : n ≠ [] ∧ ∀ c ∈ n, isWord c = true := by
  simp only [wfWord, Bool.and_eq_true, Bool.not_eq_true', List.isEmpty_eq_false_iff, List.all_eq_true] at h
  exact ⟨by simpa using h.1, h.2⟩

theorem countWs_word_append {n : Str} (rest : Str) (h : wfWord n = true) : countWs (n ++ rest) = 0 := by
  obtain ⟨hne, hw⟩ := wfWord_spec h
  cases n with
  | nil => exact absurd rfl hne
  | cons c cs => exact countWs_cons_nonspace _ (isWord_not_space (hw c (by simp)))

theorem countWhile_word_stop {n : Str} (c : Char) (rest : Str) (h : wfWord n = true) (hc : isWord c = false) :
    countWhile isWord (n ++ c :: rest) = n.length :=
  countWhile_append_stop isWord n c rest (wfWord_spec h).2 hc


/-! ### the identifier line -/

/-- what follows the colon of an identifier line: nothing, or a space and an annotation field -/
def IdentTail (tail : Str) : Prop := tail = [] ∨ ∃ m, tail = ' ' :: '(' :: (m ++ [')'])

theorem section_word : ∀ x ∈ str "SECTION", isWord x = true := by decide +kernel

theorem matchSection_symbol (name tail : Str) (hw : wfWord name = true)
    (hs : startsWith name (str "SECTION") = false) : matchSection (name ++ ':' :: tail) = none := by
  unfold matchSection
  rw [countWs_word_append _ hw]
  have : hasPrefix (name ++ ':' :: tail) (str "SECTION") = false := by
    rw [hasPrefix_word_append name tail _ ':' word_facts.1 section_word, hasPrefix_eq_isPrefixOf]; exact hs
  simp [this]

theorem nameLen_nil : nameLen [] = none := by simp [nameLen]
theorem nameLen_lpar (m : Str) : nameLen ('(' :: m) = none := by
  simp [nameLen, isWordDash, word_facts.2.1]

theorem matchClassMember_symbol (sep : Str) (member : String) (name tail : Str) (hw : wfWord name = true)
    (ht : IdentTail tail) (hsep : sep = [':'] ∨ sep = [':', ':'] ∨ sep = ['.']) :
    matchClassMember sep member (name ++ ':' :: tail) = none := by
  unfold matchClassMember
  have hne : name.length ≠ 0 := by
    have := (wfWord_spec hw).1; intro h; exact this (List.length_eq_zero_iff.mp h)
  rw [countWs_word_append _ hw]
  simp only [List.drop_zero, Nat.zero_add, countWhile_word_stop ':' tail hw word_facts.1, hne, if_false,
    drop_append_len, countWs_cons_nonspace tail colon_not_space, Nat.add_zero]
  rcases hsep with rfl | rfl | rfl
  · -- `:`: the member name is missing
    simp only [hasPrefix, beq_self_eq_true, Bool.true_and, Bool.not_true, Bool.false_eq_true, if_false, List.length_singleton]
    rcases ht with rfl | ⟨m, rfl⟩
    · have : (name ++ [':']).drop (name.length + 1) = [] := List.drop_eq_nil_of_le (by simp)
      simp [this, countWs_nil, nameLen_nil]
    · have h1 : (name ++ ':' :: ' ' :: '(' :: (m ++ [')'])).drop (name.length + 1) = ' ' :: '(' :: (m ++ [')']) := by
        rw [drop_len_add]; rfl
      have h2 : (name ++ ':' :: ' ' :: '(' :: (m ++ [')'])).drop (name.length + 1 + 1) = '(' :: (m ++ [')']) := by
        rw [Nat.add_assoc, drop_len_add]; rfl
      have hc : countWs (' ' :: '(' :: (m ++ [')'])) = 1 := by
        rw [countWs_space_cons _ space_isSpace]
        simp [countWs_cons_nonspace _ lpar_not_space]
      simp only [h1, hc, h2, nameLen_lpar]
  · rcases ht with rfl | ⟨m, rfl⟩ <;> simp [hasPrefix]
  · simp [hasPrefix]


theorem matchAction_symbol (name tail : Str) (hw : wfWord name = true) : matchAction (name ++ ':' :: tail) = none := by
  unfold matchAction
  have hne : name.length ≠ 0 := by
    have := (wfWord_spec hw).1; intro h; exact this (List.length_eq_zero_iff.mp h)
  rw [countWs_word_append _ hw]
  simp only [List.drop_zero, Nat.zero_add, countWhile_word_stop ':' tail hw word_facts.1, hne, if_false,
    drop_append_len, countWs_cons_nonspace tail colon_not_space, Nat.add_zero]
  split
  · rename_i h; simp at h
  · rfl

/-- `tailOK` is false on anything that ends with a closing parenthesis -/
theorem tailOK_close (x : Str) : tailOK (x ++ [')']) = false := by
  unfold tailOK
  have hk : countWs (x ++ [')']) ≤ x.length := by
    unfold countWs
    induction x with
    | nil => simp [countWhile, rpar_not_space]
    | cons c cs ih => simp only [List.cons_append, countWhile]; split <;> simp <;> omega
  have hd : (x ++ [')']).drop (countWs (x ++ [')'])) = x.drop (countWs (x ++ [')'])) ++ [')'] := by
    rw [List.drop_append_of_le_length hk]
  rw [hd]
  cases hx : x.drop (countWs (x ++ [')'])) with
  | nil => simp
  | cons c cs =>
    simp only [List.cons_append]
    split
    · rename_i h; cases h
    · rename_i r h
      simp only [List.cons.injEq] at h
      rw [← h.2]
      simp [rpar_not_space]
    · rfl

theorem lazyFieldsLen_close : ∀ (x : Str), lazyFieldsLen (x ++ [')']) = x.length + 1
  | [] => by simp [lazyFieldsLen, show tailOK [')'] = false from tailOK_close []]
  | c :: cs => by
    have := tailOK_close (c :: cs)
    simp only [List.cons_append] at this ⊢
    rw [lazyFieldsLen, this]
    simp [lazyFieldsLen_close cs]


theorem takeWhile_append_stop (p : Char → Bool) (pre : Str) (c : Char) (rest : Str)
    (hpre : ∀ x ∈ pre, p x = true) (hc : p c = false) : (pre ++ c :: rest).takeWhile p = pre := by
  induction pre with
  | nil => simp [hc]
  | cons x xs ih =>
    simp only [List.cons_append, List.takeWhile, hpre x (by simp)]
    rw [ih (fun y hy => hpre y (by simp [hy]))]

theorem nameLen_word (name : Str) (c : Char) (rest : Str) (hw : wfWord name = true) (hc : isWordDash c = false) :
    nameLen (name ++ c :: rest) = some name.length := by
  obtain ⟨hne, hall⟩ := wfWord_spec hw
  unfold nameLen
  rw [takeWhile_append_stop isWordDash name c rest (fun x hx => by simp [isWordDash, hall x hx]) hc]
  have hrev : name.reverse.dropWhile (fun c => !isWord c) = name.reverse := by
    have hl := List.dropLast_concat_getLast hne
    rw [← hl]
    simp [hall _ (List.getLast_mem hne)]
  simp [hrev, hne]

theorem colon_not_wordDash : isWordDash ':' = false := by decide +kernel

theorem matchSymbol_bare (name : Str) (hw : wfWord name = true) :
    matchSymbol (name ++ [':']) = some [("symbol_name", 0, name.length), ("delimiter", name.length, name.length + 1),
      ("fields", name.length + 1, name.length + 1)] := by
  unfold matchSymbol
  rw [countWs_word_append _ hw]
  simp only [List.drop_zero, nameLen_word name ':' [] hw colon_not_wordDash, Nat.zero_add]
  unfold identTail
  have h1 : (name ++ [':']).drop (name.length + 1) = [] := List.drop_eq_nil_of_le (by simp)
  simp [drop_append_len, countWs_cons_nonspace [] colon_not_space, h1, countWs_nil, lazyFieldsLen]

theorem matchSymbol_fields (name m : Str) (hw : wfWord name = true) :
    matchSymbol (name ++ ':' :: ' ' :: '(' :: (m ++ [')'])) =
      some [("symbol_name", 0, name.length), ("delimiter", name.length, name.length + 1),
        ("fields", name.length + 2, name.length + 2 + (m.length + 2))] := by
  unfold matchSymbol
  rw [countWs_word_append _ hw]
  simp only [List.drop_zero, nameLen_word name ':' _ hw colon_not_wordDash, Nat.zero_add]
  unfold identTail
  have h1 : (name ++ ':' :: ' ' :: '(' :: (m ++ [')'])).drop (name.length + 1) = ' ' :: '(' :: (m ++ [')']) := by
    rw [drop_len_add]; rfl
  have h2 : (name ++ ':' :: ' ' :: '(' :: (m ++ [')'])).drop (name.length + 1 + 1) = '(' :: (m ++ [')']) := by
    rw [Nat.add_assoc, drop_len_add]; rfl
  have hc : countWs (' ' :: '(' :: (m ++ [')'])) = 1 := by
    rw [countWs_space_cons _ space_isSpace]
    simp [countWs_cons_nonspace _ lpar_not_space]
  have hl : lazyFieldsLen ('(' :: (m ++ [')'])) = m.length + 2 := by
    rw [← List.cons_append, lazyFieldsLen_close]; simp
  simp only [drop_append_len, countWs_cons_nonspace _ colon_not_space, Nat.add_zero, h1, hc, h2, hl]


theorem serializeAnnotations_shape : ∀ (a : Anns), a ≠ [] → ∃ m, serializeAnnotations a = '(' :: (m ++ [')'])
  | [], h => absurd rfl h
  | [x], _ => ⟨innerOf x, by rw [serializeAnnotations_singleton, serializeAnnotation_inner]; simp⟩
  | x :: y :: t, _ => by
    obtain ⟨m, hm⟩ := serializeAnnotations_shape (y :: t) (by simp)
    refine ⟨innerOf x ++ ')' :: ' ' :: '(' :: m, ?_⟩
    rw [serializeAnnotations_cons_cons, hm, serializeAnnotation_inner]; simp

def NotSection (name : Str) : Prop := startsWith name (str "SECTION") = false

theorem matchIdentifier_bare (name : Str) (hw : wfWord name = true) (hs : NotSection name) :
    matchIdentifier (name ++ [':']) = some (IdentM.mk name (some [':']) (some []) (name.length + 1) name.length) := by
  unfold matchIdentifier
  rw [matchSection_symbol name [] hw hs]
  simp only [matchProperty, matchSignal, matchField]
  rw [matchClassMember_symbol _ _ name [] hw (Or.inl rfl) (Or.inl rfl),
    matchClassMember_symbol _ _ name [] hw (Or.inl rfl) (Or.inr (Or.inl rfl)), matchAction_symbol name [] hw,
    matchClassMember_symbol _ _ name [] hw (Or.inl rfl) (Or.inr (Or.inr rfl)), matchSymbol_bare name hw]
  simp [identOf, groupText, groupStart, take_len_append, drop_append_len]

theorem matchIdentifier_fields (name m : Str) (hw : wfWord name = true) (hs : NotSection name) :
    matchIdentifier (name ++ ':' :: ' ' :: '(' :: (m ++ [')'])) =
      some (IdentM.mk name (some [':']) (some ('(' :: (m ++ [')']))) (name.length + 2) name.length) := by
  have ht : IdentTail (' ' :: '(' :: (m ++ [')'])) := Or.inr ⟨m, rfl⟩
  unfold matchIdentifier
  rw [matchSection_symbol name _ hw hs]
  simp only [matchProperty, matchSignal, matchField]
  rw [matchClassMember_symbol _ _ name _ hw ht (Or.inl rfl),
    matchClassMember_symbol _ _ name _ hw ht (Or.inr (Or.inl rfl)), matchAction_symbol name _ hw,
    matchClassMember_symbol _ _ name _ hw ht (Or.inr (Or.inr rfl)), matchSymbol_fields name m hw]
  have h2 : (name ++ ':' :: ' ' :: '(' :: (m ++ [')'])).drop (name.length + 2) = '(' :: (m ++ [')']) := by
    rw [drop_len_add]; rfl
  have h3 : ('(' :: (m ++ [')'])).take (m.length + 2) = '(' :: (m ++ [')']) := List.take_of_length_le (by simp)
  simp [identOf, groupText, groupStart, take_len_append, drop_append_len, h2, h3]


@[simp] theorem BSt.log_nil (st : BSt) : st.log [] = st := by simp [BSt.log]

theorem tdiagsAt_nil (ln : Nat) (q : Str) : tdiagsAt ln q [] = [] := rfl

/-- the block right after its identifier line -/
def identBlock (h : Hdr) (name : Str) (a : Anns) (ln : Nat) : BlockM :=
  { newBlock h name with annotations := a, annsLine := if a.isEmpty then none else some ln }

/-- the identifier line the writer emits -/
def identLine (name : Str) (a : Anns) : Str :=
  if a.isEmpty then name ++ [':'] else name ++ ':' :: ' ' :: serializeAnnotations a

theorem identStep_symbol (h : Hdr) (st : BSt) (ln col : Nat) (orig : Str) (indent : Nat) (name : Str) (a : Anns)
    (hw : wfWord name = true) (hs : NotSection name) (ha : wfAnns a = true) :
    identStep h st ln col orig (identLine name a) indent =
      .ok { st with inPart := some .ident, partIndent := some indent, block := some (identBlock h name a ln) } := by
  unfold identStep identLine identBlock
  cases a with
  | nil =>
    simp only [List.isEmpty_nil, if_true, matchIdentifier_bare name hw hs, truthy, List.isEmpty_nil, Bool.not_true,
      Bool.false_eq_true, if_false]
    simp [newBlock]
  | cons x xs =>
    obtain ⟨m, hm⟩ := serializeAnnotations_shape (x :: xs) (by simp)
    obtain ⟨sp, hp⟩ := parseAnnotations_serialize (col + (name.length + 2)) (x :: xs) none [] ha (fun _ _ => rfl) (Or.inl rfl)
    simp only [List.append_nil, Option.getD_none, List.nil_append] at hp
    simp only [List.isEmpty_cons, Bool.false_eq_true, if_false, hm, matchIdentifier_fields name m hw hs, truthy,
      Bool.not_false, if_true, Option.getD_some]
    rw [← hm, hp]
    simp [strip, lstrip, rstrip, tdiagsAt_nil, truthy]


/-! ### parameter lines -/

/-- what follows the colon of a parameter / tag line: nothing, or a space and trimmed text -/
def FieldTail (tail F : Str) : Prop := (tail = [] ∧ F = []) ∨ (tail = ' ' :: F ∧ Trimmed F)

theorem at_facts : isSpace '@' = false := by decide

theorem matchParameter_line (name tail F : Str) (hw : wfWord name = true) (ht : FieldTail tail F) :
    ∃ g, matchParameter ('@' :: name ++ ':' :: tail) = some g ∧
      groupText ('@' :: name ++ ':' :: tail) g "parameter_name" = name ∧
      groupText ('@' :: name ++ ':' :: tail) g "fields" = F := by
  obtain ⟨hne, hall⟩ := wfWord_spec hw
  have hlen : name.length ≠ 0 := fun h => hne (List.length_eq_zero_iff.mp h)
  unfold matchParameter
  rw [show '@' :: name ++ ':' :: tail = '@' :: (name ++ ':' :: tail) by rfl, countWs_cons_nonspace _ at_facts]
  simp only [List.drop_zero, Nat.zero_add]
  have hrun : countWhile isWordDash (name ++ ':' :: tail) = name.length :=
    countWhile_append_stop isWordDash name ':' tail (fun x hx => by simp [isWordDash, hall x hx]) colon_not_wordDash
  have hlast : ((name ++ ':' :: tail).take name.length).getLast? = some (name.getLast hne) := by
    rw [take_len_append]; exact List.getLast?_eq_some_getLast hne
  have hcolon : colonAfterWs ((name ++ ':' :: tail).drop name.length) = some 1 := by
    rw [drop_append_len]; simp [colonAfterWs, countWs_cons_nonspace _ colon_not_space]
  simp only [hrun, hlen, if_false, hlast, hall _ (List.getLast_mem hne), if_true, hcolon, Option.map_some]
  have hd : ('@' :: (name ++ ':' :: tail)).drop (1 + (name.length + 1)) = tail := by
    rw [show 1 + (name.length + 1) = (name.length + 1) + 1 by omega, List.drop_succ_cons,
      show name ++ ':' :: tail = (name ++ [':']) ++ tail by simp, show name.length + 1 = (name ++ [':']).length by simp,
      drop_append_len]
  rw [hd]
  rcases ht with ⟨rfl, rfl⟩ | ⟨rfl, hF⟩
  · rw [trimmedSpan_nil]
    refine ⟨_, rfl, ?_, ?_⟩
    · simp [groupText, take_len_append]
    · simp [groupText]
  · rw [trimmedSpan_space_trimmed _ space_isSpace hF]
    refine ⟨_, rfl, ?_, ?_⟩
    · simp [groupText, take_len_append]
    · have hd2 : ('@' :: (name ++ ':' :: ' ' :: F)).drop (1 + (name.length + 1) + 1) = F := by
        rw [show 1 + (name.length + 1) + 1 = (name.length + 2) + 1 by omega, List.drop_succ_cons,
          show name ++ ':' :: ' ' :: F = (name ++ [':', ' ']) ++ F by simp,
          show name.length + 2 = (name ++ [':', ' ']).length by simp, drop_append_len]
      simp [groupText, hd2]


/-! ### the fields of a part line -/

theorem trimmedText_spec {s : Str} (h : trimmedText s = true) : Trimmed s ∧ NoBreak s := by
  cases s with
  | nil => simp [trimmedText] at h
  | cons c cs =>
    simp only [trimmedText, Bool.and_eq_true, Bool.not_eq_true', List.all_eq_true] at h
    obtain ⟨⟨h1, h2⟩, h3⟩ := h
    refine ⟨⟨⟨c, cs, rfl, h1⟩, ?_⟩, ?_⟩
    · have hne : c :: cs ≠ [] := by simp
      refine ⟨(c :: cs).dropLast, (c :: cs).getLast hne, (List.dropLast_concat_getLast hne).symm, ?_⟩
      rw [List.getLast?_eq_some_getLast hne] at h2
      simpa using h2
    · intro x hx
      have := h3 x hx
      simp only [noBreakChar, Bool.and_eq_true, bne_iff_ne, ne_eq] at this
      exact ⟨this.2, this.1⟩

theorem wfDescText_spec {s : Str} (h : wfDescText s = true) :
    Trimmed s ∧ NoBreak s ∧ ∃ c cs, s = c :: cs ∧ isSpace c = false ∧ c ≠ '(' ∧ c ≠ ')' ∧ c ≠ ':' := by
  simp only [wfDescText, Bool.and_eq_true, bne_iff_ne, ne_eq] at h
  obtain ⟨⟨⟨h1, h2⟩, h3⟩, h4⟩ := h
  obtain ⟨ht, hb⟩ := trimmedText_spec h1
  refine ⟨ht, hb, ?_⟩
  obtain ⟨c, cs, he, hc⟩ := ht.head
  subst he
  exact ⟨c, cs, rfl, hc, by simpa using h2, by simpa using h3, by simpa using h4⟩

/-- the text after `@name:` / `Returns:` on the writer's line for a part -/
def partFields (p : SPart) : Str :=
  match p.desc with
  | some d => if p.anns.isEmpty then d else serializeAnnotations p.anns ++ ':' :: ' ' :: d
  | none => if p.anns.isEmpty then [] else serializeAnnotations p.anns ++ [':']

/-- the description `_parse_fields` returns for that text (before the final clean-up) -/
def rawDesc (p : SPart) : Str :=
  match p.desc with
  | some d => if p.anns.isEmpty then d else ' ' :: d
  | none => []

theorem firstFields_part (col : Nat) (p : SPart) (h : wfPartBody p = true) :
    firstFields col (partFields p) = .ok (if (partFields p).isEmpty then none else
      some { success := true, anns := p.anns, raw := [], changed := !p.anns.isEmpty, description := rawDesc p, diags := [] }) := by
  simp only [wfPartBody, Bool.and_eq_true] at h
  obtain ⟨ha, hd⟩ := h
  unfold firstFields
  split
  · rfl
  · rename_i hne
    unfold parseFields partFields rawDesc
    cases hdesc : p.desc with
    | none =>
      simp only [partFields, hdesc] at hne ⊢
      cases hae : p.anns.isEmpty with
      | true => simp [hae] at hne
      | false =>
        simp only [Bool.false_eq_true, if_false]
        obtain ⟨sp, hp⟩ := parseAnnotations_serialize col p.anns none [':'] ha (fun _ _ => rfl)
          (Or.inr ⟨':', [], rfl, colon_not_space, by decide, by decide⟩)
        simp only [Option.getD_none, List.nil_append, hae, Bool.not_false] at hp
        rw [hp]
        simp [drop_append_len, strip, lstrip, rstrip, colon_not_space]
    | some d =>
      rw [hdesc] at hd
      simp only [] at hd
      obtain ⟨htr, _, c, cs, hcs, hc1, hc2, hc3, hc4⟩ := wfDescText_spec hd
      simp only [partFields, hdesc] at hne ⊢
      cases hae : p.anns.isEmpty with
      | true =>
        simp only [if_true]
        have hnil : p.anns = [] := List.isEmpty_iff.mp hae
        obtain ⟨sp, hp⟩ := parseAnnotations_serialize col [] none d (by decide) (fun _ _ => rfl)
          (Or.inr ⟨c, cs, hcs, hc1, hc2, hc3⟩)
        simp only [Option.getD_none, List.nil_append, List.isEmpty_nil, Bool.not_true,
          show serializeAnnotations [] = [] from rfl, List.length_nil] at hp
        rw [hp]
        simp only [List.drop_zero, strip_trimmed htr]
        subst hcs
        simp [hc4, hnil]
      | false =>
        simp only [Bool.false_eq_true, if_false]
        obtain ⟨sp, hp⟩ := parseAnnotations_serialize col p.anns none (':' :: ' ' :: d) ha (fun _ _ => rfl)
          (Or.inr ⟨':', ' ' :: d, rfl, colon_not_space, by decide, by decide⟩)
        simp only [Option.getD_none, List.nil_append, hae, Bool.not_false] at hp
        rw [hp]
        have hst : strip (':' :: ' ' :: d) = ':' :: ' ' :: d := by
          obtain ⟨ds, x, hx, hxs⟩ := htr.last
          unfold strip
          rw [lstrip_cons_of_not_space colon_not_space, hx,
            show ':' :: ' ' :: (ds ++ [x]) = (':' :: ' ' :: ds) ++ [x] by simp]
          exact rstrip_append_of_not_space hxs
        simp [drop_append_len, hst]


theorem partFields_isEmpty (p : SPart) (h : wfPartBody p = true) :
    (partFields p).isEmpty = (p.anns.isEmpty && p.desc.isNone) := by
  simp only [wfPartBody, Bool.and_eq_true] at h
  unfold partFields
  cases hd : p.desc with
  | none =>
    cases ha : p.anns.isEmpty with
    | true => simp
    | false => simp
  | some d =>
    rw [hd] at h
    have hne := (wfDescText_spec h.2).1.ne_nil
    cases ha : p.anns.isEmpty with
    | true => simp [hne]
    | false => simp

/-- a part right after its first line -/
def partRaw (name : Str) (p : SPart) (ln : Nat) : PartM :=
  { name := name, line := ln, annotations := p.anns,
    annsLine := if p.anns.isEmpty && p.desc.isNone then none else some ln, value := none,
    description := if p.anns.isEmpty && p.desc.isNone then none else some (rawDesc p) }

theorem applyFirstFields_part (name : Str) (p : SPart) (ln col : Nat) (h : wfPartBody p = true) :
    ∃ r, firstFields col (partFields p) = .ok r ∧ applyFirstFields (newPart name ln) ln r = partRaw name p ln ∧
      fieldsDiags ln [] r = [] ∧ (∀ q, fieldsDiags ln q r = []) := by
  refine ⟨_, firstFields_part col p h, ?_, ?_, ?_⟩
  · rw [partFields_isEmpty p h]
    unfold partRaw applyFirstFields newPart
    cases hc : (p.anns.isEmpty && p.desc.isNone) with
    | true =>
      simp only [if_true]
      have : p.anns = [] := by
        simp only [Bool.and_eq_true] at hc; exact List.isEmpty_iff.mp hc.1
      simp [this]
    | false => simp
  · split <;> rfl
  · intro q; split <;> rfl

theorem endsWith_dots_word (name : Str) (hw : wfWord name = true) : endsWith name (str "...") = false := by
  obtain ⟨hne, hall⟩ := wfWord_spec hw
  have hl := List.dropLast_concat_getLast hne
  have hlw := hall _ (List.getLast_mem hne)
  unfold endsWith
  rw [← hl]
  have : (name.getLast hne == '.') = false := by
    simp only [beq_eq_false_iff_ne, ne_eq]; intro he; rw [he, word_facts.2.2.2.2.2.1] at hlw; cases hlw
  have hne' : '.' ≠ name.getLast hne := by
    intro he; rw [← he, word_facts.2.2.2.2.2.1] at hlw; cases hlw
  simp [str, List.isPrefixOf, hne']

theorem lineIndent_nonspace {c : Char} (cs : Str) (h : isSpace c = false) : lineIndent (c :: cs) = 0 := by
  simp [lineIndent, countWs_cons_nonspace cs h]

theorem lineIndent_nil : lineIndent [] = 0 := rfl

theorem wfParam_spec {p : SPart} (h : wfParam p = true) :
    wfWord p.name = true ∧ pyLower p.name ≠ str Gen.tagReturns ∧ p.name ≠ str "Varargs" ∧ wfPartBody p = true := by
  simp only [wfParam, Bool.and_eq_true, bne_iff_ne, ne_eq] at h
  exact ⟨h.1.1.1, h.1.1.2, h.1.2, h.2⟩

/-- a parameter line of the writer, read inside the identifier or parameter part -/
theorem lineBody_param (h : Hdr) (st : BSt) (blk : BlockM) (ln col : Nat) (orig tail : Str) (p : SPart)
    (hp : wfParam p = true) (ht : FieldTail tail (partFields p)) (hb : st.block = some blk)
    (hin : st.inPart = some .ident ∨ st.inPart = some .params) (hnew : assocHas blk.params p.name = false) :
    lineBody h st ln col orig ('@' :: p.name ++ ':' :: tail) =
      .ok { st with partIndent := some 0, inPart := some .params,
                    block := some (setParam blk (partRaw p.name p ln)), cur := some (false, partRaw p.name p ln) } := by
  obtain ⟨hw, hnr, hnv, hbody⟩ := wfParam_spec hp
  obtain ⟨g, hg, hgn, hgf⟩ := matchParameter_line p.name tail (partFields p) hw ht
  unfold lineBody
  rw [hb]
  simp only [hg]
  rw [show lineIndent ('@' :: p.name ++ ':' :: tail) = 0 from lineIndent_nonspace _ at_facts]
  unfold paramStep
  simp only [hgn, hgf]
  obtain ⟨r, hr, happ, _, hfd⟩ := applyFirstFields_part p.name p ln (col + groupStart g "fields") hbody
  rw [hr]
  have hd1 : (if st.inPart = some InPart.ident ∨ st.inPart = some InPart.params then ([] : List BDiag)
      else [mkDiag .warning .paramUnexpected ln (groupStart g "parameter_name" + col) orig]) = [] := by
    simp [hin]
  simp only [hd1, BSt.log_nil, hnr, if_false, hnv, decide_false, endsWith_dots_word p.name hw, Bool.false_and, Bool.or_false,
    Bool.false_eq_true, hnew, List.append_nil, List.nil_append, happ, hfd, BSt.log_nil]


/-! ### blank lines, description lines -/

theorem matchParameter_nil : matchParameter [] = none := by simp [matchParameter, countWs, countWhile]

theorem matchParameter_not_at {c : Char} (cs : Str) (hs : isSpace c = false) (hc : c ≠ '@') :
    matchParameter (c :: cs) = none := by
  unfold matchParameter
  rw [countWs_cons_nonspace cs hs]
  simp only [List.drop_zero]
  split
  · rename_i h; simp only [List.cons.injEq] at h; exact absurd h.1 hc
  · rfl

theorem matchTagFrom_nil : ∀ (ts : List String), (∀ t ∈ ts, t.toList ≠ []) → matchTagFrom [] 0 ts = none
  | [], _ => rfl
  | t :: ts, h => by
    rw [matchTagFrom]
    have : tagAltAt ([] : Str) t.toList = false := by
      cases ht : t.toList with
      | nil => exact absurd ht (h t (by simp))
      | cons c cs => rfl
    simp only [List.drop_nil, this, Bool.false_eq_true, if_false]
    exact matchTagFrom_nil ts (fun x hx => h x (by simp [hx]))

theorem allTags_nonempty : ∀ t ∈ Gen.allTags, t.toList ≠ [] := by decide +kernel

theorem matchTag_nil : matchTag [] = none := by
  unfold matchTag
  exact matchTagFrom_nil _ allTags_nonempty

/-- the empty comment line that ends the identifier / parameter part -/
theorem lineBody_blank_first (h : Hdr) (st : BSt) (blk : BlockM) (ln col : Nat) (orig : Str) (hb : st.block = some blk)
    (hin : st.inPart = some .ident ∨ st.inPart = some .params) :
    lineBody h st ln col orig [] = .ok { st with inPart := some .desc, partIndent := some 0 } := by
  unfold lineBody
  rw [hb]
  simp only [matchParameter_nil, lineIndent_nil]
  have : (matchEmpty [] && (st.inPart = some .ident || st.inPart = some .params)) = true := by
    rcases hin with h | h <;> simp [matchEmpty, h]
  simp [this]

/-- an empty comment line inside the description part -/
theorem lineBody_blank_desc (h : Hdr) (st : BSt) (blk : BlockM) (ln col : Nat) (orig : Str) (hb : st.block = some blk)
    (hin : st.inPart = some .desc) :
    lineBody h st ln col orig [] =
      .ok { st with block := some { blk with description := appendDesc blk.description [] } } := by
  unfold lineBody
  rw [hb]
  simp only [matchParameter_nil, matchTag_nil, hin]
  unfold middleStep
  simp [hin, matchEmpty]

theorem wfDescLine_spec {l : Str} (h : wfDescLine l = true) :
    Trimmed l ∧ NoBreak l ∧ matchParameter l = none ∧ matchTag l = none := by
  simp only [wfDescLine, Bool.and_eq_true, Option.isNone_iff_eq_none] at h
  obtain ⟨ht, hb⟩ := trimmedText_spec h.1.1
  exact ⟨ht, hb, h.1.2, h.2⟩

theorem matchEmpty_trimmed {l : Str} (h : Trimmed l) : matchEmpty l = false := by
  obtain ⟨c, cs, he, hc⟩ := h.head
  rw [he]; simp [matchEmpty, hc]

/-- a line of the block description -/
theorem lineBody_desc (h : Hdr) (st : BSt) (blk : BlockM) (ln col : Nat) (orig l : Str) (hb : st.block = some blk)
    (hin : st.inPart = some .desc) (hl : wfDescLine l = true) :
    lineBody h st ln col orig l =
      .ok { st with block := some { blk with description := appendDesc blk.description l } } := by
  obtain ⟨ht, _, hp, htag⟩ := wfDescLine_spec hl
  unfold lineBody
  rw [hb]
  simp only [hp, htag, matchEmpty_trimmed ht, Bool.false_and, Bool.false_eq_true, if_false]
  unfold middleStep
  simp [hin, matchEmpty_trimmed ht, rstrip_trimmed ht]


/-! ### the `Returns:` line -/

theorem icase_dR : icaseMatch 'd' 'R' = false := by decide
theorem tagAlt_returns (rest : Str) : tagAltAt ('R' :: 'e' :: 't' :: 'u' :: 'r' :: 'n' :: 's' :: rest) "returns".toList = true := by
  have h1 : icaseMatch 'r' 'R' = true := by decide
  have h2 : icaseMatch 'e' 'e' = true := by decide
  have h3 : icaseMatch 't' 't' = true := by decide
  have h4 : icaseMatch 'u' 'u' = true := by decide
  have h5 : icaseMatch 'r' 'r' = true := by decide
  have h6 : icaseMatch 'n' 'n' = true := by decide
  have h7 : icaseMatch 's' 's' = true := by decide
  simp [tagAltAt, h1, h2, h3, h4, h5, h6, h7]
theorem matchTagFrom_skip (line : Str) (a : Nat) (t : String) (ts : List String)
    (h : tagAltAt (line.drop a) t.toList = false) : matchTagFrom line a (t :: ts) = matchTagFrom line a ts := by
  rw [matchTagFrom]; simp [h]
theorem matchTagFrom_hit (line : Str) (a : Nat) (t : String) (ts : List String) (e : Nat)
    (h : tagAltAt (line.drop a) t.toList = true) (hc : colonAfterWs ((line.drop a).drop t.length) = some e) :
    matchTagFrom line a (t :: ts) = some [("tag_name", a, a + t.length),
      ("fields", (trimmedSpan (a + t.length + e) (line.drop (a + t.length + e))).1, (trimmedSpan (a + t.length + e) (line.drop (a + t.length + e))).2)] := by
  rw [matchTagFrom]; simp only [h, if_true]; rw [hc]
theorem allTags_head : Gen.allTags = "deprecated" :: "returns" :: Gen.allTags.drop 2 := by decide
theorem len_returns : ("returns" : String).length = 7 := by decide
theorem matchTag_returns (rest : Str) :
    matchTag ('R' :: 'e' :: 't' :: 'u' :: 'r' :: 'n' :: 's' :: ':' :: rest) =
      some [("tag_name", 0, 7), ("fields", (trimmedSpan 8 rest).1, (trimmedSpan 8 rest).2)] := by
  unfold matchTag
  have hws : countWs ('R' :: 'e' :: 't' :: 'u' :: 'r' :: 'n' :: 's' :: ':' :: rest) = 0 := by
    simp [countWs, countWhile, show isSpace 'R' = false by decide]
  rw [hws, allTags_head]
  rw [matchTagFrom_skip _ _ _ _ (by simp [tagAltAt, icase_dR])]
  rw [matchTagFrom_hit _ 0 "returns" _ 1 (by simpa using tagAlt_returns (':' :: rest))
    (by simp [len_returns, colonAfterWs, countWs, countWhile, show isSpace ':' = false by decide])]
  simp [len_returns]

theorem returns_facts :
    pyLower (str "Returns") = str Gen.tagReturns ∧ pyCapitalize (str Gen.tagReturns) = str "Returns" ∧
    inTable Gen.deprecatedGiAnnTags (str Gen.tagReturns) = false ∧ str Gen.tagReturns ≠ str Gen.tagDescription ∧
    inTable Gen.tagReturnsFamily (str Gen.tagReturns) = true := by
  decide +kernel

/-- the `Returns:` line of the writer, read in the description part -/
theorem lineBody_returns (h : Hdr) (st : BSt) (blk : BlockM) (ln col : Nat) (orig tail : Str) (r : SPart)
    (hr : wfPartBody r = true) (ht : FieldTail tail (partFields r)) (hb : st.block = some blk)
    (hin : st.inPart = some .desc) (hpi : st.partIndent = some 0) (hrs : st.returnsSeen = false) :
    lineBody h st ln col orig (str "Returns" ++ ':' :: tail) =
      .ok { st with inPart := some .tags, returnsSeen := true,
                    block := some (setTag blk (partRaw (str Gen.tagReturns) r ln)),
                    cur := some (true, partRaw (str Gen.tagReturns) r ln) } := by
  have hline : str "Returns" ++ ':' :: tail = 'R' :: 'e' :: 't' :: 'u' :: 'r' :: 'n' :: 's' :: ':' :: tail := rfl
  unfold lineBody
  rw [hb, hline, matchParameter_not_at _ (by decide) (by decide), matchTag_returns tail,
    lineIndent_nonspace _ (show isSpace 'R' = false by decide)]
  have hme : matchEmpty ('R' :: 'e' :: 't' :: 'u' :: 'r' :: 'n' :: 's' :: ':' :: tail) = false := by
    simp [matchEmpty, show isSpace 'R' = false by decide]
  simp only [hme, Bool.false_and, Bool.false_eq_true, if_false, hpi, Nat.le_refl, if_true]
  unfold tagStep
  obtain ⟨hlow, _, hdep, hnd, hfam⟩ := returns_facts
  have hname : groupText ('R' :: 'e' :: 't' :: 'u' :: 'r' :: 'n' :: 's' :: ':' :: tail)
      [("tag_name", 0, 7), ("fields", (trimmedSpan 8 tail).1, (trimmedSpan 8 tail).2)] "tag_name" = str "Returns" := by
    simp [groupText, str]
  have hfields : groupText ('R' :: 'e' :: 't' :: 'u' :: 'r' :: 'n' :: 's' :: ':' :: tail)
      [("tag_name", 0, 7), ("fields", (trimmedSpan 8 tail).1, (trimmedSpan 8 tail).2)] "fields" = partFields r := by
    rcases ht with ⟨rfl, hF⟩ | ⟨rfl, hF⟩
    · rw [trimmedSpan_nil, hF]; simp [groupText]
    · rw [trimmedSpan_space_trimmed 8 space_isSpace hF]; simp [groupText]
  simp only [hname, hfields, hlow, hdep, Bool.false_eq_true, if_false, hnd, hfam, if_true]
  obtain ⟨x, hx, happ, _, hfd⟩ := applyFirstFields_part (str Gen.tagReturns) r ln
    (col + groupStart [("tag_name", 0, 7), ("fields", (trimmedSpan 8 tail).1, (trimmedSpan 8 tail).2)] "fields") hr
  rw [hx]
  simp [tagInPart, hin, hrs, happ, hfd]


/-! ### the writer's lines for a block of the grammar -/

theorem okChar_noBreak {c : Char} (h : okChar c = true) : c ≠ '\r' ∧ c ≠ '\n' := by
  simp only [okChar, cleanChar, Bool.or_eq_true, Bool.and_eq_true, Bool.not_eq_true', bne_iff_ne, ne_eq, beq_iff_eq] at h
  rcases h with h | h
  · constructor <;> intro he <;> subst he <;> exact absurd h.1.1.1.1 (by decide)
  · subst h; decide

theorem serializeAnnotation_noBreak (x : Str × Opts) (h : wfAnnotation x = true) : NoBreak (serializeAnnotation x) := by
  obtain ⟨htj, _⟩ := parseAnnotation_inner 0 x h
  rw [serializeAnnotation_inner]
  intro c hc
  simp only [List.cons_append, List.mem_cons, List.mem_append, List.mem_nil_iff, or_false] at hc
  rcases hc with rfl | hc | rfl
  · decide
  · exact okChar_noBreak (htj.ok c hc)
  · decide

theorem serializeAnnotations_noBreak : ∀ (a : Anns), (∀ x ∈ a, wfAnnotation x = true) → NoBreak (serializeAnnotations a)
  | [], _ => by intro c hc; simp [serializeAnnotations, join] at hc
  | [x], h => by rw [serializeAnnotations_singleton]; exact serializeAnnotation_noBreak x (h x (by simp))
  | x :: y :: t, h => by
    rw [serializeAnnotations_cons_cons]
    intro c hc
    simp only [List.mem_append, List.mem_cons] at hc
    rcases hc with hc | rfl | hc
    · exact serializeAnnotation_noBreak x (h x (by simp)) c hc
    · decide
    · exact serializeAnnotations_noBreak (y :: t) (fun z hz => h z (by simp [hz])) c hc

theorem splitChar_noSep (sep : Char) (s acc : Str) (h : sep ∉ s) : splitChar sep s acc = [acc.reverse ++ s] := by
  have := splitChar_token s [] acc h
  simpa [splitChar] using this

theorem noBreak_not_mem_lf {s : Str} (h : NoBreak s) : '\n' ∉ s := fun hm => (h _ hm).2 rfl

theorem wfWord_noBreak {n : Str} (h : wfWord n = true) : NoBreak n := by
  intro c hc
  have := isWord_ne ((wfWord_spec h).2 c hc)
  exact ⟨this.2.2.2.2.2.2.2.2.1, this.2.2.2.2.2.2.2.1⟩

theorem noBreak_append {a b : Str} (ha : NoBreak a) (hb : NoBreak b) : NoBreak (a ++ b) := by
  intro c hc
  rcases List.mem_append.mp hc with h | h
  · exact ha c h
  · exact hb c h

theorem noBreak_cons {c : Char} {s : Str} (hc : c ≠ '\r' ∧ c ≠ '\n') (hs : NoBreak s) : NoBreak (c :: s) := by
  intro x hx
  rcases List.mem_cons.mp hx with rfl | h
  · exact hc
  · exact hs x h

theorem noBreak_nil : NoBreak [] := by intro c hc; cases hc

/-- the text after the colon of a part line: a space and the fields, or nothing -/
def partTail (p : SPart) : Str := if (partFields p).isEmpty then [] else ' ' :: partFields p

theorem partFields_spec (p : SPart) (h : wfPartBody p = true) :
    NoBreak (partFields p) ∧ FieldTail (partTail p) (partFields p) := by
  have hiso := partFields_isEmpty p h
  simp only [wfPartBody, Bool.and_eq_true] at h
  obtain ⟨ha, hd⟩ := h
  obtain ⟨hwa, _⟩ := wfAnns_spec ha
  have hnbA := serializeAnnotations_noBreak p.anns hwa
  unfold partTail
  cases hd' : p.desc with
  | none =>
    cases hae : p.anns.isEmpty with
    | true =>
      have : partFields p = [] := by simp [partFields, hd', hae]
      rw [this]; exact ⟨noBreak_nil, Or.inl ⟨rfl, rfl⟩⟩
    | false =>
      have hne : p.anns ≠ [] := by intro h; rw [h] at hae; cases hae
      obtain ⟨m, hm⟩ := serializeAnnotations_shape p.anns hne
      have hpf : partFields p = serializeAnnotations p.anns ++ [':'] := by simp [partFields, hd', hae]
      rw [hpf]
      refine ⟨noBreak_append hnbA (noBreak_cons (by decide) noBreak_nil), ?_⟩
      have hie : (serializeAnnotations p.anns ++ [':']).isEmpty = false := by rw [hm]; rfl
      simp only [hie, Bool.false_eq_true, if_false]
      refine Or.inr ⟨rfl, ⟨'(', m ++ [')', ':'], by rw [hm]; simp, lpar_not_space⟩, ⟨serializeAnnotations p.anns, ':', rfl, colon_not_space⟩⟩
  | some d =>
    rw [hd'] at hd
    obtain ⟨htr, hnb, _⟩ := wfDescText_spec hd
    cases hae : p.anns.isEmpty with
    | true =>
      have hpf : partFields p = d := by simp [partFields, hd', hae]
      rw [hpf]
      have : d.isEmpty = false := by cases d with
        | nil => exact absurd rfl htr.ne_nil
        | cons _ _ => rfl
      simp only [this, Bool.false_eq_true, if_false]
      exact ⟨hnb, Or.inr ⟨rfl, htr⟩⟩
    | false =>
      have hne : p.anns ≠ [] := by intro h; rw [h] at hae; cases hae
      obtain ⟨m, hm⟩ := serializeAnnotations_shape p.anns hne
      have hpf : partFields p = serializeAnnotations p.anns ++ ':' :: ' ' :: d := by simp [partFields, hd', hae]
      rw [hpf]
      refine ⟨noBreak_append hnbA (noBreak_cons (by decide) (noBreak_cons (by decide) hnb)), ?_⟩
      have hie : (serializeAnnotations p.anns ++ ':' :: ' ' :: d).isEmpty = false := by rw [hm]; rfl
      simp only [hie, Bool.false_eq_true, if_false]
      obtain ⟨ds, x, hx, hxs⟩ := htr.last
      refine Or.inr ⟨rfl, ⟨'(', m ++ ')' :: ':' :: ' ' :: d, by rw [hm]; simp, lpar_not_space⟩,
        ⟨serializeAnnotations p.anns ++ ':' :: ' ' :: ds, x, by rw [hx]; simp, hxs⟩⟩


theorem descSuffix_trimmed {d : Str} (h : Trimmed d) : descSuffix d = ':' :: ' ' :: d := by
  obtain ⟨c, cs, he, hc⟩ := h.head
  subst he
  unfold descSuffix
  split
  · rename_i h2; simp only [List.cons.injEq] at h2; rw [h2.1] at hc; exact absurd hc (by decide)
  · rfl

/-- head ++ (annotations) ++ (description or colon), as both serializers build it -/
theorem partLine_image (head name : Str) (p : SPart) (ln : Nat) (h : wfPartBody p = true) :
    (let P := partImage name p ln
     let s := if P.annotations.isEmpty then head else head ++ ':' :: ' ' :: serializeAnnotations P.annotations
     if truthy P.description then s ++ descSuffix (P.description.getD []) else s ++ [':']) = head ++ ':' :: partTail p := by
  have hh := h
  simp only [wfPartBody, Bool.and_eq_true] at hh
  obtain ⟨_, hd⟩ := hh
  unfold partTail partFields partImage
  cases hd' : p.desc with
  | none =>
    cases hae : p.anns.isEmpty with
    | true => simp [truthy, hae]
    | false => simp [truthy, hae]
  | some d =>
    rw [hd'] at hd
    obtain ⟨htr, _, _⟩ := wfDescText_spec hd
    have hne : d.isEmpty = false := by cases d with
      | nil => exact absurd rfl htr.ne_nil
      | cons _ _ => rfl
    cases hae : p.anns.isEmpty with
    | true => simp [truthy, hae, hne, descSuffix_trimmed htr]
    | false => simp [truthy, hae, hne, descSuffix_trimmed htr]

theorem partTail_noBreak (p : SPart) (h : wfPartBody p = true) : NoBreak (partTail p) := by
  obtain ⟨hnb, _⟩ := partFields_spec p h
  unfold partTail
  split
  · exact noBreak_nil
  · exact noBreak_cons (by decide) hnb

theorem serializeParameter_image (p : SPart) (ln : Nat) (hp : wfParam p = true) :
    serializeParameter (partImage p.name p ln) = ['@' :: p.name ++ ':' :: partTail p] := by
  obtain ⟨hw, _, _, hbody⟩ := wfParam_spec hp
  unfold serializeParameter
  have := partLine_image ('@' :: p.name) p.name p ln hbody
  simp only [] at this
  have hname : (partImage p.name p ln).name = p.name := rfl
  simp only [hname]
  rw [this]
  have hnb : NoBreak ('@' :: p.name ++ ':' :: partTail p) :=
    noBreak_cons (by decide) (noBreak_append (wfWord_noBreak hw) (noBreak_cons (by decide) (partTail_noBreak p hbody)))
  rw [splitChar_noSep '\n' _ [] (noBreak_not_mem_lf hnb)]
  simp

theorem serializeTag_image (r : SPart) (ln : Nat) (hr : wfPartBody r = true) :
    serializeTag (partImage (str Gen.tagReturns) r ln) = [str "Returns" ++ ':' :: partTail r] := by
  unfold serializeTag
  have := partLine_image (str "Returns") (str Gen.tagReturns) r ln hr
  simp only [] at this
  have hname : (partImage (str Gen.tagReturns) r ln).name = str Gen.tagReturns := rfl
  have hval : (partImage (str Gen.tagReturns) r ln).value = none := rfl
  simp only [hname, hval, returns_facts.2.1]
  have hnb : NoBreak (str "Returns" ++ ':' :: partTail r) :=
    noBreak_append (wfWord_noBreak (by decide +kernel)) (noBreak_cons (by decide) (partTail_noBreak r hr))
  have hsp := splitChar_noSep '\n' _ [] (noBreak_not_mem_lf hnb)
  simp only [List.reverse_nil, List.nil_append] at hsp
  rw [← hsp, ← this]
  cases htd : truthy (partImage (str Gen.tagReturns) r ln).description with
  | true => simp [truthy]
  | false => simp [truthy]


/-- `'\n'.join(lines).split('\n') == lines` -/
theorem splitChar_join_lf : ∀ (ls : List Str), ls ≠ [] → (∀ l ∈ ls, NoBreak l) →
    splitChar '\n' (join ['\n'] ls) [] = ls
  | [], h, _ => absurd rfl h
  | [t], _, hw => by
    rw [join_singleton, splitChar_noSep '\n' t [] (noBreak_not_mem_lf (hw t (by simp)))]; simp
  | t :: u :: us, _, hw => by
    rw [join_cons_cons]
    have h1 := splitChar_token (sep := '\n') t (['\n'] ++ join ['\n'] (u :: us)) [] (noBreak_not_mem_lf (hw t (by simp)))
    rw [List.append_assoc, h1]
    simp only [List.append_nil, List.singleton_append, splitChar, if_true, List.reverse_reverse]
    rw [splitChar_join_lf (u :: us) (by simp) (fun x hx => hw x (by simp [hx]))]

def paramLine (p : SPart) : Str := '@' :: p.name ++ ':' :: partTail p
def returnsLine (r : SPart) : Str := str "Returns" ++ ':' :: partTail r

/-- the body lines the writer produces for the image of a block model -/
def bodyOf (b : SBlock) : List Str :=
  identLine b.name b.anns :: b.params.map paramLine
    ++ (if b.desc.isEmpty then [] else [] :: b.desc)
    ++ (match b.returns with
        | none => []
        | some r => [[], returnsLine r])

theorem paramImages_lines : ∀ (ps : List SPart) (ln : Nat), (∀ p ∈ ps, wfParam p = true) →
    ((paramImages ps ln).map (fun e => serializeParameter e.2)).flatten = ps.map paramLine
  | [], _, _ => rfl
  | p :: ps, ln, h => by
    simp only [paramImages, List.map_cons, List.flatten_cons, serializeParameter_image p ln (h p (by simp))]
    rw [paramImages_lines ps (ln + 1) (fun q hq => h q (by simp [hq]))]
    rfl

structure WfSBlock (b : SBlock) : Prop where
  name : wfWord b.name = true
  notSA : NotSection b.name
  anns : wfAnns b.anns = true
  params : ∀ p ∈ b.params, wfParam p = true
  nodup : nodupKeys (b.params.map (fun p => (p.name, ()))) = true
  desc : ∀ l ∈ b.desc, wfDescLine l = true
  returns : ∀ r, b.returns = some r → wfPartBody r = true

theorem wfSBlock_spec {b : SBlock} (h : wfSBlock b = true) : WfSBlock b := by
  simp only [wfSBlock, Bool.and_eq_true, Bool.not_eq_true', List.all_eq_true] at h
  obtain ⟨⟨⟨⟨⟨⟨h1, h2⟩, h4⟩, h5⟩, h6⟩, h7⟩, h8⟩ := h
  refine ⟨h1, h2, h4, h5, h6, h7, ?_⟩
  intro r hr
  rw [hr] at h8
  exact h8

theorem hasPrefix_mem : ∀ (s p : Str), hasPrefix s p = true → ∀ c ∈ p, c ∈ s
  | _, [], _ => fun _ hc => by cases hc
  | [], _ :: _, h => by simp [hasPrefix] at h
  | x :: xs, p :: ps, h => by
    simp only [hasPrefix, Bool.and_eq_true, beq_iff_eq] at h
    intro c hc
    rcases List.mem_cons.mp hc with rfl | hc
    · rw [h.1]; simp
    · exact List.mem_cons_of_mem _ (hasPrefix_mem xs ps h.2 c hc)

/-- a name made of word characters is not of the form `ACTION:Class:group.action` -/
theorem matchActionName_word (name : Str) (hw : wfWord name = true) : matchActionName name = none := by
  unfold matchActionName
  cases hp : hasPrefix name (str "ACTION:") with
  | false => rfl
  | true =>
    have hm := hasPrefix_mem name (str "ACTION:") hp ':' (by decide)
    exact absurd rfl (isWord_ne ((wfWord_spec hw).2 ':' hm)).1

theorem startsWith_section_colon (name : Str) (h : NotSection name) : startsWith name (str "SECTION:") = false := by
  cases hs : startsWith name (str "SECTION:") with
  | false => rfl
  | true =>
    unfold NotSection at h
    have h1 : hasPrefix name (str "SECTION") = false := by rw [hasPrefix_eq_isPrefixOf]; exact h
    have h2 : hasPrefix name (str "SECTION:") = true := by rw [hasPrefix_eq_isPrefixOf]; exact hs
    have : hasPrefix name (str "SECTION") = true := by
      have hgen : ∀ (s p q : Str), hasPrefix s (p ++ q) = true → hasPrefix s p = true := by
        intro s p
        induction p generalizing s with
        | nil => intros; simp [hasPrefix]
        | cons c cs ih =>
          intro q hq
          cases s with
          | nil => simp [hasPrefix] at hq
          | cons x xs =>
            simp only [List.cons_append, hasPrefix, Bool.and_eq_true] at hq ⊢
            exact ⟨hq.1, ih xs q hq.2⟩
      exact hgen name (str "SECTION") [':'] h2
    rw [this] at h1; cases h1

theorem bodyLines_image (b : SBlock) (n : Nat) (inds : List Str) (h : WfSBlock b) :
    bodyLines (blockImage b n inds) = bodyOf b := by
  have hident : identifierLine (blockImage b n inds) = identLine b.name b.anns := by
    unfold identifierLine
    have hname : (blockImage b n inds).name = b.name := rfl
    have hanns : (blockImage b n inds).annotations = b.anns := rfl
    rw [hname, hanns, startsWith_section_colon b.name h.notSA, matchActionName_word b.name h.name]
    rfl
  unfold bodyLines
  simp only []
  rw [hident]
  unfold bodyOf blockImage
  simp only []
  rw [paramImages_lines b.params (n + 2) h.params]
  congr 1
  congr 1
  · -- the description
    cases hd : b.desc with
    | nil => simp [truthy]
    | cons l ls =>
      have hnb : ∀ x ∈ l :: ls, NoBreak x := fun x hx => (wfDescLine_spec (h.desc x (by rw [hd]; exact hx))).2.1
      have hne : (join ['\n'] (l :: ls)).isEmpty = false := by
        have hl := (wfDescLine_spec (h.desc l (by rw [hd]; simp))).1.ne_nil
        cases l with
        | nil => exact absurd rfl hl
        | cons c cs => cases ls <;> rfl
      simp [truthy, hne, splitChar_join_lf (l :: ls) (by simp) hnb]
  · -- the tags
    cases hr : b.returns with
    | none => simp
    | some r => simp [serializeTag_image r _ (h.returns r hr), returnsLine]


/-! ### indentation in front of a parameter / tag line -/

/-- all group positions moved `k` columns to the right -/
def shiftGroups (k : Nat) (g : List Group) : List Group := g.map (fun e => (e.1, e.2.1 + k, e.2.2 + k))

theorem countWs_append_ws (ws line : Str) (h : ∀ c ∈ ws, isSpace c = true) :
    countWs (ws ++ line) = ws.length + countWs line := by
  induction ws with
  | nil => simp
  | cons c cs ih =>
    simp only [List.cons_append, countWs, countWhile, h c (by simp), if_true, List.length_cons]
    have := ih (fun x hx => h x (by simp [hx]))
    simp only [countWs] at this
    omega

theorem trimmedSpan_shift (k off : Nat) (s : Str) :
    trimmedSpan (off + k) s = ((trimmedSpan off s).1 + k, (trimmedSpan off s).2 + k) := by
  simp only [trimmedSpan]
  congr 1 <;> omega

theorem matchParameter_indent (ws line : Str) (h : ∀ c ∈ ws, isSpace c = true) :
    matchParameter (ws ++ line) = (matchParameter line).map (shiftGroups ws.length) := by
  unfold matchParameter
  rw [countWs_append_ws ws line h]
  simp only []
  rw [drop_len_add]
  split
  · rename_i rest hd
    split
    · rfl
    · rename_i n e halt
      have hdrop : (ws ++ line).drop (ws.length + countWs line + 1 + e) = line.drop (countWs line + 1 + e) := by
        rw [show ws.length + countWs line + 1 + e = ws.length + (countWs line + 1 + e) by omega, drop_len_add]
      have e1 : ws.length + countWs line + 1 = countWs line + 1 + ws.length := by omega
      have e2 : countWs line + 1 + ws.length + n = countWs line + 1 + n + ws.length := by omega
      have e3 : countWs line + 1 + ws.length + e = countWs line + 1 + e + ws.length := by omega
      rw [hdrop, e1, e2, e3, trimmedSpan_shift]
      rfl
  · rfl

theorem matchTagFrom_indent (ws line : Str) (a : Nat) : ∀ (ts : List String),
    matchTagFrom (ws ++ line) (ws.length + a) ts = (matchTagFrom line a ts).map (shiftGroups ws.length)
  | [] => rfl
  | t :: ts => by
    rw [matchTagFrom, matchTagFrom, drop_len_add]
    split
    · split
      · rename_i e he
        have hdrop : (ws ++ line).drop (ws.length + a + t.length + e) = line.drop (a + t.length + e) := by
          rw [show ws.length + a + t.length + e = ws.length + (a + t.length + e) by omega, drop_len_add]
        have e1 : ws.length + a = a + ws.length := by omega
        have e2 : a + ws.length + t.length = a + t.length + ws.length := by omega
        have e3 : a + t.length + ws.length + e = a + t.length + e + ws.length := by omega
        rw [hdrop, e1, e2, e3, trimmedSpan_shift]
        rfl
      · exact matchTagFrom_indent ws line a ts
    · exact matchTagFrom_indent ws line a ts

theorem matchTag_indent (ws line : Str) (h : ∀ c ∈ ws, isSpace c = true) :
    matchTag (ws ++ line) = (matchTag line).map (shiftGroups ws.length) := by
  unfold matchTag
  rw [countWs_append_ws ws line h]
  exact matchTagFrom_indent ws line _ _

theorem matchEmpty_indent (ws line : Str) (h : ∀ c ∈ ws, isSpace c = true) : matchEmpty (ws ++ line) = matchEmpty line := by
  simp only [matchEmpty, List.all_append]
  have : ws.all isSpace = true := List.all_eq_true.mpr h
  simp [this]


end GIVerif.AnnParse
