/- Helper lemmas for the block-level round trip (C10): what the line matchers return on the
   lines the project's own writer emits for a block of the stated grammar (Spec/BlockGrammar). -/
import GIVerif.Spec.BlockGrammar
import GIVerif.Lemmas.AnnParseMatchers
import GIVerif.Lemmas.AnnParseRoundtrip
import GIVerif.Lemmas.AnnParseLines

namespace GIVerif.AnnParse
open GIVerif.Py

/-! ### characters -/

theorem whitespace_not_word :
    ∀ n ∈ Gen.pyWhitespace, (Gen.pyWordRanges.any (fun r => r.1 ≤ n && n ≤ r.2)) = false := by
  decide +kernel

theorem isWord_not_space {c : Char} (h : isWord c = true) : isSpace c = false := by
  cases hs : isSpace c with
  | false => rfl
  | true =>
    have hm : c.toNat ∈ Gen.pyWhitespace := by simpa [isSpace] using hs
    have := whitespace_not_word c.toNat hm
    simp only [isWord] at h
    rw [this] at h
    cases h

theorem word_facts : isWord ':' = false ∧ isWord '(' = false ∧ isWord ')' = false ∧ isWord '@' = false ∧
    isWord '|' = false ∧ isWord '.' = false ∧ isWord '-' = false ∧ isWord '*' = false ∧ isWord '/' = false := by
  decide +kernel

theorem isWord_ne {c : Char} (h : isWord c = true) :
    c ≠ ':' ∧ c ≠ '(' ∧ c ≠ ')' ∧ c ≠ '@' ∧ c ≠ '|' ∧ c ≠ '.' ∧ c ≠ '-' ∧ c ≠ '\n' ∧ c ≠ '\r' ∧ c ≠ ' ' := by
  have hs := isWord_not_space h
  obtain ⟨h1, h2, h3, h4, h5, h6, h7, _, _⟩ := word_facts
  refine ⟨?_, ?_, ?_, ?_, ?_, ?_, ?_, ?_, ?_, ?_⟩ <;> intro he <;> subst he <;> first
    | (rw [h1] at h; cases h) | (rw [h2] at h; cases h) | (rw [h3] at h; cases h) | (rw [h4] at h; cases h)
    | (rw [h5] at h; cases h) | (rw [h6] at h; cases h) | (rw [h7] at h; cases h)
    | (revert hs; decide)

theorem colon_not_space : isSpace ':' = false := by decide
theorem lpar_not_space : isSpace '(' = false := by decide
theorem rpar_not_space : isSpace ')' = false := by decide
theorem at_not_space : isSpace '@' = false := by decide

/-! ### white space counting, trimming -/

theorem countWs_cons_nonspace {c : Char} (cs : Str) (h : isSpace c = false) : countWs (c :: cs) = 0 := by
  simp [countWs, countWhile, h]

theorem countWs_nil : countWs [] = 0 := rfl

theorem countWs_space_cons {c : Char} (cs : Str) (h : isSpace c = true) : countWs (c :: cs) = countWs cs + 1 := by
  simp [countWs, countWhile, h]

/-- text with no white space at either end -/
structure Trimmed (s : Str) : Prop where
  head : ∃ c cs, s = c :: cs ∧ isSpace c = false
  last : ∃ cs c, s = cs ++ [c] ∧ isSpace c = false

theorem Trimmed.ne_nil {s : Str} (h : Trimmed s) : s ≠ [] := by
  obtain ⟨c, cs, he, _⟩ := h.head; rw [he]; simp

theorem lstrip_trimmed {s : Str} (h : Trimmed s) : lstrip s = s := by
  obtain ⟨c, cs, he, hc⟩ := h.head
  rw [he]; exact lstrip_cons_of_not_space hc

theorem rstrip_trimmed {s : Str} (h : Trimmed s) : rstrip s = s := by
  obtain ⟨cs, c, he, hc⟩ := h.last
  rw [he]; exact rstrip_append_of_not_space hc

theorem strip_trimmed {s : Str} (h : Trimmed s) : strip s = s := by
  unfold strip; rw [lstrip_trimmed h, rstrip_trimmed h]

theorem countWs_trimmed {s : Str} (h : Trimmed s) : countWs s = 0 := by
  obtain ⟨c, cs, he, hc⟩ := h.head
  rw [he]; exact countWs_cons_nonspace cs hc

theorem lstrip_space_cons {c : Char} (s : Str) (h : isSpace c = true) : lstrip (c :: s) = lstrip s := by
  simp [lstrip, List.dropWhile, h]

theorem rstrip_cons_trimmed (c : Char) {s : Str} (h : Trimmed s) : rstrip (c :: s) = c :: s := by
  obtain ⟨cs, x, he, hx⟩ := h.last
  rw [he, ← List.cons_append]; exact rstrip_append_of_not_space hx

theorem strip_space_trimmed {c : Char} {s : Str} (hc : isSpace c = true) (h : Trimmed s) : strip (c :: s) = s := by
  unfold strip
  rw [lstrip_space_cons s hc, lstrip_trimmed h, rstrip_trimmed h]

theorem strip_nonspace_cons {c : Char} {s : Str} (hc : isSpace c = false) (h : Trimmed s) : strip (c :: s) = c :: s := by
  unfold strip
  rw [lstrip_cons_of_not_space hc, rstrip_cons_trimmed c h]

theorem strip_nil : strip [] = [] := rfl

theorem trimmed_cons {c : Char} {s : Str} (hc : isSpace c = false) (h : Trimmed s) : Trimmed (c :: s) := by
  obtain ⟨cs, x, he, hx⟩ := h.last
  exact ⟨⟨c, s, rfl, hc⟩, ⟨c :: cs, x, by rw [he]; simp, hx⟩⟩

theorem trimmed_append {a b : Str} (ha : Trimmed a) (hb : Trimmed b) : Trimmed (a ++ b) := by
  obtain ⟨c, cs, he, hc⟩ := ha.head
  obtain ⟨ds, d, hd, hdd⟩ := hb.last
  exact ⟨⟨c, cs ++ b, by rw [he]; simp, hc⟩, ⟨a ++ ds, d, by rw [hd]; simp, hdd⟩⟩

theorem trimmedSpan_nil (off : Nat) : trimmedSpan off [] = (off, off) := by
  simp [trimmedSpan, countWs, countWhile, rstrip]

theorem trimmedSpan_trimmed (off : Nat) {s : Str} (h : Trimmed s) : trimmedSpan off s = (off, off + s.length) := by
  simp [trimmedSpan, countWs_trimmed h, rstrip_trimmed h]

theorem trimmedSpan_space_trimmed (off : Nat) {c : Char} {s : Str} (hc : isSpace c = true) (h : Trimmed s) :
    trimmedSpan off (c :: s) = (off + 1, off + 1 + s.length) := by
  simp [trimmedSpan, countWs_space_cons s hc, countWs_trimmed h, rstrip_trimmed h]

/-! ### group access on literal group lists -/

theorem drop_append_len (p q : Str) : (p ++ q).drop p.length = q := List.drop_left' rfl

theorem take_len_append (p q : Str) : (p ++ q).take p.length = p := List.take_left' rfl

theorem drop_take_mid (p m q : Str) : ((p ++ (m ++ q)).drop p.length).take m.length = m := by
  rw [drop_append_len, take_len_append]

theorem drop_len_add (p q : Str) (k : Nat) : (p ++ q).drop (p.length + k) = q.drop k := by
  induction p with
  | nil => simp
  | cons c cs ih => simp [Nat.succ_add, ih]

theorem hasPrefix_eq_isPrefixOf : ∀ (s p : Str), hasPrefix s p = p.isPrefixOf s
  | _, [] => by simp [hasPrefix]
  | [], _ :: _ => by simp [hasPrefix]
  | c :: cs, p :: ps => by
    simp only [hasPrefix, List.isPrefixOf, hasPrefix_eq_isPrefixOf cs ps]
    rw [Bool.beq_comm]

/-- a literal made of word characters is a prefix of `name ++ ':' :: _` only if it is one of `name` -/
theorem hasPrefix_word_append : ∀ (name rest P : Str) (c : Char), isWord c = false → (∀ x ∈ P, isWord x = true) →
    hasPrefix (name ++ c :: rest) P = hasPrefix name P
  | [], rest, [], c, _, _ => by simp [hasPrefix]
  | [], rest, p :: ps, c, hc, hP => by
    have hp := hP p (by simp)
    have : (c == p) = false := by
      simp only [beq_eq_false_iff_ne, ne_eq]; intro he; rw [he, hp] at hc; cases hc
    simp [hasPrefix, this]
  | x :: xs, rest, [], c, _, _ => by simp [hasPrefix]
  | x :: xs, rest, p :: ps, c, hc, hP => by
    simp only [List.cons_append, hasPrefix]
    rw [hasPrefix_word_append xs rest ps c hc (fun y hy => hP y (by simp [hy]))]

theorem wfWord_spec {n : Str} (h : wfWord n = true) : n ≠ [] ∧ ∀ c ∈ n, isWord c = true := by
  simp only [wfWord, Bool.and_eq_true, Bool.not_eq_true', List.isEmpty_eq_false_iff, List.all_eq_true] at h
  exact ⟨by simpa using h.1, h.2⟩

theorem countWs_word_append {n : Str} (rest : Str) (h : wfWord n = true) : countWs (n ++ rest) = 0 := by
  obtain ⟨hne, hw⟩ := wfWord_spec h
  cases n with
  | nil => exact absurd rfl hne
  | cons c cs => exact countWs_cons_nonspace _ (isWord_not_space (hw c (by simp)))

theorem countWhile_word_stop {n : Str} (c : Char) (rest : Str) (h : wfWord n = true) (hc : isWord c = false) :
    countWhile isWord (n ++ c :: rest) = n.length :=
  countWhile_append_stop isWord n c rest (wfWord_spec h).2 hc


end GIVerif.AnnParse
